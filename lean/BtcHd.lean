-- This module serves as the root of the `BtcHd` library.
-- Import modules here that should be built as part of the library.
import BtcHd.Basic
