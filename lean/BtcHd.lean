-- Root of the library: every model, lemma and property module.
import BtcHd.Model.Wallet
import BtcHd.Prims.Sha
import BtcHd.Prims.Secp256k1
import BtcHd.Props.C10
