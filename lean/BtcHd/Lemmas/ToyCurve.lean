/-
A toy instance of the abstract `Curve` / `Prims` interface satisfying `CurveLaws`:
the cyclic group Z/5 with "points" written like SEC encodings.  Its only purpose is to
show that the hypothesis bundles of the C07 / C09 theorems are satisfiable (non-vacuity);
nothing about secp256k1 is claimed here.
-/
import BtcHd.Lemmas.BeFixed
import BtcHd.Lemmas.CurveLaws

namespace BtcHd.Toy
open BtcHd BeFixed

/-- "point" `p` stands for `p·G` in Z/5; `0` (and junk ≥ 2^256) plays the point at infinity -/
def curve : Curve Nat where
  n := 5
  mulGen k := k % 5
  add a b := (a + b) % 5
  isInf p := decide (p = 0 ∨ 256 ^ 32 ≤ p)
  sec c p := if c then 2 :: beFixed 32 p else 4 :: beFixed 64 p
  parse bs :=
    match bs with
    | [] => none
    | b :: rest =>
      if (b = 2 ∧ rest.length = 32) ∨ (b = 4 ∧ rest.length = 64) then
        (if beToNat rest = 0 ∨ 256 ^ 32 ≤ beToNat rest then none else some (beToNat rest))
      else none

def prims : Prims Nat where
  sha256 _ := List.replicate 32 7
  hmac512 _ _ := List.replicate 64 1
  pbkdf2 _ _ _ := List.replicate 64 2
  nfkd s := s
  curve := curve

theorem hash256_length (x : Bytes) : (prims.hash256 x).length = 32 := by
  simp [Prims.hash256, prims]

theorem laws : CurveLaws curve where
  n_pos := by decide
  n_lt := by show 5 < 2 ^ 256; decide
  sec_len := by intro pt _; simp [curve, beFixed_length]
  parse_sec := by
    intro c pt hinf
    have hpt : pt ≠ 0 ∧ pt < 256 ^ 32 := by
      simp only [curve, decide_eq_true_eq, not_or, Nat.not_le] at hinf
      exact hinf
    have h64 : pt < 256 ^ 64 := Nat.lt_trans hpt.2 (by decide)
    cases c with
    | true =>
      have hv : beToNat (beFixed 32 pt) = pt := beToNat_beFixed hpt.2
      simp only [curve, if_true, beFixed_length, hv]
      rw [if_pos (by simp), if_neg (by omega)]
    | false =>
      have hv : beToNat (beFixed 64 pt) = pt := beToNat_beFixed h64
      simp only [curve, Bool.false_eq_true, if_false, beFixed_length, hv]
      rw [if_pos (by simp), if_neg (by omega)]
  sec_parse := by
    intro bs pt hl hp
    cases bs with
    | nil => simp at hl
    | cons b rest =>
      have hr : rest.length = 32 := by simpa using hl
      simp only [curve] at hp ⊢
      split at hp
      · next hc =>
        split at hp
        · cases hp
        · have hb : b = 2 := by
            rcases hc with ⟨h, _⟩ | ⟨_, h⟩
            · exact h
            · omega
          simp only [Option.some.injEq] at hp
          subst hp hb
          simp [beFixed_beToNat hr]
      · cases hp
  parse_notInf := by
    intro bs pt hp
    cases bs with
    | nil => simp [curve] at hp
    | cons b rest =>
      simp only [curve] at hp ⊢
      split at hp
      · split at hp
        · cases hp
        · next hne =>
          simp only [Option.some.injEq] at hp
          subst hp
          simpa using hne
      · cases hp
  mulGen_notInf := by
    intro k h0 hk
    have hk5 : k < 5 := hk
    have : (256 : Nat) ^ 32 > 5 := by decide
    simp only [curve, decide_eq_true_eq, not_or, Nat.not_le]
    omega
  sec_prefix := by intro pt _; left; simp [curve]

end BtcHd.Toy
