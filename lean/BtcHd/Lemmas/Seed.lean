/-
Helper lemmas for C03: UTF-8 of ASCII text, the master node is well-formed, and the
network flag commutes with child derivation.
-/
import BtcHd.Lemmas.XKey
import BtcHd.Lemmas.Bip32
import BtcHd.Model.Wallet

namespace BtcHd.Text
open BtcHd

theorem utf8_append (a b : List Char) : utf8 (a ++ b) = utf8 a ++ utf8 b := by
  unfold utf8; rw [List.flatMap_append]

theorem utf8Char_ascii {c : Char} (h : c.toNat < 128) : utf8Char c = [UInt8.ofNat c.toNat] := by
  unfold utf8Char
  simp only
  rw [if_pos h]

/-- UTF-8 of ASCII text is one byte per character, the code point itself -/
theorem utf8_ascii (s : List Char) (h : ∀ c ∈ s, c.toNat < 128) :
    utf8 s = s.map fun c => UInt8.ofNat c.toNat := by
  induction s with
  | nil => rfl
  | cons c cs ih =>
    unfold utf8 at ih ⊢
    rw [List.flatMap_cons, utf8Char_ascii (h c (List.mem_cons_self ..)),
      ih fun x hx => h x (List.mem_cons_of_mem _ hx)]
    rfl

/-- number of bytes of one code point: 1, 2, 3 or 4 by range -/
theorem utf8Char_length (c : Char) :
    (utf8Char c).length =
      if c.toNat < 0x80 then 1 else if c.toNat < 0x800 then 2 else if c.toNat < 0x10000 then 3
      else 4 := by
  unfold utf8Char
  simp only
  split
  · rfl
  · split
    · rfl
    · split <;> rfl

/-- the model's encoder is the UTF-8 encoder of Lean's core library -/
theorem utf8Char_eq_core (c : Char) : utf8Char c = String.utf8EncodeChar c := by
  have hv : c.toNat < 0x110000 := by
    have := c.valid
    unfold UInt32.isValidChar Nat.isValidChar at this
    unfold Char.toNat
    omega
  unfold utf8Char String.utf8EncodeChar
  simp only
  have e : c.val.toNat = c.toNat := rfl
  rw [e]
  generalize c.toNat = n at hv ⊢
  by_cases h1 : n < 0x80
  · rw [if_pos h1, if_pos (show n ≤ 0x7f by omega)]
  · rw [if_neg h1, if_neg (show ¬ n ≤ 0x7f by omega)]
    by_cases h2 : n < 0x800
    · rw [if_pos h2, if_pos (show n ≤ 0x7ff by omega)]
      have a1 : 0xC0 + n / 64 = n / 64 % 0x20 + 0xc0 := by omega
      have a2 : 0x80 + n % 64 = n % 0x40 + 0x80 := by omega
      rw [a1, a2]
    · rw [if_neg h2, if_neg (show ¬ n ≤ 0x7ff by omega)]
      by_cases h3 : n < 0x10000
      · rw [if_pos h3, if_pos (show n ≤ 0xffff by omega)]
        have a1 : 0xE0 + n / 4096 = n / 4096 % 0x10 + 0xe0 := by omega
        have a2 : 0x80 + n / 64 % 64 = n / 64 % 0x40 + 0x80 := by omega
        have a3 : 0x80 + n % 64 = n % 0x40 + 0x80 := by omega
        rw [a1, a2, a3]
      · rw [if_neg h3, if_neg (show ¬ n ≤ 0xffff by omega)]
        have a0 : 0xF0 + n / 262144 = n / 262144 % 0x08 + 0xf0 := by omega
        have a1 : 0x80 + n / 4096 % 64 = n / 4096 % 0x40 + 0x80 := by omega
        have a2 : 0x80 + n / 64 % 64 = n / 64 % 0x40 + 0x80 := by omega
        have a3 : 0x80 + n % 64 = n % 0x40 + 0x80 := by omega
        rw [a0, a1, a2, a3]

end BtcHd.Text

namespace BtcHd.Bip32
open BtcHd Keys

variable {Pt : Type}

/-- the same node on the other network -/
def setNet (t : Bool) (nd : Node) : Node := { nd with testnet := t }

theorem setNet_testnet (t : Bool) (nd : Node) : (setNet t nd).testnet = t := rfl
theorem setNet_self (nd : Node) : setNet nd.testnet nd = nd := rfl
theorem setNet_setNet (t t' : Bool) (nd : Node) : setNet t (setNet t' nd) = setNet t nd := rfl

theorem prvKey_setNet (P : Prims Pt) (t : Bool) (nd : Node) :
    prvKey P (setNet t nd) = prvKey P nd := rfl

theorem pubKey_setNet (P : Prims Pt) (t : Bool) (nd : Node) :
    pubKey P (setNet t nd) = pubKey P nd := rfl

theorem mkChild_setNet (t : Bool) (nd : Node) (key chain : Bytes) (i : Nat) (fp : Bytes) :
    mkChild (setNet t nd) key chain i fp = setNet t (mkChild nd key chain i fp) := rfl

theorem ckdPrv_setNet (P : Prims Pt) (t : Bool) (nd : Node) (i : Nat) :
    ckdPrv P (setNet t nd) i = (ckdPrv P nd i).map (setNet t) := by
  unfold ckdPrv
  rw [prvKey_setNet]
  cases prvKey P nd with
  | none => rfl
  | some k =>
    cases toBytesBE 4 i with
    | none => rfl
    | some idx4 =>
      simp only [Option.bind_some]
      have hcc : (setNet t nd).chainCode = nd.chainCode := rfl
      rw [hcc]
      split_ifs <;> first | rfl | (rw [Option.map_map]; rfl)

theorem ckdPub_setNet (P : Prims Pt) (t : Bool) (nd : Node) (i : Nat) :
    ckdPub P (setNet t nd) i = (ckdPub P nd i).map (setNet t) := by
  unfold ckdPub
  split
  · rfl
  · cases toBytesBE 4 i with
    | none => rfl
    | some idx4 =>
      simp only [Option.bind_some]
      have hcc : (setNet t nd).chainCode = nd.chainCode := rfl
      have hk : (setNet t nd).key = nd.key := rfl
      rw [hcc, hk]
      split
      · rfl
      · generalize mkPriv P.curve
          ((P.hmac512 nd.chainCode (nd.key ++ idx4)).take 32) = r
        cases r with
        | none => rfl
        | some il =>
          cases P.curve.parse nd.key with
          | none => rfl
          | some K =>
            simp only [Option.bind_some]
            split <;> rfl

theorem ckd_setNet (P : Prims Pt) (t : Bool) (nd : Node) (i : Nat) :
    ckd P (setNet t nd) i = (ckd P nd i).map (setNet t) := by
  unfold ckd
  have : (setNet t nd).isPrv = nd.isPrv := rfl
  rw [this]
  split
  · exact ckdPrv_setNet P t nd i
  · exact ckdPub_setNet P t nd i

theorem derivePath_setNet (P : Prims Pt) (t : Bool) (nd : Node) (is : List Nat) :
    derivePath P (setNet t nd) is = (derivePath P nd is).map (setNet t) := by
  induction is generalizing nd with
  | nil => rfl
  | cons i is ih =>
    unfold derivePath
    rw [ckd_setNet]
    cases ckd P nd i with
    | none => rfl
    | some c => exact ih c

theorem ckdPrv_testnet {P : Prims Pt} {nd c : Node} {i : Nat} (h : ckdPrv P nd i = some c) :
    c.testnet = nd.testnet := by
  unfold ckdPrv at h
  simp only [Option.bind_eq_some_iff] at h
  obtain ⟨k, _, idx, _, h⟩ := h
  split_ifs at h
  all_goals
    rw [Option.map_eq_some_iff] at h
    obtain ⟨kb, _, rfl⟩ := h
    rfl

theorem ckdPub_testnet {P : Prims Pt} {nd c : Node} {i : Nat} (h : ckdPub P nd i = some c) :
    c.testnet = nd.testnet := by
  unfold ckdPub at h
  split_ifs at h
  simp only [Option.bind_eq_some_iff] at h
  obtain ⟨idx, _, h⟩ := h
  split_ifs at h
  simp only [Option.bind_eq_some_iff] at h
  obtain ⟨il, _, K, _, h⟩ := h
  split_ifs at h
  cases h
  rfl

/-- a child is on the network of its parent -/
theorem ckd_testnet {P : Prims Pt} {nd c : Node} {i : Nat} (h : ckd P nd i = some c) :
    c.testnet = nd.testnet := by
  unfold ckd at h
  split at h
  · exact ckdPrv_testnet h
  · exact ckdPub_testnet h

theorem masterKey_def (P : Prims Pt) (seed : Bytes) (t : Bool) :
    masterKey P seed t =
      if beToNat ((P.hmac512 Generated.masterKeyHmacKey seed).take 32) = 0 then none
      else if beToNat ((P.hmac512 Generated.masterKeyHmacKey seed).take 32) ≥ P.curve.n then none
      else some { isPrv := true, key := (P.hmac512 Generated.masterKeyHmacKey seed).take 32,
                  chainCode := (P.hmac512 Generated.masterKeyHmacKey seed).drop 32, depth := 0,
                  index := 0, testnet := t, hasParent := false, parentFp := none, path := [],
                  parsedVersion := none } := rfl

theorem masterKey_setNet (P : Prims Pt) (seed : Bytes) (t t' : Bool) :
    masterKey P seed t = (masterKey P seed t').map (setNet t) := by
  rw [masterKey_def, masterKey_def]
  split
  · rfl
  · split <;> rfl

/-- the master node built from a 64-byte HMAC output is well-formed -/
theorem masterKey_WF {P : Prims Pt}
    (hhmac : ∀ k d, (P.hmac512 k d).length = 64) {seed : Bytes} {t : Bool} {m : Node}
    (h : masterKey P seed t = some m) : m.WF P := by
  rw [masterKey_def] at h
  split at h
  · cases h
  · split at h
    · cases h
    · next h0 h1 =>
      injection h with h
      subst h
      have hl := hhmac Generated.masterKeyHmacKey seed
      have hlt : ((P.hmac512 Generated.masterKeyHmacKey seed).take 32).length = 32 := by
        rw [List.length_take]; omega
      exact {
        chain_len := by simp only [List.length_drop]; omega
        fp_len := rfl
        depth_lt := by show 0 < 256; decide
        index_lt := by show 0 < 2 ^ 32; decide
        key_prv := fun _ => ⟨_, Nat.pos_of_ne_zero h0, Nat.lt_of_not_le h1,
          Or.inl (BeFixed.beFixed_beToNat hlt).symm⟩
        key_pub := fun hp => by cases hp }

end BtcHd.Bip32
