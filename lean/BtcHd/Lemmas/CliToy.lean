/-
A toy instance of `Prims` (cyclic group Z/1000003 written like SEC encodings, constant
"hashes") on which whole CLI runs can be evaluated by the kernel.  Its only purpose is
non-vacuity of the C20 theorems: it shows that `run` does emit reports (also for an interval
above 2^31, known finding K2).  Nothing about secp256k1 / SHA-2 is claimed here.
-/
import BtcHd.Model.Cli

namespace BtcHd.CliToy
open BtcHd Cli

def curve : Curve Nat where
  n := 1000003
  mulGen k := k % 1000003
  add a b := (a + b) % 1000003
  isInf p := decide (p = 0)
  sec c p := if c then 2 :: beFixed 32 p else 4 :: beFixed 64 p
  parse bs :=
    match bs with
    | [] => none
    | b :: rest =>
      if (b = 2 ∧ rest.length = 32) ∨ (b = 4 ∧ rest.length = 64) then
        (if beToNat rest = 0 ∨ 1000003 ≤ beToNat rest then none else some (beToNat rest))
      else none

def prims : Prims Nat where
  sha256 _ := List.replicate 32 7
  hmac512 _ d := beFixed 32 (1 + d.length) ++ beFixed 32 (2 + d.length)
  pbkdf2 _ _ _ := List.replicate 64 2
  nfkd s := s
  curve := curve

/-- a stand-in for `os.urandom` -/
def osRandom (n : Nat) : Bytes := List.replicate n 5

/-- a 128-character seed argument -/
def seedHex : List Char := (List.replicate 64 "0f".toList).flatten

def isEmit : Outcome → Bool
  | .emit _ _ => true
  | _ => false

def emitsTo : Outcome → Option Target
  | .emit t _ => some t
  | _ => none

end BtcHd.CliToy
