/-
The facts about secp256k1 / python-ecdsa that the extended-key and key-encoding
theorems (C07, C09, and via them C02/C14) rely on.  The curve is an abstract
parameter of the model; these facts are *hypotheses* of theorems, never axioms.
-/
import BtcHd.Model.Curve

namespace BtcHd

variable {Pt : Type}

/-- Laws of the curve interface (all true of secp256k1 as implemented by python-ecdsa):
* `n_pos`, `n_lt`       : the group order satisfies `1 < n < 2^256`;
* `sec_len`             : a compressed SEC encoding of a finite point is 33 bytes;
* `parse_sec`           : `VerifyingKey.from_string(to_string(enc)) ` gives the point back (both forms);
* `sec_parse`           : the only 33-byte string parsing to `pt` is its compressed encoding;
* `parse_notInf`        : parsing never yields the point at infinity;
* `mulGen_notInf`       : `k·G ≠ ∞` for `0 < k < n` (`G` has order `n`);
* `sec_prefix`          : a compressed encoding starts with `02` or `03`. -/
structure CurveLaws (C : Curve Pt) : Prop where
  n_pos : 1 < C.n
  n_lt : C.n < 2 ^ 256
  sec_len : ∀ pt, ¬ C.isInf pt → (C.sec true pt).length = 33
  parse_sec : ∀ c pt, ¬ C.isInf pt → C.parse (C.sec c pt) = some pt
  sec_parse : ∀ bs pt, bs.length = 33 → C.parse bs = some pt → C.sec true pt = bs
  parse_notInf : ∀ bs pt, C.parse bs = some pt → ¬ C.isInf pt
  mulGen_notInf : ∀ k, 0 < k → k < C.n → ¬ C.isInf (C.mulGen k)
  sec_prefix : ∀ pt, ¬ C.isInf pt →
    (C.sec true pt).head? = some 2 ∨ (C.sec true pt).head? = some 3

end BtcHd
