/-
Helper lemmas about the RIPEMD-160 model (`Model/Ripemd.lean`) for C05: the padding
length, the Merkle–Damgård structure of the two-phase loop, the output encoding.
-/
import BtcHd.Model.Ripemd

namespace BtcHd.RipemdL
open BtcHd Ripemd

/-! ### vocabulary used in the C05 statements -/

/-- the padded message of the RIPEMD-160 / MD4-family specification: the data, one byte `0x80`,
`padLen` zero bytes, and the bit length as a 64-bit little-endian integer -/
def padded (data : Bytes) : Bytes :=
  data ++ [0x80] ++ List.replicate (padLen data.length) 0 ++ leFixed 8 (8 * data.length)

/-- the digest of a chaining state: the five words, each as four little-endian bytes -/
def out (s : State) : Bytes :=
  leFixed 4 s.h0.toNat ++ leFixed 4 s.h1.toNat ++ leFixed 4 s.h2.toNat ++ leFixed 4 s.h3.toNat ++
    leFixed 4 s.h4.toNat

/-- the `i`-th 64-byte block of a message -/
def block (msg : Bytes) (i : Nat) : Bytes := (msg.drop (64 * i)).take 64

/-- the plain Merkle–Damgård iteration: fold `compress` over the blocks `0 .. n-1` of `msg` -/
def mdIter (n : Nat) (s : State) (msg : Bytes) : State :=
  (List.range n).foldl (fun st i => compress st (block msg i)) s

/-! ### padding length -/

theorem padLen_lt (l : Nat) : padLen l < 64 := by
  unfold padLen; omega

theorem padLen_total (l : Nat) : (l + 1 + padLen l + 8) % 64 = 0 := by
  unfold padLen; omega

theorem padLen_least (l p : Nat) (h : (l + 1 + p + 8) % 64 = 0) : padLen l ≤ p := by
  unfold padLen; omega

/-- on Python integers `(119 - len) & 63` is the floor-mod residue of `119 - len` -/
theorem padLen_int (l : Nat) : ((119 : Int) - (l : Int)) % 64 = (padLen l : Int) := by
  unfold padLen; omega

/-! ### lengths -/

theorem leFixed_length (len n : Nat) : (leFixed len n).length = len := by
  induction len generalizing n with
  | zero => rfl
  | succ k ih => simp [leFixed, ih]

theorem padded_length (data : Bytes) :
    (padded data).length = data.length + 1 + padLen data.length + 8 := by
  simp only [padded, List.length_append, List.length_cons, List.length_nil,
    List.length_replicate, leFixed_length]

theorem padded_length_mod (data : Bytes) : (padded data).length % 64 = 0 := by
  rw [padded_length]; exact padLen_total _

theorem finBlock_length (data : Bytes) :
    (finBlock data).length = data.length % 64 + 1 + padLen data.length + 8 := by
  simp only [finBlock, List.length_append, List.length_drop, List.length_cons, List.length_nil,
    List.length_replicate, leFixed_length]
  omega

theorem padded_eq (data : Bytes) :
    padded data = data.take (64 * (data.length / 64)) ++ finBlock data := by
  unfold padded finBlock
  simp only [List.append_assoc]
  rw [← List.append_assoc (List.take _ data), List.take_append_drop]

/-! ### `absorb` is the block-by-block iteration -/

theorem absorb_append (m k : Nat) (s : State) (a b : Bytes) (h : a.length = 64 * m) :
    absorb (m + k) s (a ++ b) = absorb k (absorb m s a) b := by
  induction m generalizing s a with
  | zero =>
    have : a = [] := List.length_eq_zero_iff.mp (by omega)
    subst this
    simp [absorb]
  | succ m ih =>
    rw [Nat.add_right_comm]
    simp only [absorb]
    have h1 : (a ++ b).take 64 = a.take 64 := by
      rw [List.take_append_of_le_length (by omega)]
    have h2 : (a ++ b).drop 64 = a.drop 64 ++ b := List.drop_append_of_le_length (by omega)
    rw [h1, h2, ih _ _ (by rw [List.length_drop]; omega)]

/-- `absorb m` reads only the first `64 * m` bytes -/
theorem absorb_take (m : Nat) (s : State) (d : Bytes) (h : 64 * m ≤ d.length) :
    absorb m s d = absorb m s (d.take (64 * m)) := by
  have := absorb_append m 0 s (d.take (64 * m)) (d.drop (64 * m))
    (by rw [List.length_take]; omega)
  rw [List.take_append_drop] at this
  simpa [absorb] using this

/-- the recursion of `absorb` is the left fold of `compress` over the consecutive blocks -/
theorem absorb_eq_mdIter (n : Nat) (s : State) (msg : Bytes) :
    absorb n s msg = mdIter n s msg := by
  induction n generalizing s msg with
  | zero => simp [absorb, mdIter]
  | succ n ih =>
    simp only [absorb]
    rw [ih]
    simp only [mdIter, List.range_succ_eq_map, List.foldl_cons, List.foldl_map]
    have h0 : block msg 0 = msg.take 64 := by simp [block]
    have hb : ∀ i, block (msg.drop 64) i = block msg (i + 1) := by
      intro i
      simp only [block, List.drop_drop]
      have : 64 + 64 * i = 64 * (i + 1) := by omega
      rw [this]
    simp only [h0, hb]

/-! ### the two-phase loop is one pass over the padded message -/

theorem leFixed_four (n : Nat) : leFixed 4 n =
    [UInt8.ofNat (n % 256), UInt8.ofNat (n / 256 % 256), UInt8.ofNat (n / 256 / 256 % 256),
      UInt8.ofNat (n / 256 / 256 / 256 % 256)] := rfl

theorem u32LE_eq (w : UInt32) : u32LE w = leFixed 4 w.toNat := by
  rw [leFixed_four]
  simp only [u32LE, List.cons.injEq, and_true]
  refine ⟨?_, ?_, ?_, ?_⟩ <;> apply UInt8.toNat_inj.mp <;>
    simp [UInt32.toNat_shiftRight, Nat.shiftRight_eq_div_pow] <;> omega

theorem ripemd160_eq (data : Bytes) :
    ripemd160 data = out (absorb ((padded data).length / 64) initState (padded data)) := by
  have hlen : (padded data).length / 64 = data.length / 64 + (finBlock data).length / 64 := by
    rw [padded_length, finBlock_length]; omega
  have hm : 64 * (data.length / 64) ≤ data.length := by omega
  rw [hlen, padded_eq, absorb_append _ _ _ _ _ (by rw [List.length_take]; omega),
    ← absorb_take _ _ _ hm]
  simp only [ripemd160, out, u32LE_eq]

/-! ### the inputs of the compression function -/

/-- `rol` is the 32-bit left rotation for every amount `0 < i < 32` -/
theorem rol_eq_rotateLeft (x : UInt32) (i : Nat) (h0 : 0 < i) (h : i < 32) :
    (rol x i).toBitVec = x.toBitVec.rotateLeft i := by
  rw [BitVec.rotateLeft_def]
  simp [rol]
  rw [Nat.mod_eq_of_lt h, Nat.mod_eq_of_lt (by omega)]

private theorem or4_comm (x y z w : Nat) : x ||| y ||| z ||| w = w ||| (z ||| (y ||| x)) := by
  rw [Nat.or_comm (x ||| y ||| z) w, Nat.or_comm (x ||| y) z, Nat.or_comm x y]

/-- a message word is the little-endian integer of its four bytes -/
theorem le32_toNat (a b c d : UInt8) : (le32 a b c d).toNat = leToNat [a, b, c, d] := by
  have ha := a.toNat_lt
  have hb := b.toNat_lt
  have hc := c.toNat_lt
  have hd := d.toNat_lt
  have e1 : d.toNat <<< 24 ||| (c.toNat <<< 16 ||| (b.toNat <<< 8 ||| a.toNat)) =
     ((d.toNat <<< 8 + c.toNat) <<< 8 + b.toNat) <<< 8 + a.toNat := by
    rw [Nat.shiftLeft_add_eq_or_of_lt (i := 8) (by simpa using ha),
      Nat.shiftLeft_add_eq_or_of_lt (i := 8) (by simpa using hb),
      Nat.shiftLeft_add_eq_or_of_lt (i := 8) (by simpa using hc)]
    simp [Nat.shiftLeft_or_distrib, ← Nat.shiftLeft_add, Nat.or_assoc]
  have hb' : b.toNat <<< 8 % 4294967296 = b.toNat <<< 8 :=
    Nat.mod_eq_of_lt (by rw [Nat.shiftLeft_eq]; omega)
  have hc' : c.toNat <<< 16 % 4294967296 = c.toNat <<< 16 :=
    Nat.mod_eq_of_lt (by rw [Nat.shiftLeft_eq]; omega)
  have hd' : d.toNat <<< 24 % 4294967296 = d.toNat <<< 24 :=
    Nat.mod_eq_of_lt (by rw [Nat.shiftLeft_eq]; omega)
  simp [le32, leToNat]
  rw [hb', hc', hd', or4_comm, e1]
  simp only [Nat.shiftLeft_eq]
  omega

theorem wordsLE_length (bs : Bytes) : (wordsLE bs).length = bs.length / 4 := by
  fun_induction wordsLE bs with
  | case1 a b c d rest ih => simp only [List.length_cons, ih]; omega
  | case2 bs h =>
    have : bs.length < 4 := by
      match bs, h with
      | [], _ => simp
      | [_], _ => simp
      | [_, _], _ => simp
      | [_, _, _], _ => simp
      | a :: b :: c :: d :: rest, h => exact absurd rfl (h a b c d rest)
    simp only [List.length_nil]; omega

theorem wordsLE_getD (bs : Bytes) (i : Nat) (h : 4 * i + 4 ≤ bs.length) :
    ((wordsLE bs).getD i 0).toNat = leToNat ((bs.drop (4 * i)).take 4) := by
  induction i generalizing bs with
  | zero =>
    match bs, h with
    | a :: b :: c :: d :: rest, _ => simp [wordsLE, le32_toNat]
  | succ i ih =>
    match bs, h with
    | a :: b :: c :: d :: rest, h =>
      have h' : 4 * i + 4 ≤ rest.length := by simp only [List.length_cons] at h; omega
      have hd : (a :: b :: c :: d :: rest).drop (4 * (i + 1)) = rest.drop (4 * i) := by
        rw [show 4 * (i + 1) = 4 * i + 1 + 1 + 1 + 1 by omega]; rfl
      rw [hd, ← ih rest h']
      simp [wordsLE]

end BtcHd.RipemdL
