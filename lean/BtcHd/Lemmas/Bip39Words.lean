/-
Helper lemmas for C04, word-list part: kernel-checked facts about the frozen official
list (`Official.wordNums`, `Official.words`), `" ".join` / `split(" ")`, word lookup.
-/
import BtcHd.Lemmas.Bip39
import BtcHd.Official.Wordlist

namespace BtcHd.Bip39
open BtcHd

/-! ### kernel-checked facts about the frozen list -/

theorem official_length : Official.wordNums.length = 2048 := by decide +kernel

set_option maxRecDepth 100000 in
theorem generated_eq_official : Generated.wordNums = Official.wordNums := by decide +kernel

set_option maxRecDepth 100000 in
/-- every entry has 3 to 8 letters, all in `a`..`z` -/
theorem official_shape_check :
    Official.wordNums.all (fun w => decide (w < 256 ^ 8) &&
      (wordCharsF 8 w).all (fun c => decide ('a' ≤ c) && decide (c ≤ 'z')) &&
      decide (3 ≤ (wordCharsF 8 w).length)) = true := by decide +kernel

set_option maxRecDepth 100000 in
theorem official_chain_check :
    chainFrom [] (Official.wordNums.map (wordCharsF 8)) = true := by decide +kernel

theorem official_lt {w : Nat} (h : w ∈ Official.wordNums) : w < 256 ^ 8 := by
  have := List.all_eq_true.mp official_shape_check w h
  simp only [Bool.and_eq_true, decide_eq_true_eq] at this
  exact this.1.1

theorem official_wordChars {w : Nat} (h : w ∈ Official.wordNums) :
    wordChars w = wordCharsF 8 w := wordChars_eq_fuel 8 w (official_lt h)

theorem official_letters {w : Nat} (h : w ∈ Official.wordNums) :
    ∀ c ∈ wordChars w, 'a' ≤ c ∧ c ≤ 'z' := by
  have := List.all_eq_true.mp official_shape_check w h
  simp only [Bool.and_eq_true, decide_eq_true_eq, List.all_eq_true] at this
  rw [official_wordChars h]
  exact this.1.2

theorem official_word_length {w : Nat} (h : w ∈ Official.wordNums) :
    3 ≤ (wordChars w).length := by
  have := List.all_eq_true.mp official_shape_check w h
  simp only [Bool.and_eq_true, decide_eq_true_eq] at this
  rw [official_wordChars h]
  exact this.2

theorem official_no_space {w : Nat} (h : w ∈ Official.wordNums) : ' ' ∉ wordChars w := by
  intro hc
  have := (official_letters h ' ' hc).1
  exact absurd this (by decide)

theorem official_map_wordChars :
    Official.wordNums.map wordChars = Official.wordNums.map (wordCharsF 8) :=
  List.map_congr_left fun _ h => official_wordChars h

/-- the words, as strings, are strictly increasing (code-point lexicographic order) -/
theorem official_sorted : (Official.wordNums.map wordChars).Pairwise (· < ·) := by
  rw [official_map_wordChars]
  exact (chainFrom_pairwise _ _ official_chain_check).2

/-! ### lookup -/

theorem wordAt_eq (i : Nat) : wordAt i = Official.wordNums[i]? := by
  unfold wordAt; rw [generated_eq_official]

theorem wordAt_of_lt {i : Nat} (h : i < 2048) :
    wordAt i = some (Official.wordNums[i]'(by rw [official_length]; exact h)) := by
  rw [wordAt_eq]; exact List.getElem?_eq_getElem _

theorem wordAt_none_of_ge {i : Nat} (h : 2048 ≤ i) : wordAt i = none := by
  rw [wordAt_eq]; exact List.getElem?_eq_none (by rw [official_length]; exact h)

theorem wordAt_mem {i w : Nat} (h : wordAt i = some w) : w ∈ Official.wordNums := by
  rw [wordAt_eq] at h; exact List.mem_of_getElem? h

/-- different positions hold different words (even as strings) -/
theorem wordChars_getElem_inj {i j : Nat} (hi : i < Official.wordNums.length)
    (hj : j < Official.wordNums.length)
    (h : wordChars Official.wordNums[i] = wordChars Official.wordNums[j]) : i = j := by
  have hp := List.pairwise_iff_getElem.mp official_sorted
  have key : ∀ a b (ha : a < Official.wordNums.length) (hb : b < Official.wordNums.length),
      a < b → wordChars Official.wordNums[a] ≠ wordChars Official.wordNums[b] := by
    intro a b ha hb hab heq
    have := hp a b (by simpa using ha) (by simpa using hb) hab
    simp only [List.getElem_map] at this
    rw [heq] at this
    exact List.lt_irrefl _ this
  rcases Nat.lt_trichotomy i j with hlt | heq | hgt
  · exact absurd h (key i j hi hj hlt)
  · exact heq
  · exact absurd h.symm (key j i hj hi hgt)

theorem mapM_wordAt (idx : List Nat) (h : ∀ i ∈ idx, i < 2048) :
    idx.mapM wordAt = some (idx.map (fun i => Official.wordNums[i]!)) := by
  induction idx with
  | nil => rfl
  | cons i idx ih =>
    have hi : i < 2048 := h i (List.mem_cons_self ..)
    have hi' : i < Official.wordNums.length := by rw [official_length]; exact hi
    rw [List.mapM_cons, ih (fun j hj => h j (List.mem_cons_of_mem _ hj)), wordAt_of_lt hi]
    simp [hi']

theorem mapM_wordAt_none (idx : List Nat) (h : ∃ i ∈ idx, 2048 ≤ i) : idx.mapM wordAt = none := by
  induction idx with
  | nil => simp at h
  | cons i idx ih =>
    rw [List.mapM_cons]
    by_cases hi : 2048 ≤ i
    · rw [wordAt_none_of_ge hi]; rfl
    · obtain ⟨j, hj, hj2⟩ := h
      rcases List.mem_cons.mp hj with rfl | hj
      · exact absurd hj2 hi
      · rw [ih ⟨j, hj, hj2⟩]
        cases wordAt i <;> rfl

end BtcHd.Bip39
