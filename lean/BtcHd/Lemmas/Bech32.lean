/-
Helper lemmas for C11 (codec half): the Bech32 checksum is self-consistent,
`convertbits` regroups a bit string without loss, and `bech32Decode` undoes
`bech32Encode`.
-/
import BtcHd.Lemmas.Digits
import BtcHd.Model.Bech32

namespace BtcHd.Bech32
open BtcHd Digits

theorem gen_lt (i : Nat) : gen i < 2 ^ 30 := by
  unfold gen
  match i with
  | 0 | 1 | 2 | 3 | 4 => decide
  | n + 5 => simp [Generated.polymodGen]

theorem bech32mConst_lt : bech32mConst < 2 ^ 30 := by decide
theorem bech32mConst_ne_one : bech32mConst ≠ 1 := by decide

theorem constOf_lt (s : Encoding) : constOf s < 2 ^ 30 := by
  cases s <;> decide

theorem polymodStep_xor (c v : Nat) : polymodStep c v = polymodStep c 0 ^^^ v := by
  simp only [polymodStep, Nat.xor_zero]
  ac_rfl

theorem polymodStep_lt {c v : Nat} (hv : v < 2 ^ 30) : polymodStep c v < 2 ^ 30 := by
  have hA : (c &&& 0x1ffffff) <<< 5 < 2 ^ 30 := by
    have : c &&& 0x1ffffff < 2 ^ 25 := Nat.and_lt_two_pow _ (by decide)
    rw [Nat.shiftLeft_eq]; omega
  have hg : ∀ (b : Prop) [Decidable b] (i : Nat), (if b then gen i else 0) < 2 ^ 30 := by
    intro b _ i; split
    · exact gen_lt i
    · decide
  simp only [polymodStep]
  repeat' apply Nat.xor_lt_two_pow
  all_goals first | exact hA | exact hv | exact hg _ _

/-- XOR-ing a 25-bit value into the state before a step = XOR-ing its shift after -/
theorem polymodStep_xor_low {c d : Nat} (v : Nat) (hd : d < 2 ^ 25) :
    polymodStep (c ^^^ d) v = polymodStep c v ^^^ (d <<< 5) := by
  have h1 : (c ^^^ d) >>> 25 = c >>> 25 := by
    rw [Nat.shiftRight_xor_distrib, Nat.shiftRight_eq_div_pow d, Nat.div_eq_of_lt hd, Nat.xor_zero]
  have h2 : (c ^^^ d) &&& 0x1ffffff = (c &&& 0x1ffffff) ^^^ d := by
    rw [Nat.and_xor_distrib_right]
    congr 1
    exact Nat.and_two_pow_sub_one_of_lt_two_pow (n := 25) hd
  simp only [polymodStep, h1, h2, Nat.shiftLeft_xor_distrib]
  ac_rfl


theorem shiftLeft5_xor {d s : Nat} (hs : s < 32) : (d <<< 5) ^^^ s = d * 32 + s := by
  apply Nat.eq_of_testBit_eq
  intro j
  have e : d * 32 + s = 2 ^ 5 * d + s := by omega
  rw [e, Nat.testBit_two_pow_mul_add _ (by omega : s < 2 ^ 5), Nat.testBit_xor, Nat.testBit_shiftLeft]
  by_cases hj : j < 5
  · simp [hj, Nat.not_le.mpr hj]
  · have : s.testBit j = false := Nat.testBit_lt_two_pow (by
      calc s < 2 ^ 5 := by omega
        _ ≤ 2 ^ j := Nat.pow_le_pow_right (by decide) (by omega))
    simp [hj, Nat.le_of_not_lt hj, this]

theorem and31 (x : Nat) : x &&& 31 = x % 32 := Nat.and_two_pow_sub_one_eq_mod x 5

theorem polymodStep_xor_low' {c d s : Nat} (hd : d < 2 ^ 25) (hs : s < 32) :
    polymodStep (c ^^^ d) s = polymodStep c 0 ^^^ (d * 32 + s) := by
  rw [polymodStep_xor_low s hd, polymodStep_xor c s, Nat.xor_assoc, Nat.xor_comm s, shiftLeft5_xor hs]

/-- feeding six 5-bit symbols = feeding six zeros and XOR-ing the 30-bit concatenation -/
theorem foldl_six {s0 s1 s2 s3 s4 s5 : Nat} (c : Nat) (h0 : s0 < 32) (h1 : s1 < 32) (h2 : s2 < 32)
    (h3 : s3 < 32) (h4 : s4 < 32) (h5 : s5 < 32) :
    [s0, s1, s2, s3, s4, s5].foldl polymodStep c =
      [0, 0, 0, 0, 0, 0].foldl polymodStep c
        ^^^ (((((s0 * 32 + s1) * 32 + s2) * 32 + s3) * 32 + s4) * 32 + s5) := by
  simp only [List.foldl_cons, List.foldl_nil]
  rw [polymodStep_xor c s0, polymodStep_xor_low' (by omega) h1, polymodStep_xor_low' (by omega) h2,
    polymodStep_xor_low' (by omega) h3, polymodStep_xor_low' (by omega) h4,
    polymodStep_xor_low' (by omega) h5]

theorem foldl_polymodStep_lt (l : List Nat) (hl : ∀ v ∈ l, v < 2 ^ 30) {c : Nat} (hc : c < 2 ^ 30) :
    l.foldl polymodStep c < 2 ^ 30 := by
  induction l generalizing c with
  | nil => exact hc
  | cons v t ih =>
    exact ih (fun w hw => hl w (List.mem_cons_of_mem _ hw)) (polymodStep_lt (hl v List.mem_cons_self))

theorem hrpExpand_lt (hrp : List Char) : ∀ v ∈ hrpExpand hrp, v < 2 ^ 30 := by
  intro v hv
  simp only [hrpExpand, List.mem_append, List.mem_map, List.mem_singleton] at hv
  rcases hv with (⟨c, _, rfl⟩ | rfl) | ⟨c, _, rfl⟩
  · have : c.toNat < 2 ^ 32 := c.val.toNat_lt
    rw [Nat.shiftRight_eq_div_pow]; omega
  · decide
  · rw [and31]; omega

theorem createChecksum_eq (hrp : List Char) (data : List Nat) (spec : Encoding) :
    createChecksum hrp data spec =
      let pm := polymod (hrpExpand hrp ++ data ++ [0, 0, 0, 0, 0, 0]) ^^^ constOf spec
      [pm >>> 25 &&& 31, pm >>> 20 &&& 31, pm >>> 15 &&& 31, pm >>> 10 &&& 31, pm >>> 5 &&& 31,
        pm >>> 0 &&& 31] := rfl

theorem createChecksum_lt (hrp : List Char) (data : List Nat) (spec : Encoding) :
    ∀ d ∈ createChecksum hrp data spec, d < 32 := by
  intro d hd
  simp only [createChecksum, List.mem_map] at hd
  obtain ⟨i, _, rfl⟩ := hd
  rw [and31]; omega

theorem createChecksum_length (hrp : List Char) (data : List Nat) (spec : Encoding) :
    (createChecksum hrp data spec).length = 6 := rfl

theorem polymod_append (a b : List Nat) : polymod (a ++ b) = b.foldl polymodStep (polymod a) := by
  simp only [polymod, List.foldl_append]

theorem polymod_checksum (hrp : List Char) (data : List Nat) (spec : Encoding)
    (hd : ∀ d ∈ data, d < 32) :
    polymod (hrpExpand hrp ++ (data ++ createChecksum hrp data spec)) = constOf spec := by
  have hZ : polymod (hrpExpand hrp ++ data ++ [0, 0, 0, 0, 0, 0]) < 2 ^ 30 := by
    apply foldl_polymodStep_lt _ _ (by decide)
    intro v hv
    simp only [List.mem_append] at hv
    rcases hv with (hv | hv) | hv
    · exact hrpExpand_lt hrp v hv
    · have := hd v hv; omega
    · simp at hv; omega
  have hpmlt : polymod (hrpExpand hrp ++ data ++ [0, 0, 0, 0, 0, 0]) ^^^ constOf spec < 2 ^ 30 :=
    Nat.xor_lt_two_pow hZ (constOf_lt spec)
  rw [createChecksum_eq]
  simp only
  have hZ' : polymod (hrpExpand hrp ++ data ++ [0, 0, 0, 0, 0, 0])
      = [0, 0, 0, 0, 0, 0].foldl polymodStep (polymod (hrpExpand hrp ++ data)) := by
    rw [polymod_append]
  have hx : ∀ k, (polymod (hrpExpand hrp ++ data ++ [0, 0, 0, 0, 0, 0]) ^^^ constOf spec) >>> k &&& 31 < 32 := by
    intro k; rw [and31]; omega
  rw [← List.append_assoc, polymod_append, foldl_six _ (hx _) (hx _) (hx _) (hx _) (hx _) (hx _),
    ← hZ']
  simp only [and31, Nat.shiftRight_eq_div_pow]
  generalize polymod (hrpExpand hrp ++ data ++ [0, 0, 0, 0, 0, 0]) = Z at hpmlt ⊢
  have : ((((((Z ^^^ constOf spec) / 2 ^ 25 % 32 * 32 + (Z ^^^ constOf spec) / 2 ^ 20 % 32) * 32 +
      (Z ^^^ constOf spec) / 2 ^ 15 % 32) * 32 + (Z ^^^ constOf spec) / 2 ^ 10 % 32) * 32 +
      (Z ^^^ constOf spec) / 2 ^ 5 % 32) * 32 + (Z ^^^ constOf spec) / 2 ^ 0 % 32) = Z ^^^ constOf spec := by
    generalize Z ^^^ constOf spec = pm at hpmlt
    omega
  rw [this, ← Nat.xor_assoc, Nat.xor_self, Nat.zero_xor]

theorem checksum_valid (hrp : List Char) (data : List Nat) (spec : Encoding)
    (hd : ∀ d ∈ data, d < 32) :
    verifyChecksum hrp (data ++ createChecksum hrp data spec) = some spec := by
  unfold verifyChecksum
  simp only [polymod_checksum hrp data spec hd]
  cases spec
  · simp [constOf]
  · simp [constOf, bech32mConst_ne_one]

/-! ### convertbits -/

theorem slice (x s t B : Nat) (h : s + t ≤ B) : x % 2 ^ B / 2 ^ s % 2 ^ t = x / 2 ^ s % 2 ^ t := by
  have e : 2 ^ B = 2 ^ s * 2 ^ (B - s) := by rw [← Nat.pow_add]; congr 1; omega
  rw [e, Nat.mod_mul_right_div_self, Nat.mod_mod_of_dvd]
  exact Nat.pow_dvd_pow 2 (by omega)

theorem mul_add_lt {x v F P : Nat} (hx : x < P) (hv : v < F) : x * F + v < P * F := by
  have : (x + 1) * F ≤ P * F := Nat.mul_le_mul_right F hx
  rw [Nat.add_mul] at this
  omega

theorem horner_snoc (b : Nat) (l : List Nat) (d acc : Nat) :
    horner b (l ++ [d]) acc = horner b l acc * b + d := by
  rw [horner_append]; rfl

theorem emit_spec (t acc N B : Nat) (ht : 0 < t) (hN : N % 2 ^ B = acc % 2 ^ B) :
    ∀ fuel b ret, b ≤ B → b / t < fuel → (∀ r ∈ ret, r < 2 ^ t) → horner (2 ^ t) ret 0 = N / 2 ^ b →
    ∃ b' ret', convStep.emit t (2 ^ t - 1) acc fuel b ret = (b', ret') ∧ b' < t ∧ b' ≤ b ∧
      ret'.length * t + b' = ret.length * t + b ∧ (∀ r ∈ ret', r < 2 ^ t) ∧
      horner (2 ^ t) ret' 0 = N / 2 ^ b' := by
  intro fuel
  induction fuel with
  | zero => intro b ret _ h; exact absurd h (Nat.not_lt_zero _)
  | succ fuel ih =>
    intro b ret hb hf hlt hv
    unfold convStep.emit
    by_cases hbt : b ≥ t
    · rw [if_pos hbt]
      have hdiv := Nat.div_eq_sub_div ht hbt
      have he : (acc >>> (b - t)) &&& (2 ^ t - 1) = N / 2 ^ (b - t) % 2 ^ t := by
        rw [Nat.and_two_pow_sub_one_eq_mod, Nat.shiftRight_eq_div_pow,
          ← slice acc (b - t) t B (by omega), ← hN, slice N (b - t) t B (by omega)]
      obtain ⟨b', ret', h1, h2, h2', h3, h4, h5⟩ := ih (b - t) (ret ++ [(acc >>> (b - t)) &&& (2 ^ t - 1)])
        (by omega) (by omega)
        (by
          intro r hr
          rcases List.mem_append.mp hr with hr | hr
          · exact hlt r hr
          · rw [List.mem_singleton] at hr
            rw [hr, he]; exact Nat.mod_lt _ (Nat.two_pow_pos t))
        (by
          rw [horner_snoc, hv, he]
          have e : 2 ^ b = 2 ^ (b - t) * 2 ^ t := by rw [← Nat.pow_add]; congr 1; omega
          rw [e, ← Nat.div_div_eq_div_mul]
          exact Nat.div_add_mod' _ _)
      refine ⟨b', ret', h1, h2, by omega, ?_, h4, h5⟩
      rw [h3, List.length_append, List.length_singleton, Nat.add_mul]
      omega
    · rw [if_neg hbt]
      exact ⟨b, ret, rfl, by omega, Nat.le_refl _, rfl, hlt, hv⟩

/-- loop invariant of `convertbits` after consuming `xs` -/
structure ConvInv (f t : Nat) (xs : List Nat) (st : Nat × Nat × List Nat) : Prop where
  bits_lt : st.2.1 < t
  len : st.2.2.length * t + st.2.1 = xs.length * f
  ret_lt : ∀ r ∈ st.2.2, r < 2 ^ t
  value : horner (2 ^ t) st.2.2 0 * 2 ^ st.2.1 + st.1 % 2 ^ st.2.1 = horner (2 ^ f) xs 0

theorem convInv_init (f t : Nat) (ht : 0 < t) : ConvInv f t [] (0, 0, []) :=
  ⟨ht, by simp, by simp, by simp [horner]⟩

theorem convInv_step {f t : Nat} (hf : 0 < f) (ht : 0 < t) {xs : List Nat} {st : Nat × Nat × List Nat}
    (h : ConvInv f t xs st) {v : Nat} (hv : v < 2 ^ f) :
    ConvInv f t (xs ++ [v]) (convStep f t st v) := by
  obtain ⟨a, bits, ret⟩ := st
  obtain ⟨h1, h2, h3, h4⟩ := h
  simp only at h1 h2 h3 h4
  -- the new accumulator
  have hacc : ((a <<< f) ||| v) &&& (2 ^ (f + t - 1) - 1) = (a * 2 ^ f + v) % 2 ^ (f + t - 1) := by
    rw [Nat.and_two_pow_sub_one_eq_mod, ← Nat.shiftLeft_add_eq_or_of_lt hv,
      Nat.shiftLeft_eq]
  have hlow : (a % 2 ^ bits) * 2 ^ f + v < 2 ^ bits * 2 ^ f :=
    mul_add_lt (Nat.mod_lt _ (Nat.two_pow_pos bits)) hv
  have hpow : 2 ^ (bits + f) = 2 ^ bits * 2 ^ f := Nat.pow_add ..
  -- the full value after appending `v`
  have hN' : horner (2 ^ f) (xs ++ [v]) 0 =
      horner (2 ^ t) ret 0 * 2 ^ (bits + f) + ((a % 2 ^ bits) * 2 ^ f + v) := by
    rw [horner_snoc, ← h4, hpow, Nat.add_mul, Nat.mul_assoc, Nat.add_assoc]
  have hmodacc : (a * 2 ^ f + v) % 2 ^ (f + t - 1) % 2 ^ (bits + f)
      = (a % 2 ^ bits) * 2 ^ f + v := by
    rw [Nat.mod_mod_of_dvd _ (Nat.pow_dvd_pow 2 (by omega)), hpow]
    conv_lhs => rw [← Nat.div_add_mod a (2 ^ bits)]
    rw [Nat.add_mul, Nat.add_assoc, Nat.mul_comm (2 ^ bits), Nat.mul_assoc, Nat.mul_comm _ (2 ^ bits * 2 ^ f),
      Nat.mul_add_mod, Nat.mod_eq_of_lt hlow]
  have hmodN : horner (2 ^ f) (xs ++ [v]) 0 % 2 ^ (bits + f)
      = (a * 2 ^ f + v) % 2 ^ (f + t - 1) % 2 ^ (bits + f) := by
    rw [hmodacc, hN', Nat.mul_comm, Nat.mul_add_mod, Nat.mod_eq_of_lt (by rw [hpow]; exact hlow)]
  have hdivN : horner (2 ^ t) ret 0 = horner (2 ^ f) (xs ++ [v]) 0 / 2 ^ (bits + f) := by
    rw [hN', Nat.mul_comm, Nat.mul_add_div (Nat.two_pow_pos _),
      Nat.div_eq_of_lt (by rw [hpow]; exact hlow), Nat.add_zero]
  obtain ⟨b', ret', e1, e2, hb', e3, e4, e5⟩ := emit_spec t _ _ (bits + f) ht hmodN ((bits + f) / t + 1) (bits + f) ret
    (Nat.le_refl _) (by omega) h3 hdivN
  have hstep : convStep f t (a, bits, ret) v = ((a * 2 ^ f + v) % 2 ^ (f + t - 1), b', ret') := by
    simp only [convStep, Nat.one_shiftLeft, hacc, e1]
  rw [hstep]
  refine ⟨e2, ?_, e4, ?_⟩
  · simp only [List.length_append, List.length_singleton, Nat.add_mul, Nat.one_mul]
    omega
  · simp only
    rw [e5]
    have : (a * 2 ^ f + v) % 2 ^ (f + t - 1) % 2 ^ b' = horner (2 ^ f) (xs ++ [v]) 0 % 2 ^ b' := by
      rw [← Nat.mod_mod_of_dvd (horner (2 ^ f) (xs ++ [v]) 0) (Nat.pow_dvd_pow 2 hb'), hmodN,
        Nat.mod_mod_of_dvd _ (Nat.pow_dvd_pow 2 hb')]
    rw [this]
    exact Nat.div_add_mod' _ _


theorem convInv_foldl {f t : Nat} (hf : 0 < f) (ht : 0 < t) (xs : List Nat) :
    ∀ (pre : List Nat) (st : Nat × Nat × List Nat), ConvInv f t pre st → (∀ v ∈ xs, v < 2 ^ f) →
      ConvInv f t (pre ++ xs) (xs.foldl (convStep f t) st) := by
  induction xs with
  | nil => intro pre st h _; simpa using h
  | cons v xs ih =>
    intro pre st h hx
    rw [List.foldl_cons, List.append_cons]
    exact ih _ _ (convInv_step hf ht h (hx v List.mem_cons_self))
      (fun w hw => hx w (List.mem_cons_of_mem _ hw))

theorem convInv_fold {f t : Nat} (hf : 0 < f) (ht : 0 < t) (xs : List Nat) (hx : ∀ v ∈ xs, v < 2 ^ f) :
    ConvInv f t xs (xs.foldl (convStep f t) (0, 0, [])) := by
  simpa using convInv_foldl hf ht xs [] _ (convInv_init f t ht) hx

theorem horner_inj {b : Nat} (hb : 1 < b) {xs ys : List Nat} (hlen : xs.length = ys.length)
    (hx : ∀ x ∈ xs, x < b) (hy : ∀ y ∈ ys, y < b) (h : horner b xs 0 = horner b ys 0) : xs = ys := by
  rw [horner_zero, horner_zero] at h
  have := Nat.ofDigits_inj_of_len_eq hb (by simpa using hlen)
    (fun l hl => hx l (List.mem_reverse.mp hl)) (fun l hl => hy l (List.mem_reverse.mp hl)) h
  exact List.reverse_injective this

/-- `convertbits` with the range check discharged -/
theorem convertbits_of_lt {f : Nat} {data : List Nat} (t : Nat) (pad : Bool) (hd : ∀ v ∈ data, v < 2 ^ f) :
    convertbits data f t pad =
      (let st := data.foldl (convStep f t) (0, 0, [])
       if pad then
         some (if st.2.1 ≠ 0 then st.2.2 ++ [(st.1 <<< (t - st.2.1)) &&& (2 ^ t - 1)] else st.2.2)
       else if st.2.1 ≥ f ∨ ((st.1 <<< (t - st.2.1)) &&& (2 ^ t - 1)) ≠ 0 then none
       else some st.2.2) := by
  have hany : data.any (fun v => (v >>> f) ≠ 0) = false := by
    rw [List.any_eq_false]
    intro v hv
    simp [Nat.shiftRight_eq_div_pow, Nat.div_eq_of_lt (hd v hv)]
  unfold convertbits
  rw [hany]
  simp only [Nat.one_shiftLeft]
  rfl

/-- the padding symbol: the low `bits` bits of `acc`, left-aligned in a `t`-bit group -/
theorem pad_value {t bits : Nat} (acc : Nat) (h : bits ≤ t) :
    (acc <<< (t - bits)) &&& (2 ^ t - 1) = (acc % 2 ^ bits) * 2 ^ (t - bits) := by
  have e : 2 ^ t = 2 ^ bits * 2 ^ (t - bits) := by rw [← Nat.pow_add]; congr 1; omega
  rw [Nat.and_two_pow_sub_one_eq_mod, Nat.shiftLeft_eq, e, Nat.mul_mod_mul_right]


/-- padded regrouping: the output spells the input value shifted left by the pad width -/
theorem convertbits_pad_spec {f t : Nat} (hf : 0 < f) (ht : 0 < t) (xs : List Nat)
    (hx : ∀ v ∈ xs, v < 2 ^ f) :
    ∃ out p, convertbits xs f t true = some out ∧ p < t ∧ out.length * t = xs.length * f + p ∧
      (∀ d ∈ out, d < 2 ^ t) ∧ horner (2 ^ t) out 0 = horner (2 ^ f) xs 0 * 2 ^ p := by
  have inv := convInv_fold hf ht xs hx
  rw [convertbits_of_lt t true hx]
  generalize xs.foldl (convStep f t) (0, 0, []) = st at inv
  obtain ⟨a, bits, ret⟩ := st
  obtain ⟨h1, h2, h3, h4⟩ := inv
  simp only at h1 h2 h3 h4
  simp only [if_true]
  by_cases hb : bits = 0
  · subst hb
    refine ⟨ret, 0, by simp, ht, by simpa using h2, h3, ?_⟩
    simpa [Nat.mod_one] using h4
  · refine ⟨ret ++ [(a <<< (t - bits)) &&& (2 ^ t - 1)], t - bits, by simp [hb], by omega, ?_, ?_, ?_⟩
    · rw [List.length_append, List.length_singleton, Nat.add_mul]; omega
    · have e : 2 ^ t = 2 ^ bits * 2 ^ (t - bits) := by rw [← Nat.pow_add]; congr 1; omega
      intro d hd
      rcases List.mem_append.mp hd with hd | hd
      · exact h3 d hd
      · rw [List.mem_singleton] at hd
        rw [hd, pad_value a (by omega), e]
        exact Nat.mul_lt_mul_of_pos_right (Nat.mod_lt _ (Nat.two_pow_pos _)) (Nat.two_pow_pos _)
    · have e : 2 ^ t = 2 ^ bits * 2 ^ (t - bits) := by rw [← Nat.pow_add]; congr 1; omega
      rw [horner_snoc, pad_value a (by omega), ← h4, Nat.add_mul, Nat.mul_assoc, ← e]

/-- un-padded regrouping of a left-shifted value recovers the original groups -/
theorem convertbits_unpad_spec {f t : Nat} (hf : 0 < f) (ht : 0 < t) (ds xs : List Nat) (p : Nat)
    (hds : ∀ d ∈ ds, d < 2 ^ f) (hxs : ∀ x ∈ xs, x < 2 ^ t) (hp : p < f) (hpt : p < t)
    (hlen : ds.length * f = xs.length * t + p)
    (hval : horner (2 ^ f) ds 0 = horner (2 ^ t) xs 0 * 2 ^ p) :
    convertbits ds f t false = some xs := by
  have inv := convInv_fold hf ht ds hds
  rw [convertbits_of_lt t false hds]
  generalize ds.foldl (convStep f t) (0, 0, []) = st at inv
  obtain ⟨a, bits, ret⟩ := st
  obtain ⟨h1, h2, h3, h4⟩ := inv
  simp only at h1 h2 h3 h4
  -- bits = p and ret.length = xs.length
  have hbits : bits = p := by
    have := congrArg (· % t) (h2.trans hlen)
    simpa [Nat.mul_add_mod_self_right, Nat.mod_eq_of_lt h1, Nat.mod_eq_of_lt hpt] using this
  subst hbits
  have hl : ret.length = xs.length := by
    have := h2.trans hlen
    exact Nat.eq_of_mul_eq_mul_right ht (Nat.add_right_cancel this)
  -- low bits are zero, high part is the value
  rw [hval] at h4
  have hlow : a % 2 ^ bits = 0 := by
    have := congrArg (· % 2 ^ bits) h4
    simpa [Nat.mul_add_mod_self_right, Nat.mod_mod] using this
  rw [hlow, Nat.add_zero] at h4
  have hR := Nat.eq_of_mul_eq_mul_right (Nat.two_pow_pos bits) h4
  have hret : ret = xs := horner_inj (Nat.one_lt_two_pow (by omega)) hl h3 hxs hR
  simp only [Bool.false_eq_true, if_false]
  rw [pad_value a (by omega), hlow, Nat.zero_mul, if_neg (by omega), hret]

theorem bytes_lt (bs : Bytes) : ∀ v ∈ bs.map (·.toNat), v < 2 ^ 8 := by
  intro v hv
  obtain ⟨b, _, rfl⟩ := List.mem_map.mp hv
  exact b.toNat_lt

/-- **8→5 with padding then 5→8 without is the identity**, for every byte string -/
theorem convertbits_8_5_5_8 (bs : Bytes) :
    ∃ five, convertbits (bs.map (·.toNat)) 8 5 true = some five ∧ (∀ d ∈ five, d < 32) ∧
      five.length = (bs.length * 8 + 4) / 5 ∧ convertbits five 5 8 false = some (bs.map (·.toNat)) := by
  obtain ⟨five, p, h1, h2, h3, h4, h5⟩ :=
    convertbits_pad_spec (f := 8) (t := 5) (by decide) (by decide) _ (bytes_lt bs)
  rw [List.length_map] at h3
  refine ⟨five, h1, h4, by omega, ?_⟩
  exact convertbits_unpad_spec (by decide) (by decide) five _ p h4 (bytes_lt bs) h2 (by omega)
    (by rw [List.length_map]; exact h3) h5


/-- 5→8 without padding, on 5-bit symbols: `none` exactly when 5 or more bits are left over or
the left-over bits (the low bits of the value spelled by the symbols) are not all zero -/
theorem convertbits_5_8_none_iff (data : List Nat) (hd : ∀ d ∈ data, d < 32) :
    convertbits data 5 8 false = none ↔
      (data.length * 5 % 8 ≥ 5 ∨ horner 32 data 0 % 2 ^ (data.length * 5 % 8) ≠ 0) := by
  have inv := convInv_fold (f := 5) (t := 8) (by decide) (by decide) data hd
  rw [convertbits_of_lt (f := 5) 8 false hd]
  generalize data.foldl (convStep 5 8) (0, 0, []) = st at inv
  obtain ⟨a, bits, ret⟩ := st
  obtain ⟨h1, h2, h3, h4⟩ := inv
  simp only at h1 h2 h3 h4
  have hbits : data.length * 5 % 8 = bits := by omega
  have hlow : horner 32 data 0 % 2 ^ bits = a % 2 ^ bits := by
    have : (2 : Nat) ^ 5 = 32 := by decide
    rw [← this, ← h4, Nat.mul_add_mod_self_right, Nat.mod_mod]
  rw [hbits, hlow]
  simp only [Bool.false_eq_true, if_false]
  rw [pad_value a (by omega)]
  have hpos : 0 < 2 ^ (8 - bits) := Nat.two_pow_pos _
  constructor
  · intro h
    split at h
    · next hc =>
      rcases hc with hc | hc
      · exact Or.inl hc
      · right; intro h0; apply hc; rw [h0, Nat.zero_mul]
    · cases h
  · intro h
    rw [if_pos]
    rcases h with h | h
    · exact Or.inl h
    · right; exact Nat.mul_ne_zero h (by omega)

theorem horner_mod_of_dvd {b m : Nat} (hm : m ∣ b) (l : List Nat) (d : Nat) :
    horner b (l ++ [d]) 0 % m = d % m := by
  obtain ⟨k, rfl⟩ := hm
  rw [horner_snoc, Nat.mul_comm m k, ← Nat.mul_assoc, Nat.mul_add_mod_self_right]

/-- the same, with the left-over bits read off the last symbol -/
theorem convertbits_5_8_none_iff_last (data : List Nat) (hd : ∀ d ∈ data, d < 32) :
    convertbits data 5 8 false = none ↔
      (data.length * 5 % 8 ≥ 5 ∨
        ∃ d, data.getLast? = some d ∧ d % 2 ^ (data.length * 5 % 8) ≠ 0) := by
  rw [convertbits_5_8_none_iff data hd]
  by_cases h5 : data.length * 5 % 8 ≥ 5
  · simp [h5]
  · have hdvd : 2 ^ (data.length * 5 % 8) ∣ 32 :=
      (Nat.pow_dvd_pow_iff_le_right (by decide : 1 < 2)).mpr (by omega : data.length * 5 % 8 ≤ 5)
    rcases List.eq_nil_or_concat data with rfl | ⟨l, d, rfl⟩
    · simp [horner]
    · simp only [List.concat_eq_append] at h5 hdvd ⊢
      rw [horner_mod_of_dvd hdvd]
      simp

/-! ### ASCII case helpers -/

theorem toNat_ofNat_small {n : Nat} (h : n < 0xd800) : (Char.ofNat n).toNat = n := by
  have hv : n.isValidChar := Or.inl h
  simp [Char.ofNat, hv, Char.ofNatAux, Char.toNat]

theorem isUpperAscii_iff (c : Char) : isUpperAscii c = true ↔ 65 ≤ c.toNat ∧ c.toNat ≤ 90 := by
  simp only [isUpperAscii, Bool.and_eq_true, decide_eq_true_eq, Char.le_def, UInt32.le_iff_toNat_le]
  rfl

theorem isLowerAscii_iff (c : Char) : isLowerAscii c = true ↔ 97 ≤ c.toNat ∧ c.toNat ≤ 122 := by
  simp only [isLowerAscii, Bool.and_eq_true, decide_eq_true_eq, Char.le_def, UInt32.le_iff_toNat_le]
  rfl

theorem toLowerAscii_of_not_upper {c : Char} (h : isUpperAscii c = false) : toLowerAscii c = c := by
  simp [toLowerAscii, h]

theorem toLowerAscii_toNat_of_upper {c : Char} (h : isUpperAscii c = true) :
    (toLowerAscii c).toNat = c.toNat + 32 := by
  rw [toLowerAscii, if_pos h]
  have := (isUpperAscii_iff c).mp h
  exact toNat_ofNat_small (by omega)

theorem toLowerAscii_eq_one {c : Char} : toLowerAscii c = '1' ↔ c = '1' := by
  by_cases h : isUpperAscii c = true
  · have h1 := toLowerAscii_toNat_of_upper h
    have h2 := (isUpperAscii_iff c).mp h
    constructor
    · intro e; rw [e] at h1; have : ('1' : Char).toNat = 49 := rfl; omega
    · intro e; rw [e] at h2; have : ('1' : Char).toNat = 49 := rfl; omega
  · rw [toLowerAscii_of_not_upper (by simpa using h)]


/-! ### the character set -/

theorem charset_length : charset.length = 32 := by decide
theorem charset_nodup : charset.Nodup := by decide
theorem charset_props : ∀ c ∈ charset, isUpperAscii c = false ∧ 33 ≤ c.toNat ∧ c.toNat ≤ 126 ∧ c ≠ '1' := by
  decide

/-- total version of `CHARSET[d]` -/
def chr (d : Nat) : Char := charset.getD d 'q'

theorem charAt_of_lt {d : Nat} (h : d < 32) : charAt d = some (chr d) := by
  unfold charAt chr
  rw [List.getD_eq_getElem?_getD, List.getElem?_eq_getElem (by rw [charset_length]; exact h)]
  rfl

theorem charAt_of_ge {d : Nat} (h : 32 ≤ d) : charAt d = none := by
  unfold charAt
  exact List.getElem?_eq_none (by rw [charset_length]; exact h)

theorem chr_mem {d : Nat} (h : d < 32) : chr d ∈ charset := by
  unfold chr
  rw [List.getD_eq_getElem?_getD, List.getElem?_eq_getElem (by rw [charset_length]; exact h)]
  exact List.getElem_mem _

theorem idxOf_chr {d : Nat} (h : d < 32) : charset.idxOf (chr d) = d := by
  unfold chr
  rw [List.getD_eq_getElem?_getD, List.getElem?_eq_getElem (by rw [charset_length]; exact h)]
  exact List.Nodup.idxOf_getElem charset_nodup d _

theorem mapM_charAt_of_lt (l : List Nat) (h : ∀ d ∈ l, d < 32) : l.mapM charAt = some (l.map chr) := by
  induction l with
  | nil => rfl
  | cons d l ih =>
    rw [List.mapM_cons, charAt_of_lt (h d List.mem_cons_self),
      ih (fun x hx => h x (List.mem_cons_of_mem _ hx))]
    rfl

theorem mapM_charAt_of_ge (l : List Nat) {d : Nat} (hd : d ∈ l) (h : 32 ≤ d) : l.mapM charAt = none := by
  induction l with
  | nil => cases hd
  | cons x l ih =>
    rw [List.mapM_cons]
    rcases List.mem_cons.mp hd with rfl | hd
    · rw [charAt_of_ge h]; rfl
    · rw [ih hd]
      cases charAt x <;> rfl

theorem map_idxOf_map_chr (l : List Nat) (h : ∀ d ∈ l, d < 32) : (l.map chr).map (charset.idxOf ·) = l := by
  rw [List.map_map]
  conv_rhs => rw [← List.map_id l]
  apply List.map_congr_left
  intro d hd
  exact idxOf_chr (h d hd)

/-! ### `rfind('1')` -/

theorem rfindOne_eq_none {s : List Char} : rfindOne s = none ↔ '1' ∉ s := by
  unfold rfindOne
  simp only [List.mem_reverse]
  split <;> simp_all

theorem rfindOne_split {pre dp : List Char} (h : '1' ∉ dp) :
    rfindOne (pre ++ '1' :: dp) = some pre.length := by
  unfold rfindOne
  have hr : (pre ++ '1' :: dp).reverse = dp.reverse ++ '1' :: pre.reverse := by simp
  simp only [hr]
  rw [if_pos (by simp), List.idxOf_append, if_neg (by simpa using h), List.idxOf_cons_self]
  simp only [List.length_append, List.length_cons, List.length_reverse]
  congr 1; omega

theorem rfindOne_eq_some {s : List Char} {pos : Nat} (h : rfindOne s = some pos) :
    ∃ pre dp, s = pre ++ '1' :: dp ∧ '1' ∉ dp ∧ pos = pre.length := by
  have hm : '1' ∈ s := by
    apply Classical.byContradiction
    intro hn
    rw [rfindOne_eq_none.mpr hn] at h; cases h
  obtain ⟨as, bs, e, hn⟩ := List.eq_append_cons_of_mem (List.mem_reverse.mpr hm)
  have hs : s = bs.reverse ++ '1' :: as.reverse := by
    have := congrArg List.reverse e
    simpa using this
  have hn' : '1' ∉ as.reverse := by simpa using hn
  refine ⟨bs.reverse, as.reverse, hs, hn', ?_⟩
  rw [hs, rfindOne_split hn'] at h
  exact (Option.some.inj h).symm


/-! ### `bech32_decode` -/

theorem bech32Decode_inv {s hrp : List Char} {data : List Nat} {spec : Encoding}
    (h : bech32Decode s = some (hrp, data, spec)) :
    (∀ c ∈ s, 33 ≤ c.toNat ∧ c.toNat ≤ 126) ∧ ¬(s.any isUpperAscii = true ∧ s.any isLowerAscii = true) ∧
    s.length ≤ 90 ∧
    ∃ dp, s.map toLowerAscii = hrp ++ '1' :: dp ∧ '1' ∉ dp ∧ hrp ≠ [] ∧ 6 ≤ dp.length ∧
      (∀ c ∈ dp, c ∈ charset) ∧ verifyChecksum hrp (dp.map (charset.idxOf ·)) = some spec ∧
      data = dropLastN 6 (dp.map (charset.idxOf ·)) := by
  unfold bech32Decode at h
  split at h
  · cases h
  next hA =>
  split at h
  · cases h
  next hM =>
  simp only at h
  split at h
  · cases h
  next pos hpos =>
  split at h
  · cases h
  next hlen =>
  split at h
  · cases h
  next hall =>
  split at h
  · cases h
  next sp hsp =>
  obtain ⟨pre, dp, hs, hn, rfl⟩ := rfindOne_eq_some hpos
  have hl : (s.map toLowerAscii).length = pre.length + 1 + dp.length := by
    rw [hs]; simp; omega
  rw [hs] at h hsp hall hlen
  have hdrop : (pre ++ '1' :: dp).drop (pre.length + 1) = dp := by
    rw [List.append_cons, List.drop_left' (by simp)]
  have htake : (pre ++ '1' :: dp).take pre.length = pre := List.take_left' rfl
  rw [hdrop] at h hall hsp
  rw [htake] at h hsp
  simp only [Option.some.injEq, Prod.mk.injEq] at h
  obtain ⟨rfl, rfl, rfl⟩ := h
  rw [List.length_map] at hl
  simp only [List.length_append, List.length_cons] at hlen
  refine ⟨?_, ?_, by omega, dp, hs, hn, ?_, by omega, ?_, hsp, rfl⟩
  · simpa using hA
  · simpa using hM
  · intro e; subst e; simp at hlen
  · simpa using hall


theorem bech32Decode_of {s hrp dp : List Char} {spec : Encoding}
    (hP : ∀ c ∈ s, 33 ≤ c.toNat ∧ c.toNat ≤ 126)
    (hM : ¬(s.any isUpperAscii = true ∧ s.any isLowerAscii = true)) (h90 : s.length ≤ 90)
    (hs : s.map toLowerAscii = hrp ++ '1' :: dp) (hn : '1' ∉ dp) (hne : hrp ≠ []) (h6 : 6 ≤ dp.length)
    (hc : ∀ c ∈ dp, c ∈ charset) (hv : verifyChecksum hrp (dp.map (charset.idxOf ·)) = some spec) :
    bech32Decode s = some (hrp, dropLastN 6 (dp.map (charset.idxOf ·)), spec) := by
  have hl : s.length = hrp.length + 1 + dp.length := by
    have := congrArg List.length hs
    simp at this; omega
  have hpos : 0 < hrp.length := List.length_pos_iff.mpr hne
  have hdrop : (hrp ++ '1' :: dp).drop (hrp.length + 1) = dp := by
    rw [List.append_cons, List.drop_left' (by simp)]
  have htake : (hrp ++ '1' :: dp).take hrp.length = hrp := List.take_left' rfl
  unfold bech32Decode
  rw [if_neg (by simpa using hP), if_neg (by simpa using hM)]
  simp only [hs, rfindOne_split hn, hdrop, htake, hv]
  rw [if_neg (by simp only [List.length_append, List.length_cons]; omega), if_neg (by simpa using hc)]


/-! ### `decode` -/

theorem decode_eq_some_iff {hrp s : List Char} {v : Nat} {prog : List Nat} :
    decode hrp s = some (v, prog) ↔
      ∃ data spec, bech32Decode s = some (hrp, v :: data, spec) ∧
        convertbits data 5 8 false = some prog ∧ 2 ≤ prog.length ∧ prog.length ≤ 40 ∧ v ≤ 16 ∧
        (v = 0 → prog.length = 20 ∨ prog.length = 32) ∧
        (v = 0 → spec = .bech32) ∧ (v ≠ 0 → spec = .bech32m) := by
  unfold decode
  constructor
  · intro h
    split at h
    · cases h
    next hrpgot data spec hb =>
    split at h
    · cases h
    next hh =>
    split at h
    · cases h
    next decoded hc =>
    split at h
    · cases h
    next hlen =>
    split at h
    · cases h
    next w rest =>
    split at h
    · cases h
    next hv =>
    split at h
    · cases h
    next h0 =>
    split at h
    · cases h
    next hs =>
    simp only [Option.some.injEq, Prod.mk.injEq] at h
    obtain ⟨rfl, rfl⟩ := h
    have hh' : hrpgot = hrp := by simpa using hh
    subst hh'
    refine ⟨rest, spec, hb, by simpa using hc, by omega, by omega, by omega, ?_, ?_, ?_⟩
    · intro e; subst e; simp at h0; omega
    · intro e; subst e
      simp only [ne_eq, true_and, not_true_eq_false, false_and, or_false, not_not] at hs
      exact hs
    · intro e
      simp only [ne_eq, e, false_and, not_false_eq_true, true_and, false_or, not_not] at hs
      exact hs
  · rintro ⟨data, spec, hb, hc, h2, h40, h16, h0, hs0, hs1⟩
    simp only [hb, List.drop_one, List.tail_cons, hc, ne_eq, not_true_eq_false, if_false]
    rw [if_neg (by omega), if_neg (by omega), if_neg, if_neg]
    · intro h
      rcases h with ⟨e, hn⟩ | ⟨e, hn⟩
      · exact hn (hs0 e)
      · exact hn (hs1 e)
    · intro ⟨e, h20, h32⟩
      rcases h0 e with h | h <;> omega


theorem decode_eq_none_of_bech32Decode_none {hrp s : List Char} (h : bech32Decode s = none) :
    decode hrp s = none := by
  unfold decode; rw [h]

/-! ### `bech32_encode` and `encode` -/

theorem bech32Encode_of_lt {hrp : List Char} {data : List Nat} (spec : Encoding)
    (h : ∀ d ∈ data, d < 32) :
    bech32Encode hrp data spec =
      some (hrp ++ '1' :: (data ++ createChecksum hrp data spec).map chr) := by
  unfold bech32Encode
  rw [mapM_charAt_of_lt]
  · simp
  · intro d hd
    rcases List.mem_append.mp hd with hd | hd
    · exact h d hd
    · exact createChecksum_lt _ _ _ d hd

theorem bech32Encode_of_ge {hrp : List Char} {data : List Nat} (spec : Encoding) {d : Nat}
    (hd : d ∈ data) (h : 32 ≤ d) : bech32Encode hrp data spec = none := by
  unfold bech32Encode
  rw [mapM_charAt_of_ge _ (List.mem_append_left _ hd) h]
  rfl

/-- the string built by `bech32Encode` has no upper-case letter after the prefix, so lower-casing
it only touches the prefix -/
theorem map_toLower_encoded (hrp : List Char) (syms : List Nat) (h : ∀ d ∈ syms, d < 32) :
    (hrp ++ '1' :: syms.map chr).map toLowerAscii = hrp.map toLowerAscii ++ '1' :: syms.map chr := by
  rw [List.map_append, List.map_cons, toLowerAscii_eq_one.mpr rfl]
  congr 2
  rw [List.map_map]
  apply List.map_congr_left
  intro d hd
  exact toLowerAscii_of_not_upper (charset_props _ (chr_mem (h d hd))).1

theorem one_not_mem_map_chr (syms : List Nat) (h : ∀ d ∈ syms, d < 32) : '1' ∉ syms.map chr := by
  intro hm
  obtain ⟨d, hd, e⟩ := List.mem_map.mp hm
  exact (charset_props _ (chr_mem (h d hd))).2.2.2 e

/-- `bech32Decode` undoes `bech32Encode` for a printable, upper-case-free, non-empty prefix and a
total length of at most 90 -/
theorem bech32Decode_encoded {hrp : List Char} {data : List Nat} (spec : Encoding)
    (hne : hrp ≠ []) (hh : ∀ c ∈ hrp, 33 ≤ c.toNat ∧ c.toNat ≤ 126 ∧ isUpperAscii c = false)
    (hd : ∀ d ∈ data, d < 32) (h90 : hrp.length + 1 + (data.length + 6) ≤ 90) :
    bech32Decode (hrp ++ '1' :: (data ++ createChecksum hrp data spec).map chr)
      = some (hrp, data, spec) := by
  have hsy : ∀ d ∈ data ++ createChecksum hrp data spec, d < 32 := by
    intro d hd'
    rcases List.mem_append.mp hd' with hd' | hd'
    · exact hd d hd'
    · exact createChecksum_lt _ _ _ d hd'
  have hlow : hrp.map toLowerAscii = hrp := by
    conv_rhs => rw [← List.map_id hrp]
    apply List.map_congr_left
    intro c hc
    exact toLowerAscii_of_not_upper (hh c hc).2.2
  have hidx := map_idxOf_map_chr _ hsy
  have := bech32Decode_of (s := hrp ++ '1' :: (data ++ createChecksum hrp data spec).map chr)
    (hrp := hrp) (dp := (data ++ createChecksum hrp data spec).map chr) (spec := spec)
    (by
      intro c hc
      rcases List.mem_append.mp hc with hc | hc
      · exact ⟨(hh c hc).1, (hh c hc).2.1⟩
      · rcases List.mem_cons.mp hc with rfl | hc
        · decide
        · obtain ⟨d, hd', rfl⟩ := List.mem_map.mp hc
          have := charset_props _ (chr_mem (hsy d hd'))
          exact ⟨this.2.1, this.2.2.1⟩)
    (by
      intro ⟨hu, _⟩
      obtain ⟨c, hc, hcu⟩ := List.any_eq_true.mp hu
      rcases List.mem_append.mp hc with hc | hc
      · rw [(hh c hc).2.2] at hcu; cases hcu
      · rcases List.mem_cons.mp hc with rfl | hc
        · revert hcu; decide
        · obtain ⟨d, hd', rfl⟩ := List.mem_map.mp hc
          rw [(charset_props _ (chr_mem (hsy d hd'))).1] at hcu; cases hcu)
    (by simp [createChecksum_length]; omega)
    (by rw [map_toLower_encoded _ _ hsy, hlow])
    (one_not_mem_map_chr _ hsy) hne
    (by simp [createChecksum_length])
    (by
      intro c hc
      obtain ⟨d, hd', rfl⟩ := List.mem_map.mp hc
      exact chr_mem (hsy d hd'))
    (by rw [hidx]; exact checksum_valid hrp data spec hd)
  rw [this, hidx]
  simp [dropLastN, createChecksum_length]


/-- if a string that literally starts with `hrp ++ "1"` decodes under `hrp` with its data part being
the rest, then `hrp` is non-empty, printable, without upper-case letters, and the string is short -/
theorem legal_of_bech32Decode_self {hrp cs : List Char} {data : List Nat} {spec : Encoding}
    (h : bech32Decode (hrp ++ '1' :: cs) = some (hrp, data, spec)) :
    hrp ≠ [] ∧ (∀ c ∈ hrp, 33 ≤ c.toNat ∧ c.toNat ≤ 126 ∧ isUpperAscii c = false) ∧
      hrp.length + 1 + cs.length ≤ 90 := by
  obtain ⟨hP, _, h90, dp, hs, hn, hne, _, _, _, _⟩ := bech32Decode_inv h
  refine ⟨hne, ?_, by simp only [List.length_append, List.length_cons] at h90; omega⟩
  rw [List.map_append, List.map_cons] at hs
  have hlow : hrp.map toLowerAscii = hrp := (List.append_inj hs (by simp)).1
  intro c hc
  have hp := hP c (List.mem_append_left _ hc)
  refine ⟨hp.1, hp.2, ?_⟩
  -- a fixed point of lower-casing is not upper-case
  have hfix : toLowerAscii c = c := by
    obtain ⟨i, hi, rfl⟩ := List.mem_iff_getElem.mp hc
    have := congrArg (fun l => l[i]?) hlow
    simpa [hi] using this
  cases hu : isUpperAscii c with
  | false => rfl
  | true =>
    have := toLowerAscii_toNat_of_upper hu
    rw [hfix] at this; omega

def specOf (v : Nat) : Encoding := if v = 0 then .bech32 else .bech32m

/-- what `encode` computes, whenever it returns something -/
theorem encode_some_inv {hrp : List Char} {v : Nat} {prog : Bytes} {s : List Char}
    (h : encode hrp v prog = some s) :
    ∃ five, convertbits (prog.map (·.toNat)) 8 5 true = some five ∧ (∀ d ∈ five, d < 32) ∧
      five.length = (prog.length * 8 + 4) / 5 ∧
      convertbits five 5 8 false = some (prog.map (·.toNat)) ∧ v < 32 ∧
      s = hrp ++ '1' :: ((v :: five) ++ createChecksum hrp (v :: five) (specOf v)).map chr ∧
      decode hrp s ≠ none := by
  obtain ⟨five, h1, h2, h3, h4⟩ := convertbits_8_5_5_8 prog
  refine ⟨five, h1, h2, h3, h4, ?_⟩
  unfold encode at h
  simp only [h1] at h
  by_cases hv : v < 32
  · have hd : ∀ d ∈ v :: five, d < 32 := by
      intro d hd
      rcases List.mem_cons.mp hd with rfl | hd
      · exact hv
      · exact h2 d hd
    rw [show (if v = 0 then Encoding.bech32 else Encoding.bech32m) = specOf v from rfl,
      bech32Encode_of_lt _ hd] at h
    simp only at h
    split at h
    · cases h
    next hn =>
    have := Option.some.inj h
    subst this
    exact ⟨hv, rfl, by simpa using hn⟩
  · rw [bech32Encode_of_ge _ (List.mem_cons_self) (by omega)] at h
    cases h

/-- every legal input is encoded, and the result decodes back -/
theorem encode_of_legal {hrp : List Char} {v : Nat} {prog : Bytes} (hv : v ≤ 16)
    (h2 : 2 ≤ prog.length) (h40 : prog.length ≤ 40) (h0 : v = 0 → prog.length = 20 ∨ prog.length = 32)
    (hne : hrp ≠ []) (hh : ∀ c ∈ hrp, 33 ≤ c.toNat ∧ c.toNat ≤ 126 ∧ isUpperAscii c = false)
    (h90 : hrp.length + 1 + (1 + (prog.length * 8 + 4) / 5 + 6) ≤ 90) :
    ∃ s five, encode hrp v prog = some s ∧ bech32Decode s = some (hrp, v :: five, specOf v) ∧
      decode hrp s = some (v, prog.map (·.toNat)) := by
  obtain ⟨five, h1, hlt, hlen, h4⟩ := convertbits_8_5_5_8 prog
  have hd : ∀ d ∈ v :: five, d < 32 := by
    intro d hd
    rcases List.mem_cons.mp hd with rfl | hd
    · omega
    · exact hlt d hd
  have hb := bech32Decode_encoded (hrp := hrp) (data := v :: five) (specOf v) hne hh hd
    (by rw [List.length_cons, hlen]; omega)
  have hdec : decode hrp (hrp ++ '1' :: ((v :: five) ++ createChecksum hrp (v :: five) (specOf v)).map chr)
      = some (v, prog.map (·.toNat)) := by
    refine decode_eq_some_iff.mpr ⟨five, specOf v, hb, h4, ?_, ?_, hv, ?_, ?_, ?_⟩
    · rw [List.length_map]; exact h2
    · rw [List.length_map]; exact h40
    · rw [List.length_map]; exact h0
    · intro e; simp [specOf, e]
    · intro e; simp [specOf, e]
  refine ⟨_, five, ?_, hb, hdec⟩
  unfold encode
  simp only [h1]
  rw [show (if v = 0 then Encoding.bech32 else Encoding.bech32m) = specOf v from rfl,
    bech32Encode_of_lt _ hd]
  simp only [hdec, Option.isNone_some, Bool.false_eq_true, if_false]

/-- conversely, whenever `encode` returns a string the input was legal, and the string decodes back -/
theorem legal_of_encode_some {hrp : List Char} {v : Nat} {prog : Bytes} {s : List Char}
    (h : encode hrp v prog = some s) :
    (v ≤ 16 ∧ 2 ≤ prog.length ∧ prog.length ≤ 40 ∧ (v = 0 → prog.length = 20 ∨ prog.length = 32) ∧
      hrp ≠ [] ∧ (∀ c ∈ hrp, 33 ≤ c.toNat ∧ c.toNat ≤ 126 ∧ isUpperAscii c = false) ∧
      hrp.length + 1 + (1 + (prog.length * 8 + 4) / 5 + 6) ≤ 90) ∧
    decode hrp s = some (v, prog.map (·.toNat)) ∧
    ∃ five, bech32Decode s = some (hrp, v :: five, specOf v) := by
  obtain ⟨five, h1, hlt, hlen, h4, hv32, rfl, hdn⟩ := encode_some_inv h
  have hd : ∀ d ∈ v :: five, d < 32 := by
    intro d hd
    rcases List.mem_cons.mp hd with rfl | hd
    · exact hv32
    · exact hlt d hd
  obtain ⟨⟨v', prog'⟩, hdec⟩ := Option.ne_none_iff_exists'.mp hdn
  obtain ⟨data, spec, hb, hc, h2, h40, h16, h0, _, _⟩ := decode_eq_some_iff.mp hdec
  obtain ⟨hne, hh, h90⟩ := legal_of_bech32Decode_self hb
  have hcl : (((v :: five) ++ createChecksum hrp (v :: five) (specOf v)).map chr).length
      = 1 + (prog.length * 8 + 4) / 5 + 6 := by
    simp [createChecksum_length, hlen]; omega
  rw [hcl] at h90
  have hb' := bech32Decode_encoded (hrp := hrp) (data := v :: five) (specOf v) hne hh hd
    (by rw [List.length_cons, hlen]; omega)
  rw [hb'] at hb
  simp only [Option.some.injEq, Prod.mk.injEq, List.cons.injEq, true_and] at hb
  obtain ⟨⟨rfl, rfl⟩, rfl⟩ := hb
  rw [h4] at hc
  have := Option.some.inj hc
  subst this
  rw [List.length_map] at h2 h40 h0
  exact ⟨⟨h16, h2, h40, h0, hne, hh, h90⟩, hdec, five, hb'⟩

end BtcHd.Bech32
