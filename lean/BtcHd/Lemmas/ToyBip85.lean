/-
A toy primitive bundle on which every BIP85 derivation succeeds: group order 7 and an
"HMAC" that always returns `IL = IR = 1`, so the scalars along a five-level path are
1, 2, 3, 4, 5, 6.  Used only as a non-vacuity witness for C12 and C03.
-/
import BtcHd.Lemmas.ToyCurve
import BtcHd.Model.Bip85

namespace BtcHd.Toy
open BtcHd BeFixed

def curve7 : Curve Nat :=
  { curve with n := 7, mulGen := fun k => k % 7, add := fun a b => (a + b) % 7 }

/-- the constant 64-byte "HMAC" output: left half = right half = 1 -/
def hm7 : Bytes := List.replicate 31 0 ++ [1] ++ List.replicate 31 0 ++ [1]

def prims7 : Prims Nat := { prims with hmac512 := fun _ _ => hm7, curve := curve7 }

theorem hash256_length7 (x : Bytes) : (prims7.hash256 x).length = 32 := by
  simp [Prims.hash256, prims7, prims]

theorem laws7 : CurveLaws curve7 where
  n_pos := by decide
  n_lt := by show 7 < 2 ^ 256; decide
  sec_len := laws.sec_len
  parse_sec := laws.parse_sec
  sec_parse := laws.sec_parse
  parse_notInf := laws.parse_notInf
  mulGen_notInf := by
    intro k h0 hk
    have hk7 : k < 7 := hk
    have : (256 : Nat) ^ 32 > 7 := by decide
    simp only [curve7, curve, decide_eq_true_eq, not_or, Nat.not_le]
    omega
  sec_prefix := laws.sec_prefix

end BtcHd.Toy
