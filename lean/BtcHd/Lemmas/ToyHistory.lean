/-
Concrete toy primitives and a toy wallet on which child derivation SUCCEEDS, used only as
non-vacuity witnesses for the C13 theorems (a state satisfying `Inv` with several nodes and a
live generator).  Nothing about secp256k1 or HMAC-SHA512 is claimed here.
-/
import BtcHd.Lemmas.History
import BtcHd.Lemmas.ToyCurve

namespace BtcHd.History
open BtcHd Bip32 Wallet

deriving instance DecidableEq for Gen

/-- toy primitives (the Z/5 "curve" of `Lemmas/ToyCurve.lean`) with an HMAC whose left half
is the scalar 1, so that `ckd` of a node with scalar `k < 4` succeeds with scalar `k + 1` -/
def toyP : Prims Nat :=
  { Toy.prims with hmac512 := fun _ _ => List.replicate 31 0 ++ [1] ++ List.replicate 32 9 }

/-- a toy wallet whose master scalar is 1 -/
def toyW : Wallet :=
  { master := { isPrv := true, key := List.replicate 31 0 ++ [1], chainCode := List.replicate 32 9,
                depth := 0, index := 0, testnet := false, hasParent := false, parentFp := none,
                path := [], parsedVersion := none },
    testnet := false, mnemonic := none, password := none }

/-- a toy history: two children by `ckd`, a lookup by path string, a generator on handle 1 -/
def toyOps : List Op :=
  [.ckd 0 0, .byPath ['m', '/', '1', '\''], .newGen 1 .p2pkh, .next 0, .ckd 1 7, .next 0, .send 0 3]

/-- the state reached by the toy history -/
def toyS : State := (run toyP (init toyW) toyOps).1

theorem toyS_inv : Inv toyP toyW toyS := inv_run (inv_init toyP toyW) toyOps

theorem toyS_paths : toyS.paths = [[], [0], [2 ^ 31 + 1], [0, 7]] := by decide +kernel

theorem toyS_nodes_length : toyS.nodes.length = 4 := by decide +kernel

theorem toyS_gen : toyS.gens[0]? = some ⟨1, .p2pkh, true, 4, false⟩ := by decide +kernel

/-- the node behind handle 1 of the toy state: the child 0 of the master -/
def toyNd1 : Node := (ckd toyP toyW.master 0).getD toyW.master

theorem toyS_node1 : ∃ cnt, toyS.nodes[1]? = some (toyNd1, cnt) := by
  have h : (toyS.nodes[1]?).map (·.1) = some toyNd1 := by decide +kernel
  cases hn : toyS.nodes[1]? with
  | none => rw [hn] at h; cases h
  | some e =>
    rw [hn] at h
    simp only [Option.map_some, Option.some.injEq] at h
    exact ⟨e.2, by rw [← h]⟩

/-- children 5 and 6 of that node exist and have p2pkh addresses -/
theorem toy_child (i : Nat) (hi : i = 5 ∨ i = 6) :
    ∃ c a, ckd toyP toyNd1 i = some c ∧ addrOf toyP toyS.wallet.testnet .p2pkh c = some a := by
  have hw : toyS.wallet.testnet = false := by rw [toyS_inv.wallet]; rfl
  rw [hw]
  have key : ∀ i, ((ckd toyP toyNd1 i).bind (addrOf toyP false .p2pkh)).isSome = true →
      ∃ c a, ckd toyP toyNd1 i = some c ∧ addrOf toyP false .p2pkh c = some a := by
    intro i h
    cases hc : ckd toyP toyNd1 i with
    | none => rw [hc] at h; cases h
    | some c =>
      rw [hc, Option.bind_some] at h
      obtain ⟨a, ha⟩ := Option.isSome_iff_exists.mp h
      exact ⟨c, a, rfl, ha⟩
  rcases hi with rfl | rfl
  · exact key 5 (by decide +kernel)
  · exact key 6 (by decide +kernel)

theorem toyS_gens_length : toyS.gens.length = 1 := by decide +kernel

def isErr : Out → Bool
  | .err => true
  | _ => false

theorem ne_err_of_all {os : List Out} (h : os.all (fun o => !isErr o) = true) :
    ∀ o ∈ os, o ≠ .err := by
  intro o ho he
  have := List.all_eq_true.mp h o ho
  rw [he] at this
  cases this

/-- a second toy history, run after creating generator 1 on handle 1: three requests to the new
generator interleaved with a `ckd` on the same node and a request to generator 0 -/
def toyOps2 : List Op := [.next 1, .ckd 1 2, .next 1, .next 0, .send 1 3]

theorem toy_gen_ok :
    (outsFor 1 toyOps2 (run toyP (step toyP toyS (.newGen 1 .p2wpkh)).1 toyOps2).2).all
      (fun o => !isErr o) = true := by decide +kernel

end BtcHd.History
