/-
Helper lemmas for C12 (BIP85): `str(int)`, the five path templates, how their renderings
parse, the entropy of a level list, and Base64.
-/
import BtcHd.Lemmas.Path
import BtcHd.Lemmas.Bip32
import BtcHd.Model.Bip85

namespace BtcHd.Bip85
open BtcHd Text Path Bip32 Keys

variable {Pt : Type}

/-! ### `str(i)` -/

theorem intToDec_natCast (n : Nat) : intToDec (n : Int) = natToDec n := rfl

theorem intToDec_negSucc (n : Nat) : intToDec (Int.negSucc n) = '-' :: natToDec (n + 1) := rfl

theorem intToDec_ne_nil (a : Int) : intToDec a ≠ [] := by
  cases a with
  | ofNat n => exact (isDec_natToDec n).1
  | negSucc n => simp [intToDec]

theorem slash_not_mem_intToDec (a : Int) : '/' ∉ intToDec a := by
  cases a with
  | ofNat n => exact (isDec_natToDec n).not_mem (by decide)
  | negSucc n =>
    rw [intToDec_negSucc]
    intro h
    rcases List.mem_cons.mp h with h | h
    · exact absurd h (by decide)
    · exact (isDec_natToDec _).not_mem (by decide) h

/-- a negative number is printed with a leading minus sign -/
theorem intToDec_neg {a : Int} (h : a < 0) : ∃ n : Nat, a = -(n + 1 : Nat) ∧ intToDec a = '-' :: natToDec (n + 1) := by
  cases a with
  | ofNat n => rw [Int.ofNat_eq_natCast] at h; omega
  | negSucc n => exact ⟨n, by rw [Int.negSucc_eq]; omega, rfl⟩

/-- the hardened component `str(a) + "'"`: accepted exactly for `0 ≤ a < 2^31` -/
theorem convertHardened_intToDec (a : Int) :
    convertHardened (intToDec a ++ ['\'']) =
      if 0 ≤ a ∧ a < 2 ^ 31 then some (a.toNat + 2 ^ 31) else none := by
  rw [convertHardened_marked (Or.inl rfl)]
  cases a with
  | ofNat n =>
    rw [Int.ofNat_eq_natCast, intToDec_natCast, parseDec_natToDec, Option.bind_some, Int.toNat_natCast]
    by_cases h : n < 2 ^ 31
    · rw [if_pos h, if_pos ⟨by omega, by omega⟩]
    · rw [if_neg h, if_neg (by omega)]
  | negSucc n =>
    have : parseDec (intToDec (Int.negSucc n)) = none := by
      rw [intToDec_negSucc]
      unfold parseDec
      rw [if_neg]
      rintro ⟨_, h⟩
      rw [List.all_cons] at h
      have : Char.isDigit '-' = false := by decide
      rw [this] at h
      cases h
    rw [this, Option.bind_none, if_neg]
    rintro ⟨h, _⟩
    exact absurd h (by have := Int.negSucc_lt_zero n; omega)

theorem convertHardened_natToDec {n : Nat} (h : n < 2 ^ 31) :
    convertHardened (natToDec n ++ ['\'']) = some (n + 2 ^ 31) := by
  have := convertHardened_intToDec (n : Int)
  rw [intToDec_natCast, if_pos ⟨by omega, by omega⟩, Int.toNat_natCast] at this
  exact this

theorem comp_ne_nil (a : Int) : intToDec a ++ ['\''] ≠ [] := by simp

theorem slash_not_mem_comp (a : Int) : '/' ∉ intToDec a ++ ['\''] := by
  intro h
  rcases List.mem_append.mp h with h | h
  · exact slash_not_mem_intToDec a h
  · simp at h

/-! ### parsing a joined path whose components are all non-empty -/

theorem slotLevels_eq_mapM (comps : List (List Char)) (hne : ∀ c ∈ comps, c ≠ []) :
    slotLevels comps = comps.mapM convertHardened := by
  induction comps with
  | nil => rfl
  | cons c cs ih =>
    have hc := hne c (List.mem_cons_self ..)
    have ih' := ih fun x hx => hne x (List.mem_cons_of_mem _ hx)
    rw [mapM_cons_opt]
    cases h : convertHardened c with
    | none => rw [slotLevels_cons_none hc h]; rfl
    | some v => rw [slotLevels_cons_some h, ih']; rfl

/-- `Bip32Path.parse("m/" + "/".join(comps))` for at most five non-empty, slash-free
components: every component must convert, and the levels are the conversions -/
theorem parse_join_m (comps : List (List Char)) (hlen : comps.length ≤ 5)
    (hne : ∀ c ∈ comps, c ≠ []) (hns : ∀ c ∈ comps, '/' ∉ c) :
    Path.parse (join ['/'] (['m'] :: comps)) =
      (comps.mapM convertHardened).map fun l => ⟨l, true⟩ := by
  have hs : splitOn '/' (join ['/'] (['m'] :: comps)) = ['m'] :: comps := by
    refine splitOn_join_sep ?_ (by simp)
    intro x hx
    rcases List.mem_cons.mp hx with rfl | hx
    · decide
    · exact hns x hx
  rw [parse_of_splitOn hs]
  unfold parseParts
  rw [if_pos (Or.inl rfl), List.take_of_length_le hlen, slotLevels_eq_mapM comps hne]
  cases comps.mapM convertHardened <;> simp

theorem mapM_none_of_mem {α β : Type} (f : α → Option β) {l : List α} {c : α} (hc : c ∈ l)
    (h : f c = none) : l.mapM f = none := by
  induction l with
  | nil => cases hc
  | cons x xs ih =>
    rw [mapM_cons_opt]
    rcases List.mem_cons.mp hc with rfl | hx
    · rw [h]; rfl
    · rw [ih hx]; cases f x <;> rfl

theorem mapM_append_opt {α β : Type} (f : α → Option β) (l₁ l₂ : List α) :
    (l₁ ++ l₂).mapM f = (l₁.mapM f).bind fun a => (l₂.mapM f).map (a ++ ·) := by
  induction l₁ with
  | nil =>
    rw [List.nil_append, List.mapM_nil]
    cases l₂.mapM f <;> rfl
  | cons x xs ih =>
    rw [List.cons_append, mapM_cons_opt, mapM_cons_opt, ih]
    cases f x with
    | none => rfl
    | some b =>
      cases xs.mapM f with
      | none => rfl
      | some bs => cases l₂.mapM f <;> rfl

/-! ### the templates -/

theorem tplMnemonic_eq : Generated.bip85TplMnemonic = "m/83696968'/39'/0'/{}'/{}'".toList := by
  decide +kernel
theorem tplWif_eq : Generated.bip85TplWif = "m/83696968'/2'/{}'".toList := by decide +kernel
theorem tplXprv_eq : Generated.bip85TplXprv = "m/83696968'/32'/{}'".toList := by decide +kernel
theorem tplHex_eq : Generated.bip85TplHex = "m/83696968'/128169'/{}'/{}'".toList := by
  decide +kernel
theorem tplPwd_eq : Generated.bip85TplPwd = "m/83696968'/707764'/{}'/{}'".toList := by
  decide +kernel

theorem fmt_mnemonic_join (a b : Int) : fmt Generated.bip85TplMnemonic [a, b] =
    join ['/'] [['m'], "83696968'".toList, "39'".toList, "0'".toList, intToDec a ++ ['\''],
      intToDec b ++ ['\'']] := by
  simp [fmt, Generated.bip85TplMnemonic, join]

theorem fmt_wif_join (a : Int) : fmt Generated.bip85TplWif [a] =
    join ['/'] [['m'], "83696968'".toList, "2'".toList, intToDec a ++ ['\'']] := by
  simp [fmt, Generated.bip85TplWif, join]

theorem fmt_xprv_join (a : Int) : fmt Generated.bip85TplXprv [a] =
    join ['/'] [['m'], "83696968'".toList, "32'".toList, intToDec a ++ ['\'']] := by
  simp [fmt, Generated.bip85TplXprv, join]

theorem fmt_hex_join (a b : Int) : fmt Generated.bip85TplHex [a, b] =
    join ['/'] [['m'], "83696968'".toList, "128169'".toList, intToDec a ++ ['\''],
      intToDec b ++ ['\'']] := by
  simp [fmt, Generated.bip85TplHex, join]

theorem fmt_pwd_join (a b : Int) : fmt Generated.bip85TplPwd [a, b] =
    join ['/'] [['m'], "83696968'".toList, "707764'".toList, intToDec a ++ ['\''],
      intToDec b ++ ['\'']] := by
  simp [fmt, Generated.bip85TplPwd, join]

theorem conv_root : convertHardened "83696968'".toList = some (83696968 + 2 ^ 31) := by
  decide +kernel
theorem conv_39 : convertHardened "39'".toList = some (39 + 2 ^ 31) := by decide +kernel
theorem conv_0 : convertHardened "0'".toList = some (0 + 2 ^ 31) := by decide +kernel
theorem conv_2 : convertHardened "2'".toList = some (2 + 2 ^ 31) := by decide +kernel
theorem conv_32 : convertHardened "32'".toList = some (32 + 2 ^ 31) := by decide +kernel
theorem conv_128169 : convertHardened "128169'".toList = some (128169 + 2 ^ 31) := by
  decide +kernel
theorem conv_707764 : convertHardened "707764'".toList = some (707764 + 2 ^ 31) := by
  decide +kernel

/-- two-parameter templates: `m/83696968'/<fixed…>/{a}'/{b}'` -/
theorem parse_two (fixed : List (List Char)) (lv : List Nat) (hlen : fixed.length ≤ 3)
    (hne : ∀ c ∈ fixed, c ≠ []) (hns : ∀ c ∈ fixed, '/' ∉ c)
    (hconv : fixed.mapM convertHardened = some lv) (a b : Int) :
    Path.parse (join ['/'] (['m'] :: (fixed ++ [intToDec a ++ ['\''], intToDec b ++ ['\'']]))) =
      if (0 ≤ a ∧ a < 2 ^ 31) ∧ (0 ≤ b ∧ b < 2 ^ 31) then
        some ⟨lv ++ [a.toNat + 2 ^ 31, b.toNat + 2 ^ 31], true⟩
      else none := by
  rw [parse_join_m]
  · rw [mapM_append_opt, hconv, Option.bind_some, mapM_cons_opt, mapM_cons_opt, List.mapM_nil,
      convertHardened_intToDec, convertHardened_intToDec]
    by_cases ha : 0 ≤ a ∧ a < 2 ^ 31
    · by_cases hb : 0 ≤ b ∧ b < 2 ^ 31
      · rw [if_pos ha, if_pos hb, if_pos ⟨ha, hb⟩]; rfl
      · rw [if_pos ha, if_neg hb,
          if_neg (show ¬((0 ≤ a ∧ a < 2 ^ 31) ∧ (0 ≤ b ∧ b < 2 ^ 31)) from fun h => hb h.2)]; rfl
    · rw [if_neg ha,
        if_neg (show ¬((0 ≤ a ∧ a < 2 ^ 31) ∧ (0 ≤ b ∧ b < 2 ^ 31)) from fun h => ha h.1)]; rfl
  · simp only [List.length_append, List.length_cons, List.length_nil]; omega
  · intro c hc
    rcases List.mem_append.mp hc with hc | hc
    · exact hne c hc
    · simp only [List.mem_cons, List.not_mem_nil, or_false] at hc
      rcases hc with rfl | rfl <;> exact comp_ne_nil _
  · intro c hc
    rcases List.mem_append.mp hc with hc | hc
    · exact hns c hc
    · simp only [List.mem_cons, List.not_mem_nil, or_false] at hc
      rcases hc with rfl | rfl <;> exact slash_not_mem_comp _

/-- one-parameter templates: `m/83696968'/<fixed…>/{a}'` -/
theorem parse_one (fixed : List (List Char)) (lv : List Nat) (hlen : fixed.length ≤ 4)
    (hne : ∀ c ∈ fixed, c ≠ []) (hns : ∀ c ∈ fixed, '/' ∉ c)
    (hconv : fixed.mapM convertHardened = some lv) (a : Int) :
    Path.parse (join ['/'] (['m'] :: (fixed ++ [intToDec a ++ ['\'']]))) =
      if 0 ≤ a ∧ a < 2 ^ 31 then some ⟨lv ++ [a.toNat + 2 ^ 31], true⟩ else none := by
  rw [parse_join_m]
  · rw [mapM_append_opt, hconv, Option.bind_some, mapM_cons_opt, List.mapM_nil,
      convertHardened_intToDec]
    by_cases ha : 0 ≤ a ∧ a < 2 ^ 31
    · rw [if_pos ha, if_pos ha]; rfl
    · rw [if_neg ha, if_neg ha]; rfl
  · simp only [List.length_append, List.length_cons, List.length_nil]; omega
  · intro c hc
    rcases List.mem_append.mp hc with hc | hc
    · exact hne c hc
    · simp only [List.mem_cons, List.not_mem_nil, or_false] at hc
      rcases hc with rfl; exact comp_ne_nil _
  · intro c hc
    rcases List.mem_append.mp hc with hc | hc
    · exact hns c hc
    · simp only [List.mem_cons, List.not_mem_nil, or_false] at hc
      rcases hc with rfl; exact slash_not_mem_comp _

/-! ### the level lists of the five applications -/

/-- `m/83696968'/39'/0'/{wc}'/{i}'` -/
def levelsMnemonic (wc i : Nat) : List Nat :=
  [83696968 + 2 ^ 31, 39 + 2 ^ 31, 0 + 2 ^ 31, wc + 2 ^ 31, i + 2 ^ 31]
/-- `m/83696968'/2'/{i}'` -/
def levelsWif (i : Nat) : List Nat := [83696968 + 2 ^ 31, 2 + 2 ^ 31, i + 2 ^ 31]
/-- `m/83696968'/32'/{i}'` -/
def levelsXprv (i : Nat) : List Nat := [83696968 + 2 ^ 31, 32 + 2 ^ 31, i + 2 ^ 31]
/-- `m/83696968'/128169'/{nb}'/{i}'` -/
def levelsHex (nb i : Nat) : List Nat :=
  [83696968 + 2 ^ 31, 128169 + 2 ^ 31, nb + 2 ^ 31, i + 2 ^ 31]
/-- `m/83696968'/707764'/{len}'/{i}'` -/
def levelsPwd (len i : Nat) : List Nat :=
  [83696968 + 2 ^ 31, 707764 + 2 ^ 31, len + 2 ^ 31, i + 2 ^ 31]

/-- `0 ≤ a < 2^31` for a Python int -/
def InRange (a : Int) : Prop := 0 ≤ a ∧ a < 2 ^ 31

instance (a : Int) : Decidable (InRange a) := by unfold InRange; infer_instance

theorem inRange_natCast {n : Nat} : InRange (n : Int) ↔ n < 2 ^ 31 := by
  unfold InRange; omega

theorem parse_fmt_mnemonic (a b : Int) :
    Path.parse (fmt Generated.bip85TplMnemonic [a, b]) =
      if InRange a ∧ InRange b then some ⟨levelsMnemonic a.toNat b.toNat, true⟩ else none := by
  rw [fmt_mnemonic_join]
  exact parse_two ["83696968'".toList, "39'".toList, "0'".toList]
    [83696968 + 2 ^ 31, 39 + 2 ^ 31, 0 + 2 ^ 31] (by decide) (by decide) (by decide)
    (by simp only [mapM_cons_opt, List.mapM_nil, conv_root, conv_39, conv_0]; rfl) a b

theorem parse_fmt_wif (a : Int) :
    Path.parse (fmt Generated.bip85TplWif [a]) =
      if InRange a then some ⟨levelsWif a.toNat, true⟩ else none := by
  rw [fmt_wif_join]
  exact parse_one ["83696968'".toList, "2'".toList] [83696968 + 2 ^ 31, 2 + 2 ^ 31]
    (by decide) (by decide) (by decide)
    (by simp only [mapM_cons_opt, List.mapM_nil, conv_root, conv_2]; rfl) a

theorem parse_fmt_xprv (a : Int) :
    Path.parse (fmt Generated.bip85TplXprv [a]) =
      if InRange a then some ⟨levelsXprv a.toNat, true⟩ else none := by
  rw [fmt_xprv_join]
  exact parse_one ["83696968'".toList, "32'".toList] [83696968 + 2 ^ 31, 32 + 2 ^ 31]
    (by decide) (by decide) (by decide)
    (by simp only [mapM_cons_opt, List.mapM_nil, conv_root, conv_32]; rfl) a

theorem parse_fmt_hex (a b : Int) :
    Path.parse (fmt Generated.bip85TplHex [a, b]) =
      if InRange a ∧ InRange b then some ⟨levelsHex a.toNat b.toNat, true⟩ else none := by
  rw [fmt_hex_join]
  exact parse_two ["83696968'".toList, "128169'".toList] [83696968 + 2 ^ 31, 128169 + 2 ^ 31]
    (by decide) (by decide) (by decide)
    (by simp only [mapM_cons_opt, List.mapM_nil, conv_root, conv_128169]; rfl) a b

theorem parse_fmt_pwd (a b : Int) :
    Path.parse (fmt Generated.bip85TplPwd [a, b]) =
      if InRange a ∧ InRange b then some ⟨levelsPwd a.toNat b.toNat, true⟩ else none := by
  rw [fmt_pwd_join]
  exact parse_two ["83696968'".toList, "707764'".toList] [83696968 + 2 ^ 31, 707764 + 2 ^ 31]
    (by decide) (by decide) (by decide)
    (by simp only [mapM_cons_opt, List.mapM_nil, conv_root, conv_707764]; rfl) a b

/-! ### entropy of a level list -/

/-- HMAC-SHA512 keyed `bip-entropy-from-k` over the 32-byte private key of the node reached
from `m` by the given levels (`none` when a derivation step or the key is invalid) -/
def entropyAt (P : Prims Pt) (m : Node) (levels : List Nat) : Option Bytes :=
  (derivePath P m levels).bind fun node =>
    (prvKey P node).map fun k => P.hmac512 Generated.bip85Key (privBytes k)

theorem entropy_eq (P : Prims Pt) (m : Node) (path : List Char) :
    entropy P m path = (Path.parse path).bind fun p => entropyAt P m p.levels := rfl

theorem entropy_mnemonic (P : Prims Pt) (m : Node) (a b : Int) :
    entropy P m (fmt Generated.bip85TplMnemonic [a, b]) =
      if InRange a ∧ InRange b then entropyAt P m (levelsMnemonic a.toNat b.toNat) else none := by
  rw [entropy_eq, parse_fmt_mnemonic]; split <;> rfl

theorem entropy_wif (P : Prims Pt) (m : Node) (a : Int) :
    entropy P m (fmt Generated.bip85TplWif [a]) =
      if InRange a then entropyAt P m (levelsWif a.toNat) else none := by
  rw [entropy_eq, parse_fmt_wif]; split <;> rfl

theorem entropy_xprv (P : Prims Pt) (m : Node) (a : Int) :
    entropy P m (fmt Generated.bip85TplXprv [a]) =
      if InRange a then entropyAt P m (levelsXprv a.toNat) else none := by
  rw [entropy_eq, parse_fmt_xprv]; split <;> rfl

theorem entropy_hex (P : Prims Pt) (m : Node) (a b : Int) :
    entropy P m (fmt Generated.bip85TplHex [a, b]) =
      if InRange a ∧ InRange b then entropyAt P m (levelsHex a.toNat b.toNat) else none := by
  rw [entropy_eq, parse_fmt_hex]; split <;> rfl

theorem entropy_pwd (P : Prims Pt) (m : Node) (a b : Int) :
    entropy P m (fmt Generated.bip85TplPwd [a, b]) =
      if InRange a ∧ InRange b then entropyAt P m (levelsPwd a.toNat b.toNat) else none := by
  rw [entropy_eq, parse_fmt_pwd]; split <;> rfl

/-- a node derived from a private node by at least one step stores its scalar as exactly
32 bytes, so the HMAC message `bytes(node.private_key)` is the node's `key` field -/
theorem derived_key (P : Prims Pt) (hn : P.curve.n ≤ 2 ^ 256) {m node : Node} (hm : m.isPrv = true)
    (is : List Nat) (i : Nat) (hi : i < 2 ^ 32) (h : derivePath P m (is ++ [i]) = some node) :
    ∃ k, prvKey P node = some k ∧ 1 ≤ k ∧ k < P.curve.n ∧ node.key = beFixed 32 k ∧
      privBytes k = node.key := by
  rw [derivePath_append] at h
  cases hp : derivePath P m is with
  | none => rw [hp] at h; cases h
  | some par =>
    rw [hp, Option.bind_some, derivePath_cons] at h
    cases hc : ckd P par i with
    | none => rw [hc] at h; cases h
    | some c =>
      rw [hc, Option.bind_some, derivePath_nil] at h
      injection h with h
      subst h
      have hpar : par.isPrv = true := by rw [(derivePath_fields hp).1, hm]
      unfold ckd at hc
      rw [if_pos hpar] at hc
      cases hk : prvKey P par with
      | none => unfold ckdPrv at hc; rw [hk] at hc; cases hc
      | some kp =>
        obtain ⟨ki, IR, fp, h1, h2, _, _, _, _, rfl⟩ := ckdPrv_eq_some P par c i kp hk hi hn hc
        exact ⟨ki, mkChild_prvKey P par ki IR i fp h1 h2 hn, h1, h2, mkChild_key _ _ _ _ _, rfl⟩

/-! ### word counts -/

theorem mem_correctMnemonicLength {n : Nat} :
    n ∈ Generated.correctMnemonicLength ↔ n = 12 ∨ n = 15 ∨ n = 18 ∨ n = 21 ∨ n = 24 := by
  simp [Generated.correctMnemonicLength]

theorem byteCount_natCast {wc : Nat} (h : wc ∈ Generated.correctMnemonicLength) :
    byteCountFromWordCount (wc : Int) = some (wc * 4 / 3) := by
  unfold byteCountFromWordCount
  rw [Int.toNat_natCast, if_pos ⟨h, by omega⟩]
  rcases mem_correctMnemonicLength.mp h with rfl | rfl | rfl | rfl | rfl <;> rfl

theorem byteCount_none {wc : Int} (h : ¬ (0 ≤ wc ∧ wc.toNat ∈ Generated.correctMnemonicLength)) :
    byteCountFromWordCount wc = none := by
  unfold byteCountFromWordCount
  rw [if_neg (fun hh => h ⟨hh.2, hh.1⟩)]

/-! ### WIF and XPRV bodies -/

theorem correctKey_iff (P : Prims Pt) (kb : Bytes) :
    correctKey P kb = true ↔ 1 ≤ beToNat kb ∧ beToNat kb < P.curve.n := by
  unfold correctKey
  simp only [ne_eq, decide_eq_true_eq]
  omega

/-- the part of `wif` after the entropy: check, build the key, print it -/
def wifBody (P : Prims Pt) (e : Bytes) : Option (List Char) :=
  if correctKey P (e.take 32) then
    (mkPriv P.curve (e.take 32)).map fun k => Keys.wif P k true false
  else none

theorem wif_eq (P : Prims Pt) (m : Node) (i : Int) :
    wif P m i = (entropy P m (fmt Generated.bip85TplWif [i])).bind (wifBody P) := rfl

theorem wifBody_eq (P : Prims Pt) (e : Bytes) (hlen : 32 ≤ e.length) :
    wifBody P e =
      if 1 ≤ beToNat (e.take 32) ∧ beToNat (e.take 32) < P.curve.n then
        some (Base58.encodeCheck P.hash256 ([0x80] ++ e.take 32 ++ [0x01]))
      else none := by
  unfold wifBody
  by_cases h : 1 ≤ beToNat (e.take 32) ∧ beToNat (e.take 32) < P.curve.n
  · have hl : (e.take 32).length = 32 := by rw [List.length_take]; omega
    rw [if_pos h, if_pos ((correctKey_iff P _).mpr h),
      mkPriv_eq_some.mpr ⟨hl, h.1, h.2, rfl⟩, Option.map_some]
    have hb : beFixed 32 (beToNat (e.take 32)) = e.take 32 := by
      have := BytesL.beFixed_beToNat (e.take 32)
      rwa [hl] at this
    unfold Keys.wif privBytes
    rw [hb]
    rfl
  · rw [if_neg h, if_neg (fun hc => h ((correctKey_iff P _).mp hc))]

/-- the node `PrvKeyNode(key=right, chain_code=left)` built by `xprv` -/
def xprvNode (left right : Bytes) : Node :=
  { isPrv := true, key := right, chainCode := left, depth := 0, index := 0, testnet := false,
    hasParent := false, parentFp := none, path := [], parsedVersion := none }

/-- the part of `xprv` after the entropy -/
def xprvBody (P : Prims Pt) (e : Bytes) : Option (List Char) :=
  if correctKey P (e.drop 32) then
    extendedPrivateKey P (xprvNode (e.take 32) (e.drop 32)) none
  else none

theorem xprv_eq (P : Prims Pt) (m : Node) (i : Int) :
    xprv P m i = (entropy P m (fmt Generated.bip85TplXprv [i])).bind (xprvBody P) := rfl

theorem prvMain_bytes : toBytesBE 4 Generated.prvMain = some [0x04, 0x88, 0xAD, 0xE4] := by
  decide +kernel

theorem zero1 : toBytesBE 1 0 = some [0] := by decide +kernel
theorem zero4 : toBytesBE 4 0 = some [0, 0, 0, 0] := by decide +kernel

theorem serializePrivate_xprvNode (P : Prims Pt) (left right : Bytes) (hr : right.length = 32)
    (h1 : 1 ≤ beToNat right) (h2 : beToNat right < P.curve.n) :
    serializePrivate P (xprvNode left right) none =
      some ([0x04, 0x88, 0xAD, 0xE4] ++ [0] ++ [0, 0, 0, 0] ++ [0, 0, 0, 0] ++ left ++ ([0] ++ right))
    := by
  have hk : prvKey P (xprvNode left right) = some (beToNat right) := by
    rw [prvKey_def]
    have : (xprvNode left right).key = right := rfl
    rw [this, if_neg (by omega)]
    exact mkPriv_eq_some.mpr ⟨hr, h1, h2, rfl⟩
  have hb : privBytes (beToNat right) = right := by
    have := BytesL.beFixed_beToNat right
    rwa [hr] at this
  have hv : (none : Option Nat).getD (prvVersion (xprvNode left right)) = Generated.prvMain := rfl
  have hmaster : isMaster (xprvNode left right) = true := rfl
  have hd : (xprvNode left right).depth = 0 := rfl
  have hi : (xprvNode left right).index = 0 := rfl
  have hc : (xprvNode left right).chainCode = left := rfl
  have hp : (xprvNode left right).isPrv = true := rfl
  unfold serializePrivate
  rw [if_pos hp, hk, Option.bind_some, hv, hb]
  unfold serializeWith
  rw [prvMain_bytes, hd, hi, zero1, zero4, hmaster, hc]
  rfl

theorem xprvBody_eq (P : Prims Pt) (e : Bytes) (hlen : e.length = 64) :
    xprvBody P e =
      if 1 ≤ beToNat (e.drop 32) ∧ beToNat (e.drop 32) < P.curve.n then
        some (Base58.encodeCheck P.hash256
          ([0x04, 0x88, 0xAD, 0xE4] ++ [0] ++ [0, 0, 0, 0] ++ [0, 0, 0, 0] ++ e.take 32
            ++ ([0] ++ e.drop 32)))
      else none := by
  unfold xprvBody
  by_cases h : 1 ≤ beToNat (e.drop 32) ∧ beToNat (e.drop 32) < P.curve.n
  · rw [if_pos h, if_pos ((correctKey_iff P _).mpr h)]
    unfold extendedPrivateKey
    rw [serializePrivate_xprvNode P _ _ (by rw [List.length_drop]; omega) h.1 h.2]
    rfl
  · rw [if_neg h, if_neg (fun hc => h ((correctKey_iff P _).mp hc))]

/-! ### Base64 -/

theorem b64Alphabet_length : b64Alphabet.length = 64 := by decide +kernel

theorem b64Char_mem {x : Nat} (h : x < 64) : b64Char x ∈ b64Alphabet := by
  unfold b64Char
  have hx : x < b64Alphabet.length := by rw [b64Alphabet_length]; exact h
  rw [List.getD_eq_getElem?_getD, List.getElem?_eq_getElem hx, Option.getD_some]
  exact List.getElem_mem hx

theorem eq_not_mem_b64Alphabet : '=' ∉ b64Alphabet := by decide +kernel

theorem b64Alphabet_ascii : ∀ c ∈ b64Alphabet, c.isAlphanum = true ∨ c = '+' ∨ c = '/' := by
  decide +kernel

theorem base64_length (e : Bytes) : (base64 e).length = 4 * ((e.length + 2) / 3) := by
  fun_induction base64 e with
  | case1 a b c rest n ih =>
    simp only [List.length_cons, ih]; omega
  | case2 a b n => simp
  | case3 a n => simp
  | case4 => rfl

/-- the first `⌈4·len/3⌉` characters of `b64encode` are alphabet characters (the rest is `=`) -/
theorem base64_getElem? (e : Bytes) :
    ∀ j, j < (4 * e.length + 2) / 3 → ∃ x, x < 64 ∧ (base64 e)[j]? = some (b64Char x) := by
  fun_induction base64 e with
  | case1 a b c rest n ih =>
    intro j hj
    have ha := UInt8.toNat_lt a
    have hb := UInt8.toNat_lt b
    have hc := UInt8.toNat_lt c
    have hn : n < 16777216 := by omega
    match j with
    | 0 => exact ⟨n / 262144, by omega, rfl⟩
    | 1 => exact ⟨n / 4096 % 64, by omega, rfl⟩
    | 2 => exact ⟨n / 64 % 64, by omega, rfl⟩
    | 3 => exact ⟨n % 64, by omega, rfl⟩
    | j + 4 =>
      obtain ⟨x, hx, h⟩ := ih j (by simp only [List.length_cons] at hj; omega)
      exact ⟨x, hx, by simpa using h⟩
  | case2 a b n =>
    intro j hj
    have ha := UInt8.toNat_lt a
    have hb := UInt8.toNat_lt b
    have hn : n < 16777216 := by omega
    match j with
    | 0 => exact ⟨n / 262144, by omega, rfl⟩
    | 1 => exact ⟨n / 4096 % 64, by omega, rfl⟩
    | 2 => exact ⟨n / 64 % 64, by omega, rfl⟩
    | j + 3 => simp only [List.length_cons, List.length_nil] at hj; omega
  | case3 a n =>
    intro j hj
    have ha := UInt8.toNat_lt a
    have hn : n < 16777216 := by omega
    match j with
    | 0 => exact ⟨n / 262144, by omega, rfl⟩
    | 1 => exact ⟨n / 4096 % 64, by omega, rfl⟩
    | j + 2 => simp only [List.length_cons, List.length_nil] at hj; omega
  | case4 => intro j hj; simp at hj

/-- when the byte count is `1 mod 3`, what follows the alphabet characters is `==` -/
theorem base64_drop (e : Bytes) (h : e.length % 3 = 1) :
    (base64 e).drop ((4 * e.length + 2) / 3) = ['=', '='] := by
  fun_induction base64 e with
  | case1 a b c rest n ih =>
    simp only [List.length_cons] at h ⊢
    have : (4 * (rest.length + 1 + 1 + 1) + 2) / 3 = (4 * rest.length + 2) / 3 + 4 := by omega
    rw [this]
    exact ih (by omega)
  | case2 a b n => simp at h
  | case3 a n => simp
  | case4 => simp at h

/-- a prefix of the Base64 text of 64 bytes of length at most 86 has exactly that length and
consists of alphabet characters only (no `=` padding) -/
theorem base64_take (e : Bytes) (he : e.length = 64) (len : Nat) (hlen : len ≤ 86) :
    ((base64 e).take len).length = len ∧ ∀ c ∈ (base64 e).take len, c ∈ b64Alphabet := by
  constructor
  · rw [List.length_take, base64_length, he]; omega
  · intro c hc
    obtain ⟨j, hj⟩ := List.mem_iff_getElem?.mp hc
    rw [List.getElem?_take] at hj
    split at hj
    · next hlt =>
      obtain ⟨x, hx, h⟩ := base64_getElem? e j (by rw [he]; omega)
      rw [h] at hj
      cases hj
      exact b64Char_mem hx
    · cases hj

end BtcHd.Bip85
