/-
Helper lemmas about the BIP32 model (C01 / C02 / C18 / C13 / C14).
-/
import BtcHd.Lemmas.Bytes
import BtcHd.Model.Bip32

namespace BtcHd.Bip32
open BtcHd BytesL Keys

variable {Pt : Type}

theorem hardened_eq : hardened = 2 ^ 31 := by decide

/-- the RIPEMD-160 model always returns 20 bytes -/
theorem ripemd160_length (d : Bytes) : (Ripemd.ripemd160 d).length = 20 := by
  simp [Ripemd.ripemd160, Ripemd.u32LE]

theorem hash160_length (P : Prims Pt) (d : Bytes) : (hash160 P d).length = 20 := by
  simp [hash160, ripemd160_length]

theorem fp_length (P : Prims Pt) (d : Bytes) : ((hash160 P d).take 4).length = 4 := by
  simp [hash160_length]

theorem parentFingerprint_some {nd : Node} {fp : Bytes} (h : nd.parentFp = some fp) (hl : fp.length = 4) :
    parentFingerprint nd = fp := by
  unfold parentFingerprint
  rw [h]
  cases fp with
  | nil => simp at hl
  | cons a as => rfl

theorem mkPriv_def (C : Curve Pt) (bs : Bytes) :
    mkPriv C bs = if bs.length = 32 ∧ 1 ≤ beToNat bs ∧ beToNat bs < C.n then some (beToNat bs) else none :=
  rfl

theorem mkPriv_eq_some {C : Curve Pt} {bs : Bytes} {k : Nat} :
    mkPriv C bs = some k ↔ bs.length = 32 ∧ 1 ≤ k ∧ k < C.n ∧ k = beToNat bs := by
  rw [mkPriv_def]
  constructor
  · intro h
    split at h
    · next hc =>
      simp only [Option.some.injEq] at h
      subst h
      exact ⟨hc.1, hc.2.1, hc.2.2, rfl⟩
    · cases h
  · rintro ⟨h1, h2, h3, rfl⟩
    rw [if_pos ⟨h1, h2, h3⟩]

theorem mkPriv_eq_none {C : Curve Pt} {bs : Bytes} :
    mkPriv C bs = none ↔ bs.length ≠ 32 ∨ beToNat bs = 0 ∨ C.n ≤ beToNat bs := by
  rw [mkPriv_def]
  constructor
  · intro h
    split at h
    · cases h
    · next hc => omega
  · intro h
    rw [if_neg (by omega)]

theorem prvKey_def (P : Prims Pt) (nd : Node) :
    prvKey P nd = if nd.key.length = 33 ∧ nd.key.head? = some 0 then mkPriv P.curve (nd.key.drop 1)
      else mkPriv P.curve nd.key := rfl

/-- the scalar of a private node is the integer value of its `key` field,
whether stored as 32 bytes or as `00 ‖ 32 bytes` -/
theorem prvKey_eq_beToNat (P : Prims Pt) (nd : Node) (k : Nat) (h : prvKey P nd = some k) :
    k = beToNat nd.key := by
  rw [prvKey_def] at h
  split at h
  · next hc =>
    have := (mkPriv_eq_some.mp h).2.2.2
    rw [this]
    obtain ⟨_, hh⟩ := hc
    cases hk : nd.key with
    | nil => rw [hk] at hh; simp at hh
    | cons a as =>
      rw [hk] at hh
      simp only [List.head?_cons, Option.some.injEq] at hh
      subst hh
      simp [beToNat_zero_cons]
  · exact (mkPriv_eq_some.mp h).2.2.2

theorem prvKey_range (P : Prims Pt) (nd : Node) (k : Nat) (h : prvKey P nd = some k) :
    1 ≤ k ∧ k < P.curve.n := by
  rw [prvKey_def] at h
  split at h <;> exact ⟨(mkPriv_eq_some.mp h).2.1, (mkPriv_eq_some.mp h).2.2.1⟩

theorem mkPriv_beFixed (C : Curve Pt) {k : Nat} (h1 : 1 ≤ k) (h2 : k < C.n) (hn : C.n ≤ 2 ^ 256) :
    mkPriv C (beFixed 32 k) = some k := by
  have hk : k < 256 ^ 32 := by rw [pow_256_32]; omega
  exact mkPriv_eq_some.mpr ⟨beFixed_length _ _, h1, h2, (beToNat_beFixed hk).symm⟩

/-- a node whose key field is the 32-byte (or zero-prefixed 33-byte) encoding of a valid scalar -/
theorem prvKey_of_key32 (P : Prims Pt) (nd : Node) {k : Nat} (hk : nd.key = beFixed 32 k)
    (h1 : 1 ≤ k) (h2 : k < P.curve.n) (hn : P.curve.n ≤ 2 ^ 256) : prvKey P nd = some k := by
  rw [prvKey_def]
  have hlen : nd.key.length = 32 := by rw [hk, beFixed_length]
  rw [if_neg (by omega), hk]
  exact mkPriv_beFixed P.curve h1 h2 hn

theorem prvKey_of_key33 (P : Prims Pt) (nd : Node) {k : Nat} (hk : nd.key = 0 :: beFixed 32 k)
    (h1 : 1 ≤ k) (h2 : k < P.curve.n) (hn : P.curve.n ≤ 2 ^ 256) : prvKey P nd = some k := by
  rw [prvKey_def]
  have hlen : nd.key.length = 33 := by rw [hk]; simp [beFixed_length]
  rw [if_pos ⟨hlen, by rw [hk]; rfl⟩, hk]
  exact mkPriv_beFixed P.curve h1 h2 hn

end BtcHd.Bip32

namespace BtcHd.Bip32
open BtcHd BytesL Keys

variable {Pt : Type}

theorem mkChild_key (nd : Node) (key chain : Bytes) (i : Nat) (fp : Bytes) :
    (mkChild nd key chain i fp).key = key := rfl

theorem mkChild_isPrv (nd : Node) (key chain : Bytes) (i : Nat) (fp : Bytes) :
    (mkChild nd key chain i fp).isPrv = nd.isPrv := rfl

theorem mkChild_testnet (nd : Node) (key chain : Bytes) (i : Nat) (fp : Bytes) :
    (mkChild nd key chain i fp).testnet = nd.testnet := rfl

theorem mkChild_chainCode (nd : Node) (key chain : Bytes) (i : Nat) (fp : Bytes) :
    (mkChild nd key chain i fp).chainCode = chain := rfl

theorem mkChild_depth (nd : Node) (key chain : Bytes) (i : Nat) (fp : Bytes) :
    (mkChild nd key chain i fp).depth = nd.depth + 1 := rfl

theorem mkChild_index (nd : Node) (key chain : Bytes) (i : Nat) (fp : Bytes) :
    (mkChild nd key chain i fp).index = i := rfl

theorem mkChild_path (nd : Node) (key chain : Bytes) (i : Nat) (fp : Bytes) :
    (mkChild nd key chain i fp).path = nd.path ++ [i] := rfl

theorem mkChild_parentFp (nd : Node) (key chain : Bytes) (i : Nat) (fp : Bytes) :
    (mkChild nd key chain i fp).parentFp = some fp := rfl

theorem mkChild_hasParent (nd : Node) (key chain : Bytes) (i : Nat) (fp : Bytes) :
    (mkChild nd key chain i fp).hasParent = true := rfl

/-- the HMAC input of `PrvKeyNode.ckd` -/
def ckdPrvData (P : Prims Pt) (k index : Nat) : Bytes :=
  if index ≥ hardened then [0] ++ privBytes k ++ beFixed 4 index
  else P.curve.sec true (P.curve.mulGen k) ++ beFixed 4 index

/-- `ckdPrv` without its `let`s, for a node holding the valid scalar `k` -/
theorem ckdPrv_eq (P : Prims Pt) (nd : Node) (index k : Nat) (hk : prvKey P nd = some k)
    (hi : index < 2 ^ 32) (hn : P.curve.n ≤ 2 ^ 256) :
    ckdPrv P nd index =
      if P.curve.n ≤ beToNat ((P.hmac512 nd.chainCode (ckdPrvData P k index)).take 32) then none
      else if (beToNat ((P.hmac512 nd.chainCode (ckdPrvData P k index)).take 32) + k) % P.curve.n = 0 then none
      else some (mkChild nd
        (beFixed 32 ((beToNat ((P.hmac512 nd.chainCode (ckdPrvData P k index)).take 32) + k) % P.curve.n))
        ((P.hmac512 nd.chainCode (ckdPrvData P k index)).drop 32) index
        ((hash160 P (P.curve.sec true (P.curve.mulGen k))).take 4)) := by
  have h4 : toBytesBE 4 index = some (beFixed 4 index) := toBytesBE_some (by rw [pow_256_4]; exact hi)
  have hnpos : 0 < P.curve.n := by have := prvKey_range P nd k hk; omega
  unfold ckdPrv
  rw [hk, h4]
  simp only [Option.bind_some, ge_iff_le]
  have hdata : (if hardened ≤ index then [0] ++ privBytes k ++ beFixed 4 index
      else P.curve.sec true (P.curve.mulGen k) ++ beFixed 4 index) = ckdPrvData P k index := by
    unfold ckdPrvData; rfl
  rw [hdata]
  split
  · rfl
  · split
    · rfl
    · have hlt : (beToNat ((P.hmac512 nd.chainCode (ckdPrvData P k index)).take 32) + k) % P.curve.n
          < 256 ^ 32 := by
        rw [pow_256_32]
        exact Nat.lt_of_lt_of_le (Nat.mod_lt _ hnpos) hn
      rw [toBytesBE_some hlt]
      rfl

/-- success of `ckdPrv` characterised -/
theorem ckdPrv_eq_some (P : Prims Pt) (nd c : Node) (index k : Nat) (hk : prvKey P nd = some k)
    (hi : index < 2 ^ 32) (hn : P.curve.n ≤ 2 ^ 256) (hc : ckdPrv P nd index = some c) :
    ∃ ki IR fp, 1 ≤ ki ∧ ki < P.curve.n ∧
      ki = (beToNat ((P.hmac512 nd.chainCode (ckdPrvData P k index)).take 32) + k) % P.curve.n ∧
      beToNat ((P.hmac512 nd.chainCode (ckdPrvData P k index)).take 32) < P.curve.n ∧
      IR = (P.hmac512 nd.chainCode (ckdPrvData P k index)).drop 32 ∧
      fp = (hash160 P (P.curve.sec true (P.curve.mulGen k))).take 4 ∧
      c = mkChild nd (beFixed 32 ki) IR index fp := by
  have hnpos : 0 < P.curve.n := by have := prvKey_range P nd k hk; omega
  rw [ckdPrv_eq P nd index k hk hi hn] at hc
  split at hc
  · cases hc
  · split at hc
    · cases hc
    · next h1 h2 =>
      simp only [Option.some.injEq] at hc
      exact ⟨_, _, _, Nat.pos_of_ne_zero h2, Nat.mod_lt _ hnpos, rfl, by omega, rfl, rfl, hc.symm⟩

theorem mkChild_prvKey (P : Prims Pt) (nd : Node) (ki : Nat) (IR : Bytes) (i : Nat) (fp : Bytes)
    (h1 : 1 ≤ ki) (h2 : ki < P.curve.n) (hn : P.curve.n ≤ 2 ^ 256) :
    prvKey P (mkChild nd (beFixed 32 ki) IR i fp) = some ki :=
  prvKey_of_key32 P _ (mkChild_key _ _ _ _ _) h1 h2 hn

end BtcHd.Bip32
