/-
Executable definitions for the Bech32 BCH distance check: the linear step of
`polymodStep` in kernel-friendly form (`Tf`), the table `W t j = T^t (2^j)` and
the row checks evaluated by the kernel in the generated modules
`BtcHd/Bch/Row*.lean`.  Everything is defined over `Bech32.gen` /
`Bech32.bech32mConst`, i.e. over the constants extracted from the Python source
on every run; no copy of the generator words or of the Bech32m constant appears
here.  Core Lean only.  `Tf c = Bech32.polymodStep c 0` is proved (for all `c`,
not by evaluation) in `Lemmas/Bch.lean`.
-/
import BtcHd.Model.Bech32
import BtcHd.Lemmas.GF2

namespace BtcHd.Bch
open BtcHd GF2

/-- one polymod step with input symbol 0: the GF(2)-linear part of `polymodStep` -/
def T (c : Nat) : Nat := Bech32.polymodStep c 0

/-- `T` written with raw `Nat` primitives (same value, see `Tf_eq_T`) -/
def Tf (c : Nat) : Nat :=
  Nat.xor (Nat.xor (Nat.xor (Nat.xor (Nat.xor (Nat.shiftLeft (Nat.land c 33554431) 5)
    (Nat.mul (Bech32.gen 0) (Nat.land (Nat.shiftRight c 25) 1)))
    (Nat.mul (Bech32.gen 1) (Nat.land (Nat.shiftRight c 26) 1)))
    (Nat.mul (Bech32.gen 2) (Nat.land (Nat.shiftRight c 27) 1)))
    (Nat.mul (Bech32.gen 3) (Nat.land (Nat.shiftRight c 28) 1)))
    (Nat.mul (Bech32.gen 4) (Nat.land (Nat.shiftRight c 29) 1))

/-- number of symbol positions covered: witness version + 64 program symbols + 6 checksum symbols -/
def maxLen : Nat := 71

/-- the five unit symbols `2^j` -/
def units : List Nat := [1, 2, 4, 8, 16]

/-- `rows n r = [r, map Tf r, map Tf (map Tf r), …]` (`n` entries) -/
def rows : Nat → List Nat → List (List Nat)
  | 0, _ => []
  | n + 1, r => r :: rows n (r.map Tf)

/-- `Wtable[t] = [T^t 1, T^t 2, T^t 4, T^t 8, T^t 16]` for `t < 71` -/
def Wtable : List (List Nat) := rows maxLen units

/-- the five vectors of position `t` (counted from the end of the string) -/
def Wrow (t : Nat) : List Nat := Wtable.getD t []

/-- the syndrome that would turn a Bech32 checksum into a Bech32m one (and back) -/
def D : Nat := Nat.xor 1 Bech32.bech32mConst

/-- second offsets `b ∈ [lo, lo+n)`, all third offsets `b < c ≤ 70`: the 20 vectors of
offsets `0, a, b, c` pass the echelon check -/
def rowD (a lo n : Nat) : Bool :=
  match insAll [] (Wrow 0 ++ Wrow a) with
  | none => false
  | some B1 => pairs B1 n (Wtable.drop lo)

/-- same for `D` together with the 15 vectors of positions `t1, t2, t3`,
`t2 ∈ [lo, lo+n)`, `t2 < t3 ≤ 70` -/
def rowX (t1 lo n : Nat) : Bool :=
  match insAll [] (D :: Wrow t1) with
  | none => false
  | some B1 => pairs B1 n (Wtable.drop lo)

/-- what a successful `rowD` establishes for one triple of offsets -/
def OkD (a b c : Nat) : Prop := Indep (Wrow 0 ++ Wrow a ++ Wrow b ++ Wrow c)

/-- what a successful `rowX` establishes for one triple of positions -/
def OkX (t1 t2 t3 : Nat) : Prop := Indep (D :: Wrow t1 ++ Wrow t2 ++ Wrow t3)

theorem length_rows : ∀ (n : Nat) (r : List Nat), (rows n r).length = n
  | 0, _ => rfl
  | n + 1, r => by simp [rows, length_rows n]

theorem length_Wtable : Wtable.length = 71 := length_rows _ _

theorem getD_drop_Wtable (lo i : Nat) : (Wtable.drop lo).getD i [] = Wrow (lo + i) := by
  simp [Wrow, List.getD_eq_getElem?_getD, List.getElem?_drop]

theorem rowD_spec {a lo n : Nat} (h : rowD a lo n = true) (b c : Nat) (h1 : lo ≤ b)
    (h2 : b < lo + n) (h3 : b < c) (h4 : c ≤ 70) : OkD a b c := by
  unfold rowD at h
  split at h
  · cases h
  · next B1 hB1 =>
    have := pairs_spec h (b - lo) (c - lo) (by omega) (by omega)
      (by simp [length_Wtable]; omega)
    rw [getD_drop_Wtable, getD_drop_Wtable, show lo + (b - lo) = b by omega,
      show lo + (c - lo) = c by omega] at this
    apply indep_of_insAll
    rw [List.append_assoc, insAll_append, hB1]
    exact this

theorem rowX_spec {t1 lo n : Nat} (h : rowX t1 lo n = true) (t2 t3 : Nat) (h1 : lo ≤ t2)
    (h2 : t2 < lo + n) (h3 : t2 < t3) (h4 : t3 ≤ 70) : OkX t1 t2 t3 := by
  unfold rowX at h
  split at h
  · cases h
  · next B1 hB1 =>
    have := pairs_spec h (t2 - lo) (t3 - lo) (by omega) (by omega)
      (by simp [length_Wtable]; omega)
    rw [getD_drop_Wtable, getD_drop_Wtable, show lo + (t2 - lo) = t2 by omega,
      show lo + (t3 - lo) = t3 by omega] at this
    apply indep_of_insAll
    rw [show D :: Wrow t1 ++ Wrow t2 ++ Wrow t3 = (D :: Wrow t1) ++ (Wrow t2 ++ Wrow t3) by simp,
      insAll_append, hB1]
    exact this

end BtcHd.Bch
