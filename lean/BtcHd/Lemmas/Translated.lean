/-
Helper lemmas for the `Tr*` property files: the machine-translated Python functions of
`BtcHd/Generated/Code.lean` (namespace `BtcHd.Code`) equal the hand-written model.

Generic facts about the shapes the translator emits (`for … in …` with `break` / `raise` inside the
`Option` monad), plus the few arithmetic / character facts the equivalences need.
-/
import BtcHd.Generated.Code
import BtcHd.Model.Path

namespace BtcHd.Translated
open BtcHd

/-! ### loops as emitted by the translator -/

/-- a `while cond: s = step s` loop run for at most `fuel` rounds -/
def whileFuel {σ : Type} (cond : σ → Prop) [DecidablePred cond] (step : σ → σ) : Nat → σ → σ
  | 0, s => s
  | n + 1, s => if cond s then whileFuel cond step n (step s) else s

/-- `for _ in l: if not cond: break; s = step s` (as translated, in `Option`) is the bounded while loop. -/
theorem forIn_break_option {α σ : Type} (cond : σ → Prop) [DecidablePred cond] (step : σ → σ)
    (l : List α) (s : σ) :
    forIn l s (fun _ s => if ¬ cond s then (pure (ForInStep.done s) : Option _)
      else pure (ForInStep.yield (step s))) = some (whileFuel cond step l.length s) := by
  induction l generalizing s with
  | nil => rfl
  | cons a l ih =>
    rw [List.forIn_cons]
    by_cases hc : cond s
    · simp only [hc, not_true_eq_false, if_false, List.length_cons, whileFuel, if_true]
      exact ih _
    · simp [hc, whileFuel]

/-- `for a in l: if bad a: raise …; s = g s a` (as translated, in `Option`): `none` as soon as one
element is bad, otherwise the fold. -/
theorem forIn_raise_option {α σ : Type} (bad : α → Prop) [DecidablePred bad] (g : σ → α → σ)
    (l : List α) (s : σ) :
    forIn l s (fun a s => if bad a then (none : Option _) else pure (ForInStep.yield (g s a))) =
      if l.any (fun a => decide (bad a)) then none else some (l.foldl g s) := by
  induction l generalizing s with
  | nil => rfl
  | cons a l ih =>
    rw [List.forIn_cons]
    by_cases hb : bad a
    · simp [hb]
    · simp only [hb, if_false, List.any_cons, decide_false, Bool.false_or, List.foldl_cons]
      exact ih _

/-- folds with pointwise equal step functions are equal (used with `g :=` the model's step, so that the
translated step never has to be written down) -/
theorem foldl_fn_congr {α β : Type} {f g : β → α → β} (h : ∀ s a, f s a = g s a) (l : List α) (s : β) :
    l.foldl f s = l.foldl g s := by
  have : f = g := funext fun s => funext fun a => h s a
  rw [this]

/-! ### `bech32_polymod` -/

theorem range5 : List.range 5 = [0, 1, 2, 3, 4] := by decide

/-- Python's truthiness test `x & 1` against the model's `x &&& 1 = 1` -/
theorem and_one_ne_zero (x : Nat) : (x &&& 1 ≠ 0) = (x &&& 1 = 1) := by
  rw [Nat.and_one_is_mod]; apply propext; omega

/-! ### the inner `while bits >= tobits` loop of `convertbits` -/

/-- the model's fuelled `emit` is the bounded while loop with the same fuel -/
theorem emit_eq_whileFuel (tobits maxv acc n b : Nat) (r : List Nat) :
    Bech32.convStep.emit tobits maxv acc n b r =
      whileFuel (fun s : Nat × List Nat => s.1 ≥ tobits)
        (fun s => (s.1 - tobits, s.2 ++ [(acc >>> (s.1 - tobits)) &&& maxv])) n (b, r) := by
  induction n generalizing b r with
  | zero => rfl
  | succ n ih =>
    unfold Bech32.convStep.emit whileFuel
    by_cases hb : b ≥ tobits
    · simp only [hb, if_true]; exact ih _ _
    · simp only [hb, if_false]

/-- for `0 < tobits` any fuel above `b / tobits` runs the loop to completion, so the amount is irrelevant -/
theorem emit_fuel {tobits : Nat} (h : 0 < tobits) (maxv acc : Nat) (f g b : Nat) (r : List Nat)
    (hf : b / tobits < f) (hg : b / tobits < g) :
    Bech32.convStep.emit tobits maxv acc f b r = Bech32.convStep.emit tobits maxv acc g b r := by
  induction f generalizing g b r with
  | zero => exact absurd hf (Nat.not_lt_zero _)
  | succ f ih =>
    cases g with
    | zero => exact absurd hg (Nat.not_lt_zero _)
    | succ g =>
      unfold Bech32.convStep.emit
      by_cases hb : b ≥ tobits
      · simp only [hb, if_true]
        have : b / tobits = (b - tobits) / tobits + 1 := by
          rw [Nat.div_eq b tobits, if_pos ⟨h, hb⟩]
        rw [this] at hf hg
        exact ih _ _ _ (Nat.lt_of_succ_lt_succ hf) (Nat.lt_of_succ_lt_succ hg)
      · simp only [hb, if_false]

/-! ### the Nat subtractions listed in the generated file never truncate

`(1 <<< tobits) - 1` and `(1 <<< (frombits + tobits - 1)) - 1`: a power of two is positive;
`frombits + tobits - 1`: `0 < tobits`; `bits - tobits` is guarded by `bits ≥ tobits`; `5 - i` ranges over
`List.range 6`; `word_count - 1` comes after the membership test in `[12, 15, 18, 21, 24]`.  The only
one needing an invariant is `tobits - bits` after the loop: -/

theorem one_le_one_shiftLeft (n : Nat) : 1 ≤ 1 <<< n := by
  rw [Nat.one_shiftLeft]; exact Nat.two_pow_pos n

/-- with enough fuel the `while bits >= tobits` loop ends with `bits < tobits` -/
theorem emit_bits_lt {tobits : Nat} (h : 0 < tobits) (maxv acc : Nat) (f b : Nat) (r : List Nat)
    (hf : b / tobits < f) : (Bech32.convStep.emit tobits maxv acc f b r).1 < tobits := by
  induction f generalizing b r with
  | zero => exact absurd hf (Nat.not_lt_zero _)
  | succ f ih =>
    unfold Bech32.convStep.emit
    by_cases hb : b ≥ tobits
    · simp only [hb, if_true]
      have : b / tobits = (b - tobits) / tobits + 1 := by
        rw [Nat.div_eq b tobits, if_pos ⟨h, hb⟩]
      rw [this] at hf
      exact ih _ _ (Nat.lt_of_succ_lt_succ hf)
    · simp only [hb, if_false]; omega

/-- after the `for value in data` loop of `convertbits`, `bits < tobits`: the subtraction `tobits - bits`
of the padding step is an ordinary integer subtraction -/
theorem foldl_convStep_bits_lt {tobits : Nat} (h : 0 < tobits) (frombits : Nat) (data : List Nat) :
    (data.foldl (Bech32.convStep frombits tobits) (0, 0, [])).2.1 < tobits := by
  suffices ∀ st : Nat × Nat × List Nat, st.2.1 < tobits →
      (data.foldl (Bech32.convStep frombits tobits) st).2.1 < tobits from this _ h
  induction data with
  | nil => exact fun _ hst => hst
  | cons v data ih =>
    intro st _
    rw [List.foldl_cons]
    apply ih
    unfold Bech32.convStep
    exact emit_bits_lt h _ _ _ _ _ (Nat.lt_succ_self _)

/-! ### `convert_hardened` -/

theorem isDigit_ascii {c : Char} (h : c.isDigit = true) : c.toNat < 128 := by
  simp only [Char.isDigit, Bool.and_eq_true, decide_eq_true_eq] at h
  have := h.2
  rw [UInt32.le_iff_toNat_le] at this
  show c.val.toNat < 128
  have e : '9'.val.toNat = 57 := rfl
  omega

/-- Python's `digits.isascii() and digits.isdigit()` as translated (every character below 128; non-empty
and every character a digit or non-ASCII) = the model's test: non-empty and all ASCII digits. -/
theorem asciiDigits_iff (digits : List Char) :
    ((digits.all (fun c => decide (c.toNat < 128))) = true ∧
      (decide (digits ≠ []) && digits.all (fun c => Char.isDigit c || decide (c.toNat ≥ 128))) = true)
    ↔ (digits ≠ [] ∧ digits.all Char.isDigit = true) := by
  simp only [List.all_eq_true, Bool.and_eq_true, decide_eq_true_eq, Bool.or_eq_true]
  constructor
  · rintro ⟨h1, h2, h3⟩
    refine ⟨h2, fun c hc => ?_⟩
    rcases h3 c hc with h | h
    · exact h
    · have := h1 c hc; omega
  · rintro ⟨h1, h2⟩
    exact ⟨fun c hc => isDigit_ascii (h2 c hc), h1, fun c hc => Or.inl (h2 c hc)⟩

end BtcHd.Translated
