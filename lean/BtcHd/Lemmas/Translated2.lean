/-
Helper lemmas for `Props/TrBase58.lean`: the machine-translated `encode_base58` / `decode_base58` of
`BtcHd/Generated/Code.lean` equal the hand-written model (`Model/Base58.lean`).  Loop shapes emitted by the
translator in `Id` and `Option`, the `hex()`/`bytes.fromhex` route of `decode_base58`, the divmod loop.
-/
import BtcHd.Lemmas.Translated
import BtcHd.Lemmas.Base58
import BtcHd.Lemmas.Bip39
import Mathlib.Tactic.IntervalCases

namespace BtcHd.Translated
open BtcHd


/-- `for a in l: if p a: s = g s a else: break` in `Id` -/
theorem forIn_takeWhile_id {α σ : Type} (p : α → Prop) [DecidablePred p] (g : σ → α → σ)
    (l : List α) (s : σ) :
    forIn (m := Id) l s (fun a s => if p a then pure (ForInStep.yield (g s a)) else pure (ForInStep.done s)) =
      pure ((l.takeWhile (fun a => decide (p a))).foldl g s) := by
  induction l generalizing s with
  | nil => rfl
  | cons a l ih =>
    rw [List.forIn_cons]
    by_cases hp : p a
    · simp only [hp, if_true, List.takeWhile_cons, decide_true, List.foldl_cons]
      exact ih _
    · simp [hp]

/-- `for _ in l: if not cond: break; s = step s` in `Id` -/
theorem forIn_break_id {α σ : Type} (cond : σ → Prop) [DecidablePred cond] (step : σ → σ)
    (l : List α) (s : σ) :
    forIn (m := Id) l s (fun _ s => if ¬ cond s then pure (ForInStep.done s)
      else pure (ForInStep.yield (step s))) = pure (whileFuel cond step l.length s) := by
  induction l generalizing s with
  | nil => rfl
  | cons a l ih =>
    rw [List.forIn_cons]
    by_cases hc : cond s
    · simp only [hc, not_true_eq_false, if_false, List.length_cons, whileFuel, if_true]
      exact ih _
    · simp [hc, whileFuel]

theorem leadingZeros_eq (data : Bytes) :
    (data.takeWhile (fun c => decide (c = 0))).foldl (fun n _ => n + 1) 0 = Base58.leadingZeros data := by
  suffices ∀ k, (data.takeWhile (fun c => decide (c = 0))).foldl (fun n _ => n + 1) k = k + Base58.leadingZeros data by
    simpa using this 0
  induction data with
  | nil => intro k; rfl
  | cons b bs ih =>
    intro k
    by_cases hb : b = 0
    · simp only [List.takeWhile_cons, hb, decide_true, if_true, List.foldl_cons, Base58.leadingZeros]
      rw [ih]; omega
    · simp [hb, Base58.leadingZeros]

/-- the divmod loop with enough fuel is the model's `encBody` -/
theorem while_encBody (fuel num : Nat) (acc : List Char) (h : num < fuel) :
    whileFuel (fun s : Nat × List Char => s.1 > 0)
      (fun s => (s.1 / 58, [Generated.base58Alphabet[s.1 % 58]!] ++ s.2)) fuel (num, acc)
      = (0, Base58.encBody num acc) := by
  induction fuel generalizing num acc with
  | zero => omega
  | succ f ih =>
    unfold whileFuel
    by_cases h0 : num = 0
    · subst h0; simp [Base58.encBody]
    · have hpos : num > 0 := Nat.pos_of_ne_zero h0
      simp only [hpos, if_true]
      rw [ih _ _ (by have := Nat.div_lt_self hpos (by decide : 1 < 58); omega)]
      conv_rhs => rw [Base58.encBody]
      simp only [h0, dite_false]
      have hlt : num % 58 < 58 := Nat.mod_lt _ (by decide)
      have hl : num % 58 < Generated.base58Alphabet.length := by
        have := Base58.alphabet_length; unfold Base58.alphabet at this; omega
      rw [Base58.alphaAt_eq hlt, getElem!_pos Generated.base58Alphabet (num % 58) hl]
      rfl



/-- Python's `h = hex(num)[2:]; h = '0' + h if len(h) % 2 else h` -/
def hexPad (n : Nat) : List Char :=
  if (Py.hexStr n).length % 2 ≠ 0 then [Char.ofNat 48] ++ Py.hexStr n else Py.hexStr n

theorem digitChar_eq_hexDigit {d : Nat} (h : d < 16) : Nat.digitChar d = hexDigit d := by
  interval_cases d <;> rfl

theorem toHex_append (a b : Bytes) : toHex (a ++ b) = toHex a ++ toHex b := by
  induction a with
  | nil => rfl
  | cons x xs ih => simp [toHex, ih]

theorem hexPad_pos (n : Nat) (h : 0 < n) : hexPad n = toHex (Base58.beMinimal n) := by
  induction n using Nat.strongRecOn with
  | _ n ih =>
    by_cases h256 : n < 256
    · -- one byte
      have hb : Base58.beMinimal n = [UInt8.ofNat n] := by
        rw [Base58.beMinimal]; simp only [Nat.ne_of_gt h, dite_false]
        rw [Nat.div_eq_of_lt h256, Nat.mod_eq_of_lt h256, Base58.beMinimal]; simp
      rw [hb]
      by_cases h16 : n < 16
      · have : Py.hexStr n = [Nat.digitChar n] := Nat.toDigits_of_lt_base h16
        unfold hexPad; rw [this]
        simp only [List.length_singleton, ne_eq, Nat.one_mod, one_ne_zero, not_false_eq_true, if_true, toHex]
        have e1 : (UInt8.ofNat n).toNat = n := by simp [Nat.mod_eq_of_lt (by omega : n < 256)]
        rw [e1, Nat.div_eq_of_lt h16, Nat.mod_eq_of_lt h16, digitChar_eq_hexDigit h16]
        rfl
      · have hq : n / 16 < 16 := by omega
        have : Py.hexStr n = [Nat.digitChar (n / 16), Nat.digitChar (n % 16)] := by
          unfold Py.hexStr
          rw [Nat.toDigits_of_base_le (by decide) (by omega), Nat.toDigits_of_lt_base hq]; rfl
        unfold hexPad; rw [this]
        have e1 : (UInt8.ofNat n).toNat = n := by simp [Nat.mod_eq_of_lt (by omega : n < 256)]
        simp only [List.length_cons, List.length_nil, toHex, e1]
        rw [digitChar_eq_hexDigit hq, digitChar_eq_hexDigit (Nat.mod_lt _ (by decide))]
        simp
    · have hq : 0 < n / 256 := Nat.div_pos (by omega) (by decide)
      have hlt : n / 256 < n := Nat.div_lt_self h (by decide)
      have ih' := ih (n / 256) hlt hq
      have hd : Py.hexStr n = Py.hexStr (n / 256) ++ [Nat.digitChar (n / 16 % 16), Nat.digitChar (n % 16)] := by
        unfold Py.hexStr
        rw [Nat.toDigits_of_base_le (by decide) (by omega : 16 ≤ n),
          Nat.toDigits_of_base_le (by decide) (by omega : 16 ≤ n / 16), Nat.div_div_eq_div_mul]
        simp
      have hb : Base58.beMinimal n = Base58.beMinimal (n / 256) ++ [UInt8.ofNat (n % 256)] := by
        rw [Base58.beMinimal]; simp [Nat.ne_of_gt h]
      rw [hb, toHex_append, ← ih']
      unfold hexPad
      rw [hd]
      have e1 : (UInt8.ofNat (n % 256)).toNat = n % 256 := by simp
      simp only [List.length_append, List.length_cons, List.length_nil, toHex, e1]
      have p : ((Py.hexStr (n / 256)).length + (0 + 1 + 1)) % 2 = (Py.hexStr (n / 256)).length % 2 := by omega
      rw [p]
      have a1 : n % 256 / 16 = n / 16 % 16 := by omega
      have a2 : n % 256 % 16 = n % 16 := by omega
      rw [a1, a2, digitChar_eq_hexDigit (Nat.mod_lt _ (by decide)), digitChar_eq_hexDigit (Nat.mod_lt _ (by decide))]
      split <;> simp

theorem fromHex_hexPad (n : Nat) : fromHex (hexPad n) = some (Base58.numBytes n) := by
  by_cases h : n = 0
  · subst h; decide
  · rw [hexPad_pos n (Nat.pos_of_ne_zero h), Bip39.fromHex_toHex]
    simp [Base58.numBytes, h]

/-- `for a in l: if p a: s = g s a else: break` in `Option` -/
theorem forIn_takeWhile_option {α σ : Type} (p : α → Prop) [DecidablePred p] (g : σ → α → σ)
    (l : List α) (s : σ) :
    forIn (m := Option) l s (fun a s => if p a then pure (ForInStep.yield (g s a)) else pure (ForInStep.done s)) =
      some ((l.takeWhile (fun a => decide (p a))).foldl g s) := by
  induction l generalizing s with
  | nil => rfl
  | cons a l ih =>
    rw [List.forIn_cons]
    by_cases hp : p a
    · simp only [hp, if_true, List.takeWhile_cons, decide_true, List.foldl_cons]
      exact ih _
    · simp [hp]

theorem decNum_eq (s : List Char) (acc : Nat) :
    Base58.decNum s acc =
      if s.any (fun c => decide (c ∉ Generated.base58Alphabet)) then none
      else some (s.foldl (fun a c => a * 58 + Generated.base58Alphabet.idxOf c) acc) := by
  induction s generalizing acc with
  | nil => rfl
  | cons c cs ih =>
    unfold Base58.decNum
    by_cases hc : c ∈ Base58.alphabet
    · have hc' : c ∈ Generated.base58Alphabet := hc
      simp only [hc, if_true, List.any_cons, hc', not_true_eq_false, decide_false, Bool.false_or, List.foldl_cons]
      exact ih _
    · have hc' : c ∉ Generated.base58Alphabet := hc
      simp [hc, hc']

theorem leadingOnes_eq (s : List Char) :
    (s.takeWhile (fun c => decide (c = Generated.base58Alphabet[0]!))).foldl (fun n _ => n + 1) 0 =
      Base58.leadingOnes s := by
  have h0 : Generated.base58Alphabet[0]! = Base58.alphaAt 0 := by decide
  rw [h0]
  suffices ∀ k, (s.takeWhile (fun c => decide (c = Base58.alphaAt 0))).foldl (fun n _ => n + 1) k =
      k + Base58.leadingOnes s by simpa using this 0
  induction s with
  | nil => intro k; rfl
  | cons b bs ih =>
    intro k
    by_cases hb : b = Base58.alphaAt 0
    · simp only [List.takeWhile_cons, hb, decide_true, if_true, List.foldl_cons, Base58.leadingOnes]
      rw [ih]; omega
    · simp [hb, Base58.leadingOnes]


end BtcHd.Translated
