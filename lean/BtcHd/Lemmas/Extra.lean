/-
Helper lemmas for `BtcHd/Props/Extra.lean` (the model is `BtcHd/Model/Extra.lean`).
-/
import BtcHd.Model.Extra
import BtcHd.Lemmas.Bech32
import BtcHd.Lemmas.BeFixed
import BtcHd.Lemmas.Script

namespace BtcHd.ExtraLemmas
open BtcHd BtcHd.Extra

/-! ### `chunks` -/

/-- the list of slices `chunks` returns for a positive step -/
def chunkList {α : Type} (n : Nat) (lst : List α) : List (List α) :=
  (List.range' 0 ((lst.length + n - 1) / n) n).map fun i => (lst.drop i).take n

theorem chunks_pos {α : Type} {n : Nat} (hn : 0 < n) (lst : List α) :
    chunks n lst = some (chunkList n lst) := by
  unfold chunks chunkList
  rw [if_neg (by omega)]

theorem chunkList_nil {α : Type} {n : Nat} (hn : 0 < n) : chunkList n ([] : List α) = [] := by
  unfold chunkList
  have : (([] : List α).length + n - 1) / n = 0 := by
    simp only [List.length_nil, Nat.zero_add]
    exact Nat.div_eq_of_lt (by omega)
  rw [this]; rfl

theorem count_step {len n : Nat} (hn : 0 < n) (hl : 0 < len) :
    (len + n - 1) / n = ((len - n) + n - 1) / n + 1 := by
  by_cases h : len ≤ n
  · have h1 : (len + n - 1) / n = 1 := by
      rw [Nat.div_eq_iff hn]; omega
    have h2 : ((len - n) + n - 1) / n = 0 := Nat.div_eq_of_lt (by omega)
    omega
  · have : len + n - 1 = ((len - n) + n - 1) + n := by omega
    rw [this, Nat.add_div_right _ hn]

theorem chunkList_step {α : Type} {n : Nat} (hn : 0 < n) {lst : List α} (hl : lst ≠ []) :
    chunkList n lst = lst.take n :: chunkList n (lst.drop n) := by
  have hlen : 0 < lst.length := List.length_pos_iff.mpr hl
  unfold chunkList
  rw [count_step hn hlen, List.range'_succ, List.map_cons, List.drop_zero, List.length_drop]
  congr 1
  have : List.range' (0 + n) ((lst.length - n + n - 1) / n) n
      = (List.range' 0 ((lst.length - n + n - 1) / n) n).map (n + ·) := by
    rw [List.map_add_range', Nat.add_comm]
  rw [this, List.map_map]
  apply List.map_congr_left
  intro i _
  simp only [Function.comp, List.drop_drop]


theorem chunkList_flatten {α : Type} {n : Nat} (hn : 0 < n) :
    ∀ (k : Nat) (lst : List α), lst.length ≤ k → (chunkList n lst).flatten = lst := by
  intro k
  induction k with
  | zero =>
    intro lst h
    have : lst = [] := List.eq_nil_of_length_eq_zero (by omega)
    subst this
    rw [chunkList_nil hn]; rfl
  | succ k ih =>
    intro lst h
    by_cases hl : lst = []
    · subst hl; rw [chunkList_nil hn]; rfl
    · have hlen : 0 < lst.length := List.length_pos_iff.mpr hl
      rw [chunkList_step hn hl, List.flatten_cons,
        ih (lst.drop n) (by rw [List.length_drop]; omega), List.take_append_drop]

theorem chunkList_length {α : Type} (n : Nat) (lst : List α) :
    (chunkList n lst).length = (lst.length + n - 1) / n := by
  unfold chunkList
  rw [List.length_map, List.length_range']

theorem chunkList_getElem {α : Type} (n : Nat) (lst : List α) (i : Nat)
    (h : i < (chunkList n lst).length) : (chunkList n lst)[i] = (lst.drop (n * i)).take n := by
  simp only [chunkList, List.getElem_map, List.getElem_range', Nat.zero_add]

/-- position `i` of a non-final chunk: a whole chunk still fits -/
theorem chunk_fits {len n i : Nat} (hn : 0 < n) (h : i + 1 < (len + n - 1) / n) :
    n * i + n ≤ len := by
  have h2 : (i + 2) * n ≤ len + n - 1 := (Nat.le_div_iff_mul_le hn).mp h
  have e : (i + 2) * n = n * i + n + n := by
    rw [Nat.add_mul, Nat.mul_comm i n]; omega
  omega

/-- position `i` of any chunk: at least one element is left -/
theorem chunk_starts {len n i : Nat} (hn : 0 < n) (h : i < (len + n - 1) / n) :
    n * i < len := by
  have h2 : (i + 1) * n ≤ len + n - 1 := (Nat.le_div_iff_mul_le hn).mp h
  have e : (i + 1) * n = n * i + n := by
    rw [Nat.add_mul, Nat.mul_comm i n]; omega
  omega


/-! ### Merkle levels -/

theorem padLevel_of_even {xs : List Bytes} (h : xs.length % 2 = 0) : padLevel xs = xs := by
  unfold padLevel
  rw [if_neg (by omega)]

theorem padLevel_of_odd {xs : List Bytes} (h : xs.length % 2 = 1) :
    ∃ l, xs.getLast? = some l ∧ padLevel xs = xs ++ [l] := by
  have hne : xs ≠ [] := by
    intro e; subst e; simp at h
  obtain ⟨l, hl⟩ : ∃ l, xs.getLast? = some l := by
    cases hx : xs.getLast? with
    | none => exact absurd (List.getLast?_eq_none_iff.mp hx) hne
    | some l => exact ⟨l, rfl⟩
  refine ⟨l, hl, ?_⟩
  unfold padLevel
  rw [if_pos h, hl]

theorem padLevel_length (xs : List Bytes) : (padLevel xs).length = xs.length + xs.length % 2 := by
  rcases Nat.mod_two_eq_zero_or_one xs.length with h | h
  · rw [padLevel_of_even h]; omega
  · obtain ⟨l, _, e⟩ := padLevel_of_odd h
    rw [e, List.length_append, List.length_singleton]; omega

theorem pairUp_nil (h : Bytes → Bytes) : pairUp h [] = [] := rfl
theorem pairUp_single (h : Bytes → Bytes) (a : Bytes) : pairUp h [a] = [] := rfl
theorem pairUp_cons_cons (h : Bytes → Bytes) (a b : Bytes) (rest : List Bytes) :
    pairUp h (a :: b :: rest) = merkleParent h a b :: pairUp h rest := rfl

theorem pairUp_length (h : Bytes → Bytes) (xs : List Bytes) :
    (pairUp h xs).length = xs.length / 2 := by
  fun_induction pairUp h xs with
  | case1 a b rest ih =>
    simp only [List.length_cons, ih]; omega
  | case2 xs hne =>
    match xs, hne with
    | [], _ => rfl
    | [_], _ => simp
    | a :: b :: rest, hne => exact absurd rfl (hne a b rest)

theorem pairUp_getElem (h : Bytes → Bytes) (xs : List Bytes) (i : Nat)
    (hi : i < (pairUp h xs).length) (h0 : 2 * i < xs.length) (h1 : 2 * i + 1 < xs.length) :
    (pairUp h xs)[i] = merkleParent h xs[2 * i] xs[2 * i + 1] := by
  induction i generalizing xs with
  | zero =>
    match xs, h1 with
    | a :: b :: rest, _ => rfl
  | succ i ih =>
    match xs, h1, hi, h0 with
    | a :: b :: rest, h1, hi, h0 =>
      simp only [pairUp_cons_cons, List.getElem_cons_succ]
      rw [ih rest (by simpa [pairUp_cons_cons] using hi)
        (by simp only [List.length_cons] at h0; omega) (by simp only [List.length_cons] at h1; omega)]
      have e1 : 2 * (i + 1) = 2 * i + 1 + 1 := by omega
      simp only [e1, List.getElem_cons_succ]

theorem merkleParentLevel_eq_none_iff (h : Bytes → Bytes) (xs : List Bytes) :
    merkleParentLevel h xs = none ↔ xs.length = 1 := by
  unfold merkleParentLevel
  split <;> simp_all

theorem merkleParentLevel_of_ne (h : Bytes → Bytes) {xs : List Bytes} (hx : xs.length ≠ 1) :
    merkleParentLevel h xs = some (pairUp h (padLevel xs)) := by
  unfold merkleParentLevel
  rw [if_neg hx]

theorem level_length (h : Bytes → Bytes) (xs : List Bytes) :
    (pairUp h (padLevel xs)).length = (xs.length + 1) / 2 := by
  rw [pairUp_length, padLevel_length]; omega

/-! ### `merkle_root` -/

theorem merkleRootLoop_succ (h : Bytes → Bytes) (fuel : Nat) (cur : List Bytes) :
    merkleRootLoop h (fuel + 1) cur =
      if cur.length > 1 then (merkleParentLevel h cur).bind (merkleRootLoop h fuel)
      else cur.head? := rfl

/-- one more unit of fuel changes nothing once the fuel covers the length -/
theorem merkleRootLoop_stable (h : Bytes → Bytes) :
    ∀ (fuel : Nat) (xs : List Bytes), xs.length ≤ fuel →
      merkleRootLoop h (fuel + 1) xs = merkleRootLoop h fuel xs := by
  intro fuel
  induction fuel with
  | zero =>
    intro xs hx
    have : xs = [] := List.eq_nil_of_length_eq_zero (by omega)
    subst this; rfl
  | succ fuel ih =>
    intro xs hx
    rw [merkleRootLoop_succ h (fuel + 1), merkleRootLoop_succ h fuel]
    by_cases hl : xs.length > 1
    · rw [if_pos hl, if_pos hl, merkleParentLevel_of_ne h (by omega)]
      simp only [Option.bind_some]
      exact ih _ (by rw [level_length]; omega)
    · rw [if_neg hl, if_neg hl]

theorem merkleRootLoop_of_le (h : Bytes → Bytes) (xs : List Bytes) :
    ∀ (d : Nat), merkleRootLoop h (xs.length + d) xs = merkleRootLoop h xs.length xs := by
  intro d
  induction d with
  | zero => rfl
  | succ d ih => rw [← Nat.add_assoc, merkleRootLoop_stable h _ xs (by omega), ih]


/-! ### `bech32_decode_address` -/

open Bech32 in
/-- whatever `convertbits` returns without padding consists of `t`-bit groups -/
theorem convertbits_out_lt {f t : Nat} (hf : 0 < f) (ht : 0 < t) {data out : List Nat}
    (h : convertbits data f t false = some out) : ∀ d ∈ out, d < 2 ^ t := by
  have hd : ∀ v ∈ data, v < 2 ^ f := by
    intro v hv
    by_cases hlt : v < 2 ^ f
    · exact hlt
    · exfalso
      have hany : data.any (fun v => (v >>> f) ≠ 0) = true := by
        rw [List.any_eq_true]
        refine ⟨v, hv, ?_⟩
        have : 0 < v / 2 ^ f := Nat.div_pos (by omega) (Nat.two_pow_pos f)
        simp only [Nat.shiftRight_eq_div_pow, ne_eq, decide_eq_true_eq]
        omega
      unfold convertbits at h
      rw [hany] at h
      simp at h
  have inv := convInv_fold hf ht data hd
  rw [convertbits_of_lt t false hd] at h
  generalize data.foldl (convStep f t) (0, 0, []) = st at inv h
  obtain ⟨a, bits, ret⟩ := st
  obtain ⟨_, _, h3, _⟩ := inv
  simp only [Bool.false_eq_true, if_false] at h
  split at h
  · cases h
  · cases h; exact h3

theorem bytesOfInts_nil : bytesOfInts [] = some [] := rfl

theorem bytesOfInts_cons (v : Nat) (xs : List Nat) :
    bytesOfInts (v :: xs) =
      (if v < 256 then some (UInt8.ofNat v) else none).bind fun b =>
        (bytesOfInts xs).map (b :: ·) := by
  unfold bytesOfInts
  rw [List.mapM_cons]
  cases (if v < 256 then some (UInt8.ofNat v) else none) with
  | none => rfl
  | some b =>
    cases List.mapM (fun v => if v < 256 then some (UInt8.ofNat v) else none) xs <;> rfl

theorem bytesOfInts_of_lt {xs : List Nat} (h : ∀ v ∈ xs, v < 256) :
    bytesOfInts xs = some (xs.map UInt8.ofNat) := by
  induction xs with
  | nil => rfl
  | cons v xs ih =>
    rw [bytesOfInts_cons, if_pos (h v List.mem_cons_self),
      ih (fun w hw => h w (List.mem_cons_of_mem _ hw))]
    rfl

theorem bytesOfInts_some {xs : List Nat} {bs : Bytes} (h : bytesOfInts xs = some bs) :
    bs.map (·.toNat) = xs := by
  induction xs generalizing bs with
  | nil => cases h; rfl
  | cons v xs ih =>
    rw [bytesOfInts_cons] at h
    by_cases hv : v < 256
    · rw [if_pos hv] at h
      simp only [Option.bind_some] at h
      cases hx : bytesOfInts xs with
      | none => rw [hx] at h; cases h
      | some r =>
        rw [hx] at h
        cases h
        rw [List.map_cons, ih hx]
        congr 1
        exact ScriptLemmas.toNat_ofNat_of_lt hv
    · rw [if_neg hv] at h; cases h

theorem bytesOfInts_map_toNat (bs : Bytes) : bytesOfInts (bs.map (·.toNat)) = some bs := by
  rw [bytesOfInts_of_lt (fun v hv => by have := Bech32.bytes_lt bs v hv; omega), List.map_map]
  congr 1
  conv_rhs => rw [← List.map_id bs]
  apply List.map_congr_left
  intro b _
  simp


theorem isUpperAscii_toLowerAscii (c : Char) : Bech32.isUpperAscii (Bech32.toLowerAscii c) = false := by
  by_cases h : Bech32.isUpperAscii c = true
  · have h1 := Bech32.toLowerAscii_toNat_of_upper h
    have h2 := (Bech32.isUpperAscii_iff c).mp h
    cases hu : Bech32.isUpperAscii (Bech32.toLowerAscii c) with
    | false => rfl
    | true =>
      have := (Bech32.isUpperAscii_iff _).mp hu
      omega
  · have h' : Bech32.isUpperAscii c = false := by simpa using h
    rw [Bech32.toLowerAscii_of_not_upper h', h']

/-- a successful `decode` fixes the shape of the address: the expected prefix is what precedes
the separator of the lower-cased address, so it contains no upper-case letter -/
theorem decode_some_shape {hrp s : List Char} {r : Nat × List Nat}
    (h : Bech32.decode hrp s = some r) :
    (∀ c ∈ hrp, Bech32.isUpperAscii c = false) ∧ hrp ≠ [] ∧
      ∃ dp, s.map Bech32.toLowerAscii = hrp ++ '1' :: dp ∧ 6 ≤ dp.length := by
  obtain ⟨v, prog⟩ := r
  obtain ⟨data, spec, hb, _⟩ := Bech32.decode_eq_some_iff.mp h
  obtain ⟨_, _, _, dp, hs, _, hne, h6, _⟩ := Bech32.bech32Decode_inv hb
  refine ⟨?_, hne, dp, hs, h6⟩
  intro c hc
  have : c ∈ s.map Bech32.toLowerAscii := by
    rw [hs]; exact List.mem_append_left _ hc
  obtain ⟨c', _, rfl⟩ := List.mem_map.mp this
  exact isUpperAscii_toLowerAscii c'


/-! ### Script -/

open Script in
theorem rawSerialize_append (a b : List Cmd) :
    rawSerialize (a ++ b) = (rawSerialize a).bind fun x => (rawSerialize b).map (x ++ ·) := by
  induction a with
  | nil =>
    simp only [List.nil_append, rawSerialize, Option.bind_some]
    cases rawSerialize b <;> rfl
  | cons c a ih =>
    simp only [List.cons_append, rawSerialize, ih]
    cases serCmd c with
    | none => rfl
    | some x =>
      cases rawSerialize a with
      | none => rfl
      | some y =>
        cases rawSerialize b with
        | none => rfl
        | some z => simp [List.append_assoc]

theorem join_nil (sep : List Char) : Text.join sep [] = [] := rfl
theorem join_single (sep p : List Char) : Text.join sep [p] = p := rfl
theorem join_cons_cons (sep p q : List Char) (ps : List (List Char)) :
    Text.join sep (p :: q :: ps) = p ++ sep ++ Text.join sep (q :: ps) := rfl

theorem join_cons_of_ne (sep p : List Char) {ps : List (List Char)} (h : ps ≠ []) :
    Text.join sep (p :: ps) = p ++ sep ++ Text.join sep ps := by
  match ps, h with
  | q :: qs, _ => rfl

theorem join_append_of_ne (sep : List Char) {a b : List (List Char)} (ha : a ≠ []) (hb : b ≠ []) :
    Text.join sep (a ++ b) = Text.join sep a ++ sep ++ Text.join sep b := by
  induction a with
  | nil => exact absurd rfl ha
  | cons p ps ih =>
    by_cases hp : ps = []
    · subst hp
      rw [List.singleton_append, join_cons_of_ne sep p hb, join_single]
    · rw [List.cons_append, join_cons_of_ne sep p (by simp [hp]), ih hp, join_cons_of_ne sep p hp]
      simp only [List.append_assoc]

/-! ### Paths -/

theorem list_eq_of_slots {a b : List Nat} (ha : a.length ≤ 5) (hb : b.length ≤ 5)
    (h0 : a[0]? = b[0]?) (h1 : a[1]? = b[1]?) (h2 : a[2]? = b[2]?) (h3 : a[3]? = b[3]?)
    (h4 : a[4]? = b[4]?) : a = b := by
  apply List.ext_getElem?
  intro i
  match i with
  | 0 => exact h0
  | 1 => exact h1
  | 2 => exact h2
  | 3 => exact h3
  | 4 => exact h4
  | i + 5 =>
    rw [List.getElem?_eq_none (by omega), List.getElem?_eq_none (by omega)]


/-! ### node equality is an equivalence relation -/

open Bip32 in
theorem nodeEq_iff (a b : Node) :
    nodeEq a b = true ↔
      a.isPrv = b.isPrv ∧ beToNat a.key = beToNat b.key ∧ a.chainCode = b.chainCode ∧
      a.depth = b.depth ∧ a.index = b.index ∧ a.testnet = b.testnet ∧
      parentFingerprint a = parentFingerprint b := by
  unfold nodeEq
  exact decide_eq_true_iff

open Bip32 in
theorem nodeEq_refl (a : Node) : nodeEq a a = true :=
  (nodeEq_iff a a).mpr ⟨rfl, rfl, rfl, rfl, rfl, rfl, rfl⟩

open Bip32 in
theorem nodeEq_symm {a b : Node} (h : nodeEq a b = true) : nodeEq b a = true := by
  obtain ⟨h1, h2, h3, h4, h5, h6, h7⟩ := (nodeEq_iff a b).mp h
  exact (nodeEq_iff b a).mpr ⟨h1.symm, h2.symm, h3.symm, h4.symm, h5.symm, h6.symm, h7.symm⟩

open Bip32 in
theorem nodeEq_trans {a b c : Node} (h : nodeEq a b = true) (h' : nodeEq b c = true) :
    nodeEq a c = true := by
  obtain ⟨h1, h2, h3, h4, h5, h6, h7⟩ := (nodeEq_iff a b).mp h
  obtain ⟨g1, g2, g3, g4, g5, g6, g7⟩ := (nodeEq_iff b c).mp h'
  exact (nodeEq_iff a c).mpr ⟨h1.trans g1, h2.trans g2, h3.trans g3, h4.trans g4, h5.trans g5,
    h6.trans g6, h7.trans g7⟩

end BtcHd.ExtraLemmas
