/-
GF(2) linear algebra on `Nat` bit-vectors: XOR-combinations, an executable
incremental echelon insertion and its soundness ("all insertions succeed ⇒ the
inserted vectors are linearly independent").  Core Lean only: the generated row
modules `BtcHd/Bch/Row*.lean` import this file and evaluate `insertAll` in the
kernel.
-/
namespace BtcHd.GF2

/-- XOR-combination of the vectors `ws` with coefficients `cs` -/
def comb : List Nat → List Bool → Nat
  | w :: ws, c :: cs => (bif c then w else 0) ^^^ comb ws cs
  | _, _ => 0

/-- linear independence over GF(2): only the zero coefficient vector gives 0 -/
def Indep (ws : List Nat) : Prop :=
  ∀ cs : List Bool, cs.length = ws.length → comb ws cs = 0 → ∀ c ∈ cs, c = false

/-- reduce `w` by an echelon basis of `(pivot, vector)` pairs stored NEWEST FIRST
(so the oldest vector is applied first).  One step is
`x ↦ x ^^^ v * ((x >>> p) &&& 1)`, i.e. "XOR `v` in iff bit `p` of `x` is set",
written with the raw `Nat` primitives so that the kernel evaluates it with GMP. -/
def red : List (Nat × Nat) → Nat → Nat
  | [], w => w
  | pv :: older, w =>
    let x := red older w
    Nat.xor x (Nat.mul pv.2 (Nat.land (Nat.shiftRight x pv.1) 1))

/-! index of the lowest set bit of a non-zero word below `2^32`, by binary search.
Nothing is proved about it: `ins1` re-checks that the chosen bit is set. -/
def lb1 (r p : Nat) : Nat :=
  match Nat.land r 1 with | 0 => Nat.succ p | _ + 1 => p
def lb2 (r p : Nat) : Nat :=
  match Nat.land r 3 with | 0 => lb1 (Nat.shiftRight r 2) (Nat.add p 2) | _ + 1 => lb1 r p
def lb4 (r p : Nat) : Nat :=
  match Nat.land r 15 with | 0 => lb2 (Nat.shiftRight r 4) (Nat.add p 4) | _ + 1 => lb2 r p
def lb8 (r p : Nat) : Nat :=
  match Nat.land r 255 with | 0 => lb4 (Nat.shiftRight r 8) (Nat.add p 8) | _ + 1 => lb4 r p
def lb16 (r p : Nat) : Nat :=
  match Nat.land r 65535 with | 0 => lb8 (Nat.shiftRight r 16) (Nat.add p 16) | _ + 1 => lb8 r p

/-- insert one vector: fails (`none`) if it reduces to zero (or if the pivot
search returns a clear bit, which cannot happen for words below `2^32`) -/
def ins1 (rb : List (Nat × Nat)) (w : Nat) : Option (List (Nat × Nat)) :=
  match red rb w with
  | 0 => none
  | k + 1 =>
    let r := Nat.succ k
    let p := lb16 r 0
    match Nat.land (Nat.shiftRight r p) 1 with
    | 0 => none
    | _ + 1 => some ((p, r) :: rb)

/-- insert a list of vectors one after the other -/
def insAll : List (Nat × Nat) → List Nat → Option (List (Nat × Nat))
  | rb, [] => some rb
  | rb, w :: ws =>
    match ins1 rb w with
    | none => none
    | some rb' => insAll rb' ws

/-- `p r` for every row `r` of the list -/
def allL (p : List Nat → Bool) : List (List Nat) → Bool
  | [] => true
  | r :: rs =>
    match p r with
    | false => false
    | true => allL p rs

/-- all five (or however many) vectors of the row can be inserted -/
def okAll (B : List (Nat × Nat)) (r : List Nat) : Bool :=
  match insAll B r with
  | none => false
  | some _ => true

/-- for each of the first `n` rows `rb` of `l` and every row `rc` after it,
`rb ++ rc` can be inserted into `B` -/
def pairs (B : List (Nat × Nat)) : Nat → List (List Nat) → Bool
  | 0, _ => true
  | _ + 1, [] => true
  | n + 1, rb :: rest =>
    match insAll B rb with
    | none => false
    | some B2 =>
      match allL (okAll B2) rest with
      | false => false
      | true => pairs B n rest

/-! ### algebra of `comb` -/

theorem comb_nil_left (cs : List Bool) : comb [] cs = 0 := by
  unfold comb; rfl

theorem comb_nil_right (ws : List Nat) : comb ws [] = 0 := by
  cases ws <;> rfl

@[simp] theorem comb_cons (w : Nat) (ws : List Nat) (c : Bool) (cs : List Bool) :
    comb (w :: ws) (c :: cs) = (bif c then w else 0) ^^^ comb ws cs := rfl

theorem comb_append : ∀ {ws : List Nat} {cs : List Bool} (us : List Nat) (ds : List Bool),
    cs.length = ws.length → comb (ws ++ us) (cs ++ ds) = comb ws cs ^^^ comb us ds
  | [], [], us, ds, _ => by simp [comb_nil_left]
  | [], _ :: _, _, _, h => by simp at h
  | _ :: _, [], _, _, h => by simp at h
  | w :: ws, c :: cs, us, ds, h => by
    have ih := comb_append (ws := ws) (cs := cs) us ds (by simpa using h)
    simp only [List.cons_append, comb_cons, ih, Nat.xor_assoc]

theorem comb_all_false : ∀ (ws : List Nat) (cs : List Bool), (∀ c ∈ cs, c = false) → comb ws cs = 0
  | [], cs, _ => comb_nil_left cs
  | _ :: _, [], _ => rfl
  | w :: ws, c :: cs, h => by
    have hc : c = false := h c (List.mem_cons_self ..)
    have ih := comb_all_false ws cs (fun d hd => h d (List.mem_cons_of_mem _ hd))
    subst hc
    simp [ih]

/-- coefficients add (XOR) -/
theorem comb_xor : ∀ (ws : List Nat) (cs ds : List Bool), cs.length = ws.length →
    ds.length = ws.length → comb ws (List.zipWith Bool.xor cs ds) = comb ws cs ^^^ comb ws ds
  | [], cs, ds, _, _ => by simp [comb_nil_left]
  | _ :: _, [], _, h, _ => by simp at h
  | _ :: _, _ :: _, [], _, h => by simp at h
  | w :: ws, c :: cs, d :: ds, h1, h2 => by
    have ih := comb_xor ws cs ds (by simpa using h1) (by simpa using h2)
    simp only [List.zipWith_cons_cons, comb_cons, ih]
    have hww : ∀ x : Nat, w ^^^ (w ^^^ x) = x := fun x => by
      rw [← Nat.xor_assoc, Nat.xor_self, Nat.zero_xor]
    cases c <;> cases d <;>
      simp only [Bool.xor_false, Bool.xor_true, Bool.not_false, Bool.not_true, cond_true,
        cond_false, Nat.zero_xor]
    · ac_rfl
    · ac_rfl
    · rw [show w ^^^ comb ws cs ^^^ (w ^^^ comb ws ds) = w ^^^ (w ^^^ (comb ws cs ^^^ comb ws ds))
        by ac_rfl, hww]

theorem comb_testBit_false {p : Nat} : ∀ (ws : List Nat) (cs : List Bool),
    (∀ w ∈ ws, w.testBit p = false) → (comb ws cs).testBit p = false
  | [], cs, _ => by simp [comb_nil_left]
  | _ :: _, [], _ => by simp [comb_nil_right]
  | w :: ws, c :: cs, h => by
    have hw := h w (List.mem_cons_self ..)
    have ih := comb_testBit_false ws cs (fun u hu => h u (List.mem_cons_of_mem _ hu))
    cases c <;> simp [Nat.testBit_xor, hw, ih]

/-- a linear map commutes with `comb` -/
theorem map_comb {f : Nat → Nat} (h0 : f 0 = 0) (hx : ∀ a b, f (a ^^^ b) = f a ^^^ f b) :
    ∀ (ws : List Nat) (cs : List Bool), f (comb ws cs) = comb (ws.map f) cs
  | [], cs => by simp [comb_nil_left, h0]
  | _ :: _, [] => by simp [comb_nil_right, h0]
  | w :: ws, c :: cs => by
    simp only [List.map_cons, comb_cons, hx, map_comb h0 hx ws cs]
    cases c <;> simp [h0]

/-! ### echelon bases (newest first) -/

/-- every basis vector has its pivot bit set and the pivot bits of all OLDER vectors clear -/
def Good : List (Nat × Nat) → Prop
  | [] => True
  | pv :: older => pv.2.testBit pv.1 = true ∧ (∀ q ∈ older, pv.2.testBit q.1 = false) ∧ Good older

theorem land_shiftRight_one (x p : Nat) :
    Nat.land (Nat.shiftRight x p) 1 = (x.testBit p).toNat := by
  show (x >>> p) &&& 1 = _
  rw [Nat.testBit, Nat.one_and_eq_mod_two, Nat.and_one_is_mod]
  rcases Nat.mod_two_eq_zero_or_one (x >>> p) with h | h <;> simp [h]

/-- the arithmetic step is "XOR `v` in iff bit `p` is set" -/
theorem step_eq (x p v : Nat) :
    Nat.xor x (Nat.mul v (Nat.land (Nat.shiftRight x p) 1)) = x ^^^ (bif x.testBit p then v else 0) := by
  rw [land_shiftRight_one]
  show x ^^^ v * _ = _
  cases x.testBit p <;> simp

theorem red_cons (pv : Nat × Nat) (older : List (Nat × Nat)) (w : Nat) :
    red (pv :: older) w = red older w ^^^ (bif (red older w).testBit pv.1 then pv.2 else 0) := by
  show Nat.xor _ _ = _
  exact step_eq _ _ _

/-- some bit of a non-zero-coefficient combination of a good basis is set -/
theorem Good.comb_testBit : ∀ {rb : List (Nat × Nat)} {ds : List Bool}, Good rb →
    ds.length = rb.length → (∃ d ∈ ds, d = true) →
    ∃ q ∈ rb, (comb (rb.map (·.2)) ds).testBit q.1 = true
  | [], [], _, _, ⟨_, hd, _⟩ => by simp at hd
  | [], _ :: _, _, h, _ => by simp at h
  | _ :: _, [], _, h, _ => by simp at h
  | pv :: older, d :: ds, ⟨hp, hold, hg⟩, hlen, ⟨e, he, het⟩ => by
    by_cases hrest : ∃ d' ∈ ds, d' = true
    · obtain ⟨q, hq, hbit⟩ := Good.comb_testBit hg (by simpa using hlen) hrest
      refine ⟨q, List.mem_cons_of_mem _ hq, ?_⟩
      have hv := hold q hq
      cases d <;> simp [Nat.testBit_xor, hv, hbit]
    · have hall : ∀ c ∈ ds, c = false := by
        intro c hc
        cases hcv : c with
        | false => rfl
        | true => exact absurd ⟨c, hc, hcv⟩ hrest
      have hd : d = true := by
        rcases List.mem_cons.1 he with h | h
        · exact h ▸ het
        · have := hall e h; rw [het] at this; cases this
      subst hd
      refine ⟨pv, List.mem_cons_self .., ?_⟩
      simp [comb_all_false _ _ hall, hp]

theorem Good.comb_ne_zero {rb : List (Nat × Nat)} {ds : List Bool} (hg : Good rb)
    (hl : ds.length = rb.length) (hnz : ∃ d ∈ ds, d = true) : comb (rb.map (·.2)) ds ≠ 0 := by
  obtain ⟨q, _, hbit⟩ := hg.comb_testBit hl hnz
  intro h0
  rw [h0] at hbit
  simp at hbit

/-- after reduction by a good basis all pivot bits are clear -/
theorem red_clears : ∀ {rb : List (Nat × Nat)} (w : Nat), Good rb →
    ∀ q ∈ rb, (red rb w).testBit q.1 = false
  | [], _, _, q, hq => by simp at hq
  | pv :: older, w, ⟨hp, hold, hg⟩, q, hq => by
    rw [red_cons]
    have ih := red_clears w hg
    rcases List.mem_cons.1 hq with h | h
    · subst h
      cases hx : (red older w).testBit q.1 <;> simp [Nat.testBit_xor, hx, hp]
    · have h1 := ih q h
      have h2 := hold q h
      cases (red older w).testBit pv.1 <;> simp [Nat.testBit_xor, h1, h2]

/-- the reduced vector is the original plus a combination of the basis -/
theorem red_eq_xor_comb : ∀ (rb : List (Nat × Nat)) (w : Nat),
    ∃ es : List Bool, es.length = rb.length ∧ red rb w = w ^^^ comb (rb.map (·.2)) es
  | [], w => ⟨[], rfl, by simp [red, comb_nil_left]⟩
  | pv :: older, w => by
    obtain ⟨es, hl, he⟩ := red_eq_xor_comb older w
    refine ⟨(red older w).testBit pv.1 :: es, by simp [hl], ?_⟩
    rw [red_cons]
    conv => lhs; arg 1; rw [he]
    simp only [List.map_cons, comb_cons]
    ac_rfl

theorem ins1_spec {rb rb' : List (Nat × Nat)} {w : Nat} (h : ins1 rb w = some rb') :
    ∃ p, rb' = (p, red rb w) :: rb ∧ (red rb w).testBit p = true := by
  unfold ins1 at h
  split at h
  · cases h
  · next k hk =>
    simp only at h
    split at h
    · cases h
    · next j hj =>
      injection h with h
      refine ⟨lb16 (Nat.succ k) 0, by rw [← h, hk], ?_⟩
      rw [land_shiftRight_one] at hj
      rw [hk]
      cases hb : (Nat.succ k).testBit (lb16 (Nat.succ k) 0) with
      | true => rfl
      | false => rw [hb] at hj; cases hj

/-- invariant linking the inserted vectors `ws` to the current basis `rb` -/
def Rel (rb : List (Nat × Nat)) (ws : List Nat) : Prop :=
  Good rb ∧ rb.length = ws.length ∧
    ∀ cs : List Bool, cs.length = ws.length →
      ∃ ds : List Bool, ds.length = rb.length ∧ comb ws cs = comb (rb.map (·.2)) ds ∧
        ((∃ c ∈ cs, c = true) → ∃ d ∈ ds, d = true)

theorem Rel.nil : Rel [] [] :=
  ⟨trivial, rfl, fun cs h => ⟨[], rfl, by simp [comb_nil_left], by
    intro ⟨c, hc, _⟩
    have : cs = [] := List.eq_nil_of_length_eq_zero h
    subst this
    simp at hc⟩⟩

theorem Rel.indep {rb : List (Nat × Nat)} {ws : List Nat} (h : Rel rb ws) : Indep ws := by
  obtain ⟨hg, _, hrel⟩ := h
  intro cs hlen h0 c hc
  obtain ⟨ds, hdl, heq, hnz⟩ := hrel cs hlen
  cases hcv : c with
  | false => rfl
  | true =>
    exfalso
    exact Good.comb_ne_zero hg hdl (hnz ⟨c, hc, hcv⟩) (heq ▸ h0)

private theorem split_last {α} : ∀ (cs : List α) (n : Nat), cs.length = n + 1 →
    ∃ cs' c, cs = cs' ++ [c] ∧ cs'.length = n := by
  intro cs n h
  have hne : cs ≠ [] := by intro h0; subst h0; simp at h
  refine ⟨cs.dropLast, cs.getLast hne, (List.dropLast_concat_getLast hne).symm, ?_⟩
  simp [h]

theorem Rel.ins1 {rb rb' : List (Nat × Nat)} {ws : List Nat} {w : Nat} (h : Rel rb ws)
    (hi : ins1 rb w = some rb') : Rel rb' (ws ++ [w]) := by
  obtain ⟨hg, hlen, hrel⟩ := h
  obtain ⟨p, rfl, hbit⟩ := ins1_spec hi
  have hclear := red_clears w hg
  obtain ⟨es, hel, hee⟩ := red_eq_xor_comb rb w
  refine ⟨⟨hbit, hclear, hg⟩, by simp [hlen], ?_⟩
  intro cs hcl
  obtain ⟨cs', c, rfl, hcl'⟩ := split_last cs ws.length (by simpa using hcl)
  obtain ⟨ds, hdl, hdeq, hdnz⟩ := hrel cs' hcl'
  have hw : w = red rb w ^^^ comb (rb.map (·.2)) es := by
    rw [hee, Nat.xor_assoc, Nat.xor_self, Nat.xor_zero]
  cases c with
  | false =>
    refine ⟨false :: ds, by simp [hdl], ?_, ?_⟩
    · rw [comb_append _ _ hcl', hdeq]
      simp [comb_nil_left]
    · intro ⟨c, hc, hct⟩
      rcases List.mem_append.1 hc with h | h
      · obtain ⟨d, hd, hdt⟩ := hdnz ⟨c, h, hct⟩
        exact ⟨d, List.mem_cons_of_mem _ hd, hdt⟩
      · simp only [List.mem_singleton] at h
        subst h; cases hct
  | true =>
    refine ⟨true :: List.zipWith Bool.xor ds es, by simp [hdl, hel], ?_,
      fun _ => ⟨true, by simp, rfl⟩⟩
    rw [comb_append _ _ hcl', hdeq]
    simp only [List.map_cons, comb_cons, cond_true, comb_nil_left, Nat.xor_zero]
    rw [comb_xor _ _ _ (by simp [hdl]) (by simp [hel])]
    conv => lhs; rw [hw]
    ac_rfl

theorem Rel.insAll : ∀ {us : List Nat} {rb rb' : List (Nat × Nat)} {ws : List Nat},
    Rel rb ws → insAll rb us = some rb' → Rel rb' (ws ++ us)
  | [], rb, rb', ws, h, hi => by
    unfold GF2.insAll at hi
    injection hi with hi
    subst hi
    simpa using h
  | u :: us, rb, rb', ws, h, hi => by
    unfold GF2.insAll at hi
    split at hi
    · cases hi
    · next b1 h1 =>
      have := Rel.insAll (h.ins1 h1) hi
      simpa using this

/-- soundness of the echelon check: if every insertion succeeds, the inserted
vectors are linearly independent -/
theorem indep_of_insAll {ws : List Nat} (h : (insAll [] ws).isSome = true) : Indep ws := by
  obtain ⟨rb, hb⟩ := Option.isSome_iff_exists.1 h
  have := Rel.insAll Rel.nil hb
  simpa using this.indep

theorem insAll_append : ∀ (us vs : List Nat) (rb : List (Nat × Nat)),
    insAll rb (us ++ vs) = (insAll rb us).bind (fun b => insAll b vs)
  | [], vs, rb => by simp [insAll]
  | u :: us, vs, rb => by
    simp only [List.cons_append, insAll]
    cases ins1 rb u with
    | none => rfl
    | some b => exact insAll_append us vs b

/-! ### specification of the list-driven loops -/

theorem allL_spec {p : List Nat → Bool} : ∀ {l : List (List Nat)}, allL p l = true →
    ∀ r ∈ l, p r = true
  | [], _, r, hr => by simp at hr
  | x :: xs, h, r, hr => by
    unfold allL at h
    split at h
    · cases h
    · next hp =>
      rcases List.mem_cons.1 hr with h' | h'
      · subst h'; exact hp
      · exact allL_spec h r h'

theorem okAll_spec {B : List (Nat × Nat)} {r : List Nat} (h : okAll B r = true) :
    (insAll B r).isSome = true := by
  unfold okAll at h
  split at h
  · cases h
  · next h' => simp [h']

/-- `pairs B n l`: for `i < n`, `i < j < l.length`, rows `i` and `j` of `l` can be
inserted one after the other into `B` -/
theorem pairs_spec {B : List (Nat × Nat)} : ∀ {n : Nat} {l : List (List Nat)},
    pairs B n l = true → ∀ i j, i < n → i < j → j < l.length →
      (insAll B (l.getD i [] ++ l.getD j [])).isSome = true
  | 0, _, _, i, _, hi, _, _ => by omega
  | _ + 1, [], _, _, j, _, _, hj => by simp at hj
  | n + 1, rb :: rest, h, i, j, hi, hij, hj => by
    unfold pairs at h
    split at h
    · cases h
    · next B2 hB2 =>
      split at h
      · cases h
      · next hall =>
        obtain ⟨j', rfl⟩ : ∃ j', j = j' + 1 := ⟨j - 1, by omega⟩
        cases i with
        | zero =>
          have hmem : rest.getD j' [] ∈ rest := by
            have hj' : j' < rest.length := by simpa using hj
            rw [List.getD_eq_getElem?_getD, List.getElem?_eq_getElem hj']
            exact List.getElem_mem _
          have := okAll_spec (allL_spec hall _ hmem)
          simpa [insAll_append, hB2] using this
        | succ i' =>
          have := pairs_spec h i' j' (by omega) (by omega) (by simpa using hj)
          simpa using this

end BtcHd.GF2
