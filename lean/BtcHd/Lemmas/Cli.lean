/-
Helper lemmas for C20: `strip`, `pyInt`, the CLI validators, invariants of
`parseGlobals` / `parseArgs`, the shape of `run`, and the level lists of the
rows produced by `bipAccount`.
-/
import BtcHd.Lemmas.Path
import BtcHd.Lemmas.Bip32
import BtcHd.Model.Cli

namespace BtcHd.Text
open BtcHd

/-! ### `strip` -/

theorem lstrip_of_head {c : Char} {cs : List Char} (h : isSpace c = false) :
    lstrip (c :: cs) = c :: cs := by
  simp [lstrip, h]

theorem lstrip_of_all {s : List Char} (h : ∀ c ∈ s, isSpace c = false) : lstrip s = s := by
  cases s with
  | nil => rfl
  | cons c cs => exact lstrip_of_head (h c List.mem_cons_self)

/-- a string without whitespace is its own `strip()` -/
theorem strip_of_all {s : List Char} (h : ∀ c ∈ s, isSpace c = false) : strip s = s := by
  unfold strip
  rw [lstrip_of_all h, lstrip_of_all (fun c hc => h c (List.mem_reverse.mp hc)), List.reverse_reverse]

theorem isSpace_of_isDigit {c : Char} (h : c.isDigit = true) : isSpace c = false := by
  cases hs : isSpace c with
  | false => rfl
  | true =>
    exfalso
    simp only [isSpace, isHexSpace, Bool.or_eq_true, decide_eq_true_eq] at hs
    rcases hs with ((((rfl | rfl) | rfl) | rfl) | rfl) | rfl <;> revert h <;> decide

theorem IsDec.strip {d : List Char} (h : IsDec d) : strip d = d :=
  strip_of_all fun c hc => isSpace_of_isDigit (h.2 c hc)

end BtcHd.Text

namespace BtcHd.Cli
open BtcHd Text Wallet Bip32

variable {Pt : Type}

/-! ### `pyInt` -/

/-- the sign / body split at the start of `pyInt` -/
def signBody : List Char → Bool × List Char
  | '-' :: r => (true, r)
  | '+' :: r => (false, r)
  | r => (false, r)

/-- `pyInt` without `let`s -/
theorem pyInt_def (s : List Char) :
    pyInt s =
      if pyInt.ok (signBody (strip s)).2 false then
        some (if (signBody (strip s)).1 then
                - ((decVal ((signBody (strip s)).2.filter (· ≠ '_')) : Nat) : Int)
              else ((decVal ((signBody (strip s)).2.filter (· ≠ '_')) : Nat) : Int))
      else none := by
  unfold pyInt signBody
  generalize strip s = t
  split
  · rfl
  · rfl
  · simp only []

theorem ok_digits_true {d : List Char} (h : ∀ c ∈ d, c.isDigit = true) : pyInt.ok d true = true := by
  induction d with
  | nil => rfl
  | cons c cs ih =>
    unfold pyInt.ok
    rw [if_pos (h c List.mem_cons_self)]
    exact ih fun x hx => h x (List.mem_cons_of_mem _ hx)

theorem ok_of_isDec {d : List Char} (h : IsDec d) (b : Bool) : pyInt.ok d b = true := by
  obtain ⟨hne, hd⟩ := h
  cases d with
  | nil => exact absurd rfl hne
  | cons c cs =>
    unfold pyInt.ok
    rw [if_pos (hd c List.mem_cons_self)]
    exact ok_digits_true fun x hx => hd x (List.mem_cons_of_mem _ hx)

theorem filter_underscore_of_isDec {d : List Char} (h : IsDec d) : d.filter (· ≠ '_') = d := by
  rw [List.filter_eq_self]
  intro c hc
  have := h.2 c hc
  simp only [ne_eq, decide_not, Bool.not_eq_eq_eq_not, Bool.not_true, decide_eq_false_iff_not]
  rintro rfl
  revert this; decide

theorem signBody_of_isDec {d : List Char} (h : IsDec d) : signBody d = (false, d) := by
  obtain ⟨hne, hd⟩ := h
  unfold signBody
  split
  · exact absurd (hd '-' List.mem_cons_self) (by decide)
  · exact absurd (hd '+' List.mem_cons_self) (by decide)
  · rfl

/-- `int(s)` on a non-empty ASCII-digit string is its decimal value -/
theorem pyInt_of_isDec {d : List Char} (h : IsDec d) : pyInt d = some (decVal d : Int) := by
  rw [pyInt_def, h.strip, signBody_of_isDec h]
  simp only [ok_of_isDec h, filter_underscore_of_isDec h, if_true, Bool.false_eq_true, if_false]

/-- `int("-" + s)` on a non-empty ASCII-digit string is minus its decimal value -/
theorem pyInt_neg_of_isDec {d : List Char} (h : IsDec d) :
    pyInt ('-' :: d) = some (- (decVal d : Int)) := by
  have hs : strip ('-' :: d) = '-' :: d := by
    apply strip_of_all
    intro c hc
    rcases List.mem_cons.mp hc with rfl | hc
    · decide
    · exact isSpace_of_isDigit (h.2 c hc)
  rw [pyInt_def, hs]
  simp only [signBody, ok_of_isDec h, filter_underscore_of_isDec h, if_true]

theorem pyInt_natToDec (n : Nat) : pyInt (natToDec n) = some (n : Int) := by
  rw [pyInt_of_isDec (isDec_natToDec n), decVal_natToDec]

theorem pyInt_neg_natToDec (n : Nat) : pyInt ('-' :: natToDec n) = some (- (n : Int)) := by
  rw [pyInt_neg_of_isDec (isDec_natToDec n), decVal_natToDec]

/-! ### validators -/

theorem valueInInterval_eq_some {v : List Char} {max n : Nat} :
    valueInInterval v max = some n ↔ n < max ∧ pyInt v = some (n : Int) := by
  unfold valueInInterval
  cases hp : pyInt v with
  | none => simp
  | some z =>
    simp only [Option.bind_some, Option.some.injEq]
    constructor
    · intro h
      split at h
      · rename_i hz
        cases h
        omega
      · cases h
    · rintro ⟨hlt, rfl⟩
      rw [if_pos (by omega)]
      simp

theorem valueInInterval_natToDec {max n : Nat} (h : n < max) :
    valueInInterval (natToDec n) max = some n :=
  valueInInterval_eq_some.mpr ⟨h, pyInt_natToDec n⟩

theorem valueInInterval_neg (max n : Nat) :
    valueInInterval ('-' :: natToDec (n + 1)) max = none := by
  unfold valueInInterval
  rw [pyInt_neg_natToDec]
  simp only [Option.bind_some]
  rw [if_neg (by omega)]


theorem accountIndex_eq_some {v : List Char} {n : Nat} :
    accountIndex v = some n ↔ n < 2 ^ 31 - 1 ∧ pyInt v = some (n : Int) :=
  valueInInterval_eq_some

theorem addressIndex_eq_some {v : List Char} {n : Nat} :
    addressIndex v = some n ↔ n < 2 ^ 32 - 1 ∧ pyInt v = some (n : Int) :=
  valueInInterval_eq_some

theorem fileArg_eq_true {c : FsClass} : fileArg c = true ↔ c = .absent := by
  unfold fileArg
  exact decide_eq_true_iff

/-! ### the global options: a declarative grammar for `parseGlobals` -/

deriving instance DecidableEq for Globals
deriving instance DecidableEq for Cmd

/-- `GParse fs g argv g' rest`: reading global options from `argv` starting with the
settings `g` ends with the settings `g'` at `rest` (empty, or starting with a sub-command) -/
inductive GParse (fs : FsClass) : Globals → List (List Char) → Globals → List (List Char) → Prop
  | done (g : Globals) : GParse fs g [] g []
  | sub (g : Globals) (t : List Char) (rest : List (List Char)) (ht : t ∈ subcommands) :
      GParse fs g (t :: rest) g (t :: rest)
  | file (g : Globals) (t v : List Char) (rest : List (List Char)) (g' : Globals)
      (r : List (List Char)) (ht : t = "-f".toList ∨ t = "--file".toList)
      (hv : isValueTok v = true) (hf : fileArg fs = true)
      (h : GParse fs { g with file := true } rest g' r) : GParse fs g (t :: v :: rest) g' r
  | testnet (g : Globals) (rest : List (List Char)) (g' : Globals) (r : List (List Char))
      (h : GParse fs { g with testnet := true } rest g' r) :
      GParse fs g ("--testnet".toList :: rest) g' r
  | paranoia (g : Globals) (rest : List (List Char)) (g' : Globals) (r : List (List Char))
      (h : GParse fs { g with paranoia := true } rest g' r) :
      GParse fs g ("--paranoia".toList :: rest) g' r
  | account (g : Globals) (v : List Char) (n : Nat) (rest : List (List Char)) (g' : Globals)
      (r : List (List Char)) (hv : isValueTok v = true) (hn : accountIndex v = some n)
      (h : GParse fs { g with account := n } rest g' r) :
      GParse fs g ("--account".toList :: v :: rest) g' r
  | interval (g : Globals) (x y : List Char) (a b : Nat) (rest : List (List Char)) (g' : Globals)
      (r : List (List Char)) (hx : isValueTok x = true) (hy : isValueTok y = true)
      (ha : addressIndex x = some a) (hb : addressIndex y = some b)
      (h : GParse fs { g with a := a, b := b } rest g' r) :
      GParse fs g ("--interval".toList :: x :: y :: rest) g' r

/-- every successful run of `parseGlobals` follows the grammar -/
theorem parseGlobals_sound {fs : FsClass} {fuel : Nat} {g g' : Globals}
    {argv rest : List (List Char)} (h : parseGlobals fs fuel g argv = some (g', rest)) :
    GParse fs g argv g' rest := by
  fun_induction parseGlobals fs fuel g argv
  case case1 => cases h
  case case2 => cases h; exact .done _
  case case3 ht v rest' hc ih => exact .file _ _ _ _ _ _ ht hc.1 hc.2 (ih h)
  case case4 => cases h
  case case5 => cases h
  case case6 ih => exact .testnet _ _ _ _ (ih h)
  case case7 ih => exact .paranoia _ _ _ _ (ih h)
  case case8 v rest' hv _ _ _ ih =>
    rw [Option.bind_eq_some_iff] at h
    obtain ⟨n, hn, h⟩ := h
    exact .account _ _ _ _ _ _ hv hn (ih n h)
  case case9 => cases h
  case case10 => cases h
  case case11 x y rest' hv _ _ _ _ ih =>
    simp only [Option.bind_eq_some_iff] at h
    obtain ⟨a, ha, b, hb, h⟩ := h
    exact .interval _ _ _ _ _ _ _ _ hv.1 hv.2 ha hb (ih a b h)
  case case12 => cases h
  case case13 => cases h
  case case14 hs => cases h; exact .sub _ _ _ hs
  case case15 => cases h

/-- the grammar is deterministic and `parseGlobals` implements it: with enough fuel
(`parseArgs` supplies `argv.length + 1`) every sentence of the grammar is parsed -/
theorem parseGlobals_complete {fs : FsClass} {g g' : Globals} {argv rest : List (List Char)}
    (h : GParse fs g argv g' rest) {fuel : Nat} (hfuel : argv.length < fuel) :
    parseGlobals fs fuel g argv = some (g', rest) := by
  induction h generalizing fuel with
  | done g =>
    cases fuel with
    | zero => omega
    | succ f => rfl
  | sub g t rest ht =>
    cases fuel with
    | zero => omega
    | succ f =>
      unfold parseGlobals
      have : t ≠ "-f".toList ∧ t ≠ "--file".toList ∧ t ≠ "--testnet".toList ∧
          t ≠ "--paranoia".toList ∧ t ≠ "--account".toList ∧ t ≠ "--interval".toList := by
        simp only [subcommands, List.mem_cons, List.not_mem_nil, or_false] at ht
        rcases ht with rfl | rfl | rfl | rfl | rfl <;> decide +kernel
      obtain ⟨h1, h2, h3, h4, h5, h6⟩ := this
      rw [if_neg (by rintro (h | h) <;> contradiction), if_neg h3, if_neg h4, if_neg h5, if_neg h6,
        if_pos ht]
  | file g t v rest g' r ht hv hf _ ih =>
    cases fuel with
    | zero => omega
    | succ f =>
      unfold parseGlobals
      rw [if_pos ht]
      simp only
      rw [if_pos ⟨hv, hf⟩]
      exact ih (by simp only [List.length_cons] at hfuel; omega)
  | testnet g rest g' r _ ih =>
    cases fuel with
    | zero => omega
    | succ f =>
      unfold parseGlobals
      rw [if_neg (by decide +kernel), if_pos rfl]
      exact ih (by simp only [List.length_cons] at hfuel; omega)
  | paranoia g rest g' r _ ih =>
    cases fuel with
    | zero => omega
    | succ f =>
      unfold parseGlobals
      rw [if_neg (by decide +kernel), if_neg (by decide +kernel), if_pos rfl]
      exact ih (by simp only [List.length_cons] at hfuel; omega)
  | account g v n rest g' r hv hn _ ih =>
    cases fuel with
    | zero => omega
    | succ f =>
      unfold parseGlobals
      rw [if_neg (by decide +kernel), if_neg (by decide +kernel), if_neg (by decide +kernel),
        if_pos rfl]
      simp only
      rw [if_pos hv, hn, Option.bind_some]
      exact ih (by simp only [List.length_cons] at hfuel; omega)
  | interval g x y a b rest g' r hx hy ha hb _ ih =>
    cases fuel with
    | zero => omega
    | succ f =>
      unfold parseGlobals
      rw [if_neg (by decide +kernel), if_neg (by decide +kernel), if_neg (by decide +kernel),
        if_neg (by decide +kernel), if_pos rfl]
      simp only
      rw [if_pos ⟨hx, hy⟩, ha, Option.bind_some, hb, Option.bind_some]
      exact ih (by simp only [List.length_cons] at hfuel; omega)


/-! ### invariants of the global part -/

/-- what is left over is empty or starts with a sub-command -/
theorem GParse.rest_shape {fs : FsClass} {g g' : Globals} {argv rest : List (List Char)}
    (h : GParse fs g argv g' rest) : rest = [] ∨ ∃ c args, rest = c :: args ∧ c ∈ subcommands := by
  induction h with
  | done => exact .inl rfl
  | sub g t rest ht => exact .inr ⟨t, rest, rfl, ht⟩
  | _ => assumption

/-- the `file` flag is only ever switched on, and only after `file_` accepted the path -/
theorem GParse.file_inv {fs : FsClass} {g g' : Globals} {argv rest : List (List Char)}
    (h : GParse fs g argv g' rest) (hf : g'.file = true) : g.file = true ∨ fs = .absent := by
  induction h with
  | done => exact .inl hf
  | sub => exact .inl hf
  | file g t v rest g' r ht hv hfs _ ih => exact .inr (fileArg_eq_true.mp hfs)
  | testnet g rest g' r _ ih => exact ih hf
  | paranoia g rest g' r _ ih => exact ih hf
  | account g v n rest g' r hv hn _ ih => exact ih hf
  | interval g x y a b rest g' r hx hy ha hb _ ih => exact ih hf

theorem GParse.file_mono {fs : FsClass} {g g' : Globals} {argv rest : List (List Char)}
    (h : GParse fs g argv g' rest) (hf : g.file = true) : g'.file = true := by
  induction h with
  | done => exact hf
  | sub => exact hf
  | file g t v rest g' r ht hv hfs _ ih => exact ih rfl
  | testnet g rest g' r _ ih => exact ih hf
  | paranoia g rest g' r _ ih => exact ih hf
  | account g v n rest g' r hv hn _ ih => exact ih hf
  | interval g x y a b rest g' r hx hy ha hb _ ih => exact ih hf

/-- `t` is one of the two spellings of the file option -/
def IsFileOpt (t : List Char) : Prop := t = "-f".toList ∨ t = "--file".toList

instance (t : List Char) : Decidable (IsFileOpt t) := by unfold IsFileOpt; infer_instance

theorem not_isFileOpt_of_isValueTok {v : List Char} (hv : isValueTok v = true) : ¬ IsFileOpt v := by
  rintro (rfl | rfl) <;> revert hv <;> decide +kernel

/-- the consumed tokens are a prefix of `argv`, and the `file` flag of the result says exactly
whether `-f` / `--file` occurs among them -/
theorem GParse.file_iff {fs : FsClass} {g g' : Globals} {argv rest : List (List Char)}
    (h : GParse fs g argv g' rest) :
    ∃ pre, argv = pre ++ rest ∧ (g'.file = true ↔ g.file = true ∨ ∃ t ∈ pre, IsFileOpt t) := by
  induction h with
  | done g => exact ⟨[], rfl, by simp⟩
  | sub g t rest ht => exact ⟨[], rfl, by simp⟩
  | file g t v rest g' r ht hv hfs h ih =>
    obtain ⟨pre, rfl, _⟩ := ih
    refine ⟨t :: v :: pre, rfl, ?_⟩
    constructor
    · intro _; exact .inr ⟨t, List.mem_cons_self, ht⟩
    · intro _; exact h.file_mono rfl
  | testnet g rest g' r _ ih =>
    obtain ⟨pre, rfl, hiff⟩ := ih
    refine ⟨_ :: pre, rfl, hiff.trans ?_⟩
    simp only [List.mem_cons, exists_eq_or_imp]
    have : ¬ IsFileOpt "--testnet".toList := by decide +kernel
    tauto
  | paranoia g rest g' r _ ih =>
    obtain ⟨pre, rfl, hiff⟩ := ih
    refine ⟨_ :: pre, rfl, hiff.trans ?_⟩
    simp only [List.mem_cons, exists_eq_or_imp]
    have : ¬ IsFileOpt "--paranoia".toList := by decide +kernel
    tauto
  | account g v n rest g' r hv hn _ ih =>
    obtain ⟨pre, rfl, hiff⟩ := ih
    refine ⟨_ :: v :: pre, rfl, hiff.trans ?_⟩
    simp only [List.mem_cons, exists_eq_or_imp]
    have : ¬ IsFileOpt "--account".toList := by decide +kernel
    have := not_isFileOpt_of_isValueTok hv
    tauto
  | interval g x y a b rest g' r hx hy ha hb _ ih =>
    obtain ⟨pre, rfl, hiff⟩ := ih
    refine ⟨_ :: x :: y :: pre, rfl, hiff.trans ?_⟩
    simp only [List.mem_cons, exists_eq_or_imp]
    have : ¬ IsFileOpt "--interval".toList := by decide +kernel
    have := not_isFileOpt_of_isValueTok hx
    have := not_isFileOpt_of_isValueTok hy
    tauto

/-- the ranges `account_index` / `address_index` enforce -/
def InRange (g : Globals) : Prop := g.account < 2 ^ 31 - 1 ∧ g.a < 2 ^ 32 - 1 ∧ g.b < 2 ^ 32 - 1

theorem inRange_default : InRange {} := by unfold InRange; decide

theorem GParse.inRange {fs : FsClass} {g g' : Globals} {argv rest : List (List Char)}
    (h : GParse fs g argv g' rest) (hg : InRange g) : InRange g' := by
  induction h with
  | done => exact hg
  | sub => exact hg
  | file g t v rest g' r ht hv hfs _ ih => exact ih hg
  | testnet g rest g' r _ ih => exact ih hg
  | paranoia g rest g' r _ ih => exact ih hg
  | account g v n rest g' r hv hn _ ih =>
    exact ih ⟨(accountIndex_eq_some.mp hn).1, hg.2.1, hg.2.2⟩
  | interval g x y a b rest g' r hx hy ha hb _ ih =>
    exact ih ⟨hg.1, (addressIndex_eq_some.mp ha).1, (addressIndex_eq_some.mp hb).1⟩


/-! ### `parseArgs` -/

/-- the sub-command part of `parseArgs`, on its own -/
def parseCmd (c : List Char) (args : List (List Char)) : Option Cmd :=
  let fuel := args.length + 1
  if c = "new".toList then
    (parseSub true true false fuel {} args).map fun s => .new s.password s.mnemonicLen
  else if c = "from-master-xprv".toList then
    (parseSub false false true fuel {} args).bind fun s =>
      (s.positional.bind extendedKeyArg).map fun k => .fromXprv k
  else if c = "from-mnemonic".toList then
    (parseSub true false true fuel {} args).bind fun s =>
      (s.positional.bind mnemonicArg).map fun m => .fromMnemonic m s.password
  else if c = "from-bip39-seed".toList then
    (parseSub false false true fuel {} args).bind fun s =>
      (s.positional.bind seedArg).map fun sd => .fromSeed sd
  else if c = "from-entropy-hex".toList then
    (parseSub true false true fuel {} args).bind fun s =>
      (s.positional.bind entropyArg).map fun e => .fromEntropy e s.password
  else none

/-- `parseArgs` = global part, then sub-command part; the globals do not depend on the latter -/
theorem parseArgs_eq (fs : FsClass) (argv : List (List Char)) :
    parseArgs fs argv =
      (parseGlobals fs (argv.length + 1) {} argv).bind fun gr =>
        match gr.2 with
        | [] => some (gr.1, none)
        | c :: args => (parseCmd c args).map fun cmd => (gr.1, some cmd) := by
  unfold parseArgs
  congr 1
  funext ⟨g, rest⟩
  cases rest with
  | nil => rfl
  | cons c args =>
    simp only [parseCmd]
    split_ifs <;> simp [Option.map_bind, Function.comp_def]

theorem parseArgs_eq_some_iff {fs : FsClass} {argv : List (List Char)} {g : Globals}
    {c : Option Cmd} :
    parseArgs fs argv = some (g, c) ↔
      ∃ rest, parseGlobals fs (argv.length + 1) {} argv = some (g, rest) ∧
        ((rest = [] ∧ c = none) ∨
          ∃ t args cmd, rest = t :: args ∧ parseCmd t args = some cmd ∧ c = some cmd) := by
  rw [parseArgs_eq, Option.bind_eq_some_iff]
  constructor
  · rintro ⟨⟨g0, rest⟩, hg, h⟩
    cases rest with
    | nil => cases h; exact ⟨[], hg, .inl ⟨rfl, rfl⟩⟩
    | cons t args =>
      simp only [Option.map_eq_some_iff] at h
      obtain ⟨cmd, hc, h⟩ := h
      cases h
      exact ⟨_, hg, .inr ⟨t, args, cmd, rfl, hc, rfl⟩⟩
  · rintro ⟨rest, hg, (⟨rfl, rfl⟩ | ⟨t, args, cmd, rfl, hc, rfl⟩)⟩
    · exact ⟨_, hg, rfl⟩
    · exact ⟨_, hg, by simp [hc]⟩


theorem parseSub_mnemonicLen {p l q : Bool} {fuel : Nat} {s s' : SubArgs} {args : List (List Char)}
    (h : parseSub p l q fuel s args = some s')
    (hs : s.mnemonicLen ∈ Generated.correctMnemonicLength) :
    s'.mnemonicLen ∈ Generated.correctMnemonicLength := by
  fun_induction parseSub p l q fuel s args
  case case2 => cases h; exact hs
  case case3 ih => exact ih h hs
  case case7 ih =>
    rw [Option.bind_eq_some_iff] at h
    obtain ⟨n, _, h⟩ := h
    split at h
    · rename_i hn; exact ih n h hn.2
    · cases h
  case case11 ih => exact ih h hs
  all_goals cases h

/-- what the validators guarantee about an accepted sub-command -/
def CmdValid : Cmd → Prop
  | .new _ len => len ∈ Generated.correctMnemonicLength
  | .fromXprv k => k.length = 111
  | .fromMnemonic m _ =>
      ∃ v, (splitOn ' ' v).length ∈ Generated.correctMnemonicLength ∧ m = strip v
  | .fromSeed s => s.length = 128
  | .fromEntropy e _ => e.length * 4 ∈ Generated.correctEntropyBits

theorem extendedKeyArg_eq_some {v k : List Char} :
    extendedKeyArg v = some k ↔ v.length = 111 ∧ k = v := by
  unfold extendedKeyArg; split <;> simp_all [eq_comm]

theorem seedArg_eq_some {v k : List Char} : seedArg v = some k ↔ v.length = 128 ∧ k = v := by
  unfold seedArg; split <;> simp_all [eq_comm]

theorem entropyArg_eq_some {v k : List Char} :
    entropyArg v = some k ↔ v.length * 4 ∈ Generated.correctEntropyBits ∧ k = v := by
  unfold entropyArg; split <;> simp_all [eq_comm]

theorem mnemonicArg_eq_some {v m : List Char} :
    mnemonicArg v = some m ↔
      (splitOn ' ' v).length ∈ Generated.correctMnemonicLength ∧ m = strip v := by
  unfold mnemonicArg; split <;> simp_all [eq_comm]

theorem parseCmd_valid {t : List Char} {args : List (List Char)} {cmd : Cmd}
    (h : parseCmd t args = some cmd) : CmdValid cmd := by
  unfold parseCmd at h
  simp only at h
  split_ifs at h
  · rw [Option.map_eq_some_iff] at h
    obtain ⟨s, hs, rfl⟩ := h
    exact parseSub_mnemonicLen hs (by decide)
  · simp only [Option.bind_eq_some_iff, Option.map_eq_some_iff] at h
    obtain ⟨s, _, k, ⟨p, _, hk⟩, rfl⟩ := h
    obtain ⟨hl, rfl⟩ := extendedKeyArg_eq_some.mp hk
    exact hl
  · simp only [Option.bind_eq_some_iff, Option.map_eq_some_iff] at h
    obtain ⟨s, _, k, ⟨p, _, hk⟩, rfl⟩ := h
    exact ⟨p, mnemonicArg_eq_some.mp hk⟩
  · simp only [Option.bind_eq_some_iff, Option.map_eq_some_iff] at h
    obtain ⟨s, _, k, ⟨p, _, hk⟩, rfl⟩ := h
    obtain ⟨hl, rfl⟩ := seedArg_eq_some.mp hk
    exact hl
  · simp only [Option.bind_eq_some_iff, Option.map_eq_some_iff] at h
    obtain ⟨s, _, k, ⟨p, _, hk⟩, rfl⟩ := h
    obtain ⟨hl, rfl⟩ := entropyArg_eq_some.mp hk
    exact hl


/-! ### `run` -/

/-- `run` without `let`s: the four stages in sequence -/
theorem run_eq_emit_iff {P : Prims Pt} {os : Nat → Bytes} {fs : FsClass}
    {argv : List (List Char)} {tgt : Target} {r : Json} :
    run P os fs argv = .emit tgt r ↔
      ∃ g cmd w data, parseArgs fs argv = some (g, some cmd) ∧ construct P os g cmd = some w ∧
        generate P w g.account g.a g.b = some data ∧
        (if g.paranoia then paranoia data = some r else r = data) ∧
        tgt = (if g.file then .file else .stdout) := by
  unfold run
  constructor
  · intro h
    split at h
    · cases h
    · cases h
    · rename_i g cmd hp
      split at h
      · cases h
      · rename_i w hw
        split at h
        · cases h
        · rename_i data hd
          simp only at h
          split at h
          · cases h
          · rename_i d hd'
            cases h
            refine ⟨g, cmd, w, data, hp, hw, hd, ?_, rfl⟩
            split
            · rename_i hpar; rw [if_pos hpar] at hd'; exact hd'
            · rename_i hpar; rw [if_neg hpar] at hd'; cases hd'; rfl
  · rintro ⟨g, cmd, w, data, hp, hw, hd, hr, rfl⟩
    rw [hp]; simp only [hw, hd]
    split at hr
    · rename_i hpar; simp only [hpar, if_true, hr]
    · rename_i hpar; subst hr; simp only [hpar]; rfl

theorem run_eq_help_iff {P : Prims Pt} {os : Nat → Bytes} {fs : FsClass}
    {argv : List (List Char)} :
    run P os fs argv = .help ↔ ∃ g, parseArgs fs argv = some (g, none) := by
  unfold run
  constructor
  · intro h
    split at h
    · cases h
    · rename_i g hp; exact ⟨g, hp⟩
    · split at h
      · cases h
      · split at h
        · cases h
        · simp only at h
          split at h <;> cases h
  · rintro ⟨g, hp⟩
    rw [hp]

theorem run_eq_reject_iff {P : Prims Pt} {os : Nat → Bytes} {fs : FsClass}
    {argv : List (List Char)} :
    run P os fs argv = .reject ↔
      parseArgs fs argv = none ∨
      ∃ g cmd, parseArgs fs argv = some (g, some cmd) ∧
        (construct P os g cmd = none ∨
         ∃ w, construct P os g cmd = some w ∧
           (generate P w g.account g.a g.b = none ∨
            ∃ data, generate P w g.account g.a g.b = some data ∧ g.paranoia = true ∧
              paranoia data = none)) := by
  unfold run
  constructor
  · intro h
    split at h
    · rename_i hp; exact .inl hp
    · cases h
    · rename_i g cmd hp
      refine .inr ⟨g, cmd, hp, ?_⟩
      split at h
      · rename_i hc; exact .inl hc
      · rename_i w hw
        refine .inr ⟨w, hw, ?_⟩
        split at h
        · rename_i hg; exact .inl hg
        · rename_i data hd
          refine .inr ⟨data, hd, ?_⟩
          simp only at h
          split at h
          · rename_i hn
            split at hn
            · rename_i hpar; exact ⟨hpar, hn⟩
            · cases hn
          · cases h
  · rintro (hp | ⟨g, cmd, hp, hc | ⟨w, hw, hg | ⟨data, hd, hpar, hn⟩⟩⟩)
    · rw [hp]
    · rw [hp]; simp only [hc]
    · rw [hp]; simp only [hw, hg]
    · rw [hp]; simp only [hw, hd, hpar, if_true, hn]

/-! ### rows of the account groups -/

theorem mapM_eq_some_forall₂ {α β : Type} {f : α → Option β} {l : List α} {r : List β}
    (h : l.mapM f = some r) : List.Forall₂ (fun x y => f x = some y) l r := by
  induction l generalizing r with
  | nil => rw [List.mapM_nil] at h; cases h; exact .nil
  | cons x xs ih =>
    rw [Path.mapM_cons_opt] at h
    simp only [Option.bind_eq_some_iff, Option.map_eq_some_iff] at h
    obtain ⟨y, hy, ys, hys, rfl⟩ := h
    exact .cons hy (ih hys)

theorem forall₂_comp' {α β γ : Type} {R : α → β → Prop} {S : β → γ → Prop} {l : List α}
    {m : List β} {r : List γ} (h1 : List.Forall₂ R l m) (h2 : List.Forall₂ S m r) :
    List.Forall₂ (fun x z => ∃ y, R x y ∧ S y z) l r := by
  induction h1 generalizing r with
  | nil => cases h2; exact .nil
  | cons hxy _ ih =>
    cases h2 with
    | cons hyz h2' => exact .cons ⟨_, hxy, hyz⟩ (ih h2')

/-- the BIP44 coin level the wallet uses -/
def coinLevel (w : Wallet) : Nat := if w.testnet then 1 + 2 ^ 31 else 2 ^ 31

/-- the five levels of the row with address index `i` -/
def rowLevels (w : Wallet) (purpose account i : Nat) : List Nat :=
  [purpose + 2 ^ 31, coinLevel w, account + 2 ^ 31, 0, i]

theorem groupRow_shape {P : Prims Pt} {w : Wallet} {addr : Node → Option (List Char)} {nd : Node}
    {row : Json} (h : groupRow P w addr nd = some row) :
    ∃ a K wv, addr nd = some a ∧ pubKey P nd = some K ∧
      row = .arr [.str (nodeRepr nd), .str a, .str (toHex (P.curve.sec true K)), wv] := by
  unfold groupRow at h
  simp only [Option.bind_eq_some_iff, Option.map_eq_some_iff] at h
  obtain ⟨a, ha, K, hK, wv, _, rfl⟩ := h
  exact ⟨a, K, _, ha, hK, rfl⟩

/-- every row of `bip44` / `bip49` / `bip84` is `groupRow` of the node derived from the master
along `[purpose', coin', account', 0, i]`, for `i` running through `range(a, b)` in order -/
theorem bipAccount_rows {P : Prims Pt} {w : Wallet} {purpose : Nat}
    {addr : Node → Option (List Char)} {account a b : Nat} {keys : Json} {rows : List Json}
    (h : bipAccount P w purpose addr account a b = some (keys, rows)) :
    List.Forall₂
      (fun i row => ∃ nd, derivePath P w.master (rowLevels w purpose account i) = some nd ∧
        nd.path = w.master.path ++ rowLevels w purpose account i ∧
        groupRow P w addr nd = some row)
      (List.range' a (b - a)) rows := by
  unfold bipAccount at h
  simp only [Option.bind_eq_some_iff, Option.map_eq_some_iff] at h
  obtain ⟨acct, hacct, keys', _, ext, hext, children, hch, rows', hrows, hpair⟩ := h
  unfold generateChildren at hch
  unfold group at hrows
  cases hpair
  have h1 := mapM_eq_some_forall₂ hch
  have h2 := mapM_eq_some_forall₂ hrows
  refine (forall₂_comp' h1 h2).imp ?_
  rintro i row ⟨nd, hnd, hrow⟩
  have hd : derivePath P w.master (rowLevels w purpose account i) = some nd := by
    have : rowLevels w purpose account i =
        [purpose + hardened, (if w.testnet then 1 + hardened else hardened), account + hardened]
          ++ ([0] ++ [i]) := by
      simp only [rowLevels, coinLevel, hardened_eq]; rfl
    rw [this, derivePath_append, hacct, Option.bind_some, derivePath_append, hext, Option.bind_some,
      derivePath_cons, hnd]
    rfl
  exact ⟨nd, hd, (derivePath_fields hd).2, hrow⟩

/-! ### the wallets `main` constructs -/

theorem masterKey_path {P : Prims Pt} {seed : Bytes} {t : Bool} {m : Node}
    (h : masterKey P seed t = some m) : m.path = [] ∧ m.testnet = t := by
  unfold masterKey at h
  simp only at h
  split_ifs at h
  cases h
  exact ⟨rfl, rfl⟩

theorem fromSeedBytes_path {P : Prims Pt} {seed : Bytes} {t : Bool} {w : Wallet}
    (h : fromSeedBytes P seed t = some w) : w.master.path = [] ∧ w.testnet = t := by
  unfold fromSeedBytes at h
  rw [Option.map_eq_some_iff] at h
  obtain ⟨m, hm, rfl⟩ := h
  exact ⟨(masterKey_path hm).1, rfl⟩

theorem fromMnemonic_path {P : Prims Pt} {m pw : List Char} {t : Bool} {w : Wallet}
    (h : fromMnemonic P m pw t = some w) : w.master.path = [] ∧ w.testnet = t := by
  unfold fromMnemonic at h
  rw [Option.map_eq_some_iff] at h
  obtain ⟨w0, hw, rfl⟩ := h
  exact ⟨(fromSeedBytes_path hw).1, (fromSeedBytes_path hw).2⟩

theorem fromExtendedKey_path {P : Prims Pt} {k : List Char} {w : Wallet}
    (h : fromExtendedKey P k = some w) : w.master.path = [] := by
  unfold fromExtendedKey at h
  simp only [Option.bind_eq_some_iff, Option.map_eq_some_iff] at h
  obtain ⟨probe, _, v, _, node, hn, rfl⟩ := h
  unfold parseStr at hn
  rw [Option.map_eq_some_iff] at hn
  obtain ⟨bs, _, rfl⟩ := hn
  rfl

/-- every wallet the CLI constructs has a root object as its master node (`__repr__` = `m`/`M`) -/
theorem construct_master_path {P : Prims Pt} {os : Nat → Bytes} {g : Globals} {cmd : Cmd}
    {w : Wallet} (h : construct P os g cmd = some w) : w.master.path = [] := by
  cases cmd with
  | new pw len =>
    simp only [construct, newWallet, Option.bind_eq_some_iff] at h
    obtain ⟨bits, _, m, _, h⟩ := h
    exact (fromMnemonic_path h).1
  | fromXprv k => exact fromExtendedKey_path h
  | fromMnemonic m pw => exact (fromMnemonic_path h).1
  | fromSeed s =>
    simp only [construct, fromSeedHex, Option.bind_eq_some_iff] at h
    obtain ⟨sd, _, h⟩ := h
    exact (fromSeedBytes_path h).1
  | fromEntropy e pw =>
    simp only [construct, fromEntropyHex, Option.bind_eq_some_iff] at h
    obtain ⟨m, _, h⟩ := h
    exact (fromMnemonic_path h).1

/-- except for `from-master-xprv` (where the key's version bytes decide) the wallet's network is
the `--testnet` flag -/
theorem construct_testnet {P : Prims Pt} {os : Nat → Bytes} {g : Globals} {cmd : Cmd}
    {w : Wallet} (h : construct P os g cmd = some w) (hx : ∀ k, cmd ≠ .fromXprv k) :
    w.testnet = g.testnet := by
  cases cmd with
  | new pw len =>
    simp only [construct, newWallet, Option.bind_eq_some_iff] at h
    obtain ⟨bits, _, m, _, h⟩ := h
    exact (fromMnemonic_path h).2
  | fromXprv k => exact absurd rfl (hx k)
  | fromMnemonic m pw => exact (fromMnemonic_path h).2
  | fromSeed s =>
    simp only [construct, fromSeedHex, Option.bind_eq_some_iff] at h
    obtain ⟨sd, _, h⟩ := h
    exact (fromSeedBytes_path h).2
  | fromEntropy e pw =>
    simp only [construct, fromEntropyHex, Option.bind_eq_some_iff] at h
    obtain ⟨m, _, h⟩ := h
    exact (fromMnemonic_path h).2


/-! ### consequences for `parseArgs`, index form of the rows, `generate` -/

theorem parseSub_no_fileOpt {p l q : Bool} {fuel : Nat} {s s' : SubArgs} {args : List (List Char)}
    (h : parseSub p l q fuel s args = some s') : ∀ t ∈ args, ¬ IsFileOpt t := by
  fun_induction parseSub p l q fuel s args
  case case2 => intro t ht; cases ht
  case case3 v rest' hv ih =>
    intro t ht
    simp only [List.mem_cons] at ht
    rcases ht with rfl | rfl | ht
    · decide +kernel
    · exact not_isFileOpt_of_isValueTok hv
    · exact ih h t ht
  case case7 v rest' hv _ ih =>
    rw [Option.bind_eq_some_iff] at h
    obtain ⟨n, _, h⟩ := h
    split at h
    · intro t ht
      simp only [List.mem_cons] at ht
      rcases ht with rfl | rfl | ht
      · decide +kernel
      · exact not_isFileOpt_of_isValueTok hv
      · exact ih n h t ht
    · cases h
  case case11 t rest _ _ hc ih =>
    intro t' ht
    rcases List.mem_cons.mp ht with rfl | ht
    · exact not_isFileOpt_of_isValueTok hc.1
    · exact ih h t' ht
  all_goals cases h

theorem parseCmd_no_fileOpt {c : List Char} {args : List (List Char)} {cmd : Cmd}
    (h : parseCmd c args = some cmd) : ¬ IsFileOpt c ∧ ∀ t ∈ args, ¬ IsFileOpt t := by
  unfold parseCmd at h
  simp only at h
  split_ifs at h with h1 h2 h3 h4 h5
  · rw [Option.map_eq_some_iff] at h
    obtain ⟨s, hs, _⟩ := h
    exact ⟨by subst h1; decide +kernel, parseSub_no_fileOpt hs⟩
  all_goals
    rw [Option.bind_eq_some_iff] at h
    obtain ⟨s, hs, _⟩ := h
    refine ⟨?_, parseSub_no_fileOpt hs⟩
  · subst h2; decide +kernel
  · subst h3; decide +kernel
  · subst h4; decide +kernel
  · subst h5; decide +kernel

/-- the parsed `file` flag says exactly whether `-f` / `--file` occurs in the argument vector -/
theorem parseArgs_file_iff {fs : FsClass} {argv : List (List Char)} {g : Globals} {c : Option Cmd}
    (h : parseArgs fs argv = some (g, c)) : g.file = true ↔ ∃ t ∈ argv, IsFileOpt t := by
  obtain ⟨rest, hg, hrest⟩ := parseArgs_eq_some_iff.mp h
  obtain ⟨pre, rfl, hiff⟩ := (parseGlobals_sound hg).file_iff
  rw [hiff]
  simp only [Bool.false_eq_true, false_or, List.mem_append]
  constructor
  · rintro ⟨t, ht, hf⟩; exact ⟨t, .inl ht, hf⟩
  · rintro ⟨t, ht | ht, hf⟩
    · exact ⟨t, ht, hf⟩
    · exfalso
      rcases hrest with ⟨rfl, _⟩ | ⟨c', args, cmd, rfl, hc, _⟩
      · cases ht
      · obtain ⟨h1, h2⟩ := parseCmd_no_fileOpt hc
        rcases List.mem_cons.mp ht with rfl | ht
        · exact h1 hf
        · exact h2 t ht hf

theorem parseArgs_file_absent {fs : FsClass} {argv : List (List Char)} {g : Globals}
    {c : Option Cmd} (h : parseArgs fs argv = some (g, c)) (hf : g.file = true) : fs = .absent := by
  obtain ⟨rest, hg, _⟩ := parseArgs_eq_some_iff.mp h
  rcases (parseGlobals_sound hg).file_inv hf with h | h
  · cases h
  · exact h

theorem parseArgs_inRange {fs : FsClass} {argv : List (List Char)} {g : Globals}
    {c : Option Cmd} (h : parseArgs fs argv = some (g, c)) : InRange g := by
  obtain ⟨rest, hg, _⟩ := parseArgs_eq_some_iff.mp h
  exact (parseGlobals_sound hg).inRange inRange_default

theorem parseArgs_cmdValid {fs : FsClass} {argv : List (List Char)} {g : Globals}
    {cmd : Cmd} (h : parseArgs fs argv = some (g, some cmd)) : CmdValid cmd := by
  obtain ⟨rest, hg, hrest⟩ := parseArgs_eq_some_iff.mp h
  rcases hrest with ⟨_, hc⟩ | ⟨c', args, cmd', rfl, hc, hcmd⟩
  · cases hc
  · cases hcmd; exact parseCmd_valid hc

/-- index form of `bipAccount_rows` -/
theorem bipAccount_rows_index {P : Prims Pt} {w : Wallet} {purpose : Nat}
    {addr : Node → Option (List Char)} {account a b : Nat} {keys : Json} {rows : List Json}
    (h : bipAccount P w purpose addr account a b = some (keys, rows)) :
    rows.length = b - a ∧ ∀ j (hj : j < rows.length),
      ∃ nd, derivePath P w.master (rowLevels w purpose account (a + j)) = some nd ∧
        nd.path = w.master.path ++ rowLevels w purpose account (a + j) ∧
        groupRow P w addr nd = some rows[j] := by
  have h2 := List.forall₂_iff_get.mp (bipAccount_rows h)
  obtain ⟨hlen, hget⟩ := h2
  rw [List.length_range'] at hlen
  refine ⟨hlen.symm, fun j hj => ?_⟩
  have := hget j (by rw [List.length_range']; omega) hj
  simpa [List.getElem_range'] using this

theorem generate_eq_some {P : Prims Pt} {w : Wallet} {account a b : Nat} {data : Json}
    (h : generate P w account a b = some data) :
    ∃ r44 r49 r84 b85,
      bipAccount P w 44 (p2pkhAddress P w.testnet) account a b = some r44 ∧
      bipAccount P w 49 (p2shP2wpkhAddress P w.testnet) account a b = some r49 ∧
      bipAccount P w 84 (p2wpkhAddress P w.testnet) account a b = some r84 ∧
      bip85Data P w = some b85 ∧
      data = .obj [("MASTER".toList, masterData w), ("BIP85".toList, b85),
          ("BIP44".toList, acctJson r44), ("BIP49".toList, acctJson r49),
          ("BIP84".toList, acctJson r84)] := by
  unfold generate at h
  simp only [Option.bind_eq_some_iff, Option.map_eq_some_iff] at h
  obtain ⟨r44, h44, r49, h49, r84, h84, b85, h85, rfl⟩ := h
  exact ⟨r44, r49, r84, b85, h44, h49, h84, h85, rfl⟩


/-! ### `paranoia_mode` on generated reports -/

/-- `group[:-1]` on one row -/
def stripRow : Json → Json
  | .arr cols => .arr cols.dropLast
  | j => j

theorem nodeExtendedKeys_shape {P : Prims Pt} {w : Wallet} {nd : Node} {keys : Json}
    (h : nodeExtendedKeys P w nd = some keys) :
    ∃ pub prv, keys = .obj [("path".toList, .str (nodeRepr nd)), ("pub".toList, .str pub),
      ("prv".toList, prv)] := by
  unfold nodeExtendedKeys at h
  simp only [Option.bind_eq_some_iff, Option.map_eq_some_iff] at h
  obtain ⟨prv, _, pub, _, rfl⟩ := h
  exact ⟨pub, _, rfl⟩

theorem mapM_stripRows {rows : List Json} (f : Json → Option Json)
    (hf : ∀ cols, f (.arr cols) = some (.arr cols.dropLast))
    (h : ∀ row ∈ rows, ∃ cols, row = .arr cols) :
    rows.mapM f = some (rows.map stripRow) := by
  induction rows with
  | nil => rfl
  | cons r rs ih =>
    rw [Path.mapM_cons_opt, ih fun x hx => h x (List.mem_cons_of_mem _ hx)]
    obtain ⟨cols, rfl⟩ := h r List.mem_cons_self
    rw [hf]; rfl

theorem paranoiaEntry_acctJson {pth pub prv : Json} {rows : List Json}
    (h : ∀ row ∈ rows, ∃ cols, row = .arr cols) :
    paranoiaEntry (acctJson (.obj [("path".toList, pth), ("pub".toList, pub), ("prv".toList, prv)], rows)) =
      some (.obj [("account_extended_keys".toList, .obj [("path".toList, pth), ("pub".toList, pub)]),
                  ("groups".toList, .arr (rows.map stripRow))]) := by
  have h1 : ("groups".toList == "account_extended_keys".toList) = false := by decide +kernel
  have h2 : ("pub".toList == "path".toList) = false := by decide +kernel
  simp only [paranoiaEntry, acctJson, List.lookup, beq_self_eq_true, h1, h2]
  rw [mapM_stripRows _ (fun _ => rfl) h]
  rfl


/-- shape of what `bip44` / `bip49` / `bip84` return: an extended-keys object and four-column rows -/
theorem bipAccount_shape {P : Prims Pt} {w : Wallet} {purpose : Nat}
    {addr : Node → Option (List Char)} {account a b : Nat} {x : Json × List Json}
    (h : bipAccount P w purpose addr account a b = some x) :
    (∃ pth pub prv, x.1 = .obj [("path".toList, .str pth), ("pub".toList, .str pub),
      ("prv".toList, prv)]) ∧
    ∀ row ∈ x.2, ∃ c1 c2 c3 c4, row = .arr [c1, c2, c3, c4] := by
  obtain ⟨keys, rows⟩ := x
  refine ⟨?_, ?_⟩
  · unfold bipAccount at h
    simp only [Option.bind_eq_some_iff, Option.map_eq_some_iff] at h
    obtain ⟨acct, _, keys', hk, _, _, _, _, _, _, hpair⟩ := h
    cases hpair
    obtain ⟨pub, prv, rfl⟩ := nodeExtendedKeys_shape hk
    exact ⟨_, pub, prv, rfl⟩
  · intro row hrow
    obtain ⟨j, hj, rfl⟩ := List.getElem_of_mem hrow
    obtain ⟨nd, _, _, hr⟩ := (bipAccount_rows_index h).2 j hj
    obtain ⟨a', K, wv, _, _, hr⟩ := groupRow_shape hr
    exact ⟨_, _, _, _, hr⟩

/-- the paranoia view of one account group: path and public key only, rows without their last
column -/
def paranoiaAcct (x : Json × List Json) : Json :=
  match x.1 with
  | .obj [(_, pth), (_, pub), _] =>
    .obj [("account_extended_keys".toList, .obj [("path".toList, pth), ("pub".toList, pub)]),
          ("groups".toList, .arr (x.2.map stripRow))]
  | _ => .null

theorem paranoiaEntry_bipAccount {P : Prims Pt} {w : Wallet} {purpose : Nat}
    {addr : Node → Option (List Char)} {account a b : Nat} {x : Json × List Json}
    (h : bipAccount P w purpose addr account a b = some x) :
    paranoiaEntry (acctJson x) = some (paranoiaAcct x) := by
  obtain ⟨⟨pth, pub, prv, hk⟩, hrows⟩ := bipAccount_shape h
  obtain ⟨keys, rows⟩ := x
  simp only at hk hrows
  subst hk
  exact paranoiaEntry_acctJson fun row hr => by
    obtain ⟨c1, c2, c3, c4, rfl⟩ := hrows row hr; exact ⟨_, rfl⟩

/-- `paranoia_mode` never fails on a report `generate` produced; it keeps exactly the three
account groups, each reduced to path, public key and rows without the last (WIF) column -/
theorem paranoia_generate {P : Prims Pt} {w : Wallet} {account a b : Nat} {data : Json}
    (h : generate P w account a b = some data) :
    ∃ r44 r49 r84,
      bipAccount P w 44 (p2pkhAddress P w.testnet) account a b = some r44 ∧
      bipAccount P w 49 (p2shP2wpkhAddress P w.testnet) account a b = some r49 ∧
      bipAccount P w 84 (p2wpkhAddress P w.testnet) account a b = some r84 ∧
      paranoia data = some (.obj [("BIP44".toList, paranoiaAcct r44),
        ("BIP49".toList, paranoiaAcct r49), ("BIP84".toList, paranoiaAcct r84)]) := by
  obtain ⟨r44, r49, r84, b85, h44, h49, h84, _, rfl⟩ := generate_eq_some h
  refine ⟨r44, r49, r84, h44, h49, h84, ?_⟩
  have k1 : ("MASTER".toList ∈ Generated.paranoiaKeys) = False := by
    simp only [eq_iff_iff, iff_false]; decide +kernel
  have k2 : ("BIP85".toList ∈ Generated.paranoiaKeys) = False := by
    simp only [eq_iff_iff, iff_false]; decide +kernel
  have k3 : ("BIP44".toList ∈ Generated.paranoiaKeys) = True := by
    simp only [eq_iff_iff, iff_true]; decide +kernel
  have k4 : ("BIP49".toList ∈ Generated.paranoiaKeys) = True := by
    simp only [eq_iff_iff, iff_true]; decide +kernel
  have k5 : ("BIP84".toList ∈ Generated.paranoiaKeys) = True := by
    simp only [eq_iff_iff, iff_true]; decide +kernel
  simp only [paranoia, List.filter_cons, List.filter_nil, k1, k2, k3, k4, k5, decide_true,
    decide_false, if_true, if_false, Bool.false_eq_true]
  simp only [Path.mapM_cons_opt, List.mapM_nil, paranoiaEntry_bipAccount h44,
    paranoiaEntry_bipAccount h49, paranoiaEntry_bipAccount h84]
  rfl


/-- rejection has exactly three causes: argparse, the constructor, `generate`
(`paranoia_mode` cannot fail on a generated report) -/
theorem run_eq_reject_iff' {P : Prims Pt} {os : Nat → Bytes} {fs : FsClass}
    {argv : List (List Char)} :
    run P os fs argv = .reject ↔
      parseArgs fs argv = none ∨
      ∃ g cmd, parseArgs fs argv = some (g, some cmd) ∧
        (construct P os g cmd = none ∨
         ∃ w, construct P os g cmd = some w ∧ generate P w g.account g.a g.b = none) := by
  rw [run_eq_reject_iff]
  constructor
  · rintro (h | ⟨g, cmd, hp, hc | ⟨w, hw, hg | ⟨data, hd, _, hn⟩⟩⟩)
    · exact .inl h
    · exact .inr ⟨g, cmd, hp, .inl hc⟩
    · exact .inr ⟨g, cmd, hp, .inr ⟨w, hw, hg⟩⟩
    · obtain ⟨_, _, _, _, _, _, hsome⟩ := paranoia_generate hd
      rw [hn] at hsome; cases hsome
  · rintro (h | ⟨g, cmd, hp, hc | ⟨w, hw, hg⟩⟩)
    · exact .inl h
    · exact .inr ⟨g, cmd, hp, .inl hc⟩
    · exact .inr ⟨g, cmd, hp, .inr ⟨w, hw, .inl hg⟩⟩

end BtcHd.Cli
