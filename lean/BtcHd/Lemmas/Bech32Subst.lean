/-
Helper lemmas for C11c: character substitutions in a segwit address string,
related to symbol substitutions in its data part.
-/
import BtcHd.Lemmas.Bech32
import BtcHd.Lemmas.Bch

namespace BtcHd.Bech32
open BtcHd Bch

/-- number of positions at which two strings differ (Hamming distance for equal lengths) -/
def charDiff : List Char → List Char → Nat
  | x :: xs, y :: ys => (if x = y then 0 else 1) + charDiff xs ys
  | _, _ => 0

theorem charDiff_self : ∀ a : List Char, charDiff a a = 0
  | [] => rfl
  | x :: a => by simp [charDiff, charDiff_self a]

/-- `charDiff` counts the positions of the zipped strings whose two characters differ -/
theorem charDiff_eq_filter : ∀ a b : List Char,
    charDiff a b = ((List.zip a b).filter (fun p => p.1 != p.2)).length
  | [], _ => by simp [charDiff]
  | _ :: _, [] => by simp [charDiff]
  | x :: a, y :: b => by
    have ih := charDiff_eq_filter a b
    by_cases h : x = y
    · subst h; simp [charDiff, ih]
    · simp [charDiff, ih, h]; omega

/-- mapping both strings through the same function cannot create new differences -/
theorem charDiff_map_le (f : Char → Char) : ∀ a b : List Char,
    charDiff (a.map f) (b.map f) ≤ charDiff a b
  | [], _ => by simp [charDiff]
  | _ :: _, [] => by simp [charDiff]
  | x :: a, y :: b => by
    have ih := charDiff_map_le f a b
    simp only [List.map_cons, charDiff]
    by_cases h : x = y
    · subst h; simpa using ih
    · simp only [h, if_false]; split <;> omega

theorem charDiff_append_left : ∀ p a b : List Char, charDiff (p ++ a) (p ++ b) = charDiff a b
  | [], _, _ => rfl
  | c :: p, a, b => by simp [charDiff, charDiff_append_left p a b]

theorem charDiff_eq_zero : ∀ {a b : List Char}, a.length = b.length → charDiff a b = 0 → a = b
  | [], [], _, _ => rfl
  | [], _ :: _, h, _ => by simp at h
  | _ :: _, [], h, _ => by simp at h
  | x :: a, y :: b, h, h0 => by
    simp only [charDiff] at h0
    by_cases e : x = y
    · subst e
      have := charDiff_eq_zero (a := a) (b := b) (by simpa using h) (by simpa using h0)
      rw [this]
    · simp [e] at h0

theorem chr_injective {d e : Nat} (hd : d < 32) (he : e < 32) (h : chr d = chr e) : d = e := by
  rw [← idxOf_chr hd, ← idxOf_chr he, h]

theorem chr_idxOf {c : Char} (h : c ∈ charset) : chr (charset.idxOf c) = c := by
  have hlt : charset.idxOf c < charset.length := List.idxOf_lt_length_of_mem h
  unfold chr
  rw [List.getD_eq_getElem?_getD, List.getElem?_eq_getElem hlt]
  exact List.getElem_idxOf hlt

theorem idxOf_lt {c : Char} (h : c ∈ charset) : charset.idxOf c < 32 := by
  have := List.idxOf_lt_length_of_mem h
  rwa [charset_length] at this

theorem map_chr_map_idxOf (dp : List Char) (h : ∀ c ∈ dp, c ∈ charset) :
    (dp.map (charset.idxOf ·)).map chr = dp := by
  rw [List.map_map]
  conv_rhs => rw [← List.map_id dp]
  apply List.map_congr_left
  intro c hc
  exact chr_idxOf (h c hc)

/-- for 5-bit symbols, differing characters and differing symbols are the same thing -/
theorem charDiff_map_chr : ∀ (xs ys : List Nat), (∀ v ∈ xs, v < 32) → (∀ v ∈ ys, v < 32) →
    charDiff (xs.map chr) (ys.map chr) = diffCount xs ys
  | [], _, _, _ => by simp [charDiff, diffCount]
  | _ :: _, [], _, _ => by simp [charDiff, diffCount]
  | x :: xs, y :: ys, hx, hy => by
    have ih := charDiff_map_chr xs ys (fun u hu => hx u (List.mem_cons_of_mem _ hu))
      (fun u hu => hy u (List.mem_cons_of_mem _ hu))
    simp only [List.map_cons, charDiff, diffCount, ih]
    by_cases h : x = y
    · subst h; simp
    · have : chr x ≠ chr y := fun e =>
        h (chr_injective (hx x List.mem_cons_self) (hy y List.mem_cons_self) e)
      simp [h, this]

theorem diffCount_eq_zero : ∀ {xs ys : List Nat}, xs.length = ys.length → diffCount xs ys = 0 →
    xs = ys
  | [], [], _, _ => rfl
  | [], _ :: _, h, _ => by simp at h
  | _ :: _, [], h, _ => by simp at h
  | x :: a, y :: b, h, h0 => by
    simp only [diffCount] at h0
    by_cases e : x = y
    · subst e
      have := diffCount_eq_zero (xs := a) (ys := b) (by simpa using h) (by simpa using h0)
      rw [this]
    · simp [e] at h0

theorem map_toLower_of_no_upper (s : List Char) (h : ∀ c ∈ s, isUpperAscii c = false) :
    s.map toLowerAscii = s := by
  conv_rhs => rw [← List.map_id s]
  apply List.map_congr_left
  intro c hc
  exact toLowerAscii_of_not_upper (h c hc)

/-- The bridge from strings to symbols.  If `s` is an encoded address and a string `s'` of the same
length is accepted by `decode` under the same prefix, then both data parts are symbol strings of the
same length (at most 71) that verify — the original one with the constant of `v`, the new one with
the constant of the decoded version `v'` — they differ in at most as many positions as the strings
do, and if they do not differ at all, `s'` is `s` up to letter case. -/
theorem decode_subst_bridge {hrp : List Char} {v : Nat} {prog : Bytes} {s s' : List Char}
    {v' : Nat} {prog' : List Nat}
    (h : encode hrp v prog = some s) (hlen : s'.length = s.length)
    (hd : decode hrp s' = some (v', prog')) :
    ∃ xs ys : List Nat, xs.length = ys.length ∧ xs.length ≤ 71 ∧ (∀ d ∈ xs, d < 32) ∧
      (∀ d ∈ ys, d < 32) ∧ verifyChecksum hrp xs = some (specOf v) ∧
      verifyChecksum hrp ys = some (specOf v') ∧ diffCount xs ys ≤ charDiff s s' ∧
      (diffCount xs ys = 0 → s'.map toLowerAscii = s) := by
  obtain ⟨⟨_, _, h40, _, _, hh, _⟩, _, _⟩ := legal_of_encode_some h
  obtain ⟨five, _, hlt, h5len, _, hv32, hs, _⟩ := encode_some_inv h
  -- the symbols of `s`
  have hdat : ∀ d ∈ v :: five, d < 32 := by
    intro d hd
    rcases List.mem_cons.mp hd with rfl | hd
    · exact hv32
    · exact hlt d hd
  generalize hxs : (v :: five) ++ createChecksum hrp (v :: five) (specOf v) = xs at hs
  have hx : ∀ d ∈ xs, d < 32 := by
    intro d hd'
    rw [← hxs] at hd'
    rcases List.mem_append.mp hd' with hd' | hd'
    · exact hdat d hd'
    · exact createChecksum_lt _ _ _ d hd'
  have hxl : xs.length ≤ 71 := by
    rw [← hxs, List.length_append, createChecksum_length, List.length_cons, h5len]; omega
  have hxv : verifyChecksum hrp xs = some (specOf v) := by
    rw [← hxs]; exact checksum_valid hrp _ _ hdat
  have hlow : s.map toLowerAscii = s := by
    rw [hs, map_toLower_encoded _ _ hx, map_toLower_of_no_upper hrp (fun c hc => (hh c hc).2.2)]
  -- the symbols of `s'`
  obtain ⟨data, spec, hb, _, _, _, _, _, hs0, hs1⟩ := decode_eq_some_iff.mp hd
  obtain ⟨_, _, _, dp, ht, _, _, _, hall, hyv, _⟩ := bech32Decode_inv hb
  have hspec : spec = specOf v' := by
    unfold specOf
    split
    · next e => exact hs0 e
    · next e => exact hs1 e
  have hy : ∀ d ∈ dp.map (charset.idxOf ·), d < 32 := by
    intro d hd'
    obtain ⟨c, hc, rfl⟩ := List.mem_map.mp hd'
    exact idxOf_lt (hall c hc)
  have hdp : (dp.map (charset.idxOf ·)).map chr = dp := map_chr_map_idxOf dp hall
  have hl : xs.length = (dp.map (charset.idxOf ·)).length := by
    have h1 := congrArg List.length ht
    have h2 := congrArg List.length hs
    simp only [List.length_map, List.length_append, List.length_cons] at h1 h2 ⊢
    omega
  rw [← hdp] at ht
  generalize dp.map (charset.idxOf ·) = ys at ht hy hl hyv
  have hcd : charDiff s (s'.map toLowerAscii) = diffCount xs ys := by
    rw [ht, hs, charDiff_append_left hrp, ← charDiff_map_chr xs ys hx hy]
    simp [charDiff]
  refine ⟨xs, ys, hl, hxl, hx, hy, hxv, hspec ▸ hyv, ?_, ?_⟩
  · rw [← hcd]
    have := charDiff_map_le toLowerAscii s s'
    rwa [hlow] at this
  · intro h0
    have := diffCount_eq_zero hl h0
    rw [ht, hs, this]

end BtcHd.Bech32
