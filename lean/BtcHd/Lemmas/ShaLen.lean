/-
Output lengths of the driver's SHA-256 / SHA-512 / HMAC-SHA512 (`Prims/Sha.lean`): the digests are
the serialisation of a fixed-size state, so the lengths are 32 / 64 / 64 for every input.
-/
import BtcHd.Prims.Sha

namespace BtcHd.Real

theorem sha512Compress_size (st : Array UInt64) (block : Bytes) :
    (sha512Compress st block).size = 8 := by
  unfold sha512Compress
  simp only [Id.run]
  rfl

theorem sha512Blocks_size (st : Array UInt64) (hst : st.size = 8) (data : Bytes) :
    (sha512Blocks st data).size = 8 := by
  unfold sha512Blocks
  generalize chunksOf 128 data = l
  induction l generalizing st with
  | nil => exact hst
  | cons b l ih => exact ih _ (sha512Compress_size st b)

theorem sha512Out_length (st : Array UInt64) (h : st.size = 8) : (sha512Out st).length = 64 := by
  unfold sha512Out
  obtain ⟨l⟩ := st
  simp only [List.size_toArray] at h
  match l, h with
  | [a, b, c, d, e, f, g, i], _ => rfl

/-- SHA-512 digests are 64 bytes -/
theorem sha512_length (msg : Bytes) : (sha512 msg).length = 64 := by
  unfold sha512
  exact sha512Out_length _ (sha512Blocks_size sha512Init rfl _)

/-- HMAC-SHA512 returns 64 bytes -/
theorem hmacSha512_length (key msg : Bytes) : (hmacSha512 key msg).length = 64 := by
  unfold hmacSha512
  exact sha512_length _

theorem sha256Compress_size (st : Array UInt32) (block : Bytes) :
    (sha256Compress st block).size = 8 := by
  unfold sha256Compress
  simp only [Id.run]
  rfl

/-- SHA-256 digests are 32 bytes -/
theorem sha256_length (msg : Bytes) : (sha256 msg).length = 32 := by
  unfold sha256
  dsimp only
  have h : ∀ (l : List Bytes) (st : Array UInt32), st.size = 8 →
      (l.foldl sha256Compress st).size = 8 := by
    intro l
    induction l with
    | nil => intro st hst; exact hst
    | cons b l ih => intro st _; exact ih _ (sha256Compress_size st b)
  have h8 := h (chunksOf 64 (mdPad 64 8 msg)) sha256Init rfl
  generalize (chunksOf 64 (mdPad 64 8 msg)).foldl sha256Compress sha256Init = st at h8
  obtain ⟨l⟩ := st
  simp only [List.size_toArray] at h8
  match l, h8 with
  | [a, b, c, d, e, f, g, i], _ => rfl

end BtcHd.Real
