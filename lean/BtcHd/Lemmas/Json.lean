/-
Observers on the JSON-shaped values of `Model/Wallet.lean` used to state C06 / C15:
the list of all string / null leaves of a value, and access by a path of keys and indexes.
-/
import BtcHd.Model.Wallet

namespace BtcHd.Wallet

/-- a leaf of a JSON value: a string, or `null` -/
abbrev Leaf := List Char ⊕ Unit

mutual
/-- all string and `null` values occurring in a JSON value at any depth, in document order
(object keys are labels, not values, and are not listed) -/
def leaves : Json → List Leaf
  | .null => [.inr ()]
  | .str s => [.inl s]
  | .arr xs => leavesArr xs
  | .obj kvs => leavesObj kvs
/-- leaves of the elements of an array -/
def leavesArr : List Json → List Leaf
  | [] => []
  | x :: xs => leaves x ++ leavesArr xs
/-- leaves of the values of an object -/
def leavesObj : List (List Char × Json) → List Leaf
  | [] => []
  | kv :: kvs => leaves kv.2 ++ leavesObj kvs
end

theorem leaves_null : leaves .null = [.inr ()] := by simp [leaves]
theorem leaves_str (s : List Char) : leaves (.str s) = [.inl s] := by simp [leaves]
theorem leaves_arr (xs : List Json) : leaves (.arr xs) = leavesArr xs := by simp [leaves]
theorem leaves_obj (kvs : List (List Char × Json)) : leaves (.obj kvs) = leavesObj kvs := by
  simp [leaves]
theorem leavesArr_nil : leavesArr [] = [] := by simp [leavesArr]
theorem leavesArr_cons (x : Json) (xs : List Json) : leavesArr (x :: xs) = leaves x ++ leavesArr xs := by
  simp [leavesArr]
theorem leavesObj_nil : leavesObj [] = [] := by simp [leavesObj]
theorem leavesObj_cons (kv : List Char × Json) (kvs : List (List Char × Json)) :
    leavesObj (kv :: kvs) = leaves kv.2 ++ leavesObj kvs := by
  simp [leavesObj]

theorem leavesArr_eq_flatMap (xs : List Json) : leavesArr xs = xs.flatMap leaves := by
  induction xs with
  | nil => rw [leavesArr_nil]; rfl
  | cons x xs ih => rw [leavesArr_cons, ih, List.flatMap_cons]

theorem leavesObj_eq_flatMap (kvs : List (List Char × Json)) :
    leavesObj kvs = kvs.flatMap fun kv => leaves kv.2 := by
  induction kvs with
  | nil => rw [leavesObj_nil]; rfl
  | cons kv kvs ih => rw [leavesObj_cons, ih, List.flatMap_cons]

/-- one step of access: a key into an object, an index into an array -/
def Json.step : Json → (List Char ⊕ Nat) → Option Json
  | .obj kvs, .inl k => kvs.lookup k
  | .arr xs, .inr i => xs[i]?
  | _, _ => none

/-- `j[k₁][k₂]…` for a list of keys / indexes (`none` = KeyError / IndexError / TypeError) -/
def Json.getPath (j : Json) (p : List (List Char ⊕ Nat)) : Option Json := p.foldlM Json.step j

theorem Json.getPath_nil (j : Json) : j.getPath [] = some j := rfl

theorem Json.getPath_cons (j : Json) (s : List Char ⊕ Nat) (p : List (List Char ⊕ Nat)) :
    j.getPath (s :: p) = (j.step s).bind fun j' => j'.getPath p := by
  unfold Json.getPath
  rw [List.foldlM_cons]
  rfl

end BtcHd.Wallet
