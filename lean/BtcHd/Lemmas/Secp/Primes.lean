/-
Primality of the secp256k1 field prime `p` and group order `n` by Pratt certificates
(generated with sympy; every check is evaluated by the Lean kernel).
-/
import BtcHd.Lemmas.Secp.Pratt
import Mathlib.Tactic.NormNum.Prime

namespace BtcHd.Real.Secp
open Pratt

private theorem prime_7 : Nat.Prime 7 := by norm_num
private theorem prime_13441 : Nat.Prime 13441 := by norm_num
private theorem prime_5 : Nat.Prime 5 := by norm_num
private theorem prime_29 : Nat.Prime 29 := by norm_num
private theorem prime_31 : Nat.Prime 31 := by norm_num
private theorem prime_7723 : Nat.Prime 7723 := by norm_num
private theorem prime_5323 : Nat.Prime 5323 := by norm_num
private theorem prime_2621 : Nat.Prime 2621 := by norm_num
private theorem prime_24809 : Nat.Prime 24809 := by norm_num
private theorem prime_971 : Nat.Prime 971 := by norm_num
private theorem prime_1373 : Nat.Prime 1373 := by norm_num
private theorem prime_13331831 : Nat.Prime 13331831 :=
  pratt 13331831 13 [(2, 1), (5, 1), (971, 1), (1373, 1)]
    ⟨Nat.prime_two, prime_5, prime_971, prime_1373, trivial⟩ (by decide +kernel)
private theorem prime_173378833005251801 : Nat.Prime 173378833005251801 :=
  pratt 173378833005251801 6 [(2, 3), (5, 2), (2621, 1), (24809, 1), (13331831, 1)]
    ⟨Nat.prime_two, prime_5, prime_2621, prime_24809, prime_13331831, trivial⟩ (by decide +kernel)
private theorem prime_22149492674086928081353 : Nat.Prime 22149492674086928081353 :=
  pratt 22149492674086928081353 5 [(2, 3), (3, 1), (5323, 1), (173378833005251801, 1)]
    ⟨Nat.prime_two, Nat.prime_three, prime_5323, prime_173378833005251801, trivial⟩ (by decide +kernel)
private theorem prime_132896956044521568488119 : Nat.Prime 132896956044521568488119 :=
  pratt 132896956044521568488119 6 [(2, 1), (3, 1), (22149492674086928081353, 1)]
    ⟨Nat.prime_two, Nat.prime_three, prime_22149492674086928081353, trivial⟩ (by decide +kernel)
private theorem prime_11 : Nat.Prime 11 := by norm_num
private theorem prime_1627 : Nat.Prime 1627 := by norm_num
private theorem prime_2657 : Nat.Prime 2657 := by norm_num
private theorem prime_4423 : Nat.Prime 4423 := by norm_num
private theorem prime_96557 : Nat.Prime 96557 := by norm_num
private theorem prime_41201 : Nat.Prime 41201 := by norm_num
private theorem prime_53 : Nat.Prime 53 := by norm_num
private theorem prime_107590001 : Nat.Prime 107590001 :=
  pratt 107590001 3 [(2, 4), (5, 4), (7, 1), (29, 1), (53, 1)]
    ⟨Nat.prime_two, prime_5, prime_7, prime_29, prime_53, trivial⟩ (by decide +kernel)
private theorem prime_20113 : Nat.Prime 20113 := by norm_num
private theorem prime_1206781 : Nat.Prime 1206781 :=
  pratt 1206781 10 [(2, 2), (3, 1), (5, 1), (20113, 1)]
    ⟨Nat.prime_two, Nat.prime_three, prime_5, prime_20113, trivial⟩ (by decide +kernel)
private theorem prime_7240687 : Nat.Prime 7240687 :=
  pratt 7240687 3 [(2, 1), (3, 1), (1206781, 1)]
    ⟨Nat.prime_two, Nat.prime_three, prime_1206781, trivial⟩ (by decide +kernel)
private theorem prime_255515944373312847190720520512484175977 : Nat.Prime 255515944373312847190720520512484175977 :=
  pratt 255515944373312847190720520512484175977 3 [(2, 3), (7, 2), (11, 1), (1627, 1), (2657, 1), (4423, 1), (41201, 1), (96557, 1), (7240687, 1), (107590001, 1)]
    ⟨Nat.prime_two, prime_7, prime_11, prime_1627, prime_2657, prime_4423, prime_41201, prime_96557, prime_7240687, prime_107590001, trivial⟩ (by decide +kernel)
private theorem prime_205115282021455665897114700593932402728804164701536103180137503955397371 : Nat.Prime 205115282021455665897114700593932402728804164701536103180137503955397371 :=
  pratt 205115282021455665897114700593932402728804164701536103180137503955397371 10 [(2, 1), (3, 1), (5, 1), (29, 2), (31, 1), (7723, 1), (132896956044521568488119, 1), (255515944373312847190720520512484175977, 1)]
    ⟨Nat.prime_two, Nat.prime_three, prime_5, prime_29, prime_31, prime_7723, prime_132896956044521568488119, prime_255515944373312847190720520512484175977, trivial⟩ (by decide +kernel)
theorem p_prime' : Nat.Prime 115792089237316195423570985008687907853269984665640564039457584007908834671663 :=
  pratt 115792089237316195423570985008687907853269984665640564039457584007908834671663 3 [(2, 1), (3, 1), (7, 1), (13441, 1), (205115282021455665897114700593932402728804164701536103180137503955397371, 1)]
    ⟨Nat.prime_two, Nat.prime_three, prime_7, prime_13441, prime_205115282021455665897114700593932402728804164701536103180137503955397371, trivial⟩ (by decide +kernel)
private theorem prime_149 : Nat.Prime 149 := by norm_num
private theorem prime_631 : Nat.Prime 631 := by norm_num
private theorem prime_16699 : Nat.Prime 16699 := by norm_num
private theorem prime_85831 : Nat.Prime 85831 := by norm_num
private theorem prime_97 : Nat.Prime 97 := by norm_num
private theorem prime_2011 : Nat.Prime 2011 := by norm_num
private theorem prime_4681609 : Nat.Prime 4681609 :=
  pratt 4681609 23 [(2, 3), (3, 1), (97, 1), (2011, 1)]
    ⟨Nat.prime_two, Nat.prime_three, prime_97, prime_2011, trivial⟩ (by decide +kernel)
private theorem prime_107361793816595537 : Nat.Prime 107361793816595537 :=
  pratt 107361793816595537 3 [(2, 4), (16699, 1), (85831, 1), (4681609, 1)]
    ⟨Nat.prime_two, prime_16699, prime_85831, prime_4681609, trivial⟩ (by decide +kernel)
private theorem prime_17 : Nat.Prime 17 := by norm_num
private theorem prime_59 : Nat.Prime 59 := by norm_num
private theorem prime_4051 : Nat.Prime 4051 := by norm_num
private theorem prime_19 : Nat.Prime 19 := by norm_num
private theorem prime_113 : Nat.Prime 113 := by norm_num
private theorem prime_120233 : Nat.Prime 120233 :=
  pratt 120233 3 [(2, 3), (7, 1), (19, 1), (113, 1)]
    ⟨Nat.prime_two, prime_7, prime_19, prime_113, trivial⟩ (by decide +kernel)
private theorem prime_797 : Nat.Prime 797 := by norm_num
private theorem prime_9349 : Nat.Prime 9349 := by norm_num
private theorem prime_44706919 : Nat.Prime 44706919 :=
  pratt 44706919 6 [(2, 1), (3, 1), (797, 1), (9349, 1)]
    ⟨Nat.prime_two, Nat.prime_three, prime_797, prime_9349, trivial⟩ (by decide +kernel)
private theorem prime_174723607534414371449 : Nat.Prime 174723607534414371449 :=
  pratt 174723607534414371449 3 [(2, 3), (17, 1), (59, 1), (4051, 1), (120233, 1), (44706919, 1)]
    ⟨Nat.prime_two, prime_17, prime_59, prime_4051, prime_120233, prime_44706919, trivial⟩ (by decide +kernel)
private theorem prime_109 : Nat.Prime 109 := by norm_num
private theorem prime_293 : Nat.Prime 293 := by norm_num
private theorem prime_2731 : Nat.Prime 2731 := by norm_num
private theorem prime_305873 : Nat.Prime 305873 :=
  pratt 305873 3 [(2, 4), (7, 1), (2731, 1)]
    ⟨Nat.prime_two, prime_7, prime_2731, trivial⟩ (by decide +kernel)
private theorem prime_41 : Nat.Prime 41 := by norm_num
private theorem prime_28181 : Nat.Prime 28181 := by norm_num
private theorem prime_545358713 : Nat.Prime 545358713 :=
  pratt 545358713 5 [(2, 3), (41, 1), (59, 1), (28181, 1)]
    ⟨Nat.prime_two, prime_41, prime_59, prime_28181, trivial⟩ (by decide +kernel)
private theorem prime_461 : Nat.Prime 461 := by norm_num
private theorem prime_1871 : Nat.Prime 1871 := by norm_num
private theorem prime_1627771 : Nat.Prime 1627771 :=
  pratt 1627771 3 [(2, 1), (3, 1), (5, 1), (29, 1), (1871, 1)]
    ⟨Nat.prime_two, Nat.prime_three, prime_5, prime_29, prime_1871, trivial⟩ (by decide +kernel)
private theorem prime_297159362677 : Nat.Prime 297159362677 :=
  pratt 297159362677 2 [(2, 2), (3, 2), (11, 1), (461, 1), (1627771, 1)]
    ⟨Nat.prime_two, Nat.prime_three, prime_11, prime_461, prime_1627771, trivial⟩ (by decide +kernel)
private theorem prime_29047611873442575647497758179 : Nat.Prime 29047611873442575647497758179 :=
  pratt 29047611873442575647497758179 2 [(2, 1), (293, 1), (305873, 1), (545358713, 1), (297159362677, 1)]
    ⟨Nat.prime_two, prime_293, prime_305873, prime_545358713, prime_297159362677, trivial⟩ (by decide +kernel)
private theorem prime_341948486974166000522343609283189 : Nat.Prime 341948486974166000522343609283189 :=
  pratt 341948486974166000522343609283189 2 [(2, 2), (3, 3), (109, 1), (29047611873442575647497758179, 1)]
    ⟨Nat.prime_two, Nat.prime_three, prime_109, prime_29047611873442575647497758179, trivial⟩ (by decide +kernel)
theorem n_prime' : Nat.Prime 115792089237316195423570985008687907852837564279074904382605163141518161494337 :=
  pratt 115792089237316195423570985008687907852837564279074904382605163141518161494337 7 [(2, 6), (3, 1), (149, 1), (631, 1), (107361793816595537, 1), (174723607534414371449, 1), (341948486974166000522343609283189, 1)]
    ⟨Nat.prime_two, Nat.prime_three, prime_149, prime_631, prime_107361793816595537, prime_174723607534414371449, prime_341948486974166000522343609283189, trivial⟩ (by decide +kernel)

/-- the field characteristic of secp256k1 is prime -/
theorem p_prime : Nat.Prime p := p_prime'

/-- the group order of secp256k1 is prime -/
theorem n_prime : Nat.Prime n := n_prime'

end BtcHd.Real.Secp
