/-
SEC encoding / parsing round trips for the concrete secp256k1 model (no group theory):
`parse (sec c pt) = some pt` for on-curve points (both forms) and uniqueness of the 33-byte form.
-/
import BtcHd.Lemmas.Secp.Field
import BtcHd.Lemmas.RealSecp
import BtcHd.Lemmas.BeFixed

namespace BtcHd.Real.Secp
open BtcHd BeFixed

/-- the `xy` helper inside `parse` -/
def xyf (x y : Nat) : Option Pt := if onCurve x y then some (some (x, y)) else none

/-- right-hand side `x³ + 7 mod p` as `parse` computes it -/
def rhs (x : Nat) : Nat := (x * x % p * x + 7) % p

theorem parse_33 (pre : UInt8) (rest : Bytes) (hl : rest.length = 32) :
    parse (pre :: rest) =
      if pre = 2 ∨ pre = 3 then
        if beToNat rest < p then
          match sqrt? (rhs (beToNat rest)) with
          | some y => xyf (beToNat rest) (if (y % 2 = 1) = (pre = 3) then y else p - y)
          | none => none
        else none
      else none := by
  have hl' : (pre :: rest).length = 33 := by simp [hl]
  unfold parse
  dsimp only
  split
  · next h => omega
  · next pre' rest' _ heq => cases heq; rfl
  · next h _ _ => omega
  · next _ h33 _ => exact absurd hl' (fun h => h33 pre rest h rfl)

theorem parse_65 (pre : UInt8) (rest : Bytes) (hl : rest.length = 64) :
    parse (pre :: rest) =
      if pre = 4 then xyf (beToNat (rest.take 32)) (beToNat (rest.drop 32))
      else if pre = 6 ∨ pre = 7 then
        (if (beToNat (rest.drop 32) % 2 = 1) = (pre = 7) then
          xyf (beToNat (rest.take 32)) (beToNat (rest.drop 32)) else none)
      else none := by
  have hl' : (pre :: rest).length = 65 := by simp [hl]
  unfold parse
  dsimp only
  split
  · next h => omega
  · next h _ _ => omega
  · next pre' rest' _ heq => cases heq; rfl
  · next _ _ h65 => exact absurd hl' (fun h => h65 pre rest h rfl)

theorem sec_true (x y : Nat) :
    sec true (some (x, y)) = (if y % 2 = 0 then 2 else 3) :: beFixed 32 x := rfl

theorem sec_false (x y : Nat) :
    sec false (some (x, y)) = 4 :: (beFixed 32 x ++ beFixed 32 y) := rfl

theorem cast_rhs (x : Nat) : ((rhs x : Nat) : F) = (x : F) ^ 3 + 7 := by
  unfold rhs; rw [cast_mod]; push_cast [cast_mulmod]; ring

/-- on a curve abscissa the candidate root is accepted, is reduced, and squares to `y²` -/
theorem sqrt_rhs {x y : Nat} (h : onCurve x y = true) :
    ∃ r, sqrt? (rhs x) = some r ∧ r < p ∧ (r : F) ^ 2 = (y : F) ^ 2 := by
  obtain ⟨_, _, heq⟩ := (onCurve_iff x y).mp h
  have he : (p + 1) / 4 < 2 ^ 256 := by decide +kernel
  have hr : ((powMod (rhs x) ((p + 1) / 4) p : Nat) : F) ^ 2 = (y : F) ^ 2 := by
    rw [cast_powMod _ _ he, cast_rhs, ← heq, sqrt_pow_sq]
  refine ⟨powMod (rhs x) ((p + 1) / 4) p, ?_, powMod_lt _ _ _ one_lt_p, hr⟩
  unfold sqrt?
  dsimp only
  rw [if_pos]
  rw [cast_mod_eq_iff, Nat.cast_mul, ← pow_two, hr, cast_rhs, heq]

theorem sqrt_some_lt {a r : Nat} (h : sqrt? a = some r) : r < p := by
  unfold sqrt? at h
  dsimp only at h
  split at h
  · cases h; exact powMod_lt _ _ _ one_lt_p
  · cases h

/-- the parity rule of the compressed form selects the original ordinate -/
theorem select_root {y r : Nat} (hy : y < p) (hr : r < p) (hsq : (r : F) ^ 2 = (y : F) ^ 2) :
    (if (r % 2 = 1) = ((if y % 2 = 0 then (2 : UInt8) else 3) = 3) then r else p - r) = y := by
  have hpre : ((if y % 2 = 0 then (2 : UInt8) else 3) = 3) ↔ y % 2 = 1 := by
    by_cases h : y % 2 = 0
    · rw [if_pos h]; constructor
      · intro h'; exact absurd h' (by decide)
      · omega
    · rw [if_neg h]; constructor
      · intro _; omega
      · intro _; rfl
  by_cases hry : r = y
  · subst hry
    rw [if_pos (propext hpre.symm)]
  · have hne : (r : F) ≠ (y : F) := fun h => hry ((cast_inj hr hy).mp h)
    have hsum : ((r + y : Nat) : F) = 0 := by
      have h0 : ((r : F) - (y : F)) * ((r : F) + (y : F)) = 0 := by linear_combination hsq
      rcases mul_eq_zero.mp h0 with h | h
      · exact absurd (sub_eq_zero.mp h) hne
      · rw [Nat.cast_add]; exact h
    have hdvd : p ∣ r + y := (ZMod.natCast_eq_zero_iff _ _).mp hsum
    obtain ⟨c, hc⟩ := hdvd
    have hc1 : c = 1 := by
      rcases c with _ | _ | c
      · omega
      · rfl
      · rw [Nat.mul_add, Nat.mul_add] at hc; omega
    subst hc1
    have hpo := p_odd
    rw [if_neg]
    · omega
    · intro heq
      have : r % 2 = 1 ↔ y % 2 = 1 := by rw [heq]; exact hpre
      omega

theorem xyf_onCurve {x y : Nat} (h : onCurve x y = true) : xyf x y = some (some (x, y)) := by
  unfold xyf; rw [if_pos h]

theorem xyf_eq_some {x y : Nat} {pt : Pt} (h : xyf x y = some pt) :
    pt = some (x, y) ∧ onCurve x y = true := by
  unfold xyf at h
  split at h
  · next hc => cases h; exact ⟨rfl, hc⟩
  · cases h

theorem lt_256_32 {x : Nat} (h : x < p) : x < 256 ^ 32 := by
  have : p < 256 ^ 32 := by decide +kernel
  omega

/-- `from_string(to_string(enc))` returns the point, for both encodings of any on-curve point -/
theorem parse_sec_onCurve (c : Bool) {x y : Nat} (h : onCurve x y = true) :
    parse (sec c (some (x, y))) = some (some (x, y)) := by
  obtain ⟨hx, hy, _⟩ := (onCurve_iff x y).mp h
  cases c with
  | true =>
    rw [sec_true, parse_33 _ _ (beFixed_length 32 x), beToNat_beFixed (lt_256_32 hx)]
    rw [if_pos (by by_cases h2 : y % 2 = 0 <;> simp [h2]), if_pos hx]
    obtain ⟨r, hs, hr, hsq⟩ := sqrt_rhs h
    rw [hs]
    dsimp only
    rw [select_root hy hr hsq, xyf_onCurve h]
  | false =>
    rw [sec_false, parse_65 _ _ (by simp [beFixed_length]), if_pos rfl]
    rw [List.take_left' (beFixed_length 32 x), List.drop_left' (beFixed_length 32 x),
      beToNat_beFixed (lt_256_32 hx), beToNat_beFixed (lt_256_32 hy), xyf_onCurve h]

/-- a 33-byte string that parses to `pt` is the compressed encoding of `pt` -/
theorem sec_parse_33 (bs : Bytes) (pt : Pt) (hl : bs.length = 33) (hp : parse bs = some pt) :
    sec true pt = bs := by
  match bs, hl with
  | pre :: rest, hl =>
    have hrl : rest.length = 32 := by simpa using hl
    rw [parse_33 pre rest hrl] at hp
    split at hp
    · next hpre =>
      split at hp
      · next hx =>
        split at hp
        · next r hs =>
          obtain ⟨rfl, hc⟩ := xyf_eq_some hp
          have hr := sqrt_some_lt hs
          obtain ⟨_, hy', _⟩ := (onCurve_iff _ _).mp hc
          rw [sec_true, beFixed_beToNat hrl]
          congr 1
          have hpo := p_odd
          by_cases hcond : (r % 2 = 1) = (pre = 3)
          · rw [if_pos hcond] at hy' ⊢
            rcases hpre with rfl | rfl
            · have : ¬ r % 2 = 1 := by rw [hcond]; decide
              rw [if_pos (by omega)]
            · have : r % 2 = 1 := by rw [hcond]
              rw [if_neg (by omega)]
          · rw [if_neg hcond] at hy' ⊢
            rcases hpre with rfl | rfl
            · have : r % 2 = 1 := by
                by_contra h1
                exact hcond (propext ⟨fun h => absurd h h1, fun h => absurd h (by decide)⟩)
              rw [if_pos (by omega)]
            · have : ¬ r % 2 = 1 := by
                intro h1
                exact hcond (propext ⟨fun _ => rfl, fun _ => h1⟩)
              rw [if_neg (by omega)]
        · cases hp
      · cases hp
    · cases hp

theorem sec_len_some (x y : Nat) : (sec true (some (x, y))).length = 33 := by
  rw [sec_true, List.length_cons, beFixed_length]

theorem sec_prefix_some (x y : Nat) :
    (sec true (some (x, y))).head? = some 2 ∨ (sec true (some (x, y))).head? = some 3 := by
  rw [sec_true]
  by_cases h : y % 2 = 0
  · left; rw [if_pos h]; rfl
  · right; rw [if_neg h]; rfl

/-- whatever `parse` accepts is a finite valid point -/
theorem parse_valid {bs : Bytes} {pt : Pt} (h : parse bs = some pt) : Valid pt ∧ pt ≠ none := by
  obtain ⟨⟨x, y, rfl, hc⟩, _⟩ := parse_sound bs pt h
  exact ⟨hc, by simp⟩

end BtcHd.Real.Secp
