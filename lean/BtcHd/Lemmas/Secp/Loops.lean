/-
The two `for` loops of `Prims/Secp256k1.lean` (`powMod`, `Jac.mul`) as structural recursions,
and the arithmetic meaning of `powMod`.  Core Lean only.
-/
import BtcHd.Prims.Secp256k1

namespace BtcHd.Real.Secp

/-- `k` rounds of right-to-left square-and-multiply (the body of `powMod`) -/
def pmLoop (m : Nat) : Nat → Nat → Nat → Nat → Nat
  | 0, r, _, _ => r
  | k + 1, r, b, e => pmLoop m k (if e % 2 = 1 then r * b % m else r) (b * b % m) (e / 2)

private theorem powMod_forIn (m : Nat) (l : List Nat) (r b e : Nat) :
    (forIn (m := Id) l (r, b, e) fun _ s =>
        if s.snd.snd % 2 = 1 then
          pure (ForInStep.yield (s.fst * s.snd.fst % m, s.snd.fst * s.snd.fst % m, s.snd.snd / 2))
        else pure (ForInStep.yield (s.fst, s.snd.fst * s.snd.fst % m, s.snd.snd / 2))).run.fst
      = pmLoop m l.length r b e := by
  induction l generalizing r b e with
  | nil => rfl
  | cons a l ih =>
    rw [List.forIn_cons]
    by_cases h : e % 2 = 1
    · simp only [h, if_true, List.length_cons, pmLoop]
      exact ih _ _ _
    · simp only [h, if_false, List.length_cons, pmLoop]
      exact ih _ _ _

/-- `powMod` is 256 rounds of `pmLoop` -/
theorem powMod_eq_pmLoop (b e m : Nat) : powMod b e m = pmLoop m 256 1 (b % m) e := by
  unfold powMod
  simp only [Id.run, Std.Legacy.Range.forIn_eq_forIn_range', Std.Legacy.Range.size, Nat.sub_zero,
    Nat.add_sub_cancel, Nat.div_one]
  have h := powMod_forIn m (List.range' 0 256) 1 (b % m) e
  rw [List.length_range'] at h
  exact h

theorem pmLoop_spec (m : Nat) (k r b e : Nat) (he : e < 2 ^ k) :
    pmLoop m k r b e % m = r * b ^ e % m := by
  induction k generalizing r b e with
  | zero =>
    have : e = 0 := by simpa using he
    subst this; simp [pmLoop]
  | succ k ih =>
    have he2 : e / 2 < 2 ^ k := by
      rw [Nat.pow_succ] at he; omega
    rw [pmLoop, ih _ _ _ he2]
    have hb : (b * b % m) ^ (e / 2) % m = (b * b) ^ (e / 2) % m := (Nat.pow_mod ..).symm
    have hsplit : b ^ e = b ^ (e % 2) * (b * b) ^ (e / 2) := by
      conv => lhs; rw [← Nat.mod_add_div e 2]
      rw [Nat.pow_add, Nat.pow_mul, Nat.pow_two]
    rw [hsplit]
    by_cases h : e % 2 = 1
    · rw [if_pos h, h, Nat.pow_one, ← Nat.mul_assoc]
      rw [Nat.mul_mod, Nat.mod_mod, hb, ← Nat.mul_mod]
    · have h0 : e % 2 = 0 := by omega
      rw [if_neg h, h0, Nat.pow_zero, Nat.one_mul]
      rw [Nat.mul_mod, hb, ← Nat.mul_mod]

theorem pmLoop_lt (m : Nat) (k r b e : Nat) (hr : r < m) : pmLoop m k r b e < m := by
  induction k generalizing r b e with
  | zero => simpa [pmLoop]
  | succ k ih =>
    rw [pmLoop]
    apply ih
    split
    · exact Nat.mod_lt _ (by omega)
    · exact hr

/-- `powMod b e m = b ^ e mod m` for every exponent below `2^256` and modulus above 1 -/
theorem powMod_eq (b e m : Nat) (he : e < 2 ^ 256) (hm : 1 < m) : powMod b e m = b ^ e % m := by
  rw [powMod_eq_pmLoop, ← Nat.mod_eq_of_lt (pmLoop_lt m 256 1 (b % m) e hm),
    pmLoop_spec m 256 1 (b % m) e he, Nat.one_mul, ← Nat.pow_mod]

theorem powMod_lt (b e m : Nat) (hm : 1 < m) : powMod b e m < m := by
  rw [powMod_eq_pmLoop]; exact pmLoop_lt m 256 1 _ _ hm

/-! ### `Jac.mul` -/

/-- the body of `Jac.mul`: left-to-right double-and-add over bits `i-1, …, 0` of `k` -/
def mulLoop (k : Nat) (pt : Jac) : Nat → Jac → Jac
  | 0, acc => acc
  | i + 1, acc =>
    mulLoop k pt i (if (k >>> i) % 2 = 1 then acc.double.add pt else acc.double)

private theorem mul_forIn (k : Nat) (pt : Jac) (l : List Nat) (acc : Jac) :
    (forIn (m := Id) l (acc, l.length) fun _ s =>
        if k >>> (s.snd - 1) % 2 = 1 then
          pure (ForInStep.yield (s.fst.double.add pt, s.snd - 1))
        else pure (ForInStep.yield (s.fst.double, s.snd - 1))).run.fst
      = mulLoop k pt l.length acc := by
  induction l generalizing acc with
  | nil => rfl
  | cons a l ih =>
    rw [List.forIn_cons]
    simp only [List.length_cons, Nat.add_sub_cancel, mulLoop]
    by_cases h : k >>> l.length % 2 = 1
    · simp only [h, if_true]
      exact ih _
    · simp only [h, if_false]
      exact ih _

/-- `Jac.mul` is 256 rounds of `mulLoop` starting from infinity -/
theorem Jac.mul_eq_mulLoop (k : Nat) (pt : Jac) : Jac.mul k pt = mulLoop k pt 256 Jac.inf := by
  unfold Jac.mul
  simp only [Id.run, Std.Legacy.Range.forIn_eq_forIn_range', Std.Legacy.Range.size, Nat.sub_zero,
    Nat.add_sub_cancel, Nat.div_one]
  have h := mul_forIn k pt (List.range' 0 256) Jac.inf
  rw [List.length_range'] at h
  exact h

end BtcHd.Real.Secp
