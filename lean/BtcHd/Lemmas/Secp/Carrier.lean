/-
The carrier of valid secp256k1 points and the concrete curve `vCurve : Curve VPt` whose fields are
the functions of `Prims/Secp256k1.lean` restricted to valid points, with its embedding into
Mathlib's point group.
-/
import BtcHd.Lemmas.Secp.Group
import BtcHd.Lemmas.Secp.Encoding
import BtcHd.Model.Curve
import BtcHd.Prims.Sha

namespace BtcHd.Real.Secp
open BtcHd

/-- valid points: infinity, or `(x, y)` with `x, y < p` and `y² ≡ x³ + 7 (mod p)` -/
abbrev VPt : Type := {q : Pt // Valid q}

/-- the concrete secp256k1 of the driver, restricted to valid points (same underlying values) -/
def vCurve : Curve VPt where
  n := n
  mulGen k := ⟨mulGen k, (mulGen_spec k).1⟩
  add a b := ⟨add a.1 b.1, (add_spec a.2 b.2).1⟩
  isInf q := q.1.isNone
  sec c q := sec c q.1
  parse bs := (parse bs).pmap (fun q h => (⟨q, h⟩ : VPt)) (fun _ hq => (parse_valid hq).1)

@[simp] theorem vCurve_n : vCurve.n = n := rfl
@[simp] theorem vCurve_mulGen_val (k : Nat) : (vCurve.mulGen k).1 = mulGen k := rfl
@[simp] theorem vCurve_add_val (a b : VPt) : (vCurve.add a b).1 = add a.1 b.1 := rfl
@[simp] theorem vCurve_isInf (q : VPt) : vCurve.isInf q = q.1.isNone := rfl
@[simp] theorem vCurve_sec (c : Bool) (q : VPt) : vCurve.sec c q = sec c q.1 := rfl

private theorem pmap_val (o : Option Pt) (H : ∀ a, o = some a → Valid a) :
    (o.pmap (fun q h => (⟨q, h⟩ : VPt)) H).map Subtype.val = o := by
  cases o <;> rfl

private theorem pmap_eq_some (o : Option Pt) (H : ∀ a, o = some a → Valid a) (q : VPt) :
    o.pmap (fun q h => (⟨q, h⟩ : VPt)) H = some q ↔ o = some q.1 := by
  cases o with
  | none => simp
  | some r => simp [Subtype.ext_iff]

/-- the underlying value of `vCurve.parse` is that of `Real.Secp.parse` -/
theorem vCurve_parse_val (bs : Bytes) : (vCurve.parse bs).map Subtype.val = parse bs :=
  pmap_val (parse bs) _

theorem vCurve_parse_eq_some {bs : Bytes} {q : VPt} : vCurve.parse bs = some q ↔ parse bs = some q.1 :=
  pmap_eq_some (parse bs) _ q

/-- the driver's primitives over the carrier of valid points (`nfkd` is the table the driver loads) -/
def vPrims (nfkd : List Char → List Char) : Prims VPt where
  sha256 := Real.sha256
  hmac512 := Real.hmacSha512
  pbkdf2 := Real.pbkdf2Sha512
  nfkd := nfkd
  curve := vCurve

/-- embedding of valid points into Mathlib's `AddCommGroup` of points of `y² = x³ + 7` over `ZMod p` -/
noncomputable def toPoint (q : VPt) : E := toPointD q.1

theorem toPoint_injective : Function.Injective toPoint :=
  fun a b h => Subtype.ext (toPointD_inj a.2 b.2 h)

theorem toPoint_eq_zero_iff (q : VPt) : toPoint q = 0 ↔ vCurve.isInf q = true := by
  rw [toPoint, toPointD_eq_zero_iff q.2, vCurve_isInf, Option.isNone_iff_eq_none]

/-- model addition is the group addition -/
theorem toPoint_add (a b : VPt) : toPoint (vCurve.add a b) = toPoint a + toPoint b :=
  (add_spec a.2 b.2).2

/-- model `mulGen` is scalar multiplication of the generator -/
theorem toPoint_mulGen (k : Nat) : toPoint (vCurve.mulGen k) = k • G :=
  (mulGen_spec k).2

open WeierstrassCurve.Affine in
/-- every point of Mathlib's group is (the image of) a valid model point -/
theorem toPoint_surjective : Function.Surjective toPoint := by
  intro P
  match P with
  | .zero => exact ⟨⟨none, trivial⟩, rfl⟩
  | .some x y h =>
    have hx : ((x.val : Nat) : F) = x := ZMod.natCast_zmod_val x
    have hy : ((y.val : Nat) : F) = y := ZMod.natCast_zmod_val y
    have hc : onCurve x.val y.val = true :=
      (onCurve_iff _ _).mpr ⟨ZMod.val_lt x, ZMod.val_lt y, by rw [hx, hy]; exact (nonsingular_iff x y).mp h⟩
    refine ⟨⟨some (x.val, y.val), hc⟩, ?_⟩
    show toPointD (some (x.val, y.val)) = _
    rw [toPointD_some (onCurve_nonsingular hc)]
    congr 1

/-- valid points with the model's addition are in bijection with Mathlib's group, compatibly with `+` -/
theorem toPoint_bijective : Function.Bijective toPoint := ⟨toPoint_injective, toPoint_surjective⟩

/-- the model's point addition is commutative on valid points -/
theorem vCurve_add_comm (a b : VPt) : vCurve.add a b = vCurve.add b a :=
  toPoint_injective (by rw [toPoint_add, toPoint_add, add_comm])

/-- the model's point addition is associative on valid points -/
theorem vCurve_add_assoc (a b c : VPt) :
    vCurve.add (vCurve.add a b) c = vCurve.add a (vCurve.add b c) :=
  toPoint_injective (by simp only [toPoint_add, add_assoc])

end BtcHd.Real.Secp
