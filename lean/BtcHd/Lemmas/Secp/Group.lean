/-
secp256k1 as a Mathlib Weierstrass curve over `F = ZMod p`, and the correctness of the model's
Jacobian arithmetic (`Jac.double`, `Jac.add`, `Jac.toAffine`, `Jac.mul`, `add`, `mulGen`) with respect
to Mathlib's group law on `W.Point`.
-/
import BtcHd.Lemmas.Secp.Field
import Mathlib.AlgebraicGeometry.EllipticCurve.Affine.Point

namespace BtcHd.Real.Secp
open WeierstrassCurve

/-- the curve `y² = x³ + 7` over `F` -/
def W : Affine F := ⟨0, 0, 0, 0, 7⟩

@[simp] theorem W_a₁ : W.a₁ = 0 := rfl
@[simp] theorem W_a₂ : W.a₂ = 0 := rfl
@[simp] theorem W_a₃ : W.a₃ = 0 := rfl
@[simp] theorem W_a₄ : W.a₄ = 0 := rfl
@[simp] theorem W_a₆ : W.a₆ = 7 := rfl

theorem W_Δ : W.Δ = -((21168 : Nat) : F) := by
  simp only [WeierstrassCurve.Δ, WeierstrassCurve.b₂, WeierstrassCurve.b₄, WeierstrassCurve.b₆,
    WeierstrassCurve.b₈, W_a₁, W_a₂, W_a₃, W_a₄, W_a₆]
  push_cast
  ring

instance : W.IsElliptic := ⟨by
  rw [W_Δ, isUnit_iff_ne_zero, neg_ne_zero, Ne, cast_eq_zero (by decide +kernel)]
  decide⟩

/-- the group of points of secp256k1 (Mathlib's `AddCommGroup`) -/
abbrev E : Type := W.Point

theorem equation_iff (x y : F) : W.Equation x y ↔ y ^ 2 = x ^ 3 + 7 := by
  rw [Affine.equation_iff]; simp

theorem nonsingular_iff (x y : F) : W.Nonsingular x y ↔ y ^ 2 = x ^ 3 + 7 := by
  rw [← Affine.equation_iff_nonsingular, equation_iff]

open WeierstrassCurve.Affine in
/-- chord addition without division: any `l` with `l (x₁ - x₂) = y₁ - y₂` gives the sum -/
theorem add_of_X_ne {x1 y1 x2 y2 : F} (h1 : W.Nonsingular x1 y1) (h2 : W.Nonsingular x2 y2)
    (hx : x1 ≠ x2) (x3 y3 l : F) (hl : l * (x1 - x2) = y1 - y2) (hx3 : x3 = l ^ 2 - x1 - x2)
    (hy3 : y3 = l * (x1 - x3) - y1) :
    ∃ h3 : W.Nonsingular x3 y3, Point.some x1 y1 h1 + Point.some x2 y2 h2 = Point.some x3 y3 h3 := by
  have hne : x1 - x2 ≠ 0 := sub_ne_zero.mpr hx
  have hs : W.slope x1 x2 y1 y2 = l := by
    rw [slope_of_X_ne hx, div_eq_iff hne, hl]
  have hX : W.addX x1 x2 (W.slope x1 x2 y1 y2) = x3 := by
    rw [hs, hx3]; simp [addX]
  have hY : W.addY x1 x2 y1 (W.slope x1 x2 y1 y2) = y3 := by
    rw [addY, negAddY, hX, hs, hy3]; simp [negY]; ring
  have := Point.add_of_X_ne (h₁ := h1) (h₂ := h2) hx
  rw [this]
  subst hX hY
  exact ⟨_, rfl⟩

open WeierstrassCurve.Affine in
/-- tangent doubling without division: any `l` with `l (2y) = 3x²` gives the double (`y ≠ 0`) -/
theorem add_self_of_Y_ne {x y : F} (h : W.Nonsingular x y) (hy : y ≠ 0) (x3 y3 l : F)
    (hl : l * (2 * y) = 3 * x ^ 2) (hx3 : x3 = l ^ 2 - 2 * x) (hy3 : y3 = l * (x - x3) - y) :
    ∃ h3 : W.Nonsingular x3 y3, Point.some x y h + Point.some x y h = Point.some x3 y3 h3 := by
  have h2y : (2 : F) * y ≠ 0 := mul_ne_zero two_ne_zero_F hy
  have hny : y ≠ W.negY x y := by
    simp only [negY, W_a₁, W_a₃, zero_mul, sub_zero]
    intro h'
    apply h2y
    linear_combination h'
  have hs : W.slope x x y y = l := by
    rw [slope_of_Y_ne rfl hny]
    simp only [negY, W_a₁, W_a₂, W_a₃, W_a₄, zero_mul, mul_zero, sub_zero, add_zero, sub_neg_eq_add]
    rw [div_eq_iff (by intro h'; apply h2y; linear_combination h'), ← hl]; ring
  have hX : W.addX x x (W.slope x x y y) = x3 := by
    rw [hs, hx3]; simp [addX]; ring
  have hY : W.addY x x y (W.slope x x y y) = y3 := by
    rw [addY, negAddY, hX, hs, hy3]; simp [negY]; ring
  have := Point.add_self_of_Y_ne (h₁ := h) hny
  rw [this]
  subst hX hY
  exact ⟨_, rfl⟩

open WeierstrassCurve.Affine in
theorem add_of_Y_eq_neg {x y y' : F} (h : W.Nonsingular x y) (h' : W.Nonsingular x y') (hy : y = -y') :
    Point.some x y h + Point.some x y' h' = 0 :=
  Point.add_of_Y_eq rfl (by simp [negY, hy])

open WeierstrassCurve.Affine

/-- the Jacobian triple `j` (with reduced `z`) represents the affine point `P` -/
def Rep (j : Jac) (P : E) : Prop :=
  j.z < p ∧ ((j.z = 0 ∧ P = 0) ∨
    (j.z ≠ 0 ∧ ∃ h, P = Point.some ((j.x : F) / (j.z : F) ^ 2) ((j.y : F) / (j.z : F) ^ 3) h))

theorem rep_inf : Rep Jac.inf 0 := ⟨p_pos, Or.inl ⟨rfl, rfl⟩⟩

theorem Rep.zero {j : Jac} {P : E} (h : Rep j P) (hz : j.z = 0) : P = 0 := by
  rcases h.2 with ⟨_, h⟩ | ⟨h, _⟩
  · exact h
  · exact absurd hz h

theorem Rep.some {j : Jac} {P : E} (h : Rep j P) (hz : j.z ≠ 0) :
    (j.z : F) ≠ 0 ∧ ∃ h, P = Point.some ((j.x : F) / (j.z : F) ^ 2) ((j.y : F) / (j.z : F) ^ 3) h := by
  rcases h.2 with ⟨h', _⟩ | ⟨_, h'⟩
  · exact absurd h' hz
  · exact ⟨by rwa [Ne, cast_eq_zero h.1], h'⟩

theorem rep_of_z_eq_zero {j : Jac} (hz : j.z = 0) : Rep j 0 := ⟨by rw [hz]; exact p_pos, Or.inl ⟨hz, rfl⟩⟩

theorem rep_some {j : Jac} (hlt : j.z < p) (hz : (j.z : F) ≠ 0) {x y : F} (h : W.Nonsingular x y)
    (hx : x = (j.x : F) / (j.z : F) ^ 2) (hy : y = (j.y : F) / (j.z : F) ^ 3) :
    Rep j (Point.some x y h) := by
  subst hx hy
  refine ⟨hlt, Or.inr ⟨?_, h, rfl⟩⟩
  rintro h0; rw [h0] at hz; exact hz Nat.cast_zero

theorem rep_double {j : Jac} {P : E} (h : Rep j P) : Rep j.double (P + P) := by
  unfold Jac.double
  by_cases hz : j.z = 0
  · rw [if_pos (by simp [hz]), h.zero hz, add_zero]; exact rep_inf
  obtain ⟨hZ, hns, rfl⟩ := h.some hz
  by_cases hy : j.y = 0
  · rw [if_pos (by simp [hy])]
    rw [add_of_Y_eq_neg hns hns (by simp [hy])]
    exact rep_inf
  rw [if_neg (by simp [hz, hy])]
  dsimp only
  by_cases hY : (j.y : F) = 0
  · rw [add_of_Y_eq_neg hns hns (by simp [hY])]
    apply rep_of_z_eq_zero
    show 2 * j.y % p * j.z % p = 0
    rw [← cast_eq_zero (Nat.mod_lt _ p_pos), cast_mulmod, cast_mulmod, hY]; simp
  · have hnz : (((2 * j.y % p * j.z % p : Nat)) : F) = 2 * (j.y : F) * (j.z : F) := by
      rw [cast_mulmod, cast_mulmod]; push_cast; ring
    have hy' : (j.y : F) / (j.z : F) ^ 3 ≠ 0 := div_ne_zero hY (pow_ne_zero _ hZ)
    have h2 : (2 : F) ≠ 0 := two_ne_zero_F
    obtain ⟨h3, e⟩ := add_self_of_Y_ne hns hy' _ _ (3 * (j.x : F) ^ 2 / (2 * (j.y : F) * (j.z : F))) (by
      field_simp) rfl rfl
    rw [e]
    apply rep_some (Nat.mod_lt _ p_pos)
    · rw [hnz]; exact mul_ne_zero (mul_ne_zero two_ne_zero_F hY) hZ
    · simp only [hnz, cast_sub, cast_mulmod]; push_cast; field_simp; ring
    · simp only [hnz, cast_sub, cast_mulmod]; push_cast; field_simp; ring

section alg
variable {X1 Y1 Z1 X2 Y2 Z2 H R : F}

theorem jadd_l (hZ1 : Z1 ≠ 0) (hZ2 : Z2 ≠ 0) (hH : H ≠ 0) (hHd : H = X2 * Z1 ^ 2 - X1 * Z2 ^ 2)
    (hRd : R = Y2 * Z1 ^ 3 - Y1 * Z2 ^ 3) :
    R / (H * Z1 * Z2) * (X1 / Z1 ^ 2 - X2 / Z2 ^ 2) = Y1 / Z1 ^ 3 - Y2 / Z2 ^ 3 := by
  field_simp
  subst hHd hRd
  ring

theorem jadd_x (hZ1 : Z1 ≠ 0) (hZ2 : Z2 ≠ 0) (hH : H ≠ 0) (hHd : H = X2 * Z1 ^ 2 - X1 * Z2 ^ 2) :
    (R / (H * Z1 * Z2)) ^ 2 - X1 / Z1 ^ 2 - X2 / Z2 ^ 2 =
      (R ^ 2 - H ^ 3 - 2 * (X1 * Z2 ^ 2 * H ^ 2)) / (H * Z1 * Z2) ^ 2 := by
  field_simp
  subst hHd
  ring

theorem jadd_y (hZ1 : Z1 ≠ 0) (hZ2 : Z2 ≠ 0) (hH : H ≠ 0) (X3 : F) :
    R / (H * Z1 * Z2) * (X1 / Z1 ^ 2 - X3 / (H * Z1 * Z2) ^ 2) - Y1 / Z1 ^ 3 =
      (R * (X1 * Z2 ^ 2 * H ^ 2 - X3) - Y1 * Z2 ^ 3 * H ^ 3) / (H * Z1 * Z2) ^ 3 := by
  field_simp

end alg

theorem rep_add {a b : Jac} {P Q : E} (ha : Rep a P) (hb : Rep b Q) : Rep (a.add b) (P + Q) := by
  unfold Jac.add
  by_cases haz : a.z = 0
  · rw [if_pos haz, ha.zero haz, zero_add]; exact hb
  rw [if_neg haz]
  by_cases hbz : b.z = 0
  · rw [if_pos hbz, hb.zero hbz, add_zero]; exact ha
  rw [if_neg hbz]
  dsimp only
  obtain ⟨hZ1, hns1, hP⟩ := ha.some haz
  obtain ⟨hZ2, hns2, hQ⟩ := hb.some hbz
  have hu : (a.x * (b.z * b.z % p) % p = b.x * (a.z * a.z % p) % p) ↔
      (a.x : F) / (a.z : F) ^ 2 = (b.x : F) / (b.z : F) ^ 2 := by
    rw [cast_mod_eq_iff]; push_cast [cast_mulmod]
    rw [div_eq_div_iff (pow_ne_zero _ hZ1) (pow_ne_zero _ hZ2)]
    constructor <;> intro h <;> linear_combination h
  have hs : (a.y * (b.z * (b.z * b.z % p) % p) % p = b.y * (a.z * (a.z * a.z % p) % p) % p) ↔
      (a.y : F) / (a.z : F) ^ 3 = (b.y : F) / (b.z : F) ^ 3 := by
    rw [cast_mod_eq_iff]; push_cast [cast_mulmod]
    rw [div_eq_div_iff (pow_ne_zero _ hZ1) (pow_ne_zero _ hZ2)]
    constructor <;> intro h <;> linear_combination h
  by_cases hU : a.x * (b.z * b.z % p) % p = b.x * (a.z * a.z % p) % p
  · rw [if_pos hU]
    have hx := hu.mp hU
    by_cases hS : a.y * (b.z * (b.z * b.z % p) % p) % p = b.y * (a.z * (a.z * a.z % p) % p) % p
    · rw [if_pos hS]
      have hy := hs.mp hS
      have : P = Q := by
        rw [hP, hQ]; congr 1
      rw [← this]
      exact rep_double ha
    · rw [if_neg hS]
      have hy : ¬ ((a.y : F) / (a.z : F) ^ 3 = (b.y : F) / (b.z : F) ^ 3) := fun h => hS (hs.mpr h)
      have hneg : (a.y : F) / (a.z : F) ^ 3 = W.negY ((b.x : F) / (b.z : F) ^ 2) ((b.y : F) / (b.z : F) ^ 3) :=
        (Y_eq_of_X_eq hns1.1 hns2.1 hx).resolve_left hy
      rw [hP, hQ, Point.add_of_Y_eq hx hneg]
      exact rep_inf
  · rw [if_neg hU]
    have hx : ¬ ((a.x : F) / (a.z : F) ^ 2 = (b.x : F) / (b.z : F) ^ 2) := fun h => hU (hu.mpr h)
    have hH : (b.x : F) * (a.z : F) ^ 2 - (a.x : F) * (b.z : F) ^ 2 ≠ 0 := by
      intro h0
      apply hx
      rw [div_eq_div_iff (pow_ne_zero _ hZ1) (pow_ne_zero _ hZ2)]
      linear_combination -h0
    generalize hHd : (b.x : F) * (a.z : F) ^ 2 - (a.x : F) * (b.z : F) ^ 2 = H at hH
    generalize hRd : (b.y : F) * (a.z : F) ^ 3 - (a.y : F) * (b.z : F) ^ 3 = R
    have hl := jadd_l hZ1 hZ2 hH hHd.symm hRd.symm
    have hX := jadd_x (R := R) hZ1 hZ2 hH hHd.symm
    obtain ⟨h3, e⟩ := add_of_X_ne hns1 hns2 hx _ _ (R / (H * (a.z : F) * (b.z : F))) hl hX.symm
      (jadd_y hZ1 hZ2 hH _).symm
    rw [hP, hQ, e]
    have hnz : ((sub (b.x * (a.z * a.z % p) % p) (a.x * (b.z * b.z % p) % p) * a.z % p * b.z % p : Nat) : F)
        = H * (a.z : F) * (b.z : F) := by
      simp only [cast_sub, cast_mulmod, ← hHd]; ring
    apply rep_some (Nat.mod_lt _ p_pos)
    · rw [hnz]; exact mul_ne_zero (mul_ne_zero hH hZ1) hZ2
    · rw [hnz]; congr 1
      simp only [cast_sub, cast_mulmod, ← hHd, ← hRd]; push_cast; ring
    · rw [hnz]; congr 1
      simp only [cast_sub, cast_mulmod, ← hHd, ← hRd]; push_cast; ring

/-! ### affine points of the model -/

theorem onCurve_nonsingular {x y : Nat} (h : onCurve x y = true) : W.Nonsingular (x : F) (y : F) :=
  (nonsingular_iff _ _).mpr ((onCurve_iff x y).mp h).2.2

open Classical in
/-- total embedding of model points into Mathlib's point group (junk value `0` off the curve) -/
noncomputable def toPointD : Pt → E
  | none => 0
  | some (x, y) => if h : W.Nonsingular (x : F) (y : F) then Point.some _ _ h else 0

@[simp] theorem toPointD_none : toPointD none = 0 := rfl

theorem toPointD_some {x y : Nat} (h : W.Nonsingular (x : F) (y : F)) :
    toPointD (some (x, y)) = Point.some _ _ h := by
  simp only [toPointD, dif_pos h]

theorem toPointD_eq_zero_iff {q : Pt} (hq : Valid q) : toPointD q = 0 ↔ q = none := by
  match q, hq with
  | none, _ => simp
  | some (x, y), hq =>
    rw [toPointD_some (onCurve_nonsingular hq)]
    simp [Point.some_ne_zero]

theorem toPointD_inj {a b : Pt} (ha : Valid a) (hb : Valid b) (h : toPointD a = toPointD b) : a = b := by
  match a, ha, b, hb with
  | none, _, b, hb => exact ((toPointD_eq_zero_iff hb).mp h.symm).symm
  | a, ha, none, _ => exact (toPointD_eq_zero_iff ha).mp h
  | some (x1, y1), ha, some (x2, y2), hb =>
    rw [toPointD_some (onCurve_nonsingular ha), toPointD_some (onCurve_nonsingular hb)] at h
    obtain ⟨hx1, hy1, _⟩ := (onCurve_iff _ _).mp ha
    obtain ⟨hx2, hy2, _⟩ := (onCurve_iff _ _).mp hb
    injection h with hx hy
    rw [(cast_inj hx1 hx2).mp hx, (cast_inj hy1 hy2).mp hy]

theorem rep_ofAffine {q : Pt} (hq : Valid q) : Rep (Jac.ofAffine q) (toPointD q) := by
  match q, hq with
  | none, _ => exact rep_inf
  | some (x, y), hq =>
    rw [toPointD_some (onCurve_nonsingular hq)]
    exact rep_some (j := ⟨x, y, 1⟩) one_lt_p (by simp) _ (by simp) (by simp)

theorem rep_toAffine {j : Jac} {P : E} (h : Rep j P) : Valid j.toAffine ∧ toPointD j.toAffine = P := by
  unfold Jac.toAffine
  by_cases hz : j.z = 0
  · rw [if_pos hz, h.zero hz]; exact ⟨trivial, rfl⟩
  rw [if_neg hz]
  obtain ⟨hZ, hns, rfl⟩ := h.some hz
  dsimp only
  have hx : ((j.x * (inv j.z * inv j.z % p) % p : Nat) : F) = (j.x : F) / (j.z : F) ^ 2 := by
    simp only [cast_mulmod, cast_inv]; field_simp
  have hy : ((j.y * (inv j.z * inv j.z % p * inv j.z % p) % p : Nat) : F) = (j.y : F) / (j.z : F) ^ 3 := by
    simp only [cast_mulmod, cast_inv]; field_simp
  have hns' := hns
  rw [← hx, ← hy] at hns'
  refine ⟨?_, ?_⟩
  · exact (onCurve_iff _ _).mpr ⟨Nat.mod_lt _ p_pos, Nat.mod_lt _ p_pos, (nonsingular_iff _ _).mp hns'⟩
  · rw [toPointD_some hns']
    congr 1

/-- model addition of valid points is valid and is Mathlib's group addition -/
theorem add_spec {a b : Pt} (ha : Valid a) (hb : Valid b) :
    Valid (add a b) ∧ toPointD (add a b) = toPointD a + toPointD b :=
  rep_toAffine (rep_add (rep_ofAffine ha) (rep_ofAffine hb))

/-! ### scalar multiplication -/

theorem mulLoop_rep (k : Nat) {pt : Jac} {Q : E} (hQ : Rep pt Q) (i : Nat) {acc : Jac} {P : E}
    (hP : Rep acc P) : Rep (mulLoop k pt i acc) (2 ^ i • P + (k % 2 ^ i) • Q) := by
  induction i generalizing acc P with
  | zero => simpa [mulLoop, Nat.mod_one] using hP
  | succ i ih =>
    rw [mulLoop]
    have hbit : k >>> i % 2 = k / 2 ^ i % 2 := by rw [Nat.shiftRight_eq_div_pow]
    have hmod : k % 2 ^ (i + 1) = k % 2 ^ i + 2 ^ i * (k / 2 ^ i % 2) := Nat.mod_pow_succ
    by_cases hb : k >>> i % 2 = 1
    · rw [if_pos hb]
      have := ih (rep_add (rep_double hP) hQ)
      rw [hb] at hbit
      rw [hmod, ← hbit]
      convert this using 1
      rw [pow_succ, mul_smul, two_smul, mul_one, add_smul, nsmul_add (P + P) Q]
      abel
    · rw [if_neg hb]
      have := ih (rep_double hP)
      have h0 : k / 2 ^ i % 2 = 0 := by omega
      rw [hmod, h0]
      convert this using 1
      rw [pow_succ, mul_smul, two_smul, mul_zero, add_zero]

theorem mul_rep {k : Nat} (hk : k < 2 ^ 256) {pt : Jac} {Q : E} (hQ : Rep pt Q) :
    Rep (Jac.mul k pt) (k • Q) := by
  rw [Jac.mul_eq_mulLoop]
  have := mulLoop_rep k hQ 256 rep_inf
  rwa [nsmul_zero, zero_add, Nat.mod_eq_of_lt hk] at this

/-- the generator as a model point -/
def Gpt : Pt := some (gx, gy)

theorem G_valid : Valid Gpt := by
  show onCurve gx gy = true
  decide +kernel

/-- the generator in Mathlib's point group -/
noncomputable def G : E := toPointD Gpt

theorem n_lt : n < 2 ^ 256 := by decide +kernel
theorem one_lt_n : 1 < n := by decide +kernel

theorem G_ne_zero : G ≠ 0 := by
  intro h
  have := (toPointD_eq_zero_iff G_valid).mp h
  cases this

/-- `n·G = ∞`, by running the model's own double-and-add loop in the kernel -/
theorem n_smul_G : n • G = 0 := by
  have h := mul_rep n_lt (rep_ofAffine G_valid)
  refine h.zero ?_
  rw [Jac.mul_eq_mulLoop]
  decide +kernel

theorem addOrderOf_G : addOrderOf G = n :=
  haveI : Fact n.Prime := ⟨n_prime⟩
  addOrderOf_eq_prime n_smul_G G_ne_zero

theorem smul_G_eq_zero_iff (k : Nat) : k • G = 0 ↔ n ∣ k := by
  rw [← addOrderOf_G, addOrderOf_dvd_iff_nsmul_eq_zero]

theorem mod_n_smul_G (k : Nat) : (k % n) • G = k • G := by
  rw [← addOrderOf_G, mod_addOrderOf_nsmul]

/-- `mulGen k` is a valid point and equals `k • G` in Mathlib's group -/
theorem mulGen_spec (k : Nat) : Valid (mulGen k) ∧ toPointD (mulGen k) = k • G := by
  unfold mulGen
  have hk : k % n < 2 ^ 256 := Nat.lt_trans (Nat.mod_lt _ (by have := one_lt_n; omega)) n_lt
  have := rep_toAffine (mul_rep hk (rep_ofAffine G_valid))
  rwa [show toPointD Gpt = G from rfl, mod_n_smul_G] at this

end BtcHd.Real.Secp
