/-
Pratt (Lucas) primality certificates checked by kernel evaluation of the model's own
square-and-multiply loop (`pmLoop`, proved equal to `b ^ e % m` in `Loops.lean`).
-/
import BtcHd.Lemmas.Secp.Loops
import Mathlib.NumberTheory.LucasPrimality

namespace BtcHd.Real.Secp.Pratt
open BtcHd.Real.Secp

/-- `∏ qᵢ ^ eᵢ` -/
def prodPow : List (Nat × Nat) → Nat
  | [] => 1
  | f :: fs => f.1 ^ f.2 * prodPow fs

/-- all bases of a factor list are prime -/
def AllPrime : List (Nat × Nat) → Prop
  | [] => True
  | f :: fs => f.1.Prime ∧ AllPrime fs

/-- the executable part of a Pratt certificate: `a^(p-1) = 1`, `a^((p-1)/q) ≠ 1` for each listed `q`,
and the listed prime powers multiply to `p - 1` -/
def check (p a : Nat) (fs : List (Nat × Nat)) : Bool :=
  decide (1 < p) && decide (p < 2 ^ 256) && prodPow fs == p - 1 &&
    pmLoop p 256 1 (a % p) (p - 1) == 1 &&
    fs.all fun f => pmLoop p 256 1 (a % p) ((p - 1) / f.1) != 1

theorem AllPrime.mem {fs : List (Nat × Nat)} (h : AllPrime fs) {f : Nat × Nat} (hf : f ∈ fs) :
    f.1.Prime := by
  induction fs with
  | nil => cases hf
  | cons g fs ih =>
    rcases List.mem_cons.mp hf with rfl | hf
    · exact h.1
    · exact ih h.2 hf

theorem prime_dvd_prodPow {q : Nat} (hq : q.Prime) {fs : List (Nat × Nat)} (h : q ∣ prodPow fs) :
    ∃ f ∈ fs, q ∣ f.1 := by
  induction fs with
  | nil => exact absurd (Nat.le_of_dvd Nat.one_pos h) (by have := hq.two_le; omega)
  | cons g fs ih =>
    rw [prodPow] at h
    rcases (Nat.Prime.dvd_mul hq).mp h with h | h
    · exact ⟨g, List.mem_cons_self, hq.dvd_of_dvd_pow h⟩
    · obtain ⟨f, hf, hd⟩ := ih h
      exact ⟨f, List.mem_cons_of_mem _ hf, hd⟩

theorem pmLoop_pow (p a e : Nat) (hp : 1 < p) (he : e < 2 ^ 256) :
    pmLoop p 256 1 (a % p) e = a ^ e % p := by
  rw [← Nat.mod_eq_of_lt (pmLoop_lt p 256 1 (a % p) e hp), pmLoop_spec p 256 1 (a % p) e he,
    Nat.one_mul, ← Nat.pow_mod]

theorem zmod_pow_eq_one_iff (p a e : Nat) (hp : 1 < p) :
    ((a : ZMod p) ^ e = 1) ↔ a ^ e % p = 1 := by
  rw [← Nat.cast_pow, ← Nat.cast_one, ZMod.natCast_eq_natCast_iff', Nat.mod_eq_of_lt hp]

/-- a Pratt certificate whose listed factors are prime proves primality -/
theorem pratt (p a : Nat) (fs : List (Nat × Nat)) (hfs : AllPrime fs) (hc : check p a fs = true) :
    p.Prime := by
  simp only [check, Bool.and_eq_true, decide_eq_true_eq, beq_iff_eq, List.all_eq_true, bne_iff_ne] at hc
  obtain ⟨⟨⟨⟨hp1, hp2⟩, hprod⟩, h1⟩, hall⟩ := hc
  have hlt : ∀ e, e ≤ p - 1 → e < 2 ^ 256 := fun e he => by omega
  apply lucas_primality p (a : ZMod p)
  · rw [zmod_pow_eq_one_iff p a _ hp1, ← pmLoop_pow p a _ hp1 (hlt _ (Nat.le_refl _))]
    exact h1
  · intro q hq hd
    rw [Ne, zmod_pow_eq_one_iff p a _ hp1, ← pmLoop_pow p a _ hp1 (hlt _ (Nat.div_le_self _ _))]
    rw [← hprod] at hd
    obtain ⟨f, hf, hqf⟩ := prime_dvd_prodPow hq hd
    have : q = f.1 := (Nat.prime_dvd_prime_iff_eq hq (hfs.mem hf)).mp hqf
    rw [this]
    exact hall f hf

end BtcHd.Real.Secp.Pratt
