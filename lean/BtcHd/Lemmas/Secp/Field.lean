/-
The model's `Nat` arithmetic modulo `p` read in the field `F = ZMod p`:
casts of `* % p`, `sub`, `inv` (Fermat inverse), and the square root `a ^ ((p+1)/4)`.
-/
import BtcHd.Lemmas.Secp.Primes
import Mathlib.FieldTheory.Finite.Basic

namespace BtcHd.Real.Secp

instance fact_p_prime : Fact (Nat.Prime p) := ⟨p_prime⟩

/-- the base field of secp256k1 -/
abbrev F : Type := ZMod p

theorem p_pos : 0 < p := by decide +kernel
theorem one_lt_p : 1 < p := by decide +kernel
theorem p_lt : p < 2 ^ 256 := by decide +kernel
theorem p_odd : p % 2 = 1 := by decide +kernel
theorem p_mod_four : p % 4 = 3 := by decide +kernel

theorem cast_mod (a : Nat) : ((a % p : Nat) : F) = (a : F) := ZMod.natCast_mod a p

theorem cast_mulmod (a b : Nat) : ((a * b % p : Nat) : F) = (a : F) * (b : F) := by
  rw [cast_mod, Nat.cast_mul]

theorem cast_sub (a b : Nat) : ((sub a b : Nat) : F) = (a : F) - (b : F) := by
  unfold sub
  have h : b % p ≤ a + p := by
    have := Nat.mod_lt b p_pos; omega
  rw [cast_mod, Nat.cast_sub h, Nat.cast_add, cast_mod, ZMod.natCast_self]
  ring

theorem sub_lt (a b : Nat) : sub a b < p := Nat.mod_lt _ p_pos

/-- for reduced naturals, equality is equality in `F` -/
theorem cast_inj {a b : Nat} (ha : a < p) (hb : b < p) : ((a : F) = (b : F)) ↔ a = b := by
  rw [ZMod.natCast_eq_natCast_iff', Nat.mod_eq_of_lt ha, Nat.mod_eq_of_lt hb]

theorem cast_mod_eq_iff (a b : Nat) : (a % p = b % p) ↔ ((a : F) = (b : F)) :=
  (ZMod.natCast_eq_natCast_iff' a b p).symm

theorem cast_eq_zero {a : Nat} (ha : a < p) : ((a : F) = 0) ↔ a = 0 := by
  have := cast_inj ha p_pos
  simpa using this

theorem cast_powMod (a e : Nat) (he : e < 2 ^ 256) : ((powMod a e p : Nat) : F) = (a : F) ^ e := by
  rw [powMod_eq a e p he one_lt_p, cast_mod, Nat.cast_pow]

/-- `inv` is the field inverse (Fermat) -/
theorem cast_inv (a : Nat) : ((inv a : Nat) : F) = (a : F)⁻¹ := by
  unfold inv
  rw [cast_powMod a (p - 2) (by have := p_lt; omega)]
  by_cases h : (a : F) = 0
  · rw [h, inv_zero, zero_pow (by decide +kernel)]
  · have h1 : (a : F) ^ (p - 1) = 1 := ZMod.pow_card_sub_one_eq_one h
    have h2 : (a : F) ^ (p - 2) * (a : F) = 1 := by
      rw [← pow_succ]
      have : p - 2 + 1 = p - 1 := by have := one_lt_p; omega
      rw [this, h1]
    exact eq_inv_of_mul_eq_one_left h2

theorem inv_lt (a : Nat) : inv a < p := powMod_lt _ _ _ one_lt_p

/-- the candidate square root squares to `a` whenever `a` is a square -/
theorem sqrt_pow_sq (y : F) : ((y ^ 2) ^ ((p + 1) / 4)) ^ 2 = y ^ 2 := by
  by_cases h : y = 0
  · subst h
    rw [zero_pow (by norm_num), zero_pow (by decide +kernel), zero_pow (by norm_num)]
  · have h1 : y ^ (p - 1) = 1 := ZMod.pow_card_sub_one_eq_one h
    rw [← pow_mul, ← pow_mul]
    have : 2 * ((p + 1) / 4 * 2) = (p - 1) + 2 := by decide +kernel
    rw [this, pow_add, h1, one_mul]

theorem two_ne_zero_F : (2 : F) ≠ 0 := by
  have : ((2 : Nat) : F) ≠ 0 := by
    rw [Ne, cast_eq_zero (by decide +kernel)]; decide
  exact_mod_cast this

theorem three_ne_zero_F : (3 : F) ≠ 0 := by
  have : ((3 : Nat) : F) ≠ 0 := by
    rw [Ne, cast_eq_zero (by decide +kernel)]; decide
  exact_mod_cast this

/-- a model point is valid when it is infinity or satisfies `onCurve` -/
def Valid : Pt → Prop
  | none => True
  | some (x, y) => onCurve x y = true

theorem onCurve_iff (x y : Nat) :
    onCurve x y = true ↔ x < p ∧ y < p ∧ (y : F) ^ 2 = (x : F) ^ 3 + 7 := by
  unfold onCurve
  simp only [Bool.and_eq_true, decide_eq_true_eq, and_assoc]
  refine and_congr_right fun _ => and_congr_right fun _ => ?_
  rw [cast_mod_eq_iff]; push_cast [cast_mulmod]
  constructor <;> intro h <;> linear_combination h


end BtcHd.Real.Secp
