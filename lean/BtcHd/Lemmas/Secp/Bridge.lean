/-
Bridge between the curve the driver actually runs (`rawCurve`/`rawPrims` over raw
`Option (Nat × Nat)`, defined in `Prims/Bundle.lean` and used verbatim by `Driver/Main.lean`) and the carrier of valid
points (`vCurve`/`vPrims`) for which `CurveLaws`/`GroupLaws` are proved: the BIP32 layer of the model
computes the same bytes with either, because it only ever creates points with `parse`/`mulGen`/`add`.
-/
import BtcHd.Lemmas.Secp.Carrier
import BtcHd.Model.Bip32
import BtcHd.Prims.Bundle

namespace BtcHd.Real.Secp
open BtcHd Bip32 Keys

variable (f : List Char → List Char)

theorem bridge_prvKey (nd : Node) : prvKey (vPrims f) nd = prvKey (rawPrims f) nd := rfl

theorem bridge_parse (bs : Bytes) :
    ((vPrims f).curve.parse bs).map Subtype.val = (rawPrims f).curve.parse bs :=
  vCurve_parse_val bs

theorem bridge_pubKey (nd : Node) :
    (pubKey (vPrims f) nd).map Subtype.val = pubKey (rawPrims f) nd := by
  unfold pubKey
  by_cases h : nd.isPrv = true
  · rw [if_pos h, if_pos h, bridge_prvKey, Option.map_map]; rfl
  · rw [if_neg h, if_neg h]; exact bridge_parse f nd.key

theorem bridge_fingerprint (nd : Node) : fingerprint (vPrims f) nd = fingerprint (rawPrims f) nd := by
  unfold fingerprint
  rw [← bridge_pubKey, Option.map_map]; rfl

theorem bridge_masterKey (seed : Bytes) (t : Bool) :
    masterKey (vPrims f) seed t = masterKey (rawPrims f) seed t := rfl

theorem bridge_ckdPrv (nd : Node) (i : Nat) : ckdPrv (vPrims f) nd i = ckdPrv (rawPrims f) nd i := rfl

theorem bridge_ckdPub (nd : Node) (i : Nat) : ckdPub (vPrims f) nd i = ckdPub (rawPrims f) nd i := by
  unfold ckdPub
  have hp := bridge_parse f nd.key
  cases hv : (vPrims f).curve.parse nd.key with
  | none =>
    rw [hv] at hp
    rw [← hp]; rfl
  | some K =>
    rw [hv] at hp
    rw [← hp]; rfl

theorem bridge_ckd (nd : Node) (i : Nat) : ckd (vPrims f) nd i = ckd (rawPrims f) nd i := by
  unfold ckd; rw [bridge_ckdPrv, bridge_ckdPub]

theorem bridge_derivePath (nd : Node) (is : List Nat) :
    derivePath (vPrims f) nd is = derivePath (rawPrims f) nd is := by
  induction is generalizing nd with
  | nil => rfl
  | cons i is ih =>
    unfold derivePath
    rw [bridge_ckd]
    cases ckd (rawPrims f) nd i with
    | none => rfl
    | some c => exact ih c

theorem bridge_generateChildren (nd : Node) (a b : Nat) :
    generateChildren (vPrims f) nd a b = generateChildren (rawPrims f) nd a b := by
  unfold generateChildren
  congr 1
  funext i
  exact bridge_ckd f nd i

theorem bridge_serializePublic (nd : Node) (v : Option Nat) :
    serializePublic (vPrims f) nd v = serializePublic (rawPrims f) nd v := by
  unfold serializePublic
  rw [← bridge_pubKey]
  cases pubKey (vPrims f) nd <;> rfl

theorem bridge_serializePrivate (nd : Node) (v : Option Nat) :
    serializePrivate (vPrims f) nd v = serializePrivate (rawPrims f) nd v := rfl

end BtcHd.Real.Secp
