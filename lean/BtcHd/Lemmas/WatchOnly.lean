/-
Helper lemmas for C14 (watch-only wallets).
-/
import BtcHd.Lemmas.Bip32
import BtcHd.Lemmas.Path
import BtcHd.Lemmas.XKey
import BtcHd.Props.C01
import BtcHd.Props.C02
import BtcHd.Props.C07
import BtcHd.Props.C18

namespace BtcHd.WatchOnly
open BtcHd Bip32 Keys Wallet

variable {Pt : Type}

/-! ### what `ckd` reads of its argument -/

/-- the child `c` of some node, with the inherited metadata (class, depth, network, path) taken
from `a` instead -/
def reMeta (a : Node) (i : Nat) (c : Node) : Node :=
  { c with isPrv := a.isPrv, depth := a.depth + 1, testnet := a.testnet, path := a.path ++ [i] }

theorem mkChild_reMeta (a b : Node) (key chain : Bytes) (i : Nat) (fp : Bytes) :
    mkChild a key chain i fp = reMeta a i (mkChild b key chain i fp) := rfl

theorem prvKey_congr (P : Prims Pt) {a b : Node} (hk : a.key = b.key) : prvKey P a = prvKey P b := by
  unfold prvKey; rw [hk]

theorem ckdPub_congr (P : Prims Pt) {a b : Node} (hk : a.key = b.key)
    (hc : a.chainCode = b.chainCode) (i : Nat) :
    ckdPub P a i = (ckdPub P b i).map (reMeta a i) := by
  unfold ckdPub
  rw [hk, hc]
  simp only [mkChild_reMeta a b, Option.map_bind, apply_ite (Option.map (reMeta a i)),
    Option.map_none, Option.map_some, Function.comp_def]

theorem ckdPrv_congr (P : Prims Pt) {a b : Node} (hk : a.key = b.key)
    (hc : a.chainCode = b.chainCode) (i : Nat) :
    ckdPrv P a i = (ckdPrv P b i).map (reMeta a i) := by
  unfold ckdPrv
  rw [prvKey_congr P hk, hc]
  simp only [mkChild_reMeta a b, Option.map_bind, apply_ite (Option.map (reMeta a i)),
    Option.map_none, Option.map_map, Function.comp_def]

/-- **`ckd` reads only the class, key and chain code of its argument** (the rest of the child's
fields are copied metadata): deriving from `a` is deriving from `b` and re-labelling -/
theorem ckd_congr (P : Prims Pt) {a b : Node} (hp : a.isPrv = b.isPrv) (hk : a.key = b.key)
    (hc : a.chainCode = b.chainCode) (i : Nat) :
    ckd P a i = (ckd P b i).map (reMeta a i) := by
  unfold ckd
  rw [hp]
  split
  · exact ckdPrv_congr P hk hc i
  · exact ckdPub_congr P hk hc i

theorem ckd_self_reMeta (P : Prims Pt) {b c : Node} {i : Nat} (h : ckd P b i = some c) :
    c = reMeta b i c := by
  have := ckd_congr P (a := b) (b := b) rfl rfl rfl i
  rw [h] at this
  exact Option.some.inj this

/-- the fields of a node that BIP32 serialises (besides the version) plus its class -/
structure View where
  isPrv : Bool
  key : Bytes
  chainCode : Bytes
  depth : Nat
  index : Nat
  parentFingerprint : Bytes
deriving DecidableEq

def view (nd : Node) : View :=
  ⟨nd.isPrv, nd.key, nd.chainCode, nd.depth, nd.index, parentFingerprint nd⟩

theorem view_eq_iff {a b : Node} : view a = view b ↔
    a.isPrv = b.isPrv ∧ a.key = b.key ∧ a.chainCode = b.chainCode ∧ a.depth = b.depth ∧
      a.index = b.index ∧ parentFingerprint a = parentFingerprint b := by
  unfold view
  rw [View.mk.injEq]

theorem view_reMeta {a b : Node} (hp : a.isPrv = b.isPrv) (hd : a.depth = b.depth) (i : Nat)
    (c : Node) : view (reMeta a i c) = view (reMeta b i c) := by
  unfold view reMeta parentFingerprint
  simp only [hp, hd]

/-- one derivation step preserves the view -/
theorem ckd_view_congr (P : Prims Pt) {a b : Node} (h : view a = view b) (i : Nat) :
    (ckd P a i).map view = (ckd P b i).map view := by
  obtain ⟨hp, hk, hc, hd, _, _⟩ := view_eq_iff.mp h
  rw [ckd_congr P hp hk hc i]
  cases hb : ckd P b i with
  | none => rfl
  | some c =>
    simp only [Option.map_some]
    rw [view_reMeta hp hd, ← ckd_self_reMeta P hb]

/-- **derivation along any path preserves the view**: two nodes with the same class, key, chain
code, depth, child number and parent fingerprint have descendants with the same -/
theorem derivePath_view_congr (P : Prims Pt) (is : List Nat) {a b : Node} (h : view a = view b) :
    (derivePath P a is).map view = (derivePath P b is).map view := by
  induction is generalizing a b with
  | nil => simp only [derivePath, Option.map_some, h]
  | cons i is ih =>
    rw [derivePath_cons, derivePath_cons]
    have hstep := ckd_view_congr P h i
    cases ha : ckd P a i with
    | none =>
      rw [ha] at hstep
      cases hb : ckd P b i with
      | none => rfl
      | some cb => rw [hb] at hstep; cases hstep
    | some ca =>
      rw [ha] at hstep
      cases hb : ckd P b i with
      | none => rw [hb] at hstep; cases hstep
      | some cb =>
        rw [hb] at hstep
        simp only [Option.map_some, Option.some.injEq] at hstep
        simp only [Option.bind_some]
        exact ih hstep

/-! ### everything public is a function of the public key -/

theorem pubKey_congr (P : Prims Pt) {a b : Node} (hp : a.isPrv = b.isPrv) (hk : a.key = b.key) :
    pubKey P a = pubKey P b := by
  unfold pubKey
  rw [hp, prvKey_congr P hk, hk]

theorem pubKey_of_view (P : Prims Pt) {a b : Node} (h : view a = view b) :
    pubKey P a = pubKey P b :=
  pubKey_congr P (view_eq_iff.mp h).1 (view_eq_iff.mp h).2.1

theorem fingerprint_of_pubKey (P : Prims Pt) {a b : Node} (h : pubKey P a = pubKey P b) :
    fingerprint P a = fingerprint P b := by
  unfold fingerprint; rw [h]

theorem p2pkh_of_pubKey (P : Prims Pt) (t : Bool) {a b : Node} (h : pubKey P a = pubKey P b) :
    p2pkhAddress P t a = p2pkhAddress P t b := by
  unfold p2pkhAddress; rw [h]

theorem p2wpkh_of_pubKey (P : Prims Pt) (t : Bool) {a b : Node} (h : pubKey P a = pubKey P b) :
    p2wpkhAddress P t a = p2wpkhAddress P t b := by
  unfold p2wpkhAddress; rw [h]

theorem p2shP2wpkh_of_pubKey (P : Prims Pt) (t : Bool) {a b : Node} (h : pubKey P a = pubKey P b) :
    p2shP2wpkhAddress P t a = p2shP2wpkhAddress P t b := by
  unfold p2shP2wpkhAddress; rw [h]

theorem p2wsh_of_pubKey (P : Prims Pt) (t : Bool) {a b : Node} (h : pubKey P a = pubKey P b) :
    p2wshAddress P t a = p2wshAddress P t b := by
  unfold p2wshAddress; rw [h]

theorem p2shP2wsh_of_pubKey (P : Prims Pt) (t : Bool) {a b : Node} (h : pubKey P a = pubKey P b) :
    p2shP2wshAddress P t a = p2shP2wshAddress P t b := by
  unfold p2shP2wshAddress; rw [h]

/-! ### neutering -/

theorem neuter_eq_some_iff (P : Prims Pt) (c c' : Node) :
    C02.neuter P c = some c' ↔ ∃ k, prvKey P c = some k ∧
      c' = { c with isPrv := false, key := P.curve.sec true (P.curve.mulGen k) } := by
  unfold C02.neuter
  rw [Option.map_eq_some_iff]
  constructor <;> rintro ⟨k, hk, h⟩ <;> exact ⟨k, hk, h.symm⟩

theorem mulGen_notInf (P : Prims Pt) (L : C02.GroupLaws P) {k : Nat} (h1 : 1 ≤ k)
    (h2 : k < P.curve.n) : P.curve.isInf (P.curve.mulGen k) = false := by
  cases h : P.curve.isInf (P.curve.mulGen k)
  · rfl
  · have hd := (L.mulGen_inf k).mp h
    have := Nat.le_of_dvd (by omega) hd
    omega

/-- the two definitions of the public view (`C02.neuter` through the scalar, `Bip32.neuter`
through `public_key`) coincide on private nodes -/
theorem neuter_eq_C02 (P : Prims Pt) {nd : Node} (hp : nd.isPrv = true) :
    Bip32.neuter P nd = C02.neuter P nd := by
  unfold Bip32.neuter C02.neuter pubKey
  rw [if_pos hp, Option.map_map]
  rfl

/-- the neutered node carries the same public key -/
theorem pubKey_neuter (P : Prims Pt) (L : C02.GroupLaws P) {c c' : Node} (hp : c.isPrv = true)
    (h : C02.neuter P c = some c') :
    pubKey P c' = pubKey P c ∧ ∃ k, prvKey P c = some k ∧ pubKey P c = some (P.curve.mulGen k) := by
  obtain ⟨k, hk, rfl⟩ := (neuter_eq_some_iff P c c').mp h
  obtain ⟨h1, h2⟩ := prvKey_range P c k hk
  have hc : pubKey P c = some (P.curve.mulGen k) := by
    unfold pubKey; rw [if_pos hp, hk]; rfl
  refine ⟨?_, k, hk, hc⟩
  rw [hc]
  unfold pubKey
  simp only [Bool.false_eq_true, if_false]
  exact L.parse_sec _ (mulGen_notInf P L h1 h2)

/-! ### private derivation keeps a valid scalar -/

theorem ckdPrv_index_lt (P : Prims Pt) {nd c : Node} {i : Nat} (h : ckdPrv P nd i = some c) :
    i < 2 ^ 32 := by
  by_contra hi
  rw [C01.index_overflow_refused P nd i (by omega)] at h
  cases h

theorem ckd_prv (P : Prims Pt) {nd : Node} (hp : nd.isPrv = true) (i : Nat) :
    ckd P nd i = ckdPrv P nd i := by
  unfold ckd; rw [hp]; rfl

theorem ckd_pub (P : Prims Pt) {nd : Node} (hp : nd.isPrv = false) (i : Nat) :
    ckd P nd i = ckdPub P nd i := by
  unfold ckd; rw [hp]; rfl

/-- every node derived from a private node with a valid scalar is private with a valid scalar -/
theorem derivePath_prvKey (P : Prims Pt) (hn : P.curve.n ≤ 2 ^ 256) (is : List Nat) {nd c : Node}
    {k : Nat} (hp : nd.isPrv = true) (hk : prvKey P nd = some k)
    (h : derivePath P nd is = some c) : c.isPrv = true ∧ ∃ kc, prvKey P c = some kc := by
  induction is generalizing nd k with
  | nil => cases h; exact ⟨hp, k, hk⟩
  | cons i is ih =>
    rw [derivePath_cons, ckd_prv P hp] at h
    cases hc : ckdPrv P nd i with
    | none => rw [hc] at h; cases h
    | some c1 =>
      rw [hc] at h
      obtain ⟨_, _, hkc, hpc, _⟩ :=
        C01.child_wellformed P nd c1 k i hk (ckdPrv_index_lt P hc) hn hc
      exact ih (by rw [hpc, hp]) hkc h

/-- the `IL = 0` exclusion, only for the steps actually taken along a path from `nd` -/
def NoZeroIL (P : Prims Pt) : Node → List Nat → Prop
  | _, [] => True
  | nd, i :: is => (∀ k, prvKey P nd = some k → C02.IL P nd k i ≠ 0) ∧
      ∀ c, ckdPrv P nd i = some c → NoZeroIL P c is

theorem NoZeroIL_of_global (P : Prims Pt) (is : List Nat)
    (hIL : ∀ (nd' : Node) (k' i : Nat), prvKey P nd' = some k' → i ∈ is → C02.IL P nd' k' i ≠ 0)
    (nd : Node) : NoZeroIL P nd is := by
  induction is generalizing nd with
  | nil => trivial
  | cons i is ih =>
    exact ⟨fun k hk => hIL nd k i hk (List.mem_cons_self ..),
      fun c _ => ih (fun nd' k' j hk' hj => hIL nd' k' j hk' (List.mem_cons_of_mem _ hj)) c⟩

/-- `C02.derivePub_neuter` with the side condition restricted to the nodes on the path -/
theorem derivePub_neuter_along (P : Prims Pt) (L : C02.GroupLaws P) (is : List Nat)
    (his : ∀ i ∈ is, i < 2 ^ 31) (nd : Node) (k : Nat) (hp : nd.isPrv = true)
    (hk : prvKey P nd = some k) (hIL : NoZeroIL P nd is) :
    (derivePath P nd is).bind (C02.neuter P) = (C02.neuter P nd).bind (derivePath P · is) := by
  induction is generalizing nd k with
  | nil =>
    unfold derivePath
    simp only [Option.bind_some]
    cases C02.neuter P nd <;> rfl
  | cons i is ih =>
    have hi : i < 2 ^ 31 := his i (List.mem_cons_self ..)
    have hstep := C02.ckdPub_neuter P L nd k i hk hi (hIL.1 k hk)
    obtain ⟨nn, hneut⟩ : ∃ nn, C02.neuter P nd = some nn := by
      unfold C02.neuter; rw [hk]; exact ⟨_, rfl⟩
    have hnnp : nn.isPrv = false := by
      obtain ⟨_, _, rfl⟩ := (neuter_eq_some_iff P nd nn).mp hneut
      rfl
    rw [hneut] at hstep ⊢
    simp only [Option.bind_some] at hstep ⊢
    rw [derivePath_cons, derivePath_cons, ckd_prv P hp, ckd_pub P hnnp, ← hstep]
    cases hc : ckdPrv P nd i with
    | none => rfl
    | some c =>
      simp only [Option.bind_some]
      obtain ⟨_, _, hkc, hpc, _⟩ :=
        C01.child_wellformed P nd c k i hk (ckdPrv_index_lt P hc) L.n_le hc
      have := ih (fun j hj => his j (List.mem_cons_of_mem _ hj)) c _ (by rw [hpc, hp]) hkc
        (hIL.2 c hc)
      rw [this]

/-! ### public nodes stay public and refuse hardened steps -/

theorem derivePath_public (P : Prims Pt) {m c : Node} {is : List Nat}
    (h : derivePath P m is = some c) (hm : m.isPrv = false) : c.isPrv = false := by
  rw [(derivePath_fields h).1, hm]

theorem serializePrivate_public (P : Prims Pt) {c : Node} (hc : c.isPrv = false) (v : Option Nat) :
    serializePrivate P c v = none := by
  unfold serializePrivate
  rw [hc]; rfl

theorem extendedPrivateKey_public (P : Prims Pt) {c : Node} (hc : c.isPrv = false)
    (v : Option Nat) : extendedPrivateKey P c v = none := by
  unfold extendedPrivateKey
  rw [serializePrivate_public P hc]; rfl

/-- a well-formed public node holds no scalar: `private_key` on its 33 key bytes is refused -/
theorem prvKey_public_wf (P : Prims Pt) (hC : CurveLaws P.curve) {c : Node} (hwf : c.WF P)
    (hc : c.isPrv = false) : prvKey P c = none := by
  obtain ⟨hl, pt, hpt⟩ := hwf.key_pub hc
  have hs := hC.sec_parse _ _ hl hpt
  have hpre := hC.sec_prefix pt (hC.parse_notInf _ _ hpt)
  rw [hs] at hpre
  rw [prvKey_def, if_neg]
  · exact mkPriv_eq_none.mpr (Or.inl (by omega))
  · rintro ⟨_, h0⟩
    rw [h0] at hpre
    rcases hpre with h | h <;> cases h

theorem watchOnly_iff (w : Wallet) : w.watchOnly = true ↔ w.master.isPrv = false := by
  unfold Wallet.watchOnly
  cases w.master.isPrv <;> simp

/-! ### what a watch-only wallet prints -/

theorem nodeExtendedPrivateKey_public (P : Prims Pt) (w : Wallet) {nd : Node}
    (hnd : nd.isPrv = false) : nodeExtendedPrivateKey P w nd = none := by
  unfold nodeExtendedPrivateKey
  rw [hnd]; rfl

theorem nodeExtendedKeys_wo (P : Prims Pt) {w : Wallet} (hw : w.master.isPrv = false) (nd : Node) :
    nodeExtendedKeys P w nd = (nodeExtendedPublicKey P w nd).map fun pub =>
      .obj [("path".toList, .str (nodeRepr nd)), ("pub".toList, .str pub),
            ("prv".toList, .null)] := by
  unfold nodeExtendedKeys
  rw [(watchOnly_iff w).mpr hw]
  rfl

theorem groupRow_wo (P : Prims Pt) {w : Wallet} (hw : w.master.isPrv = false)
    (addr : Node → Option (List Char)) (nd : Node) :
    groupRow P w addr nd = (addr nd).bind fun a => (pubKey P nd).map fun K =>
      .arr [.str (nodeRepr nd), .str a, .str (toHex (P.curve.sec true K)), .null] := by
  unfold groupRow
  rw [(watchOnly_iff w).mpr hw]
  cases addr nd with
  | none => rfl
  | some a => cases pubKey P nd <;> rfl

theorem bip85Data_wo (P : Prims Pt) {w : Wallet} (hw : w.master.isPrv = false) :
    bip85Data P w = none := by
  unfold bip85Data
  rw [(watchOnly_iff w).mpr hw]
  rfl

theorem bipAccount_wo (P : Prims Pt) {w : Wallet} (hw : w.master.isPrv = false) (purpose : Nat)
    (addr : Node → Option (List Char)) (account a b : Nat) :
    bipAccount P w purpose addr account a b = none := by
  unfold bipAccount
  have : derivePath P w.master [purpose + hardened, (if w.testnet then 1 + hardened else hardened),
      account + hardened] = none :=
    C02.derivePub_hardened P _ ⟨purpose + hardened, List.mem_cons_self .., by rw [hardened_eq]; omega⟩
      _ hw
  simp only [this, Option.bind_none]

theorem generate_wo (P : Prims Pt) {w : Wallet} (hw : w.master.isPrv = false) (account a b : Nat) :
    generate P w account a b = none := by
  unfold generate
  rw [bipAccount_wo P hw]; rfl

theorem byPath_wo_hardened (P : Prims Pt) {w : Wallet} (hw : w.master.isPrv = false)
    (s : List Char) (h : ∀ p, Path.parse s = some p → ∃ i ∈ p.levels, 2 ^ 31 ≤ i) :
    byPath P w s = none := by
  unfold byPath
  cases hp : Path.parse s with
  | none => rfl
  | some p => exact C02.derivePub_hardened P _ (h p hp) _ hw

theorem wasabi_path : Path.parse "m/84'/0'/0'".toList = some ⟨[84 + 2 ^ 31, 2 ^ 31, 2 ^ 31], true⟩ := by
  decide +kernel

theorem wasabi_wo (P : Prims Pt) {w : Wallet} (hw : w.master.isPrv = false) : wasabi P w = none := by
  unfold wasabi
  rw [byPath_wo_hardened P hw]
  · rfl
  · intro p hp
    rw [wasabi_path] at hp
    cases hp
    exact ⟨2 ^ 31, by simp, Nat.le_refl _⟩

/-- a path string whose first five components contain one ending in a hardened marker parses,
if at all, to a path with a hardened level -/
theorem parse_marked_hardened {s root c d : List Char} {comps : List (List Char)} {m : Char}
    (hs : Text.splitOn '/' s = root :: comps) (hc : c ∈ comps.take 5) (hcd : c = d ++ [m])
    (hm : m = '\'' ∨ m = 'h') {p : Path.Path} (hp : Path.parse s = some p) :
    ∃ i ∈ p.levels, 2 ^ 31 ≤ i := by
  rw [Path.parse_of_splitOn hs] at hp
  rcases Path.parseParts_some_mem hp hc with h0 | ⟨v, hv, hcv⟩
  · rw [hcd] at h0; simp at h0
  · refine ⟨v, hv, ?_⟩
    rw [hcd, Path.convertHardened_marked hm] at hcv
    cases hd : Text.parseDec d with
    | none => rw [hd] at hcv; cases hcv
    | some num =>
      rw [hd] at hcv
      simp only [Option.bind_some] at hcv
      split at hcv
      · cases hcv; omega
      · cases hcv

/-! ### the six public versions -/

/-- xpub, ypub, zpub, tpub, upub, vpub -/
def publicVersions : List Nat :=
  [0x0488B21E, 0x049D7CB2, 0x04B24746, 0x043587CF, 0x044A5262, 0x045F1CF6]

/-- tpub, upub, vpub -/
def testnetPublicVersions : List Nat := [0x043587CF, 0x044A5262, 0x045F1CF6]

theorem parse_publicVersions : ∀ v ∈ publicVersions, ∃ ver, Path.Version.parse v = some ver ∧
    ver.keyType = 1 ∧ ver.testnet = decide (v ∈ testnetPublicVersions) := by decide

private theorem keyType_table : ∀ v ∈ Path.allVersions, (Path.Version.parse v).all fun ver =>
    (decide (ver.keyType = 1) == decide (v ∈ publicVersions)) &&
      (decide (ver.keyType = 0) == decide (v ∉ publicVersions)) := by decide

/-- among the twelve versions, key type PUB (= 1) is exactly the six public ones, and the only
other key type is PRV (= 0) -/
theorem keyType_iff {v : Nat} {ver : Path.Version} (h : Path.Version.parse v = some ver) :
    (ver.keyType = 1 ↔ v ∈ publicVersions) ∧ (ver.keyType = 0 ↔ v ∉ publicVersions) := by
  have hv : v ∈ Path.allVersions := (C07.version_parse_isSome_iff v).mp (by rw [h]; rfl)
  have := keyType_table v hv
  rw [h] at this
  simp only [Option.all_some, Bool.and_eq_true, beq_iff_eq, decide_eq_decide] at this
  exact this

theorem bipOf_mem (p : Path.Path) : Path.bipOf p ∈ [0, 1, 2] := by
  unfold Path.bipOf
  split
  · split
    · simp
    · split
      · simp
      · split <;> simp
  · simp

/-- the version a wallet picks for a node's extended public key is a public one of the wallet's
network -/
theorem nodeVersionInt_pub {w : Wallet} {nd : Node} {v : Nat} (h : nodeVersionInt w nd 1 = some v) :
    ∃ b, Path.Version.parse v = some ⟨1, b, w.testnet⟩ := by
  unfold nodeVersionInt at h
  obtain ⟨p, _, hp⟩ := Option.bind_eq_some_iff.mp h
  have := C07.version_parse_toInt 1 (by simp) (Path.bipOf p) (bipOf_mem p) w.testnet
  rw [hp] at this
  exact ⟨_, this⟩

/-! ### importing an extended public key -/

theorem parentFingerprint_neutered (nd : Node) (key : Bytes) :
    parentFingerprint { nd with isPrv := false, key := key } = parentFingerprint nd := rfl

/-- **import of the extended public key of a node**: `from_extended_key` on the string
`N.extended_public_key(version=v)` (v a version of key type PUB) builds a wallet whose master has
the same class (public), key, chain code, depth, child number and parent fingerprint as the
public view of `N`; the remaining fields are those of a parsed node -/
theorem import_xpub {P : Prims Pt} {N : Node} (hC : CurveLaws P.curve)
    (hlen : ∀ x, 4 ≤ (P.hash256 x).length) (hwf : N.WF P) (hvalid : BIP32valid N)
    (v : Nat) (ver : Path.Version) (hver : Path.Version.parse v = some ver) (hkt : ver.keyType = 1)
    (s : List Char) (hs : extendedPublicKey P N (some v) = some s) :
    ∃ w nn, fromExtendedKey P s = some w ∧ Bip32.neuter P N = some nn ∧
      view w.master = view nn ∧ w.testnet = ver.testnet ∧ w.master.testnet = ver.testnet ∧
      w.master.isPrv = false ∧ w.master.hasParent = false ∧ w.master.path = [] ∧
      w.master.parsedVersion = some v ∧ w.mnemonic = none ∧ w.password = none ∧
      w.master.WF P ∧ BIP32valid w.master := by
  unfold extendedPublicKey at hs
  obtain ⟨ser, hser, rfl⟩ := Option.map_eq_some_iff.mp hs
  have hv : v < 2 ^ 32 := XKey.serializePublic_some hser
  obtain ⟨K, hK, hl, hKinf, _, _⟩ := XKey.pubKey_wf hC hwf
  rw [XKey.serializePublic_eq hK hwf.depth_lt hwf.index_lt (some v) hv] at hser
  cases hser
  simp only [Option.getD_some]
  have himp := C07.fromExtendedKey_encodeCheck P hlen (layout N (P.curve.sec true K) v) v hv
    (XKey.layout_take4 _ _ _) ver hver
  rw [XKey.parseBytes_layout' _ ver.testnet hwf.chain_len hwf.fp_len hwf.depth_lt hwf.index_lt hl hv]
    at himp
  have hdec : decide (ver.keyType = 0) = false := by rw [hkt]; rfl
  rw [hdec] at himp
  refine ⟨_, _, himp, by rw [Bip32.neuter, hK]; rfl, ?_, rfl, rfl, rfl, rfl, rfl, rfl, rfl, rfl,
    XKey.WF_parsedOf_pub ver.testnet v hwf hl ⟨K, hC.parse_sec true K hKinf⟩,
    XKey.BIP32valid_parsedOf _ _ _ _ hwf.fp_len hvalid⟩
  rw [view_eq_iff]
  refine ⟨rfl, rfl, rfl, rfl, rfl, ?_⟩
  rw [parentFingerprint_neutered]
  show parentFingerprint (parsedOf false ver.testnet N (P.curve.sec true K) v) = _
  rw [XKey.parentFingerprint_parsedOf false ver.testnet _ v hwf.fp_len,
    XKey.fpField_eq_of_valid hvalid]

/-! ### what the property compares between a full and a watch-only wallet -/

/-- `c'` (watch-only side) and `c` (full side) carry the same public data: chain code, depth,
child number, parent fingerprint and public key -/
structure SamePublic (P : Prims Pt) (c' c : Node) : Prop where
  chainCode_eq : c'.chainCode = c.chainCode
  depth_eq : c'.depth = c.depth
  index_eq : c'.index = c.index
  parentFingerprint_eq : parentFingerprint c' = parentFingerprint c
  pubKey_eq : pubKey P c' = pubKey P c

theorem SamePublic.of_view (P : Prims Pt) {a b : Node} (h : view a = view b) : SamePublic P a b := by
  obtain ⟨_, _, hc, hd, hi, hf⟩ := view_eq_iff.mp h
  exact ⟨hc, hd, hi, hf, pubKey_of_view P h⟩

theorem SamePublic.trans {P : Prims Pt} {a b c : Node} (h1 : SamePublic P a b)
    (h2 : SamePublic P b c) : SamePublic P a c :=
  ⟨h1.chainCode_eq.trans h2.chainCode_eq, h1.depth_eq.trans h2.depth_eq, h1.index_eq.trans h2.index_eq,
    h1.parentFingerprint_eq.trans h2.parentFingerprint_eq, h1.pubKey_eq.trans h2.pubKey_eq⟩

theorem SamePublic.of_neuter (P : Prims Pt) (L : C02.GroupLaws P) {c c' : Node}
    (hp : c.isPrv = true) (h : C02.neuter P c = some c') : SamePublic P c' c := by
  have hk := (pubKey_neuter P L hp h).1
  obtain ⟨k, _, rfl⟩ := (neuter_eq_some_iff P c c').mp h
  exact ⟨rfl, rfl, rfl, rfl, hk⟩

theorem fpField_congr {a b : Node}
    (hf : parentFingerprint a = parentFingerprint b) (ha : BIP32valid a) (hb : BIP32valid b) :
    fpField a = fpField b := by
  rw [XKey.fpField_eq_of_valid ha, XKey.fpField_eq_of_valid hb, hf]

theorem serializeWith_fpField (nd : Node) (key : Bytes) (v : Nat) :
    serializeWith nd key v =
      (toBytesBE 4 v).bind fun v4 => (toBytesBE 1 nd.depth).bind fun d1 =>
        (toBytesBE 4 nd.index).map fun i4 =>
          v4 ++ d1 ++ fpField nd ++ i4 ++ nd.chainCode ++ key := rfl

/-- nodes with the same public data and BIP32-valid headers have the same extended public key
under every explicit version -/
theorem SamePublic.xpub_eq {P : Prims Pt} {a b : Node} (h : SamePublic P a b)
    (ha : BIP32valid a) (hb : BIP32valid b) (v : Nat) :
    extendedPublicKey P a (some v) = extendedPublicKey P b (some v) := by
  unfold extendedPublicKey serializePublic
  rw [h.pubKey_eq]
  simp only [Option.getD_some, serializeWith_fpField, h.depth_eq, h.index_eq, h.chainCode_eq,
    fpField_congr h.parentFingerprint_eq ha hb]

theorem mapM_some_mem {α β : Type} (f : α → Option β) :
    ∀ (l : List α) (rs : List β), l.mapM f = some rs → ∀ r ∈ rs, ∃ x ∈ l, f x = some r := by
  intro l
  induction l with
  | nil =>
    intro rs h r hr
    have : rs = [] := by simpa using h.symm
    subst this
    cases hr
  | cons x xs ih =>
    intro rs h r hr
    rw [Path.mapM_cons_opt] at h
    obtain ⟨b, hb, h⟩ := Option.bind_eq_some_iff.mp h
    obtain ⟨bs, hbs, rfl⟩ := Option.map_eq_some_iff.mp h
    rcases List.mem_cons.mp hr with rfl | hr
    · exact ⟨x, List.mem_cons_self .., hb⟩
    · obtain ⟨y, hy, hfy⟩ := ih bs hbs r hr
      exact ⟨y, List.mem_cons_of_mem _ hy, hfy⟩

/-! ### public nodes hold no scalar, so BIP85 has nothing to work with -/

/-- the key bytes look like a compressed public key: 33 bytes starting with 02 or 03 -/
def PubKeyShaped (c : Node) : Prop :=
  c.key.length = 33 ∧ (c.key.head? = some 2 ∨ c.key.head? = some 3)

theorem prvKey_none_of_shaped (P : Prims Pt) {c : Node} (h : PubKeyShaped c) : prvKey P c = none := by
  rw [prvKey_def, if_neg]
  · exact mkPriv_eq_none.mpr (Or.inl (by rw [h.1]; omega))
  · rintro ⟨_, h0⟩
    rcases h.2 with h2 | h2 <;> rw [h0] at h2 <;> cases h2

theorem shaped_of_wf (P : Prims Pt) (hC : CurveLaws P.curve) {c : Node} (hwf : c.WF P)
    (hc : c.isPrv = false) : PubKeyShaped c := by
  obtain ⟨hl, pt, hpt⟩ := hwf.key_pub hc
  have hs := hC.sec_parse _ _ hl hpt
  have hpre := hC.sec_prefix pt (hC.parse_notInf _ _ hpt)
  rw [hs] at hpre
  exact ⟨hl, hpre⟩

theorem shaped_of_ckdPub (P : Prims Pt) (hC : CurveLaws P.curve) {nd c : Node} {i : Nat}
    (h : ckdPub P nd i = some c) : PubKeyShaped c := by
  obtain ⟨_, _, K, _, hinf, hkey⟩ := C18.ckdPub_child_valid P nd c i h
  have hni : ¬ P.curve.isInf (P.curve.add (P.curve.mulGen (C18.pubIL P nd i)) K) = true := by
    rw [hinf]; simp
  unfold PubKeyShaped
  rw [hkey]
  exact ⟨hC.sec_len _ hni, hC.sec_prefix _ hni⟩

theorem derivePath_shaped (P : Prims Pt) (hC : CurveLaws P.curve) (is : List Nat) {m c : Node}
    (hm : m.isPrv = false) (hs : PubKeyShaped m) (h : derivePath P m is = some c) :
    PubKeyShaped c := by
  induction is generalizing m with
  | nil => cases h; exact hs
  | cons i is ih =>
    rw [derivePath_cons, ckd_pub P hm] at h
    obtain ⟨c1, hc1, h⟩ := Option.bind_eq_some_iff.mp h
    exact ih (by rw [(ckdPub_fields hc1).1, hm]) (shaped_of_ckdPub P hC hc1) h

/-- `BIP85DeterministicEntropy.entropy` over a public master: refused for every path -/
theorem bip85_entropy_public (P : Prims Pt) (hC : CurveLaws P.curve) {m : Node}
    (hm : m.isPrv = false) (hs : PubKeyShaped m) (path : List Char) :
    Bip85.entropy P m path = none := by
  unfold Bip85.entropy
  cases hp : Path.parse path with
  | none => rfl
  | some p =>
    simp only [Option.bind_some]
    cases hd : derivePath P m p.levels with
    | none => rfl
    | some c =>
      simp only [Option.bind_some]
      rw [prvKey_none_of_shaped P (derivePath_shaped P hC _ hm hs hd)]
      rfl

end BtcHd.WatchOnly
