/-
Facts about the concrete secp256k1 parser of `Prims/Secp256k1.lean` (the one the driver runs
and the harness compares with python-ecdsa): whatever it accepts is a point on the curve.
No group theory is needed for these — they are read off the definition of `parse`.
-/
import BtcHd.Prims.Secp256k1

namespace BtcHd.Real.Secp
open BtcHd

private theorem xy_sound {x y : Nat} {pt : Pt}
    (h : (if onCurve x y then some (some (x, y)) else none : Option Pt) = some pt) :
    ∃ x y, pt = some (x, y) ∧ onCurve x y = true := by
  split at h
  · next hc => cases h; exact ⟨x, y, rfl, hc⟩
  · cases h

/-- everything the concrete SEC parser accepts is a finite point satisfying the curve equation
`y² = x³ + 7 (mod p)` with `x, y < p`, and the input has one of the three accepted lengths -/
theorem parse_sound (bs : Bytes) (pt : Pt) (h : parse bs = some pt) :
    (∃ x y, pt = some (x, y) ∧ onCurve x y = true) ∧
      (bs.length = 33 ∨ bs.length = 64 ∨ bs.length = 65) := by
  unfold parse at h
  dsimp only at h
  split at h
  · next hl => exact ⟨xy_sound h, Or.inr (Or.inl hl)⟩
  · next pre rest hl =>
    refine ⟨?_, Or.inl hl⟩
    split at h
    · split at h
      · split at h
        · exact xy_sound h
        · cases h
      · cases h
    · cases h
  · next pre rest hl =>
    refine ⟨?_, Or.inr (Or.inr hl)⟩
    split at h
    · exact xy_sound h
    · split at h
      · split at h
        · exact xy_sound h
        · cases h
      · cases h
  · cases h

/-- byte strings of any other length are rejected -/
theorem parse_wrong_length (bs : Bytes) (h33 : bs.length ≠ 33) (h64 : bs.length ≠ 64)
    (h65 : bs.length ≠ 65) : parse bs = none := by
  cases h : parse bs with
  | none => rfl
  | some pt =>
    have := (parse_sound bs pt h).2
    omega

/-- a 33-byte string whose first byte is neither `02` nor `03` is rejected -/
theorem parse_bad_prefix (pre : UInt8) (rest : Bytes) (hl : (pre :: rest).length = 33)
    (h2 : pre ≠ 2) (h3 : pre ≠ 3) : parse (pre :: rest) = none := by
  unfold parse
  dsimp only
  split
  · next hl' => omega
  · next pre' rest' _ heq =>
    cases heq
    rw [if_neg (by simp [h2, h3])]
  · next hl' _ _ => omega
  · rfl

/-- a compressed encoding whose `x` is not below `p` or for which `x³ + 7` has no square root
(no curve point has that abscissa) is rejected -/
theorem parse_compressed_off_curve (pre : UInt8) (rest : Bytes) (hl : (pre :: rest).length = 33)
    (h : p ≤ beToNat rest ∨
      sqrt? ((beToNat rest * beToNat rest % p * beToNat rest + 7) % p) = none) :
    parse (pre :: rest) = none := by
  unfold parse
  dsimp only
  split
  · next hl' => omega
  · next pre' rest' _ heq =>
    cases heq
    split
    · split
      · next hlt =>
        rcases h with h | h
        · omega
        · rw [h]
      · rfl
    · rfl
  · next hl' _ _ => omega
  · rfl

/-- an uncompressed (or hybrid) encoding whose coordinates do not satisfy the curve equation is
rejected -/
theorem parse_uncompressed_off_curve (pre : UInt8) (rest : Bytes)
    (hl : (pre :: rest).length = 65)
    (h : onCurve (beToNat (rest.take 32)) (beToNat (rest.drop 32)) = false) :
    parse (pre :: rest) = none := by
  unfold parse
  dsimp only
  split
  · next hl' => omega
  · next hl' _ _ => omega
  · next pre' rest' _ heq =>
    cases heq
    rw [h]
    simp
  · rfl

end BtcHd.Real.Secp
