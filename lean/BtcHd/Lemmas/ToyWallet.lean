/-
A toy wallet over the toy curve (`Lemmas/ToyCurve.lean`) on which the whole report is produced:
non-vacuity witness for the hypotheses `generate … = some j`, `wasabi … = some j` of
C06 / C15 / C16.  Nothing about secp256k1 or HMAC-SHA512 is claimed here.
-/
import BtcHd.Lemmas.ToyCurve
import BtcHd.Lemmas.Wallet

namespace BtcHd.Toy
open BtcHd Bip32 Wallet

/-- an "HMAC" whose left half is a small scalar chosen so that no derivation step on the toy
curve (order 5) hits an invalid key; the argument byte read is the parent scalar -/
def hmacW (_key data : Bytes) : Bytes :=
  let k := (data.getD 32 0).toNat
  beFixed 32 (if k % 5 = 4 then 2 else 1) ++ (List.replicate 31 0 ++ [if k % 5 = 3 then 1 else 2])

def primsW : Prims Nat := { prims with hmac512 := hmacW }

/-- the master node `master_key` builds from the empty seed under `primsW` -/
def masterW (t : Bool) : Node :=
  { isPrv := true, key := beFixed 32 1, chainCode := List.replicate 31 0 ++ [2], depth := 0,
    index := 0, testnet := t, hasParent := false, parentFp := none, path := [],
    parsedVersion := none }

def walletW (t : Bool) : Wallet := ⟨masterW t, t, none, none⟩

theorem masterKey_toy (t : Bool) : masterKey primsW [] t = some (masterW t) := by
  cases t <;> decide +kernel

theorem fromSeedBytes_toy (t : Bool) : fromSeedBytes primsW [] t = some (walletW t) := by
  unfold fromSeedBytes
  rw [masterKey_toy]
  rfl

theorem walletW_root (t : Bool) : (walletW t).master.path = [] := rfl

theorem bip85_toy (t : Bool) : (bip85Data primsW (walletW t)).isSome = true := by
  cases t <;> decide +kernel

theorem bip44_toy_t : (bipAccount primsW (walletW true) 44 (p2pkhAddress primsW true) 1 2 4).isSome
    = true := by decide +kernel

theorem bip49_toy_t : (bipAccount primsW (walletW true) 49 (p2shP2wpkhAddress primsW true) 1 2 4).isSome
    = true := by decide +kernel

theorem bip84_toy_t : (bipAccount primsW (walletW true) 84 (p2wpkhAddress primsW true) 1 2 4).isSome
    = true := by decide +kernel

/-- the whole report is produced for the testnet toy wallet, account 1, indexes 2 and 3 -/
theorem generate_toy : ∃ j, generate primsW (walletW true) 1 2 4 = some j := by
  obtain ⟨r44, h44⟩ := Option.isSome_iff_exists.mp bip44_toy_t
  obtain ⟨r49, h49⟩ := Option.isSome_iff_exists.mp bip49_toy_t
  obtain ⟨r84, h84⟩ := Option.isSome_iff_exists.mp bip84_toy_t
  obtain ⟨b85, h85⟩ := Option.isSome_iff_exists.mp (bip85_toy true)
  exact ⟨_, generate_eq_some.mpr ⟨r44, r49, r84, b85, h44, h49, h84, h85, rfl⟩⟩

theorem wasabi_toy (t : Bool) : (wasabi primsW (walletW t)).isSome = true := by
  cases t <;> decide +kernel

/-- the toy testnet wallet prints an extended public key of its master that imports again -/
theorem export_import_toy :
    ((nodeExtendedPublicKey primsW (walletW true) (masterW true)).bind (fromExtendedKey primsW)).isSome
      = true := by decide +kernel

/-- likewise for the extended private key of a derived node of the mainnet wallet -/
theorem export_import_prv_toy :
    (((derivePath primsW (masterW false) [49 + 2 ^ 31, 2 ^ 31]).bind
        (nodeExtendedPrivateKey primsW (walletW false))).bind (fromExtendedKey primsW)).isSome
      = true := by decide +kernel

theorem hash256W_length (x : Bytes) : (primsW.hash256 x).length = 32 := by
  simp [Prims.hash256, primsW, prims]

end BtcHd.Toy
