/-
Helper lemmas for C17: `splitOn` / `join`, decimal parsing, `convertHardened`,
the slot loop of `Path.parse`, and `derivePath`.
-/
import Mathlib.Data.List.Forall2
import BtcHd.Model.Path
import BtcHd.Model.Bip32
import BtcHd.Model.Wallet

namespace BtcHd.Text
open BtcHd

/-! ### `splitOn` and `join` -/

theorem splitOn_ne_nil (sep : Char) (s : List Char) : splitOn sep s ≠ [] := by
  induction s with
  | nil => simp [splitOn]
  | cons c cs ih =>
    unfold splitOn
    cases h : splitOn sep cs with
    | nil => exact absurd h ih
    | cons p ps => by_cases hc : c = sep <;> simp [hc]

theorem splitOn_cons_sep (sep : Char) (cs : List Char) :
    splitOn sep (sep :: cs) = [] :: splitOn sep cs := by
  conv_lhs => unfold splitOn
  cases h : splitOn sep cs with
  | nil => exact absurd h (splitOn_ne_nil _ _)
  | cons p ps => simp

theorem splitOn_cons_ne {sep c : Char} (hc : c ≠ sep) (cs : List Char) :
    splitOn sep (c :: cs) =
      (c :: (splitOn sep cs).headD []) :: (splitOn sep cs).tail := by
  conv_lhs => unfold splitOn
  cases h : splitOn sep cs with
  | nil => exact absurd h (splitOn_ne_nil _ _)
  | cons p ps => simp [hc]

/-- a string without the separator is a single piece -/
theorem splitOn_nosep {sep : Char} {p : List Char} (h : sep ∉ p) : splitOn sep p = [p] := by
  induction p with
  | nil => simp [splitOn]
  | cons c cs ih =>
    have hc : c ≠ sep := fun e => h (by simp [e])
    have hcs : sep ∉ cs := fun e => h (List.mem_cons_of_mem _ e)
    rw [splitOn_cons_ne hc, ih hcs]; rfl

theorem splitOn_append_sep {sep : Char} {p : List Char} (h : sep ∉ p) (rest : List Char) :
    splitOn sep (p ++ sep :: rest) = p :: splitOn sep rest := by
  induction p with
  | nil => simpa using splitOn_cons_sep sep rest
  | cons c cs ih =>
    have hc : c ≠ sep := fun e => h (by simp [e])
    have hcs : sep ∉ cs := fun e => h (List.mem_cons_of_mem _ e)
    rw [List.cons_append, splitOn_cons_ne hc, ih hcs]; rfl

theorem join_cons_cons (sep p q : List Char) (ps : List (List Char)) :
    join sep (p :: q :: ps) = p ++ sep ++ join sep (q :: ps) := rfl

/-- `"/".join(parts).split("/") == parts` when no part contains the separator -/
theorem splitOn_join_sep {sep : Char} {parts : List (List Char)}
    (hno : ∀ p ∈ parts, sep ∉ p) (hne : parts ≠ []) :
    splitOn sep (join [sep] parts) = parts := by
  induction parts with
  | nil => exact absurd rfl hne
  | cons p ps ih =>
    cases ps with
    | nil => exact splitOn_nosep (hno p (by simp))
    | cons q qs =>
      rw [join_cons_cons, List.append_assoc, List.singleton_append,
        splitOn_append_sep (hno p (by simp)),
        ih (fun x hx => hno x (List.mem_cons_of_mem _ hx)) (by simp)]

/-- no piece of a split contains the separator -/
theorem sep_not_mem_of_mem_splitOn {sep : Char} {s p : List Char} (h : p ∈ splitOn sep s) :
    sep ∉ p := by
  induction s generalizing p with
  | nil => simp [splitOn] at h; subst h; simp
  | cons c cs ih =>
    by_cases hc : c = sep
    · subst hc
      rw [splitOn_cons_sep] at h
      rcases List.mem_cons.mp h with rfl | h
      · simp
      · exact ih h
    · rw [splitOn_cons_ne hc] at h
      cases hs' : splitOn sep cs with
      | nil => exact absurd hs' (splitOn_ne_nil _ _)
      | cons q qs =>
        rw [hs'] at h ih
        simp only [List.headD_cons, List.tail_cons] at h
        rcases List.mem_cons.mp h with rfl | h
        · intro hm
          rcases List.mem_cons.mp hm with e | hm
          · exact hc e.symm
          · exact ih (by simp) hm
        · exact ih (List.mem_cons_of_mem _ h)

/-- `"/".join(s.split("/")) == s` -/
theorem join_splitOn (sep : Char) (s : List Char) : join [sep] (splitOn sep s) = s := by
  induction s with
  | nil => rfl
  | cons c cs ih =>
    by_cases hc : c = sep
    · subst hc
      rw [splitOn_cons_sep]
      cases hs' : splitOn c cs with
      | nil => exact absurd hs' (splitOn_ne_nil _ _)
      | cons q qs => rw [join_cons_cons, ← hs', ih]; rfl
    · rw [splitOn_cons_ne hc]
      cases hs' : splitOn sep cs with
      | nil => exact absurd hs' (splitOn_ne_nil _ _)
      | cons q qs =>
        rw [hs'] at ih
        simp only [List.headD_cons, List.tail_cons]
        cases qs with
        | nil => simp only [join] at ih ⊢; rw [ih]
        | cons r rs =>
          rw [join_cons_cons] at ih ⊢
          rw [← ih]; simp

/-! ### decimal strings -/

/-- a non-empty string of ASCII digits -/
def IsDec (d : List Char) : Prop := d ≠ [] ∧ ∀ ch ∈ d, ch.isDigit = true

theorem parseDec_eq_some_iff {s : List Char} {n : Nat} :
    parseDec s = some n ↔ IsDec s ∧ n = decVal s := by
  unfold parseDec IsDec
  by_cases h : s ≠ [] ∧ s.all Char.isDigit = true
  · rw [if_pos h]
    have h2 := h.2
    rw [List.all_eq_true] at h2
    constructor
    · intro e; exact ⟨⟨h.1, h2⟩, (Option.some.inj e).symm⟩
    · intro e; rw [e.2]
  · rw [if_neg h]
    constructor
    · intro e; cases e
    · intro e; exact absurd ⟨e.1.1, List.all_eq_true.mpr e.1.2⟩ h

theorem isDec_natToDec (n : Nat) : IsDec (natToDec n) :=
  ⟨Nat.toDigits_ne_nil, fun _ h => Nat.isDigit_of_mem_toDigits (by decide) (by decide) h⟩

theorem decVal_natToDec (n : Nat) : decVal (natToDec n) = n := Nat.ofDigitChars_ten_toDigits

theorem parseDec_natToDec (n : Nat) : parseDec (natToDec n) = some n :=
  parseDec_eq_some_iff.mpr ⟨isDec_natToDec n, (decVal_natToDec n).symm⟩

theorem IsDec.getLast?_isDigit {d : List Char} (h : IsDec d) :
    ∃ c, d.getLast? = some c ∧ c.isDigit = true := by
  refine ⟨d.getLast h.1, List.getLast?_eq_some_getLast h.1, h.2 _ (List.getLast_mem h.1)⟩

theorem IsDec.not_mem {d : List Char} (h : IsDec d) {c : Char} (hc : c.isDigit = false) :
    c ∉ d := fun hm => by rw [h.2 c hm] at hc; cases hc

end BtcHd.Text

namespace BtcHd.Path
open BtcHd Text

/-! ### `convertHardened` -/

theorem convertHardened_nil : convertHardened [] = none := rfl

/-- a component with a final marker character -/
theorem convertHardened_marked {d : List Char} {m : Char} (hm : m = '\'' ∨ m = 'h') :
    convertHardened (d ++ [m]) =
      (parseDec d).bind fun num => if num < 2 ^ 31 then some (num + 2 ^ 31) else none := by
  unfold convertHardened
  simp only [List.getLast?_append, List.getLast?_singleton, Option.some_or, hm, if_true,
    List.dropLast_concat]

/-- a component whose last character is not a marker -/
theorem convertHardened_unmarked {c : List Char} {l : Char} (hl : c.getLast? = some l)
    (h1 : l ≠ '\'') (h2 : l ≠ 'h') :
    convertHardened c =
      (parseDec c).bind fun num => if num < 2 ^ 32 then some num else none := by
  unfold convertHardened
  simp only [hl, h1, h2, or_self, if_false]

/-- `h` and `'` are interchangeable as the final marker -/
theorem convertHardened_h_eq_tick (d : List Char) :
    convertHardened (d ++ ['h']) = convertHardened (d ++ ['\'']) := by
  rw [convertHardened_marked (Or.inr rfl), convertHardened_marked (Or.inl rfl)]

/-- exact description of the accepted components -/
theorem convertHardened_eq_some_iff {c : List Char} {v : Nat} :
    convertHardened c = some v ↔
      (∃ d, (c = d ++ ['\''] ∨ c = d ++ ['h']) ∧ IsDec d ∧ decVal d < 2 ^ 31
          ∧ v = decVal d + 2 ^ 31)
      ∨ (IsDec c ∧ decVal c < 2 ^ 32 ∧ v = decVal c) := by
  rcases List.eq_nil_or_concat c with rfl | ⟨d, l, rfl⟩
  · simp [convertHardened_nil, IsDec]
  · by_cases hm : l = '\'' ∨ l = 'h'
    · rw [List.concat_eq_append, convertHardened_marked hm]
      have hnd : ¬ IsDec (d ++ [l]) := fun h =>
        h.not_mem (c := l) (by rcases hm with rfl | rfl <;> decide) (by simp)
      constructor
      · intro h
        cases hp : parseDec d with
        | none => rw [hp] at h; cases h
        | some n =>
          rw [hp] at h
          obtain ⟨hd, rfl⟩ := parseDec_eq_some_iff.mp hp
          simp only [Option.bind_some] at h
          split at h
          · refine Or.inl ⟨d, ?_, hd, ‹_›, (Option.some.inj h).symm⟩
            rcases hm with rfl | rfl <;> simp
          · cases h
      · rintro (⟨d', hc, hd, hlt, rfl⟩ | ⟨h, _⟩)
        · have : d = d' := by
            rcases hc with hc | hc <;> exact (List.append_inj' hc rfl).1
          subst this
          rw [parseDec_eq_some_iff.mpr ⟨hd, rfl⟩]
          simp [hlt]
        · exact absurd h hnd
    · rw [List.concat_eq_append]
      have h1 : l ≠ '\'' := fun e => hm (Or.inl e)
      have h2 : l ≠ 'h' := fun e => hm (Or.inr e)
      rw [convertHardened_unmarked (c := d ++ [l]) (l := l) (by simp) h1 h2]
      constructor
      · intro h
        cases hp : parseDec (d ++ [l]) with
        | none => rw [hp] at h; cases h
        | some n =>
          rw [hp] at h
          obtain ⟨hd, rfl⟩ := parseDec_eq_some_iff.mp hp
          simp only [Option.bind_some] at h
          split at h
          · exact Or.inr ⟨hd, ‹_›, (Option.some.inj h).symm⟩
          · cases h
      · rintro (⟨d', hc, _⟩ | ⟨hd, hlt, rfl⟩)
        · exfalso
          rcases hc with hc | hc
          · exact h1 (by simpa using (List.append_inj' hc rfl).2)
          · exact h2 (by simpa using (List.append_inj' hc rfl).2)
        · rw [parseDec_eq_some_iff.mpr ⟨hd, rfl⟩]
          simp [hlt]

theorem convertHardened_lt {c : List Char} {v : Nat} (h : convertHardened c = some v) :
    v < 2 ^ 32 := by
  rcases convertHardened_eq_some_iff.mp h with ⟨d, _, _, hlt, rfl⟩ | ⟨_, hlt, rfl⟩
  · omega
  · exact hlt

theorem convertHardened_ne_nil {c : List Char} {v : Nat} (h : convertHardened c = some v) :
    c ≠ [] := by
  rintro rfl; cases h

/-- `convert_hardened(repr_hardened(i)) == i` for every 32-bit index -/
theorem convertHardened_reprHardened {i : Nat} (hi : i < 2 ^ 32) :
    convertHardened (reprHardened i) = some i := by
  unfold reprHardened
  split
  · refine convertHardened_eq_some_iff.mpr (Or.inl ⟨natToDec (i - 2 ^ 31), Or.inl rfl,
      isDec_natToDec _, ?_, ?_⟩) <;> (rw [decVal_natToDec]; try omega)
  · refine convertHardened_eq_some_iff.mpr (Or.inr ⟨isDec_natToDec _, ?_, ?_⟩) <;>
      (rw [decVal_natToDec]; try omega)

theorem slash_not_mem_reprHardened (i : Nat) : '/' ∉ reprHardened i := by
  unfold reprHardened
  split
  · intro h
    rcases List.mem_append.mp h with h | h
    · exact (isDec_natToDec _).not_mem (by decide) h
    · simp at h
  · exact (isDec_natToDec _).not_mem (by decide)

theorem reprHardened_ne_nil (i : Nat) : reprHardened i ≠ [] := by
  unfold reprHardened
  split
  · simp
  · exact (isDec_natToDec _).1

/-! ### the slot loop of `parse` -/

theorem mapM_cons_opt {α β : Type} (f : α → Option β) (c : α) (cs : List α) :
    (c :: cs).mapM f = (f c).bind fun b => (cs.mapM f).map (b :: ·) := by
  rw [List.mapM_cons]
  cases f c with
  | none => rfl
  | some b => cases cs.mapM f <;> rfl

/-- one slot of `parse`: `convert_hardened(x) if x else None` -/
def slot (c : List Char) : Option (Option Nat) :=
  if c = [] then some none else (convertHardened c).map some

/-- the levels read from (at most five) components -/
def slotLevels (cs : List (List Char)) : Option (List Nat) :=
  (cs.mapM slot).bind fun vals => if integrity vals then some (vals.filterMap id) else none

/-- the body of `parse` after the split -/
def parseParts (root : List Char) (comps : List (List Char)) : Option Path :=
  if root = ['m'] ∨ root = ['M'] then
    (slotLevels (comps.take 5)).map fun lv => ⟨lv, root = ['m']⟩
  else none

theorem parse_of_splitOn {s root : List Char} {comps : List (List Char)}
    (h : splitOn '/' s = root :: comps) : parse s = parseParts root comps := by
  unfold parse parseParts slotLevels slot
  rw [h]
  simp only
  split
  · generalize List.mapM (m := Option) _ (List.take 5 comps) = r
    cases r with
    | none => rfl
    | some vals => simp only [Option.bind_some]; split <;> rfl
  · rfl

theorem slot_nil : slot [] = some none := rfl

theorem slot_of_ne_nil {c : List Char} (h : c ≠ []) : slot c = (convertHardened c).map some := by
  unfold slot; rw [if_neg h]

theorem mapM_slot_all_none {cs : List (List Char)} :
    (∃ vals, cs.mapM slot = some vals ∧ vals.all Option.isNone = true) ↔ ∀ c ∈ cs, c = [] := by
  induction cs with
  | nil => simp
  | cons c cs ih =>
    rw [mapM_cons_opt]
    by_cases hc : c = []
    · subst hc
      rw [slot_nil, Option.bind_some]
      constructor
      · rintro ⟨vals, hv, hall⟩ x hx
        cases hm : cs.mapM slot with
        | none => rw [hm] at hv; cases hv
        | some vs =>
          rw [hm] at hv
          cases hv
          rcases List.mem_cons.mp hx with rfl | hx
          · rfl
          · simp only [List.all_cons, Bool.and_eq_true] at hall
            exact ih.mp ⟨vs, hm, hall.2⟩ x hx
      · intro h
        obtain ⟨vs, hm, hall⟩ := ih.mpr fun x hx => h x (List.mem_cons_of_mem _ hx)
        exact ⟨none :: vs, by rw [hm]; rfl, by simpa using hall⟩
    · rw [slot_of_ne_nil hc]
      constructor
      · rintro ⟨vals, hv, hall⟩
        exfalso
        cases hcv : convertHardened c with
        | none => rw [hcv] at hv; cases hv
        | some v =>
          rw [hcv] at hv
          cases hm : cs.mapM slot with
          | none => rw [hm] at hv; cases hv
          | some vs =>
            rw [hm] at hv
            cases hv
            simp at hall
      · intro h; exact absurd (h c (by simp)) hc

theorem filterMap_id_of_all_none {vs : List (Option Nat)} (h : vs.all Option.isNone = true) :
    vs.filterMap id = [] := by
  rw [List.filterMap_eq_nil_iff]
  intro a ha
  have := List.all_eq_true.mp h a ha
  cases a with
  | none => rfl
  | some _ => cases this

theorem slotLevels_nil : slotLevels [] = some [] := rfl

theorem integrity_cons_none (vs : List (Option Nat)) :
    integrity (none :: vs) = vs.all Option.isNone := rfl

theorem integrity_cons_some (v : Nat) (vs : List (Option Nat)) :
    integrity (some v :: vs) = integrity vs := rfl

theorem slotLevels_cons_nil {cs : List (List Char)} {lv : List Nat} :
    slotLevels ([] :: cs) = some lv ↔ lv = [] ∧ ∀ c ∈ cs, c = [] := by
  unfold slotLevels
  rw [mapM_cons_opt, slot_nil, Option.bind_some]
  cases hm : cs.mapM slot with
  | none =>
    simp only [Option.map_none, Option.bind_none, false_iff, not_and, reduceCtorEq]
    intro _ h; obtain ⟨vs, hv, _⟩ := mapM_slot_all_none.mpr h; rw [hm] at hv; cases hv
  | some vs =>
    rw [Option.map_some, Option.bind_some, integrity_cons_none]
    by_cases hall : vs.all Option.isNone = true
    · rw [if_pos hall, List.filterMap_cons_none (by rfl), filterMap_id_of_all_none hall]
      have := mapM_slot_all_none.mp ⟨vs, hm, hall⟩
      constructor
      · intro h; exact ⟨(Option.some.inj h).symm, this⟩
      · rintro ⟨rfl, _⟩; rfl
    · rw [if_neg hall]
      simp only [false_iff, not_and, reduceCtorEq]
      intro _ h; obtain ⟨vs', hv, hall'⟩ := mapM_slot_all_none.mpr h
      rw [hm] at hv; cases hv; exact hall hall'

theorem slotLevels_cons_some {c : List Char} {v : Nat} (h : convertHardened c = some v)
    (cs : List (List Char)) : slotLevels (c :: cs) = (slotLevels cs).map (v :: ·) := by
  unfold slotLevels
  rw [mapM_cons_opt, slot_of_ne_nil (convertHardened_ne_nil h), h]
  cases hm : cs.mapM slot with
  | none => rfl
  | some vs =>
    simp only [Option.map_some, Option.bind_some]
    by_cases hi : integrity vs = true
    · have hi' : integrity (some v :: vs) = true := hi
      rw [if_pos hi, if_pos hi', List.filterMap_cons_some (by rfl)]; rfl
    · have hi' : ¬ integrity (some v :: vs) = true := hi
      rw [if_neg hi, if_neg hi']; rfl

theorem slotLevels_cons_none {c : List Char} (hc : c ≠ []) (h : convertHardened c = none)
    (cs : List (List Char)) : slotLevels (c :: cs) = none := by
  unfold slotLevels
  rw [mapM_cons_opt, slot_of_ne_nil hc, h]; rfl

/-- exact description of the slot loop: the first `lv.length` components convert to
`lv`, and everything after them is empty -/
theorem slotLevels_eq_some_iff {cs : List (List Char)} {lv : List Nat} :
    slotLevels cs = some lv ↔
      (cs.take lv.length).map convertHardened = lv.map some ∧ ∀ c ∈ cs.drop lv.length, c = [] := by
  induction cs generalizing lv with
  | nil => cases lv <;> simp [slotLevels_nil]
  | cons c cs ih =>
    by_cases hc : c = []
    · subst hc
      rw [slotLevels_cons_nil]
      cases lv with
      | nil => simp
      | cons a l => simp [convertHardened_nil]
    · cases hcv : convertHardened c with
      | none =>
        rw [slotLevels_cons_none hc hcv]
        cases lv with
        | nil => simp [hc]
        | cons a l => simp [hcv]
      | some v =>
        rw [slotLevels_cons_some hcv]
        cases lv with
        | nil => simp [hc]
        | cons a l =>
          simp only [List.length_cons, List.take_succ_cons, List.map_cons, hcv, List.cons.injEq,
            Option.some.injEq, List.drop_succ_cons, Option.map_eq_some_iff]
          rw [and_assoc, ← ih]
          constructor
          · rintro ⟨l', h1, h2, h3⟩; subst h2 h3; exact ⟨rfl, h1⟩
          · rintro ⟨rfl, h1⟩; exact ⟨l, h1, rfl, rfl⟩

end BtcHd.Path

namespace BtcHd.Path
open BtcHd Text

/-! ### `parse` -/

theorem parseParts_eq_some_iff {root : List Char} {comps : List (List Char)} {p : Path} :
    parseParts root comps = some p ↔
      (root = ['m'] ∨ root = ['M']) ∧ p.priv = decide (root = ['m']) ∧ p.levels.length ≤ 5 ∧
      (comps.take p.levels.length).map convertHardened = p.levels.map some ∧
      ∀ c ∈ (comps.take 5).drop p.levels.length, c = [] := by
  unfold parseParts
  by_cases hr : root = ['m'] ∨ root = ['M']
  · rw [if_pos hr, Option.map_eq_some_iff]
    constructor
    · rintro ⟨lv, hlv, rfl⟩
      obtain ⟨h1, h2⟩ := slotLevels_eq_some_iff.mp hlv
      have hlen : lv.length ≤ 5 := by
        have := congrArg List.length h1
        simp only [List.length_map, List.length_take] at this
        omega
      refine ⟨hr, rfl, hlen, ?_, h2⟩
      rw [List.take_take, Nat.min_eq_left hlen] at h1
      exact h1
    · rintro ⟨_, hp, hlen, h1, h2⟩
      refine ⟨p.levels, slotLevels_eq_some_iff.mpr ⟨?_, h2⟩, ?_⟩
      · rw [List.take_take, Nat.min_eq_left hlen]; exact h1
      · cases p; simp only at hp; rw [hp]
  · rw [if_neg hr]
    constructor
    · intro h; cases h
    · intro h; exact absurd h.1 hr

/-- `parse` only ever looks at the root and the first five components -/
theorem parseParts_take (root : List Char) (comps : List (List Char)) :
    parseParts root (comps.take 5) = parseParts root comps := by
  unfold parseParts
  rw [List.take_take, Nat.min_self]

theorem slot_h_eq_tick (d : List Char) : slot (d ++ ['h']) = slot (d ++ ['\'']) := by
  rw [slot_of_ne_nil (by simp), slot_of_ne_nil (by simp), convertHardened_h_eq_tick]

/-- two components that differ at most in the spelling of a final hardened marker -/
def SameUpToMarker (c c' : List Char) : Prop :=
  c = c' ∨ ∃ d, (c = d ++ ['h'] ∨ c = d ++ ['\'']) ∧ (c' = d ++ ['h'] ∨ c' = d ++ ['\''])

theorem SameUpToMarker.slot_eq {c c' : List Char} (h : SameUpToMarker c c') : slot c = slot c' := by
  rcases h with rfl | ⟨d, h1, h2⟩
  · rfl
  · rcases h1 with rfl | rfl <;> rcases h2 with rfl | rfl <;>
      first | rfl | exact slot_h_eq_tick d | exact (slot_h_eq_tick d).symm

theorem SameUpToMarker.slash_iff {c c' : List Char} (h : SameUpToMarker c c') :
    '/' ∈ c ↔ '/' ∈ c' := by
  rcases h with rfl | ⟨d, h1, h2⟩
  · rfl
  · rcases h1 with rfl | rfl <;> rcases h2 with rfl | rfl <;> simp

theorem mapM_slot_congr {cs cs' : List (List Char)} (h : List.Forall₂ SameUpToMarker cs cs') :
    cs.mapM slot = cs'.mapM slot := by
  induction h with
  | nil => rfl
  | cons hc _ ih => rw [mapM_cons_opt, mapM_cons_opt, hc.slot_eq, ih]

theorem parseParts_congr {cs cs' : List (List Char)} (h : List.Forall₂ SameUpToMarker cs cs')
    (root : List Char) : parseParts root cs = parseParts root cs' := by
  unfold parseParts slotLevels
  rw [mapM_slot_congr (List.forall₂_take 5 h)]

end BtcHd.Path

namespace BtcHd.Bip32
open BtcHd Keys

variable {Pt : Type}

/-! ### `ckd` and `derivePath` -/

theorem ckdPrv_fields {P : Prims Pt} {nd c : Node} {i : Nat} (h : ckdPrv P nd i = some c) :
    c.isPrv = nd.isPrv ∧ c.path = nd.path ++ [i] := by
  unfold ckdPrv at h
  simp only [Option.bind_eq_some_iff] at h
  obtain ⟨k, _, idx, _, h⟩ := h
  split_ifs at h
  all_goals
    rw [Option.map_eq_some_iff] at h
    obtain ⟨kb, _, rfl⟩ := h
    exact ⟨rfl, rfl⟩

theorem ckdPub_fields {P : Prims Pt} {nd c : Node} {i : Nat} (h : ckdPub P nd i = some c) :
    c.isPrv = nd.isPrv ∧ c.path = nd.path ++ [i] := by
  unfold ckdPub at h
  split_ifs at h
  simp only [Option.bind_eq_some_iff] at h
  obtain ⟨idx, _, h⟩ := h
  split_ifs at h
  simp only [Option.bind_eq_some_iff] at h
  obtain ⟨il, _, K, _, h⟩ := h
  split_ifs at h
  cases h
  exact ⟨rfl, rfl⟩

/-- a child keeps the class of its parent and extends its path by the index -/
theorem ckd_fields {P : Prims Pt} {nd c : Node} {i : Nat} (h : ckd P nd i = some c) :
    c.isPrv = nd.isPrv ∧ c.path = nd.path ++ [i] := by
  unfold ckd at h
  split at h
  · exact ckdPrv_fields h
  · exact ckdPub_fields h

theorem derivePath_nil (P : Prims Pt) (nd : Node) : derivePath P nd [] = some nd := rfl

theorem derivePath_cons (P : Prims Pt) (nd : Node) (i : Nat) (is : List Nat) :
    derivePath P nd (i :: is) = (ckd P nd i).bind fun c => derivePath P c is := rfl

theorem derivePath_append (P : Prims Pt) (nd : Node) (a b : List Nat) :
    derivePath P nd (a ++ b) = (derivePath P nd a).bind fun c => derivePath P c b := by
  induction a generalizing nd with
  | nil => rfl
  | cons i is ih =>
    rw [List.cons_append, derivePath_cons, derivePath_cons]
    cases ckd P nd i with
    | none => rfl
    | some c => exact ih c

theorem derivePath_eq_foldlM (P : Prims Pt) (nd : Node) (is : List Nat) :
    derivePath P nd is = is.foldlM (ckd P) nd := by
  induction is generalizing nd with
  | nil => rfl
  | cons i is ih =>
    rw [derivePath_cons, List.foldlM_cons]
    cases ckd P nd i with
    | none => rfl
    | some c => exact ih c

theorem derivePath_fields {P : Prims Pt} {nd c : Node} {is : List Nat}
    (h : derivePath P nd is = some c) : c.isPrv = nd.isPrv ∧ c.path = nd.path ++ is := by
  induction is generalizing nd with
  | nil => cases h; simp
  | cons i is ih =>
    rw [derivePath_cons] at h
    cases hc : ckd P nd i with
    | none => rw [hc] at h; cases h
    | some c' =>
      rw [hc] at h
      obtain ⟨h1, h2⟩ := ih h
      obtain ⟨h3, h4⟩ := ckd_fields hc
      exact ⟨h1.trans h3, by rw [h2, h4]; simp⟩

theorem prvMark_eq : Generated.prvMark = ['m'] := by decide
theorem pubMark_eq : Generated.pubMark = ['M'] := by decide

end BtcHd.Bip32

namespace BtcHd.Path
open BtcHd Text

/-! ### consequences used by the property theorems -/

theorem slash_not_mem_of_convertHardened {c : List Char} {v : Nat}
    (h : convertHardened c = some v) : '/' ∉ c := by
  rcases convertHardened_eq_some_iff.mp h with ⟨d, hc, hd, _, _⟩ | ⟨hd, _, _⟩
  · intro hm
    have hnd : '/' ∉ d := hd.not_mem (by decide)
    rcases hc with rfl | rfl <;> simp [hnd] at hm
  · exact hd.not_mem (by decide)

/-- every component among the first five is empty or converts to one of the levels -/
theorem parseParts_some_mem {root : List Char} {comps : List (List Char)} {p : Path}
    (h : parseParts root comps = some p) {c : List Char} (hc : c ∈ comps.take 5) :
    c = [] ∨ ∃ v ∈ p.levels, convertHardened c = some v := by
  obtain ⟨_, _, hlen, h1, h2⟩ := parseParts_eq_some_iff.mp h
  rw [← List.take_append_drop p.levels.length (comps.take 5), List.mem_append] at hc
  rcases hc with hc | hc
  · rw [List.take_take, Nat.min_eq_left hlen] at hc
    have : convertHardened c ∈ p.levels.map some := by
      rw [← h1]; exact List.mem_map_of_mem hc
    obtain ⟨v, hv, e⟩ := List.mem_map.mp this
    exact Or.inr ⟨v, hv, e.symm⟩
  · exact Or.inl (h2 c hc)

/-- every level is the conversion of one of the first five components -/
theorem parseParts_some_level {root : List Char} {comps : List (List Char)} {p : Path}
    (h : parseParts root comps = some p) {v : Nat} (hv : v ∈ p.levels) :
    ∃ c ∈ comps.take 5, convertHardened c = some v := by
  obtain ⟨_, _, hlen, h1, _⟩ := parseParts_eq_some_iff.mp h
  have : some v ∈ (comps.take p.levels.length).map convertHardened := by
    rw [h1]; exact List.mem_map_of_mem hv
  obtain ⟨c, hc, e⟩ := List.mem_map.mp this
  refine ⟨c, ?_, e⟩
  rw [← Nat.min_eq_left hlen, ← List.take_take] at hc
  exact List.mem_of_mem_take hc

theorem forall₂_slash {cs cs' : List (List Char)} (h : List.Forall₂ SameUpToMarker cs cs')
    (hno : ∀ c ∈ cs, '/' ∉ c) : ∀ c ∈ cs', '/' ∉ c := by
  induction h with
  | nil => simp
  | cons hc _ ih =>
    intro c hm
    rcases List.mem_cons.mp hm with rfl | hm
    · exact fun hs => hno _ (by simp) (hc.slash_iff.mpr hs)
    · exact ih (fun x hx => hno x (List.mem_cons_of_mem _ hx)) c hm

end BtcHd.Path
