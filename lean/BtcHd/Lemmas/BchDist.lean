/-
From the kernel-checked rows (`Bch/All.lean`: every triple of offsets / positions
passes the echelon check) to statements about syndromes of arbitrary error
patterns of weight ≤ 4 (distance) and ≤ 3 (Bech32 ↔ Bech32m cross-over).
-/
import BtcHd.Lemmas.Bch
import BtcHd.Bch.All

namespace BtcHd.Bch
open BtcHd GF2 Bech32

/-! ### reading a row check as a statement about symbols -/

private theorem comb_block {t v : Nat} {ws : List Nat} {cs : List Bool} (ht : t ≤ 70)
    (hv : v < 32) (hl : cs.length = ws.length) :
    comb (ws ++ Wrow t) (cs ++ bits5 v) = comb ws cs ^^^ Tpow t v := by
  rw [comb_append _ _ hl, Tpow_eq_comb ht hv]

private theorem all_false_bits5 {v : Nat} {cs : List Bool} (hv : v < 32)
    (h : ∀ c ∈ cs, c = false) (hsub : ∀ c ∈ bits5 v, c ∈ cs) : v = 0 :=
  bits5_all_false v hv (fun c hc => h c (hsub c hc))

/-- four symbols at offsets `0 < a < b < c ≤ 70` whose syndromes cancel are all zero -/
theorem sep4 {a b c : Nat} (h0 : 0 < a) (h1 : a < b) (h2 : b < c) (h3 : c ≤ 70)
    {v0 v1 v2 v3 : Nat} (hv0 : v0 < 32) (hv1 : v1 < 32) (hv2 : v2 < 32) (hv3 : v3 < 32)
    (h : v0 ^^^ Tpow a v1 ^^^ Tpow b v2 ^^^ Tpow c v3 = 0) :
    v0 = 0 ∧ v1 = 0 ∧ v2 = 0 ∧ v3 = 0 := by
  have hI : Indep (Wrow 0 ++ Wrow a ++ Wrow b ++ Wrow c) := allD a b c h0 h1 h2 h3
  have hl0 : (bits5 v0).length = (Wrow 0).length := by rw [length_Wrow (by omega)]; rfl
  have hl1 : (bits5 v0 ++ bits5 v1).length = (Wrow 0 ++ Wrow a).length := by
    simp [length_Wrow (show a ≤ 70 by omega), length_Wrow (show 0 ≤ 70 by omega), length_bits5]
  have hl2 : (bits5 v0 ++ bits5 v1 ++ bits5 v2).length = (Wrow 0 ++ Wrow a ++ Wrow b).length := by
    simp [length_Wrow (show a ≤ 70 by omega), length_Wrow (show 0 ≤ 70 by omega),
      length_Wrow (show b ≤ 70 by omega), length_bits5]
  have hl3 : (bits5 v0 ++ bits5 v1 ++ bits5 v2 ++ bits5 v3).length =
      (Wrow 0 ++ Wrow a ++ Wrow b ++ Wrow c).length := by
    simp [length_Wrow (show a ≤ 70 by omega), length_Wrow (show 0 ≤ 70 by omega),
      length_Wrow (show b ≤ 70 by omega), length_Wrow h3, length_bits5]
  have hc : comb (Wrow 0 ++ Wrow a ++ Wrow b ++ Wrow c)
      (bits5 v0 ++ bits5 v1 ++ bits5 v2 ++ bits5 v3) = 0 := by
    rw [comb_block h3 hv3 hl2, comb_block (by omega) hv2 hl1, comb_block (by omega) hv1 hl0,
      ← Tpow_eq_comb (by omega) hv0]
    exact h
  have hall := hI _ hl3 hc
  refine ⟨all_false_bits5 hv0 hall ?_, all_false_bits5 hv1 hall ?_, all_false_bits5 hv2 hall ?_,
    all_false_bits5 hv3 hall ?_⟩ <;> intro c hc <;> simp [hc]

/-- three symbols at offsets `0 < a < b ≤ 70` -/
theorem sep3 {a b : Nat} (h0 : 0 < a) (h1 : a < b) (h2 : b ≤ 70)
    {v0 v1 v2 : Nat} (hv0 : v0 < 32) (hv1 : v1 < 32) (hv2 : v2 < 32)
    (h : v0 ^^^ Tpow a v1 ^^^ Tpow b v2 = 0) : v0 = 0 ∧ v1 = 0 ∧ v2 = 0 := by
  by_cases hb : b < 70
  · have := sep4 h0 h1 hb (Nat.le_refl 70) hv0 hv1 hv2 (show 0 < 32 by decide)
      (by rw [Tpow_zero, Nat.xor_zero]; exact h)
    exact ⟨this.1, this.2.1, this.2.2.1⟩
  · have hb' : b = 70 := by omega
    subst hb'
    by_cases ha : 1 < a
    · have := sep4 (show 0 < 1 by decide) ha h1 (Nat.le_refl 70) hv0 (show 0 < 32 by decide) hv1 hv2
        (by rw [Tpow_zero, Nat.xor_zero]; exact h)
      exact ⟨this.1, this.2.2.1, this.2.2.2⟩
    · have ha' : a = 1 := by omega
      subst ha'
      have := sep4 (show 0 < 1 by decide) (show 1 < 2 by decide) (show 2 < 70 by decide)
        (Nat.le_refl 70) hv0 hv1 (show 0 < 32 by decide) hv2
        (by rw [Tpow_zero, Nat.xor_zero]; exact h)
      exact ⟨this.1, this.2.1, this.2.2.2⟩

/-- two symbols at offset `0 < a ≤ 70` -/
theorem sep2 {a : Nat} (h0 : 0 < a) (h1 : a ≤ 70) {v0 v1 : Nat} (hv0 : v0 < 32) (hv1 : v1 < 32)
    (h : v0 ^^^ Tpow a v1 = 0) : v0 = 0 ∧ v1 = 0 := by
  by_cases ha : a < 70
  · have := sep3 h0 ha (Nat.le_refl 70) hv0 hv1 (show 0 < 32 by decide)
      (by rw [Tpow_zero, Nat.xor_zero]; exact h)
    exact ⟨this.1, this.2.1⟩
  · have ha' : a = 70 := by omega
    subst ha'
    have := sep3 (show 0 < 1 by decide) (show 1 < 70 by decide) (Nat.le_refl 70) hv0
      (show 0 < 32 by decide) hv1 (by rw [Tpow_zero, Nat.xor_zero]; exact h)
    exact ⟨this.1, this.2.2⟩

/-- three symbols at positions `t1 < t2 < t3 ≤ 70` never produce the cross-over syndrome `D` -/
theorem sepX3 {t1 t2 t3 : Nat} (h1 : t1 < t2) (h2 : t2 < t3) (h3 : t3 ≤ 70)
    {v1 v2 v3 : Nat} (hv1 : v1 < 32) (hv2 : v2 < 32) (hv3 : v3 < 32) :
    Tpow t1 v1 ^^^ Tpow t2 v2 ^^^ Tpow t3 v3 ≠ D := by
  intro h
  have hI : Indep (D :: Wrow t1 ++ Wrow t2 ++ Wrow t3) := allX t1 t2 t3 h1 h2 h3
  have hl0 : ([true] : List Bool).length = [D].length := rfl
  have hl1 : (true :: bits5 v1).length = (D :: Wrow t1).length := by
    simp [length_Wrow (show t1 ≤ 70 by omega), length_bits5]
  have hl2 : (true :: bits5 v1 ++ bits5 v2).length = (D :: Wrow t1 ++ Wrow t2).length := by
    simp [length_Wrow (show t1 ≤ 70 by omega), length_Wrow (show t2 ≤ 70 by omega), length_bits5]
  have hl3 : (true :: bits5 v1 ++ bits5 v2 ++ bits5 v3).length =
      (D :: Wrow t1 ++ Wrow t2 ++ Wrow t3).length := by
    simp [length_Wrow (show t1 ≤ 70 by omega), length_Wrow (show t2 ≤ 70 by omega),
      length_Wrow h3, length_bits5]
  have hc : comb (D :: Wrow t1 ++ Wrow t2 ++ Wrow t3)
      (true :: bits5 v1 ++ bits5 v2 ++ bits5 v3) = 0 := by
    rw [comb_block h3 hv3 hl2, comb_block (by omega) hv2 hl1,
      show D :: Wrow t1 = [D] ++ Wrow t1 from rfl, show true :: bits5 v1 = [true] ++ bits5 v1 from rfl,
      comb_block (by omega) hv1 hl0]
    simp only [comb_cons, cond_true, comb_nil_left, Nat.xor_zero]
    rw [Nat.xor_assoc, Nat.xor_assoc, ← Nat.xor_assoc (Tpow t1 v1), h, Nat.xor_self]
  have := hI _ hl3 hc true (by simp)
  cases this

theorem sepX2 {t1 t2 : Nat} (h1 : t1 < t2) (h2 : t2 ≤ 70) {v1 v2 : Nat} (hv1 : v1 < 32)
    (hv2 : v2 < 32) : Tpow t1 v1 ^^^ Tpow t2 v2 ≠ D := by
  have z : (0 : Nat) < 32 := by decide
  by_cases hb : t2 < 70
  · have := sepX3 h1 hb (Nat.le_refl 70) hv1 hv2 z
    rwa [Tpow_zero, Nat.xor_zero] at this
  · have hb' : t2 = 70 := by omega
    subst hb'
    by_cases ha : 0 < t1
    · have := sepX3 ha h1 (Nat.le_refl 70) z hv1 hv2
      rwa [Tpow_zero, Nat.zero_xor] at this
    · have ha' : t1 = 0 := by omega
      subst ha'
      have := sepX3 (show 0 < 1 by decide) (show 1 < 70 by decide) (Nat.le_refl 70) hv1 z hv2
      rwa [Tpow_zero, Nat.xor_zero] at this

theorem sepX1 {t : Nat} (h : t ≤ 70) {v : Nat} (hv : v < 32) : Tpow t v ≠ D := by
  have z : (0 : Nat) < 32 := by decide
  by_cases ht : t < 70
  · have := sepX2 ht (Nat.le_refl 70) hv z
    rwa [Tpow_zero, Nat.xor_zero] at this
  · have ht' : t = 70 := by omega
    subst ht'
    have := sepX2 (show 0 < 70 by decide) (Nat.le_refl 70) z hv
    rwa [Tpow_zero, Nat.zero_xor] at this

theorem D_ne_zero : D ≠ 0 := by
  have := sepX1 (Nat.le_refl 70) (show 0 < 32 by decide)
  rw [Tpow_zero] at this
  exact fun h => this h.symm

/-! ### sparse patterns -/

/-- strictly increasing positions `≤ 70`, non-zero symbols `< 32` -/
def Valid (ps : List (Nat × Nat)) : Prop :=
  ps.Pairwise (fun p q => p.1 < q.1) ∧ ∀ q ∈ ps, q.1 ≤ 70 ∧ q.2 < 32 ∧ q.2 ≠ 0

private theorem Tpow_shift {t1 t : Nat} (h : t1 < t) (v : Nat) :
    Tpow t v = Tpow t1 (Tpow (t - t1) v) := by
  rw [← Tpow_add]; congr 1; omega

private theorem lt30 {v : Nat} (h : v < 32) : v < 2 ^ 30 := by omega

private theorem sym_lt30 {t v : Nat} (h : v < 32) : Tpow t v < 2 ^ 30 := Tpow_lt t (lt30 h)

/-- one to four non-zero symbols never have syndrome 0 -/
theorem synS_ne_zero : ∀ {ps : List (Nat × Nat)}, Valid ps → 1 ≤ ps.length → ps.length ≤ 4 →
    synS ps ≠ 0
  | [], _, h, _ => by simp at h
  | [(t1, v1)], ⟨_, hv⟩, _, _ => by
    obtain ⟨_, hv1, hn1⟩ := hv (t1, v1) (by simp)
    intro h
    simp only [synS, Nat.xor_zero] at h
    exact hn1 (Tpow_ker t1 (lt30 hv1) h)
  | [(t1, v1), (t2, v2)], ⟨hs, hv⟩, _, _ => by
    obtain ⟨_, hv1, hn1⟩ := hv (t1, v1) (by simp)
    obtain ⟨ht2, hv2, _⟩ := hv (t2, v2) (by simp)
    have hs : t1 < t2 := (List.pairwise_cons.1 hs).1 (t2, v2) (by simp)
    intro h
    simp only [synS, Nat.xor_zero] at h
    rw [Tpow_shift hs v2, ← Tpow_xor] at h
    have := Tpow_ker t1 (Nat.xor_lt_two_pow (lt30 hv1) (sym_lt30 hv2)) h
    exact hn1 (sep2 (by omega) (by omega) hv1 hv2 this).1
  | [(t1, v1), (t2, v2), (t3, v3)], ⟨hs, hv⟩, _, _ => by
    obtain ⟨_, hv1, hn1⟩ := hv (t1, v1) (by simp)
    obtain ⟨ht2, hv2, _⟩ := hv (t2, v2) (by simp)
    obtain ⟨ht3, hv3, _⟩ := hv (t3, v3) (by simp)
    have p1 := List.pairwise_cons.1 hs
    have h12 : t1 < t2 := p1.1 (t2, v2) (by simp)
    have h13 : t1 < t3 := p1.1 (t3, v3) (by simp)
    have h23 : t2 < t3 := (List.pairwise_cons.1 p1.2).1 (t3, v3) (by simp)
    intro h
    simp only [synS, Nat.xor_zero] at h
    rw [Tpow_shift h12 v2, Tpow_shift h13 v3, ← Tpow_xor, ← Tpow_xor] at h
    have := Tpow_ker t1 (Nat.xor_lt_two_pow (lt30 hv1)
      (Nat.xor_lt_two_pow (sym_lt30 hv2) (sym_lt30 hv3))) h
    rw [← Nat.xor_assoc] at this
    exact hn1 (sep3 (by omega) (by omega) (by omega) hv1 hv2 hv3 this).1
  | [(t1, v1), (t2, v2), (t3, v3), (t4, v4)], ⟨hs, hv⟩, _, _ => by
    obtain ⟨_, hv1, hn1⟩ := hv (t1, v1) (by simp)
    obtain ⟨ht2, hv2, _⟩ := hv (t2, v2) (by simp)
    obtain ⟨ht3, hv3, _⟩ := hv (t3, v3) (by simp)
    obtain ⟨ht4, hv4, _⟩ := hv (t4, v4) (by simp)
    have p1 := List.pairwise_cons.1 hs
    have p2 := List.pairwise_cons.1 p1.2
    have h12 : t1 < t2 := p1.1 (t2, v2) (by simp)
    have h13 : t1 < t3 := p1.1 (t3, v3) (by simp)
    have h14 : t1 < t4 := p1.1 (t4, v4) (by simp)
    have h23 : t2 < t3 := p2.1 (t3, v3) (by simp)
    have h34 : t3 < t4 := (List.pairwise_cons.1 p2.2).1 (t4, v4) (by simp)
    intro h
    simp only [synS, Nat.xor_zero] at h
    rw [Tpow_shift h12 v2, Tpow_shift h13 v3, Tpow_shift h14 v4, ← Tpow_xor, ← Tpow_xor,
      ← Tpow_xor] at h
    have := Tpow_ker t1 (Nat.xor_lt_two_pow (lt30 hv1) (Nat.xor_lt_two_pow (sym_lt30 hv2)
      (Nat.xor_lt_two_pow (sym_lt30 hv3) (sym_lt30 hv4)))) h
    rw [← Nat.xor_assoc, ← Nat.xor_assoc] at this
    exact hn1 (sep4 (by omega) (by omega) (by omega) (by omega) hv1 hv2 hv3 hv4 this).1
  | _ :: _ :: _ :: _ :: _ :: _, _, _, h => by simp at h

/-- at most three non-zero symbols never have the cross-over syndrome `D` -/
theorem synS_ne_D : ∀ {ps : List (Nat × Nat)}, Valid ps → ps.length ≤ 3 → synS ps ≠ D
  | [], _, _ => fun h => D_ne_zero h.symm
  | [(t1, v1)], ⟨_, hv⟩, _ => by
    obtain ⟨ht1, hv1, _⟩ := hv (t1, v1) (by simp)
    simp only [synS, Nat.xor_zero]
    exact sepX1 ht1 hv1
  | [(t1, v1), (t2, v2)], ⟨hs, hv⟩, _ => by
    obtain ⟨_, hv1, _⟩ := hv (t1, v1) (by simp)
    obtain ⟨ht2, hv2, _⟩ := hv (t2, v2) (by simp)
    have hs : t1 < t2 := (List.pairwise_cons.1 hs).1 (t2, v2) (by simp)
    simp only [synS, Nat.xor_zero]
    exact sepX2 hs ht2 hv1 hv2
  | [(t1, v1), (t2, v2), (t3, v3)], ⟨hs, hv⟩, _ => by
    obtain ⟨_, hv1, _⟩ := hv (t1, v1) (by simp)
    obtain ⟨_, hv2, _⟩ := hv (t2, v2) (by simp)
    obtain ⟨ht3, hv3, _⟩ := hv (t3, v3) (by simp)
    have p1 := List.pairwise_cons.1 hs
    have h12 : t1 < t2 := p1.1 (t2, v2) (by simp)
    have h23 : t2 < t3 := (List.pairwise_cons.1 p1.2).1 (t3, v3) (by simp)
    simp only [synS, Nat.xor_zero]
    rw [← Nat.xor_assoc]
    exact sepX3 h12 h23 ht3 hv1 hv2 hv3
  | _ :: _ :: _ :: _ :: _, _, h => by simp at h

/-! ### arbitrary patterns -/

/-- the sparse form of a pattern of at most 71 symbols `< 32` is valid -/
theorem valid_sparse {e : List Nat} (hlen : e.length ≤ 71) (hsym : ∀ v ∈ e, v < 32) :
    Valid (sparse 0 e.reverse) := by
  refine ⟨sparse_sorted _ _, fun q hq => ?_⟩
  obtain ⟨_, h2, h3, h4⟩ := mem_sparse hq
  refine ⟨?_, hsym _ (List.mem_reverse.1 h4), h3⟩
  simp only [List.length_reverse] at h2
  omega

theorem syn_eq_synS (e : List Nat) : syn e = synS (sparse 0 e.reverse) := by
  rw [syn_eq_synR, ← Tpow_synR]; rfl

theorem length_sparse_reverse (e : List Nat) : (sparse 0 e.reverse).length = weight e := by
  rw [length_sparse, weight_reverse]

end BtcHd.Bch
