/-
Helper lemmas for C16 (network tags): the version bytes of an extended-key string, the version
tables, and the prefix of a segwit address.
-/
import BtcHd.Lemmas.Wallet
import BtcHd.Lemmas.XKey
import BtcHd.Lemmas.Bech32
import BtcHd.Props.C10

namespace BtcHd.Wallet
open BtcHd Keys Bip32 XKey Path

variable {Pt : Type}

/-- the table of versions of a network -/
def versionTable (t : Bool) : List (Nat × Nat × Nat) :=
  if t then Generated.versionsTest else Generated.versionsMain

/-- the version integers of a network -/
def versionInts (t : Bool) : List Nat := (versionTable t).map (·.2.2)

theorem versionInts_parse : ∀ t : Bool, ∀ v ∈ versionInts t,
    v < 2 ^ 32 ∧ ∃ ver, Version.parse v = some ver ∧ ver.testnet = t := by decide

theorem versionInts_disjoint : ∀ v ∈ versionInts true, v ∉ versionInts false := by decide

theorem toInt_mem {ver : Version} {v : Nat} (h : ver.toInt = some v) :
    v ∈ versionInts ver.testnet := by
  unfold Version.toInt Path.lookup at h
  obtain ⟨e, he, rfl⟩ := Option.map_eq_some_iff.mp h
  exact List.mem_map_of_mem (List.mem_of_find?_eq_some he)

/-- the version a node is printed under belongs to the wallet's network -/
theorem nodeVersionInt_mem {w : Wallet} {nd : Node} {kt v : Nat}
    (h : nodeVersionInt w nd kt = some v) : v ∈ versionInts w.testnet := by
  unfold nodeVersionInt at h
  obtain ⟨p, _, h⟩ := Option.bind_eq_some_iff.mp h
  exact toInt_mem h

/-- an extended public key string is the Base58Check form of 78 bytes that start with the
four version bytes -/
theorem extendedPublicKey_version {P : Prims Pt} {nd : Node} {ver : Option Nat} {s : List Char}
    (h : extendedPublicKey P nd ver = some s) :
    ∃ ser, s = Base58.encodeCheck P.hash256 ser ∧
      ser.take 4 = beFixed 4 (ver.getD (pubVersion nd)) ∧ ver.getD (pubVersion nd) < 2 ^ 32 := by
  unfold extendedPublicKey at h
  obtain ⟨ser, hser, rfl⟩ := Option.map_eq_some_iff.mp h
  refine ⟨ser, rfl, ?_, serializePublic_some hser⟩
  unfold serializePublic at hser
  obtain ⟨K, _, hk⟩ := Option.bind_eq_some_iff.mp hser
  rw [serializeWith_layout hk, layout_take4]

theorem extendedPrivateKey_version {P : Prims Pt} {nd : Node} {ver : Option Nat} {s : List Char}
    (h : extendedPrivateKey P nd ver = some s) :
    ∃ ser, s = Base58.encodeCheck P.hash256 ser ∧
      ser.take 4 = beFixed 4 (ver.getD (prvVersion nd)) ∧ ver.getD (prvVersion nd) < 2 ^ 32 := by
  unfold extendedPrivateKey at h
  obtain ⟨ser, hser, rfl⟩ := Option.map_eq_some_iff.mp h
  refine ⟨ser, rfl, ?_, (serializePrivate_some hser).2⟩
  unfold serializePrivate at hser
  split at hser
  · obtain ⟨k, _, hk⟩ := Option.bind_eq_some_iff.mp hser
    rw [serializeWith_layout hk, layout_take4]
  · cases hser

/-- reading the version back from the serialised bytes -/
theorem version_of_take4 {ser : Bytes} {v : Nat} (h : ser.take 4 = beFixed 4 v) (hv : v < 2 ^ 32) :
    beToNat (ser.take 4) = v := by
  rw [h, BeFixed.beToNat_beFixed (by rw [BytesL.pow_256_4]; exact hv)]

theorem hrp_consts : Generated.hrpMain = "bc".toList ∧ Generated.hrpTest = "tb".toList ∧
    Generated.hrpMain ≠ Generated.hrpTest := by decide +kernel

/-- a segwit address produced for a network decodes under that network's prefix, to witness
version 0 and the program, is refused under the other network's prefix, and starts with the
prefix and the separator `1` -/
theorem segwitOf_tag {prog : Bytes} {t : Bool} {s : List Char} (h : segwitOf prog t = some s) :
    Bech32.decode (if t then Generated.hrpTest else Generated.hrpMain) s
        = some (0, prog.map (·.toNat)) ∧
    Bech32.decode (if t then Generated.hrpMain else Generated.hrpTest) s = none ∧
    ∃ rest, s = (if t then Generated.hrpTest else Generated.hrpMain) ++ '1' :: rest := by
  unfold segwitOf at h
  obtain ⟨_, hdec, five, hb⟩ := Bech32.legal_of_encode_some h
  obtain ⟨_, _, _, _, _, _, hs, _⟩ := Bech32.encode_some_inv h
  refine ⟨hdec, ?_, _, hs⟩
  unfold Bech32.decode
  simp only [hb]
  rw [if_pos]
  cases t
  · exact hrp_consts.2.2
  · exact fun e => hrp_consts.2.2 e.symm

end BtcHd.Wallet
