/-
Helper lemmas for C04: the number form and the text form of the frozen official word
list agree (kernel-checked, one block of 128 words at a time).
-/
import BtcHd.Lemmas.Bip39
import BtcHd.Official.Wordlist

namespace BtcHd.Bip39
open BtcHd

/-! ### the text form of the list -/

set_option maxRecDepth 100000 in
theorem text0 : Official.wordChunk0.map (wordCharsF 8) = Official.textChunk0.map String.toList := by
  decide +kernel
set_option maxRecDepth 100000 in
theorem text1 : Official.wordChunk1.map (wordCharsF 8) = Official.textChunk1.map String.toList := by
  decide +kernel
set_option maxRecDepth 100000 in
theorem text2 : Official.wordChunk2.map (wordCharsF 8) = Official.textChunk2.map String.toList := by
  decide +kernel
set_option maxRecDepth 100000 in
theorem text3 : Official.wordChunk3.map (wordCharsF 8) = Official.textChunk3.map String.toList := by
  decide +kernel
set_option maxRecDepth 100000 in
theorem text4 : Official.wordChunk4.map (wordCharsF 8) = Official.textChunk4.map String.toList := by
  decide +kernel
set_option maxRecDepth 100000 in
theorem text5 : Official.wordChunk5.map (wordCharsF 8) = Official.textChunk5.map String.toList := by
  decide +kernel
set_option maxRecDepth 100000 in
theorem text6 : Official.wordChunk6.map (wordCharsF 8) = Official.textChunk6.map String.toList := by
  decide +kernel
set_option maxRecDepth 100000 in
theorem text7 : Official.wordChunk7.map (wordCharsF 8) = Official.textChunk7.map String.toList := by
  decide +kernel
set_option maxRecDepth 100000 in
theorem text8 : Official.wordChunk8.map (wordCharsF 8) = Official.textChunk8.map String.toList := by
  decide +kernel
set_option maxRecDepth 100000 in
theorem text9 : Official.wordChunk9.map (wordCharsF 8) = Official.textChunk9.map String.toList := by
  decide +kernel
set_option maxRecDepth 100000 in
theorem text10 : Official.wordChunk10.map (wordCharsF 8) = Official.textChunk10.map String.toList := by
  decide +kernel
set_option maxRecDepth 100000 in
theorem text11 : Official.wordChunk11.map (wordCharsF 8) = Official.textChunk11.map String.toList := by
  decide +kernel
set_option maxRecDepth 100000 in
theorem text12 : Official.wordChunk12.map (wordCharsF 8) = Official.textChunk12.map String.toList := by
  decide +kernel
set_option maxRecDepth 100000 in
theorem text13 : Official.wordChunk13.map (wordCharsF 8) = Official.textChunk13.map String.toList := by
  decide +kernel
set_option maxRecDepth 100000 in
theorem text14 : Official.wordChunk14.map (wordCharsF 8) = Official.textChunk14.map String.toList := by
  decide +kernel
set_option maxRecDepth 100000 in
theorem text15 : Official.wordChunk15.map (wordCharsF 8) = Official.textChunk15.map String.toList := by
  decide +kernel

theorem official_text_fuel :
    Official.wordNums.map (wordCharsF 8) = Official.words.map String.toList := by
  unfold Official.wordNums Official.words
  simp only [List.map_append, text0, text1, text2, text3, text4, text5, text6, text7, text8,
    text9, text10, text11, text12, text13, text14, text15]

end BtcHd.Bip39
