/-
Algebra of the Bech32 checksum step: `polymodStep c v = T c ^^^ v` with `T`
GF(2)-linear, 30-bit preserving and injective on 30-bit words; powers of `T`;
the table `Wrow`; syndromes of error patterns and their sparse form.
(The kernel-checked rows enter only in `Lemmas/BchDist.lean`.)
-/
import BtcHd.Lemmas.BchDefs

namespace BtcHd.Bch
open BtcHd GF2 Bech32

/-! ### `T`, `Tf` and `polymodStep` -/

theorem Tf_def (c : Nat) : Tf c =
    ((c &&& 33554431) <<< 5) ^^^ gen 0 * ((c >>> 25) &&& 1) ^^^ gen 1 * ((c >>> 26) &&& 1)
      ^^^ gen 2 * ((c >>> 27) &&& 1) ^^^ gen 3 * ((c >>> 28) &&& 1)
      ^^^ gen 4 * ((c >>> 29) &&& 1) := rfl

private theorem sel_eq (x g : Nat) : (if x &&& 1 = 1 then g else 0) = g * (x &&& 1) := by
  rw [Nat.and_one_is_mod]
  rcases Nat.mod_two_eq_zero_or_one x with h | h <;> simp [h]

/-- `polymodStep` is its linear part plus the input symbol -/
theorem polymodStep_eq (c v : Nat) : polymodStep c v = Tf c ^^^ v := by
  simp only [polymodStep, sel_eq, Tf_def]
  rw [show c >>> 25 >>> 0 = c >>> 25 from rfl, ← Nat.shiftRight_add, ← Nat.shiftRight_add,
    ← Nat.shiftRight_add, ← Nat.shiftRight_add]
  ac_rfl

theorem Tf_eq_T (c : Nat) : Tf c = T c := by
  rw [T, polymodStep_eq, Nat.xor_zero]

theorem polymodStep_eq_T (c v : Nat) : polymodStep c v = T c ^^^ v := by
  rw [polymodStep_eq, Tf_eq_T]

private theorem and_one_cases (x : Nat) : x &&& 1 = 0 ∨ x &&& 1 = 1 := by
  rw [Nat.and_one_is_mod]; exact Nat.mod_two_eq_zero_or_one x

private theorem mul_bit_xor (g a b k : Nat) :
    g * (((a ^^^ b) >>> k) &&& 1) = g * ((a >>> k) &&& 1) ^^^ g * ((b >>> k) &&& 1) := by
  rw [Nat.shiftRight_xor_distrib, Nat.and_xor_distrib_right]
  rcases and_one_cases (a >>> k) with h1 | h1 <;> rcases and_one_cases (b >>> k) with h2 | h2 <;>
    simp [h1, h2]

/-- `T` is GF(2)-linear (on all of `Nat`, in particular on 30-bit words) -/
theorem T_linear (a b : Nat) : T (a ^^^ b) = T a ^^^ T b := by
  simp only [← Tf_eq_T, Tf_def, mul_bit_xor, Nat.and_xor_distrib_right, Nat.shiftLeft_xor_distrib]
  ac_rfl

theorem T_zero : T 0 = 0 := by
  simp [← Tf_eq_T, Tf_def]

private theorem gen_lt : gen 0 < 2 ^ 30 ∧ gen 1 < 2 ^ 30 ∧ gen 2 < 2 ^ 30 ∧ gen 3 < 2 ^ 30 ∧
    gen 4 < 2 ^ 30 := by decide

private theorem mul_bit_lt {g : Nat} (h : g < 2 ^ 30) (x : Nat) : g * (x &&& 1) < 2 ^ 30 := by
  rcases and_one_cases x with h1 | h1 <;> simp [h1, h]

/-- `T` maps every word to a 30-bit word -/
theorem T_lt (c : Nat) : T c < 2 ^ 30 := by
  rw [← Tf_eq_T, Tf_def]
  obtain ⟨g0, g1, g2, g3, g4⟩ := gen_lt
  have h0 : (c &&& 33554431) <<< 5 < 2 ^ 30 := by
    have : c &&& 33554431 ≤ 33554431 := Nat.and_le_right
    rw [Nat.shiftLeft_eq]
    omega
  exact Nat.xor_lt_two_pow (Nat.xor_lt_two_pow (Nat.xor_lt_two_pow (Nat.xor_lt_two_pow
    (Nat.xor_lt_two_pow h0 (mul_bit_lt g0 _)) (mul_bit_lt g1 _)) (mul_bit_lt g2 _))
    (mul_bit_lt g3 _)) (mul_bit_lt g4 _)

/-- the contribution of the top five bits `h = c >>> 25` -/
private def G (h : Nat) : Nat :=
  gen 0 * (h % 2) ^^^ gen 1 * (h / 2 % 2) ^^^ gen 2 * (h / 4 % 2) ^^^ gen 3 * (h / 8 % 2)
    ^^^ gen 4 * (h / 16 % 2)

private theorem Tf_split (c : Nat) : Tf c = (c % 33554432 * 32) ^^^ G (c / 33554432) := by
  rw [Tf_def, G]
  simp only [Nat.and_one_is_mod, Nat.shiftRight_eq_div_pow, Nat.shiftLeft_eq,
    show (33554431 : Nat) = 2 ^ 25 - 1 from rfl, Nat.and_two_pow_sub_one_eq_mod, Nat.div_div_eq_div_mul]
  simp only [Nat.xor_assoc]

/-- the low five bits of the five generator words are linearly independent -/
private theorem G_low : ∀ h < 32, G h % 32 = 0 → h = 0 := by decide

private theorem xor_eq_zero {a b : Nat} (h : a ^^^ b = 0) : a = b := by
  apply Nat.eq_of_testBit_eq
  intro i
  have := congrArg (·.testBit i) h
  simp only [Nat.testBit_xor, Nat.zero_testBit] at this
  cases ha : a.testBit i <;> cases hb : b.testBit i <;> simp [ha, hb] at this ⊢

private theorem T_ker {c : Nat} (hc : c < 2 ^ 30) (h : T c = 0) : c = 0 := by
  rw [← Tf_eq_T, Tf_split] at h
  have hlow := congrArg (· % 2 ^ 5) h
  simp only [Nat.xor_mod_two_pow] at hlow
  have h32 : c % 33554432 * 32 % 2 ^ 5 = 0 := by omega
  rw [h32, Nat.zero_xor] at hlow
  have hhi : c / 33554432 = 0 := G_low _ (by omega) hlow
  rw [hhi] at h
  have hG : G 0 = 0 := by decide
  rw [hG, Nat.xor_zero] at h
  omega

/-- `T` is injective on 30-bit words -/
theorem T_injective {a b : Nat} (ha : a < 2 ^ 30) (hb : b < 2 ^ 30) (h : T a = T b) : a = b := by
  apply xor_eq_zero
  apply T_ker (Nat.xor_lt_two_pow ha hb)
  rw [T_linear, h, Nat.xor_self]

/-! ### powers of `T` -/

/-- `Tpow t x = T^t x` -/
def Tpow : Nat → Nat → Nat
  | 0, x => x
  | t + 1, x => Tpow t (T x)

theorem Tpow_succ' : ∀ (t x : Nat), Tpow (t + 1) x = T (Tpow t x)
  | 0, _ => rfl
  | t + 1, x => by
    show Tpow (t + 1) (T x) = T (Tpow t (T x))
    exact Tpow_succ' t (T x)

theorem Tpow_add (a : Nat) : ∀ (b x : Nat), Tpow (a + b) x = Tpow a (Tpow b x)
  | 0, _ => rfl
  | b + 1, x => by
    show Tpow (a + b) (T x) = Tpow a (Tpow b (T x))
    exact Tpow_add a b (T x)

theorem Tpow_xor : ∀ (t a b : Nat), Tpow t (a ^^^ b) = Tpow t a ^^^ Tpow t b
  | 0, _, _ => rfl
  | t + 1, a, b => by
    show Tpow t (T (a ^^^ b)) = Tpow t (T a) ^^^ Tpow t (T b)
    rw [T_linear, Tpow_xor t]

theorem Tpow_zero : ∀ t : Nat, Tpow t 0 = 0
  | 0 => rfl
  | t + 1 => by
    show Tpow t (T 0) = 0
    rw [T_zero, Tpow_zero t]

theorem Tpow_lt : ∀ (t : Nat) {x : Nat}, x < 2 ^ 30 → Tpow t x < 2 ^ 30
  | 0, _, h => h
  | t + 1, x, _ => Tpow_lt t (T_lt x)

/-- `T^t` is injective on 30-bit words: it has trivial kernel there -/
theorem Tpow_ker : ∀ (t : Nat) {x : Nat}, x < 2 ^ 30 → Tpow t x = 0 → x = 0
  | 0, _, _, h => h
  | t + 1, x, hx, h => T_ker hx (Tpow_ker t (T_lt x) h)

/-! ### the table -/

theorem rows_getD : ∀ (n : Nat) (r : List Nat) (t : Nat), t < n →
    (rows n r).getD t [] = r.map (Tpow t)
  | 0, _, _, h => by omega
  | n + 1, r, 0, _ => by simp [rows, Tpow]
  | n + 1, r, t + 1, h => by
    have := rows_getD n (r.map Tf) t (by omega)
    simp only [rows, List.getD_cons_succ, this, List.map_map]
    apply List.map_congr_left
    intro x _
    simp [Tf_eq_T, Tpow]

/-- row `t` of the table is `[T^t 1, T^t 2, T^t 4, T^t 8, T^t 16]` -/
theorem Wrow_eq {t : Nat} (h : t ≤ 70) : Wrow t = units.map (Tpow t) :=
  rows_getD _ _ _ (by unfold maxLen; omega)

/-- the five bits of a symbol, least significant first -/
def bits5 (v : Nat) : List Bool :=
  [v.testBit 0, v.testBit 1, v.testBit 2, v.testBit 3, v.testBit 4]

theorem comb_units_bits5 : ∀ v < 32, comb units (bits5 v) = v := by decide

theorem bits5_all_false : ∀ v < 32, (∀ c ∈ bits5 v, c = false) → v = 0 := by decide

theorem length_bits5 (v : Nat) : (bits5 v).length = 5 := rfl

theorem length_Wrow {t : Nat} (h : t ≤ 70) : (Wrow t).length = 5 := by
  rw [Wrow_eq h]; rfl

/-- `T^t v` as a combination of row `t` -/
theorem Tpow_eq_comb {t v : Nat} (ht : t ≤ 70) (hv : v < 32) :
    Tpow t v = comb (Wrow t) (bits5 v) := by
  rw [Wrow_eq ht, ← map_comb (Tpow_zero t) (Tpow_xor t), comb_units_bits5 v hv]

/-! ### syndromes -/

/-- syndrome of an error pattern (first entry = highest position) -/
def syn (e : List Nat) : Nat := e.foldl (fun s v => T s ^^^ v) 0

/-- number of non-zero entries -/
def weight (e : List Nat) : Nat := e.countP (· != 0)

theorem foldl_polymodStep_xor : ∀ (xs e : List Nat) (s d : Nat), xs.length = e.length →
    (List.zipWith (· ^^^ ·) xs e).foldl polymodStep (s ^^^ d) =
      xs.foldl polymodStep s ^^^ e.foldl (fun s v => T s ^^^ v) d
  | [], [], _, _, _ => rfl
  | [], _ :: _, _, _, h => by simp at h
  | _ :: _, [], _, _, h => by simp at h
  | x :: xs, y :: e, s, d, h => by
    simp only [List.zipWith_cons_cons, List.foldl_cons]
    have : polymodStep (s ^^^ d) (x ^^^ y) = polymodStep s x ^^^ (T d ^^^ y) := by
      simp only [polymodStep_eq_T, T_linear]; ac_rfl
    rw [this]
    exact foldl_polymodStep_xor xs e _ _ (by simpa using h)

/-- syndrome with position 0 first -/
def synR (r : List Nat) : Nat := r.foldr (fun v s => T s ^^^ v) 0

theorem syn_eq_synR (e : List Nat) : syn e = synR e.reverse := by
  simp [syn, synR, List.foldr_reverse]

theorem synR_lt : ∀ {r : List Nat}, (∀ v ∈ r, v < 32) → synR r < 2 ^ 30
  | [], _ => by simp [synR]
  | v :: r, h => by
    show T (synR r) ^^^ v < 2 ^ 30
    exact Nat.xor_lt_two_pow (T_lt _) (by have := h v (List.mem_cons_self ..); omega)

/-- non-zero entries with their positions, starting at position `t0` -/
def sparse : Nat → List Nat → List (Nat × Nat)
  | _, [] => []
  | t, v :: r => if v = 0 then sparse (t + 1) r else (t, v) :: sparse (t + 1) r

/-- syndrome of a sparse pattern -/
def synS : List (Nat × Nat) → Nat
  | [] => 0
  | tv :: ps => Tpow tv.1 tv.2 ^^^ synS ps

theorem Tpow_synR : ∀ (r : List Nat) (t : Nat), Tpow t (synR r) = synS (sparse t r)
  | [], t => by simp [synR, sparse, synS, Tpow_zero]
  | v :: r, t => by
    have ih := Tpow_synR r (t + 1)
    have h1 : Tpow t (synR (v :: r)) = Tpow (t + 1) (synR r) ^^^ Tpow t v := by
      show Tpow t (T (synR r) ^^^ v) = _
      rw [Tpow_xor]; rfl
    rw [h1, ih, show sparse t (v :: r) =
      if v = 0 then sparse (t + 1) r else (t, v) :: sparse (t + 1) r from rfl]
    split
    · next hv => subst hv; simp [Tpow_zero]
    · simp only [synS]; ac_rfl

theorem length_sparse : ∀ (r : List Nat) (t : Nat), (sparse t r).length = weight r
  | [], _ => rfl
  | v :: r, t => by
    rw [show sparse t (v :: r) =
      if v = 0 then sparse (t + 1) r else (t, v) :: sparse (t + 1) r from rfl]
    split
    · next hv => subst hv; simpa [weight] using length_sparse r (t + 1)
    · next hv => simpa [weight, hv] using length_sparse r (t + 1)

theorem weight_reverse (e : List Nat) : weight e.reverse = weight e := by
  simp [weight]

/-- entries of `sparse t r`: position in `[t, t + |r|)`, value a non-zero entry of `r` -/
theorem mem_sparse : ∀ {r : List Nat} {t : Nat} {q : Nat × Nat}, q ∈ sparse t r →
    t ≤ q.1 ∧ q.1 < t + r.length ∧ q.2 ≠ 0 ∧ q.2 ∈ r
  | [], _, _, h => by simp [sparse] at h
  | v :: r, t, q, h => by
    rw [show sparse t (v :: r) =
      if v = 0 then sparse (t + 1) r else (t, v) :: sparse (t + 1) r from rfl] at h
    have rec_ : q ∈ sparse (t + 1) r → t ≤ q.1 ∧ q.1 < t + (v :: r).length ∧ q.2 ≠ 0 ∧ q.2 ∈ v :: r := by
      intro hq
      obtain ⟨h1, h2, h3, h4⟩ := mem_sparse hq
      refine ⟨by omega, by simp only [List.length_cons]; omega, h3, List.mem_cons_of_mem _ h4⟩
    split at h
    · exact rec_ h
    · next hv =>
      rcases List.mem_cons.1 h with h | h
      · subst h
        exact ⟨Nat.le_refl _, by simp, hv, List.mem_cons_self ..⟩
      · exact rec_ h

/-- positions in `sparse t r` strictly increase -/
theorem sparse_sorted : ∀ (r : List Nat) (t : Nat),
    (sparse t r).Pairwise (fun p q => p.1 < q.1)
  | [], _ => by simp [sparse]
  | v :: r, t => by
    rw [show sparse t (v :: r) =
      if v = 0 then sparse (t + 1) r else (t, v) :: sparse (t + 1) r from rfl]
    split
    · exact sparse_sorted r (t + 1)
    · refine List.pairwise_cons.2 ⟨?_, sparse_sorted r (t + 1)⟩
      intro q hq
      have := (mem_sparse hq).1
      show t < q.1
      omega

/-! ### substitutions as XOR patterns -/

/-- number of positions at which two symbol strings differ (Hamming distance for equal lengths) -/
def diffCount : List Nat → List Nat → Nat
  | x :: xs, y :: ys => (if x = y then 0 else 1) + diffCount xs ys
  | _, _ => 0

private theorem xor_xor_self (x y : Nat) : x ^^^ (x ^^^ y) = y := by
  rw [← Nat.xor_assoc, Nat.xor_self, Nat.zero_xor]

/-- `ys` is `xs` with the pattern `xs ⊕ ys` XOR-ed on -/
theorem zipWith_xor_pattern : ∀ (xs ys : List Nat), xs.length = ys.length →
    List.zipWith (· ^^^ ·) xs (List.zipWith (· ^^^ ·) xs ys) = ys
  | [], [], _ => rfl
  | [], _ :: _, h => by simp at h
  | _ :: _, [], h => by simp at h
  | x :: xs, y :: ys, h => by
    simp only [List.zipWith_cons_cons, xor_xor_self]
    rw [zipWith_xor_pattern xs ys (by simpa using h)]

theorem pattern_lt : ∀ (xs ys : List Nat), (∀ v ∈ xs, v < 32) → (∀ v ∈ ys, v < 32) →
    ∀ v ∈ List.zipWith (· ^^^ ·) xs ys, v < 32
  | [], _, _, _, v, h => by simp at h
  | _ :: _, [], _, _, v, h => by simp at h
  | x :: xs, y :: ys, hx, hy, v, h => by
    simp only [List.zipWith_cons_cons, List.mem_cons] at h
    rcases h with h | h
    · subst h
      exact Nat.xor_lt_two_pow (n := 5) (hx x (List.mem_cons_self ..)) (hy y (List.mem_cons_self ..))
    · exact pattern_lt xs ys (fun u hu => hx u (List.mem_cons_of_mem _ hu))
        (fun u hu => hy u (List.mem_cons_of_mem _ hu)) v h

private theorem xor_eq_zero_iff' (x y : Nat) : x ^^^ y = 0 ↔ x = y :=
  ⟨xor_eq_zero, fun h => by rw [h, Nat.xor_self]⟩

/-- the weight of the pattern `xs ⊕ ys` is the number of substituted positions -/
theorem weight_pattern : ∀ (xs ys : List Nat),
    weight (List.zipWith (· ^^^ ·) xs ys) = diffCount xs ys
  | [], _ => by simp [weight, diffCount]
  | _ :: _, [] => by simp [weight, diffCount]
  | x :: xs, y :: ys => by
    have ih := weight_pattern xs ys
    unfold weight at ih ⊢
    simp only [List.zipWith_cons_cons, List.countP_cons, diffCount, ih]
    by_cases h : x = y
    · subst h; simp [Nat.xor_self]
    · have : x ^^^ y ≠ 0 := fun h0 => h ((xor_eq_zero_iff' x y).1 h0)
      simp [h, this]; omega

theorem length_pattern (xs ys : List Nat) (h : xs.length = ys.length) :
    (List.zipWith (· ^^^ ·) xs ys).length = xs.length := by
  simp [h]

end BtcHd.Bch
