/-
Fixed-width big-endian byte strings (`int.to_bytes(len, 'big')` / `int.from_bytes`):
length, round trips, concatenation and value bounds.  Used by C07 / C09.
-/
import BtcHd.Model.Basic

namespace BtcHd.BeFixed
open BtcHd

theorem beFixed_length (len n : Nat) : (beFixed len n).length = len := by
  induction len generalizing n with
  | zero => rfl
  | succ len ih => simp [beFixed, ih]

theorem beToNat_nil : beToNat ([] : Bytes) = 0 := rfl

theorem beToNat_concat (bs : Bytes) (b : UInt8) :
    beToNat (bs ++ [b]) = beToNat bs * 256 + b.toNat := by
  simp [beToNat, List.foldl_append]

private theorem foldl_acc (bs : Bytes) (acc : Nat) :
    bs.foldl (fun a (b : UInt8) => a * 256 + b.toNat) acc
      = acc * 256 ^ bs.length + bs.foldl (fun a (b : UInt8) => a * 256 + b.toNat) 0 := by
  induction bs generalizing acc with
  | nil => simp
  | cons b bs ih =>
    simp only [List.foldl_cons, List.length_cons]
    rw [ih (acc * 256 + b.toNat), ih (0 * 256 + b.toNat)]
    simp only [Nat.zero_mul, Nat.zero_add, Nat.pow_succ, Nat.add_mul]
    rw [Nat.mul_assoc, Nat.mul_comm 256, Nat.add_assoc]

theorem beToNat_cons (b : UInt8) (bs : Bytes) :
    beToNat (b :: bs) = b.toNat * 256 ^ bs.length + beToNat bs := by
  unfold beToNat
  rw [List.foldl_cons, foldl_acc]
  simp

theorem beToNat_append (xs ys : Bytes) :
    beToNat (xs ++ ys) = beToNat xs * 256 ^ ys.length + beToNat ys := by
  unfold beToNat
  rw [List.foldl_append, foldl_acc]

theorem beToNat_zero_cons (bs : Bytes) : beToNat (0 :: bs) = beToNat bs := by
  rw [beToNat_cons]; simp

theorem beToNat_lt (bs : Bytes) : beToNat bs < 256 ^ bs.length := by
  induction bs with
  | nil => simp [beToNat]
  | cons b bs ih =>
    rw [beToNat_cons, List.length_cons, Nat.pow_succ]
    have hb : b.toNat ≤ 255 := by have := b.toNat_lt; omega
    have := Nat.mul_le_mul_right (256 ^ bs.length) hb
    omega

/-- `int.from_bytes(n.to_bytes(len))` is `n` reduced to `len` bytes -/
theorem beToNat_beFixed_mod (len n : Nat) : beToNat (beFixed len n) = n % 256 ^ len := by
  induction len generalizing n with
  | zero => simp [beFixed, beToNat, Nat.mod_one]
  | succ len ih =>
    rw [beFixed, beToNat_concat, ih, Nat.pow_succ]
    have h1 : (UInt8.ofNat (n % 256)).toNat = n % 256 := by
      simp
    rw [h1, Nat.mul_comm (256 ^ len) 256, Nat.mod_mul]
    omega

theorem beToNat_beFixed {len n : Nat} (h : n < 256 ^ len) : beToNat (beFixed len n) = n := by
  rw [beToNat_beFixed_mod, Nat.mod_eq_of_lt h]

theorem beFixed_beToNat {len : Nat} {bs : Bytes} (h : bs.length = len) :
    beFixed len (beToNat bs) = bs := by
  induction len generalizing bs with
  | zero => rw [List.length_eq_zero_iff.mp h]; rfl
  | succ len ih =>
    have hne : bs ≠ [] := by intro e; rw [e] at h; simp at h
    obtain ⟨xs, b, rfl⟩ : ∃ xs b, bs = xs ++ [b] :=
      ⟨bs.dropLast, bs.getLast hne, (List.dropLast_concat_getLast hne).symm⟩
    rw [List.length_append, List.length_singleton] at h
    rw [beFixed, beToNat_concat]
    have hb := b.toNat_lt
    have h1 : (beToNat xs * 256 + b.toNat) / 256 = beToNat xs := by omega
    have h2 : (beToNat xs * 256 + b.toNat) % 256 = b.toNat := by omega
    rw [h1, h2, ih (by omega)]
    simp

/-- a fixed-width encoding is the value-preserving unique one: two strings of the same
length with the same value are equal -/
theorem beToNat_inj {xs ys : Bytes} (hl : xs.length = ys.length)
    (h : beToNat xs = beToNat ys) : xs = ys := by
  rw [← beFixed_beToNat (bs := xs) rfl, ← beFixed_beToNat (bs := ys) rfl, hl, h]

theorem toBytesBE_eq_some {len n : Nat} (h : n < 256 ^ len) :
    toBytesBE len n = some (beFixed len n) := by
  simp [toBytesBE, h]

theorem toBytesBE_eq_none {len n : Nat} (h : 256 ^ len ≤ n) : toBytesBE len n = none := by
  simp [toBytesBE, Nat.not_lt.mpr h]

end BtcHd.BeFixed
