/-
Helper lemmas for C09: the bytes behind a WIF string and its first character.
-/
import BtcHd.Lemmas.Base58Bounds
import BtcHd.Model.Keys

namespace BtcHd.Wif
open BtcHd BeFixed Keys

variable {Pt : Type}

/-- the byte string that `wif` Base58-encodes: prefix byte, then 37 (compressed) or 36 bytes -/
theorem wif_bytes (P : Prims Pt) (hlen : ∀ x, 4 ≤ (P.hash256 x).length) (k : Nat) (c t : Bool) :
    ∃ rest : Bytes, rest.length = (if c then 37 else 36) ∧
      wif P k c t = Base58.encode ((if t then 0xef else 0x80) :: rest) := by
  have hpre : (if t then Generated.wifTest else Generated.wifMain : UInt8)
      = (if t then 0xef else 0x80) := by cases t <;> rfl
  refine ⟨privBytes k ++ ((if c then [1] else []) ++
    (P.hash256 ([if t then 0xef else 0x80] ++ privBytes k ++ (if c then [1] else []))).take 4),
    ?_, ?_⟩
  · have := hlen ([if t then 0xef else 0x80] ++ privBytes k ++ (if c then [1] else []))
    rw [List.length_append, List.length_append, List.length_take, Nat.min_eq_left this, privBytes,
      beFixed_length]
    cases c <;> rfl
  · unfold wif Base58.encodeCheck
    simp only [hpre, List.cons_append, List.append_assoc, List.nil_append]

theorem alpha_K : Base58.alphaAt 18 = 'K' := by decide
theorem alpha_L : Base58.alphaAt 19 = 'L' := by decide
theorem alpha_c : Base58.alphaAt 35 = 'c' := by decide
theorem alpha_5 : Base58.alphaAt 4 = '5' := by decide
theorem alpha_9 : Base58.alphaAt 8 = '9' := by decide

/-- compressed mainnet: `K` or `L`, 52 characters -/
theorem wif_first_KL (rest : Bytes) (hl : rest.length = 37) :
    ∃ tl, (Base58.encode (0x80 :: rest) = 'K' :: tl ∨ Base58.encode (0x80 :: rest) = 'L' :: tl) ∧
      tl.length = 51 := by
  have := Base58.encode_cons_first_two 0x80 rest (by decide) (a := 18) (d := 51) (by decide)
    (by decide) (by rw [hl]; decide) (by rw [hl]; decide)
  rwa [alpha_K, alpha_L] at this

/-- compressed testnet: `c`, 52 characters -/
theorem wif_first_c (rest : Bytes) (hl : rest.length = 37) :
    ∃ tl, Base58.encode (0xef :: rest) = 'c' :: tl ∧ tl.length = 51 := by
  have := Base58.encode_cons_first 0xef rest (by decide) (a := 35) (d := 51) (by decide)
    (by decide) (by rw [hl]; decide) (by rw [hl]; decide)
  rwa [alpha_c] at this

/-- uncompressed mainnet: `5`, 51 characters -/
theorem wif_first_5 (rest : Bytes) (hl : rest.length = 36) :
    ∃ tl, Base58.encode (0x80 :: rest) = '5' :: tl ∧ tl.length = 50 := by
  have := Base58.encode_cons_first 0x80 rest (by decide) (a := 4) (d := 50) (by decide)
    (by decide) (by rw [hl]; decide) (by rw [hl]; decide)
  rwa [alpha_5] at this

/-- uncompressed testnet: `9`, 51 characters -/
theorem wif_first_9 (rest : Bytes) (hl : rest.length = 36) :
    ∃ tl, Base58.encode (0xef :: rest) = '9' :: tl ∧ tl.length = 50 := by
  have := Base58.encode_cons_first 0xef rest (by decide) (a := 8) (d := 50) (by decide)
    (by decide) (by rw [hl]; decide) (by rw [hl]; decide)
  rwa [alpha_9] at this

end BtcHd.Wif
