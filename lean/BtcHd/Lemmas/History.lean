/-
Helper definitions and lemmas for C13 (`Model/History.lean`): unfolding lemmas for
`step`, the invariant `Inv` tying the node table to the recorded paths, the ghost
state (`Ghost`: recorded paths and generator views, NO node table) with the stateless
step function `pureStep`, and the list facts they need.
-/
import BtcHd.Lemmas.Path
import BtcHd.Model.History

namespace BtcHd.History
open BtcHd Bip32 Wallet

variable {Pt : Type}

/-! ### generic list / option facts -/

theorem mapM_option_nil {α β : Type} (f : α → Option β) : List.mapM f [] = some [] := by
  simp

theorem mapM_option_cons {α β : Type} (f : α → Option β) (a : α) (l : List α) :
    List.mapM f (a :: l) = (f a).bind fun b => (List.mapM f l).bind fun bs => some (b :: bs) := by
  simp [List.mapM_cons]

theorem mapM_some_forall₂ {α β : Type} {f : α → Option β} {l : List α} {bs : List β}
    (h : l.mapM f = some bs) : List.Forall₂ (fun a b => f a = some b) l bs := by
  induction l generalizing bs with
  | nil =>
    rw [mapM_option_nil] at h
    cases h
    exact .nil
  | cons a l ih =>
    rw [mapM_option_cons] at h
    cases ha : f a with
    | none => rw [ha] at h; cases h
    | some b =>
      rw [ha, Option.bind_some] at h
      cases hl : List.mapM f l with
      | none => rw [hl] at h; cases h
      | some bs' =>
        rw [hl, Option.bind_some] at h
        cases h
        exact .cons ha (ih hl)

theorem mapM_option_congr {α β : Type} {f g : α → Option β} {l : List α}
    (h : ∀ a ∈ l, f a = g a) : l.mapM f = l.mapM g := by
  induction l with
  | nil => rw [mapM_option_nil, mapM_option_nil]
  | cons a l ih =>
    rw [mapM_option_cons, mapM_option_cons, h a (List.mem_cons_self ..),
      ih fun x hx => h x (List.mem_cons_of_mem _ hx)]

theorem forall₂_length {α β : Type} {R : α → β → Prop} {l : List α} {bs : List β}
    (h : List.Forall₂ R l bs) : l.length = bs.length := by
  induction h with
  | nil => rfl
  | cons _ _ ih => simp [ih]

theorem forall₂_zip_mem {α β : Type} {R : α → β → Prop} {l : List α} {bs : List β}
    (h : List.Forall₂ R l bs) : ∀ p ∈ List.zip bs l, R p.2 p.1 := by
  induction h with
  | nil => intro p hp; cases hp
  | cons hr _ ih =>
    intro p hp
    rw [List.zip_cons_cons] at hp
    rcases List.mem_cons.mp hp with rfl | hp
    · exact hr
    · exact ih p hp

theorem map_snd_zip_of_length {α β : Type} {l : List α} {bs : List β} (h : bs.length = l.length) :
    (List.zip bs l).map (·.2) = l := by
  induction bs generalizing l with
  | nil =>
    cases l with
    | nil => rfl
    | cons _ _ => simp at h
  | cons b bs ih =>
    cases l with
    | nil => simp at h
    | cons a l =>
      rw [List.zip_cons_cons, List.map_cons, ih (by simpa using h)]

/-! ### `bumpChildren` only touches the children counters -/

theorem bump_length (l : List (Node × Nat)) (h k : Nat) : (bumpChildren l h k).length = l.length :=
  List.length_modify ..

theorem bump_getElem?_fst (l : List (Node × Nat)) (h k j : Nat) :
    ((bumpChildren l h k)[j]?).map (·.1) = (l[j]?).map (·.1) := by
  unfold bumpChildren
  rw [List.getElem?_modify]
  cases l[j]? with
  | none => rfl
  | some e =>
    simp only [Option.map_eq_map, Option.map_some]
    split <;> rfl

theorem bump_getElem?_some {l : List (Node × Nat)} {h k j : Nat} {nd : Node} {c : Nat}
    (hh : (bumpChildren l h k)[j]? = some (nd, c)) : ∃ c', l[j]? = some (nd, c') := by
  have := bump_getElem?_fst l h k j
  rw [hh] at this
  cases hl : l[j]? with
  | none => rw [hl] at this; cases this
  | some e =>
    rw [hl] at this
    simp only [Option.map_some, Option.some.injEq] at this
    exact ⟨e.2, by rw [this]⟩

theorem bump_getElem?_of_some {l : List (Node × Nat)} {j : Nat} {nd : Node} {c : Nat} (h k : Nat)
    (hh : l[j]? = some (nd, c)) : ∃ c', (bumpChildren l h k)[j]? = some (nd, c') := by
  have := bump_getElem?_fst l h k j
  rw [hh] at this
  cases hl : (bumpChildren l h k)[j]? with
  | none => rw [hl] at this; cases this
  | some e =>
    rw [hl] at this
    simp only [Option.map_some, Option.some.injEq] at this
    exact ⟨e.2, by rw [← this]⟩

/-! ### unfolding lemmas for `step` (no `let`s) -/

theorem step_byPath (P : Prims Pt) (s : State) (path : List Char) :
    step P s (.byPath path) =
      match Path.parse path with
      | none => (s, .err)
      | some p =>
        match derivePath P s.wallet.master p.levels with
        | none => (s, .err)
        | some n =>
          (if p.levels = [] then s
           else alloc { s with nodes := bumpChildren s.nodes 0 (if p.levels = [] then 0 else 1) } n
             p.levels, .node n) := rfl

theorem step_ckd (P : Prims Pt) (s : State) (h i : Nat) :
    step P s (.ckd h i) =
      match s.nodes[h]?, s.paths[h]? with
      | some (nd, _), some path =>
        match Bip32.ckd P nd i with
        | none => (s, .err)
        | some c => (alloc { s with nodes := bumpChildren s.nodes h 1 } c (path ++ [i]), .node c)
      | _, _ => (s, .err) := rfl

theorem step_genChildren (P : Prims Pt) (s : State) (h a b : Nat) :
    step P s (.genChildren h a b) =
      match s.nodes[h]?, s.paths[h]? with
      | some (nd, _), some path =>
        match generateChildren P nd a b with
        | none => (s, .err)
        | some cs =>
          ((List.zip cs (List.range' a (b - a))).foldl
              (fun st ci => alloc st ci.1 (path ++ [ci.2]))
              { s with nodes := bumpChildren s.nodes h cs.length }, .nodes cs)
      | _, _ => (s, .err) := rfl

theorem step_derivePath (P : Prims Pt) (s : State) (h : Nat) (is : List Nat) :
    step P s (.derivePath h is) =
      match s.nodes[h]?, s.paths[h]? with
      | some (nd, _), some path =>
        match Bip32.derivePath P nd is with
        | none => (s, .err)
        | some c =>
          if is = [] then (s, .node c)
          else (alloc { s with nodes := bumpChildren s.nodes h 1 } c (path ++ is), .node c)
      | _, _ => (s, .err) := rfl

theorem step_addr (P : Prims Pt) (s : State) (h : Nat) (k : AddrKind) :
    step P s (.addr h k) =
      match s.nodes[h]? with
      | some (nd, _) => (s, outOpt .text (addrOf P s.wallet.testnet k nd))
      | none => (s, .err) := rfl

theorem step_extKeys (P : Prims Pt) (s : State) (h : Nat) :
    step P s (.extKeys h) =
      match s.nodes[h]? with
      | some (nd, _) => (s, outOpt .json (nodeExtendedKeys P s.wallet nd))
      | none => (s, .err) := rfl

theorem step_newGen (P : Prims Pt) (s : State) (h : Nat) (k : AddrKind) :
    step P s (.newGen h k) =
      if h < s.nodes.length then
        ({ s with gens := s.gens ++ [⟨h, k, false, 0, false⟩] }, .handle s.gens.length)
      else (s, .err) := rfl

theorem step_next (P : Prims Pt) (s : State) (g : Nat) :
    step P s (.next g) = step.advance P s g none := rfl

theorem step_send (P : Prims Pt) (s : State) (g k : Nat) :
    step P s (.send g k) = step.advance P s g (some k) := rfl

theorem step_bip85 (P : Prims Pt) (s : State) (app : Nat) (param index : Int) :
    step P s (.bip85 app param index) =
      (s, if s.wallet.watchOnly then .err
          else outOpt .text (bip85Call P s.wallet.master app param index)) := rfl

theorem step_report (P : Prims Pt) (s : State) (acct a b : Nat) :
    step P s (.report acct a b) = (s, outOpt .json (generate P s.wallet acct a b)) := rfl

theorem step_wasabi (P : Prims Pt) (s : State) :
    step P s .wasabi = (s, outOpt .json (Wallet.wasabi P s.wallet)) := rfl

theorem step_rootKey (P : Prims Pt) (s : State) :
    step P s .rootKey = (s, outOpt .text (rootKeyOut P s.wallet)) := rfl

/-- what `gen.send(k)` / `next(gen)` adds to the generator's index (`adder or 1`) -/
def sendIncr : Option Nat → Nat
  | some k => if k = 0 then 1 else k
  | none => 1

/-- the index a generator derives next: `0` on the first `next`, else `index + (sent or 1)` -/
def advIndex (started : Bool) (index : Nat) (sent : Option Nat) : Nat :=
  if started then index + sendIncr sent else 0

theorem advance_eq (P : Prims Pt) (s : State) (g : Nat) (sent : Option Nat) :
    step.advance P s g sent =
      match s.gens[g]? with
      | none => (s, .err)
      | some gen =>
        if gen.dead then (s, .err)
        else if ¬ gen.started ∧ sent.isSome then (s, .err)
        else
          match s.nodes[gen.node]? with
          | none => (s, .err)
          | some (nd, _) =>
            match Bip32.ckd P nd (advIndex gen.started gen.index sent) with
            | none => ({ s with gens := s.gens.set g { gen with dead := true } }, .err)
            | some c =>
              match addrOf P s.wallet.testnet gen.kind c with
              | none =>
                ({ s with nodes := bumpChildren s.nodes gen.node 1,
                          gens := s.gens.set g { gen with dead := true } }, .err)
              | some a =>
                ({ s with nodes := bumpChildren s.nodes gen.node 1,
                          gens := s.gens.set g
                            { gen with started := true,
                                       index := advIndex gen.started gen.index sent } },
                 .pair (nodeRepr c) a) := by
  cases sent <;> rfl

/-! ### the invariant -/

/-- Every entry of the node table IS the pure derivation of the wallet's master node along
its recorded path; handle 0 is the master itself; generators point into the table. -/
structure Inv (P : Prims Pt) (w : Wallet) (s : State) : Prop where
  wallet : s.wallet = w
  len : s.nodes.length = s.paths.length
  root : (s.nodes[0]?).map (·.1) = some w.master
  rootPath : s.paths[0]? = some []
  table : ∀ (h : Nat) (nd : Node) (c : Nat) (path : List Nat), s.nodes[h]? = some (nd, c) → s.paths[h]? = some path →
    derivePath P w.master path = some nd
  gens : ∀ gen ∈ s.gens, gen.node < s.nodes.length

theorem inv_init (P : Prims Pt) (w : Wallet) : Inv P w (init w) where
  wallet := rfl
  len := rfl
  root := rfl
  rootPath := rfl
  table := by
    intro h nd c path h1 h2
    cases h with
    | zero =>
      simp only [init, List.getElem?_cons_zero, Option.some.injEq, Prod.mk.injEq] at h1 h2
      rw [← h2, ← h1.1]
      rfl
    | succ n => simp [init] at h1
  gens := by intro gen hg; cases hg

namespace Inv

variable {P : Prims Pt} {w : Wallet} {s : State}

theorem nodes_pos (hinv : Inv P w s) : 0 < s.nodes.length := by
  have := hinv.root
  cases h : s.nodes[0]? with
  | none => rw [h] at this; cases this
  | some e => exact (List.getElem?_eq_some_iff.mp h).1

/-- a recorded path has a table entry, which is the derivation along that path -/
theorem of_path (hinv : Inv P w s) {h : Nat} {path : List Nat} (hp : s.paths[h]? = some path) :
    ∃ nd c, s.nodes[h]? = some (nd, c) ∧ derivePath P w.master path = some nd := by
  have hlt : h < s.nodes.length := by
    rw [hinv.len]; exact (List.getElem?_eq_some_iff.mp hp).1
  cases hn : s.nodes[h]? with
  | none => exact absurd (List.getElem?_eq_none_iff.mp hn) (by omega)
  | some e =>
    obtain ⟨nd, c⟩ := e
    exact ⟨nd, c, rfl, hinv.table h nd c path hn hp⟩

/-- a table entry has a recorded path, along which it is the derivation -/
theorem of_node (hinv : Inv P w s) {h : Nat} {nd : Node} {c : Nat} (hn : s.nodes[h]? = some (nd, c)) :
    ∃ path, s.paths[h]? = some path ∧ derivePath P w.master path = some nd := by
  have hlt : h < s.paths.length := by
    rw [← hinv.len]; exact (List.getElem?_eq_some_iff.mp hn).1
  cases hp : s.paths[h]? with
  | none => exact absurd (List.getElem?_eq_none_iff.mp hp) (by omega)
  | some path => exact ⟨path, rfl, hinv.table h nd c path hn hp⟩

theorem nodes_none_of_paths_none (hinv : Inv P w s) {h : Nat} (hp : s.paths[h]? = none) :
    s.nodes[h]? = none := by
  rw [List.getElem?_eq_none_iff] at hp ⊢
  rw [hinv.len]; exact hp

/-- bumping a children counter keeps the invariant -/
theorem bump (hinv : Inv P w s) (h k : Nat) :
    Inv P w { s with nodes := bumpChildren s.nodes h k } where
  wallet := hinv.wallet
  len := by simp only [bump_length]; exact hinv.len
  root := by simp only [bump_getElem?_fst]; exact hinv.root
  rootPath := hinv.rootPath
  table := by
    intro h' nd c path h1 h2
    obtain ⟨c', hc'⟩ := bump_getElem?_some h1
    exact hinv.table h' nd c' path hc' h2
  gens := by
    intro gen hg
    simp only [bump_length]
    exact hinv.gens gen hg

/-- allocating a handle for a node that is the derivation along `path` keeps the invariant -/
theorem alloc (hinv : Inv P w s) {n : Node} {path : List Nat}
    (hd : derivePath P w.master path = some n) : Inv P w (alloc s n path) where
  wallet := hinv.wallet
  len := by simp only [History.alloc, List.length_append, List.length_cons, List.length_nil, hinv.len]
  root := by
    simp only [History.alloc]
    rw [List.getElem?_append_left hinv.nodes_pos]; exact hinv.root
  rootPath := by
    simp only [History.alloc]
    rw [List.getElem?_append_left (by rw [← hinv.len]; exact hinv.nodes_pos)]; exact hinv.rootPath
  table := by
    intro h nd c p h1 h2
    simp only [History.alloc] at h1 h2
    rw [List.getElem?_append] at h1 h2
    by_cases hlt : h < s.nodes.length
    · rw [if_pos hlt] at h1
      rw [if_pos (by rw [← hinv.len]; exact hlt)] at h2
      exact hinv.table h nd c p h1 h2
    · rw [if_neg hlt] at h1
      rw [if_neg (by rw [← hinv.len]; exact hlt)] at h2
      have h0 : h - s.nodes.length = 0 := by
        cases hk : h - s.nodes.length with
        | zero => rfl
        | succ m => rw [hk] at h1; simp at h1
      rw [h0] at h1
      rw [← hinv.len, h0] at h2
      simp only [List.getElem?_cons_zero, Option.some.injEq, Prod.mk.injEq] at h1 h2
      rw [← h2, ← h1.1]; exact hd
  gens := by
    intro gen hg
    simp only [History.alloc, List.length_append, List.length_cons, List.length_nil]
    have := hinv.gens gen hg
    omega

theorem foldl_alloc (path : List Nat) (l : List (Node × Nat)) :
    ∀ {st : State}, Inv P w st →
      (∀ ci ∈ l, derivePath P w.master (path ++ [ci.2]) = some ci.1) →
      Inv P w (l.foldl (fun st ci => History.alloc st ci.1 (path ++ [ci.2])) st) := by
  induction l with
  | nil => intro st h _; exact h
  | cons ci l ih =>
    intro st h hl
    rw [List.foldl_cons]
    exact ih (h.alloc (hl ci (List.mem_cons_self ..)))
      fun x hx => hl x (List.mem_cons_of_mem _ hx)

end Inv

/-! ### shape of the state after a fold of `alloc` -/

theorem foldl_alloc_wallet (path : List Nat) (l : List (Node × Nat)) (st : State) :
    (l.foldl (fun st ci => alloc st ci.1 (path ++ [ci.2])) st).wallet = st.wallet := by
  induction l generalizing st with
  | nil => rfl
  | cons ci l ih => rw [List.foldl_cons, ih]; rfl

theorem foldl_alloc_gens (path : List Nat) (l : List (Node × Nat)) (st : State) :
    (l.foldl (fun st ci => alloc st ci.1 (path ++ [ci.2])) st).gens = st.gens := by
  induction l generalizing st with
  | nil => rfl
  | cons ci l ih => rw [List.foldl_cons, ih]; rfl

theorem foldl_alloc_paths (path : List Nat) (l : List (Node × Nat)) (st : State) :
    (l.foldl (fun st ci => alloc st ci.1 (path ++ [ci.2])) st).paths =
      st.paths ++ l.map (fun ci => path ++ [ci.2]) := by
  induction l generalizing st with
  | nil => simp
  | cons ci l ih =>
    rw [List.foldl_cons, ih]
    simp [alloc]

theorem foldl_alloc_nodes (path : List Nat) (l : List (Node × Nat)) (st : State) :
    (l.foldl (fun st ci => alloc st ci.1 (path ++ [ci.2])) st).nodes =
      st.nodes ++ l.map (fun ci => (ci.1, 0)) := by
  induction l generalizing st with
  | nil => simp
  | cons ci l ih =>
    rw [List.foldl_cons, ih]
    simp [alloc]

/-! ### facts linking `ckd` on a table entry to derivations from the root -/

theorem derive_snoc {P : Prims Pt} {root nd : Node} {path : List Nat}
    (hd : derivePath P root path = some nd) (i : Nat) :
    derivePath P root (path ++ [i]) = ckd P nd i := by
  rw [derivePath_append, hd, Option.bind_some, derivePath_cons]
  cases ckd P nd i <;> rfl

theorem derive_app {P : Prims Pt} {root nd : Node} {path : List Nat}
    (hd : derivePath P root path = some nd) (is : List Nat) :
    derivePath P root (path ++ is) = derivePath P nd is := by
  rw [derivePath_append, hd, Option.bind_some]

theorem generateChildren_eq {P : Prims Pt} {root nd : Node} {path : List Nat}
    (hd : derivePath P root path = some nd) (a b : Nat) :
    generateChildren P nd a b =
      (List.range' a (b - a)).mapM (fun i => derivePath P root (path ++ [i])) := by
  unfold generateChildren
  exact mapM_option_congr fun i _ => (derive_snoc hd i).symm

/-! ### every API call keeps the invariant -/

theorem inv_advance {P : Prims Pt} {w : Wallet} {s : State} (hinv : Inv P w s) (g : Nat)
    (sent : Option Nat) : Inv P w (step.advance P s g sent).1 := by
  rw [advance_eq]
  split
  · exact hinv
  · next gen hg =>
    have hset : ∀ gen' : Gen, gen'.node = gen.node → ∀ {st : State}, Inv P w st →
        st.gens = s.gens → Inv P w { st with gens := s.gens.set g gen' } := by
      intro gen' hnode st hst hgs
      refine ⟨hst.wallet, hst.len, hst.root, hst.rootPath, hst.table, ?_⟩
      intro x hx
      rcases List.mem_or_eq_of_mem_set hx with hx | rfl
      · exact hst.gens x (hgs ▸ hx)
      · rw [hnode]
        exact hst.gens gen (hgs ▸ List.mem_of_getElem? hg)
    split
    · exact hinv
    · split
      · exact hinv
      · split
        · exact hinv
        · split
          · exact hset { gen with dead := true } rfl hinv rfl
          · split
            · exact hset { gen with dead := true } rfl (hinv.bump gen.node 1) rfl
            · exact hset { gen with started := true, index := advIndex gen.started gen.index sent }
                rfl (hinv.bump gen.node 1) rfl

theorem inv_step {P : Prims Pt} {w : Wallet} {s : State} (hinv : Inv P w s) (op : Op) :
    Inv P w (step P s op).1 := by
  cases op with
  | byPath path =>
    rw [step_byPath]
    split
    · exact hinv
    · next p _ =>
      split
      · exact hinv
      · next n hn =>
        dsimp only
        split
        · exact hinv
        · rw [hinv.wallet] at hn
          exact (hinv.bump 0 _).alloc hn
  | ckd h i =>
    rw [step_ckd]
    split
    · next nd cnt path hn hp =>
      split
      · exact hinv
      · next c hc =>
        refine (hinv.bump h 1).alloc ?_
        rw [derive_snoc (hinv.table h nd cnt path hn hp)]
        exact hc
    · exact hinv
  | genChildren h a b =>
    rw [step_genChildren]
    split
    · next nd cnt path hn hp =>
      split
      · exact hinv
      · next cs hcs =>
        refine Inv.foldl_alloc path _ (hinv.bump h cs.length) ?_
        have hd := hinv.table h nd cnt path hn hp
        intro ci hci
        rw [derive_snoc hd]
        exact forall₂_zip_mem (mapM_some_forall₂ hcs) ci hci
    · exact hinv
  | derivePath h is =>
    rw [step_derivePath]
    split
    · next nd cnt path hn hp =>
      split
      · exact hinv
      · next c hc =>
        split
        · exact hinv
        · refine (hinv.bump h 1).alloc ?_
          rw [derive_app (hinv.table h nd cnt path hn hp)]
          exact hc
    · exact hinv
  | addr h k => rw [step_addr]; split <;> exact hinv
  | extKeys h => rw [step_extKeys]; split <;> exact hinv
  | newGen h k =>
    rw [step_newGen]
    split
    · next hlt =>
      refine ⟨hinv.wallet, hinv.len, hinv.root, hinv.rootPath, hinv.table, ?_⟩
      intro x hx
      rcases List.mem_append.mp hx with hx | hx
      · exact hinv.gens x hx
      · rw [List.mem_singleton] at hx
        subst hx
        exact hlt
    · exact hinv
  | next g => rw [step_next]; exact inv_advance hinv g none
  | send g k => rw [step_send]; exact inv_advance hinv g (some k)
  | bip85 app param index => exact hinv
  | report acct a b => exact hinv
  | wasabi => exact hinv
  | rootKey => exact hinv

theorem run_nil (P : Prims Pt) (s : State) : run P s [] = (s, []) := rfl

theorem run_cons (P : Prims Pt) (s : State) (op : Op) (ops : List Op) :
    run P s (op :: ops) =
      ((run P (step P s op).1 ops).1, (step P s op).2 :: (run P (step P s op).1 ops).2) := rfl

theorem inv_run {P : Prims Pt} {w : Wallet} {s : State} (hinv : Inv P w s) (ops : List Op) :
    Inv P w (run P s ops).1 := by
  induction ops generalizing s with
  | nil => exact hinv
  | cons op ops ih =>
    rw [run_cons]
    exact ih (inv_step hinv op)

/-! ### the ghost state and the stateless step function -/

/-- what is retained of a generator object: the PATH of the node it walks (not the node,
not a handle), the address kind, and its three counters/flags -/
structure GenView where
  path : List Nat
  kind : AddrKind
  started : Bool
  index : Nat
  dead : Bool

/-- the ghost data of a history: recorded path of every node handle and the view of every
generator handle.  It contains no key material and no node table. -/
structure Ghost where
  paths : List (List Nat)
  gens : List GenView

def viewOf (paths : List (List Nat)) (g : Gen) : GenView :=
  ⟨(paths[g.node]?).getD [], g.kind, g.started, g.index, g.dead⟩

/-- the ghost data of a state (forgets `s.nodes` and `s.wallet`) -/
def ghost (s : State) : Ghost := ⟨s.paths, s.gens.map (viewOf s.paths)⟩

/-- the view of generator handle `g` in state `s` -/
def genView (s : State) (g : Nat) : Option GenView := (s.gens[g]?).map (viewOf s.paths)

/-- `next(gen)` / `gen.send(k)` answered from the root: the child is re-derived from
`w.master` along `path ++ [index]` -/
def pureAdvance (P : Prims Pt) (w : Wallet) (gh : Ghost) (g : Nat) (sent : Option Nat) :
    Ghost × Out :=
  match gh.gens[g]? with
  | none => (gh, .err)
  | some gv =>
    if gv.dead then (gh, .err)
    else if ¬ gv.started ∧ sent.isSome then (gh, .err)
    else
      match derivePath P w.master (gv.path ++ [advIndex gv.started gv.index sent]) with
      | none => ({ gh with gens := gh.gens.set g { gv with dead := true } }, .err)
      | some c =>
        match addrOf P w.testnet gv.kind c with
        | none => ({ gh with gens := gh.gens.set g { gv with dead := true } }, .err)
        | some a =>
          ({ gh with
              gens := gh.gens.set g
                { gv with started := true, index := advIndex gv.started gv.index sent } },
           .pair (nodeRepr c) a)

/-- One API call answered WITHOUT the node table: every node is re-derived from the root
`w.master` along its recorded path.  This is `step` with `s.nodes[h]?` replaced by
`(paths[h]?).bind (derivePath P w.master)`. -/
def pureStep (P : Prims Pt) (w : Wallet) (gh : Ghost) : Op → Ghost × Out
  | .byPath path =>
    match Path.parse path with
    | none => (gh, .err)
    | some p =>
      match derivePath P w.master p.levels with
      | none => (gh, .err)
      | some n =>
        (if p.levels = [] then gh else { gh with paths := gh.paths ++ [p.levels] }, .node n)
  | .ckd h i =>
    match gh.paths[h]? with
    | none => (gh, .err)
    | some path =>
      match derivePath P w.master (path ++ [i]) with
      | none => (gh, .err)
      | some c => ({ gh with paths := gh.paths ++ [path ++ [i]] }, .node c)
  | .genChildren h a b =>
    match gh.paths[h]? with
    | none => (gh, .err)
    | some path =>
      match (List.range' a (b - a)).mapM (fun i => derivePath P w.master (path ++ [i])) with
      | none => (gh, .err)
      | some cs =>
        ({ gh with paths := gh.paths ++ (List.range' a (b - a)).map (fun i => path ++ [i]) },
         .nodes cs)
  | .derivePath h is =>
    match gh.paths[h]? with
    | none => (gh, .err)
    | some path =>
      match derivePath P w.master (path ++ is) with
      | none => (gh, .err)
      | some c => (if is = [] then gh else { gh with paths := gh.paths ++ [path ++ is] }, .node c)
  | .addr h k =>
    match (gh.paths[h]?).bind (derivePath P w.master) with
    | none => (gh, .err)
    | some nd => (gh, outOpt .text (addrOf P w.testnet k nd))
  | .extKeys h =>
    match (gh.paths[h]?).bind (derivePath P w.master) with
    | none => (gh, .err)
    | some nd => (gh, outOpt .json (nodeExtendedKeys P w nd))
  | .newGen h k =>
    match gh.paths[h]? with
    | none => (gh, .err)
    | some path => ({ gh with gens := gh.gens ++ [⟨path, k, false, 0, false⟩] }, .handle gh.gens.length)
  | .next g => pureAdvance P w gh g none
  | .send g k => pureAdvance P w gh g (some k)
  | .bip85 app param index =>
    (gh, if w.watchOnly then .err else outOpt .text (bip85Call P w.master app param index))
  | .report acct a b => (gh, outOpt .json (generate P w acct a b))
  | .wasabi => (gh, outOpt .json (Wallet.wasabi P w))
  | .rootKey => (gh, outOpt .text (rootKeyOut P w))

/-- a whole history answered without the node table -/
def pureRun (P : Prims Pt) (w : Wallet) : Ghost → List Op → Ghost × List Out
  | gh, [] => (gh, [])
  | gh, op :: ops =>
    ((pureRun P w (pureStep P w gh op).1 ops).1,
     (pureStep P w gh op).2 :: (pureRun P w (pureStep P w gh op).1 ops).2)

theorem ghost_paths (s : State) : (ghost s).paths = s.paths := rfl

theorem ghost_gens (s : State) : (ghost s).gens = s.gens.map (viewOf s.paths) := rfl

theorem ghost_gens_getElem? (s : State) (g : Nat) : (ghost s).gens[g]? = genView s g := by
  rw [ghost_gens, List.getElem?_map]; rfl

theorem viewOf_append {paths : List (List Nat)} {gen : Gen} (h : gen.node < paths.length)
    (l : List (List Nat)) : viewOf (paths ++ l) gen = viewOf paths gen := by
  unfold viewOf
  rw [List.getElem?_append_left h]

theorem map_viewOf_append {paths : List (List Nat)} {gens : List Gen}
    (h : ∀ gen ∈ gens, gen.node < paths.length) (l : List (List Nat)) :
    gens.map (viewOf (paths ++ l)) = gens.map (viewOf paths) :=
  List.map_congr_left fun gen hg => viewOf_append (h gen hg) l

/-- the ghost of a state whose paths were extended and whose generators were kept -/
theorem ghost_extend {P : Prims Pt} {w : Wallet} {s s' : State} (hinv : Inv P w s)
    (l : List (List Nat)) (hp : s'.paths = s.paths ++ l) (hg : s'.gens = s.gens) :
    ghost s' = ⟨s.paths ++ l, (ghost s).gens⟩ := by
  unfold ghost
  rw [hp, hg, map_viewOf_append (fun gen h => by rw [← hinv.len]; exact hinv.gens gen h)]

/-! ### `step` refines `pureStep` -/

theorem ghost_set (s : State) (w : Wallet) (N : List (Node × Nat)) (g : Nat) (gen' : Gen) :
    ghost { wallet := w, nodes := N, paths := s.paths, gens := s.gens.set g gen' } =
      { paths := (ghost s).paths, gens := (ghost s).gens.set g (viewOf s.paths gen') } := by
  unfold ghost
  simp only [List.map_set]

theorem pureAdvance_ghost {P : Prims Pt} {w : Wallet} {s : State} (hinv : Inv P w s) (g : Nat)
    (sent : Option Nat) :
    pureAdvance P w (ghost s) g sent =
      (ghost (step.advance P s g sent).1, (step.advance P s g sent).2) := by
  rw [advance_eq]
  unfold pureAdvance
  rw [ghost_gens_getElem?, genView]
  cases hg : s.gens[g]? with
  | none => rfl
  | some gen =>
    have hlt := hinv.gens gen (List.mem_of_getElem? hg)
    obtain ⟨e, he⟩ : ∃ e, s.nodes[gen.node]? = some e := by
      cases hn : s.nodes[gen.node]? with
      | none => exact absurd (List.getElem?_eq_none_iff.mp hn) (by omega)
      | some e => exact ⟨e, rfl⟩
    obtain ⟨nd, cnt⟩ := e
    obtain ⟨path, hp, hd⟩ := hinv.of_node he
    have hv : ∀ gen' : Gen, gen'.node = gen.node →
        viewOf s.paths gen' = ⟨path, gen'.kind, gen'.started, gen'.index, gen'.dead⟩ := by
      intro gen' h'; unfold viewOf; rw [h', hp]; rfl
    have hv' : ∀ k st ix d, viewOf s.paths ⟨gen.node, k, st, ix, d⟩ = ⟨path, k, st, ix, d⟩ :=
      fun k st ix d => hv ⟨gen.node, k, st, ix, d⟩ rfl
    simp only [Option.map_some, hv gen rfl, he, derive_snoc hd, hinv.wallet]
    split
    · rfl
    · split
      · rfl
      · cases hc : ckd P nd (advIndex gen.started gen.index sent) with
        | none => simp only [ghost_set, hv']
        | some c =>
          dsimp only
          cases ha : addrOf P w.testnet gen.kind c with
          | none => simp only [ghost_set, hv']
          | some a => simp only [ghost_set, hv']


theorem ghost_alloc {P : Prims Pt} {w : Wallet} {s : State} (hinv : Inv P w s) (w' : Wallet)
    (N : List (Node × Nat)) (n : Node) (p : List Nat) :
    ghost (alloc { wallet := w', nodes := N, paths := s.paths, gens := s.gens } n p) =
      { paths := s.paths ++ [p], gens := (ghost s).gens } :=
  ghost_extend hinv [p] rfl rfl

theorem pureStep_ghost {P : Prims Pt} {w : Wallet} {s : State} (hinv : Inv P w s) (op : Op) :
    pureStep P w (ghost s) op = (ghost (step P s op).1, (step P s op).2) := by
  cases op with
  | byPath path =>
    rw [step_byPath, hinv.wallet]
    simp only [pureStep]
    cases Path.parse path with
    | none => rfl
    | some p =>
      dsimp only
      cases hd : derivePath P w.master p.levels with
      | none => rfl
      | some n =>
        dsimp only
        by_cases hl : p.levels = []
        · rw [if_pos hl, if_pos hl]
        · rw [if_neg hl, if_neg hl, ghost_alloc hinv]
          rfl
  | ckd h i =>
    rw [step_ckd]
    simp only [pureStep]
    rw [ghost_paths]
    cases hp : s.paths[h]? with
    | none => rw [hinv.nodes_none_of_paths_none hp]
    | some path =>
      obtain ⟨nd, cnt, hn, hd⟩ := hinv.of_path hp
      rw [hn]
      dsimp only
      rw [derive_snoc hd]
      cases hc : ckd P nd i with
      | none => rfl
      | some c =>
        dsimp only
        rw [ghost_alloc hinv]
  | genChildren h a b =>
    rw [step_genChildren]
    simp only [pureStep]
    rw [ghost_paths]
    cases hp : s.paths[h]? with
    | none => rw [hinv.nodes_none_of_paths_none hp]
    | some path =>
      obtain ⟨nd, cnt, hn, hd⟩ := hinv.of_path hp
      rw [hn]
      dsimp only
      rw [← generateChildren_eq hd]
      cases hc : generateChildren P nd a b with
      | none => rfl
      | some cs =>
        dsimp only
        have hlen : cs.length = (List.range' a (b - a)).length :=
          (forall₂_length (mapM_some_forall₂ hc)).symm
        rw [ghost_extend (s' := List.foldl _ _ _) hinv _
          (by rw [foldl_alloc_paths]) (by rw [foldl_alloc_gens])]
        have hm : (List.zip cs (List.range' a (b - a))).map (fun ci => path ++ [ci.2]) =
            (List.range' a (b - a)).map (fun i => path ++ [i]) := by
          conv_rhs => rw [← map_snd_zip_of_length hlen, List.map_map]
          rfl
        rw [hm]
  | derivePath h is =>
    rw [step_derivePath]
    simp only [pureStep]
    rw [ghost_paths]
    cases hp : s.paths[h]? with
    | none => rw [hinv.nodes_none_of_paths_none hp]
    | some path =>
      obtain ⟨nd, cnt, hn, hd⟩ := hinv.of_path hp
      rw [hn]
      dsimp only
      rw [derive_app hd]
      cases hc : derivePath P nd is with
      | none => rfl
      | some c =>
        dsimp only
        by_cases hl : is = []
        · rw [if_pos hl, if_pos hl]
        · rw [if_neg hl, if_neg hl, ghost_alloc hinv]
  | addr h k =>
    rw [step_addr, hinv.wallet]
    simp only [pureStep]
    rw [ghost_paths]
    cases hp : s.paths[h]? with
    | none => rw [hinv.nodes_none_of_paths_none hp]; rfl
    | some path =>
      obtain ⟨nd, cnt, hn, hd⟩ := hinv.of_path hp
      rw [hn, Option.bind_some, hd]
  | extKeys h =>
    rw [step_extKeys, hinv.wallet]
    simp only [pureStep]
    rw [ghost_paths]
    cases hp : s.paths[h]? with
    | none => rw [hinv.nodes_none_of_paths_none hp]; rfl
    | some path =>
      obtain ⟨nd, cnt, hn, hd⟩ := hinv.of_path hp
      rw [hn, Option.bind_some, hd]
  | newGen h k =>
    rw [step_newGen]
    simp only [pureStep]
    rw [ghost_paths]
    cases hp : s.paths[h]? with
    | none =>
      rw [if_neg (by rw [hinv.len]; exact Nat.not_lt.mpr (List.getElem?_eq_none_iff.mp hp))]
    | some path =>
      have hlt : h < s.paths.length := (List.getElem?_eq_some_iff.mp hp).1
      rw [if_pos (by rw [hinv.len]; exact hlt)]
      dsimp only
      unfold ghost
      simp only [List.map_append, List.map_cons, List.map_nil, List.length_map, viewOf, hp,
        Option.getD_some]
  | next g => rw [step_next]; exact pureAdvance_ghost hinv g none
  | send g k => rw [step_send]; exact pureAdvance_ghost hinv g (some k)
  | bip85 app param index => rw [step_bip85, hinv.wallet]; rfl
  | report acct a b => rw [step_report, hinv.wallet]; rfl
  | wasabi => rw [step_wasabi, hinv.wallet]; rfl
  | rootKey => rw [step_rootKey, hinv.wallet]; rfl


theorem pureRun_ghost {P : Prims Pt} {w : Wallet} {s : State} (hinv : Inv P w s) (ops : List Op) :
    pureRun P w (ghost s) ops = (ghost (run P s ops).1, (run P s ops).2) := by
  induction ops generalizing s with
  | nil => rfl
  | cons op ops ih =>
    rw [run_cons]
    unfold pureRun
    rw [pureStep_ghost hinv op]
    dsimp only
    rw [ih (inv_step hinv op)]

/-! ### shape of the state after a call: handles are never re-bound -/

theorem bump_zero (l : List (Node × Nat)) (h : Nat) : bumpChildren l h 0 = l := by
  unfold bumpChildren
  have : (fun e : Node × Nat => (e.1, e.2 + 0)) = id := funext fun e => rfl
  rw [this, List.modify_id]

/-- the shape of the state after one call: same wallet; the node table is the old one with
one children counter bumped, followed by new entries; the paths are extended -/
def Shape (s s' : State) : Prop :=
  s'.wallet = s.wallet ∧
  ∃ h k exN exP, s'.nodes = bumpChildren s.nodes h k ++ exN ∧ s'.paths = s.paths ++ exP

theorem Shape.refl (s : State) : Shape s s :=
  ⟨rfl, 0, 0, [], [], by rw [bump_zero, List.append_nil], by rw [List.append_nil]⟩

theorem Shape.of_gens (s : State) (G : List Gen) : Shape s { s with gens := G } :=
  ⟨rfl, 0, 0, [], [], by rw [bump_zero, List.append_nil], by rw [List.append_nil]⟩

theorem Shape.bump_gens (s : State) (h k : Nat) (G : List Gen) :
    Shape s { s with nodes := bumpChildren s.nodes h k, gens := G } :=
  ⟨rfl, h, k, [], [], by rw [List.append_nil], by rw [List.append_nil]⟩

theorem Shape.alloc (s : State) (h k : Nat) (n : Node) (p : List Nat) :
    Shape s (alloc { s with nodes := bumpChildren s.nodes h k } n p) :=
  ⟨rfl, h, k, [(n, 0)], [p], rfl, rfl⟩

theorem advance_shape (P : Prims Pt) (s : State) (g : Nat) (sent : Option Nat) :
    Shape s (step.advance P s g sent).1 := by
  rw [advance_eq]
  split
  · exact .refl s
  · split
    · exact .refl s
    · split
      · exact .refl s
      · split
        · exact .refl s
        · split
          · exact .of_gens s _
          · split
            · exact .bump_gens s _ _ _
            · exact .bump_gens s _ _ _

theorem step_shape (P : Prims Pt) (s : State) (op : Op) : Shape s (step P s op).1 := by
  cases op with
  | byPath path =>
    rw [step_byPath]
    split
    · exact .refl s
    · split
      · exact .refl s
      · dsimp only
        split
        · exact .refl s
        · exact .alloc s _ _ _ _
  | ckd h i =>
    rw [step_ckd]
    split
    · split
      · exact .refl s
      · exact .alloc s _ _ _ _
    · exact .refl s
  | genChildren h a b =>
    rw [step_genChildren]
    split
    · split
      · exact .refl s
      · next cs _ =>
        exact ⟨by rw [foldl_alloc_wallet], h, cs.length, _, _, by rw [foldl_alloc_nodes],
          by rw [foldl_alloc_paths]⟩
    · exact .refl s
  | derivePath h is =>
    rw [step_derivePath]
    split
    · split
      · exact .refl s
      · split
        · exact .refl s
        · exact .alloc s _ _ _ _
    · exact .refl s
  | addr h k => rw [step_addr]; split <;> exact .refl s
  | extKeys h => rw [step_extKeys]; split <;> exact .refl s
  | newGen h k =>
    rw [step_newGen]
    split
    · exact .of_gens s _
    · exact .refl s
  | next g => rw [step_next]; exact advance_shape P s g none
  | send g k => rw [step_send]; exact advance_shape P s g (some k)
  | bip85 app param index => exact .refl s
  | report acct a b => exact .refl s
  | wasabi => exact .refl s
  | rootKey => exact .refl s


namespace Shape

variable {s s' : State}

theorem nodes_length_le (hs : Shape s s') : s.nodes.length ≤ s'.nodes.length := by
  obtain ⟨_, h, k, exN, exP, hN, _⟩ := hs
  rw [hN, List.length_append, bump_length]; omega

theorem paths_length_le (hs : Shape s s') : s.paths.length ≤ s'.paths.length := by
  obtain ⟨_, h, k, exN, exP, _, hP⟩ := hs
  rw [hP, List.length_append]; omega

theorem nodes_fst (hs : Shape s s') {h : Nat} (hlt : h < s.nodes.length) :
    (s'.nodes[h]?).map (·.1) = (s.nodes[h]?).map (·.1) := by
  obtain ⟨_, h', k, exN, exP, hN, _⟩ := hs
  rw [hN, List.getElem?_append_left (by rw [bump_length]; exact hlt), bump_getElem?_fst]

theorem nodes_stable (hs : Shape s s') {h : Nat} {nd : Node} {c : Nat}
    (hn : s.nodes[h]? = some (nd, c)) : ∃ c', s'.nodes[h]? = some (nd, c') := by
  obtain ⟨_, h', k, exN, exP, hN, _⟩ := hs
  have hlt : h < s.nodes.length := (List.getElem?_eq_some_iff.mp hn).1
  rw [hN, List.getElem?_append_left (by rw [bump_length]; exact hlt)]
  exact bump_getElem?_of_some h' k hn

theorem paths_stable (hs : Shape s s') {h : Nat} (hlt : h < s.paths.length) :
    s'.paths[h]? = s.paths[h]? := by
  obtain ⟨_, h', k, exN, exP, _, hP⟩ := hs
  rw [hP, List.getElem?_append_left hlt]

theorem viewOf_stable (hs : Shape s s') {gen : Gen} (hlt : gen.node < s.paths.length) :
    viewOf s'.paths gen = viewOf s.paths gen := by
  obtain ⟨_, h', k, exN, exP, _, hP⟩ := hs
  rw [hP, viewOf_append hlt]

end Shape

/-- what survives any history: the wallet, the existing handles' node fields and paths -/
structure Extends (s s' : State) : Prop where
  wallet : s'.wallet = s.wallet
  nodes_len : s.nodes.length ≤ s'.nodes.length
  paths_len : s.paths.length ≤ s'.paths.length
  nodes_fst : ∀ h, h < s.nodes.length → (s'.nodes[h]?).map (·.1) = (s.nodes[h]?).map (·.1)
  paths : ∀ h, h < s.paths.length → s'.paths[h]? = s.paths[h]?

theorem Extends.refl (s : State) : Extends s s :=
  ⟨rfl, Nat.le_refl _, Nat.le_refl _, fun _ _ => rfl, fun _ _ => rfl⟩

theorem Extends.trans {s s' s'' : State} (h1 : Extends s s') (h2 : Extends s' s'') :
    Extends s s'' where
  wallet := h2.wallet.trans h1.wallet
  nodes_len := Nat.le_trans h1.nodes_len h2.nodes_len
  paths_len := Nat.le_trans h1.paths_len h2.paths_len
  nodes_fst := fun h hlt => by
    rw [h2.nodes_fst h (Nat.lt_of_lt_of_le hlt h1.nodes_len), h1.nodes_fst h hlt]
  paths := fun h hlt => by
    rw [h2.paths h (Nat.lt_of_lt_of_le hlt h1.paths_len), h1.paths h hlt]

theorem Shape.extends {s s' : State} (hs : Shape s s') : Extends s s' :=
  ⟨hs.1, hs.nodes_length_le, hs.paths_length_le, fun _ h => hs.nodes_fst h,
    fun _ h => hs.paths_stable h⟩

theorem step_extends (P : Prims Pt) (s : State) (op : Op) : Extends s (step P s op).1 :=
  (step_shape P s op).extends

theorem run_extends (P : Prims Pt) (s : State) (ops : List Op) : Extends s (run P s ops).1 := by
  induction ops generalizing s with
  | nil => exact .refl s
  | cons op ops ih =>
    rw [run_cons]
    exact (step_extends P s op).trans (ih _)

theorem Extends.nodes_stable {s s' : State} (he : Extends s s') {h : Nat} {nd : Node} {c : Nat}
    (hn : s.nodes[h]? = some (nd, c)) : ∃ c', s'.nodes[h]? = some (nd, c') := by
  have hlt : h < s.nodes.length := (List.getElem?_eq_some_iff.mp hn).1
  have := he.nodes_fst h hlt
  rw [hn] at this
  cases hn' : s'.nodes[h]? with
  | none => rw [hn'] at this; cases this
  | some e =>
    rw [hn'] at this
    simp only [Option.map_some, Option.some.injEq] at this
    exact ⟨e.2, by rw [← this]⟩

theorem Extends.viewOf {s s' : State} (he : Extends s s') {gen : Gen}
    (hlt : gen.node < s.paths.length) : viewOf s'.paths gen = viewOf s.paths gen := by
  unfold History.viewOf
  rw [he.paths _ hlt]


/-! ### generators -/

/-- which request (if any) an API call addresses to generator `g`:
`some none` for `next(g)`, `some (some k)` for `g.send(k)` -/
def reqOf (g : Nat) : Op → Option (Option Nat)
  | .next g' => if g' = g then some none else none
  | .send g' k => if g' = g then some (some k) else none
  | _ => none

/-- one request to a generator object walking the node `nd`, on its own -/
def genStep (P : Prims Pt) (t : Bool) (nd : Node) (gen : Gen) (sent : Option Nat) : Gen × Out :=
  if gen.dead then (gen, .err)
  else if ¬ gen.started ∧ sent.isSome then (gen, .err)
  else
    match ckd P nd (advIndex gen.started gen.index sent) with
    | none => ({ gen with dead := true }, .err)
    | some c =>
      match addrOf P t gen.kind c with
      | none => ({ gen with dead := true }, .err)
      | some a =>
        ({ gen with started := true, index := advIndex gen.started gen.index sent },
         .pair (nodeRepr c) a)

theorem genStep_node (P : Prims Pt) (t : Bool) (nd : Node) (gen : Gen) (sent : Option Nat) :
    (genStep P t nd gen sent).1.node = gen.node ∧ (genStep P t nd gen sent).1.kind = gen.kind := by
  unfold genStep
  split
  · exact ⟨rfl, rfl⟩
  · split
    · exact ⟨rfl, rfl⟩
    · split
      · exact ⟨rfl, rfl⟩
      · split <;> exact ⟨rfl, rfl⟩

/-- `next` / `send` on the shared state is `genStep` on that generator -/
theorem advance_genStep {P : Prims Pt} {s : State} {g : Nat} {gen : Gen} {nd : Node} {cnt : Nat}
    (hg : s.gens[g]? = some gen) (hn : s.nodes[gen.node]? = some (nd, cnt)) (sent : Option Nat) :
    (step.advance P s g sent).2 = (genStep P s.wallet.testnet nd gen sent).2 ∧
    (step.advance P s g sent).1.gens[g]? = some (genStep P s.wallet.testnet nd gen sent).1 := by
  have hlt : g < s.gens.length := (List.getElem?_eq_some_iff.mp hg).1
  rw [advance_eq, hg]
  unfold genStep
  dsimp only
  split
  · exact ⟨rfl, hg⟩
  · split
    · exact ⟨rfl, hg⟩
    · rw [hn]
      dsimp only
      cases hc : ckd P nd (advIndex gen.started gen.index sent) with
      | none =>
        dsimp only
        exact ⟨rfl, by rw [List.getElem?_set_self hlt]⟩
      | some c =>
        dsimp only
        cases ha : addrOf P s.wallet.testnet gen.kind c with
        | none => exact ⟨rfl, by dsimp only; rw [List.getElem?_set_self hlt]⟩
        | some a => exact ⟨rfl, by dsimp only; rw [List.getElem?_set_self hlt]⟩

theorem advance_gens_other (P : Prims Pt) (s : State) {g g' : Nat} (hne : g' ≠ g)
    (sent : Option Nat) : (step.advance P s g' sent).1.gens[g]? = s.gens[g]? := by
  rw [advance_eq]
  split
  · rfl
  · split
    · rfl
    · split
      · rfl
      · split
        · rfl
        · split
          · exact List.getElem?_set_ne hne
          · split <;> exact List.getElem?_set_ne hne

/-- a call that is not `next(g)` / `g.send(_)` leaves generator `g` untouched -/
theorem step_gens_untouched (P : Prims Pt) {s : State} {g : Nat} {op : Op}
    (hop : reqOf g op = none) (hg : g < s.gens.length) :
    (step P s op).1.gens[g]? = s.gens[g]? := by
  cases op with
  | byPath path =>
    rw [step_byPath]
    split
    · rfl
    · split
      · rfl
      · dsimp only
        split <;> rfl
  | ckd h i =>
    rw [step_ckd]
    split
    · split <;> rfl
    · rfl
  | genChildren h a b =>
    rw [step_genChildren]
    split
    · split
      · rfl
      · dsimp only
        rw [foldl_alloc_gens]
    · rfl
  | derivePath h is =>
    rw [step_derivePath]
    split
    · split
      · rfl
      · split <;> rfl
    · rfl
  | addr h k => rw [step_addr]; split <;> rfl
  | extKeys h => rw [step_extKeys]; split <;> rfl
  | newGen h k =>
    rw [step_newGen]
    split
    · exact List.getElem?_append_left hg
    · rfl
  | next g' =>
    rw [step_next]
    refine advance_gens_other P s ?_ none
    intro h; simp [reqOf, h] at hop
  | send g' k =>
    rw [step_send]
    refine advance_gens_other P s ?_ (some k)
    intro h; simp [reqOf, h] at hop
  | bip85 app param index => rfl
  | report acct a b => rfl
  | wasabi => rfl
  | rootKey => rfl


/-- a generator object on its own, fed a list of requests -/
def genRun (P : Prims Pt) (t : Bool) (nd : Node) : Gen → List (Option Nat) → List Out
  | _, [] => []
  | gen, r :: rs => (genStep P t nd gen r).2 :: genRun P t nd (genStep P t nd gen r).1 rs

/-- the outputs of those calls of a history that are addressed to generator `g` -/
def outsFor (g : Nat) : List Op → List Out → List Out
  | op :: ops, o :: os => if (reqOf g op).isSome then o :: outsFor g ops os else outsFor g ops os
  | _, _ => []

theorem step_req {P : Prims Pt} {s : State} {g : Nat} {op : Op} {r : Option Nat}
    (h : reqOf g op = some r) : step P s op = step.advance P s g r := by
  cases op with
  | next g' =>
    simp only [reqOf] at h
    split at h
    · next e => cases h; subst e; rfl
    · cases h
  | send g' k =>
    simp only [reqOf] at h
    split at h
    · next e => cases h; subst e; rfl
    · cases h
  | _ => cases h

/-- Whatever else happens on the shared objects in between, the outputs of the calls addressed
to generator `g` are those of the generator run on its own against the node it walks. -/
theorem generator_trace_aux (P : Prims Pt) (g : Nat) (ops : List Op) :
    ∀ (s : State) (gen : Gen) (nd : Node) (cnt : Nat), s.gens[g]? = some gen →
      s.nodes[gen.node]? = some (nd, cnt) →
      outsFor g ops (run P s ops).2 =
        genRun P s.wallet.testnet nd gen (ops.filterMap (reqOf g)) := by
  induction ops with
  | nil => intro s gen nd cnt _ _; rfl
  | cons op ops ih =>
    intro s gen nd cnt hg hn
    have hlt : g < s.gens.length := (List.getElem?_eq_some_iff.mp hg).1
    have hext := step_extends P s op
    obtain ⟨cnt', hn'⟩ := hext.nodes_stable hn
    rw [run_cons]
    simp only [outsFor]
    cases hr : reqOf g op with
    | none =>
      rw [List.filterMap_cons_none hr]
      simp only [Option.isSome_none, Bool.false_eq_true, if_false]
      have hg' := (step_gens_untouched P hr hlt).trans hg
      rw [ih _ gen nd cnt' hg' hn', hext.wallet]
    | some r =>
      rw [List.filterMap_cons_some hr]
      simp only [Option.isSome_some, if_true, genRun]
      have hst := step_req (P := P) (s := s) hr
      obtain ⟨ho, hg'⟩ := advance_genStep hg hn r
      rw [← hst] at ho hg'
      have hnode := (genStep_node P s.wallet.testnet nd gen r).1
      rw [ho, ih _ _ nd cnt' hg' (by rw [hnode]; exact hn'), hext.wallet]


/-- the indexes a started generator at `ix` derives for a list of requests -/
def idxSeq (ix : Nat) : List (Option Nat) → List Nat
  | [] => []
  | r :: rs => (ix + sendIncr r) :: idxSeq (ix + sendIncr r) rs

theorem idxSeq_next (ix n : Nat) : idxSeq ix (List.replicate n none) = List.range' (ix + 1) n := by
  induction n generalizing ix with
  | zero => rfl
  | succ n ih =>
    rw [List.replicate_succ, idxSeq, List.range'_succ, ih]
    rfl

/-- an output is the (path string, address) pair of the child of `nd` at index `i` -/
def IsChildOut (P : Prims Pt) (t : Bool) (nd : Node) (k : AddrKind) (i : Nat) (o : Out) : Prop :=
  ∃ c a, ckd P nd i = some c ∧ addrOf P t k c = some a ∧ o = .pair (nodeRepr c) a

/-- a successful request to a live generator derives index `advIndex …` and moves there -/
theorem genStep_ok {P : Prims Pt} {t : Bool} {nd : Node} {gen : Gen} {sent : Option Nat}
    (hne : (genStep P t nd gen sent).2 ≠ .err) :
    IsChildOut P t nd gen.kind (advIndex gen.started gen.index sent) (genStep P t nd gen sent).2 ∧
    (genStep P t nd gen sent).1 =
      ⟨gen.node, gen.kind, true, advIndex gen.started gen.index sent, false⟩ ∧
    gen.dead = false ∧ (gen.started = true ∨ sent = none) := by
  unfold genStep at hne ⊢
  split at hne
  · exact absurd rfl hne
  · next hd =>
    rw [if_neg hd]
    split at hne
    · exact absurd rfl hne
    · next hs =>
      rw [if_neg hs]
      have hd' : gen.dead = false := by simpa using hd
      have hs' : gen.started = true ∨ sent = none := by
        cases hst : gen.started with
        | true => exact Or.inl rfl
        | false =>
          right
          cases sent with
          | none => rfl
          | some k => exact absurd ⟨by simp [hst], rfl⟩ hs
      cases hc : ckd P nd (advIndex gen.started gen.index sent) with
      | none => rw [hc] at hne; exact absurd rfl hne
      | some c =>
        rw [hc] at hne
        dsimp only at hne ⊢
        cases ha : addrOf P t gen.kind c with
        | none => rw [ha] at hne; exact absurd rfl hne
        | some a =>
          dsimp only
          exact ⟨⟨c, a, hc, ha, rfl⟩, by rw [hd'], hd', hs'⟩

/-- A started, live generator whose requests all succeed yields the children at the indexes
`idxSeq`: each `next` (or `send(0)`) moves on by one, each `send(j)`, `j ≥ 1`, by `j`. -/
theorem genRun_started {P : Prims Pt} {t : Bool} {nd : Node} (rs : List (Option Nat)) :
    ∀ (gen : Gen), gen.started = true → (∀ o ∈ genRun P t nd gen rs, o ≠ .err) →
      List.Forall₂ (IsChildOut P t nd gen.kind) (idxSeq gen.index rs) (genRun P t nd gen rs) := by
  induction rs with
  | nil => intro gen _ _; exact .nil
  | cons r rs ih =>
    intro gen hst hall
    simp only [genRun, List.mem_cons, forall_eq_or_imp] at hall
    obtain ⟨h1, h2, _, _⟩ := genStep_ok hall.1
    have hidx : advIndex gen.started gen.index r = gen.index + sendIncr r := by
      unfold advIndex; rw [if_pos hst]
    rw [hidx] at h1 h2
    simp only [genRun, idxSeq]
    refine .cons h1 ?_
    have := ih (genStep P t nd gen r).1 (by rw [h2]) hall.2
    rw [h2] at this ⊢
    exact this

/-- A fresh generator: the first request must be `next` and yields the child at index 0;
afterwards the indexes are `idxSeq 0`. -/
theorem genRun_fresh {P : Prims Pt} {t : Bool} {nd : Node} {h : Nat} {k : AddrKind}
    (r : Option Nat) (rs : List (Option Nat))
    (hall : ∀ o ∈ genRun P t nd ⟨h, k, false, 0, false⟩ (r :: rs), o ≠ .err) :
    r = none ∧
    List.Forall₂ (IsChildOut P t nd k) (0 :: idxSeq 0 rs)
      (genRun P t nd ⟨h, k, false, 0, false⟩ (r :: rs)) := by
  simp only [genRun, List.mem_cons, forall_eq_or_imp] at hall
  obtain ⟨h1, h2, _, h4⟩ := genStep_ok hall.1
  have hr : r = none := by
    rcases h4 with h4 | h4
    · cases h4
    · exact h4
  refine ⟨hr, ?_⟩
  simp only [genRun]
  have hidx : advIndex false 0 r = 0 := rfl
  rw [hidx] at h1 h2
  refine .cons h1 ?_
  have := genRun_started (P := P) (t := t) (nd := nd) rs (genStep P t nd ⟨h, k, false, 0, false⟩ r).1
    (by rw [h2]) hall.2
  rw [h2] at this ⊢
  exact this



/-! ### outputs do not depend on what ran in between -/

/-- Calls whose answer involves no generator and no fresh handle number: everything except
`newGen` / `next` / `send`; a node argument must be an existing handle. -/
def Stateless (s : State) : Op → Prop
  | .ckd h _ => h < s.nodes.length
  | .genChildren h _ _ => h < s.nodes.length
  | .derivePath h _ => h < s.nodes.length
  | .addr h _ => h < s.nodes.length
  | .extKeys h => h < s.nodes.length
  | .byPath _ => True
  | .bip85 _ _ _ => True
  | .report _ _ _ => True
  | .wasabi => True
  | .rootKey => True
  | .newGen _ _ => False
  | .next _ => False
  | .send _ _ => False

theorem Stateless.mono {s s' : State} (he : Extends s s') {o : Op} (ho : Stateless s o) :
    Stateless s' o := by
  cases o <;> first | exact ho | exact Nat.lt_of_lt_of_le ho he.nodes_len

/-- the output of a stateless call computed by `pureStep` reads the ghost data only at the
call's own handle -/
theorem pureStep_out_congr (P : Prims Pt) (w : Wallet) {gh gh' : Ghost} {s : State} {o : Op}
    (ho : Stateless s o) (hh : ∀ h, h < s.nodes.length → gh'.paths[h]? = gh.paths[h]?) :
    (pureStep P w gh' o).2 = (pureStep P w gh o).2 := by
  cases o with
  | ckd h i => simp only [pureStep]; rw [hh h ho]; split <;> [rfl; (split <;> rfl)]
  | genChildren h a b => simp only [pureStep]; rw [hh h ho]; split <;> [rfl; (split <;> rfl)]
  | derivePath h is => simp only [pureStep]; rw [hh h ho]; split <;> [rfl; (split <;> rfl)]
  | addr h k => simp only [pureStep]; rw [hh h ho]; split <;> rfl
  | extKeys h => simp only [pureStep]; rw [hh h ho]; split <;> rfl
  | byPath path => simp only [pureStep]; split <;> [rfl; (split <;> rfl)]
  | bip85 app param index => rfl
  | report acct a b => rfl
  | wasabi => rfl
  | rootKey => rfl
  | newGen h k => exact ho.elim
  | next g => exact ho.elim
  | send g k => exact ho.elim

/-- a stateless call gets the same answer in any later state of the same objects -/
theorem out_independent_ext {P : Prims Pt} {w : Wallet} {s s' : State} (hinv : Inv P w s)
    (hinv' : Inv P w s') (he : Extends s s') {o : Op} (ho : Stateless s o) :
    (step P s' o).2 = (step P s o).2 := by
  have h1 := congrArg Prod.snd (pureStep_ghost hinv o)
  have h2 := congrArg Prod.snd (pureStep_ghost hinv' o)
  dsimp only at h1 h2
  rw [← h1, ← h2]
  refine pureStep_out_congr P w ho ?_
  intro h hlt
  rw [ghost_paths, ghost_paths]
  exact he.paths h (by rw [← hinv.len]; exact hlt)

/-- a request to generator `g` gets the same answer in any later state in which `g` was not
touched -/
theorem gen_out_independent_ext {P : Prims Pt} {w : Wallet} {s s' : State} (hinv : Inv P w s)
    (he : Extends s s') {g : Nat} (hg : g < s.gens.length) (hg' : s'.gens[g]? = s.gens[g]?)
    (sent : Option Nat) :
    (step.advance P s' g sent).2 = (step.advance P s g sent).2 := by
  obtain ⟨gen, hgen⟩ : ∃ gen, s.gens[g]? = some gen := by
    cases h : s.gens[g]? with
    | none => exact absurd (List.getElem?_eq_none_iff.mp h) (by omega)
    | some gen => exact ⟨gen, rfl⟩
  have hlt := hinv.gens gen (List.mem_of_getElem? hgen)
  obtain ⟨e, hn⟩ : ∃ e, s.nodes[gen.node]? = some e := by
    cases h : s.nodes[gen.node]? with
    | none => exact absurd (List.getElem?_eq_none_iff.mp h) (by omega)
    | some e => exact ⟨e, rfl⟩
  obtain ⟨nd, cnt⟩ := e
  obtain ⟨cnt', hn'⟩ := he.nodes_stable hn
  rw [(advance_genStep (hg'.trans hgen) hn' sent).1, (advance_genStep hgen hn sent).1, he.wallet]



theorem run_gens_untouched (P : Prims Pt) {g : Nat} (ops : List Op) :
    ∀ {s : State}, (∀ op ∈ ops, reqOf g op = none) → g < s.gens.length →
      (run P s ops).1.gens[g]? = s.gens[g]? := by
  induction ops with
  | nil => intro s _ _; rfl
  | cons op ops ih =>
    intro s hall hg
    rw [run_cons]
    have h1 := step_gens_untouched P (s := s) (hall op (List.mem_cons_self ..)) hg
    have hg' : g < (step P s op).1.gens.length := by
      cases h : (step P s op).1.gens[g]? with
      | none =>
        rw [h] at h1
        exact absurd (List.getElem?_eq_none_iff.mp h1.symm) (by omega)
      | some e => exact (List.getElem?_eq_some_iff.mp h).1
    exact (ih (fun x hx => hall x (List.mem_cons_of_mem _ hx)) hg').trans h1

/-- in a history of stateless calls every call gets the answer it would get on its own -/
theorem run_stateless {P : Prims Pt} {w : Wallet} (ops : List Op) :
    ∀ {s : State}, Inv P w s → (∀ o ∈ ops, Stateless s o) →
      (run P s ops).2 = ops.map (fun o => (step P s o).2) := by
  induction ops with
  | nil => intro s _ _; rfl
  | cons op ops ih =>
    intro s hinv hall
    rw [run_cons, List.map_cons]
    dsimp only
    have he := step_extends P s op
    have hinv' := inv_step hinv op
    rw [ih hinv' fun o ho => (hall o (List.mem_cons_of_mem _ ho)).mono he]
    congr 1
    apply List.map_congr_left
    intro o ho
    exact out_independent_ext hinv hinv' he (hall o (List.mem_cons_of_mem _ ho))

/-- indexes derived by a fresh generator: 0 for the first request, then `idxSeq 0` -/
def freshIdxs : List (Option Nat) → List Nat
  | [] => []
  | _ :: rs => 0 :: idxSeq 0 rs

theorem freshIdxs_next (n : Nat) : freshIdxs (List.replicate n none) = List.range n := by
  cases n with
  | zero => rfl
  | succ n =>
    rw [List.replicate_succ, freshIdxs, idxSeq_next, List.range_eq_range', List.range'_succ]

theorem genRun_fresh' {P : Prims Pt} {t : Bool} {nd : Node} {h : Nat} {k : AddrKind}
    (rs : List (Option Nat))
    (hall : ∀ o ∈ genRun P t nd ⟨h, k, false, 0, false⟩ rs, o ≠ .err) :
    (∀ j, rs.head? ≠ some (some j)) ∧
    List.Forall₂ (IsChildOut P t nd k) (freshIdxs rs) (genRun P t nd ⟨h, k, false, 0, false⟩ rs) := by
  cases rs with
  | nil => exact ⟨by simp, .nil⟩
  | cons r rs =>
    obtain ⟨hr, hf⟩ := genRun_fresh r rs hall
    subst hr
    exact ⟨by simp, hf⟩


end BtcHd.History
