/-
A second toy instance of the primitives, used only as a non-vacuity witness for the C14
theorems: the toy curve Z/5 of `ToyCurve.lean` with a PRF whose left half is the integer 1,
so that child derivation actually succeeds (`k ↦ k + 1 mod 5`).  It satisfies both
`CurveLaws` and `C02.GroupLaws`.  Nothing about secp256k1 / HMAC-SHA512 is claimed here.
-/
import BtcHd.Lemmas.ToyNodes
import BtcHd.Lemmas.Bip32
import BtcHd.Props.C02

namespace BtcHd.Toy
open BtcHd Bip32 Keys BeFixed

/-- 64 bytes: left half is the integer 1, right half is nine-bytes -/
def hmacOne : Bytes := List.replicate 31 0 ++ [1] ++ List.replicate 32 9

/-- the toy primitives with a PRF whose `IL` is 1 -/
def prims1 : Prims Nat := { prims with hmac512 := fun _ _ => hmacOne }

theorem hash256_length1 (x : Bytes) : (prims1.hash256 x).length = 32 := by
  simp [Prims.hash256, prims1, prims]

theorem laws1 : CurveLaws prims1.curve := laws

theorem groupLaws1 : C02.GroupLaws prims1 where
  n_pos := by decide
  n_le := by show 5 ≤ 2 ^ 256; decide
  mulGen_add := by
    intro a b
    show ((a + b) % 5) % 5 = (a % 5 + b % 5) % 5
    omega
  mulGen_inf := by
    intro a
    show decide (a % 5 = 0 ∨ 256 ^ 32 ≤ a % 5) = true ↔ 5 ∣ a
    have : (256 : Nat) ^ 32 > 5 := by decide
    rw [decide_eq_true_iff]
    omega
  parse_sec := by
    intro pt h
    have h' : curve.isInf pt = false := h
    exact laws.parse_sec true pt (by rw [h']; simp)
  hmac_len := by intro _ _; rfl

theorem IL1 (nd : Node) (k i : Nat) : C02.IL prims1 nd k i = 1 := by
  show beToNat (hmacOne.take 32) = 1
  decide

theorem prvNode_wf1 : prvNode.WF prims1 where
  chain_len := by simp [prvNode]
  fp_len := rfl
  depth_lt := by decide
  index_lt := by decide
  key_prv := fun _ => ⟨3, by decide, by decide, Or.inl rfl⟩
  key_pub := fun h => by cases h

theorem prvNode_prvKey1 : prvKey prims1 prvNode = some 3 :=
  prvKey_of_key32 prims1 prvNode (k := 3) rfl (by decide) (by decide) groupLaws1.n_le

/-- one normal derivation step from the toy private node succeeds -/
theorem prvNode_child1 : ∃ c, derivePath prims1 prvNode [7] = some c := by
  have hckd : ckd prims1 prvNode 7 = ckdPrv prims1 prvNode 7 := rfl
  rw [derivePath, hckd, ckdPrv_eq prims1 prvNode 7 3 prvNode_prvKey1 (by decide) groupLaws1.n_le,
    if_neg (by decide), if_neg (by decide)]
  exact ⟨_, rfl⟩

end BtcHd.Toy
