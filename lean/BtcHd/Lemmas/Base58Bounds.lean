/-
Length and leading character of a Base58 string from numeric bounds on the value
(used for the 111-character extended keys of C07 and the WIF first character of C09).
-/
import BtcHd.Lemmas.Base58
import BtcHd.Lemmas.BeFixed

namespace BtcHd.Digits

/-- the leading digit: if `a·b^m ≤ N < (a+1)·b^m` with `0 < a < b` then `N` has `m+1` digits in
base `b` and the most significant one is `a` -/
theorem digitsBE_head_of_bounds {b : Nat} (hb : 1 < b) {a : Nat} (ha0 : 0 < a) (hab : a < b) :
    ∀ (m N : Nat), a * b ^ m ≤ N → N < (a + 1) * b ^ m →
      ∃ rest, digitsBE b N = a :: rest ∧ rest.length = m := by
  intro m
  induction m with
  | zero =>
    intro N h1 h2
    have hN : N = a := by simp at h1 h2; omega
    subst hN
    refine ⟨[], ?_, rfl⟩
    rw [digitsBE_step hb ha0, Nat.div_eq_of_lt hab, digitsBE_zero, Nat.mod_eq_of_lt hab]
    rfl
  | succ m ih =>
    intro N h1 h2
    have hb0 : 0 < b := by omega
    have hpos : 0 < a * b ^ (m + 1) := Nat.mul_pos ha0 (Nat.pow_pos hb0)
    have hN : 0 < N := by omega
    rw [Nat.pow_succ, ← Nat.mul_assoc] at h1 h2
    obtain ⟨rest, hr, hl⟩ := ih (N / b) ((Nat.le_div_iff_mul_le hb0).mpr h1)
      ((Nat.div_lt_iff_lt_mul hb0).mpr h2)
    refine ⟨rest ++ [N % b], ?_, by simp [hl]⟩
    rw [digitsBE_step hb hN, hr]
    rfl

/-- digit count from bounds -/
theorem digitsBE_length_of_bounds {b : Nat} (hb : 1 < b) {m N : Nat} (h1 : b ^ m ≤ N)
    (h2 : N < b ^ (m + 1)) : (digitsBE b N).length = m + 1 := by
  have := (lt_digitsBE_length_iff (k := m) hb).mpr h1
  have := (digitsBE_length_le_iff (k := m + 1) hb).mpr h2
  omega

end BtcHd.Digits

namespace BtcHd.Base58
open BtcHd Digits BeFixed

theorem leadingZeros_of_head_ne {data : Bytes} (h : data.head? ≠ some 0) :
    leadingZeros data = 0 := by
  cases data with
  | nil => rfl
  | cons b bs =>
    have : b ≠ 0 := by simpa using h
    simp [leadingZeros, this]

/-- a byte string not starting with a zero byte encodes to the base-58 digits of its value -/
theorem encode_of_head_ne_zero {data : Bytes} (h : data.head? ≠ some 0) :
    encode data = (digitsBE 58 (beToNat data)).map alphaAt := by
  unfold encode
  rw [leadingZeros_of_head_ne h, encBody_eq]
  simp

theorem encode_length_of_bounds {data : Bytes} (h : data.head? ≠ some 0) {m : Nat}
    (h1 : 58 ^ m ≤ beToNat data) (h2 : beToNat data < 58 ^ (m + 1)) :
    (encode data).length = m + 1 := by
  rw [encode_of_head_ne_zero h, List.length_map, digitsBE_length_of_bounds (by decide) h1 h2]

theorem encode_head_of_bounds {data : Bytes} (h : data.head? ≠ some 0) {a m : Nat}
    (ha0 : 0 < a) (ha : a < 58) (h1 : a * 58 ^ m ≤ beToNat data)
    (h2 : beToNat data < (a + 1) * 58 ^ m) :
    ∃ rest, encode data = alphaAt a :: rest ∧ rest.length = m := by
  obtain ⟨rest, hr, hl⟩ := digitsBE_head_of_bounds (b := 58) (by decide) ha0 ha m _ h1 h2
  refine ⟨rest.map alphaAt, ?_, by simp [hl]⟩
  rw [encode_of_head_ne_zero h, hr]
  rfl

/-- value bounds of a byte string with a known first byte -/
theorem beToNat_cons_bounds (p : UInt8) (rest : Bytes) :
    p.toNat * 256 ^ rest.length ≤ beToNat (p :: rest) ∧
      beToNat (p :: rest) < (p.toNat + 1) * 256 ^ rest.length := by
  rw [beToNat_cons]
  have := beToNat_lt rest
  constructor
  · omega
  · rw [Nat.add_mul]; omega

/-- value bounds of a byte string with a known fixed-width prefix -/
theorem beToNat_prefix_bounds {len v : Nat} (hv : v < 256 ^ len) (rest : Bytes) :
    v * 256 ^ rest.length ≤ beToNat (beFixed len v ++ rest) ∧
      beToNat (beFixed len v ++ rest) < (v + 1) * 256 ^ rest.length := by
  rw [beToNat_append, beToNat_beFixed hv]
  have := beToNat_lt rest
  constructor
  · omega
  · rw [Nat.add_mul]; omega

end BtcHd.Base58

namespace BtcHd.Base58
open BtcHd Digits BeFixed

/-- a byte string whose value needs all its bytes does not start with a zero byte -/
theorem head_ne_zero_of_le {bs : Bytes} (h : 256 ^ (bs.length - 1) ≤ beToNat bs) :
    bs.head? ≠ some 0 := by
  cases bs with
  | nil => simp
  | cons b rest =>
    intro hb
    simp only [List.head?_cons, Option.some.injEq] at hb
    subst hb
    rw [beToNat_zero_cons] at h
    have := beToNat_lt rest
    simp only [List.length_cons, Nat.add_sub_cancel] at h
    omega

/-- **111 characters**: a 78-byte payload whose first four bytes are a version `v` in the
range `[2^24, 79029636]` (all twelve SLIP-132 versions lie there) has a 111-character
Base58Check string. -/
theorem encodeCheck_length_111 (h : Bytes → Bytes) (hlen : ∀ x, 4 ≤ (h x).length)
    (payload : Bytes) (hp : payload.length = 78) (v : Nat) (hv : payload.take 4 = beFixed 4 v)
    (hlo : 2 ^ 24 ≤ v) (hhi : v ≤ 79029636) : (encodeCheck h payload).length = 111 := by
  have hck : ((h payload).take 4).length = 4 := by
    rw [List.length_take]; have := hlen payload; omega
  have hsplit : payload ++ (h payload).take 4
      = beFixed 4 v ++ (payload.drop 4 ++ (h payload).take 4) := by
    rw [← hv, ← List.append_assoc, List.take_append_drop]
  have hrest : (payload.drop 4 ++ (h payload).take 4).length = 78 := by
    rw [List.length_append, List.length_drop, hck, hp]
  have hv4 : v < 256 ^ 4 := by
    have : (256 : Nat) ^ 4 = 4294967296 := by norm_num
    omega
  obtain ⟨b1, b2⟩ := beToNat_prefix_bounds hv4 (payload.drop 4 ++ (h payload).take 4)
  rw [hrest] at b1 b2
  have f1 : 58 ^ 110 ≤ 2 ^ 24 * 256 ^ 78 := by norm_num
  have f2 : 79029637 * 256 ^ 78 ≤ 58 ^ 111 := by norm_num
  have f3 : (256 : Nat) ^ 81 = 2 ^ 24 * 256 ^ 78 := by norm_num
  have g1 : 2 ^ 24 * 256 ^ 78 ≤ v * 256 ^ 78 := Nat.mul_le_mul_right _ hlo
  have g2 : (v + 1) * 256 ^ 78 ≤ 79029637 * 256 ^ 78 := Nat.mul_le_mul_right _ (by omega)
  unfold encodeCheck
  rw [hsplit]
  apply encode_length_of_bounds
  · apply head_ne_zero_of_le
    rw [List.length_append, beFixed_length, hrest, f3]
    exact Nat.le_trans g1 b1
  · exact Nat.le_trans f1 (Nat.le_trans g1 b1)
  · exact Nat.lt_of_lt_of_le b2 (Nat.le_trans g2 f2)

end BtcHd.Base58

namespace BtcHd.Base58
open BtcHd Digits BeFixed

/-- first Base58 character and length of a byte string from its first byte alone -/
theorem encode_cons_first (p : UInt8) (rest : Bytes) (hp : p ≠ 0) {a d : Nat} (ha0 : 0 < a)
    (ha : a < 58) (h1 : a * 58 ^ d ≤ p.toNat * 256 ^ rest.length)
    (h2 : (p.toNat + 1) * 256 ^ rest.length ≤ (a + 1) * 58 ^ d) :
    ∃ tl, encode (p :: rest) = alphaAt a :: tl ∧ tl.length = d := by
  obtain ⟨b1, b2⟩ := beToNat_cons_bounds p rest
  exact encode_head_of_bounds (by simpa using hp) ha0 ha (Nat.le_trans h1 b1)
    (Nat.lt_of_lt_of_le b2 h2)

/-- the same when the first byte only narrows the first character down to two candidates -/
theorem encode_cons_first_two (p : UInt8) (rest : Bytes) (hp : p ≠ 0) {a d : Nat} (ha0 : 0 < a)
    (ha : a + 1 < 58) (h1 : a * 58 ^ d ≤ p.toNat * 256 ^ rest.length)
    (h2 : (p.toNat + 1) * 256 ^ rest.length ≤ (a + 2) * 58 ^ d) :
    ∃ tl, (encode (p :: rest) = alphaAt a :: tl ∨ encode (p :: rest) = alphaAt (a + 1) :: tl) ∧
      tl.length = d := by
  obtain ⟨b1, b2⟩ := beToNat_cons_bounds p rest
  have hne : (p :: rest).head? ≠ some 0 := by simpa using hp
  by_cases hsplit : beToNat (p :: rest) < (a + 1) * 58 ^ d
  · obtain ⟨tl, h, hl⟩ := encode_head_of_bounds hne ha0 (by omega) (Nat.le_trans h1 b1) hsplit
    exact ⟨tl, Or.inl h, hl⟩
  · obtain ⟨tl, h, hl⟩ := encode_head_of_bounds hne (a := a + 1) (by omega) ha
      (Nat.le_of_not_lt hsplit) (Nat.lt_of_lt_of_le b2 h2)
    exact ⟨tl, Or.inr h, hl⟩

end BtcHd.Base58
