/-
Lemmas about the JSON text layer `Model/JsonText.lean`: the string escaper and its inverse, whitespace
skipping, and the parser run on the output of the printer.
-/
import BtcHd.Model.JsonText

namespace BtcHd.JsonText
open BtcHd.Wallet (Json)

/-! ### Hex digits -/

theorem hexVal?_hexDigit : ∀ n, n < 16 → hexVal? (hexDigit n) = some n := by decide +kernel

theorem hexDigit_printable : ∀ n, n < 16 →
    0x20 ≤ (hexDigit n).toNat ∧ (hexDigit n).toNat ≤ 0x7e := by decide +kernel

theorem hex4?_hex4 (n : Nat) (h : n < 65536) (tail : List Char) :
    hex4? (hex4 n ++ tail) = some (n, tail) := by
  have h1 : n / 4096 % 16 < 16 := Nat.mod_lt _ (by omega)
  have h2 : n / 256 % 16 < 16 := Nat.mod_lt _ (by omega)
  have h3 : n / 16 % 16 < 16 := Nat.mod_lt _ (by omega)
  have h4 : n % 16 < 16 := Nat.mod_lt _ (by omega)
  simp only [hex4, List.cons_append, List.nil_append, hex4?, hexVal?_hexDigit _ h1,
    hexVal?_hexDigit _ h2, hexVal?_hexDigit _ h3, hexVal?_hexDigit _ h4, Option.bind_some,
    Option.map_some]
  congr 2
  omega


/-! ### One escaped character -/

theorem unicodeEscape?_bmp (n : Nat) (h : n < 0x10000) (hs : n < 0xd800 ∨ 0xdfff < n)
    (tail : List Char) : unicodeEscape? (hex4 n ++ tail) = some (Char.ofNat n, tail) := by
  unfold unicodeEscape?
  rw [hex4?_hex4 n h]
  simp only [Option.bind_some]
  rw [if_neg (by omega), if_neg (by omega)]


theorem unicodeEscape?_pair (v : Nat) (h : v < 0x100000) (tail : List Char) :
    unicodeEscape? (hex4 (0xd800 + v / 1024) ++ (uEscape (0xdc00 + v % 1024) ++ tail)) =
      some (Char.ofNat (0x10000 + v), tail) := by
  unfold unicodeEscape?
  rw [hex4?_hex4 _ (by omega)]
  simp only [Option.bind_some]
  rw [if_pos (by omega)]
  rw [show uEscape (0xdc00 + v % 1024) ++ tail = '\\' :: 'u' :: (hex4 (0xdc00 + v % 1024) ++ tail)
    from rfl]
  dsimp only
  rw [if_pos ⟨rfl, rfl⟩, hex4?_hex4 _ (by omega)]
  simp only [Option.bind_some]
  rw [if_pos (by omega)]
  rw [show 65536 + (55296 + v / 1024 - 55296) * 1024 + (56320 + v % 1024 - 56320) = 65536 + v
    by omega]

theorem unescapeStep_uEscape (n : Nat) (tail : List Char) :
    unescapeStep (uEscape n ++ tail) = unicodeEscape? (hex4 n ++ tail) := by
  rw [show uEscape n ++ tail = '\\' :: 'u' :: (hex4 n ++ tail) from rfl]
  unfold unescapeStep
  dsimp only
  rw [if_pos rfl, if_pos rfl]

theorem char_toNat_cases (c : Char) : c.toNat < 0xd800 ∨ (0xdfff < c.toNat ∧ c.toNat < 0x110000) := by
  have := c.valid
  simp only [UInt32.isValidChar, Nat.isValidChar] at this
  exact this

/-- decoding the escape of one character gives the character back -/
theorem unescapeStep_escapeChar (c : Char) (tail : List Char) :
    unescapeStep (escapeChar c ++ tail) = some (c, tail) := by
  unfold escapeChar
  split
  · subst_vars; rfl
  split
  · subst_vars; rfl
  split
  · subst_vars; rfl
  split
  · subst_vars; rfl
  split
  · subst_vars; rfl
  split
  · subst_vars; rfl
  split
  · subst_vars; rfl
  split
  · rename_i h1 h2 _ _ _ _ _ h
    simp only [List.cons_append, List.nil_append, unescapeStep, if_neg h2, if_neg h1]
    rw [if_neg (by omega)]
  split
  · rename_i h
    have hv := char_toNat_cases c
    rw [unescapeStep_uEscape, unicodeEscape?_bmp _ h (by omega), Char.ofNat_toNat]
  · rename_i h
    have hv := char_toNat_cases c
    rw [List.append_assoc, unescapeStep_uEscape, unicodeEscape?_pair _ (by omega)]
    rw [show 0x10000 + (c.toNat - 0x10000) = c.toNat by omega, Char.ofNat_toNat]


/-- printable ASCII: `' '..'~'` -/
def Printable (c : Char) : Prop := 0x20 ≤ c.toNat ∧ c.toNat ≤ 0x7e

instance (c : Char) : Decidable (Printable c) := by unfold Printable; infer_instance

theorem hex4_printable (n : Nat) : ∀ x ∈ hex4 n, Printable x := by
  intro x hx
  simp only [hex4, List.mem_cons, List.not_mem_nil, or_false] at hx
  rcases hx with rfl | rfl | rfl | rfl <;> exact hexDigit_printable _ (Nat.mod_lt _ (by omega))

theorem uEscape_printable (n : Nat) : ∀ x ∈ uEscape n, Printable x := by
  intro x hx
  simp only [uEscape, List.mem_cons] at hx
  rcases hx with rfl | rfl | hx
  · decide +kernel
  · decide +kernel
  · exact hex4_printable n x hx

theorem escapeChar_printable (c : Char) : ∀ x ∈ escapeChar c, Printable x := by
  have two : ∀ (a b : Char), Printable a → Printable b → ∀ x ∈ [a, b], Printable x := by
    intro a b ha hb x hx
    simp only [List.mem_cons, List.not_mem_nil, or_false] at hx
    rcases hx with rfl | rfl <;> assumption
  unfold escapeChar
  split
  · exact two _ _ (by decide +kernel) (by decide +kernel)
  split
  · exact two _ _ (by decide +kernel) (by decide +kernel)
  split
  · exact two _ _ (by decide +kernel) (by decide +kernel)
  split
  · exact two _ _ (by decide +kernel) (by decide +kernel)
  split
  · exact two _ _ (by decide +kernel) (by decide +kernel)
  split
  · exact two _ _ (by decide +kernel) (by decide +kernel)
  split
  · exact two _ _ (by decide +kernel) (by decide +kernel)
  split
  · rename_i h
    intro x hx
    simp only [List.mem_cons, List.not_mem_nil, or_false] at hx
    subst hx
    exact h
  split
  · exact uEscape_printable _
  · intro x hx
    rw [List.mem_append] at hx
    rcases hx with hx | hx <;> exact uEscape_printable _ x hx

/-- an escape is never empty and never starts with the quote -/
theorem escapeChar_head (c : Char) : ∃ h t, escapeChar c = h :: t ∧ h ≠ '"' := by
  unfold escapeChar
  split
  · exact ⟨_, _, rfl, by decide +kernel⟩
  split
  · exact ⟨_, _, rfl, by decide +kernel⟩
  split
  · exact ⟨_, _, rfl, by decide +kernel⟩
  split
  · exact ⟨_, _, rfl, by decide +kernel⟩
  split
  · exact ⟨_, _, rfl, by decide +kernel⟩
  split
  · exact ⟨_, _, rfl, by decide +kernel⟩
  split
  · exact ⟨_, _, rfl, by decide +kernel⟩
  split
  · rename_i h _ _ _ _ _ _ _
    exact ⟨_, _, rfl, h⟩
  split
  · exact ⟨_, _, rfl, by decide +kernel⟩
  · exact ⟨_, _, rfl, by decide +kernel⟩

theorem escape_nil : escape [] = [] := rfl

theorem escape_cons (c : Char) (s : List Char) : escape (c :: s) = escapeChar c ++ escape s := by
  simp only [escape, List.flatMap_cons]

theorem escape_append (s t : List Char) : escape (s ++ t) = escape s ++ escape t := by
  simp only [escape, List.flatMap_append]

theorem length_le_length_escape (s : List Char) : s.length ≤ (escape s).length := by
  induction s with
  | nil => simp [escape_nil]
  | cons c s ih =>
    obtain ⟨h, t, e, _⟩ := escapeChar_head c
    rw [escape_cons, e]
    simp only [List.cons_append, List.length_cons, List.length_append]
    omega

theorem escape_printable (s : List Char) : ∀ x ∈ escape s, Printable x := by
  intro x hx
  simp only [escape, List.mem_flatMap] at hx
  obtain ⟨c, _, hc⟩ := hx
  exact escapeChar_printable c x hc

/-- one step of the string-body reader over the escape of one character -/
theorem parseStrBody_escapeChar (f : Nat) (c : Char) (tail : List Char) :
    parseStrBody (f + 1) (escapeChar c ++ tail) =
      (parseStrBody f tail).map fun p => (c :: p.1, p.2) := by
  have hu := unescapeStep_escapeChar c tail
  obtain ⟨h, t, e, hq⟩ := escapeChar_head c
  rw [e] at hu ⊢
  rw [List.cons_append] at hu ⊢
  rw [parseStrBody]
  dsimp only
  rw [if_neg hq, hu]
  rfl

/-- the string-body reader inverts `escape` (any fuel `> s.length`) -/
theorem parseStrBody_escape (s : List Char) : ∀ (f : Nat) (tail : List Char), s.length < f →
    parseStrBody f (escape s ++ '"' :: tail) = some (s, tail) := by
  induction s with
  | nil =>
    intro f tail hf
    obtain ⟨f, rfl⟩ : ∃ g, f = g + 1 := ⟨f - 1, by simp only [List.length_nil] at hf; omega⟩
    simp only [escape_nil, List.nil_append, parseStrBody, if_true]
  | cons c s ih =>
    intro f tail hf
    obtain ⟨f, rfl⟩ : ∃ g, f = g + 1 := ⟨f - 1, by omega⟩
    rw [escape_cons, List.append_assoc, parseStrBody_escapeChar,
      ih f tail (by simp only [List.length_cons] at hf; omega)]
    rfl

/-- reading a printed string literal gives the string back -/
theorem parseString_dumpStr (s : List Char) (rest : List Char) :
    parseString (dumpStr s ++ rest) = some (s, rest) := by
  simp only [dumpStr, List.cons_append, List.append_assoc, List.nil_append, parseString, if_true]
  apply parseStrBody_escape
  have := length_le_length_escape s
  simp only [List.length_append, List.length_cons]
  omega


/-! ### Whitespace -/

/-- a run of JSON whitespace -/
def AllWs (w : List Char) : Prop := ∀ c ∈ w, isWs c = true

theorem allWs_nil : AllWs [] := by intro c hc; cases hc

theorem allWs_cons {c : Char} {w : List Char} (hc : isWs c = true) (hw : AllWs w) :
    AllWs (c :: w) := by
  intro x hx
  rcases List.mem_cons.1 hx with rfl | hx
  · exact hc
  · exact hw x hx

theorem allWs_append {u w : List Char} (hu : AllWs u) (hw : AllWs w) : AllWs (u ++ w) := by
  intro x hx
  rcases List.mem_append.1 hx with hx | hx
  · exact hu x hx
  · exact hw x hx

theorem allWs_replicate_space (n : Nat) : AllWs (List.replicate n ' ') := by
  intro c hc
  rw [(List.mem_replicate.1 hc).2]
  decide +kernel

theorem allWs_nlIndent (ind : Option Nat) (lvl : Nat) : AllWs (nlIndent ind lvl) := by
  cases ind with
  | none => exact allWs_nil
  | some k => exact allWs_cons (by decide +kernel) (allWs_replicate_space _)

theorem skipWs_append {w : List Char} (hw : AllWs w) (cs : List Char) :
    skipWs (w ++ cs) = skipWs cs := by
  induction w with
  | nil => rfl
  | cons c w ih =>
    rw [List.cons_append, skipWs, if_pos (hw c (List.mem_cons_self ..))]
    exact ih fun x hx => hw x (List.mem_cons_of_mem _ hx)

theorem skipWs_allWs {w : List Char} (hw : AllWs w) : skipWs w = [] := by
  have := skipWs_append hw []
  rwa [List.append_nil] at this

theorem skipWs_cons_of_not {c : Char} (hc : isWs c = false) (cs : List Char) :
    skipWs (c :: cs) = c :: cs := by
  rw [skipWs, if_neg (by rw [hc]; exact Bool.false_ne_true)]

/-- the characters a printed value can start with -/
def Starter (c : Char) : Prop := c = 'n' ∨ c = '"' ∨ c = '[' ∨ c = '{'

theorem Starter.not_ws {c : Char} (h : Starter c) : isWs c = false := by
  rcases h with rfl | rfl | rfl | rfl <;> decide +kernel

theorem Starter.ne_rbracket {c : Char} (h : Starter c) : c ≠ ']' := by
  rcases h with rfl | rfl | rfl | rfl <;> decide +kernel

theorem dumpStr_head (s : List Char) : dumpStr s = '"' :: (escape s ++ ['"']) := rfl

theorem dump_head (ind : Option Nat) (lvl : Nat) (j : Json) :
    ∃ h t, dump ind lvl j = h :: t ∧ Starter h := by
  match j with
  | .null => exact ⟨_, _, by rw [dump], .inl rfl⟩
  | .str s => exact ⟨_, _, by rw [dump, dumpStr_head], .inr (.inl rfl)⟩
  | .arr [] => exact ⟨_, _, by rw [dump], .inr (.inr (.inl rfl))⟩
  | .arr (x :: xs) => exact ⟨_, _, by rw [dump], .inr (.inr (.inl rfl))⟩
  | .obj [] => exact ⟨_, _, by rw [dump], .inr (.inr (.inr rfl))⟩
  | .obj (kv :: kvs) => exact ⟨_, _, by rw [dump], .inr (.inr (.inr rfl))⟩

theorem dump_length_pos (ind : Option Nat) (lvl : Nat) (j : Json) : 0 < (dump ind lvl j).length := by
  obtain ⟨h, t, e, _⟩ := dump_head ind lvl j
  rw [e]; exact Nat.succ_pos _


/-! ### Parser steps -/

theorem parseValue_ws {w : List Char} (hw : AllWs w) (f : Nat) (cs : List Char) :
    parseValue f (w ++ cs) = parseValue f cs := by
  cases f with
  | zero => simp only [parseValue]
  | succ f => simp only [parseValue, skipWs_append hw]

theorem parseArrRest_ws {w : List Char} (hw : AllWs w) (f : Nat) (cs : List Char) :
    parseArrRest f (w ++ cs) = parseArrRest f cs := by
  cases f with
  | zero => simp only [parseArrRest]
  | succ f => simp only [parseArrRest, skipWs_append hw]

theorem parseObjRest_ws {w : List Char} (hw : AllWs w) (f : Nat) (cs : List Char) :
    parseObjRest f (w ++ cs) = parseObjRest f cs := by
  cases f with
  | zero => simp only [parseObjRest]
  | succ f => simp only [parseObjRest, skipWs_append hw]

theorem parseValue_space (f : Nat) (cs : List Char) :
    parseValue f (' ' :: cs) = parseValue f cs :=
  parseValue_ws (w := [' ']) (allWs_cons (by decide +kernel) allWs_nil) f cs

theorem parseValue_null (f : Nat) (rest : List Char) :
    parseValue (f + 1) ('n' :: 'u' :: 'l' :: 'l' :: rest) = some (Json.null, rest) := by
  rw [parseValue, skipWs_cons_of_not (by decide +kernel)]
  dsimp only
  rw [if_neg (by decide +kernel), if_pos rfl, if_pos (by rfl)]
  rfl

theorem parseValue_str (f : Nat) (s rest : List Char) :
    parseValue (f + 1) (dumpStr s ++ rest) = some (Json.str s, rest) := by
  have h := parseString_dumpStr s rest
  rw [dumpStr_head, List.cons_append] at h ⊢
  rw [parseValue, skipWs_cons_of_not (by decide +kernel)]
  dsimp only
  rw [if_pos rfl, h]
  rfl

theorem parseValue_arr_nil (f : Nat) (rest : List Char) :
    parseValue (f + 1) ('[' :: ']' :: rest) = some (Json.arr [], rest) := by
  rw [parseValue, skipWs_cons_of_not (by decide +kernel)]
  dsimp only
  rw [if_neg (by decide +kernel), if_neg (by decide +kernel), if_pos rfl,
    skipWs_cons_of_not (by decide +kernel)]
  rfl

theorem parseValue_obj_nil (f : Nat) (rest : List Char) :
    parseValue (f + 1) ('{' :: '}' :: rest) = some (Json.obj [], rest) := by
  rw [parseValue, skipWs_cons_of_not (by decide +kernel)]
  dsimp only
  rw [if_neg (by decide +kernel), if_neg (by decide +kernel), if_neg (by decide +kernel), if_pos rfl,
    skipWs_cons_of_not (by decide +kernel)]
  rfl

theorem parseValue_arr_cons (f : Nat) {w : List Char} (hw : AllWs w) {h : Char} (hh : Starter h)
    (t : List Char) :
    parseValue (f + 1) ('[' :: (w ++ h :: t)) =
      (parseValue f (h :: t)).bind fun p =>
        (parseArrRest f p.2).map fun q => (Json.arr (p.1 :: q.1), q.2) := by
  rw [parseValue, skipWs_cons_of_not (by decide +kernel)]
  dsimp only
  rw [if_neg (by decide +kernel), if_neg (by decide +kernel), if_pos rfl,
    skipWs_append hw, skipWs_cons_of_not hh.not_ws, List.head?_cons,
    if_neg (by rw [Option.some.injEq]; exact hh.ne_rbracket), parseValue_ws hw]

theorem parseMember_dumpStr (pv : List Char → Option (Json × List Char)) {w : List Char}
    (hw : AllWs w) (k cs : List Char) :
    parseMember pv (w ++ (dumpStr k ++ (keySep ++ cs))) =
      (pv (' ' :: cs)).map fun p => ((k, p.1), p.2) := by
  rw [parseMember, skipWs_append hw]
  rw [show skipWs (dumpStr k ++ (keySep ++ cs)) = dumpStr k ++ (keySep ++ cs) by
    rw [dumpStr_head, List.cons_append]; exact skipWs_cons_of_not (by decide +kernel) _]
  rw [parseString_dumpStr, Option.bind_some]
  dsimp only
  rw [show keySep ++ cs = ':' :: ' ' :: cs from rfl, skipWs_cons_of_not (by decide +kernel)]
  dsimp only
  rw [if_pos rfl]

theorem parseValue_obj_cons (f : Nat) {w : List Char} (hw : AllWs w) (k cs : List Char) :
    parseValue (f + 1) ('{' :: (w ++ (dumpStr k ++ (keySep ++ cs)))) =
      (parseValue f cs).bind fun p =>
        (parseObjRest f p.2).map fun q => (Json.obj ((k, p.1) :: q.1), q.2) := by
  rw [parseValue, skipWs_cons_of_not (by decide +kernel)]
  dsimp only
  rw [if_neg (by decide +kernel), if_neg (by decide +kernel), if_neg (by decide +kernel), if_pos rfl,
    skipWs_append hw]
  rw [show skipWs (dumpStr k ++ (keySep ++ cs)) = dumpStr k ++ (keySep ++ cs) by
    rw [dumpStr_head, List.cons_append]; exact skipWs_cons_of_not (by decide +kernel) _]
  rw [dumpStr_head, List.cons_append, List.head?_cons, if_neg (by decide +kernel), ← List.cons_append,
    ← dumpStr_head, parseMember_dumpStr _ hw, parseValue_space]
  cases parseValue f cs <;> rfl

theorem parseArrRest_close (f : Nat) {w : List Char} (hw : AllWs w) (rest : List Char) :
    parseArrRest (f + 1) (w ++ ']' :: rest) = some ([], rest) := by
  rw [parseArrRest, skipWs_append hw, skipWs_cons_of_not (by decide +kernel)]
  dsimp only
  rw [if_pos rfl]

theorem parseObjRest_close (f : Nat) {w : List Char} (hw : AllWs w) (rest : List Char) :
    parseObjRest (f + 1) (w ++ '}' :: rest) = some ([], rest) := by
  rw [parseObjRest, skipWs_append hw, skipWs_cons_of_not (by decide +kernel)]
  dsimp only
  rw [if_pos rfl]

theorem parseArrRest_comma (f : Nat) {w : List Char} (hw : AllWs w) (cs : List Char) :
    parseArrRest (f + 1) (w ++ ',' :: cs) =
      (parseValue f cs).bind fun p =>
        (parseArrRest f p.2).map fun q => (p.1 :: q.1, q.2) := by
  rw [parseArrRest, skipWs_append hw, skipWs_cons_of_not (by decide +kernel)]
  dsimp only
  rw [if_neg (by decide +kernel), if_pos rfl]

theorem parseObjRest_comma (f : Nat) {w u : List Char} (hw : AllWs w) (hu : AllWs u)
    (k cs : List Char) :
    parseObjRest (f + 1) (w ++ ',' :: (u ++ (dumpStr k ++ (keySep ++ cs)))) =
      (parseValue f cs).bind fun p =>
        (parseObjRest f p.2).map fun q => ((k, p.1) :: q.1, q.2) := by
  rw [parseObjRest, skipWs_append hw, skipWs_cons_of_not (by decide +kernel)]
  dsimp only
  rw [if_neg (by decide +kernel), if_pos rfl, parseMember_dumpStr _ hu, parseValue_space]
  cases parseValue f cs <;> rfl


/-! ### The parser on the printer's output -/

theorem itemSep_eq (ind : Option Nat) : ∃ u, itemSep ind = ',' :: u ∧ AllWs u := by
  cases ind with
  | none => exact ⟨[' '], rfl, allWs_cons (by decide +kernel) allWs_nil⟩
  | some k => exact ⟨[], rfl, allWs_nil⟩

theorem dump_arr_cons (ind : Option Nat) (lvl : Nat) (x : Json) (xs : List Json) :
    dump ind lvl (.arr (x :: xs)) =
      '[' :: (nlIndent ind (lvl + 1) ++ (dump ind (lvl + 1) x ++ dumpArrRest ind lvl xs)) := by
  rw [dump]

theorem dump_obj_cons (ind : Option Nat) (lvl : Nat) (kv : List Char × Json)
    (kvs : List (List Char × Json)) :
    dump ind lvl (.obj (kv :: kvs)) =
      '{' :: (nlIndent ind (lvl + 1) ++ (dumpStr kv.1 ++ (keySep ++
        (dump ind (lvl + 1) kv.2 ++ dumpObjRest ind lvl kvs)))) := by
  rw [dump]

theorem dumpArrRest_nil (ind : Option Nat) (lvl : Nat) :
    dumpArrRest ind lvl [] = nlIndent ind lvl ++ [']'] := by
  rw [dumpArrRest]

theorem dumpArrRest_cons (ind : Option Nat) (lvl : Nat) (x : Json) (xs : List Json) :
    dumpArrRest ind lvl (x :: xs) =
      itemSep ind ++ (nlIndent ind (lvl + 1) ++ (dump ind (lvl + 1) x ++ dumpArrRest ind lvl xs)) := by
  rw [dumpArrRest]

theorem dumpObjRest_nil (ind : Option Nat) (lvl : Nat) :
    dumpObjRest ind lvl [] = nlIndent ind lvl ++ ['}'] := by
  rw [dumpObjRest]

theorem dumpObjRest_cons (ind : Option Nat) (lvl : Nat) (kv : List Char × Json)
    (kvs : List (List Char × Json)) :
    dumpObjRest ind lvl (kv :: kvs) =
      itemSep ind ++ (nlIndent ind (lvl + 1) ++ (dumpStr kv.1 ++ (keySep ++
        (dump ind (lvl + 1) kv.2 ++ dumpObjRest ind lvl kvs)))) := by
  rw [dumpObjRest]

mutual
/-- the value parser reads back a printed value and stops right after it (any sufficient fuel) -/
theorem parseValue_dump (ind : Option Nat) : (j : Json) → ∀ (lvl : Nat) (rest : List Char) (f : Nat),
    (dump ind lvl j).length ≤ f → parseValue f (dump ind lvl j ++ rest) = some (j, rest)
  | .null, lvl, rest, f, hf => by
    obtain ⟨g, rfl⟩ : ∃ g, f = g + 1 := ⟨f - 1, by have := dump_length_pos ind lvl .null; omega⟩
    rw [dump]
    exact parseValue_null g rest
  | .str s, lvl, rest, f, hf => by
    obtain ⟨g, rfl⟩ : ∃ g, f = g + 1 := ⟨f - 1, by have := dump_length_pos ind lvl (.str s); omega⟩
    rw [dump]
    exact parseValue_str g s rest
  | .arr [], lvl, rest, f, hf => by
    obtain ⟨g, rfl⟩ : ∃ g, f = g + 1 := ⟨f - 1, by have := dump_length_pos ind lvl (.arr []); omega⟩
    rw [dump]
    exact parseValue_arr_nil g rest
  | .obj [], lvl, rest, f, hf => by
    obtain ⟨g, rfl⟩ : ∃ g, f = g + 1 := ⟨f - 1, by have := dump_length_pos ind lvl (.obj []); omega⟩
    rw [dump]
    exact parseValue_obj_nil g rest
  | .arr (x :: xs), lvl, rest, f, hf => by
    rw [dump_arr_cons] at hf ⊢
    simp only [List.length_cons, List.length_append] at hf
    obtain ⟨g, rfl⟩ : ∃ g, f = g + 1 := ⟨f - 1, by omega⟩
    simp only [List.cons_append, List.append_assoc]
    obtain ⟨h, t, e, hh⟩ := dump_head ind (lvl + 1) x
    have e' : dump ind (lvl + 1) x ++ (dumpArrRest ind lvl xs ++ rest) =
        h :: (t ++ (dumpArrRest ind lvl xs ++ rest)) := by rw [e]; rfl
    rw [e', parseValue_arr_cons g (allWs_nlIndent _ _) hh, ← e',
      parseValue_dump ind x (lvl + 1) _ g (by omega), Option.bind_some]
    dsimp only
    rw [parseArrRest_dump ind xs lvl rest g (by omega)]
    rfl
  | .obj (kv :: kvs), lvl, rest, f, hf => by
    rw [dump_obj_cons] at hf ⊢
    simp only [List.length_cons, List.length_append] at hf
    obtain ⟨g, rfl⟩ : ∃ g, f = g + 1 := ⟨f - 1, by omega⟩
    simp only [List.cons_append, List.append_assoc]
    rw [parseValue_obj_cons g (allWs_nlIndent _ _),
      parseValue_dump ind kv.2 (lvl + 1) _ g (by omega), Option.bind_some]
    dsimp only
    rw [parseObjRest_dump ind kvs lvl rest g (by omega)]
    rfl
/-- the array-tail parser reads back the printed remaining elements and the closing bracket -/
theorem parseArrRest_dump (ind : Option Nat) : (xs : List Json) → ∀ (lvl : Nat) (rest : List Char)
    (f : Nat), (dumpArrRest ind lvl xs).length ≤ f →
    parseArrRest f (dumpArrRest ind lvl xs ++ rest) = some (xs, rest)
  | [], lvl, rest, f, hf => by
    rw [dumpArrRest_nil] at hf ⊢
    simp only [List.length_cons, List.length_append] at hf
    obtain ⟨g, rfl⟩ : ∃ g, f = g + 1 := ⟨f - 1, by omega⟩
    simp only [List.append_assoc, List.cons_append, List.nil_append]
    exact parseArrRest_close g (allWs_nlIndent _ _) rest
  | x :: xs, lvl, rest, f, hf => by
    rw [dumpArrRest_cons] at hf ⊢
    obtain ⟨u, eu, hu⟩ := itemSep_eq ind
    rw [eu] at hf ⊢
    simp only [List.length_cons, List.length_append] at hf
    obtain ⟨g, rfl⟩ : ∃ g, f = g + 1 := ⟨f - 1, by omega⟩
    simp only [List.cons_append, List.append_assoc]
    rw [← List.nil_append (',' :: _), parseArrRest_comma g allWs_nil, ← List.append_assoc,
      parseValue_ws (allWs_append hu (allWs_nlIndent _ _)),
      parseValue_dump ind x (lvl + 1) _ g (by omega), Option.bind_some]
    dsimp only
    rw [parseArrRest_dump ind xs lvl rest g (by omega)]
    rfl
/-- the object-tail parser reads back the printed remaining members and the closing brace -/
theorem parseObjRest_dump (ind : Option Nat) : (kvs : List (List Char × Json)) → ∀ (lvl : Nat)
    (rest : List Char) (f : Nat), (dumpObjRest ind lvl kvs).length ≤ f →
    parseObjRest f (dumpObjRest ind lvl kvs ++ rest) = some (kvs, rest)
  | [], lvl, rest, f, hf => by
    rw [dumpObjRest_nil] at hf ⊢
    simp only [List.length_cons, List.length_append] at hf
    obtain ⟨g, rfl⟩ : ∃ g, f = g + 1 := ⟨f - 1, by omega⟩
    simp only [List.append_assoc, List.cons_append, List.nil_append]
    exact parseObjRest_close g (allWs_nlIndent _ _) rest
  | kv :: kvs, lvl, rest, f, hf => by
    rw [dumpObjRest_cons] at hf ⊢
    obtain ⟨u, eu, hu⟩ := itemSep_eq ind
    rw [eu] at hf ⊢
    simp only [List.length_cons, List.length_append] at hf
    obtain ⟨g, rfl⟩ : ∃ g, f = g + 1 := ⟨f - 1, by omega⟩
    simp only [List.cons_append, List.append_assoc]
    rw [← List.nil_append (',' :: _), ← List.append_assoc u,
      parseObjRest_comma g allWs_nil (allWs_append hu (allWs_nlIndent _ _)),
      parseValue_dump ind kv.2 (lvl + 1) _ g (by omega), Option.bind_some]
    dsimp only
    rw [parseObjRest_dump ind kvs lvl rest g (by omega)]
    rfl
end


/-! ### `loads ∘ dumps` -/

theorem loads_ws_dumps_ws (ind : Option Nat) (j : Json) {w₁ w₂ : List Char} (h₁ : AllWs w₁)
    (h₂ : AllWs w₂) : loads (w₁ ++ (dumps ind j ++ w₂)) = some j := by
  unfold loads
  rw [parseValue_ws h₁, dumps, parseValue_dump ind j 0 w₂ _ (by
    simp only [List.length_append]; omega)]
  dsimp only
  rw [skipWs_allWs h₂, if_pos rfl]

/-! ### The characters of the output -/

/-- every character of the list satisfies `P` -/
def AllC (P : Char → Prop) (l : List Char) : Prop := ∀ c ∈ l, P c

theorem AllC.nil {P : Char → Prop} : AllC P [] := by intro c hc; cases hc

theorem AllC.cons {P : Char → Prop} {c : Char} {l : List Char} (hc : P c) (hl : AllC P l) :
    AllC P (c :: l) := by
  intro x hx
  rcases List.mem_cons.1 hx with rfl | hx
  · exact hc
  · exact hl x hx

theorem AllC.append {P : Char → Prop} {l m : List Char} (hl : AllC P l) (hm : AllC P m) :
    AllC P (l ++ m) := by
  intro x hx
  rcases List.mem_append.1 hx with hx | hx
  · exact hl x hx
  · exact hm x hx

theorem allC_dumpStr {P : Char → Prop} (hp : ∀ c, Printable c → P c) (s : List Char) :
    AllC P (dumpStr s) := by
  rw [dumpStr_head]
  refine .cons (hp _ (by decide +kernel)) (.append ?_ (.cons (hp _ (by decide +kernel)) .nil))
  intro c hc
  exact hp c (escape_printable s c hc)

theorem allC_itemSep {P : Char → Prop} (hp : ∀ c, Printable c → P c) (ind : Option Nat) :
    AllC P (itemSep ind) := by
  cases ind with
  | none => exact .cons (hp _ (by decide +kernel)) (.cons (hp _ (by decide +kernel)) .nil)
  | some k => exact .cons (hp _ (by decide +kernel)) .nil

theorem allC_keySep {P : Char → Prop} (hp : ∀ c, Printable c → P c) : AllC P keySep :=
  .cons (hp _ (by decide +kernel)) (.cons (hp _ (by decide +kernel)) .nil)

mutual
/-- a property of all printable characters and of the indentation holds for the whole output -/
theorem allC_dump {P : Char → Prop} (ind : Option Nat) (hp : ∀ c, Printable c → P c)
    (hn : ∀ lvl, AllC P (nlIndent ind lvl)) : (j : Json) → ∀ lvl, AllC P (dump ind lvl j)
  | .null, lvl => by
    rw [dump]
    exact .cons (hp _ (by decide +kernel)) (.cons (hp _ (by decide +kernel))
      (.cons (hp _ (by decide +kernel)) (.cons (hp _ (by decide +kernel)) .nil)))
  | .str s, lvl => by rw [dump]; exact allC_dumpStr hp s
  | .arr [], lvl => by
    rw [dump]; exact .cons (hp _ (by decide +kernel)) (.cons (hp _ (by decide +kernel)) .nil)
  | .obj [], lvl => by
    rw [dump]; exact .cons (hp _ (by decide +kernel)) (.cons (hp _ (by decide +kernel)) .nil)
  | .arr (x :: xs), lvl => by
    rw [dump_arr_cons]
    exact .cons (hp _ (by decide +kernel)) (.append (hn _)
      (.append (allC_dump ind hp hn x _) (allC_dumpArrRest ind hp hn xs lvl)))
  | .obj (kv :: kvs), lvl => by
    rw [dump_obj_cons]
    exact .cons (hp _ (by decide +kernel)) (.append (hn _) (.append (allC_dumpStr hp _)
      (.append (allC_keySep hp)
        (.append (allC_dump ind hp hn kv.2 _) (allC_dumpObjRest ind hp hn kvs lvl)))))
theorem allC_dumpArrRest {P : Char → Prop} (ind : Option Nat) (hp : ∀ c, Printable c → P c)
    (hn : ∀ lvl, AllC P (nlIndent ind lvl)) :
    (xs : List Json) → ∀ lvl, AllC P (dumpArrRest ind lvl xs)
  | [], lvl => by
    rw [dumpArrRest_nil]; exact .append (hn _) (.cons (hp _ (by decide +kernel)) .nil)
  | x :: xs, lvl => by
    rw [dumpArrRest_cons]
    exact .append (allC_itemSep hp ind) (.append (hn _)
      (.append (allC_dump ind hp hn x _) (allC_dumpArrRest ind hp hn xs lvl)))
theorem allC_dumpObjRest {P : Char → Prop} (ind : Option Nat) (hp : ∀ c, Printable c → P c)
    (hn : ∀ lvl, AllC P (nlIndent ind lvl)) :
    (kvs : List (List Char × Json)) → ∀ lvl, AllC P (dumpObjRest ind lvl kvs)
  | [], lvl => by
    rw [dumpObjRest_nil]; exact .append (hn _) (.cons (hp _ (by decide +kernel)) .nil)
  | kv :: kvs, lvl => by
    rw [dumpObjRest_cons]
    exact .append (allC_itemSep hp ind) (.append (hn _) (.append (allC_dumpStr hp _)
      (.append (allC_keySep hp)
        (.append (allC_dump ind hp hn kv.2 _) (allC_dumpObjRest ind hp hn kvs lvl)))))
end

theorem nlIndent_chars (ind : Option Nat) (lvl : Nat) :
    AllC (fun c => Printable c ∨ (c = '\n' ∧ ind ≠ none)) (nlIndent ind lvl) := by
  cases ind with
  | none => exact .nil
  | some k =>
    refine .cons (.inr ⟨rfl, by simp⟩) ?_
    intro c hc
    rw [(List.mem_replicate.1 hc).2]
    exact .inl (by decide +kernel)

end BtcHd.JsonText
