/-
Big-endian fixed-width integers (`to_bytes(len, 'big')` / `int.from_bytes`).

-/
import Mathlib.Data.List.Induction
import BtcHd.Model.Basic

namespace BtcHd.BytesL
open BtcHd

theorem beFixed_length (len n : Nat) : (beFixed len n).length = len := by
  induction len generalizing n with
  | zero => rfl
  | succ len ih => simp [beFixed, ih]

theorem beToNat_append_singleton (bs : Bytes) (b : UInt8) :
    beToNat (bs ++ [b]) = beToNat bs * 256 + b.toNat := by
  simp [beToNat, List.foldl_append]

theorem beToNat_beFixed {len n : Nat} (h : n < 256 ^ len) : beToNat (beFixed len n) = n := by
  induction len generalizing n with
  | zero => simp at h; subst h; rfl
  | succ len ih =>
    rw [beFixed, beToNat_append_singleton, ih (by rw [Nat.pow_succ] at h; omega)]
    have : (UInt8.ofNat (n % 256)).toNat = n % 256 := by
      simp [Nat.mod_eq_of_lt (Nat.mod_lt n (by decide : 0 < 256))]
    rw [this]; omega

theorem beToNat_zero_cons (bs : Bytes) : beToNat (0 :: bs) = beToNat bs := by
  simp [beToNat]

theorem beToNat_lt (bs : Bytes) : beToNat bs < 256 ^ bs.length := by
  induction bs using List.reverseRecOn with
  | nil => simp [beToNat]
  | append_singleton bs b ih =>
    rw [beToNat_append_singleton, List.length_append, List.length_singleton, Nat.pow_succ]
    have := b.toNat_lt
    omega

theorem beFixed_beToNat (bs : Bytes) : beFixed bs.length (beToNat bs) = bs := by
  induction bs using List.reverseRecOn with
  | nil => rfl
  | append_singleton bs b ih =>
    rw [List.length_append, List.length_singleton, beFixed, beToNat_append_singleton]
    have hb := b.toNat_lt
    have h1 : (beToNat bs * 256 + b.toNat) / 256 = beToNat bs := by omega
    have h2 : (beToNat bs * 256 + b.toNat) % 256 = b.toNat := by omega
    rw [h1, h2, ih]
    simp

theorem toBytesBE_some {len n : Nat} (h : n < 256 ^ len) : toBytesBE len n = some (beFixed len n) := by
  simp [toBytesBE, h]

theorem toBytesBE_none {len n : Nat} (h : 256 ^ len ≤ n) : toBytesBE len n = none := by
  simp [toBytesBE]; omega

theorem toBytesBE_eq_some {len n : Nat} {bs : Bytes} (h : toBytesBE len n = some bs) :
    n < 256 ^ len ∧ bs = beFixed len n := by
  unfold toBytesBE at h
  split at h
  · exact ⟨‹_›, by simpa using h.symm⟩
  · cases h

theorem pow_256_4 : (256 : Nat) ^ 4 = 2 ^ 32 := by decide
theorem pow_256_32 : (256 : Nat) ^ 32 = 2 ^ 256 := by decide
theorem pow_256_1 : (256 : Nat) ^ 1 = 256 := by decide

end BtcHd.BytesL
