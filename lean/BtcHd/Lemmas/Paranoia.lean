/-
Helper lemmas for C15: what `paranoia_mode` (`paranoiaEntry`, `paranoia` in `Model/Wallet.lean`)
computes, in general and on the account blocks of a generated report.
-/
import BtcHd.Lemmas.Wallet

namespace BtcHd.Wallet
open BtcHd

/-! ### the dictionary keys involved are pairwise different strings -/

theorem paranoiaKeys_eq :
    Generated.paranoiaKeys = ["BIP44".toList, "BIP49".toList, "BIP84".toList] := by decide +kernel

theorem master_not_key : ¬ decide ("MASTER".toList ∈ Generated.paranoiaKeys) = true := by
  decide +kernel
theorem bip85_not_key : ¬ decide ("BIP85".toList ∈ Generated.paranoiaKeys) = true := by
  decide +kernel
theorem bip44_key : decide ("BIP44".toList ∈ Generated.paranoiaKeys) = true := by decide +kernel
theorem bip49_key : decide ("BIP49".toList ∈ Generated.paranoiaKeys) = true := by decide +kernel
theorem bip84_key : decide ("BIP84".toList ∈ Generated.paranoiaKeys) = true := by decide +kernel

theorem groups_ne_aek : ("groups".toList == "account_extended_keys".toList) = false := by
  decide +kernel
theorem pub_ne_path : ("pub".toList == "path".toList) = false := by decide +kernel

/-- `group[:-1]` on a row (`none` when the row is not a list) -/
def dropLastCol : Json → Option Json
  | .arr cols => some (.arr cols.dropLast)
  | _ => none

/-! ### `paranoiaEntry` -/

/-- exactly when and what `paranoiaEntry` returns: the value must be a dictionary with an
`account_extended_keys` dictionary holding `path` and `pub`, and a `groups` list of lists -/
theorem paranoiaEntry_eq_some {v e : Json} :
    paranoiaEntry v = some e ↔
      ∃ inner keys rows pth pub rows', v = .obj inner ∧
        inner.lookup "account_extended_keys".toList = some (.obj keys) ∧
        inner.lookup "groups".toList = some (.arr rows) ∧
        keys.lookup "path".toList = some pth ∧ keys.lookup "pub".toList = some pub ∧
        rows.mapM dropLastCol = some rows' ∧
        e = .obj [("account_extended_keys".toList, .obj [("path".toList, pth), ("pub".toList, pub)]),
                  ("groups".toList, .arr rows')] := by
  have hf : ∀ (f : Json → Option Json) (rows : List Json), (∀ r, f r = dropLastCol r) →
      List.mapM f rows = List.mapM dropLastCol rows := fun f rows hf => by rw [funext hf]
  constructor
  · intro h
    unfold paranoiaEntry at h
    split at h
    · next inner =>
      split at h
      · next keys rows h1 h2 =>
        split at h
        · next pth pub h3 h4 =>
          rw [hf _ _ (by intro r; cases r <;> rfl)] at h
          obtain ⟨rows', hr, he⟩ := Option.map_eq_some_iff.mp h
          exact ⟨inner, keys, rows, pth, pub, rows', rfl, h1, h2, h3, h4, hr, he.symm⟩
        · cases h
      · cases h
    · cases h
  · rintro ⟨inner, keys, rows, pth, pub, rows', rfl, h1, h2, h3, h4, hr, rfl⟩
    unfold paranoiaEntry
    simp only [h1, h2, h3, h4]
    rw [hf _ _ (by intro r; cases r <;> rfl), hr]
    rfl

/-- a row of the report without its last column -/
theorem dropLastCol_row (r : Row) : dropLastCol r.toJson = some r.toPublicJson := rfl

theorem mapM_dropLastCol_rows (rs : List Row) :
    (rs.map Row.toJson).mapM dropLastCol = some (rs.map Row.toPublicJson) := by
  induction rs with
  | nil => rfl
  | cons r rs ih =>
    rw [List.map_cons, mapM_opt_cons, dropLastCol_row, Option.bind_some, ih]
    rfl

/-- on an account block of the report `paranoiaEntry` keeps path, pub and the first three
columns of every row -/
theorem paranoiaEntry_acct (v : Acct) : paranoiaEntry (acctJson v.toPair) = some v.toPublicJson := by
  rw [paranoiaEntry_eq_some]
  refine ⟨[("account_extended_keys".toList, v.keysJson), ("groups".toList, .arr (v.rows.map Row.toJson))],
    [("path".toList, .str v.path), ("pub".toList, .str v.pub), ("prv".toList, optStr v.prv)],
    v.rows.map Row.toJson, .str v.path, .str v.pub, v.rows.map Row.toPublicJson,
    rfl, ?_, ?_, ?_, ?_, mapM_dropLastCol_rows v.rows, rfl⟩
  · exact List.lookup_cons_self
  · show List.lookup "groups".toList (("account_extended_keys".toList, _) :: _) = _
    rw [List.lookup_cons, groups_ne_aek]
    exact List.lookup_cons_self
  · exact List.lookup_cons_self
  · show List.lookup "pub".toList (("path".toList, _) :: _) = _
    rw [List.lookup_cons, pub_ne_path]
    exact List.lookup_cons_self

/-! ### `paranoia` -/

theorem paranoia_eq_some {j j' : Json} :
    paranoia j = some j' ↔
      ∃ kvs out, j = .obj kvs ∧
        (kvs.filter fun (kv : List Char × Json) => kv.1 ∈ Generated.paranoiaKeys).mapM
          (fun (kv : List Char × Json) => (paranoiaEntry kv.2).map fun e => (kv.1, e)) = some out ∧
        j' = .obj out := by
  constructor
  · intro h
    unfold paranoia at h
    split at h
    · next kvs =>
      obtain ⟨out, ho, rfl⟩ := Option.map_eq_some_iff.mp h
      exact ⟨kvs, out, rfl, ho, rfl⟩
    · cases h
  · rintro ⟨kvs, out, rfl, ho, rfl⟩
    unfold paranoia
    simp only [ho, Option.map_some]

/-- the comprehension of `paranoia_mode`: keys are kept in order, each value is rebuilt by
`paranoiaEntry` -/
theorem paranoia_out {xs out : List (List Char × Json)}
    (h : xs.mapM (fun (kv : List Char × Json) => (paranoiaEntry kv.2).map fun e => (kv.1, e))
      = some out) :
    out.map (·.1) = xs.map (·.1) ∧
    List.Forall₂ (fun kv kv' => kv'.1 = kv.1 ∧ paranoiaEntry kv.2 = some kv'.2) xs out ∧
    ∀ kv' ∈ out, ∃ kv ∈ xs, kv'.1 = kv.1 ∧ paranoiaEntry kv.2 = some kv'.2 := by
  induction xs generalizing out with
  | nil =>
    rw [mapM_opt_nil] at h
    cases h
    exact ⟨rfl, .nil, fun _ hm => by cases hm⟩
  | cons x xs ih =>
    rw [mapM_opt_cons] at h
    obtain ⟨y, hy, h⟩ := Option.bind_eq_some_iff.mp h
    obtain ⟨ys, hys, rfl⟩ := Option.map_eq_some_iff.mp h
    obtain ⟨e, he, rfl⟩ := Option.map_eq_some_iff.mp hy
    obtain ⟨h1, h2, h3⟩ := ih hys
    refine ⟨by simp [h1], .cons ⟨rfl, he⟩ h2, fun kv' hm => ?_⟩
    rcases List.mem_cons.mp hm with rfl | hm
    · exact ⟨x, List.mem_cons_self, rfl, he⟩
    · obtain ⟨kv, hkv, hr⟩ := h3 kv' hm
      exact ⟨kv, List.mem_cons_of_mem _ hkv, hr⟩

/-- only the three whitelisted entries of a report survive the key filter -/
theorem filter_report (m b x44 x49 x84 : Json) :
    ([("MASTER".toList, m), ("BIP85".toList, b), ("BIP44".toList, x44), ("BIP49".toList, x49),
      ("BIP84".toList, x84)].filter fun (kv : List Char × Json) => kv.1 ∈ Generated.paranoiaKeys) =
      [("BIP44".toList, x44), ("BIP49".toList, x49), ("BIP84".toList, x84)] := by
  rw [List.filter_cons_of_neg (by exact master_not_key),
    List.filter_cons_of_neg (by exact bip85_not_key),
    List.filter_cons_of_pos (by exact bip44_key), List.filter_cons_of_pos (by exact bip49_key),
    List.filter_cons_of_pos (by exact bip84_key), List.filter_nil]

/-- `paranoia` on a report with account blocks `v44`, `v49`, `v84` -/
theorem paranoia_report (m b : Json) (v44 v49 v84 : Acct) :
    paranoia (.obj [("MASTER".toList, m), ("BIP85".toList, b),
        ("BIP44".toList, acctJson v44.toPair), ("BIP49".toList, acctJson v49.toPair),
        ("BIP84".toList, acctJson v84.toPair)]) =
      some (.obj [("BIP44".toList, v44.toPublicJson), ("BIP49".toList, v49.toPublicJson),
                  ("BIP84".toList, v84.toPublicJson)]) := by
  rw [paranoia_eq_some]
  refine ⟨_, _, rfl, ?_, rfl⟩
  rw [filter_report]
  simp only [mapM_opt_cons, mapM_opt_nil, paranoiaEntry_acct, Option.map_some, Option.bind_some]

/-! ### leaves of the blocks -/

/-- the public leaves of a row -/
def Row.publicLeaves (r : Row) : List Leaf := [.inl r.path, .inl r.addr, .inl r.sec]

/-- the public leaves of an account block: path, extended public key, and per row path, address, sec -/
def Acct.publicLeaves (v : Acct) : List Leaf :=
  [.inl v.path, .inl v.pub] ++ v.rows.flatMap Row.publicLeaves

theorem leaves_row_public (r : Row) : leaves r.toPublicJson = r.publicLeaves := by
  simp [Row.toPublicJson, Row.publicLeaves, leaves_arr, leavesArr_cons, leavesArr_nil, leaves_str]

theorem leaves_row (r : Row) : leaves r.toJson = r.publicLeaves ++ leaves (optStr r.wif) := by
  simp [Row.toJson, Row.publicLeaves, leaves_arr, leavesArr_cons, leavesArr_nil, leaves_str]

theorem leaves_acct_public (v : Acct) : leaves v.toPublicJson = v.publicLeaves := by
  simp only [Acct.toPublicJson, Acct.publicLeaves, leaves_obj, leavesObj_cons, leavesObj_nil,
    leaves_str, leaves_arr, leavesArr_eq_flatMap, List.flatMap_map, List.append_nil,
    List.cons_append, List.nil_append]
  simp only [leaves_row_public]

/-- all leaves of an unfiltered account block: path, extended public key, extended private key
(or `null`), and per row path, address, sec, WIF (or `null`) -/
def Acct.allLeaves (v : Acct) : List Leaf :=
  [.inl v.path, .inl v.pub] ++ leaves (optStr v.prv) ++
    v.rows.flatMap fun r => r.publicLeaves ++ leaves (optStr r.wif)

theorem leaves_acct (v : Acct) : leaves (acctJson v.toPair) = v.allLeaves := by
  unfold Acct.allLeaves
  simp only [acctJson, Acct.toPair, Acct.keysJson, leaves_obj, leavesObj_cons, leavesObj_nil,
    leaves_str, leaves_arr, leavesArr_eq_flatMap, List.flatMap_map, List.append_nil,
    List.cons_append, List.nil_append]
  simp only [leaves_row]

/-! ### access by key / index -/

theorem getPath_cons_of_step {j j1 : Json} {s : List Char ⊕ Nat} (h : j.step s = some j1)
    (p : List (List Char ⊕ Nat)) : j.getPath (s :: p) = j1.getPath p := by
  rw [Json.getPath_cons, h, Option.bind_some]

theorem getPath_cons_of_step_none {j : Json} {s : List Char ⊕ Nat} (h : j.step s = none)
    (p : List (List Char ⊕ Nat)) : j.getPath (s :: p) = none := by
  rw [Json.getPath_cons, h, Option.bind_none]

/-- the entries of one account block before and after the filter: `path` and `pub` are the same
strings, `prv` is gone; row `i` keeps its first three columns and loses the fourth -/
theorem acct_access (v : Acct) :
    (acctJson v.toPair).getPath [.inl "account_extended_keys".toList, .inl "path".toList]
        = some (.str v.path) ∧
    v.toPublicJson.getPath [.inl "account_extended_keys".toList, .inl "path".toList]
        = some (.str v.path) ∧
    (acctJson v.toPair).getPath [.inl "account_extended_keys".toList, .inl "pub".toList]
        = some (.str v.pub) ∧
    v.toPublicJson.getPath [.inl "account_extended_keys".toList, .inl "pub".toList]
        = some (.str v.pub) ∧
    (acctJson v.toPair).getPath [.inl "account_extended_keys".toList, .inl "prv".toList]
        = some (optStr v.prv) ∧
    v.toPublicJson.getPath [.inl "account_extended_keys".toList, .inl "prv".toList] = none ∧
    ∀ i r, v.rows[i]? = some r →
      (∀ c s, [r.path, r.addr, r.sec][c]? = some s →
        (acctJson v.toPair).getPath [.inl "groups".toList, .inr i, .inr c] = some (.str s) ∧
        v.toPublicJson.getPath [.inl "groups".toList, .inr i, .inr c] = some (.str s)) ∧
      (acctJson v.toPair).getPath [.inl "groups".toList, .inr i, .inr 3] = some (optStr r.wif) ∧
      v.toPublicJson.getPath [.inl "groups".toList, .inr i, .inr 3] = none := by
  refine ⟨?_, ?_, ?_, ?_, ?_, ?_, fun i r hr => ⟨fun c s hc => ⟨?_, ?_⟩, ?_, ?_⟩⟩
  · simp [acctJson, Acct.toPair, Acct.keysJson, Json.getPath_cons, Json.getPath_nil, Json.step,
      List.lookup]
  · simp [Acct.toPublicJson, Json.getPath_cons, Json.getPath_nil, Json.step, List.lookup]
  · simp [acctJson, Acct.toPair, Acct.keysJson, Json.getPath_cons, Json.getPath_nil, Json.step,
      List.lookup]
  · simp [Acct.toPublicJson, Json.getPath_cons, Json.getPath_nil, Json.step, List.lookup]
  · simp [acctJson, Acct.toPair, Acct.keysJson, Json.getPath_cons, Json.getPath_nil, Json.step,
      List.lookup]
  · simp [Acct.toPublicJson, Json.getPath_cons, Json.getPath_nil, Json.step, List.lookup]
  · have h1 : (acctJson v.toPair).step (.inl "groups".toList) = some (.arr (v.rows.map Row.toJson)) := by
      simp [acctJson, Acct.toPair, Json.step, List.lookup]
    have h2 : (Json.arr (v.rows.map Row.toJson)).step (.inr i) = some r.toJson := by
      simp [Json.step, hr]
    rw [getPath_cons_of_step h1, getPath_cons_of_step h2]
    match c, hc with
    | 0, hc => cases hc; rfl
    | 1, hc => cases hc; rfl
    | 2, hc => cases hc; rfl
    | c + 3, hc => simp at hc
  · have h1 : v.toPublicJson.step (.inl "groups".toList)
        = some (.arr (v.rows.map Row.toPublicJson)) := by
      simp [Acct.toPublicJson, Json.step, List.lookup]
    have h2 : (Json.arr (v.rows.map Row.toPublicJson)).step (.inr i) = some r.toPublicJson := by
      simp [Json.step, hr]
    rw [getPath_cons_of_step h1, getPath_cons_of_step h2]
    match c, hc with
    | 0, hc => cases hc; rfl
    | 1, hc => cases hc; rfl
    | 2, hc => cases hc; rfl
    | c + 3, hc => simp at hc
  · have h1 : (acctJson v.toPair).step (.inl "groups".toList) = some (.arr (v.rows.map Row.toJson)) := by
      simp [acctJson, Acct.toPair, Json.step, List.lookup]
    have h2 : (Json.arr (v.rows.map Row.toJson)).step (.inr i) = some r.toJson := by
      simp [Json.step, hr]
    rw [getPath_cons_of_step h1, getPath_cons_of_step h2]
    rfl
  · have h1 : v.toPublicJson.step (.inl "groups".toList)
        = some (.arr (v.rows.map Row.toPublicJson)) := by
      simp [Acct.toPublicJson, Json.step, List.lookup]
    have h2 : (Json.arr (v.rows.map Row.toPublicJson)).step (.inr i) = some r.toPublicJson := by
      simp [Json.step, hr]
    rw [getPath_cons_of_step h1, getPath_cons_of_step h2]
    rfl

/-- looking a whitelisted key up in a report and in its filtered form gives the same account block,
unfiltered and filtered -/
theorem report_step (m b : Json) (v44 v49 v84 : Acct) {K : List Char}
    (hK : K ∈ Generated.paranoiaKeys) :
    ∃ v, v ∈ [v44, v49, v84] ∧
      (Json.obj [("MASTER".toList, m), ("BIP85".toList, b), ("BIP44".toList, acctJson v44.toPair),
        ("BIP49".toList, acctJson v49.toPair), ("BIP84".toList, acctJson v84.toPair)]).step (.inl K)
        = some (acctJson v.toPair) ∧
      (Json.obj [("BIP44".toList, v44.toPublicJson), ("BIP49".toList, v49.toPublicJson),
        ("BIP84".toList, v84.toPublicJson)]).step (.inl K) = some v.toPublicJson := by
  rw [paranoiaKeys_eq] at hK
  simp only [List.mem_cons, List.not_mem_nil, or_false] at hK
  rcases hK with rfl | rfl | rfl
  · exact ⟨v44, by simp, by simp [Json.step, List.lookup], by simp [Json.step, List.lookup]⟩
  · exact ⟨v49, by simp, by simp [Json.step, List.lookup], by simp [Json.step, List.lookup]⟩
  · exact ⟨v84, by simp, by simp [Json.step, List.lookup], by simp [Json.step, List.lookup]⟩

end BtcHd.Wallet
