/-
Helper lemmas for C10: the Base58 loops of the model are positional notation.
-/
import BtcHd.Lemmas.Digits
import BtcHd.Model.Base58

namespace BtcHd.Base58
open BtcHd Digits

/-! ### the alphabet (re-checked against `Generated` on every build) -/

theorem alphabet_length : alphabet.length = 58 := by decide

theorem alphabet_nodup : alphabet.Nodup := by decide

theorem alphaAt_eq {i : Nat} (h : i < 58) :
    alphaAt i = alphabet[i]'(by rw [alphabet_length]; exact h) := by
  unfold alphaAt
  rw [List.getD_eq_getElem?_getD, List.getElem?_eq_getElem (by rw [alphabet_length]; exact h)]
  rfl

theorem alphaAt_mem {i : Nat} (h : i < 58) : alphaAt i ∈ alphabet := by
  rw [alphaAt_eq h]; exact List.getElem_mem _

theorem idxOf_alphaAt {i : Nat} (h : i < 58) : alphabet.idxOf (alphaAt i) = i := by
  rw [alphaAt_eq h]
  exact List.Nodup.idxOf_getElem alphabet_nodup i _

theorem idxOf_lt {c : Char} (h : c ∈ alphabet) : alphabet.idxOf c < 58 := by
  rw [← alphabet_length]; exact List.idxOf_lt_length_iff.mpr h

theorem alphaAt_idxOf {c : Char} (h : c ∈ alphabet) : alphaAt (alphabet.idxOf c) = c := by
  rw [alphaAt_eq (idxOf_lt h)]
  exact List.getElem_idxOf _

theorem alphaAt_inj {i j : Nat} (hi : i < 58) (hj : j < 58) (h : alphaAt i = alphaAt j) : i = j := by
  have := congrArg alphabet.idxOf h
  rwa [idxOf_alphaAt hi, idxOf_alphaAt hj] at this

/-! ### encoding loop = big-endian base-58 digits -/

theorem encBody_eq (num : Nat) (acc : List Char) :
    encBody num acc = (digitsBE 58 num).map alphaAt ++ acc := by
  induction num using Nat.strong_induction_on generalizing acc with
  | _ num ih =>
    rw [encBody]
    split
    · next h => subst h; simp [digitsBE_zero]
    · next h =>
      have hpos : 0 < num := Nat.pos_of_ne_zero h
      rw [ih (num / 58) (Nat.div_lt_self hpos (by decide)), digitsBE_step (by decide) hpos]
      simp

/-- the decoder's accumulation loop on a string of alphabet characters -/
theorem decNum_map (ds : List Nat) (hlt : ∀ d ∈ ds, d < 58) (rest : List Char) (acc : Nat) :
    decNum (ds.map alphaAt ++ rest) acc = decNum rest (horner 58 ds acc) := by
  induction ds generalizing acc with
  | nil => simp [horner]
  | cons d ds ih =>
    have hd : d < 58 := hlt d (List.mem_cons_self ..)
    simp only [List.map_cons, List.cons_append, decNum, alphaAt_mem hd, if_true,
      idxOf_alphaAt hd]
    rw [ih (fun x hx => hlt x (List.mem_cons_of_mem _ hx)), horner_cons]

/-- every alphabet string is the image of a digit list -/
theorem exists_digits (s : List Char) (h : ∀ c ∈ s, c ∈ alphabet) :
    ∃ ds : List Nat, (∀ d ∈ ds, d < 58) ∧ s = ds.map alphaAt := by
  refine ⟨s.map alphabet.idxOf, ?_, ?_⟩
  · intro d hd
    obtain ⟨c, hc, rfl⟩ := List.mem_map.mp hd
    exact idxOf_lt (h c hc)
  · rw [List.map_map]
    conv_lhs => rw [← List.map_id s]
    apply List.map_congr_left
    intro c hc
    simp [alphaAt_idxOf (h c hc)]

theorem decNum_foreign (s : List Char) (acc : Nat) (h : ∃ c ∈ s, c ∉ alphabet) :
    decNum s acc = none := by
  induction s generalizing acc with
  | nil => obtain ⟨c, hc, _⟩ := h; cases hc
  | cons c cs ih =>
    simp only [decNum]
    split
    · next hin =>
      apply ih
      obtain ⟨x, hx, hxn⟩ := h
      rcases List.mem_cons.mp hx with rfl | hx'
      · exact absurd hin hxn
      · exact ⟨x, hx', hxn⟩
    · rfl

/-! ### bytes = big-endian base-256 digits -/

theorem beToNat_eq (bs : Bytes) : beToNat bs = horner 256 (bs.map (·.toNat)) 0 := by
  unfold beToNat horner
  rw [List.foldl_map]

theorem beMinimal_eq (n : Nat) : beMinimal n = (digitsBE 256 n).map UInt8.ofNat := by
  induction n using Nat.strong_induction_on with
  | _ n ih =>
    rw [beMinimal]
    split
    · next h => subst h; simp [digitsBE_zero]
    · next h =>
      have hpos : 0 < n := Nat.pos_of_ne_zero h
      rw [ih (n / 256) (Nat.div_lt_self hpos (by decide)), digitsBE_step (by decide) hpos]
      simp

theorem toNat_ofNat_of_lt {d : Nat} (h : d < 256) : (UInt8.ofNat d).toNat = d := by
  simp [Nat.mod_eq_of_lt h]

theorem map_toNat_map_ofNat (ds : List Nat) (h : ∀ d ∈ ds, d < 256) :
    (ds.map UInt8.ofNat).map (·.toNat) = ds := by
  rw [List.map_map]
  conv_rhs => rw [← List.map_id ds]
  apply List.map_congr_left
  intro d hd
  simp [toNat_ofNat_of_lt (h d hd)]

theorem map_ofNat_map_toNat (bs : Bytes) : (bs.map (·.toNat)).map UInt8.ofNat = bs := by
  rw [List.map_map]
  conv_rhs => rw [← List.map_id bs]
  apply List.map_congr_left
  intro b _
  simp

theorem beToNat_beMinimal (n : Nat) : beToNat (beMinimal n) = n := by
  rw [beToNat_eq, beMinimal_eq, map_toNat_map_ofNat _ (fun d hd => digitsBE_lt (by decide) hd),
    horner_digitsBE]

/-- a byte string without a leading zero byte is the minimal encoding of its value -/
theorem beMinimal_beToNat (bs : Bytes) (h : bs.head? ≠ some 0) : beMinimal (beToNat bs) = bs := by
  rw [beToNat_eq, beMinimal_eq, digitsBE_horner (by decide), map_ofNat_map_toNat]
  · intro d hd
    obtain ⟨b, _, rfl⟩ := List.mem_map.mp hd
    exact b.toNat_lt
  · intro h0
    apply h
    cases bs with
    | nil => simp at h0
    | cons b bs =>
      simp only [List.map_cons, List.head?_cons, Option.some.injEq] at h0 ⊢
      exact UInt8.toNat_inj.mp (by simpa using h0)

/-! ### leading zeros / ones -/

theorem beToNat_replicate_zero_append (z : Nat) (bs : Bytes) :
    beToNat (List.replicate z 0 ++ bs) = beToNat bs := by
  induction z with
  | zero => simp
  | succ z ih =>
    rw [List.replicate_succ, List.cons_append]
    unfold beToNat at ih ⊢
    simpa using ih

/-- split a byte string into its zero prefix and the rest -/
theorem split_leadingZeros (bs : Bytes) :
    ∃ body, bs = List.replicate (leadingZeros bs) 0 ++ body ∧ body.head? ≠ some 0 := by
  induction bs with
  | nil => exact ⟨[], by simp [leadingZeros], by simp⟩
  | cons b bs ih =>
    by_cases hb : b = 0
    · obtain ⟨body, h1, h2⟩ := ih
      refine ⟨body, ?_, h2⟩
      subst hb
      simp only [leadingZeros, if_true, List.replicate_succ, List.cons_append]
      rw [← h1]
    · refine ⟨b :: bs, by simp [leadingZeros, hb], ?_⟩
      simp [hb]

theorem leadingZeros_replicate_append (z : Nat) (body : Bytes) (h : body.head? ≠ some 0) :
    leadingZeros (List.replicate z 0 ++ body) = z := by
  induction z with
  | zero =>
    cases body with
    | nil => rfl
    | cons b bs =>
      have : b ≠ 0 := by simpa using h
      simp [leadingZeros, this]
  | succ z ih => simp [List.replicate_succ, leadingZeros, ih]

theorem leadingOnes_replicate_append (z : Nat) (t : List Char) (h : t.head? ≠ some (alphaAt 0)) :
    leadingOnes (List.replicate z (alphaAt 0) ++ t) = z := by
  induction z with
  | zero =>
    cases t with
    | nil => rfl
    | cons c cs =>
      have : c ≠ alphaAt 0 := by simpa using h
      simp [leadingOnes, this]
  | succ z ih => simp [List.replicate_succ, leadingOnes, ih]

theorem split_leadingOnes (s : List Char) :
    ∃ t, s = List.replicate (leadingOnes s) (alphaAt 0) ++ t ∧ t.head? ≠ some (alphaAt 0) := by
  induction s with
  | nil => exact ⟨[], by simp [leadingOnes], by simp⟩
  | cons c cs ih =>
    by_cases hc : c = alphaAt 0
    · obtain ⟨t, h1, h2⟩ := ih
      refine ⟨t, ?_, h2⟩
      subst hc
      simp only [leadingOnes, if_true, List.replicate_succ, List.cons_append]
      rw [← h1]
    · refine ⟨c :: cs, by simp [leadingOnes, hc], ?_⟩
      simp [hc]

theorem horner_replicate_zero (b z : Nat) : horner b (List.replicate z 0) 0 = 0 := by
  induction z with
  | zero => rfl
  | succ z ih => rw [List.replicate_succ, horner_cons]; simpa using ih

theorem decNum_replicate_zero (z : Nat) (rest : List Char) :
    decNum (List.replicate z (alphaAt 0) ++ rest) 0 = decNum rest 0 := by
  have := decNum_map (List.replicate z 0) (by intro d hd; rw [List.eq_of_mem_replicate hd]; decide)
    rest 0
  rw [List.map_replicate] at this
  rw [this, horner_replicate_zero]

end BtcHd.Base58
