/-
Concrete nodes over the toy curve, used only as non-vacuity witnesses for the hypotheses
of the C07 / C09 theorems.
-/
import BtcHd.Lemmas.XKey
import BtcHd.Lemmas.ToyCurve

namespace BtcHd.Toy
open BtcHd Bip32 XKey BeFixed

/-- a depth-2 private node with scalar 3 -/
def prvNode : Node :=
  { isPrv := true, key := beFixed 32 3, chainCode := List.replicate 32 9, depth := 2, index := 5,
    testnet := false, hasParent := false, parentFp := some [1, 2, 3, 4], path := [],
    parsedVersion := none }

/-- a depth-1 hardened public node with key `sec(3·G)` -/
def pubNode : Node :=
  { isPrv := false, key := 2 :: beFixed 32 3, chainCode := List.replicate 32 9, depth := 1,
    index := 2147483648, testnet := true, hasParent := false, parentFp := some [1, 2, 3, 4],
    path := [], parsedVersion := none }

/-- a master-shaped node whose stored fingerprint is not zero (BIP32-invalid header) -/
def badMaster : Node :=
  { isPrv := true, key := beFixed 32 3, chainCode := List.replicate 32 9, depth := 0, index := 0,
    testnet := false, hasParent := false, parentFp := some [1, 2, 3, 4], path := [],
    parsedVersion := none }

theorem prvNode_wf : prvNode.WF prims where
  chain_len := by simp [prvNode]
  fp_len := rfl
  depth_lt := by decide
  index_lt := by decide
  key_prv := fun _ => ⟨3, by decide, by decide, Or.inl rfl⟩
  key_pub := fun h => by cases h

theorem prvNode_valid : BIP32valid prvNode := BIP32valid_of_depth_pos (by decide)

theorem pubNode_wf : pubNode.WF prims where
  chain_len := by simp [pubNode]
  fp_len := rfl
  depth_lt := by decide
  index_lt := by decide
  key_prv := fun h => by cases h
  key_pub := fun _ => ⟨by simp [pubNode, beFixed_length], 3, by
    have := laws.parse_sec true 3 (by decide)
    exact this⟩

theorem pubNode_valid : BIP32valid pubNode := BIP32valid_of_depth_pos (by decide)

theorem badMaster_wf : badMaster.WF prims where
  chain_len := by simp [badMaster]
  fp_len := rfl
  depth_lt := by decide
  index_lt := by decide
  key_prv := fun _ => ⟨3, by decide, by decide, Or.inl rfl⟩
  key_pub := fun h => by cases h

end BtcHd.Toy
