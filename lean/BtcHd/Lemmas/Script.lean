/-
Helper lemmas for C19: little-endian fixed-width integers, `readExact`,
varints, and the per-command / loop structure of the script parser.
Core Lean only.
-/
import BtcHd.Model.Script

namespace BtcHd.ScriptLemmas
open BtcHd Varint Script

/-! ### bytes -/

theorem toNat_ofNat_of_lt {d : Nat} (h : d < 256) : (UInt8.ofNat d).toNat = d := by
  simp [Nat.mod_eq_of_lt h]

theorem ofNat_toNat (b : UInt8) : UInt8.ofNat b.toNat = b := by simp

theorem toNat_lt (b : UInt8) : b.toNat < 256 := by
  have := UInt8.toNat_lt b
  simpa using this

theorem ofNat_ne_of_lt {d k : Nat} (hd : d < 256) (hk : k < 256) (h : d ≠ k) :
    UInt8.ofNat d ≠ UInt8.ofNat k := by
  intro e
  have := congrArg UInt8.toNat e
  rw [toNat_ofNat_of_lt hd, toNat_ofNat_of_lt hk] at this
  exact h this

/-! ### `leFixed` / `leToNat` -/

theorem leFixed_length (len n : Nat) : (leFixed len n).length = len := by
  induction len generalizing n with
  | zero => rfl
  | succ len ih => simp [leFixed, ih]

theorem leToNat_leFixed {len n : Nat} (h : n < 256 ^ len) : leToNat (leFixed len n) = n := by
  induction len generalizing n with
  | zero =>
    simp at h
    simp [leFixed, leToNat, h]
  | succ len ih =>
    have h' : n / 256 < 256 ^ len := by
      apply Nat.div_lt_of_lt_mul
      rw [Nat.pow_succ, Nat.mul_comm] at h
      exact h
    simp only [leFixed, leToNat]
    rw [ih h', toNat_ofNat_of_lt (Nat.mod_lt _ (by decide))]
    omega

theorem leToNat_lt (bs : Bytes) : leToNat bs < 256 ^ bs.length := by
  induction bs with
  | nil => simp [leToNat]
  | cons b bs ih =>
    have := toNat_lt b
    simp only [leToNat, List.length_cons, Nat.pow_succ]
    omega

theorem leFixed_leToNat (bs : Bytes) : leFixed bs.length (leToNat bs) = bs := by
  induction bs with
  | nil => rfl
  | cons b bs ih =>
    have := toNat_lt b
    simp only [leToNat, List.length_cons, leFixed]
    have h1 : (b.toNat + 256 * leToNat bs) % 256 = b.toNat := by omega
    have h2 : (b.toNat + 256 * leToNat bs) / 256 = leToNat bs := by omega
    rw [h1, h2, ih, ofNat_toNat]

theorem leFixed_one (n : Nat) : leFixed 1 n = [UInt8.ofNat (n % 256)] := rfl

theorem leFixed_two (n : Nat) :
    leFixed 2 n = [UInt8.ofNat (n % 256), UInt8.ofNat (n / 256 % 256)] := rfl

/-! ### `readExact` -/

theorem readExact_append (a rest : Bytes) : readExact (a ++ rest) a.length = some (a, rest) := by
  simp [readExact]

theorem readExact_append' {a : Bytes} {n : Nat} (h : a.length = n) (rest : Bytes) :
    readExact (a ++ rest) n = some (a, rest) := by
  subst h; exact readExact_append a rest

theorem readExact_short {s : Bytes} {n : Nat} (h : s.length < n) : readExact s n = none := by
  simp [readExact]; omega

theorem readExact_some {s a r : Bytes} {n : Nat} (h : readExact s n = some (a, r)) :
    s = a ++ r ∧ a.length = n := by
  unfold readExact at h
  split at h
  · next hle =>
    simp only [Option.some.injEq, Prod.mk.injEq] at h
    obtain ⟨rfl, rfl⟩ := h
    exact ⟨(List.take_append_drop n s).symm, by simp [List.length_take]; omega⟩
  · simp at h

/-! ### varints -/

theorem readVarint_fd (s : Bytes) :
    readVarint (0xfd :: s) = (readExact s 2).map fun (b, r) => (leToNat b, r) := by
  simp [readVarint]

theorem readVarint_fe (s : Bytes) :
    readVarint (0xfe :: s) = (readExact s 4).map fun (b, r) => (leToNat b, r) := by
  simp [readVarint]

theorem readVarint_ff (s : Bytes) :
    readVarint (0xff :: s) = (readExact s 8).map fun (b, r) => (leToNat b, r) := by
  simp [readVarint]

theorem readVarint_small {n : Nat} (h : n < 0xfd) (s : Bytes) :
    readVarint (UInt8.ofNat n :: s) = some (n, s) := by
  have h256 : n < 256 := by omega
  have e1 : UInt8.ofNat n ≠ 0xfd := ofNat_ne_of_lt h256 (k := 0xfd) (by decide) (by omega)
  have e2 : UInt8.ofNat n ≠ 0xfe := ofNat_ne_of_lt h256 (k := 0xfe) (by decide) (by omega)
  have e3 : UInt8.ofNat n ≠ 0xff := ofNat_ne_of_lt h256 (k := 0xff) (by decide) (by omega)
  simp only [readVarint, e1, e2, e3, if_false, toNat_ofNat_of_lt h256]

/-- the four shapes of `encodeVarint` -/
theorem encodeVarint_cases (n : Nat) :
    (n < 0xfd ∧ encodeVarint n = some [UInt8.ofNat n]) ∨
    (0xfd ≤ n ∧ n < 0x10000 ∧ encodeVarint n = some (0xfd :: leFixed 2 n)) ∨
    (0x10000 ≤ n ∧ n < 0x100000000 ∧ encodeVarint n = some (0xfe :: leFixed 4 n)) ∨
    (0x100000000 ≤ n ∧ n < 0x10000000000000000 ∧ encodeVarint n = some (0xff :: leFixed 8 n)) ∨
    (0x10000000000000000 ≤ n ∧ encodeVarint n = none) := by
  unfold encodeVarint
  by_cases h1 : n < 0xfd
  · left
    refine ⟨h1, ?_⟩
    rw [if_pos h1, leFixed_one, Nat.mod_eq_of_lt (by omega)]
  · right
    by_cases h2 : n < 0x10000
    · left; exact ⟨by omega, h2, by rw [if_neg h1, if_pos h2]⟩
    · right
      by_cases h3 : n < 0x100000000
      · left; exact ⟨by omega, h3, by rw [if_neg h1, if_neg h2, if_pos h3]⟩
      · right
        by_cases h4 : n < 0x10000000000000000
        · left; exact ⟨by omega, h4, by rw [if_neg h1, if_neg h2, if_neg h3, if_pos h4]⟩
        · right; exact ⟨by omega, by rw [if_neg h1, if_neg h2, if_neg h3, if_neg h4]⟩

theorem readVarint_encodeVarint {n : Nat} {enc : Bytes} (h : encodeVarint n = some enc)
    (rest : Bytes) : readVarint (enc ++ rest) = some (n, rest) := by
  rcases encodeVarint_cases n with ⟨h1, e⟩ | ⟨_, h2, e⟩ | ⟨_, h3, e⟩ | ⟨_, h4, e⟩ | ⟨_, e⟩
  · rw [e] at h; cases h
    exact readVarint_small h1 rest
  · rw [e] at h; cases h
    rw [List.cons_append, readVarint_fd, readExact_append' (leFixed_length 2 n)]
    show some (leToNat (leFixed 2 n), rest) = _
    rw [leToNat_leFixed (by omega)]
  · rw [e] at h; cases h
    rw [List.cons_append, readVarint_fe, readExact_append' (leFixed_length 4 n)]
    show some (leToNat (leFixed 4 n), rest) = _
    rw [leToNat_leFixed (by omega)]
  · rw [e] at h; cases h
    rw [List.cons_append, readVarint_ff, readExact_append' (leFixed_length 8 n)]
    show some (leToNat (leFixed 8 n), rest) = _
    rw [leToNat_leFixed (by omega)]
  · rw [e] at h; cases h

theorem encodeVarint_isSome {n : Nat} (h : n < 2 ^ 64) : ∃ enc, encodeVarint n = some enc := by
  rcases encodeVarint_cases n with ⟨_, e⟩ | ⟨_, _, e⟩ | ⟨_, _, e⟩ | ⟨_, _, e⟩ | ⟨h5, _⟩
  · exact ⟨_, e⟩
  · exact ⟨_, e⟩
  · exact ⟨_, e⟩
  · exact ⟨_, e⟩
  · omega

/-- a proper prefix `p` of `x :: l` is `[]` or `x :: p'` with `p'` a proper prefix of `l` -/
theorem proper_prefix_cons {α} {p l : List α} {x : α} (hp : p <+: x :: l) (hne : p ≠ x :: l) :
    p = [] ∨ ∃ p', p = x :: p' ∧ p' <+: l ∧ p'.length < l.length := by
  cases p with
  | nil => left; rfl
  | cons y p' =>
    right
    rw [List.cons_prefix_cons] at hp
    obtain ⟨rfl, hp'⟩ := hp
    refine ⟨p', rfl, hp', ?_⟩
    have hle := hp'.length_le
    rcases Nat.lt_or_ge p'.length l.length with h | h
    · exact h
    · exact absurd (by rw [hp'.eq_of_length (by omega)]) hne

theorem readVarint_truncated {n : Nat} {enc pre : Bytes} (h : encodeVarint n = some enc)
    (hp : pre <+: enc) (hne : pre ≠ enc) : readVarint pre = none := by
  rcases encodeVarint_cases n with ⟨_, e⟩ | ⟨_, _, e⟩ | ⟨_, _, e⟩ | ⟨_, _, e⟩ | ⟨_, e⟩
  · rw [e] at h; cases h
    rcases proper_prefix_cons hp hne with rfl | ⟨p', _, _, hl⟩
    · rfl
    · simp at hl
  · rw [e] at h; cases h
    rcases proper_prefix_cons hp hne with rfl | ⟨p', rfl, _, hl⟩
    · rfl
    · rw [leFixed_length] at hl
      rw [readVarint_fd, readExact_short hl]; rfl
  · rw [e] at h; cases h
    rcases proper_prefix_cons hp hne with rfl | ⟨p', rfl, _, hl⟩
    · rfl
    · rw [leFixed_length] at hl
      rw [readVarint_fe, readExact_short hl]; rfl
  · rw [e] at h; cases h
    rcases proper_prefix_cons hp hne with rfl | ⟨p', rfl, _, hl⟩
    · rfl
    · rw [leFixed_length] at hl
      rw [readVarint_ff, readExact_short hl]; rfl
  · rw [e] at h; cases h

end BtcHd.ScriptLemmas

/-! ### vocabulary: well-formed commands and the wire format -/

namespace BtcHd.Script
open BtcHd Varint

/-- A command of a round-trippable script: an opcode byte that is not a push
prefix (bytes 1..77 introduce data), or a data element of 1..520 bytes. -/
def Cmd.WF : Cmd → Prop
  | .op b => b = 0 ∨ (78 ≤ b ∧ b ≤ 255)
  | .data d => 1 ≤ d.length ∧ d.length ≤ 520

instance : DecidablePred Cmd.WF := fun c => by
  cases c <;> unfold Cmd.WF <;> infer_instance

/-- `Wire c chunk`: the byte string `chunk` is one of the wire forms that the
parser reads as the single command `c`. -/
inductive Wire : Cmd → Bytes → Prop
  /-- an opcode byte: `0` or `78..255` -/
  | op (b : UInt8) (h : ¬ (1 ≤ b.toNat ∧ b.toNat ≤ 77)) : Wire (.op b.toNat) [b]
  /-- a bare length byte `1..75` followed by that many bytes -/
  | push (b : UInt8) (d : Bytes) (h1 : 1 ≤ b.toNat) (h2 : b.toNat ≤ 75) (hd : d.length = b.toNat) :
      Wire (.data d) (b :: d)
  /-- `OP_PUSHDATA1`, one length byte, the data -/
  | pushdata1 (l : UInt8) (d : Bytes) (hd : d.length = l.toNat) : Wire (.data d) (76 :: l :: d)
  /-- `OP_PUSHDATA2`, two little-endian length bytes, the data -/
  | pushdata2 (lo hi : UInt8) (d : Bytes) (hd : d.length = lo.toNat + 256 * hi.toNat) :
      Wire (.data d) (77 :: lo :: hi :: d)

/-- `Wires cs body`: `body` is a concatenation of wire forms of the commands `cs`, in order. -/
inductive Wires : List Cmd → Bytes → Prop
  | nil : Wires [] []
  | cons {c : Cmd} {chunk : Bytes} {cs : List Cmd} {body : Bytes} :
      Wire c chunk → Wires cs body → Wires (c :: cs) (chunk ++ body)

end BtcHd.Script

namespace BtcHd.ScriptLemmas
open BtcHd Varint Script

/-! ### `serCmd` -/

theorem serCmd_op {b : Nat} (h : b < 256) : serCmd (.op b) = some [UInt8.ofNat b] := by
  simp only [serCmd, toBytesLE]
  rw [if_pos (by simpa using h), leFixed_one, Nat.mod_eq_of_lt h]

theorem serCmd_op_large {b : Nat} (h : 256 ≤ b) : serCmd (.op b) = none := by
  simp only [serCmd, toBytesLE]
  rw [if_neg (by simp; omega)]

theorem serCmd_data_small {d : Bytes} (h : d.length ≤ 75) :
    serCmd (.data d) = some (UInt8.ofNat d.length :: d) := by
  simp only [serCmd]
  rw [if_pos h, leFixed_one, Nat.mod_eq_of_lt (by omega)]; rfl

theorem serCmd_data_mid {d : Bytes} (h1 : 76 ≤ d.length) (h2 : d.length ≤ 255) :
    serCmd (.data d) = some (76 :: UInt8.ofNat d.length :: d) := by
  simp only [serCmd]
  rw [if_neg (by omega), if_pos (by omega), leFixed_one, Nat.mod_eq_of_lt (by omega)]; rfl

theorem serCmd_data_big {d : Bytes} (h1 : 256 ≤ d.length) (h2 : d.length ≤ 520) :
    serCmd (.data d) =
      some (77 :: UInt8.ofNat (d.length % 256) :: UInt8.ofNat (d.length / 256) :: d) := by
  simp only [serCmd]
  rw [if_neg (by omega), if_neg (by omega), if_pos (by omega), leFixed_two,
    Nat.mod_eq_of_lt (a := d.length / 256) (by omega)]; rfl

theorem serCmd_data_huge {d : Bytes} (h : 520 < d.length) : serCmd (.data d) = none := by
  simp only [serCmd]
  rw [if_neg (by omega), if_neg (by omega), if_neg (by omega)]

/-- what a well-formed command serialises to is a wire form of that command -/
theorem wire_of_serCmd {c : Cmd} {a : Bytes} (hwf : c.WF) (h : serCmd c = some a) : Wire c a := by
  cases c with
  | op b =>
    have hb : b < 256 := by rcases hwf with rfl | ⟨_, h⟩ <;> omega
    rw [serCmd_op hb] at h; cases h
    have := Wire.op (UInt8.ofNat b) (by
      rw [toNat_ofNat_of_lt hb]; rcases hwf with rfl | ⟨_, _⟩ <;> omega)
    rwa [toNat_ofNat_of_lt hb] at this
  | data d =>
    obtain ⟨h1, h520⟩ := hwf
    by_cases hs : d.length ≤ 75
    · rw [serCmd_data_small hs] at h; cases h
      have e := toNat_ofNat_of_lt (d := d.length) (by omega)
      exact Wire.push _ d (by omega) (by omega) e.symm
    · by_cases hm : d.length ≤ 255
      · rw [serCmd_data_mid (by omega) hm] at h; cases h
        have e := toNat_ofNat_of_lt (d := d.length) (by omega)
        exact Wire.pushdata1 _ d e.symm
      · rw [serCmd_data_big (by omega) h520] at h; cases h
        have e1 := toNat_ofNat_of_lt (d := d.length % 256) (by omega)
        have e2 := toNat_ofNat_of_lt (d := d.length / 256) (by omega)
        exact Wire.pushdata2 _ _ d (by omega)

theorem serCmd_isSome {c : Cmd} (hwf : c.WF) : ∃ a, serCmd c = some a := by
  cases c with
  | op b =>
    have hb : b < 256 := by rcases hwf with rfl | ⟨_, h⟩ <;> omega
    exact ⟨_, serCmd_op hb⟩
  | data d =>
    obtain ⟨h1, h520⟩ := hwf
    by_cases hs : d.length ≤ 75
    · exact ⟨_, serCmd_data_small hs⟩
    · by_cases hm : d.length ≤ 255
      · exact ⟨_, serCmd_data_mid (by omega) hm⟩
      · exact ⟨_, serCmd_data_big (by omega) h520⟩

theorem serCmd_length_le {c : Cmd} {a : Bytes} (h : serCmd c = some a) : a.length ≤ 523 := by
  cases c with
  | op b =>
    simp only [serCmd, toBytesLE] at h
    split at h
    · cases h; simp [leFixed_length]
    · cases h
  | data d =>
    simp only [serCmd] at h
    split at h
    · cases h; simp [leFixed_length]; omega
    · split at h
      · cases h; simp [leFixed_length]; omega
      · split at h
        · cases h; simp [leFixed_length]; omega
        · cases h

/-! ### one parser round -/

theorem wire_length_pos {c : Cmd} {chunk : Bytes} (h : Wire c chunk) : 1 ≤ chunk.length := by
  cases h <;> simp

theorem eq_ofNat_of_toNat_eq {b : UInt8} {k : Nat} (h : b.toNat = k) : b = UInt8.ofNat k := by
  rw [← h, ofNat_toNat]

theorem parseOne_76 (rest : Bytes) :
    parseOne (76 :: rest) = (readExact rest 1).bind fun (l, r1) =>
      (readExact r1 (leToNat l)).map fun (d, r) => (.data d, 1 + leToNat l + 1, r) := by
  have e : (76 : UInt8).toNat = 76 := rfl
  simp [parseOne, e]

theorem parseOne_77 (rest : Bytes) :
    parseOne (77 :: rest) = (readExact rest 2).bind fun (l, r1) =>
      (readExact r1 (leToNat l)).map fun (d, r) => (.data d, 1 + leToNat l + 2, r) := by
  have e : (77 : UInt8).toNat = 77 := rfl
  simp [parseOne, e]

theorem parseOne_wire {c : Cmd} {chunk : Bytes} (h : Wire c chunk) (rest : Bytes) :
    parseOne (chunk ++ rest) = some (c, chunk.length, rest) := by
  cases h with
  | op b hb =>
    have h76 : b.toNat ≠ 76 := by omega
    have h77 : b.toNat ≠ 77 := by omega
    have h75 : ¬ (1 ≤ b.toNat ∧ b.toNat ≤ 75) := by omega
    simp only [List.cons_append, List.nil_append, parseOne, h75, h76, h77, if_false,
      List.length_cons, List.length_nil]
  | push b d h1 h2 hd =>
    simp only [List.cons_append, parseOne, h1, h2, and_self, if_true, List.length_cons]
    rw [readExact_append' hd]
    simp only [Option.map_some, ← hd]
    rw [Nat.add_comm]
  | pushdata1 l d hd =>
    rw [List.cons_append, List.cons_append, parseOne_76,
      show l :: (d ++ rest) = [l] ++ (d ++ rest) from rfl, readExact_append' (a := [l]) (n := 1) rfl]
    simp only [Option.bind_some, leToNat, Nat.mul_zero, Nat.add_zero]
    rw [readExact_append' hd]
    simp only [Option.map_some, ← hd, List.length_cons]
    congr 3; omega
  | pushdata2 lo hi d hd =>
    rw [List.cons_append, List.cons_append, List.cons_append, parseOne_77,
      show lo :: hi :: (d ++ rest) = [lo, hi] ++ (d ++ rest) from rfl,
      readExact_append' (a := [lo, hi]) (n := 2) rfl]
    simp only [Option.bind_some, leToNat, Nat.mul_zero, Nat.add_zero]
    rw [readExact_append' hd]
    simp only [Option.map_some, ← hd, List.length_cons]
    congr 3; omega

theorem length_eq_two {α} {l : List α} (h : l.length = 2) : ∃ x y, l = [x, y] := by
  match l, h with
  | [x, y], _ => exact ⟨x, y, rfl⟩

theorem parseOne_some {s r : Bytes} {c : Cmd} {k : Nat} (h : parseOne s = some (c, k, r)) :
    ∃ chunk, s = chunk ++ r ∧ chunk.length = k ∧ Wire c chunk := by
  cases s with
  | nil => simp [parseOne] at h
  | cons cur rest =>
    simp only [parseOne] at h
    split at h
    · next hb =>
      rw [Option.map_eq_some_iff] at h
      obtain ⟨⟨d, r'⟩, hre, heq⟩ := h
      simp only [Prod.mk.injEq] at heq
      obtain ⟨rfl, rfl, rfl⟩ := heq
      obtain ⟨rfl, hd⟩ := readExact_some hre
      exact ⟨cur :: d, rfl, by simp [hd]; omega, Wire.push cur d hb.1 hb.2 hd⟩
    · split at h
      · next hb =>
        rw [Option.bind_eq_some_iff] at h
        obtain ⟨⟨l, r1⟩, hre1, h⟩ := h
        rw [Option.map_eq_some_iff] at h
        obtain ⟨⟨d, r'⟩, hre, heq⟩ := h
        simp only [Prod.mk.injEq] at heq
        obtain ⟨rfl, rfl, rfl⟩ := heq
        obtain ⟨rfl, hl⟩ := readExact_some hre1
        obtain ⟨rfl, hd⟩ := readExact_some hre
        obtain ⟨x, rfl⟩ := List.length_eq_one_iff.mp hl
        have hcur : cur = 76 := eq_ofNat_of_toNat_eq hb
        subst hcur
        refine ⟨76 :: x :: d, rfl, by simp [hd]; omega, Wire.pushdata1 x d ?_⟩
        rw [hd]; simp [leToNat]
      · split at h
        · next hb =>
          rw [Option.bind_eq_some_iff] at h
          obtain ⟨⟨l, r1⟩, hre1, h⟩ := h
          rw [Option.map_eq_some_iff] at h
          obtain ⟨⟨d, r'⟩, hre, heq⟩ := h
          simp only [Prod.mk.injEq] at heq
          obtain ⟨rfl, rfl, rfl⟩ := heq
          obtain ⟨rfl, hl⟩ := readExact_some hre1
          obtain ⟨rfl, hd⟩ := readExact_some hre
          obtain ⟨x, y, rfl⟩ := length_eq_two hl
          have hcur : cur = 77 := eq_ofNat_of_toNat_eq hb
          subst hcur
          refine ⟨77 :: x :: y :: d, rfl, by simp [hd]; omega, Wire.pushdata2 x y d ?_⟩
          rw [hd]; simp [leToNat]
        · next h75 h76 h77 =>
          simp only [Option.some.injEq, Prod.mk.injEq] at h
          obtain ⟨rfl, rfl, rfl⟩ := h
          exact ⟨[cur], rfl, rfl, Wire.op cur (by omega)⟩

/-! ### more on `readExact` / `readVarint`: what a successful read consumed -/

theorem readExact_self {a : Bytes} {n : Nat} (h : a.length = n) : readExact a n = some (a, []) := by
  have := readExact_append' h []
  rwa [List.append_nil] at this

theorem readExact_append_of_some {s a r : Bytes} {k : Nat} (h : readExact s k = some (a, r))
    (x : Bytes) : readExact (s ++ x) k = some (a, r ++ x) := by
  obtain ⟨rfl, hl⟩ := readExact_some h
  rw [List.append_assoc]
  exact readExact_append' hl _

theorem readVarint_append {s r : Bytes} {n : Nat} (h : readVarint s = some (n, r)) (x : Bytes) :
    readVarint (s ++ x) = some (n, r ++ x) := by
  cases s with
  | nil => simp [readVarint] at h
  | cons i rest =>
    rw [List.cons_append]
    simp only [readVarint] at h ⊢
    split at h
    · next hi =>
      rw [if_pos hi]
      rw [Option.map_eq_some_iff] at h
      obtain ⟨⟨b, r'⟩, hre, heq⟩ := h
      simp only [Prod.mk.injEq] at heq
      obtain ⟨rfl, rfl⟩ := heq
      rw [readExact_append_of_some hre]; rfl
    · next hi =>
      rw [if_neg hi]
      split at h
      · next hi =>
        rw [if_pos hi]
        rw [Option.map_eq_some_iff] at h
        obtain ⟨⟨b, r'⟩, hre, heq⟩ := h
        simp only [Prod.mk.injEq] at heq
        obtain ⟨rfl, rfl⟩ := heq
        rw [readExact_append_of_some hre]; rfl
      · next hi =>
        rw [if_neg hi]
        split at h
        · next hi =>
          rw [if_pos hi]
          rw [Option.map_eq_some_iff] at h
          obtain ⟨⟨b, r'⟩, hre, heq⟩ := h
          simp only [Prod.mk.injEq] at heq
          obtain ⟨rfl, rfl⟩ := heq
          rw [readExact_append_of_some hre]; rfl
        · next hi =>
          rw [if_neg hi]
          simp only [Option.some.injEq, Prod.mk.injEq] at h
          obtain ⟨rfl, rfl⟩ := h
          rfl

/-- a successful `readVarint` consumed a header `hdr` (1, 3, 5 or 9 bytes) that on its own
decodes to the same number, and left everything after it untouched -/
theorem readVarint_split {s r : Bytes} {n : Nat} (h : readVarint s = some (n, r)) :
    ∃ hdr, s = hdr ++ r ∧ readVarint hdr = some (n, []) ∧ 1 ≤ hdr.length ∧ hdr.length ≤ 9 := by
  cases s with
  | nil => simp [readVarint] at h
  | cons i rest =>
    by_cases h1 : i = 0xfd
    · subst h1
      rw [readVarint_fd, Option.map_eq_some_iff] at h
      obtain ⟨⟨b, r'⟩, hre, heq⟩ := h
      simp only [Prod.mk.injEq] at heq
      obtain ⟨rfl, rfl⟩ := heq
      obtain ⟨rfl, hl⟩ := readExact_some hre
      refine ⟨0xfd :: b, rfl, ?_, by simp, by simp [hl]⟩
      rw [readVarint_fd, readExact_self hl]; rfl
    · by_cases h2 : i = 0xfe
      · subst h2
        rw [readVarint_fe, Option.map_eq_some_iff] at h
        obtain ⟨⟨b, r'⟩, hre, heq⟩ := h
        simp only [Prod.mk.injEq] at heq
        obtain ⟨rfl, rfl⟩ := heq
        obtain ⟨rfl, hl⟩ := readExact_some hre
        refine ⟨0xfe :: b, rfl, ?_, by simp, by simp [hl]⟩
        rw [readVarint_fe, readExact_self hl]; rfl
      · by_cases h3 : i = 0xff
        · subst h3
          rw [readVarint_ff, Option.map_eq_some_iff] at h
          obtain ⟨⟨b, r'⟩, hre, heq⟩ := h
          simp only [Prod.mk.injEq] at heq
          obtain ⟨rfl, rfl⟩ := heq
          obtain ⟨rfl, hl⟩ := readExact_some hre
          refine ⟨0xff :: b, rfl, ?_, by simp, by simp [hl]⟩
          rw [readVarint_ff, readExact_self hl]; rfl
        · simp only [readVarint, h1, h2, h3, if_false, Option.some.injEq, Prod.mk.injEq] at h
          obtain ⟨rfl, rfl⟩ := h
          refine ⟨[i], rfl, ?_, by simp, by simp⟩
          simp only [readVarint, h1, h2, h3, if_false]

/-! ### the parser loop -/

theorem wires_length {cs : List Cmd} {body : Bytes} (h : Wires cs body) :
    cs.length ≤ body.length := by
  induction h with
  | nil => simp
  | cons hw _ ih =>
    have := wire_length_pos hw
    simp only [List.length_cons, List.length_append]; omega

/-- the loop reads back any concatenation of wire forms, given one unit of fuel per command -/
theorem parseLoop_wires {cs : List Cmd} {body : Bytes} (h : Wires cs body) (fuel count : Nat)
    (rest : Bytes) (hf : cs.length ≤ fuel) :
    parseLoop fuel (count + body.length) count (body ++ rest)
      = some (cs, count + body.length, rest) := by
  induction h generalizing fuel count with
  | nil =>
    cases fuel with
    | zero => rfl
    | succ f => simp [parseLoop]
  | @cons c chunk cs body hw _ ih =>
    cases fuel with
    | zero => simp at hf
    | succ f =>
      have hpos := wire_length_pos hw
      simp only [List.length_cons, Nat.add_le_add_iff_right] at hf
      simp only [parseLoop]
      rw [if_pos (by simp only [List.length_append]; omega), List.append_assoc,
        parseOne_wire hw]
      simp only [Option.bind_some]
      have e : count + (chunk ++ body).length = count + chunk.length + body.length := by
        simp only [List.length_append]; omega
      rw [e, ih f (count + chunk.length) hf]
      rfl

/-- whatever the loop returns, it consumed a concatenation of wire forms of the commands it
returns, and its byte count grew by exactly the number of bytes consumed -/
theorem parseLoop_some {fuel len count cnt : Nat} {s r : Bytes} {cs : List Cmd}
    (h : parseLoop fuel len count s = some (cs, cnt, r)) :
    ∃ body, Wires cs body ∧ s = body ++ r ∧ cnt = count + body.length := by
  induction fuel generalizing count s cs with
  | zero =>
    simp only [parseLoop, Option.some.injEq, Prod.mk.injEq] at h
    obtain ⟨rfl, rfl, rfl⟩ := h
    exact ⟨[], Wires.nil, rfl, rfl⟩
  | succ f ih =>
    simp only [parseLoop] at h
    split at h
    · rw [Option.bind_eq_some_iff] at h
      obtain ⟨⟨c, k, r1⟩, hone, h⟩ := h
      rw [Option.map_eq_some_iff] at h
      obtain ⟨⟨cs', cnt', r'⟩, hloop, heq⟩ := h
      simp only [Prod.mk.injEq] at heq
      obtain ⟨rfl, rfl, rfl⟩ := heq
      obtain ⟨chunk, rfl, rfl, hw⟩ := parseOne_some hone
      obtain ⟨body, hws, rfl, rfl⟩ := ih hloop
      exact ⟨chunk ++ body, Wires.cons hw hws, by rw [List.append_assoc],
        by simp only [List.length_append]; omega⟩
    · simp only [Option.some.injEq, Prod.mk.injEq] at h
      obtain ⟨rfl, rfl, rfl⟩ := h
      exact ⟨[], Wires.nil, rfl, rfl⟩

/-- one more unit of fuel changes nothing once the fuel exceeds the stream length (each round
consumes at least one byte, so the loop ends by itself before the fuel does) -/
theorem parseLoop_fuel_succ {fuel len count : Nat} {s : Bytes} (hf : s.length < fuel) :
    parseLoop (fuel + 1) len count s = parseLoop fuel len count s := by
  induction fuel generalizing count s with
  | zero => omega
  | succ f ih =>
    rw [parseLoop, parseLoop]
    split
    · cases hone : parseOne s with
      | none => rfl
      | some x =>
        obtain ⟨c, k, r⟩ := x
        obtain ⟨chunk, rfl, rfl, hw⟩ := parseOne_some hone
        have := wire_length_pos hw
        simp only [Option.bind_some]
        rw [ih (by simp only [List.length_append] at hf; omega)]
    · rfl

/-- any fuel above the stream length gives the same result: the model's choice
`body.length + 1` is never the reason for a rejection -/
theorem parseLoop_fuel_irrelevant {fuel len count : Nat} {s : Bytes} (hf : s.length < fuel) :
    parseLoop fuel len count s = parseLoop (s.length + 1) len count s := by
  induction fuel with
  | zero => omega
  | succ f ih =>
    rcases Nat.lt_or_ge s.length f with h | h
    · rw [parseLoop_fuel_succ h, ih h]
    · have : f = s.length := by omega
      rw [this]

/-! ### `rawSerialize` -/

theorem rawSerialize_cons_some {c : Cmd} {cs : List Cmd} {raw : Bytes}
    (h : rawSerialize (c :: cs) = some raw) :
    ∃ a raw', serCmd c = some a ∧ rawSerialize cs = some raw' ∧ raw = a ++ raw' := by
  simp only [rawSerialize] at h
  rw [Option.bind_eq_some_iff] at h
  obtain ⟨a, ha, h⟩ := h
  rw [Option.map_eq_some_iff] at h
  obtain ⟨raw', hr, rfl⟩ := h
  exact ⟨a, raw', ha, hr, rfl⟩

theorem wires_of_rawSerialize {cs : List Cmd} {raw : Bytes} (hwf : ∀ c ∈ cs, c.WF)
    (h : rawSerialize cs = some raw) : Wires cs raw := by
  induction cs generalizing raw with
  | nil =>
    simp only [rawSerialize, Option.some.injEq] at h
    subst h; exact Wires.nil
  | cons c cs ih =>
    obtain ⟨a, raw', ha, hr, rfl⟩ := rawSerialize_cons_some h
    exact Wires.cons (wire_of_serCmd (hwf c (by simp)) ha)
      (ih (fun c' hc' => hwf c' (by simp [hc'])) hr)

theorem rawSerialize_isSome {cs : List Cmd} (hwf : ∀ c ∈ cs, c.WF) :
    ∃ raw, rawSerialize cs = some raw ∧ raw.length ≤ 523 * cs.length := by
  induction cs with
  | nil => exact ⟨[], rfl, by simp⟩
  | cons c cs ih =>
    obtain ⟨a, ha⟩ := serCmd_isSome (hwf c (by simp))
    obtain ⟨raw', hr, hl⟩ := ih (fun c' hc' => hwf c' (by simp [hc']))
    refine ⟨a ++ raw', by simp [rawSerialize, ha, hr], ?_⟩
    have := serCmd_length_le ha
    simp only [List.length_append, List.length_cons]; omega

theorem rawSerialize_length_le {cs : List Cmd} {raw : Bytes} (h : rawSerialize cs = some raw) :
    raw.length ≤ 523 * cs.length := by
  induction cs generalizing raw with
  | nil =>
    simp only [rawSerialize, Option.some.injEq] at h
    subst h; simp
  | cons c cs ih =>
    obtain ⟨a, raw', ha, hr, rfl⟩ := rawSerialize_cons_some h
    have := serCmd_length_le ha
    have := ih hr
    simp only [List.length_append, List.length_cons]; omega

end BtcHd.ScriptLemmas
