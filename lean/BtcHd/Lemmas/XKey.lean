/-
Helper definitions and lemmas for C07 (extended-key serialisation) and C09
(key encodings): well-formed nodes, the explicit 78-byte layout, how `parseBytes`
reads it back, and Base58 length / leading-character facts from numeric bounds.
-/
import BtcHd.Lemmas.BeFixed
import BtcHd.Lemmas.CurveLaws
import BtcHd.Lemmas.Base58
import BtcHd.Model.Bip32

open BtcHd BtcHd.Keys BtcHd.BeFixed BtcHd.Bip32

variable {Pt : Type}

/-! ### well-formed nodes (definitions live in `BtcHd.Bip32`, lemmas in `BtcHd.XKey`) -/

namespace BtcHd.Bip32

/-- A node whose fields have the sizes BIP32 prescribes and whose key is valid for its class:
a private node stores `ser256(k)` or `00‖ser256(k)` with `1 ≤ k < n`; a public node stores
33 bytes that the curve library parses. -/
structure Node.WF (P : Prims Pt) (nd : Node) : Prop where
  chain_len : nd.chainCode.length = 32
  fp_len : (parentFingerprint nd).length = 4
  depth_lt : nd.depth < 256
  index_lt : nd.index < 2 ^ 32
  key_prv : nd.isPrv = true → ∃ k, 1 ≤ k ∧ k < P.curve.n ∧
    (nd.key = beFixed 32 k ∨ nd.key = 0 :: beFixed 32 k)
  key_pub : nd.isPrv = false → nd.key.length = 33 ∧ ∃ pt, P.curve.parse nd.key = some pt

/-- BIP32 validity of the header: a node at depth 0 with child number 0 (a master key) has
parent fingerprint `00000000`.  Every node of depth ≥ 1 and every depth-0 master satisfies it;
it excludes exactly the headers that the `is_master` zeroing in `_serialize` would rewrite. -/
def BIP32valid (nd : Node) : Prop :=
  nd.depth = 0 → nd.index = 0 → parentFingerprint nd = [0, 0, 0, 0]

/-- the fingerprint field as `_serialize` writes it -/
def fpField (nd : Node) : Bytes :=
  if isMaster nd then [0, 0, 0, 0] else parentFingerprint nd

/-- the public view of a node: same header and chain code, key replaced by the compressed
public key (`none` when the node has no valid key) -/
def neuter (P : Prims Pt) (nd : Node) : Option Node :=
  (pubKey P nd).map fun K => { nd with isPrv := false, key := P.curve.sec true K }

end BtcHd.Bip32

namespace BtcHd.XKey

theorem BIP32valid_of_depth_pos {nd : Node} (h : 0 < nd.depth) : BIP32valid nd := by
  intro h0; omega

theorem BIP32valid_of_index_pos {nd : Node} (h : 0 < nd.index) : BIP32valid nd := by
  intro _ h0; omega

theorem BIP32valid_mkChild (nd : Node) (key chain : Bytes) (i : Nat) (fp : Bytes) :
    BIP32valid (mkChild nd key chain i fp) :=
  BIP32valid_of_depth_pos (by simp [mkChild])

theorem masterKey_shape {P : Prims Pt} {seed : Bytes} {t : Bool} {nd : Node}
    (h : masterKey P seed t = some nd) :
    isMaster nd = true ∧ BIP32valid nd ∧ nd.isPrv = true ∧ nd.testnet = t := by
  unfold masterKey at h
  simp only at h
  split at h
  · cases h
  · split at h
    · cases h
    · simp only [Option.some.injEq] at h
      subst h
      refine ⟨by simp [isMaster], ?_, rfl, rfl⟩
      intro _ _; rfl

/-! ### private / public key of a well-formed node -/

theorem mkPriv_beFixed {C : Curve Pt} {k : Nat} (h1 : 1 ≤ k) (h2 : k < C.n) (hn : C.n ≤ 2 ^ 256) :
    mkPriv C (beFixed 32 k) = some k := by
  have hk : k < 256 ^ 32 := by
    have : (256 : Nat) ^ 32 = 2 ^ 256 := by norm_num
    omega
  unfold mkPriv
  simp only [beFixed_length, beToNat_beFixed hk]
  simp [h1, h2]

theorem mkPriv_some {C : Curve Pt} {bs : Bytes} {k : Nat} (h : mkPriv C bs = some k) :
    bs.length = 32 ∧ 1 ≤ k ∧ k < C.n ∧ beToNat bs = k := by
  unfold mkPriv at h
  dsimp only at h
  by_cases hc : bs.length = 32 ∧ 1 ≤ beToNat bs ∧ beToNat bs < C.n
  · rw [if_pos hc] at h
    cases h
    exact ⟨hc.1, hc.2.1, hc.2.2, rfl⟩
  · rw [if_neg hc] at h
    cases h

theorem mkPriv_none {C : Curve Pt} {bs : Bytes}
    (h : bs.length ≠ 32 ∨ beToNat bs = 0 ∨ C.n ≤ beToNat bs) : mkPriv C bs = none := by
  unfold mkPriv
  dsimp only
  rw [if_neg]
  omega

theorem prvKey_some {P : Prims Pt} {nd : Node} {k : Nat} (h : prvKey P nd = some k) :
    1 ≤ k ∧ k < P.curve.n := by
  unfold prvKey at h
  split at h
  · exact ⟨(mkPriv_some h).2.1, (mkPriv_some h).2.2.1⟩
  · exact ⟨(mkPriv_some h).2.1, (mkPriv_some h).2.2.1⟩

theorem prvKey_of_key {P : Prims Pt} {nd : Node} {k : Nat} (h1 : 1 ≤ k) (h2 : k < P.curve.n)
    (hn : P.curve.n ≤ 2 ^ 256) (hk : nd.key = beFixed 32 k ∨ nd.key = 0 :: beFixed 32 k) :
    prvKey P nd = some k := by
  unfold prvKey
  rcases hk with hk | hk
  · have : ¬ (nd.key.length = 33 ∧ nd.key.head? = some 0) := by
      rw [hk, beFixed_length]; omega
    rw [if_neg this, hk]
    exact mkPriv_beFixed h1 h2 hn
  · have : nd.key.length = 33 ∧ nd.key.head? = some 0 := by
      rw [hk]; simp [beFixed_length]
    rw [if_pos this, hk]
    exact mkPriv_beFixed h1 h2 hn

/-- the scalar stored in a private node is determined by the key bytes -/
theorem beToNat_key {nd : Node} {k : Nat} (hk256 : k < 2 ^ 256)
    (hk : nd.key = beFixed 32 k ∨ nd.key = 0 :: beFixed 32 k) : beToNat nd.key = k := by
  have hk' : k < 256 ^ 32 := by
    have : (256 : Nat) ^ 32 = 2 ^ 256 := by norm_num
    omega
  rcases hk with hk | hk
  · rw [hk, beToNat_beFixed hk']
  · rw [hk, beToNat_zero_cons, beToNat_beFixed hk']

/-! ### the 78-byte layout -/

theorem serializeWith_eq {nd : Node} (key : Bytes) {v : Nat} (hd : nd.depth < 256)
    (hi : nd.index < 2 ^ 32) (hv : v < 2 ^ 32) :
    serializeWith nd key v = some (beFixed 4 v ++ (beFixed 1 nd.depth ++ (fpField nd ++
      (beFixed 4 nd.index ++ (nd.chainCode ++ key))))) := by
  have e4 : (256 : Nat) ^ 4 = 2 ^ 32 := by norm_num
  unfold serializeWith
  rw [toBytesBE_eq_some (by omega), toBytesBE_eq_some (by omega : nd.depth < 256 ^ 1),
    toBytesBE_eq_some (by omega)]
  simp [fpField, List.append_assoc]

theorem serializeWith_some {nd : Node} {key ser : Bytes} {v : Nat}
    (h : serializeWith nd key v = some ser) :
    nd.depth < 256 ∧ nd.index < 2 ^ 32 ∧ v < 2 ^ 32 := by
  have e4 : (256 : Nat) ^ 4 = 2 ^ 32 := by norm_num
  unfold serializeWith toBytesBE at h
  by_cases hv : v < 256 ^ 4
  · by_cases hd : nd.depth < 256 ^ 1
    · by_cases hi : nd.index < 256 ^ 4
      · omega
      · rw [if_neg hi] at h; simp at h
    · rw [if_neg hd] at h; simp at h
  · rw [if_neg hv] at h; simp at h

theorem fpField_length {nd : Node} (h : (parentFingerprint nd).length = 4) :
    (fpField nd).length = 4 := by
  unfold fpField; split <;> simp [h]

/-- `_parse` on a stream holding the six fields with their nominal widths -/
theorem parseBytes_layout (isPrv t : Bool) (v4 d1 fp i4 cc key rest : Bytes)
    (h1 : v4.length = 4) (h2 : d1.length = 1) (h3 : fp.length = 4) (h4 : i4.length = 4)
    (h5 : cc.length = 32) (h6 : key.length = 33) :
    parseBytes isPrv t (v4 ++ (d1 ++ (fp ++ (i4 ++ (cc ++ (key ++ rest)))))) =
      { isPrv := isPrv, key := key, chainCode := cc, depth := beToNat d1, index := beToNat i4,
        testnet := t, hasParent := false, parentFp := some fp, path := [],
        parsedVersion := some (beToNat v4) } := by
  unfold parseBytes
  simp only [List.take_left' h1, List.drop_left' h1, List.take_left' h2, List.drop_left' h2,
    List.take_left' h3, List.drop_left' h3, List.take_left' h4, List.drop_left' h4,
    List.take_left' h5, List.drop_left' h5, List.take_left' h6]

theorem parentFingerprint_some {fp : Bytes} (h : fp.length = 4) (nd : Node)
    (hp : nd.parentFp = some fp) : parentFingerprint nd = fp := by
  unfold parentFingerprint
  rw [hp]
  cases fp with
  | nil => simp at h
  | cons a as => rfl

/-! ### serialise, then parse -/

end BtcHd.XKey

namespace BtcHd.Bip32

/-- the 78 bytes `_serialize` produces -/
def layout (nd : Node) (key : Bytes) (v : Nat) : Bytes :=
  beFixed 4 v ++ (beFixed 1 nd.depth ++ (fpField nd ++
    (beFixed 4 nd.index ++ (nd.chainCode ++ key))))

/-- what `_parse` builds from `layout nd key v` -/
def parsedOf (isPrv t : Bool) (nd : Node) (key : Bytes) (v : Nat) : Node :=
  { isPrv := isPrv, key := key, chainCode := nd.chainCode, depth := nd.depth, index := nd.index,
    testnet := t, hasParent := false, parentFp := some (fpField nd), path := [],
    parsedVersion := some v }

end BtcHd.Bip32

namespace BtcHd.XKey

theorem layout_length {nd : Node} {key : Bytes} (v : Nat) (hc : nd.chainCode.length = 32)
    (hf : (parentFingerprint nd).length = 4) (hk : key.length = 33) :
    (layout nd key v).length = 78 := by
  simp [layout, beFixed_length, fpField_length hf, hc, hk]

theorem layout_take4 (nd : Node) (key : Bytes) (v : Nat) :
    (layout nd key v).take 4 = beFixed 4 v :=
  List.take_left' (beFixed_length 4 v)

theorem parseBytes_layout' (isPrv t : Bool) {nd : Node} {key : Bytes} {v : Nat}
    (hc : nd.chainCode.length = 32) (hf : (parentFingerprint nd).length = 4)
    (hd : nd.depth < 256) (hi : nd.index < 2 ^ 32) (hk : key.length = 33) (hv : v < 2 ^ 32) :
    parseBytes isPrv t (layout nd key v) = parsedOf isPrv t nd key v := by
  have e4 : (256 : Nat) ^ 4 = 2 ^ 32 := by norm_num
  have := parseBytes_layout isPrv t (beFixed 4 v) (beFixed 1 nd.depth) (fpField nd)
    (beFixed 4 nd.index) nd.chainCode key [] (beFixed_length _ _) (beFixed_length _ _)
    (fpField_length hf) (beFixed_length _ _) hc hk
  rw [List.append_nil] at this
  unfold layout parsedOf
  rw [this, beToNat_beFixed (by omega : nd.depth < 256 ^ 1), beToNat_beFixed (by omega),
    beToNat_beFixed (by omega)]

theorem parentFingerprint_parsedOf (isPrv t : Bool) {nd : Node} (key : Bytes) (v : Nat)
    (hf : (parentFingerprint nd).length = 4) :
    parentFingerprint (parsedOf isPrv t nd key v) = fpField nd :=
  parentFingerprint_some (fpField_length hf) _ rfl

theorem fpField_eq_of_valid {nd : Node} (h : BIP32valid nd) :
    fpField nd = parentFingerprint nd := by
  unfold fpField
  split
  · next hm =>
    simp only [isMaster, decide_eq_true_eq] at hm
    exact (h hm.1 hm.2.1).symm
  · rfl

theorem fpField_parsedOf (isPrv t : Bool) {nd : Node} (key : Bytes) (v : Nat)
    (hf : (parentFingerprint nd).length = 4) (hvalid : BIP32valid nd) :
    fpField (parsedOf isPrv t nd key v) = fpField nd := by
  rw [fpField_eq_of_valid hvalid]
  unfold fpField
  split
  · next hm =>
    have hm' : nd.depth = 0 ∧ nd.index = 0 := by
      simpa [isMaster, parsedOf] using hm
    exact (hvalid hm'.1 hm'.2).symm
  · rw [parentFingerprint_parsedOf isPrv t key v hf, fpField_eq_of_valid hvalid]

theorem layout_parsedOf (isPrv t : Bool) {nd : Node} (key key' : Bytes) (v v' : Nat)
    (hf : (parentFingerprint nd).length = 4) (hvalid : BIP32valid nd) :
    layout (parsedOf isPrv t nd key v) key' v' = layout nd key' v' := by
  unfold layout
  rw [fpField_parsedOf isPrv t key v hf hvalid]
  rfl

theorem BIP32valid_parsedOf (isPrv t : Bool) {nd : Node} (key : Bytes) (v : Nat)
    (hf : (parentFingerprint nd).length = 4) (hvalid : BIP32valid nd) :
    BIP32valid (parsedOf isPrv t nd key v) := by
  intro h0 h1
  rw [parentFingerprint_parsedOf isPrv t key v hf, fpField_eq_of_valid hvalid]
  exact hvalid h0 h1

theorem nodeEq_parsedOf {nd : Node} {key : Bytes} (v : Nat)
    (hf : (parentFingerprint nd).length = 4) (hvalid : BIP32valid nd)
    (hkey : beToNat key = beToNat nd.key) :
    nodeEq (parsedOf nd.isPrv nd.testnet nd key v) nd = true := by
  unfold nodeEq
  rw [parentFingerprint_parsedOf nd.isPrv nd.testnet key v hf, fpField_eq_of_valid hvalid]
  simp [parsedOf, hkey]

/-- without `BIP32valid` the parsed node differs from the original in its fingerprint -/
theorem nodeEq_parsedOf_iff {nd : Node} {key : Bytes} (v : Nat)
    (hf : (parentFingerprint nd).length = 4) (hkey : beToNat key = beToNat nd.key) :
    nodeEq (parsedOf nd.isPrv nd.testnet nd key v) nd = true ↔
      (isMaster nd = true → parentFingerprint nd = [0, 0, 0, 0]) := by
  unfold nodeEq
  rw [parentFingerprint_parsedOf nd.isPrv nd.testnet key v hf]
  simp only [parsedOf, hkey, true_and, decide_eq_true_eq]
  unfold fpField
  constructor
  · intro h hm; rw [if_pos hm] at h; exact h.symm
  · intro h
    split
    · next hm => exact (h hm).symm
    · rfl

/-! ### explicit serialisations of a well-formed node -/

theorem prvVersion_lt (nd : Node) : prvVersion nd < 2 ^ 32 := by
  unfold prvVersion; split <;> decide

theorem pubVersion_lt (nd : Node) : pubVersion nd < 2 ^ 32 := by
  unfold pubVersion; split <;> decide

theorem serializePrivate_eq {P : Prims Pt} {nd : Node} (hC : CurveLaws P.curve)
    (hwf : nd.WF P) (hprv : nd.isPrv = true) (version : Option Nat)
    (hv : version.getD (prvVersion nd) < 2 ^ 32) :
    ∃ k, 1 ≤ k ∧ k < P.curve.n ∧ beToNat nd.key = k ∧ prvKey P nd = some k ∧
      serializePrivate P nd version
        = some (layout nd (0 :: beFixed 32 k) (version.getD (prvVersion nd))) := by
  obtain ⟨k, h1, h2, hk⟩ := hwf.key_prv hprv
  have hn := hC.n_lt
  have hp := prvKey_of_key h1 h2 (Nat.le_of_lt hn) hk
  refine ⟨k, h1, h2, beToNat_key (by omega) hk, hp, ?_⟩
  unfold serializePrivate
  rw [if_pos hprv, hp]
  simp only [Option.bind_some, privBytes, List.singleton_append]
  exact serializeWith_eq _ hwf.depth_lt hwf.index_lt hv

/-- the public key of a well-formed node exists, is finite, and its compressed encoding has
33 bytes; for a public node that encoding is the stored key -/
theorem pubKey_wf {P : Prims Pt} {nd : Node} (hC : CurveLaws P.curve) (hwf : nd.WF P) :
    ∃ K, pubKey P nd = some K ∧ (P.curve.sec true K).length = 33 ∧ ¬ P.curve.isInf K ∧
      (nd.isPrv = true → ∃ k, 1 ≤ k ∧ k < P.curve.n ∧ beToNat nd.key = k ∧
        prvKey P nd = some k ∧ K = P.curve.mulGen k) ∧
      (nd.isPrv = false → P.curve.sec true K = nd.key) := by
  cases hprv : nd.isPrv with
  | true =>
    obtain ⟨k, h1, h2, hk⟩ := hwf.key_prv hprv
    have hn := hC.n_lt
    have hp := prvKey_of_key h1 h2 (Nat.le_of_lt hn) hk
    refine ⟨P.curve.mulGen k, ?_, hC.sec_len _ (hC.mulGen_notInf k h1 h2),
      hC.mulGen_notInf k h1 h2, fun _ => ⟨k, h1, h2, beToNat_key (by omega) hk, hp, rfl⟩, (fun h => by cases h)⟩
    unfold pubKey
    rw [if_pos hprv, hp]; rfl
  | false =>
    obtain ⟨hl, pt, hpt⟩ := hwf.key_pub hprv
    have hs := hC.sec_parse _ _ hl hpt
    refine ⟨pt, ?_, (by rw [hs, hl]), hC.parse_notInf _ _ hpt, (fun h => by cases h), fun _ => hs⟩
    unfold pubKey
    rw [hprv]; simpa using hpt

theorem serializePublic_eq {P : Prims Pt} {nd : Node} {K : Pt} (hK : pubKey P nd = some K)
    (hd : nd.depth < 256) (hi : nd.index < 2 ^ 32) (version : Option Nat)
    (hv : version.getD (pubVersion nd) < 2 ^ 32) :
    serializePublic P nd version
      = some (layout nd (P.curve.sec true K) (version.getD (pubVersion nd))) := by
  unfold serializePublic
  rw [hK]
  exact serializeWith_eq _ hd hi hv

/-! ### the parsed node is again well-formed -/

theorem WF_parsedOf_prv {P : Prims Pt} {nd : Node} (t : Bool) {k : Nat} (v : Nat)
    (hwf : nd.WF P) (h1 : 1 ≤ k) (h2 : k < P.curve.n) :
    (parsedOf true t nd (0 :: beFixed 32 k) v).WF P where
  chain_len := hwf.chain_len
  fp_len := by rw [parentFingerprint_parsedOf true t _ v hwf.fp_len]; exact fpField_length hwf.fp_len
  depth_lt := hwf.depth_lt
  index_lt := hwf.index_lt
  key_prv := fun _ => ⟨k, h1, h2, Or.inr rfl⟩
  key_pub := fun h => by cases h

theorem WF_parsedOf_pub {P : Prims Pt} {nd : Node} (t : Bool) {key : Bytes} (v : Nat)
    (hwf : nd.WF P) (hl : key.length = 33) (hp : ∃ pt, P.curve.parse key = some pt) :
    (parsedOf false t nd key v).WF P where
  chain_len := hwf.chain_len
  fp_len := by rw [parentFingerprint_parsedOf false t _ v hwf.fp_len]; exact fpField_length hwf.fp_len
  depth_lt := hwf.depth_lt
  index_lt := hwf.index_lt
  key_prv := fun h => by cases h
  key_pub := fun _ => ⟨hl, hp⟩

theorem serializePrivate_some {P : Prims Pt} {nd : Node} {version : Option Nat} {ser : Bytes}
    (h : serializePrivate P nd version = some ser) :
    nd.isPrv = true ∧ version.getD (prvVersion nd) < 2 ^ 32 := by
  unfold serializePrivate at h
  split at h
  · next hp =>
    obtain ⟨k, _, hk⟩ := Option.bind_eq_some_iff.mp h
    exact ⟨hp, (serializeWith_some hk).2.2⟩
  · cases h

theorem serializePublic_some {P : Prims Pt} {nd : Node} {version : Option Nat} {ser : Bytes}
    (h : serializePublic P nd version = some ser) :
    version.getD (pubVersion nd) < 2 ^ 32 := by
  unfold serializePublic at h
  obtain ⟨k, _, hk⟩ := Option.bind_eq_some_iff.mp h
  exact (serializeWith_some hk).2.2

/-- the header bytes of a master node are zero -/
theorem layout_master_zero {nd : Node} (hm : isMaster nd = true) (key : Bytes) (v : Nat) :
    ((layout nd key v).drop 4).take 9 = List.replicate 9 0 := by
  have hm' : nd.depth = 0 ∧ nd.index = 0 := by
    simp only [isMaster, decide_eq_true_eq] at hm
    exact ⟨hm.1, hm.2.1⟩
  unfold layout
  rw [List.drop_left' (beFixed_length 4 v), fpField, if_pos hm, hm'.1, hm'.2]
  rfl

theorem serializeWith_layout {nd : Node} {key ser : Bytes} {v : Nat}
    (h : serializeWith nd key v = some ser) : ser = layout nd key v := by
  obtain ⟨hd, hi, hv⟩ := serializeWith_some h
  rw [serializeWith_eq key hd hi hv] at h
  exact (Option.some.inj h).symm

end BtcHd.XKey
