/-
Helper definitions and lemmas about the wallet model (`Model/Wallet.lean`) for C06 (paper
wallet report), C15 (paranoia filter) and C16 (network tags).
-/
import BtcHd.Lemmas.Path
import BtcHd.Lemmas.Bip32
import BtcHd.Lemmas.Json

namespace BtcHd.Wallet
open BtcHd Keys Bip32

variable {Pt : Type}

/-! ### `mapM` in the `Option` monad (a list comprehension whose body may raise) -/

theorem mapM_opt_nil {α β : Type} (f : α → Option β) : ([] : List α).mapM f = some [] := rfl

theorem mapM_opt_cons {α β : Type} (f : α → Option β) (c : α) (cs : List α) :
    (c :: cs).mapM f = (f c).bind fun b => (cs.mapM f).map (b :: ·) :=
  Path.mapM_cons_opt f c cs

theorem mapM_opt_length {α β : Type} {f : α → Option β} {xs : List α} {ys : List β}
    (h : xs.mapM f = some ys) : ys.length = xs.length := by
  induction xs generalizing ys with
  | nil => rw [mapM_opt_nil] at h; cases h; rfl
  | cons x xs ih =>
    rw [mapM_opt_cons] at h
    obtain ⟨b, _, h⟩ := Option.bind_eq_some_iff.mp h
    obtain ⟨bs, hbs, rfl⟩ := Option.map_eq_some_iff.mp h
    simp [ih hbs]

theorem mapM_opt_getElem? {α β : Type} {f : α → Option β} {xs : List α} {ys : List β}
    (h : xs.mapM f = some ys) {i : Nat} {x : α} (hx : xs[i]? = some x) :
    ∃ y, ys[i]? = some y ∧ f x = some y := by
  induction xs generalizing ys i with
  | nil => simp at hx
  | cons x' xs ih =>
    rw [mapM_opt_cons] at h
    obtain ⟨b, hb, h⟩ := Option.bind_eq_some_iff.mp h
    obtain ⟨bs, hbs, rfl⟩ := Option.map_eq_some_iff.mp h
    cases i with
    | zero =>
      simp only [List.getElem?_cons_zero, Option.some.injEq] at hx
      subst hx
      exact ⟨b, rfl, hb⟩
    | succ i =>
      simp only [List.getElem?_cons_succ] at hx ⊢
      exact ih hbs hx

/-- a comprehension whose body succeeds on every element succeeds, with the mapped list -/
theorem mapM_opt_of_forall {α β : Type} {f : α → Option β} {g : α → β} {xs : List α}
    (h : ∀ x ∈ xs, f x = some (g x)) : xs.mapM f = some (xs.map g) := by
  induction xs with
  | nil => rfl
  | cons x xs ih =>
    rw [mapM_opt_cons, h x List.mem_cons_self, Option.bind_some,
      ih fun y hy => h y (List.mem_cons_of_mem _ hy)]
    rfl

/-- the result of a successful comprehension is related elementwise to its input -/
theorem mapM_opt_forall₂ {α β : Type} {f : α → Option β} {xs : List α} {ys : List β}
    (h : xs.mapM f = some ys) : List.Forall₂ (fun x y => f x = some y) xs ys := by
  induction xs generalizing ys with
  | nil => rw [mapM_opt_nil] at h; cases h; exact .nil
  | cons x xs ih =>
    rw [mapM_opt_cons] at h
    obtain ⟨b, hb, h⟩ := Option.bind_eq_some_iff.mp h
    obtain ⟨bs, hbs, rfl⟩ := Option.map_eq_some_iff.mp h
    exact .cons hb (ih hbs)

/-- a list whose every element is an `f`-image (with a property depending on the position) is the
`f`-image of a list of such pre-images -/
theorem exists_preimage_list {α β : Type} (f : α → β) (ys : List β) (p : Nat → α → Prop)
    (h : ∀ i, i < ys.length → ∃ x, p i x ∧ ys[i]? = some (f x)) :
    ∃ xs : List α, ys = xs.map f ∧ ∀ i, i < ys.length → ∃ x, p i x ∧ xs[i]? = some x := by
  induction ys generalizing p with
  | nil => exact ⟨[], rfl, fun i hi => absurd hi (Nat.not_lt_zero i)⟩
  | cons y ys ih =>
    obtain ⟨x0, hp0, hx0⟩ := h 0 (Nat.succ_pos _)
    simp only [List.getElem?_cons_zero, Option.some.injEq] at hx0
    obtain ⟨xs, hxs, hall⟩ := ih (fun i x => p (i + 1) x) (fun i hi => by
      obtain ⟨x, hp, hx⟩ := h (i + 1) (Nat.succ_lt_succ hi)
      exact ⟨x, hp, by simpa using hx⟩)
    refine ⟨x0 :: xs, by rw [List.map_cons, ← hx0, ← hxs], fun i hi => ?_⟩
    cases i with
    | zero => exact ⟨x0, hp0, rfl⟩
    | succ i =>
      obtain ⟨x, hp, hx⟩ := hall i (Nat.lt_of_succ_lt_succ hi)
      exact ⟨x, hp, by simpa using hx⟩

/-! ### `ckd`, `derive_path`, `generate_children` -/

theorem ckdPrv_testnet {P : Prims Pt} {nd c : Node} {i : Nat} (h : ckdPrv P nd i = some c) :
    c.testnet = nd.testnet := by
  unfold ckdPrv at h
  simp only [Option.bind_eq_some_iff] at h
  obtain ⟨k, _, idx, _, h⟩ := h
  split_ifs at h
  all_goals
    rw [Option.map_eq_some_iff] at h
    obtain ⟨kb, _, rfl⟩ := h
    rfl

theorem ckdPub_testnet {P : Prims Pt} {nd c : Node} {i : Nat} (h : ckdPub P nd i = some c) :
    c.testnet = nd.testnet := by
  unfold ckdPub at h
  split_ifs at h
  simp only [Option.bind_eq_some_iff] at h
  obtain ⟨idx, _, h⟩ := h
  split_ifs at h
  simp only [Option.bind_eq_some_iff] at h
  obtain ⟨il, _, K, _, h⟩ := h
  split_ifs at h
  cases h
  rfl

/-- a child is on the network of its parent -/
theorem ckd_testnet {P : Prims Pt} {nd c : Node} {i : Nat} (h : ckd P nd i = some c) :
    c.testnet = nd.testnet := by
  unfold ckd at h
  split at h
  · exact ckdPrv_testnet h
  · exact ckdPub_testnet h

theorem derivePath_testnet {P : Prims Pt} {nd c : Node} {is : List Nat}
    (h : derivePath P nd is = some c) : c.testnet = nd.testnet := by
  induction is generalizing nd with
  | nil => cases h; rfl
  | cons i is ih =>
    rw [derivePath_cons] at h
    obtain ⟨c', hc', h⟩ := Option.bind_eq_some_iff.mp h
    rw [ih h, ckd_testnet hc']

/-- a public node has no hardened children -/
theorem ckd_pub_hardened (P : Prims Pt) {nd : Node} {i : Nat} (hp : nd.isPrv = false)
    (hi : 2 ^ 31 ≤ i) : ckd P nd i = none := by
  unfold ckd
  rw [hp]
  simp only [Bool.false_eq_true, if_false]
  unfold ckdPub
  rw [if_pos (by rw [hardened_eq]; exact hi)]

/-- `derive_path` of a single index is `ckd` -/
theorem derivePath_singleton (P : Prims Pt) (nd : Node) (i : Nat) :
    derivePath P nd [i] = ckd P nd i := by
  rw [derivePath_cons]
  cases ckd P nd i <;> rfl

/-- a successful derivation that starts with a hardened index started from a private node -/
theorem isPrv_of_derive_hardened {P : Prims Pt} {nd c : Node} {i : Nat} {is : List Nat}
    (h : derivePath P nd (i :: is) = some c) (hi : 2 ^ 31 ≤ i) : nd.isPrv = true := by
  cases hp : nd.isPrv with
  | true => rfl
  | false =>
    rw [derivePath_cons, ckd_pub_hardened P hp hi] at h
    cases h

/-- `generate_children(interval=(a, b))`: one child per index of `range(a, b)`, in order -/
theorem generateChildren_spec {P : Prims Pt} {nd : Node} {a b : Nat} {cs : List Node}
    (h : generateChildren P nd a b = some cs) :
    cs.length = b - a ∧ ∀ i, i < b - a → ∃ c, cs[i]? = some c ∧ ckd P nd (a + i) = some c := by
  unfold generateChildren at h
  refine ⟨by rw [mapM_opt_length h, List.length_range'], fun i hi => ?_⟩
  have hx : (List.range' a (b - a))[i]? = some (a + i) := by
    rw [List.getElem?_range' hi]; simp
  exact mapM_opt_getElem? h hx

/-- the node a printed path is derived from a root object prints as that path -/
theorem nodeRepr_of_derive {P : Prims Pt} {nd c : Node} {is : List Nat}
    (h : derivePath P nd is = some c) (hroot : nd.path = []) :
    nodeRepr c = Path.format ⟨is, nd.isPrv⟩ := by
  obtain ⟨h1, h2⟩ := derivePath_fields h
  unfold nodeRepr Path.format
  rw [h1, h2, hroot, List.nil_append, prvMark_eq, pubMark_eq]

/-! ### structured views of the report -/

/-- one printed row: path, address, SEC hex, WIF (`None` on a watch-only wallet) -/
structure Row where
  path : List Char
  addr : List Char
  sec : List Char
  wif : Option (List Char)

/-- the row as `group` emits it: `[path, address, sec, wif]` -/
def Row.toJson (r : Row) : Json := .arr [.str r.path, .str r.addr, .str r.sec, optStr r.wif]

/-- the row without its last column: `[path, address, sec]` -/
def Row.toPublicJson (r : Row) : Json := .arr [.str r.path, .str r.addr, .str r.sec]

/-- one account block of the report: the account node's path and extended keys, and its rows -/
structure Acct where
  path : List Char
  pub : List Char
  prv : Option (List Char)
  rows : List Row

/-- the `account_extended_keys` dictionary -/
def Acct.keysJson (v : Acct) : Json :=
  .obj [("path".toList, .str v.path), ("pub".toList, .str v.pub), ("prv".toList, optStr v.prv)]

/-- the pair `(acct_ext_keys, groups)` returned by `bip44` / `bip49` / `bip84` -/
def Acct.toPair (v : Acct) : Json × List Json := (v.keysJson, v.rows.map Row.toJson)

/-- the account block as `paranoia_mode` rebuilds it: `path` and `pub` only, rows without WIF -/
def Acct.toPublicJson (v : Acct) : Json :=
  .obj [("account_extended_keys".toList, .obj [("path".toList, .str v.path), ("pub".toList, .str v.pub)]),
        ("groups".toList, .arr (v.rows.map Row.toPublicJson))]

/-- the coin-type level of the wallet's network: `0'` on mainnet, `1'` on testnet -/
def coinLevel (w : Wallet) : Nat := (if w.testnet then 1 else 0) + 2 ^ 31

/-- the account path `purpose' / coin' / account'` as an index list -/
def acctLevels (w : Wallet) (purpose acct : Nat) : List Nat :=
  [purpose + 2 ^ 31, coinLevel w, acct + 2 ^ 31]

/-- the WIF column of a row: `None` on a watch-only wallet, else the compressed WIF of the node's
private key on the wallet's network -/
def rowWif (P : Prims Pt) (w : Wallet) (nd : Node) : Option (Option (List Char)) :=
  if w.watchOnly then some none else (prvKey P nd).map fun k => some (Keys.wif P k true w.testnet)

/-- the `prv` entry of `node_extended_keys` -/
def keysPrv (P : Prims Pt) (w : Wallet) (nd : Node) : Option (Option (List Char)) :=
  if w.watchOnly then some none else (nodeExtendedPrivateKey P w nd).map some

theorem groupRow_eq (P : Prims Pt) (w : Wallet) (addr : Node → Option (List Char)) (nd : Node) :
    groupRow P w addr nd = (addr nd).bind fun a => (pubKey P nd).bind fun K =>
      (rowWif P w nd).map fun wv => Row.toJson ⟨nodeRepr nd, a, toHex (P.curve.sec true K), wv⟩ :=
  rfl

theorem groupRow_eq_some {P : Prims Pt} {w : Wallet} {addr : Node → Option (List Char)} {nd : Node}
    {j : Json} (h : groupRow P w addr nd = some j) :
    ∃ a K wv, addr nd = some a ∧ pubKey P nd = some K ∧ rowWif P w nd = some wv ∧
      j = Row.toJson ⟨nodeRepr nd, a, toHex (P.curve.sec true K), wv⟩ := by
  rw [groupRow_eq] at h
  obtain ⟨a, ha, h⟩ := Option.bind_eq_some_iff.mp h
  obtain ⟨K, hK, h⟩ := Option.bind_eq_some_iff.mp h
  obtain ⟨wv, hwv, rfl⟩ := Option.map_eq_some_iff.mp h
  exact ⟨a, K, wv, ha, hK, hwv, rfl⟩

theorem nodeExtendedKeys_eq (P : Prims Pt) (w : Wallet) (nd : Node) :
    nodeExtendedKeys P w nd = (keysPrv P w nd).bind fun prv =>
      (nodeExtendedPublicKey P w nd).map fun pub => Acct.keysJson ⟨nodeRepr nd, pub, prv, []⟩ :=
  rfl

theorem nodeExtendedKeys_eq_some {P : Prims Pt} {w : Wallet} {nd : Node} {j : Json}
    (h : nodeExtendedKeys P w nd = some j) :
    ∃ pub prv, nodeExtendedPublicKey P w nd = some pub ∧ keysPrv P w nd = some prv ∧
      j = .obj [("path".toList, .str (nodeRepr nd)), ("pub".toList, .str pub),
                ("prv".toList, optStr prv)] := by
  rw [nodeExtendedKeys_eq] at h
  obtain ⟨prv, hprv, h⟩ := Option.bind_eq_some_iff.mp h
  obtain ⟨pub, hpub, rfl⟩ := Option.map_eq_some_iff.mp h
  exact ⟨pub, prv, hpub, hprv, rfl⟩

theorem coin_eq (w : Wallet) :
    (if w.testnet then 1 + hardened else hardened) = coinLevel w := by
  unfold coinLevel
  rw [hardened_eq]
  cases w.testnet <;> simp

/-- `bipAccount` without its `let`, over the index list `acctLevels` -/
theorem bipAccount_def (P : Prims Pt) (w : Wallet) (purpose : Nat)
    (addr : Node → Option (List Char)) (acct a b : Nat) :
    bipAccount P w purpose addr acct a b =
      (derivePath P w.master (acctLevels w purpose acct)).bind fun acctNd =>
      (nodeExtendedKeys P w acctNd).bind fun keys =>
      (ckd P acctNd 0).bind fun ext =>
      (generateChildren P ext a b).bind fun children =>
      (group P w addr children).map fun rows => (keys, rows) := by
  have hp : [purpose + hardened, (if w.testnet then 1 + hardened else hardened), acct + hardened]
      = acctLevels w purpose acct := by
    unfold acctLevels
    rw [coin_eq, hardened_eq]
  unfold bipAccount
  simp only [hp, derivePath_singleton]

/-- `bipAccount` step by step -/
theorem bipAccount_eq_some {P : Prims Pt} {w : Wallet} {purpose : Nat}
    {addr : Node → Option (List Char)} {acct a b : Nat} {keys : Json} {rows : List Json}
    (h : bipAccount P w purpose addr acct a b = some (keys, rows)) :
    ∃ acctNd ext children,
      derivePath P w.master (acctLevels w purpose acct) = some acctNd ∧
      nodeExtendedKeys P w acctNd = some keys ∧
      ckd P acctNd 0 = some ext ∧
      generateChildren P ext a b = some children ∧
      group P w addr children = some rows := by
  rw [bipAccount_def] at h
  obtain ⟨acctNd, h1, h⟩ := Option.bind_eq_some_iff.mp h
  obtain ⟨keys', h2, h⟩ := Option.bind_eq_some_iff.mp h
  obtain ⟨ext, h3, h⟩ := Option.bind_eq_some_iff.mp h
  obtain ⟨children, h4, h⟩ := Option.bind_eq_some_iff.mp h
  obtain ⟨rows', h5, h⟩ := Option.map_eq_some_iff.mp h
  simp only [Prod.mk.injEq] at h
  obtain ⟨rfl, rfl⟩ := h
  exact ⟨acctNd, ext, children, h1, h2, h3, h4, h5⟩

/-- every account block comes from a private master: its path starts with a hardened level -/
theorem isPrv_of_bipAccount {P : Prims Pt} {w : Wallet} {purpose : Nat}
    {addr : Node → Option (List Char)} {acct a b : Nat} {r : Json × List Json}
    (h : bipAccount P w purpose addr acct a b = some r) : w.master.isPrv = true := by
  obtain ⟨keys, rows⟩ := r
  obtain ⟨acctNd, _, _, h1, _⟩ := bipAccount_eq_some h
  exact isPrv_of_derive_hardened h1 (Nat.le_add_left _ _)

/-- the five-level path of row `i` -/
def rowLevels (w : Wallet) (purpose acct idx : Nat) : List Nat :=
  acctLevels w purpose acct ++ [0, idx]

/-- **what an account block contains**: the account node at `purpose'/coin'/account'` with its
printed path and extended keys, and one row per index of `range(a, b)`, in order, each built
from the node at `purpose'/coin'/account'/0/index` -/
theorem bipAccount_spec {P : Prims Pt} {w : Wallet} {purpose : Nat}
    {addr : Node → Option (List Char)} {acct a b : Nat} {r : Json × List Json}
    (h : bipAccount P w purpose addr acct a b = some r) :
    ∃ acctNd pub prv, ∃ rs : List Row,
      derivePath P w.master (acctLevels w purpose acct) = some acctNd ∧
      nodeExtendedPublicKey P w acctNd = some pub ∧
      keysPrv P w acctNd = some prv ∧
      r = (Acct.mk (nodeRepr acctNd) pub prv rs).toPair ∧
      rs.length = b - a ∧
      ∀ i, i < b - a → ∃ nd ad K wv,
        derivePath P w.master (rowLevels w purpose acct (a + i)) = some nd ∧
        addr nd = some ad ∧ pubKey P nd = some K ∧ rowWif P w nd = some wv ∧
        rs[i]? = some ⟨nodeRepr nd, ad, toHex (P.curve.sec true K), wv⟩ := by
  obtain ⟨keys, rows⟩ := r
  obtain ⟨acctNd, ext, children, h1, h2, h3, h4, h5⟩ := bipAccount_eq_some h
  obtain ⟨pub, prv, hpub, hprv, rfl⟩ := nodeExtendedKeys_eq_some h2
  obtain ⟨hlen, hch⟩ := generateChildren_spec h4
  unfold group at h5
  have hrl := mapM_opt_length h5
  -- the rows, read back as `Row`s
  have hrow : ∀ i, i < b - a → ∃ nd ad K wv,
      derivePath P w.master (rowLevels w purpose acct (a + i)) = some nd ∧
      addr nd = some ad ∧ pubKey P nd = some K ∧ rowWif P w nd = some wv ∧
      rows[i]? = some (Row.toJson ⟨nodeRepr nd, ad, toHex (P.curve.sec true K), wv⟩) := by
    intro i hi
    obtain ⟨c, hc, hck⟩ := hch i hi
    obtain ⟨j, hj, hg⟩ := mapM_opt_getElem? h5 hc
    obtain ⟨ad, K, wv, had, hK, hwv, rfl⟩ := groupRow_eq_some hg
    refine ⟨c, ad, K, wv, ?_, had, hK, hwv, hj⟩
    unfold rowLevels
    rw [derivePath_append, h1, Option.bind_some, derivePath_cons, h3, Option.bind_some,
      derivePath_singleton, hck]
  have hn : rows.length = b - a := by rw [hrl, hlen]
  obtain ⟨rs, hrs, hall⟩ := exists_preimage_list Row.toJson rows
    (fun i r => ∃ nd ad K wv,
      derivePath P w.master (rowLevels w purpose acct (a + i)) = some nd ∧
      addr nd = some ad ∧ pubKey P nd = some K ∧ rowWif P w nd = some wv ∧
      r = ⟨nodeRepr nd, ad, toHex (P.curve.sec true K), wv⟩)
    (fun i hi => by
      obtain ⟨nd, ad, K, wv, h1, h2, h3, h4, h5⟩ := hrow i (hn ▸ hi)
      exact ⟨_, ⟨nd, ad, K, wv, h1, h2, h3, h4, rfl⟩, h5⟩)
  refine ⟨acctNd, pub, prv, rs, h1, hpub, hprv, ?_, ?_, fun i hi => ?_⟩
  · rw [hrs]; rfl
  · rw [← hn, hrs, List.length_map]
  · obtain ⟨r, ⟨nd, ad, K, wv, g1, g2, g3, g4, rfl⟩, hr⟩ := hall i (hn ▸ hi)
    exact ⟨nd, ad, K, wv, g1, g2, g3, g4, hr⟩

/-! ### addresses as functions of the public key -/

/-- P2PKH address of a public key (`purpose 44`) -/
def keyAddr44 (P : Prims Pt) (t : Bool) (K : Pt) : Option (List Char) :=
  some (p2pkhOfH160 P (h160 P K true) t)

/-- P2SH-P2WPKH address of a public key (`purpose 49`) -/
def keyAddr49 (P : Prims Pt) (t : Bool) (K : Pt) : Option (List Char) :=
  (Script.rawSerialize (Script.p2wpkhScript (h160 P K true))).map fun redeem =>
    p2shOfH160 P (hash160 P redeem) t

/-- P2WPKH address of a public key (`purpose 84`) -/
def keyAddr84 (P : Prims Pt) (t : Bool) (K : Pt) : Option (List Char) :=
  segwitOf (h160 P K true) t

theorem p2pkhAddress_eq (P : Prims Pt) (t : Bool) (nd : Node) :
    p2pkhAddress P t nd = (pubKey P nd).bind (keyAddr44 P t) := by
  unfold p2pkhAddress keyAddr44 pubP2pkh
  cases pubKey P nd <;> rfl

theorem p2shP2wpkhAddress_eq (P : Prims Pt) (t : Bool) (nd : Node) :
    p2shP2wpkhAddress P t nd = (pubKey P nd).bind (keyAddr49 P t) := rfl

theorem p2wpkhAddress_eq (P : Prims Pt) (t : Bool) (nd : Node) :
    p2wpkhAddress P t nd = (pubKey P nd).bind (keyAddr84 P t) := rfl

/-- the public key of a private node is `k·G` -/
theorem pubKey_of_prvKey {P : Prims Pt} {nd : Node} {k : Nat} (hp : nd.isPrv = true)
    (hk : prvKey P nd = some k) : pubKey P nd = some (P.curve.mulGen k) := by
  unfold pubKey
  rw [if_pos hp, hk]
  rfl

theorem watchOnly_eq_false {w : Wallet} (h : w.master.isPrv = true) : w.watchOnly = false := by
  unfold Wallet.watchOnly
  rw [h]
  rfl

/-! ### `generate` and `wasabi` -/

theorem generate_eq_some {P : Prims Pt} {w : Wallet} {acct a b : Nat} {j : Json} :
    generate P w acct a b = some j ↔
      ∃ r44 r49 r84 b85,
        bipAccount P w 44 (p2pkhAddress P w.testnet) acct a b = some r44 ∧
        bipAccount P w 49 (p2shP2wpkhAddress P w.testnet) acct a b = some r49 ∧
        bipAccount P w 84 (p2wpkhAddress P w.testnet) acct a b = some r84 ∧
        bip85Data P w = some b85 ∧
        j = .obj [("MASTER".toList, masterData w), ("BIP85".toList, b85),
                  ("BIP44".toList, acctJson r44), ("BIP49".toList, acctJson r49),
                  ("BIP84".toList, acctJson r84)] := by
  unfold generate
  constructor
  · intro h
    obtain ⟨r44, h1, h⟩ := Option.bind_eq_some_iff.mp h
    obtain ⟨r49, h2, h⟩ := Option.bind_eq_some_iff.mp h
    obtain ⟨r84, h3, h⟩ := Option.bind_eq_some_iff.mp h
    obtain ⟨b85, h4, h⟩ := Option.map_eq_some_iff.mp h
    exact ⟨r44, r49, r84, b85, h1, h2, h3, h4, h.symm⟩
  · rintro ⟨r44, r49, r84, b85, h1, h2, h3, h4, rfl⟩
    rw [h1, h2, h3, h4]
    rfl

theorem parse_wasabi_path :
    Path.parse "m/84'/0'/0'".toList = some ⟨[84 + 2 ^ 31, 2 ^ 31, 2 ^ 31], true⟩ := by
  decide +kernel

theorem byPath_wasabi (P : Prims Pt) (w : Wallet) :
    byPath P w "m/84'/0'/0'".toList = derivePath P w.master [84 + 2 ^ 31, 2 ^ 31, 2 ^ 31] := by
  unfold byPath
  rw [parse_wasabi_path]
  rfl

/-! ### what the constructors build -/

theorem masterKey_fields {P : Prims Pt} {seed : Bytes} {t : Bool} {nd : Node}
    (h : masterKey P seed t = some nd) :
    nd.isPrv = true ∧ nd.testnet = t ∧ nd.path = [] := by
  unfold masterKey at h
  simp only at h
  split at h
  · cases h
  · split at h
    · cases h
    · simp only [Option.some.injEq] at h
      subst h
      exact ⟨rfl, rfl, rfl⟩

theorem fromSeedBytes_fields {P : Prims Pt} {seed : Bytes} {t : Bool} {w : Wallet}
    (h : fromSeedBytes P seed t = some w) :
    w.testnet = t ∧ w.master.testnet = t ∧ w.master.isPrv = true ∧ w.master.path = [] ∧
      w.mnemonic = none ∧ w.password = none := by
  unfold fromSeedBytes at h
  obtain ⟨m, hm, rfl⟩ := Option.map_eq_some_iff.mp h
  obtain ⟨h1, h2, h3⟩ := masterKey_fields hm
  exact ⟨rfl, h2, h1, h3, rfl, rfl⟩

theorem fromSeedHex_fields {P : Prims Pt} {s : List Char} {t : Bool} {w : Wallet}
    (h : fromSeedHex P s t = some w) :
    w.testnet = t ∧ w.master.testnet = t ∧ w.master.isPrv = true ∧ w.master.path = [] ∧
      w.mnemonic = none ∧ w.password = none := by
  unfold fromSeedHex at h
  obtain ⟨seed, _, h⟩ := Option.bind_eq_some_iff.mp h
  exact fromSeedBytes_fields h

theorem fromMnemonic_fields {P : Prims Pt} {m p : List Char} {t : Bool} {w : Wallet}
    (h : fromMnemonic P m p t = some w) :
    w.testnet = t ∧ w.master.testnet = t ∧ w.master.isPrv = true ∧ w.master.path = [] ∧
      w.mnemonic = some m ∧ w.password = some p := by
  unfold fromMnemonic at h
  obtain ⟨w0, hw0, rfl⟩ := Option.map_eq_some_iff.mp h
  obtain ⟨h1, h2, h3, h4, _, _⟩ := fromSeedBytes_fields hw0
  exact ⟨h1, h2, h3, h4, rfl, rfl⟩

theorem fromEntropyHex_fields {P : Prims Pt} {e p : List Char} {t : Bool} {w : Wallet}
    (h : fromEntropyHex P e p t = some w) :
    ∃ m, Bip39.mnemonicFromEntropy P.sha256 e = some m ∧
      w.testnet = t ∧ w.master.testnet = t ∧ w.master.isPrv = true ∧ w.master.path = [] ∧
      w.mnemonic = some m ∧ w.password = some p := by
  unfold fromEntropyHex at h
  obtain ⟨m, hm, h⟩ := Option.bind_eq_some_iff.mp h
  exact ⟨m, hm, fromMnemonic_fields h⟩

theorem newWallet_fields {P : Prims Pt} {rnd : Nat → Bytes} {n : Nat} {p : List Char} {t : Bool}
    {w : Wallet} (h : newWallet P rnd n p t = some w) :
    ∃ bits m, (n, bits) ∈ Generated.lenToBits ∧
      Bip39.mnemonicFromEntropyBits P.sha256 rnd bits = some m ∧
      w.testnet = t ∧ w.master.testnet = t ∧ w.master.isPrv = true ∧ w.master.path = [] ∧
      w.mnemonic = some m ∧ w.password = some p := by
  unfold newWallet at h
  obtain ⟨bits, hb, h2⟩ := Option.bind_eq_some_iff.mp h
  obtain ⟨m, hm, h3⟩ := Option.bind_eq_some_iff.mp h2
  obtain ⟨e, he, hbits⟩ := Option.map_eq_some_iff.mp hb
  have hmem := List.mem_of_find?_eq_some he
  have hn := List.find?_some he
  simp only [decide_eq_true_eq] at hn
  refine ⟨bits, m, ?_, hm, fromMnemonic_fields h3⟩
  rw [← hn, ← hbits]
  exact hmem

theorem parseBytes_fields (isPrv t : Bool) (s : Bytes) :
    (parseBytes isPrv t s).isPrv = isPrv ∧ (parseBytes isPrv t s).testnet = t ∧
      (parseBytes isPrv t s).path = [] :=
  ⟨rfl, rfl, rfl⟩

/-! ### the specification of one account block -/

/-- BIP flavour index of a purpose: 44 ↦ 0, 49 ↦ 1, 84 ↦ 2 (anything else ↦ 0, like `Bip32Path.bip`) -/
def bipIdx (purpose : Nat) : Nat :=
  if purpose = 44 then 0 else if purpose = 49 then 1 else if purpose = 84 then 2 else 0

/-- What an account block of the report must contain, for a wallet with a private root master:
* the account node at `m/purpose'/coin'/account'`, its printed path, and its extended public and
  private keys as the wallet prints them (`node_extended_public_key` / `…_private_key`);
* exactly one row per index of `range(a, b)`, in order; row `i` belongs to the private node at
  `m/purpose'/coin'/account'/0/(a+i)` with scalar `k` and is
  `[printed path, address of k·G, hex of the compressed SEC of k·G, compressed WIF of k on the
  wallet's network]`. -/
def AcctOk (P : Prims Pt) (w : Wallet) (purpose : Nat) (keyAddr : Pt → Option (List Char))
    (acct a b : Nat) (v : Acct) : Prop :=
  (∃ acctNd xprv, derivePath P w.master (acctLevels w purpose acct) = some acctNd ∧
      v.path = Path.format ⟨acctLevels w purpose acct, true⟩ ∧
      nodeExtendedPublicKey P w acctNd = some v.pub ∧
      nodeExtendedPrivateKey P w acctNd = some xprv ∧ v.prv = some xprv) ∧
  v.rows.length = b - a ∧
  ∀ i, i < b - a → ∃ nd k ad,
    derivePath P w.master (rowLevels w purpose acct (a + i)) = some nd ∧
    prvKey P nd = some k ∧ keyAddr (P.curve.mulGen k) = some ad ∧
    v.rows[i]? = some ⟨Path.format ⟨rowLevels w purpose acct (a + i), true⟩, ad,
      toHex (P.curve.sec true (P.curve.mulGen k)), some (Keys.wif P k true w.testnet)⟩

theorem bipAccount_ok {P : Prims Pt} {w : Wallet} {purpose : Nat}
    {addr : Node → Option (List Char)} {keyAddr : Pt → Option (List Char)} {acct a b : Nat}
    {r : Json × List Json} (hroot : w.master.path = [])
    (haddr : ∀ nd, addr nd = (pubKey P nd).bind keyAddr)
    (h : bipAccount P w purpose addr acct a b = some r) :
    ∃ v : Acct, r = v.toPair ∧ AcctOk P w purpose keyAddr acct a b v := by
  have hprv := isPrv_of_bipAccount h
  have hwo := watchOnly_eq_false hprv
  obtain ⟨acctNd, pub, prv, rs, h1, hpub, hkp, rfl, hlen, hrows⟩ := bipAccount_spec h
  refine ⟨_, rfl, ⟨acctNd, ?_⟩, hlen, fun i hi => ?_⟩
  · unfold keysPrv at hkp
    rw [hwo] at hkp
    simp only [Bool.false_eq_true, if_false] at hkp
    obtain ⟨xprv, hx, rfl⟩ := Option.map_eq_some_iff.mp hkp
    refine ⟨xprv, h1, ?_, hpub, hx, rfl⟩
    show nodeRepr acctNd = _
    rw [nodeRepr_of_derive h1 hroot, hprv]
  · obtain ⟨nd, ad, K, wv, g1, g2, g3, g4, g5⟩ := hrows i hi
    have hndp : nd.isPrv = true := (derivePath_fields g1).1.trans hprv
    unfold rowWif at g4
    rw [hwo] at g4
    simp only [Bool.false_eq_true, if_false] at g4
    obtain ⟨k, hk, rfl⟩ := Option.map_eq_some_iff.mp g4
    rw [pubKey_of_prvKey hndp hk] at g3
    cases g3
    rw [haddr, pubKey_of_prvKey hndp hk, Option.bind_some] at g2
    refine ⟨nd, k, ad, g1, hk, g2, ?_⟩
    rw [g5, nodeRepr_of_derive g1 hroot, hprv]

end BtcHd.Wallet
