/-
Positional-notation lemmas shared by Base58 (C10), big-endian byte strings
(C07/C09) and digit counting (C15): bridges from the model's loops to Mathlib's
`Nat.digits` / `Nat.ofDigits`.
-/
import Mathlib.Data.Nat.Digits.Defs
import Mathlib.Data.Nat.Digits.Lemmas
import BtcHd.Model.Basic

namespace BtcHd.Digits
open BtcHd

/-- Horner evaluation, most significant digit first (the shape of every
accumulation loop in the repository). -/
def horner (b : Nat) (ds : List Nat) (acc : Nat) : Nat := ds.foldl (fun a d => a * b + d) acc

theorem horner_nil (b acc : Nat) : horner b [] acc = acc := rfl

theorem horner_cons (b d : Nat) (ds : List Nat) (acc : Nat) :
    horner b (d :: ds) acc = horner b ds (acc * b + d) := rfl

theorem horner_append (b : Nat) (xs ys : List Nat) (acc : Nat) :
    horner b (xs ++ ys) acc = horner b ys (horner b xs acc) := by
  simp [horner, List.foldl_append]

theorem horner_eq (b : Nat) (ds : List Nat) (acc : Nat) :
    horner b ds acc = acc * b ^ ds.length + Nat.ofDigits b ds.reverse := by
  induction ds generalizing acc with
  | nil => simp [horner]
  | cons d ds ih =>
    rw [horner_cons, ih, List.reverse_cons, Nat.ofDigits_append, Nat.ofDigits_singleton,
      List.length_reverse, List.length_cons]
    ring

theorem horner_zero (b : Nat) (ds : List Nat) : horner b ds 0 = Nat.ofDigits b ds.reverse := by
  rw [horner_eq]; simp

/-- big-endian digits of `n` -/
def digitsBE (b n : Nat) : List Nat := (Nat.digits b n).reverse

theorem horner_digitsBE (b n : Nat) : horner b (digitsBE b n) 0 = n := by
  rw [horner_zero, digitsBE, List.reverse_reverse, Nat.ofDigits_digits]

theorem digitsBE_lt {b n d : Nat} (hb : 1 < b) (h : d ∈ digitsBE b n) : d < b := by
  rw [digitsBE, List.mem_reverse] at h
  exact Nat.digits_lt_base hb h

theorem digitsBE_zero (b : Nat) : digitsBE b 0 = [] := by simp [digitsBE]

theorem digitsBE_step {b n : Nat} (hb : 1 < b) (hn : 0 < n) :
    digitsBE b n = digitsBE b (n / b) ++ [n % b] := by
  rw [digitsBE, Nat.digits_def' hb hn, List.reverse_cons, digitsBE]

theorem digitsBE_head_ne_zero {b n : Nat} : (digitsBE b n).head? ≠ some 0 := by
  intro h
  rw [digitsBE, List.head?_reverse] at h
  have hne : Nat.digits b n ≠ [] := by
    intro e; rw [e] at h; simp at h
  have := Nat.getLast_digit_ne_zero b (m := n) (by
    intro e; apply hne; simp [e])
  rw [List.getLast?_eq_some_getLast hne] at h
  simp at h
  exact this h

theorem digitsBE_horner {b : Nat} (hb : 1 < b) (ds : List Nat) (hlt : ∀ d ∈ ds, d < b)
    (hhead : ds.head? ≠ some 0) : digitsBE b (horner b ds 0) = ds := by
  rw [horner_zero, digitsBE, Nat.digits_ofDigits b hb]
  · simp
  · intro l hl; exact hlt l (List.mem_reverse.mp hl)
  · intro hne
    have : ds ≠ [] := by
      intro e; apply hne; simp [e]
    rw [List.getLast_reverse]
    intro h0
    apply hhead
    rw [List.head?_eq_some_head this, h0]

theorem digitsBE_eq_nil_iff {b n : Nat} : digitsBE b n = [] ↔ n = 0 := by
  simp [digitsBE, Nat.digits_eq_nil_iff_eq_zero]

theorem digitsBE_length_le_iff {b n k : Nat} (hb : 1 < b) :
    (digitsBE b n).length ≤ k ↔ n < b ^ k := by
  rw [digitsBE, List.length_reverse]
  exact Nat.digits_length_le_iff hb n

theorem lt_digitsBE_length_iff {b n k : Nat} (hb : 1 < b) :
    k < (digitsBE b n).length ↔ b ^ k ≤ n := by
  rw [digitsBE, List.length_reverse]
  exact Nat.lt_digits_length_iff hb n

end BtcHd.Digits
