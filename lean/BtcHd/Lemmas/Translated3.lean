/-
Helper lemmas for the second half of `Props/TrBech32.lean` (translated `bech32_decode`): Python's
`bech.lower() != bech and bech.upper() != bech` is the model's "an upper-case and a lower-case letter both occur",
`str.rfind` against the model's `rfindOne`.
-/
import BtcHd.Lemmas.Translated
import BtcHd.Lemmas.Bech32

namespace BtcHd.Translated
open BtcHd BtcHd.Bech32

theorem map_eq_self_iff {α : Type} (f : α → α) (s : List α) : s.map f = s ↔ ∀ c ∈ s, f c = c := by
  induction s with
  | nil => simp
  | cons a l ih => simp [ih]

theorem lowerAscii_eq (c : Char) : Py.lowerAscii c = toLowerAscii c := by
  unfold Py.lowerAscii toLowerAscii isUpperAscii
  simp only [Bool.and_eq_true, decide_eq_true_eq]

theorem lowerAscii_ne_iff (c : Char) : Py.lowerAscii c ≠ c ↔ isUpperAscii c = true := by
  rw [lowerAscii_eq]
  constructor
  · intro h
    by_contra hn
    exact h (toLowerAscii_of_not_upper (by simpa using hn))
  · intro h he
    have := toLowerAscii_toNat_of_upper h
    rw [he] at this; omega

theorem upperAscii_ne_iff (c : Char) : Py.upperAscii c ≠ c ↔ isLowerAscii c = true := by
  have key : ('a' ≤ c ∧ c ≤ 'z') ↔ isLowerAscii c = true := by
    simp [isLowerAscii]
  unfold Py.upperAscii
  constructor
  · intro h
    by_contra hn
    rw [if_neg (by rwa [key])] at h
    exact h rfl
  · intro h he
    rw [if_pos (key.mpr h)] at he
    have h2 := (Bech32.isLowerAscii_iff c).mp h
    have hv : (c.toNat - 32).isValidChar := by left; omega
    have : (Char.ofNat (c.toNat - 32)).toNat = c.toNat - 32 := by
      rw [Char.ofNat, dif_pos hv]; rfl
    rw [he] at this; omega

theorem mixed_case_iff (s : List Char) :
    (s.map Py.lowerAscii ≠ s ∧ s.map Py.upperAscii ≠ s) ↔
      (s.any isUpperAscii && s.any isLowerAscii) = true := by
  rw [Ne, Ne, map_eq_self_iff, map_eq_self_iff]
  simp only [not_forall, Bool.and_eq_true, List.any_eq_true]
  constructor
  · rintro ⟨⟨c, hc, h1⟩, ⟨d, hd, h2⟩⟩
    exact ⟨⟨c, hc, (lowerAscii_ne_iff c).mp h1⟩, ⟨d, hd, (upperAscii_ne_iff d).mp h2⟩⟩
  · rintro ⟨⟨c, hc, h1⟩, ⟨d, hd, h2⟩⟩
    exact ⟨⟨c, hc, (lowerAscii_ne_iff c).mpr h1⟩, ⟨d, hd, (upperAscii_ne_iff d).mpr h2⟩⟩

theorem rfind_eq (s : List Char) :
    Py.rfind s (Char.ofNat 49) = match rfindOne s with | some p => (p : Int) | none => -1 := by
  unfold Py.rfind rfindOne
  have : Char.ofNat 49 = '1' := rfl
  rw [this]
  by_cases h : '1' ∈ s.reverse <;> simp [h]


end BtcHd.Translated
