/-
Helper lemmas for C04: the bit-string route of `mnemonic_from_entropy`
(`bin()`, `zfill`, 11-character chunks, `int(·, 2)`) is big-endian binary
notation; hex round trip; `" ".join` / `split(" ")`.
-/
import BtcHd.Model.Bip39

namespace BtcHd.Bip39
open BtcHd

/-- induction on lists from the right -/
theorem snocInd {α : Type} {P : List α → Prop} (nil : P [])
    (append_singleton : ∀ l a, P l → P (l ++ [a])) : ∀ l, P l := by
  intro l
  rw [← List.reverse_reverse l]
  induction l.reverse with
  | nil => exact nil
  | cons a t ih => rw [List.reverse_cons]; exact append_singleton _ _ ih

/-! ### bits -/

/-- the `w` low-order bits of `n`, most significant first -/
def bitsBE : Nat → Nat → List Bool
  | 0, _ => []
  | w + 1, n => bitsBE w (n / 2) ++ [decide (n % 2 = 1)]

/-- the bits of a byte string, most significant bit of the first byte first -/
def bytesBits (bs : Bytes) : List Bool := bs.flatMap (fun b => bitsBE 8 b.toNat)

/-- `'1'` / `'0'` -/
def bitChar (b : Bool) : Char := if b then '1' else '0'

/-- a bit list as a string of `'0'`/`'1'` -/
def bitChars (bs : List Bool) : List Char := bs.map bitChar

/-- value of a big-endian bit list -/
def bitsVal (bs : List Bool) : Nat := bs.foldl (fun a b => 2 * a + b.toNat) 0

@[simp] theorem bitsBE_length (w n : Nat) : (bitsBE w n).length = w := by
  induction w generalizing n with
  | zero => rfl
  | succ w ih => simp [bitsBE, ih]

theorem bitsBE_zero (w : Nat) : bitsBE w 0 = List.replicate w false := by
  induction w with
  | zero => rfl
  | succ w ih =>
    rw [bitsBE, Nat.zero_div, ih, List.replicate_succ']
    rfl

/-- concatenating a high part and a `b`-bit low part -/
theorem bitsBE_mul_add (a b x y : Nat) (hy : y < 2 ^ b) :
    bitsBE (a + b) (x * 2 ^ b + y) = bitsBE a x ++ bitsBE b y := by
  induction b generalizing y with
  | zero =>
    have : y = 0 := by simpa using hy
    subst this
    simp [bitsBE]
  | succ b ih =>
    have h2 : 2 ^ (b + 1) = 2 * 2 ^ b := by rw [Nat.pow_succ, Nat.mul_comm]
    have hdiv : (x * 2 ^ (b + 1) + y) / 2 = x * 2 ^ b + y / 2 := by
      rw [h2]; generalize 2 ^ b = p; rw [show x * (2 * p) = 2 * (x * p) by
        rw [Nat.mul_left_comm]]; omega
    have hmod : (x * 2 ^ (b + 1) + y) % 2 = y % 2 := by
      rw [h2]; generalize 2 ^ b = p; rw [show x * (2 * p) = 2 * (x * p) by
        rw [Nat.mul_left_comm]]; omega
    rw [show a + (b + 1) = (a + b) + 1 from rfl, bitsBE, hdiv, hmod, ih (y / 2) (by omega), bitsBE,
      List.append_assoc]

theorem bitsBE_split (a b n : Nat) :
    bitsBE (a + b) n = bitsBE a (n / 2 ^ b) ++ bitsBE b (n % 2 ^ b) := by
  have h := bitsBE_mul_add a b (n / 2 ^ b) (n % 2 ^ b) (Nat.mod_lt _ (Nat.two_pow_pos b))
  rwa [Nat.mul_comm, Nat.div_add_mod] at h

theorem bitsBE_take (a b n : Nat) : (bitsBE (a + b) n).take a = bitsBE a (n / 2 ^ b) := by
  rw [bitsBE_split, List.take_left' (bitsBE_length ..)]

theorem bitsVal_append_singleton (bs : List Bool) (b : Bool) :
    bitsVal (bs ++ [b]) = 2 * bitsVal bs + b.toNat := by
  simp [bitsVal, List.foldl_append]

theorem bitsVal_lt (bs : List Bool) : bitsVal bs < 2 ^ bs.length := by
  induction bs using snocInd with
  | nil => simp [bitsVal]
  | append_singleton bs b ih =>
    rw [bitsVal_append_singleton, List.length_append, List.length_singleton, Nat.pow_succ]
    have : b.toNat ≤ 1 := Bool.toNat_le b
    omega

theorem bitsBE_bitsVal (bs : List Bool) : bitsBE bs.length (bitsVal bs) = bs := by
  induction bs using snocInd with
  | nil => rfl
  | append_singleton bs b ih =>
    rw [bitsVal_append_singleton, List.length_append, List.length_singleton, bitsBE]
    have hb : b.toNat ≤ 1 := Bool.toNat_le b
    have h1 : (2 * bitsVal bs + b.toNat) / 2 = bitsVal bs := by omega
    have h2 : decide ((2 * bitsVal bs + b.toNat) % 2 = 1) = b := by
      cases b <;> simp [Nat.add_mod]
    rw [h1, h2, ih]

theorem bitsVal_bitsBE (w n : Nat) : bitsVal (bitsBE w n) = n % 2 ^ w := by
  induction w generalizing n with
  | zero => simp [bitsBE, bitsVal, Nat.mod_one]
  | succ w ih =>
    rw [bitsBE, bitsVal_append_singleton, ih, Nat.pow_succ]
    have : (decide (n % 2 = 1)).toNat = n % 2 := by
      rcases Nat.mod_two_eq_zero_or_one n with h | h <;> simp [h]
    rw [this, Nat.mul_comm (2 ^ w) 2, Nat.mod_mul]
    omega

/-- two numbers below `2 ^ w` with the same `w` low bits are equal -/
theorem bitsBE_inj {w m n : Nat} (hm : m < 2 ^ w) (hn : n < 2 ^ w)
    (h : bitsBE w m = bitsBE w n) : m = n := by
  have := congrArg bitsVal h
  rwa [bitsVal_bitsBE, bitsVal_bitsBE, Nat.mod_eq_of_lt hm, Nat.mod_eq_of_lt hn] at this

/-! ### byte strings as bit strings -/

theorem beToNat_append_singleton (bs : Bytes) (b : UInt8) :
    beToNat (bs ++ [b]) = beToNat bs * 256 + b.toNat := by
  simp [beToNat, List.foldl_append]

theorem beToNat_lt (bs : Bytes) : beToNat bs < 2 ^ (8 * bs.length) := by
  induction bs using snocInd with
  | nil => simp [beToNat]
  | append_singleton bs b ih =>
    rw [beToNat_append_singleton, List.length_append, List.length_singleton,
      show 8 * (bs.length + 1) = 8 * bs.length + 8 by omega, Nat.pow_add]
    have : b.toNat < 256 := UInt8.toNat_lt b
    omega

@[simp] theorem bytesBits_length (bs : Bytes) : (bytesBits bs).length = 8 * bs.length := by
  induction bs with
  | nil => rfl
  | cons b bs ih => simp [bytesBits, List.flatMap_cons] at ih ⊢; omega

theorem bytesBits_append (xs ys : Bytes) : bytesBits (xs ++ ys) = bytesBits xs ++ bytesBits ys := by
  simp [bytesBits]

/-- `int.from_bytes(bs, 'big')` written with `8 * len(bs)` bits is the bit string of `bs` -/
theorem bitsBE_beToNat (bs : Bytes) : bitsBE (8 * bs.length) (beToNat bs) = bytesBits bs := by
  induction bs using snocInd with
  | nil => rfl
  | append_singleton bs b ih =>
    rw [beToNat_append_singleton, List.length_append, List.length_singleton,
      show 8 * (bs.length + 1) = 8 * bs.length + 8 by omega,
      bitsBE_mul_add _ 8 _ _ (UInt8.toNat_lt b), ih, bytesBits_append]
    simp [bytesBits]

theorem bitsBE_eight_inj {a b : UInt8} (h : bitsBE 8 a.toNat = bitsBE 8 b.toNat) : a = b :=
  UInt8.toNat_inj.mp (bitsBE_inj (UInt8.toNat_lt a) (UInt8.toNat_lt b) h)

/-- the bit string determines the byte string -/
theorem bytesBits_inj {xs ys : Bytes} (h : bytesBits xs = bytesBits ys) : xs = ys := by
  induction xs generalizing ys with
  | nil =>
    cases ys with
    | nil => rfl
    | cons y ys => have := congrArg List.length h; simp at this
  | cons x xs ih =>
    cases ys with
    | nil => have := congrArg List.length h; simp at this
    | cons y ys =>
      have h' : bitsBE 8 x.toNat ++ bytesBits xs = bitsBE 8 y.toNat ++ bytesBits ys := by
        simpa [bytesBits] using h
      obtain ⟨h1, h2⟩ := List.append_inj h' (by simp)
      rw [bitsBE_eight_inj h1, ih h2]

/-! ### `bin()`, `zfill`, `int(·, 2)` -/

@[simp] theorem bitChars_length (bs : List Bool) : (bitChars bs).length = bs.length := by
  simp [bitChars]

theorem bitChars_append (xs ys : List Bool) : bitChars (xs ++ ys) = bitChars xs ++ bitChars ys := by
  simp [bitChars]

theorem bitChars_take (k : Nat) (xs : List Bool) : bitChars (xs.take k) = (bitChars xs).take k := by
  simp [bitChars, List.map_take]

theorem bitChars_drop (k : Nat) (xs : List Bool) : bitChars (xs.drop k) = (bitChars xs).drop k := by
  simp [bitChars, List.map_drop]

theorem bitChars_replicate_false (k : Nat) :
    bitChars (List.replicate k false) = List.replicate k '0' := by
  simp [bitChars, bitChar]

theorem digitChar_bit (n : Nat) : Nat.digitChar (n % 2) = bitChar (decide (n % 2 = 1)) := by
  rcases Nat.mod_two_eq_zero_or_one n with h | h <;> simp [h, bitChar] <;> rfl

theorem zfill_append_singleton (w : Nat) (s : List Char) (c : Char) :
    zfill (w + 1) (s ++ [c]) = zfill w s ++ [c] := by
  simp [zfill]

/-- appending `c` after zero-filling = zero-filling the concatenation to the longer width -/
theorem zfill_append (w : Nat) (s c : List Char) :
    zfill (w + c.length) (s ++ c) = zfill w s ++ c := by
  simp only [zfill, List.length_append, List.append_assoc]
  rw [show w + c.length - (s.length + c.length) = w - s.length by omega]

/-- `bin(n)[2:].zfill(w)` is the `w`-bit big-endian representation of `n` (for `0 < w`:
`bin(0)[2:]` is `"0"`, one character, not the empty string) -/
theorem zfill_binStr (w n : Nat) (hw : 0 < w) (hn : n < 2 ^ w) :
    zfill w (binStr n) = bitChars (bitsBE w n) := by
  induction w generalizing n with
  | zero => omega
  | succ w ih =>
    unfold binStr
    rw [Nat.toDigits_eq_if (by decide)]
    split
    · next h2 =>
      have hdiv : n / 2 = 0 := by omega
      rw [bitsBE, hdiv, bitsBE_zero, bitChars_append, bitChars_replicate_false]
      have : n.digitChar = bitChar (decide (n % 2 = 1)) := by
        rw [← digitChar_bit, Nat.mod_eq_of_lt h2]
      simp [zfill, bitChars, this]
    · next h2 =>
      rw [zfill_append_singleton, bitsBE, bitChars_append]
      have hw' : 0 < w := by
        rcases w with _ | w
        · simp at hn; omega
        · omega
      have := ih (n / 2) hw' (by rw [Nat.pow_succ] at hn; omega)
      unfold binStr at this
      rw [this, digitChar_bit]
      rfl

theorem binVal_bitChars (bs : List Bool) : binVal (bitChars bs) = bitsVal bs := by
  unfold binVal bitsVal bitChars
  rw [Nat.ofDigitChars_eq_foldl, List.foldl_map]
  congr 1
  funext a b
  cases b <;> rfl

/-! ### 11-bit chunks -/

/-- cutting a bit string of `11 * k` characters into `k` chunks and reading each chunk
with `int(·, 2)`: `k` numbers below 2048 whose 11-bit representations concatenate to the
bit string -/
theorem chunks_spec (k : Nat) (bs : List Bool) (hlen : bs.length = 11 * k) :
    ((chunksExact 11 k (bitChars bs)).map binVal).length = k ∧
    (∀ i ∈ (chunksExact 11 k (bitChars bs)).map binVal, i < 2048) ∧
    ((chunksExact 11 k (bitChars bs)).map binVal).flatMap (bitsBE 11) = bs := by
  induction k generalizing bs with
  | zero =>
    have : bs = [] := List.eq_nil_of_length_eq_zero (by omega)
    subst this
    simp [chunksExact]
  | succ k ih =>
    have hle : 11 ≤ (bitChars bs).length ∧ 0 < 11 := by simp; omega
    rw [chunksExact, if_pos hle, ← bitChars_take, ← bitChars_drop]
    have htl : (bs.take 11).length = 11 := by simp; omega
    obtain ⟨h1, h2, h3⟩ := ih (bs.drop 11) (by simp; omega)
    refine ⟨by simp [h1], ?_, ?_⟩
    · intro i hi
      rw [List.map_cons, List.mem_cons] at hi
      rcases hi with rfl | hi
      · rw [binVal_bitChars]
        have := bitsVal_lt (bs.take 11)
        rwa [htl] at this
      · exact h2 i hi
    · rw [List.map_cons, List.flatMap_cons, h3, binVal_bitChars]
      have := bitsBE_bitsVal (bs.take 11)
      rw [htl] at this
      rw [this, List.take_append_drop]

/-! ### hex -/

theorem hexDigit_facts : ∀ n, n < 16 →
    isHexSpace (hexDigit n) = false ∧ hexVal (hexDigit n) = some n := by decide

theorem fromHex_toHex (bs : Bytes) : fromHex (toHex bs) = some bs := by
  induction bs with
  | nil => rfl
  | cons b bs ih =>
    have hb : b.toNat < 256 := UInt8.toNat_lt b
    obtain ⟨s1, v1⟩ := hexDigit_facts (b.toNat / 16) (by omega)
    obtain ⟨s2, v2⟩ := hexDigit_facts (b.toNat % 16) (Nat.mod_lt _ (by decide))
    rw [toHex, fromHex]
    simp only [s1, Bool.false_eq_true, if_false, v1, v2, ih, Option.map_some]
    rw [Nat.div_add_mod']
    simp

/-! ### `mnemonic_from_entropy` up to the indexes -/

theorem mem_correctEntropyBits {n : Nat} :
    n * 8 ∈ Generated.correctEntropyBits ↔ n = 16 ∨ n = 20 ∨ n = 24 ∨ n = 28 ∨ n = 32 := by
  simp only [Generated.correctEntropyBits, List.mem_cons, List.not_mem_nil, or_false]
  omega

/-- the string `entropy_checksum` of `mnemonic_from_entropy` is the entropy bits followed by
the first `ENT / 32` bits of the hash -/
theorem entropyChecksum_eq (sha256 : Bytes → Bytes) (hsha : ∀ x, (sha256 x).length = 32)
    (eb : Bytes) (hbits : eb.length * 8 ∈ Generated.correctEntropyBits) :
    zfill (eb.length * 8 + checksumLength (eb.length * 8))
      (binStr (beToNat eb) ++
        (zfill 256 (binStr (beToNat (sha256 eb)))).take (checksumLength (eb.length * 8)))
    = bitChars (bytesBits eb ++ (bytesBits (sha256 eb)).take (eb.length / 4)) := by
  have hL := mem_correctEntropyBits.mp hbits
  have hcs : checksumLength (eb.length * 8) = eb.length / 4 := by unfold checksumLength; omega
  rw [hcs]
  have hH : zfill 256 (binStr (beToNat (sha256 eb))) = bitChars (bytesBits (sha256 eb)) := by
    have h1 := beToNat_lt (sha256 eb)
    have h2 := bitsBE_beToNat (sha256 eb)
    rw [hsha] at h1 h2
    rw [zfill_binStr 256 _ (by decide) h1, h2]
  rw [hH, ← bitChars_take]
  have hlen : (bitChars ((bytesBits (sha256 eb)).take (eb.length / 4))).length = eb.length / 4 := by
    rw [bitChars_length, List.length_take, bytesBits_length, hsha]; omega
  have := zfill_append (eb.length * 8) (binStr (beToNat eb))
    (bitChars ((bytesBits (sha256 eb)).take (eb.length / 4)))
  rw [hlen] at this
  rw [this, bitChars_append]
  congr 1
  have h1 := beToNat_lt eb
  rw [Nat.mul_comm] at h1
  rw [zfill_binStr _ _ (by omega) h1, Nat.mul_comm, bitsBE_beToNat]

theorem indexes_spec_aux (sha256 : Bytes → Bytes) (hsha : ∀ x, (sha256 x).length = 32)
    (t : List Char) (eb : Bytes) (ht : fromHex t = some eb)
    (hbits : eb.length * 8 ∈ Generated.correctEntropyBits) :
    ∃ idx, indexesFromEntropy sha256 t = some idx ∧ idx.length = eb.length * 3 / 4 ∧
      (∀ i ∈ idx, i < 2048) ∧
      idx.flatMap (bitsBE 11) =
        bytesBits eb ++ (bytesBits (sha256 eb)).take (eb.length / 4) := by
  have hL := mem_correctEntropyBits.mp hbits
  unfold indexesFromEntropy
  simp only [ht, Option.bind_some, hbits, if_true]
  rw [entropyChecksum_eq sha256 hsha eb hbits]
  have hlen : (bytesBits eb ++ (bytesBits (sha256 eb)).take (eb.length / 4)).length
      = 11 * (eb.length * 3 / 4) := by
    rw [List.length_append, List.length_take, bytesBits_length, bytesBits_length, hsha]; omega
  rw [bitChars_length, hlen, Nat.mul_div_cancel_left _ (by decide : 0 < 11)]
  exact ⟨_, rfl, chunks_spec _ _ hlen⟩

theorem indexes_none_of_size (sha256 : Bytes → Bytes) (t : List Char) (eb : Bytes)
    (ht : fromHex t = some eb) (hbits : eb.length * 8 ∉ Generated.correctEntropyBits) :
    indexesFromEntropy sha256 t = none := by
  unfold indexesFromEntropy
  simp only [ht, Option.bind_some, hbits, if_false]

theorem indexes_none_of_hex (sha256 : Bytes → Bytes) (t : List Char) (ht : fromHex t = none) :
    indexesFromEntropy sha256 t = none := by
  unfold indexesFromEntropy
  simp only [ht, Option.bind_none]

/-! ### `wordChars` with fuel (structural recursion, evaluable by the kernel) -/

/-- `wordChars` with a bound on the number of letters -/
def wordCharsF : Nat → Nat → List Char
  | 0, _ => []
  | f + 1, w => if w = 0 then [] else wordCharsF f (w / 256) ++ [Char.ofNat (w % 256)]

theorem wordCharsF_length_le (f w : Nat) : (wordCharsF f w).length ≤ f := by
  induction f generalizing w with
  | zero => simp [wordCharsF]
  | succ f ih =>
    rw [wordCharsF]
    split
    · simp
    · have := ih (w / 256); simp; omega

theorem wordChars_zero : wordChars 0 = [] := by
  rw [wordChars]; simp

theorem wordChars_pos {w : Nat} (h : w ≠ 0) :
    wordChars w = wordChars (w / 256) ++ [Char.ofNat (w % 256)] := by
  rw [wordChars]; simp [h]

theorem wordChars_eq_fuel (f w : Nat) (h : w < 256 ^ f) : wordChars w = wordCharsF f w := by
  induction f generalizing w with
  | zero =>
    have : w = 0 := by simpa using h
    subst this
    rw [wordChars_zero]; rfl
  | succ f ih =>
    rw [wordCharsF]
    split
    · next h0 => subst h0; exact wordChars_zero
    · next h0 =>
      rw [wordChars_pos h0, ih (w / 256) (by rw [Nat.pow_succ] at h; omega)]

/-! ### strictly increasing lists of strings -/

/-- every element is smaller than its successor, starting above `prev` -/
def chainFrom (prev : List Char) : List (List Char) → Bool
  | [] => true
  | x :: xs => decide (prev < x) && chainFrom x xs

theorem chainFrom_pairwise (prev : List Char) (l : List (List Char))
    (h : chainFrom prev l = true) :
    (∀ x ∈ l, prev < x) ∧ l.Pairwise (· < ·) := by
  induction l generalizing prev with
  | nil => simp
  | cons x xs ih =>
    simp only [chainFrom, Bool.and_eq_true, decide_eq_true_eq] at h
    obtain ⟨h1, h2⟩ := ih x h.2
    refine ⟨?_, ?_⟩
    · intro y hy
      rcases List.mem_cons.mp hy with rfl | hy
      · exact h.1
      · exact List.lt_trans h.1 (h1 y hy)
    · exact List.pairwise_cons.mpr ⟨h1, h2⟩

/-! ### `" ".join` and `split(" ")` -/

theorem splitOn_ne_nil (sep : Char) (s : List Char) : Text.splitOn sep s ≠ [] := by
  induction s with
  | nil => simp [Text.splitOn]
  | cons c cs ih =>
    rw [Text.splitOn]
    split
    · simp
    · split <;> simp

theorem splitOn_of_not_mem (sep : Char) (p : List Char) (h : sep ∉ p) :
    Text.splitOn sep p = [p] := by
  induction p with
  | nil => rfl
  | cons c cs ih =>
    have hc : c ≠ sep := fun e => h (e ▸ List.mem_cons_self ..)
    have hcs : sep ∉ cs := fun e => h (List.mem_cons_of_mem _ e)
    rw [Text.splitOn, ih hcs]
    simp [hc]

theorem splitOn_append_sep (sep : Char) (p rest : List Char) (h : sep ∉ p) :
    Text.splitOn sep (p ++ sep :: rest) = p :: Text.splitOn sep rest := by
  induction p with
  | nil =>
    rw [List.nil_append, Text.splitOn]
    cases hr : Text.splitOn sep rest with
    | nil => exact absurd hr (splitOn_ne_nil sep rest)
    | cons q qs => simp
  | cons c cs ih =>
    have hc : c ≠ sep := fun e => h (e ▸ List.mem_cons_self ..)
    have hcs : sep ∉ cs := fun e => h (List.mem_cons_of_mem _ e)
    rw [List.cons_append, Text.splitOn, ih hcs]
    simp [hc]

/-- `sep.join(ps).split(sep) == ps` for a non-empty list of pieces without `sep` -/
theorem splitOn_join (sep : Char) (p : List Char) (ps : List (List Char))
    (h : ∀ x ∈ p :: ps, sep ∉ x) : Text.splitOn sep (Text.join [sep] (p :: ps)) = p :: ps := by
  induction ps generalizing p with
  | nil => exact splitOn_of_not_mem sep p (h p (List.mem_cons_self ..))
  | cons q qs ih =>
    have hj : Text.join [sep] (p :: q :: qs) = p ++ [sep] ++ Text.join [sep] (q :: qs) := rfl
    rw [hj, List.append_assoc, List.singleton_append,
      splitOn_append_sep sep p _ (h p (List.mem_cons_self ..)),
      ih q (fun x hx => h x (List.mem_cons_of_mem _ hx))]

end BtcHd.Bip39
