/-
Concrete secp256k1 over `Nat` (core Lean only) for the driver.  The theorems use
the abstract `Curve` interface with explicit `CurveLaws` hypotheses; this
implementation is compared with python-ecdsa by the harness (testing, not proof).
-/
import BtcHd.Model.Basic

namespace BtcHd.Real.Secp
open BtcHd

def p : Nat := 0xFFFFFFFFFFFFFFFFFFFFFFFFFFFFFFFFFFFFFFFFFFFFFFFFFFFFFFFEFFFFFC2F
def n : Nat := 0xFFFFFFFFFFFFFFFFFFFFFFFFFFFFFFFEBAAEDCE6AF48A03BBFD25E8CD0364141
def gx : Nat := 0x79BE667EF9DCBBAC55A06295CE870B07029BFCDB2DCE28D959F2815B16F81798
def gy : Nat := 0x483ADA7726A3C4655DA4FBFC0E1108A8FD17B448A68554199C47D08FFB10D4B8

/-- affine point; `none` is the point at infinity -/
abbrev Pt := Option (Nat × Nat)

def powMod (b e m : Nat) : Nat := Id.run do
  let mut r := 1
  let mut base := b % m
  let mut ex := e
  -- 256 iterations suffice for every exponent used here (e < 2^256)
  for _ in [0:256] do
    if ex % 2 = 1 then r := r * base % m
    base := base * base % m
    ex := ex / 2
  return r

def inv (a : Nat) : Nat := powMod a (p - 2) p

def sub (a b : Nat) : Nat := (a + p - b % p) % p

def onCurve (x y : Nat) : Bool := x < p && y < p && (y * y) % p = (x * x % p * x + 7) % p

/-- Jacobian coordinates (X, Y, Z); Z = 0 is infinity -/
structure Jac where
  x : Nat
  y : Nat
  z : Nat

def Jac.inf : Jac := ⟨1, 1, 0⟩

def Jac.ofAffine : Pt → Jac
  | none => Jac.inf
  | some (x, y) => ⟨x, y, 1⟩

def Jac.toAffine (j : Jac) : Pt :=
  if j.z = 0 then none else
  let zi := inv j.z
  let zi2 := zi * zi % p
  some (j.x * zi2 % p, j.y * (zi2 * zi % p) % p)

def Jac.double (j : Jac) : Jac :=
  if j.z = 0 || j.y = 0 then Jac.inf else
  let ysq := j.y * j.y % p
  let s := 4 * j.x % p * ysq % p
  let m := 3 * (j.x * j.x % p) % p
  let nx := sub (m * m % p) (2 * s % p)
  let ny := sub (m * (sub s nx) % p) (8 * (ysq * ysq % p) % p)
  let nz := 2 * j.y % p * j.z % p
  ⟨nx, ny, nz⟩

def Jac.add (a b : Jac) : Jac :=
  if a.z = 0 then b else if b.z = 0 then a else
  let z1z1 := a.z * a.z % p
  let z2z2 := b.z * b.z % p
  let u1 := a.x * z2z2 % p
  let u2 := b.x * z1z1 % p
  let s1 := a.y * (b.z * z2z2 % p) % p
  let s2 := b.y * (a.z * z1z1 % p) % p
  if u1 = u2 then
    if s1 = s2 then a.double else Jac.inf
  else
    let h := sub u2 u1
    let r := sub s2 s1
    let h2 := h * h % p
    let h3 := h * h2 % p
    let u1h2 := u1 * h2 % p
    let nx := sub (sub (r * r % p) h3) (2 * u1h2 % p)
    let ny := sub (r * (sub u1h2 nx) % p) (s1 * h3 % p)
    let nz := h * a.z % p * b.z % p
    ⟨nx, ny, nz⟩

def Jac.mul (k : Nat) (pt : Jac) : Jac := Id.run do
  let mut acc := Jac.inf
  let mut i := 256
  for _ in [0:256] do
    i := i - 1
    acc := acc.double
    if (k >>> i) % 2 = 1 then acc := acc.add pt
  return acc

def add (a b : Pt) : Pt := ((Jac.ofAffine a).add (Jac.ofAffine b)).toAffine

/-- `k * G` for `k < 2^256` -/
def mulGen (k : Nat) : Pt := (Jac.mul (k % n) (Jac.ofAffine (some (gx, gy)))).toAffine

/-- SEC encoding (`VerifyingKey.to_string("compressed" | "uncompressed")`) -/
def sec (compressed : Bool) : Pt → Bytes
  | none => []
  | some (x, y) =>
    if compressed then (if y % 2 = 0 then 2 else 3) :: beFixed 32 x
    else 4 :: (beFixed 32 x ++ beFixed 32 y)

/-- square root mod p (p ≡ 3 mod 4), `none` if `a` is not a square -/
def sqrt? (a : Nat) : Option Nat :=
  let r := powMod a ((p + 1) / 4) p
  if r * r % p = a % p then some r else none

/-- `VerifyingKey.from_string(bs, curve=SECP256k1)` as python-ecdsa 0.19 accepts it:
raw (64), compressed (33: 02/03), uncompressed (65: 04), hybrid (65: 06/07 with
matching parity); the point must be on the curve. -/
def parse (bs : Bytes) : Option Pt :=
  let xy (x y : Nat) : Option Pt := if onCurve x y then some (some (x, y)) else none
  match bs.length, bs with
  | 64, _ => xy (beToNat (bs.take 32)) (beToNat (bs.drop 32))
  | 33, pre :: rest =>
    if pre = 2 ∨ pre = 3 then
      let x := beToNat rest
      if x < p then
        match sqrt? ((x * x % p * x + 7) % p) with
        | some y =>
          let y' := if (y % 2 = 1) = (pre = 3) then y else p - y
          xy x y'
        | none => none
      else none
    else none
  | 65, pre :: rest =>
    let x := beToNat (rest.take 32)
    let y := beToNat (rest.drop 32)
    if pre = 4 then xy x y
    else if pre = 6 ∨ pre = 7 then
      (if (y % 2 = 1) = (pre = 7) then xy x y else none)
    else none
  | _, _ => none

end BtcHd.Real.Secp
