/-
The concrete primitive bundle the driver runs (raw points `Option (Nat × Nat)`): one definition, shared by
`Driver/Main.lean` (differentially tested against CPython/OpenSSL/python-ecdsa) and by
`Lemmas/Secp/Bridge.lean` (where the curve laws are proved for it).  Core Lean only.
-/
import BtcHd.Model.Curve
import BtcHd.Prims.Sha
import BtcHd.Prims.Secp256k1

namespace BtcHd.Real.Secp
open BtcHd

/-- the driver's curve record over raw points -/
def rawCurve : Curve Pt where
  n := n
  mulGen := mulGen
  add := add
  isInf := fun q => q.isNone
  sec := sec
  parse := parse

/-- the driver's primitive bundle over raw points -/
def rawPrims (nfkd : List Char → List Char) : Prims Pt where
  sha256 := Real.sha256
  hmac512 := Real.hmacSha512
  pbkdf2 := Real.pbkdf2Sha512
  nfkd := nfkd
  curve := rawCurve

end BtcHd.Real.Secp
