/-
Concrete SHA-256, SHA-512, HMAC-SHA512 and PBKDF2-HMAC-SHA512 in core Lean.
Used by the driver (`Prims.real`) so that whole outputs can be compared with
the implementation.  In the theorems these functions are *parameters*; the
concrete versions are compared with CPython's hashlib by the harness.
-/
import BtcHd.Model.Basic

set_option linter.unusedVariables false

namespace BtcHd.Real
open BtcHd

/-! ### SHA-256 -/

def k256 : Array UInt32 := #[
  0x428a2f98, 0x71374491, 0xb5c0fbcf, 0xe9b5dba5, 0x3956c25b, 0x59f111f1, 0x923f82a4, 0xab1c5ed5,
  0xd807aa98, 0x12835b01, 0x243185be, 0x550c7dc3, 0x72be5d74, 0x80deb1fe, 0x9bdc06a7, 0xc19bf174,
  0xe49b69c1, 0xefbe4786, 0x0fc19dc6, 0x240ca1cc, 0x2de92c6f, 0x4a7484aa, 0x5cb0a9dc, 0x76f988da,
  0x983e5152, 0xa831c66d, 0xb00327c8, 0xbf597fc7, 0xc6e00bf3, 0xd5a79147, 0x06ca6351, 0x14292967,
  0x27b70a85, 0x2e1b2138, 0x4d2c6dfc, 0x53380d13, 0x650a7354, 0x766a0abb, 0x81c2c92e, 0x92722c85,
  0xa2bfe8a1, 0xa81a664b, 0xc24b8b70, 0xc76c51a3, 0xd192e819, 0xd6990624, 0xf40e3585, 0x106aa070,
  0x19a4c116, 0x1e376c08, 0x2748774c, 0x34b0bcb5, 0x391c0cb3, 0x4ed8aa4a, 0x5b9cca4f, 0x682e6ff3,
  0x748f82ee, 0x78a5636f, 0x84c87814, 0x8cc70208, 0x90befffa, 0xa4506ceb, 0xbef9a3f7, 0xc67178f2]

@[inline] def rotr32 (x : UInt32) (n : UInt32) : UInt32 := (x >>> n) ||| (x <<< (32 - n))

def be32 (a b c d : UInt8) : UInt32 :=
  (a.toUInt32 <<< 24) ||| (b.toUInt32 <<< 16) ||| (c.toUInt32 <<< 8) ||| d.toUInt32

def words32 : Bytes → List UInt32
  | a :: b :: c :: d :: rest => be32 a b c d :: words32 rest
  | _ => []

def u32Bytes (w : UInt32) : Bytes :=
  [(w >>> 24).toUInt8, (w >>> 16).toUInt8, (w >>> 8).toUInt8, w.toUInt8]

def u64Bytes (w : UInt64) : Bytes :=
  [(w >>> 56).toUInt8, (w >>> 48).toUInt8, (w >>> 40).toUInt8, (w >>> 32).toUInt8,
   (w >>> 24).toUInt8, (w >>> 16).toUInt8, (w >>> 8).toUInt8, w.toUInt8]

/-- Merkle–Damgård padding with a big-endian bit length of `lenBytes` bytes. -/
def mdPad (blockLen lenBytes : Nat) (msg : Bytes) : Bytes :=
  let l := msg.length
  let k := (blockLen - ((l + 1 + lenBytes) % blockLen)) % blockLen
  msg ++ [0x80] ++ List.replicate k 0 ++ beFixed lenBytes (8 * l)

def chunksOf (n : Nat) (xs : List α) : List (List α) :=
  if h : n = 0 ∨ xs = [] then [] else xs.take n :: chunksOf n (xs.drop n)
termination_by xs.length
decreasing_by
  have : xs ≠ [] := fun e => h (Or.inr e)
  have : 0 < xs.length := List.length_pos_iff.mpr this
  simp only [List.length_drop]; omega

def sha256Schedule (block : List UInt32) : Array UInt32 := Id.run do
  let mut w : Array UInt32 := block.toArray
  for i in [16:64] do
    let w15 := w[i - 15]!
    let w2 := w[i - 2]!
    let s0 := rotr32 w15 7 ^^^ rotr32 w15 18 ^^^ (w15 >>> 3)
    let s1 := rotr32 w2 17 ^^^ rotr32 w2 19 ^^^ (w2 >>> 10)
    w := w.push (w[i - 16]! + s0 + w[i - 7]! + s1)
  return w

def sha256Compress (st : Array UInt32) (block : Bytes) : Array UInt32 := Id.run do
  let w := sha256Schedule (words32 block)
  let mut a := st[0]!
  let mut b := st[1]!
  let mut c := st[2]!
  let mut d := st[3]!
  let mut e := st[4]!
  let mut f := st[5]!
  let mut g := st[6]!
  let mut h := st[7]!
  for i in [0:64] do
    let s1 := rotr32 e 6 ^^^ rotr32 e 11 ^^^ rotr32 e 25
    let ch := (e &&& f) ^^^ ((~~~ e) &&& g)
    let t1 := h + s1 + ch + k256[i]! + w[i]!
    let s0 := rotr32 a 2 ^^^ rotr32 a 13 ^^^ rotr32 a 22
    let maj := (a &&& b) ^^^ (a &&& c) ^^^ (b &&& c)
    let t2 := s0 + maj
    h := g; g := f; f := e; e := d + t1; d := c; c := b; b := a; a := t1 + t2
  return #[st[0]! + a, st[1]! + b, st[2]! + c, st[3]! + d, st[4]! + e, st[5]! + f, st[6]! + g, st[7]! + h]

def sha256Init : Array UInt32 := #[
  0x6a09e667, 0xbb67ae85, 0x3c6ef372, 0xa54ff53a, 0x510e527f, 0x9b05688c, 0x1f83d9ab, 0x5be0cd19]

def sha256 (msg : Bytes) : Bytes :=
  let st := (chunksOf 64 (mdPad 64 8 msg)).foldl sha256Compress sha256Init
  st.toList.flatMap u32Bytes

def sha256d (msg : Bytes) : Bytes := sha256 (sha256 msg)

/-! ### SHA-512 -/

def k512 : Array UInt64 := #[
  0x428a2f98d728ae22, 0x7137449123ef65cd, 0xb5c0fbcfec4d3b2f, 0xe9b5dba58189dbbc, 0x3956c25bf348b538,
  0x59f111f1b605d019, 0x923f82a4af194f9b, 0xab1c5ed5da6d8118, 0xd807aa98a3030242, 0x12835b0145706fbe,
  0x243185be4ee4b28c, 0x550c7dc3d5ffb4e2, 0x72be5d74f27b896f, 0x80deb1fe3b1696b1, 0x9bdc06a725c71235,
  0xc19bf174cf692694, 0xe49b69c19ef14ad2, 0xefbe4786384f25e3, 0x0fc19dc68b8cd5b5, 0x240ca1cc77ac9c65,
  0x2de92c6f592b0275, 0x4a7484aa6ea6e483, 0x5cb0a9dcbd41fbd4, 0x76f988da831153b5, 0x983e5152ee66dfab,
  0xa831c66d2db43210, 0xb00327c898fb213f, 0xbf597fc7beef0ee4, 0xc6e00bf33da88fc2, 0xd5a79147930aa725,
  0x06ca6351e003826f, 0x142929670a0e6e70, 0x27b70a8546d22ffc, 0x2e1b21385c26c926, 0x4d2c6dfc5ac42aed,
  0x53380d139d95b3df, 0x650a73548baf63de, 0x766a0abb3c77b2a8, 0x81c2c92e47edaee6, 0x92722c851482353b,
  0xa2bfe8a14cf10364, 0xa81a664bbc423001, 0xc24b8b70d0f89791, 0xc76c51a30654be30, 0xd192e819d6ef5218,
  0xd69906245565a910, 0xf40e35855771202a, 0x106aa07032bbd1b8, 0x19a4c116b8d2d0c8, 0x1e376c085141ab53,
  0x2748774cdf8eeb99, 0x34b0bcb5e19b48a8, 0x391c0cb3c5c95a63, 0x4ed8aa4ae3418acb, 0x5b9cca4f7763e373,
  0x682e6ff3d6b2b8a3, 0x748f82ee5defb2fc, 0x78a5636f43172f60, 0x84c87814a1f0ab72, 0x8cc702081a6439ec,
  0x90befffa23631e28, 0xa4506cebde82bde9, 0xbef9a3f7b2c67915, 0xc67178f2e372532b, 0xca273eceea26619c,
  0xd186b8c721c0c207, 0xeada7dd6cde0eb1e, 0xf57d4f7fee6ed178, 0x06f067aa72176fba, 0x0a637dc5a2c898a6,
  0x113f9804bef90dae, 0x1b710b35131c471b, 0x28db77f523047d84, 0x32caab7b40c72493, 0x3c9ebe0a15c9bebc,
  0x431d67c49c100d4c, 0x4cc5d4becb3e42b6, 0x597f299cfc657e2a, 0x5fcb6fab3ad6faec, 0x6c44198c4a475817]

@[inline] def rotr64 (x : UInt64) (n : UInt64) : UInt64 := (x >>> n) ||| (x <<< (64 - n))

def be64 (bs : Bytes) : UInt64 := bs.foldl (fun acc b => (acc <<< 8) ||| b.toUInt64) 0

def words64 : Bytes → List UInt64
  | a :: b :: c :: d :: e :: f :: g :: h :: rest => be64 [a, b, c, d, e, f, g, h] :: words64 rest
  | _ => []

def sha512Schedule (block : List UInt64) : Array UInt64 := Id.run do
  let mut w : Array UInt64 := block.toArray
  for i in [16:80] do
    let w15 := w[i - 15]!
    let w2 := w[i - 2]!
    let s0 := rotr64 w15 1 ^^^ rotr64 w15 8 ^^^ (w15 >>> 7)
    let s1 := rotr64 w2 19 ^^^ rotr64 w2 61 ^^^ (w2 >>> 6)
    w := w.push (w[i - 16]! + s0 + w[i - 7]! + s1)
  return w

def sha512Compress (st : Array UInt64) (block : Bytes) : Array UInt64 := Id.run do
  let w := sha512Schedule (words64 block)
  let mut a := st[0]!
  let mut b := st[1]!
  let mut c := st[2]!
  let mut d := st[3]!
  let mut e := st[4]!
  let mut f := st[5]!
  let mut g := st[6]!
  let mut h := st[7]!
  for i in [0:80] do
    let s1 := rotr64 e 14 ^^^ rotr64 e 18 ^^^ rotr64 e 41
    let ch := (e &&& f) ^^^ ((~~~ e) &&& g)
    let t1 := h + s1 + ch + k512[i]! + w[i]!
    let s0 := rotr64 a 28 ^^^ rotr64 a 34 ^^^ rotr64 a 39
    let maj := (a &&& b) ^^^ (a &&& c) ^^^ (b &&& c)
    let t2 := s0 + maj
    h := g; g := f; f := e; e := d + t1; d := c; c := b; b := a; a := t1 + t2
  return #[st[0]! + a, st[1]! + b, st[2]! + c, st[3]! + d, st[4]! + e, st[5]! + f, st[6]! + g, st[7]! + h]

def sha512Init : Array UInt64 := #[
  0x6a09e667f3bcc908, 0xbb67ae8584caa73b, 0x3c6ef372fe94f82b, 0xa54ff53a5f1d36f1,
  0x510e527fade682d1, 0x9b05688c2b3e6c1f, 0x1f83d9abfb41bd6b, 0x5be0cd19137e2179]

/-- SHA-512 state after absorbing whole blocks. -/
def sha512Blocks (st : Array UInt64) (data : Bytes) : Array UInt64 :=
  (chunksOf 128 data).foldl sha512Compress st

def sha512Out (st : Array UInt64) : Bytes := st.toList.flatMap u64Bytes

def sha512 (msg : Bytes) : Bytes :=
  sha512Out (sha512Blocks sha512Init (mdPad 128 16 msg))

/-! ### HMAC-SHA512 and PBKDF2 -/

def hmacKeyBlock (key : Bytes) : Bytes :=
  let k := if key.length > 128 then sha512 key else key
  k ++ List.replicate (128 - k.length) 0

def hmacSha512 (key msg : Bytes) : Bytes :=
  let kb := hmacKeyBlock key
  let ipad := kb.map (· ^^^ 0x36)
  let opad := kb.map (· ^^^ 0x5c)
  sha512 (opad ++ sha512 (ipad ++ msg))

def xorBytes (a b : Bytes) : Bytes := List.zipWith (· ^^^ ·) a b

/-- PBKDF2-HMAC-SHA512 with dkLen = 64 (one block), as `hashlib.pbkdf2_hmac("sha512", …)`
defaults.  The inner/outer key states are precomputed once. -/
def pbkdf2Sha512 (password salt : Bytes) (rounds : Nat) : Bytes :=
  let kb := hmacKeyBlock password
  let ist := sha512Compress sha512Init (kb.map (· ^^^ 0x36))
  let ost := sha512Compress sha512Init (kb.map (· ^^^ 0x5c))
  -- HMAC of a message `m` given the precomputed states (total lengths 128 + |m|, 128 + 64)
  let mac (m : Bytes) : Bytes :=
    let padTail (total : Nat) (tail : Bytes) : Bytes :=
      let k := (128 - ((total + 1 + 16) % 128)) % 128
      tail ++ [0x80] ++ List.replicate k 0 ++ beFixed 16 (8 * total)
    let inner := sha512Out (sha512Blocks ist (padTail (128 + m.length) m))
    sha512Out (sha512Blocks ost (padTail (128 + 64) inner))
  if rounds = 0 then [] else
  let u1 := mac (salt ++ [0, 0, 0, 1])
  let rec loop : Nat → Bytes → Bytes → Bytes
    | 0, _, acc => acc
    | n + 1, u, acc => let u' := mac u; loop n u' (xorBytes acc u')
  loop (rounds - 1) u1 u1

end BtcHd.Real
