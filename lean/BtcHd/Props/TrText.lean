/-
Translated Python (`BtcHd.CodeObj5`, generated from /repo by harness/translate_obj5.py) = hand-written model:
the random-source route (`mnemonic_from_entropy_bits`, `from_entropy_bits`, `new_wallet`), `PubKeyNode.__eq__`,
`BaseWallet.__eq__`, and the text layer of `PaperWallet` (`json`, `pprint`, `export_wallet`, `wasabi_json`,
`export_wasabi`).  The tables the translator uses are stated in the header of harness/translate_obj5.py.
-/
import BtcHd.Generated.CodeObj5
import BtcHd.Props.TrPaper

namespace BtcHd.TrText
open BtcHd BtcHd.Translated BtcHd.TrBip32 BtcHd.TrWallet BtcHd.TrPaper Bip32 Keys Wallet

variable {Pt : Type}

/-- `mnemonic_from_entropy_bits`: size check, `getrandbits` over the OS source, ENT/8 big-endian bytes, the sentence -/
theorem entropy_bits_eq (P : Prims Pt) (os : Nat → Bytes) (bits : Nat) :
    CodeObj5.mnemonic_from_entropy_bits P os bits = Bip39.mnemonicFromEntropyBits P.sha256 os bits := by
  unfold CodeObj5.mnemonic_from_entropy_bits Bip39.mnemonicFromEntropyBits
  simp only [correct_bits_eq, mnemonic_from_entropy_eq, (int_helpers_eq [] _ _).2.2]
  by_cases h : bits ∈ Generated.correctEntropyBits
  · simp only [h, ↓reduceIte, Option.pure_def, Option.bind_eq_bind, Option.bind_some]
  · simp [h]

/-- `from_entropy_bits` and `new_wallet` (the word-count table is the zipped pair of the two lists of the source) -/
theorem new_wallet_eq (P : Prims Pt) (os : Nat → Bytes) (len : Nat) (pw : List Char) (t : Bool) :
    CodeObj5.w_new_wallet P os len pw t = newWallet P os len pw t := by
  unfold CodeObj5.w_new_wallet newWallet CodeObj5.w_from_entropy_bits
  have hz : ∀ n, (List.zip Generated.correctMnemonicLength Generated.correctEntropyBits).lookup n =
      (Generated.lenToBits.find? (·.1 = n)).map (·.2) := by
    intro n
    have : List.zip Generated.correctMnemonicLength Generated.correctEntropyBits = Generated.lenToBits := by decide
    rw [this]
    generalize Generated.lenToBits = l
    induction l with
    | nil => rfl
    | cons x xs ih =>
      obtain ⟨a, b⟩ := x
      by_cases hx : n = a
      · subst hx; simp [List.lookup, List.find?]
      · have h1 : (n == a) = false := by simpa using hx
        have h2 : ¬ (a = n) := fun h => hx h.symm
        simp [List.lookup, List.find?, h1, h2, ih]
  rw [hz]
  cases (Generated.lenToBits.find? (·.1 = len)).map (·.2) with
  | none => rfl
  | some bits =>
    simp only [Option.pure_def, Option.bind_eq_bind, Option.bind_some, entropy_bits_eq]
    cases Bip39.mnemonicFromEntropyBits P.sha256 os bits with
    | none => rfl
    | some m => simp [(constructors_eq P ⟨default, false, none, none⟩ [] [] m pw [] [] [] t).2.2.2.1]


/-- `PubKeyNode.__eq__` (inherited by `PrvKeyNode`) and `BaseWallet.__eq__` -/
theorem eq_methods (a b : Node) (w1 w2 : Wallet) :
    CodeObj5.node_eq a b = nodeEq a b ∧ CodeObj5.w_eq w1 w2 = Extra.walletEq w1 w2 := by
  have hn : ∀ x y : Node, CodeObj5.node_eq x y = nodeEq x y := by
    intro x y
    unfold CodeObj5.node_eq nodeEq
    simp only [parent_fingerprint_eq]
    by_cases hp : x.isPrv = y.isPrv
    · simp [hp]
      rfl
    · simp [hp]
  refine ⟨hn a b, ?_⟩
  unfold CodeObj5.w_eq Extra.walletEq
  rw [hn]
  cases nodeEq w1.master w2.master <;> cases h : w1.testnet <;> cases h2 : w2.testnet <;> simp


private theorem upper_hexDigit (n : Nat) (h : n < 16) :
    Py.upperAscii (hexDigit n) = (if 'a' ≤ hexDigit n ∧ hexDigit n ≤ 'f' then Char.ofNat ((hexDigit n).toNat - 32) else hexDigit n) := by
  interval_cases n <;> decide

private theorem upper_toHex (bs : Bytes) : (toHex bs).map Py.upperAscii = upperHex (toHex bs) := by
  unfold upperHex
  induction bs with
  | nil => rfl
  | cons b t ih =>
    simp only [toHex, List.map_cons]
    rw [upper_hexDigit _ (Nat.div_lt_of_lt_mul (by have := b.toNat_lt; omega)), upper_hexDigit _ (Nat.mod_lt _ (by decide)), ih]

/-- the text layer: `json`, `pprint` (everything written to standard output), `export_wallet` (the file contents),
`wasabi_json`, `export_wasabi` -/
theorem texts_eq (P : Prims Pt) (w : Wallet) (data : Option Json) (indent : Option Nat) (path : List Char) :
    CodeObj5.pw_json P w data indent = Extra.jsonText P w data indent ∧
    CodeObj5.pw_pprint P w data indent = Extra.pprintText P w data indent ∧
    CodeObj5.pw_export_wallet P w path indent data = Extra.exportWalletText P w data indent ∧
    CodeObj5.pw_wasabi_json P w indent = Extra.wasabiJsonText P w indent ∧
    CodeObj5.pw_export_wasabi P w path indent = Extra.wasabiJsonText P w indent := by
  have hg := (report_eq P w 0 0 20).2.2
  have hj : ∀ d i, CodeObj5.pw_json P w d i = Extra.jsonText P w d i := by
    intro d i
    unfold CodeObj5.pw_json Extra.jsonText Extra.dataOrGenerate
    rw [hg]
    cases d with
    | none => cases generate P w 0 0 20 <;> rfl
    | some j =>
      by_cases h : Extra.truthy j = true
      · simp [h]
      · simp only [h]
        cases generate P w 0 0 20 <;> rfl
  have hw : CodeObj5.pw_wasabi_json P w indent = Extra.wasabiJsonText P w indent := by
    unfold CodeObj5.pw_wasabi_json Extra.wasabiJsonText wasabi
    have e : ([Char.ofNat 109, Char.ofNat 47, Char.ofNat 56, Char.ofNat 52, Char.ofNat 39, Char.ofNat 47, Char.ofNat 48, Char.ofNat 39, Char.ofNat 47, Char.ofNat 48, Char.ofNat 39] : List Char) = "m/84'/0'/0'".toList := by decide
    simp only [e, (constructors_eq P w _ [] [] [] [] [] [] false).1, (extended_keys_eq P _ none).1, fingerprint_eq, hj, upper_toHex]
    cases byPath P w "m/84'/0'/0'".toList with
    | none => rfl
    | some nd =>
      simp only [Option.pure_def, Option.bind_eq_bind, Option.bind_some]
      cases extendedPublicKey P nd none with
      | none => rfl
      | some xpub =>
        simp only [Option.bind_some]
        cases fingerprint P w.master with
        | none => rfl
        | some fp => rfl
  refine ⟨hj data indent, ?_, ?_, hw, ?_⟩
  · unfold CodeObj5.pw_pprint Extra.pprintText Extra.dataOrGenerate
    rw [hg]
    cases data with
    | none =>
      cases generate P w 0 0 20 with
      | none => rfl
      | some d =>
        simp only [Option.pure_def, Option.bind_eq_bind, Option.bind_some, hj, Extra.linesep]
        cases Extra.jsonText P w (some d) indent <;> rfl
    | some j =>
      by_cases h : Extra.truthy j = true
      · simp only [h, if_true, Option.pure_def, Option.bind_eq_bind, Option.bind_some, hj, Extra.linesep]
        cases Extra.jsonText P w (some j) indent <;> rfl
      · simp only [h]
        cases generate P w 0 0 20 with
        | none => rfl
        | some d =>
          simp only [Bool.false_eq_true, if_false, Option.pure_def, Option.bind_eq_bind, Option.bind_some, hj, Extra.linesep]
          cases Extra.jsonText P w (some d) indent <;> rfl
  · unfold CodeObj5.pw_export_wallet Extra.exportWalletText Extra.dataOrGenerate
    rw [hg]
    cases data with
    | none =>
      cases generate P w 0 0 20 with
      | none => rfl
      | some d =>
        simp only [Option.pure_def, Option.bind_eq_bind, Option.bind_some, hj]
        cases Extra.jsonText P w (some d) indent <;> rfl
    | some j =>
      by_cases h : Extra.truthy j = true
      · simp only [h, if_true, Option.pure_def, Option.bind_eq_bind, Option.bind_some, hj]
        cases Extra.jsonText P w (some j) indent <;> rfl
      · simp only [h]
        cases generate P w 0 0 20 with
        | none => rfl
        | some d =>
          simp only [Bool.false_eq_true, if_false, Option.pure_def, Option.bind_eq_bind, Option.bind_some, hj]
          cases Extra.jsonText P w (some d) indent <;> rfl
  · unfold CodeObj5.pw_export_wasabi
    rw [hw]
    cases Extra.wasabiJsonText P w indent <;> rfl

end BtcHd.TrText
