/-
C09 — Key encodings (WIF, SEC) round-trip; out-of-range keys are rejected.

"For every secret scalar k in [1, n-1] the public key is k*G on secp256k1, its compressed
and uncompressed SEC encodings parse back to the same key, and the WIF string for each
combination of compressed/uncompressed and mainnet/testnet has the standard payload and
decodes back to k.  Scalars 0 and >= n, byte strings of the wrong length, and SEC encodings
that are not points on the curve are rejected with an error wherever a key can be
constructed."

Property theorems only.  The model functions are those of `Model/Keys.lean` (`PrivateKey`,
`wif`, `from_wif`) and `Model/Bip32.lean` (`private_key`, `public_key`).  The curve is the
abstract `Curve` interface: group facts are the explicit `CurveLaws` hypotheses
(`Lemmas/CurveLaws.lean`); the double SHA-256 enters only through its output length.
-/
import BtcHd.Lemmas.XKey
import BtcHd.Lemmas.Wif
import BtcHd.Lemmas.ToyNodes
import BtcHd.Lemmas.RealSecp
import BtcHd.Props.C10

namespace BtcHd.C09
open BtcHd Bip32 XKey Wif Keys BeFixed

variable {Pt : Type}

/-! ### 1. the WIF payload -/

/-- the WIF prefixes in the source are the standard ones -/
theorem wif_prefixes : Generated.wifMain = 0x80 ∧ Generated.wifTest = 0xef := by decide

/-- **standard payload**: the WIF string passes Base58Check and carries
`80|ef ‖ ser256(k) ‖ [01 if compressed]` -/
theorem wif_payload (P : Prims Pt) (hlen : ∀ x, 4 ≤ (P.hash256 x).length) (k : Nat)
    (c t : Bool) :
    Base58.decodeCheck P.hash256 (wif P k c t)
      = some ([if t then 0xef else 0x80] ++ beFixed 32 k ++ (if c then [1] else [])) := by
  unfold wif
  rw [C10.decodeCheck_encodeCheck _ hlen]
  cases t <;> rfl

/-! ### 2. the first character -/

/-- **first character and length**: for every scalar (the whole 256-bit range, not only
`[1, n-1]`) the WIF string starts with `K` or `L` (compressed, mainnet), `c` (compressed,
testnet), `5` (uncompressed, mainnet), `9` (uncompressed, testnet) and has 52 (compressed) or
51 characters -/
theorem wif_first_char (P : Prims Pt) (hlen : ∀ x, 4 ≤ (P.hash256 x).length) (k : Nat)
    (c t : Bool) :
    ∃ ch rest, wif P k c t = ch :: rest ∧ rest.length = (if c then 51 else 50) ∧
      (match c, t with
        | true, false => ch = 'K' ∨ ch = 'L'
        | true, true => ch = 'c'
        | false, false => ch = '5'
        | false, true => ch = '9') := by
  obtain ⟨rest, hl, he⟩ := wif_bytes P hlen k c t
  rw [he]
  cases c <;> cases t <;> simp only [Bool.false_eq_true, if_false, if_true] at hl ⊢
  · obtain ⟨tl, h, hl'⟩ := wif_first_5 rest hl
    exact ⟨_, tl, h, hl', rfl⟩
  · obtain ⟨tl, h, hl'⟩ := wif_first_9 rest hl
    exact ⟨_, tl, h, hl', rfl⟩
  · obtain ⟨tl, h | h, hl'⟩ := wif_first_KL rest hl
    · exact ⟨_, tl, h, hl', Or.inl rfl⟩
    · exact ⟨_, tl, h, hl', Or.inr rfl⟩
  · obtain ⟨tl, h, hl'⟩ := wif_first_c rest hl
    exact ⟨_, tl, h, hl', rfl⟩

/-! ### 3. decoding a WIF string -/

private theorem getLast_payload (p : UInt8) (xs : Bytes) :
    ([p] ++ xs ++ [1]).getLast? = some 1 := List.getLast?_concat

private theorem dropLast_payload (p : UInt8) (xs : Bytes) :
    (([p] ++ xs ++ [1]).dropLast).drop 1 = xs := by
  rw [List.dropLast_concat]; rfl

/-- **WIF round trip**: for `1 ≤ k < n` (with `n ≤ 2^256`) `from_wif(wif(k))` is `k`, for all four
combinations of compressed / uncompressed and mainnet / testnet -/
theorem fromWif_wif (P : Prims Pt) (hlen : ∀ x, 4 ≤ (P.hash256 x).length)
    (hn : P.curve.n ≤ 2 ^ 256) (k : Nat) (h1 : 1 ≤ k) (h2 : k < P.curve.n) (c t : Bool) :
    fromWif P (wif P k c t) = some k := by
  obtain ⟨ch, rest, hs, _, hch⟩ := wif_first_char P hlen k c t
  have hm := mkPriv_beFixed h1 h2 hn
  unfold fromWif
  rw [wif_payload P hlen, hs]
  simp only [Option.bind_some]
  cases c <;> cases t <;> simp only [Bool.false_eq_true, reduceIte] at hch ⊢
  · subst hch
    rw [if_neg (by decide)]
    simpa using hm
  · subst hch
    rw [if_neg (by decide)]
    simpa using hm
  · have : ch = 'K' ∨ ch = 'L' ∨ ch = 'c' := by
      rcases hch with h | h
      · exact Or.inl h
      · exact Or.inr (Or.inl h)
    rw [if_pos this, if_pos (getLast_payload _ _), dropLast_payload]
    exact hm
  · rw [if_pos (Or.inr (Or.inr hch)), if_pos (getLast_payload _ _), dropLast_payload]
    exact hm

/-- **`from_wif` never yields an out-of-range key**: whatever string is given, a returned scalar
satisfies `1 ≤ k < n` (payloads encoding 0, a value ≥ n, or a wrong number of bytes raise) -/
theorem fromWif_sound (P : Prims Pt) (s : List Char) (k : Nat) (h : fromWif P s = some k) :
    1 ≤ k ∧ k < P.curve.n := by
  unfold fromWif at h
  obtain ⟨decoded, _, h⟩ := Option.bind_eq_some_iff.mp h
  split at h
  · cases h
  · split at h
    · split at h
      · exact ⟨(mkPriv_some h).2.1, (mkPriv_some h).2.2.1⟩
      · cases h
    · exact ⟨(mkPriv_some h).2.1, (mkPriv_some h).2.2.1⟩

/-! ### 4. constructing private keys -/

/-- **rejection (bytes)**: `PrivateKey(bytes)` raises on a wrong length, on zero and on values ≥ n -/
theorem mkPriv_rejects (C : Curve Pt) (bs : Bytes)
    (h : bs.length ≠ 32 ∨ beToNat bs = 0 ∨ C.n ≤ beToNat bs) : mkPriv C bs = none :=
  mkPriv_none h

/-- **acceptance (bytes)**: the 32-byte encoding of any `1 ≤ k < n` is accepted and yields `k` -/
theorem mkPriv_accepts (C : Curve Pt) (k : Nat) (h1 : 1 ≤ k) (h2 : k < C.n) (hn : C.n ≤ 2 ^ 256) :
    mkPriv C (beFixed 32 k) = some k :=
  mkPriv_beFixed h1 h2 hn

/-- exactly: `PrivateKey(bytes)` succeeds iff the input is 32 bytes with value in `[1, n-1]`,
and then the key is that value -/
theorem mkPriv_iff (C : Curve Pt) (bs : Bytes) (k : Nat) :
    mkPriv C bs = some k ↔ bs.length = 32 ∧ 1 ≤ k ∧ k < C.n ∧ beToNat bs = k := by
  constructor
  · exact mkPriv_some
  · rintro ⟨hl, h1, h2, rfl⟩
    unfold mkPriv
    simp [hl, h1, h2]

/-- **rejection (int)**: `PrivateKey(int)` / `from_int` raises on 0 and on every `k ≥ n`,
including `k ≥ 2^256` where `to_bytes(32)` overflows -/
theorem privFromInt_rejects (C : Curve Pt) (k : Nat) (h : k = 0 ∨ C.n ≤ k) :
    privFromInt C k = none := by
  unfold privFromInt
  by_cases hk : k < 256 ^ 32
  · rw [toBytesBE_eq_some hk]
    simp only [Option.bind_some]
    apply mkPriv_none
    rw [BeFixed.beToNat_beFixed hk]
    omega
  · rw [toBytesBE_eq_none (Nat.le_of_not_lt hk)]
    rfl

/-- **acceptance (int)**: every `1 ≤ k < n` is accepted and yields `k` -/
theorem privFromInt_accepts (C : Curve Pt) (k : Nat) (h1 : 1 ≤ k) (h2 : k < C.n)
    (hn : C.n ≤ 2 ^ 256) : privFromInt C k = some k := by
  have hk : k < 256 ^ 32 := by
    have : (256 : Nat) ^ 32 = 2 ^ 256 := by norm_num
    omega
  unfold privFromInt
  rw [toBytesBE_eq_some hk]
  simp only [Option.bind_some]
  exact mkPriv_beFixed h1 h2 hn

/-- the key stored in a node is usable only if it is in range: `private_key` of any node, when
it does not raise, is a scalar in `[1, n-1]` -/
theorem prvKey_sound (P : Prims Pt) (nd : Node) (k : Nat) (h : prvKey P nd = some k) :
    1 ≤ k ∧ k < P.curve.n :=
  prvKey_some h

/-! ### 5. public keys and SEC encodings (curve assumptions made explicit) -/

/-- **the public key is k·G**: the public key of a private node whose stored scalar is `k` is
`mulGen k` (python-ecdsa's `SigningKey.get_verifying_key`) -/
theorem pub_is_kG (P : Prims Pt) (nd : Node) (k : Nat) (hprv : nd.isPrv = true)
    (hk : prvKey P nd = some k) : pubKey P nd = some (P.curve.mulGen k) := by
  unfold pubKey
  rw [if_pos hprv, hk]
  rfl

/-- for a well-formed private node the scalar is the integer value of the stored key bytes, it
lies in `[1, n-1]`, and the public key is that multiple of the generator, a finite point -/
theorem pub_is_kG_wf {P : Prims Pt} {nd : Node} (hC : CurveLaws P.curve) (hwf : nd.WF P)
    (hprv : nd.isPrv = true) :
    1 ≤ beToNat nd.key ∧ beToNat nd.key < P.curve.n ∧
      prvKey P nd = some (beToNat nd.key) ∧
      pubKey P nd = some (P.curve.mulGen (beToNat nd.key)) ∧
      ¬ P.curve.isInf (P.curve.mulGen (beToNat nd.key)) := by
  obtain ⟨K, hK, _, hinf, hp, _⟩ := pubKey_wf hC hwf
  obtain ⟨k, h1, h2, hkey, hprvk, rfl⟩ := hp hprv
  subst hkey
  exact ⟨h1, h2, hprvk, hK, hinf⟩

/-- **SEC round trip**: under the curve laws, both the compressed and the uncompressed SEC
encoding of `k·G` (`1 ≤ k < n`) parse back to `k·G`; the compressed one has 33 bytes and
starts with `02` or `03` -/
theorem sec_roundtrip {C : Curve Pt} (hC : CurveLaws C) (k : Nat) (h1 : 1 ≤ k) (h2 : k < C.n) :
    (∀ c, C.parse (C.sec c (C.mulGen k)) = some (C.mulGen k)) ∧
      (C.sec true (C.mulGen k)).length = 33 ∧
      ((C.sec true (C.mulGen k)).head? = some 2 ∨ (C.sec true (C.mulGen k)).head? = some 3) :=
  have hinf := hC.mulGen_notInf k h1 h2
  ⟨fun c => hC.parse_sec c _ hinf, hC.sec_len _ hinf, hC.sec_prefix _ hinf⟩

/-- the same for any finite point, and conversely a 33-byte string that parses is the
compressed encoding of the parsed point (so public-key bytes and points correspond one to one) -/
theorem sec_roundtrip_point {C : Curve Pt} (hC : CurveLaws C) :
    (∀ c pt, ¬ C.isInf pt → C.parse (C.sec c pt) = some pt) ∧
      (∀ bs pt, bs.length = 33 → C.parse bs = some pt → C.sec true pt = bs ∧ ¬ C.isInf pt) :=
  ⟨hC.parse_sec, fun bs pt hl hp => ⟨hC.sec_parse bs pt hl hp, hC.parse_notInf bs pt hp⟩⟩

/-- **invalid SEC bytes are rejected wherever a public key is needed**: if the curve library
refuses the stored key bytes of a public node (`MalformedPointError`: not a point on the curve,
wrong length or prefix), then `public_key`, `fingerprint`, `serialize_public`,
`extended_public_key` and `ckd` all raise -/
theorem invalid_sec_rejected (P : Prims Pt) (nd : Node) (hpub : nd.isPrv = false)
    (hbad : P.curve.parse nd.key = none) (version : Option Nat) (i : Nat) :
    pubKey P nd = none ∧ fingerprint P nd = none ∧ serializePublic P nd version = none ∧
      extendedPublicKey P nd version = none ∧ ckd P nd i = none := by
  have hK : pubKey P nd = none := by
    unfold pubKey; rw [hpub]; simpa using hbad
  refine ⟨hK, by unfold fingerprint; rw [hK]; rfl, by unfold serializePublic; rw [hK]; rfl,
    by unfold extendedPublicKey serializePublic; rw [hK]; rfl, ?_⟩
  unfold ckd ckdPub
  rw [hpub, hbad]
  simp

/-! ### 6. the concrete parser of the executable model

The driver (and hence the differential test against python-ecdsa) runs `Real.Secp.parse`.
For that concrete function the rejection half of the property is proved outright, with no
curve hypothesis: it accepts nothing that is not on the curve. -/

/-- whatever the concrete SEC parser accepts is a finite point with `x, y < p` and
`y² = x³ + 7 (mod p)`, read from 33, 64 or 65 bytes -/
theorem real_parse_sound (bs : Bytes) (pt : Real.Secp.Pt) (h : Real.Secp.parse bs = some pt) :
    (∃ x y, pt = some (x, y) ∧ Real.Secp.onCurve x y = true) ∧
      (bs.length = 33 ∨ bs.length = 64 ∨ bs.length = 65) :=
  Real.Secp.parse_sound bs pt h

/-- the concrete SEC parser rejects: any other length; a 33-byte string not starting with
`02`/`03`; a compressed encoding whose abscissa is ≥ p or carries no curve point; an
uncompressed / hybrid encoding whose coordinates violate the curve equation -/
theorem real_parse_rejects :
    (∀ bs : Bytes, bs.length ≠ 33 → bs.length ≠ 64 → bs.length ≠ 65 →
      Real.Secp.parse bs = none) ∧
    (∀ (pre : UInt8) (rest : Bytes), (pre :: rest).length = 33 → pre ≠ 2 → pre ≠ 3 →
      Real.Secp.parse (pre :: rest) = none) ∧
    (∀ (pre : UInt8) (rest : Bytes), (pre :: rest).length = 33 →
      (Real.Secp.p ≤ beToNat rest ∨ Real.Secp.sqrt?
        ((beToNat rest * beToNat rest % Real.Secp.p * beToNat rest + 7) % Real.Secp.p) = none) →
      Real.Secp.parse (pre :: rest) = none) ∧
    (∀ (pre : UInt8) (rest : Bytes), (pre :: rest).length = 65 →
      Real.Secp.onCurve (beToNat (rest.take 32)) (beToNat (rest.drop 32)) = false →
      Real.Secp.parse (pre :: rest) = none) :=
  ⟨Real.Secp.parse_wrong_length, Real.Secp.parse_bad_prefix,
    Real.Secp.parse_compressed_off_curve, Real.Secp.parse_uncompressed_off_curve⟩

/-! ### non-vacuity -/

/-- the hypotheses are satisfiable and the round trip is not trivial: on the toy instance
(which satisfies `CurveLaws`) the WIF of `k = 3` decodes to 3 in all four flavours -/
example : ∀ c t, fromWif Toy.prims (wif Toy.prims 3 c t) = some 3 :=
  fromWif_wif Toy.prims (fun x => by rw [Toy.hash256_length]; decide) (by decide) 3 (by decide)
    (by decide)

example : CurveLaws Toy.prims.curve ∧ 1 ≤ 3 ∧ 3 < Toy.prims.curve.n := ⟨Toy.laws, by decide, by decide⟩

end BtcHd.C09
