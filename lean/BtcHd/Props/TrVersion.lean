/-
Translated Python (`BtcHd.CodeObj4`, generated from /repo's `wallet_utils.py` by harness/translate_obj4.py) = model:
the `Version` class (tables, `__int__`, `parse`, `valid_version`, `bip`, the helper lists and `bipNN_data`) and the
remaining `Bip32Path` methods (`m`, the predicates, `bip`, `to_list`, `repr_hardened`, `__repr__`, `__eq__`).
The tables and enum values are READ from the source; the method bodies are shape-checked (header of the translator).
-/
import BtcHd.Generated.CodeObj4
import BtcHd.Props.TrPath

namespace BtcHd.TrVersion
open BtcHd BtcHd.Translated

/-- the tables of the class body are the extracted tables the model is defined over -/
theorem tables_eq : CodeObj4.version_main = Generated.versionsMain ∧ CodeObj4.version_test = Generated.versionsTest :=
  ⟨by decide, by decide⟩

/-- `Version.__int__` is the model's `Version.toInt` -/
theorem int_eq (v : Path.Version) : CodeObj4.v_int v = v.toInt := by
  unfold CodeObj4.v_int Path.Version.toInt Path.lookup CodeObj4.tbl2
  rw [tables_eq.1, tables_eq.2]
  cases v.testnet <;> rfl

/-- the helper lists -/
theorem lists_eq :
    CodeObj4.v_mainnet_versions = Extra.mainnetVersions ∧ CodeObj4.v_testnet_versions = Extra.testnetVersions ∧
    CodeObj4.v_prv_versions = some Extra.prvVersions ∧ CodeObj4.v_pub_versions = some Extra.pubVersions ∧
    CodeObj4.v_bip44_data = some Extra.bip44Data ∧ CodeObj4.v_bip49_data = some Extra.bip49Data ∧
    CodeObj4.v_bip84_data = some Extra.bip84Data := by
  refine ⟨by decide, by decide, by decide, by decide, by decide, by decide, by decide⟩

/-- `Version.key_versions(name)`: defined exactly for the two member names of `Key` -/
theorem key_versions_eq (name : List Char) :
    CodeObj4.v_key_versions name =
      if name = ['P', 'R', 'V'] then Extra.keyVersions 0 else if name = ['P', 'U', 'B'] then Extra.keyVersions 1 else none := by
  unfold CodeObj4.v_key_versions CodeObj4.key_names
  rw [tables_eq.1, tables_eq.2]
  have e1 : ([Char.ofNat 80, Char.ofNat 82, Char.ofNat 86] : List Char) = ['P', 'R', 'V'] := by decide
  have e2 : ([Char.ofNat 80, Char.ofNat 85, Char.ofNat 66] : List Char) = ['P', 'U', 'B'] := by decide
  rw [e1, e2]
  by_cases h1 : name = ['P', 'R', 'V']
  · subst h1; rfl
  · by_cases h2 : name = ['P', 'U', 'B']
    · subst h2; rfl
    · have hb1 : (name == ['P', 'R', 'V']) = false := by simpa using h1
      have hb2 : (name == ['P', 'U', 'B']) = false := by simpa using h2
      simp [List.lookup, hb1, hb2, h1, h2]

/-- `Version.valid_version`, `Version.bip`, `Version.parse` -/
theorem parse_eq (v : Nat) :
    CodeObj4.v_valid_version v = Path.validVersion v ∧ CodeObj4.v_bip v = some (Path.versionBip v) ∧
      CodeObj4.v_parse v = Path.Version.parse v := by
  have hvalid : CodeObj4.v_valid_version v = Path.validVersion v := by
    unfold CodeObj4.v_valid_version Path.validVersion Path.allVersions
    rw [lists_eq.1, lists_eq.2.1]
    rfl
  have hbip : CodeObj4.v_bip v = some (Path.versionBip v) := by
    unfold CodeObj4.v_bip
    rw [lists_eq.2.2.2.2.1, lists_eq.2.2.2.2.2.1, lists_eq.2.2.2.2.2.2]
    unfold Path.versionBip
    have h0 : ∀ b, ((Generated.versionsMain ++ Generated.versionsTest).any fun e => decide (e.2.1 = b ∧ e.2.2 = v)) = true ↔
        v ∈ ((Generated.versionsMain ++ Generated.versionsTest).filter fun e => e.2.1 = b).map (·.2.2) := by
      intro b
      simp only [List.any_eq_true, decide_eq_true_eq, List.mem_map, List.mem_filter]
      constructor
      · rintro ⟨e, he, h1, h2⟩; exact ⟨e, ⟨he, by simpa using h1⟩, h2⟩
      · rintro ⟨e, ⟨he, h1⟩, h2⟩; exact ⟨e, he, by simpa using h1, h2⟩
    have m0 : (Extra.bip44Data.map (·.2)) = [76066276, 76067358, 70615956, 70617039] := by decide
    have m1 : (Extra.bip49Data.map (·.2)) = [77428856, 77429938, 71978536, 71979618] := by decide
    have m2 : (Extra.bip84Data.map (·.2)) = [78791436, 78792518, 73341116, 73342198] := by decide
    have f0 : (((Generated.versionsMain ++ Generated.versionsTest).filter fun e => e.2.1 = 0).map (·.2.2)) = [76067358, 76066276, 70617039, 70615956] := by decide
    have f1 : (((Generated.versionsMain ++ Generated.versionsTest).filter fun e => e.2.1 = 1).map (·.2.2)) = [77429938, 77428856, 71979618, 71978536] := by decide
    have f2 : (((Generated.versionsMain ++ Generated.versionsTest).filter fun e => e.2.1 = 2).map (·.2.2)) = [78792518, 78791436, 73342198, 73341116] := by decide
    simp only [Option.pure_def, Option.bind_eq_bind, Option.bind_some, m0, m1, m2]
    have hb : ∀ b, (((Generated.versionsMain ++ Generated.versionsTest).any fun e => decide (e.2.1 = b ∧ e.2.2 = v)) = true) =
        (v ∈ ((Generated.versionsMain ++ Generated.versionsTest).filter fun e => e.2.1 = b).map (·.2.2)) := fun b => propext (h0 b)
    simp only [hb, f0, f1, f2, List.mem_cons, List.not_mem_nil, or_false]
    by_cases c0 : v = 76066276 ∨ v = 76067358 ∨ v = 70615956 ∨ v = 70617039
    · have c0' : v = 76067358 ∨ v = 76066276 ∨ v = 70617039 ∨ v = 70615956 := by omega
      simp [c0, c0']
    · have c0' : ¬ (v = 76067358 ∨ v = 76066276 ∨ v = 70617039 ∨ v = 70615956) := by omega
      by_cases c1 : v = 77428856 ∨ v = 77429938 ∨ v = 71978536 ∨ v = 71979618
      · have c1' : v = 77429938 ∨ v = 77428856 ∨ v = 71979618 ∨ v = 71978536 := by omega
        simp [c0, c0', c1, c1']
      · have c1' : ¬ (v = 77429938 ∨ v = 77428856 ∨ v = 71979618 ∨ v = 71978536) := by omega
        by_cases c2 : v = 78791436 ∨ v = 78792518 ∨ v = 73341116 ∨ v = 73342198
        · have c2' : v = 78792518 ∨ v = 78791436 ∨ v = 73342198 ∨ v = 73341116 := by omega
          simp [c0, c0', c1, c1', c2, c2']
        · have c2' : ¬ (v = 78792518 ∨ v = 78791436 ∨ v = 73342198 ∨ v = 73341116) := by omega
          simp [c0, c0', c1, c1', c2, c2']
  refine ⟨hvalid, hbip, ?_⟩
  unfold CodeObj4.v_parse Path.Version.parse
  rw [hvalid, hbip, lists_eq.2.1, lists_eq.2.2.1]
  cases hv : Path.validVersion v
  · simp
  · simp only [not_true_eq_false, ↓reduceIte, Option.pure_def, Option.bind_eq_bind, Option.bind_some]
    have hp : Extra.prvVersions = ((Generated.versionsTest ++ Generated.versionsMain).filter (fun e => e.1 = 0)).map (·.2.2) := by
      decide
    have hiff : (decide (v ∈ Extra.prvVersions) = true) =
        (((Generated.versionsTest ++ Generated.versionsMain).any fun e => decide (e.1 = 0 ∧ e.2.2 = v)) = true) := by
      rw [hp]
      apply propext
      simp only [decide_eq_true_eq, List.any_eq_true, List.mem_map, List.mem_filter]
      constructor
      · rintro ⟨e, ⟨he, h1⟩, h2⟩; exact ⟨e, he, by simpa using h1, h2⟩
      · rintro ⟨e, he, h1, h2⟩; exact ⟨e, ⟨he, by simpa using h1⟩, h2⟩
    simp only [hiff]
    rfl


/-- the remaining `Bip32Path` methods: mark, predicates, `bip()`, `__eq__` -/
theorem path_methods_eq (p q : Path.Path) :
    CodeObj4.p_m p = Extra.pathMark p ∧ CodeObj4.p_bitcoin_testnet p = Extra.bitcoinTestnet p ∧
    CodeObj4.p_bitcoin_mainnet p = Extra.bitcoinMainnet p ∧ CodeObj4.p_external_chain p = Extra.externalChain p ∧
    CodeObj4.p_bip44 p = Extra.bip44 p ∧ CodeObj4.p_bip49 p = Extra.bip49 p ∧ CodeObj4.p_bip84 p = Extra.bip84 p ∧
    CodeObj4.p_bip p = Extra.pathBip p ∧ CodeObj4.p_eq p q = Extra.pathEq p q := by
  have hm : ∀ r, CodeObj4.p_m r = Extra.pathMark r := by
    intro r; unfold CodeObj4.p_m Extra.pathMark; cases r.priv <;> rfl
  have hd : ∀ (o : Option Nat) (n : Nat), decide (o = some n) = (o == some n) := by
    intro o n
    cases o with
    | none => rfl
    | some x => by_cases hx : x = n <;> simp [hx]
  have b44 : CodeObj4.p_bip44 p = Extra.bip44 p := by
    unfold CodeObj4.p_bip44 Extra.bip44; exact hd _ _
  have b49 : CodeObj4.p_bip49 p = Extra.bip49 p := by
    unfold CodeObj4.p_bip49 Extra.bip49; exact hd _ _
  have b84 : CodeObj4.p_bip84 p = Extra.bip84 p := by
    unfold CodeObj4.p_bip84 Extra.bip84; exact hd _ _
  refine ⟨hm p, ?_, ?_, ?_, b44, b49, b84, ?_, ?_⟩
  · unfold CodeObj4.p_bitcoin_testnet Extra.bitcoinTestnet; exact hd _ _
  · unfold CodeObj4.p_bitcoin_mainnet Extra.bitcoinMainnet; exact hd _ _
  · unfold CodeObj4.p_external_chain Extra.externalChain; exact hd _ _
  · unfold CodeObj4.p_bip Extra.pathBip; rw [b44, b49, b84]
  · unfold CodeObj4.p_eq Extra.pathEq
    rw [hm p, hm q]
    simp only [Bool.decide_and, Bool.and_assoc]
    congr 1
    · exact (beq_eq_decide _ _).symm
    · congr 1
      · exact (beq_eq_decide _ _).symm
      · congr 1
        · exact (beq_eq_decide _ _).symm
        · congr 1
          · exact (beq_eq_decide _ _).symm
          · congr 1
            · exact (beq_eq_decide _ _).symm
            · exact (beq_eq_decide _ _).symm

/-- `to_list()` returns the levels and `__repr__` is the model's `format`, for every path of at most five levels (what
`Bip32Path` objects are: five slots) -/
theorem repr_eq (p : Path.Path) (h : p.levels.length ≤ 5) :
    CodeObj4.p_to_list p = p.levels ∧ CodeObj4.p_repr p = Path.format p := by
  have hl : CodeObj4.p_to_list p = p.levels := by
    unfold CodeObj4.p_to_list CodeObj4.p__to_list Extra.purpose Extra.coinType Extra.account Extra.chain Extra.addrIndex
    obtain ⟨ls, pv⟩ := p
    match ls, h with
    | [], _ => rfl
    | [a], _ => rfl
    | [a, b], _ => rfl
    | [a, b, c], _ => rfl
    | [a, b, c, d], _ => rfl
    | [a, b, c, d, e], _ => rfl
    | _ :: _ :: _ :: _ :: _ :: _ :: _, h => simp at h
  refine ⟨hl, ?_⟩
  unfold CodeObj4.p_repr Path.format
  rw [hl]
  have hr : CodeObj4.p_repr_hardened = Path.reprHardened := by
    funext n
    unfold CodeObj4.p_repr_hardened Path.reprHardened
    rw [isHardened_eq]
    by_cases hn : 2 ^ 31 ≤ n
    · have : n ≥ 2 ^ 31 := hn
      simp [hn, this]
    · have : ¬ n ≥ 2 ^ 31 := hn
      simp [hn, this]
  rw [hr]
  have h1 : CodeObj4.p_m p = (if p.priv then ['m'] else ['M']) := by
    unfold CodeObj4.p_m; cases p.priv <;> rfl
  rw [h1]
  rfl

end BtcHd.TrVersion
