/-
C04 — Mnemonic sentences encode entropy losslessly.

Property theorems only (helper lemmas are in `Lemmas/Bip39.lean`, `Lemmas/Bip39Words.lean`,
`Lemmas/Bip39Text.lean`).  The model (`Model/Bip39.lean`) mirrors `bip39.py` including the
`bin()` / `zfill` / 11-character-chunk / `int(·, 2)` route; the word list is the one extracted
from the source on every run (`Generated.wordNums`) and is compared here with a frozen copy of
the official list (`Official/Wordlist.lean`).  SHA-256 is a parameter `sha256`; only its output
length (32 bytes) is used.
-/
import BtcHd.Lemmas.Bip39
import BtcHd.Lemmas.Bip39Words
import BtcHd.Lemmas.Bip39Text

namespace BtcHd.C04
open BtcHd Bip39

/-! ### sizes -/

/-- the accepted entropy sizes in the source are exactly 128, 160, 192, 224 and 256 bits -/
theorem correctEntropyBits_eq : Generated.correctEntropyBits = [128, 160, 192, 224, 256] := by
  decide

/-- the sentence lengths computed by `mnemonic_sentence_length` for the accepted sizes are
12, 15, 18, 21, 24 (and this is the table `CORRECT_MNEMONIC_LENGTH` of the source) -/
theorem sentence_lengths :
    Generated.correctEntropyBits.map sentenceLength = [12, 15, 18, 21, 24] ∧
    Generated.correctMnemonicLength = [12, 15, 18, 21, 24] := by decide

/-! ### hex -/

/-- `bytes.fromhex(bs.hex()) == bs` -/
theorem fromHex_toHex (bs : Bytes) : fromHex (toHex bs) = some bs := Bip39.fromHex_toHex bs

/-! ### entropy → indexes -/

/-- for every hex text (any case, embedded whitespace) that decodes to 16/20/24/28/32 bytes,
`mnemonic_from_entropy` computes 12/15/18/21/24 indexes below 2048 whose 11-bit
representations, concatenated, are exactly the entropy bits followed by the first ENT/32 bits
of its SHA-256 -/
theorem indexes_spec_hex (sha256 : Bytes → Bytes) (hsha : ∀ x, (sha256 x).length = 32)
    (t : List Char) (eb : Bytes) (ht : fromHex t = some eb)
    (hbits : eb.length * 8 ∈ Generated.correctEntropyBits) :
    ∃ idx, indexesFromEntropy sha256 t = some idx ∧
      idx.length = eb.length * 3 / 4 ∧
      idx.length = sentenceLength (eb.length * 8) ∧
      (∀ i ∈ idx, i < 2048) ∧
      idx.flatMap (bitsBE 11) =
        bytesBits eb ++ (bytesBits (sha256 eb)).take (eb.length / 4) := by
  obtain ⟨idx, h1, h2, h3, h4⟩ := indexes_spec_aux sha256 hsha t eb ht hbits
  refine ⟨idx, h1, h2, ?_, h3, h4⟩
  have hL := mem_correctEntropyBits.mp hbits
  rw [h2]; unfold sentenceLength checksumLength; omega

example : ∃ (sha256 : Bytes → Bytes) (t : List Char) (eb : Bytes),
    (∀ x, (sha256 x).length = 32) ∧ fromHex t = some eb ∧
      eb.length * 8 ∈ Generated.correctEntropyBits :=
  ⟨fun _ => List.replicate 32 0, " 00Ff".toList ++ List.replicate 28 'a',
    [0, 255] ++ List.replicate 14 170, fun _ => rfl, by decide +kernel, by decide⟩

/-- the same for the canonical lower-case hex of a byte string (the route taken by
`mnemonic_from_entropy_bits`); covers leading-zero and all-zero entropy -/
theorem indexes_spec (sha256 : Bytes → Bytes) (hsha : ∀ x, (sha256 x).length = 32)
    (eb : Bytes) (hbits : eb.length * 8 ∈ Generated.correctEntropyBits) :
    ∃ idx, indexesFromEntropy sha256 (toHex eb) = some idx ∧
      idx.length = eb.length * 3 / 4 ∧
      idx.length = sentenceLength (eb.length * 8) ∧
      (∀ i ∈ idx, i < 2048) ∧
      idx.flatMap (bitsBE 11) =
        bytesBits eb ++ (bytesBits (sha256 eb)).take (eb.length / 4) :=
  indexes_spec_hex sha256 hsha (toHex eb) eb (Bip39.fromHex_toHex eb) hbits

/-- the 11-bit decomposition determines the indexes: two lists of numbers below 2048 with the
same concatenated 11-bit representations are equal -/
theorem indexes_determined (xs ys : List Nat) (hx : ∀ i ∈ xs, i < 2048) (hy : ∀ i ∈ ys, i < 2048)
    (h : xs.flatMap (bitsBE 11) = ys.flatMap (bitsBE 11)) : xs = ys := by
  induction xs generalizing ys with
  | nil =>
    cases ys with
    | nil => rfl
    | cons y ys => have := congrArg List.length h; simp at this <;> omega
  | cons x xs ih =>
    cases ys with
    | nil => have := congrArg List.length h; simp at this <;> omega
    | cons y ys =>
      rw [List.flatMap_cons, List.flatMap_cons] at h
      obtain ⟨h1, h2⟩ := List.append_inj h (by simp)
      rw [bitsBE_inj (hx x (List.mem_cons_self ..)) (hy y (List.mem_cons_self ..)) h1,
        ih ys (fun i hi => hx i (List.mem_cons_of_mem _ hi))
          (fun i hi => hy i (List.mem_cons_of_mem _ hi)) h2]

/-! ### rejection -/

/-- entropy of any other size is rejected: no indexes, no words, no sentence -/
theorem rejects_wrong_size (sha256 : Bytes → Bytes) (t : List Char) (eb : Bytes)
    (ht : fromHex t = some eb) (hbits : eb.length * 8 ∉ Generated.correctEntropyBits) :
    indexesFromEntropy sha256 t = none ∧ wordsFromEntropy sha256 t = none ∧
      mnemonicFromEntropy sha256 t = none := by
  have h := indexes_none_of_size sha256 t eb ht hbits
  simp [mnemonicFromEntropy, wordsFromEntropy, h]

example : fromHex "00112233445566778899aabbccddee".toList = some
    [0, 17, 34, 51, 68, 85, 102, 119, 136, 153, 170, 187, 204, 221, 238] ∧
    15 * 8 ∉ Generated.correctEntropyBits := by decide +kernel

/-- text that is not valid hex is rejected -/
theorem rejects_bad_hex (sha256 : Bytes → Bytes) (t : List Char) (ht : fromHex t = none) :
    indexesFromEntropy sha256 t = none ∧ mnemonicFromEntropy sha256 t = none := by
  have h := indexes_none_of_hex sha256 t ht
  simp [mnemonicFromEntropy, wordsFromEntropy, h]

example : fromHex "0g".toList = none ∧ fromHex "012".toList = none := by decide +kernel

/-! ### the word list -/

/-- the list embedded in the source is, entry by entry and in order, the frozen official list -/
theorem wordlist_official : Generated.wordNums = Official.wordNums := generated_eq_official

/-- the number form of the frozen list spells the text form `Official.words` (the 2048 words of
`english.txt`) -/
theorem official_text : Official.wordNums.map wordChars = Official.words.map String.toList := by
  rw [official_map_wordChars]; exact official_text_fuel

/-- 2048 words -/
theorem wordlist_length : Official.wordNums.length = 2048 ∧ Official.words.length = 2048 := by
  refine ⟨official_length, ?_⟩
  have := congrArg List.length official_text
  simpa [official_length] using this.symm

/-- every word has at least 3 and at most 8 letters, all of them in `a`..`z` -/
theorem wordlist_letters : ∀ w ∈ Official.wordNums,
    3 ≤ (wordChars w).length ∧ (wordChars w).length ≤ 8 ∧
      ∀ c ∈ wordChars w, 'a' ≤ c ∧ c ≤ 'z' := by
  intro w hw
  refine ⟨official_word_length hw, ?_, official_letters hw⟩
  rw [official_wordChars hw]
  exact wordCharsF_length_le 8 w

/-- the words are strictly increasing as strings (lexicographic by code point, as Python
compares `str`): the official, sorted order -/
theorem wordlist_sorted : (Official.wordNums.map wordChars).Pairwise (· < ·) := official_sorted

/-- no word occurs twice -/
theorem wordlist_nodup : (Official.wordNums.map wordChars).Nodup ∧ Official.wordNums.Nodup := by
  have h : (Official.wordNums.map wordChars).Nodup := by
    unfold List.Nodup
    exact official_sorted.imp (fun {a b} hab heq => by subst heq; exact List.lt_irrefl _ hab)
  refine ⟨h, ?_⟩
  unfold List.Nodup at h ⊢
  exact List.Pairwise.of_map wordChars (fun a b hab heq => hab (congrArg wordChars heq)) h

/-- different indexes give different words, so the words determine the indexes -/
theorem wordAt_injective {i j : Nat} (hi : i < 2048) (hj : j < 2048)
    (h : wordAt i = wordAt j) : i = j := by
  rw [wordAt_of_lt hi, wordAt_of_lt hj, Option.some.injEq] at h
  exact wordChars_getElem_inj _ _ (congrArg wordChars h)

/-- the lookup succeeds exactly for indexes below 2048 and returns the official word -/
theorem wordAt_spec (i : Nat) :
    (i < 2048 → ∃ w, wordAt i = some w ∧ Official.wordNums[i]? = some w ∧
      (Official.words[i]?).map String.toList = some (wordChars w)) ∧
    (2048 ≤ i → wordAt i = none) := by
  refine ⟨fun hi => ?_, wordAt_none_of_ge⟩
  have hi' : i < Official.wordNums.length := by rw [official_length]; exact hi
  refine ⟨Official.wordNums[i], wordAt_of_lt hi, List.getElem?_eq_getElem hi', ?_⟩
  have := congrArg (·[i]?) official_text
  simp only [List.getElem?_map, List.getElem?_eq_getElem hi', Option.map_some] at this
  exact this.symm

/-! ### indexes → words → sentence -/

/-- every word of the mnemonic is the official list entry at its index -/
theorem words_spec (sha256 : Bytes → Bytes) (hsha : ∀ x, (sha256 x).length = 32)
    (t : List Char) (eb : Bytes) (ht : fromHex t = some eb)
    (hbits : eb.length * 8 ∈ Generated.correctEntropyBits) :
    ∃ idx ws, indexesFromEntropy sha256 t = some idx ∧ wordsFromEntropy sha256 t = some ws ∧
      ws = idx.map (fun i => Official.wordNums[i]!) ∧
      ws.map some = idx.map (fun i => Official.wordNums[i]?) := by
  obtain ⟨idx, h1, _, _, h3, _⟩ := indexes_spec_hex sha256 hsha t eb ht hbits
  refine ⟨idx, _, h1, ?_, rfl, ?_⟩
  · simp only [wordsFromEntropy, h1, Option.bind_some]
    exact mapM_wordAt idx h3
  · rw [List.map_map]
    apply List.map_congr_left
    intro i hi
    have : i < Official.wordNums.length := by rw [official_length]; exact h3 i hi
    simp [this]

/-- splitting the sentence at spaces gives back the words (no word contains a space) -/
theorem sentence_words (ws : List Nat) (hne : ws ≠ []) (h : ∀ w ∈ ws, ' ' ∉ wordChars w) :
    Text.splitOn ' ' (sentence ws) = ws.map wordChars := by
  cases ws with
  | nil => exact absurd rfl hne
  | cons w ws =>
    unfold sentence
    rw [List.map_cons]
    apply splitOn_join
    intro x hx
    rw [← List.map_cons, List.mem_map] at hx
    obtain ⟨v, hv, rfl⟩ := hx
    exact h v hv

/-- no official word contains a space -/
theorem wordlist_no_space : ∀ w ∈ Official.wordNums, ' ' ∉ wordChars w :=
  fun _ h => official_no_space h

example : Official.wordNums ≠ [] ∧ ∀ w ∈ Official.wordNums, ' ' ∉ wordChars w := by
  refine ⟨fun e => ?_, wordlist_no_space⟩
  have := congrArg List.length e
  rw [official_length] at this
  simp at this

private theorem numAt {i : Nat} (h : i < 2048) :
    ∃ hi : i < Official.wordNums.length, Official.wordNums[i]! = Official.wordNums[i] := by
  have hi : i < Official.wordNums.length := by rw [official_length]; exact h
  exact ⟨hi, getElem!_pos Official.wordNums i hi⟩

private theorem textAt {i : Nat} (h : i < 2048) :
    (Official.words[i]!).toList = wordChars (Official.wordNums[i]!) := by
  obtain ⟨hi, e⟩ := numAt h
  have hi2 : i < Official.words.length := by rw [wordlist_length.2]; exact h
  rw [e, getElem!_pos Official.words i hi2]
  have := congrArg (·[i]?) official_text
  simp only [List.getElem?_map, List.getElem?_eq_getElem hi, List.getElem?_eq_getElem hi2,
    Option.map_some, Option.some.injEq] at this
  exact this.symm

private theorem idx_eq_of_text (xs ys : List Nat) (hx : ∀ i ∈ xs, i < 2048)
    (hy : ∀ i ∈ ys, i < 2048)
    (h : xs.map (fun i => (Official.words[i]!).toList)
      = ys.map (fun i => (Official.words[i]!).toList)) : xs = ys := by
  induction xs generalizing ys with
  | nil =>
    cases ys with
    | nil => rfl
    | cons y ys => simp at h
  | cons x xs ih =>
    cases ys with
    | nil => simp at h
    | cons y ys =>
      rw [List.map_cons, List.map_cons, List.cons.injEq] at h
      have hx' : x < 2048 := hx x (List.mem_cons_self ..)
      have hy' : y < 2048 := hy y (List.mem_cons_self ..)
      obtain ⟨hx1, ex⟩ := numAt hx'
      obtain ⟨hy1, ey⟩ := numAt hy'
      have h1 := h.1
      rw [textAt hx', textAt hy', ex, ey] at h1
      rw [wordChars_getElem_inj hx1 hy1 h1,
        ih ys (fun i hi => hx i (List.mem_cons_of_mem _ hi))
          (fun i hi => hy i (List.mem_cons_of_mem _ hi)) h.2]

/-- the whole route: the sentence produced for valid entropy, split at spaces, is the list of
official words (as text) at the computed indexes -/
theorem mnemonic_spec (sha256 : Bytes → Bytes) (hsha : ∀ x, (sha256 x).length = 32)
    (t : List Char) (eb : Bytes) (ht : fromHex t = some eb)
    (hbits : eb.length * 8 ∈ Generated.correctEntropyBits) :
    ∃ idx s, indexesFromEntropy sha256 t = some idx ∧ mnemonicFromEntropy sha256 t = some s ∧
      (Text.splitOn ' ' s).length = eb.length * 3 / 4 ∧
      Text.splitOn ' ' s = idx.map (fun i => (Official.words[i]!).toList) := by
  obtain ⟨idx, h1, h2, _, h3, _⟩ := indexes_spec_hex sha256 hsha t eb ht hbits
  obtain ⟨idx', ws, h1', hw, rfl, _⟩ := words_spec sha256 hsha t eb ht hbits
  rw [h1] at h1'
  obtain rfl : idx = idx' := Option.some.inj h1'
  have hL := mem_correctEntropyBits.mp hbits
  have hmem : ∀ i ∈ idx, Official.wordNums[i]! ∈ Official.wordNums := by
    intro i hi
    obtain ⟨hi', e⟩ := numAt (h3 i hi)
    rw [e]; exact List.getElem_mem _
  have hsplit : Text.splitOn ' ' (sentence (idx.map (fun i => Official.wordNums[i]!)))
      = idx.map (fun i => (Official.words[i]!).toList) := by
    rw [sentence_words _ (by
        intro e
        have := congrArg List.length e
        simp only [List.length_map, List.length_nil] at this
        omega) (by
        intro w hw
        obtain ⟨i, hi, rfl⟩ := List.mem_map.mp hw
        exact official_no_space (hmem i hi)),
      List.map_map]
    apply List.map_congr_left
    intro i hi
    simp only [Function.comp_apply, textAt (h3 i hi)]
  refine ⟨idx, _, h1, by simp only [mnemonicFromEntropy, hw, Option.map_some], ?_, hsplit⟩
  rw [hsplit, List.length_map, h2]

/- all-zero 128-bit entropy (`bin(0) = "0"`, 128 leading zero bits), with a stub hash whose
first byte `0x37` is that of the true SHA-256 of sixteen zero bytes: the famous
"abandon × 11, about" -/
example : indexesFromEntropy (fun _ => 0x37 :: List.replicate 31 0) (List.replicate 32 '0')
    = some (List.replicate 11 0 ++ [3]) := by decide +kernel

example : (mnemonicFromEntropy (fun _ => 0x37 :: List.replicate 31 0)
      (List.replicate 32 '0')).map (Text.splitOn ' ')
    = some ((List.replicate 11 "abandon" ++ ["about"]).map String.toList) := by decide +kernel

/-- a sentence is produced exactly for hex text of an accepted size -/
theorem mnemonic_isSome_iff (sha256 : Bytes → Bytes) (hsha : ∀ x, (sha256 x).length = 32)
    (t : List Char) :
    (mnemonicFromEntropy sha256 t).isSome ↔
      ∃ eb, fromHex t = some eb ∧ eb.length * 8 ∈ Generated.correctEntropyBits := by
  constructor
  · intro h
    cases ht : fromHex t with
    | none => rw [(rejects_bad_hex sha256 t ht).2] at h; simp at h
    | some eb =>
      refine ⟨eb, rfl, ?_⟩
      apply Classical.byContradiction
      intro hb
      rw [(rejects_wrong_size sha256 t eb ht hb).2.2] at h; simp at h
  · rintro ⟨eb, ht, hb⟩
    obtain ⟨_, s, _, hs, _⟩ := mnemonic_spec sha256 hsha t eb ht hb
    rw [hs]; rfl

/-- **lossless**: two valid entropies with the same sentence are the same byte string -/
theorem mnemonic_lossless (sha256 : Bytes → Bytes) (hsha : ∀ x, (sha256 x).length = 32)
    (t₁ t₂ : List Char) (e₁ e₂ : Bytes) (ht₁ : fromHex t₁ = some e₁) (ht₂ : fromHex t₂ = some e₂)
    (hb₁ : e₁.length * 8 ∈ Generated.correctEntropyBits)
    (hb₂ : e₂.length * 8 ∈ Generated.correctEntropyBits)
    (h : mnemonicFromEntropy sha256 t₁ = mnemonicFromEntropy sha256 t₂) : e₁ = e₂ := by
  obtain ⟨idx₁, a1, a2, _, a3, a4⟩ := indexes_spec_hex sha256 hsha t₁ e₁ ht₁ hb₁
  obtain ⟨idx₂, b1, b2, _, b3, b4⟩ := indexes_spec_hex sha256 hsha t₂ e₂ ht₂ hb₂
  obtain ⟨i₁, s₁, c1, c2, _, c3⟩ := mnemonic_spec sha256 hsha t₁ e₁ ht₁ hb₁
  obtain ⟨i₂, s₂, d1, d2, _, d3⟩ := mnemonic_spec sha256 hsha t₂ e₂ ht₂ hb₂
  rw [a1] at c1; rw [b1] at d1
  obtain rfl : idx₁ = i₁ := Option.some.inj c1
  obtain rfl : idx₂ = i₂ := Option.some.inj d1
  rw [c2, d2, Option.some.injEq] at h
  subst h
  rw [c3] at d3
  have hidx : idx₁ = idx₂ := idx_eq_of_text idx₁ idx₂ a3 b3 d3
  subst hidx
  have hL₁ := mem_correctEntropyBits.mp hb₁
  have hL₂ := mem_correctEntropyBits.mp hb₂
  have hlen : e₁.length = e₂.length := by omega
  rw [a4] at b4
  exact bytesBits_inj (List.append_inj b4 (by simp [hlen])).1

end BtcHd.C04
