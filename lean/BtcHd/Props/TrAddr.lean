/-
Translated Python (`BtcHd.Code`, generated from /repo by harness/translate.py) = hand-written model:
`helper.py` `h160_to_p2pkh_address`, `h160_to_p2sh_address`, `h160_to_p2wpkh_address`, `h256_to_p2wsh_address`,
`keys.py` `PrivateKey.wif`, `script.py` `p2pkh_script`, `p2sh_script`, `p2wpkh_script`, `p2wsh_script` — the
encoding layer of C05 and the WIF payload of C09 (double SHA-256 a parameter on both sides).
-/
import BtcHd.Props.TrBase58
import BtcHd.Props.TrBech32
import BtcHd.Model.Wallet

namespace BtcHd.Translated
open BtcHd

variable {Pt : Type}

/-- The translated `h160_to_p2pkh_address` is the model's `p2pkhOfH160` (prefix bytes as extracted from the source). -/
theorem p2pkh_eq (P : Prims Pt) (h160 : Bytes) (t : Bool) :
    Code.h160_to_p2pkh_address P.hash256 h160 t = Wallet.p2pkhOfH160 P h160 t := by
  unfold Code.h160_to_p2pkh_address Wallet.p2pkhOfH160
  simp only [Id.run_pure, encode_base58_checksum_eq]
  cases t <;> rfl

/-- The translated `h160_to_p2sh_address` is the model's `p2shOfH160`. -/
theorem p2sh_eq (P : Prims Pt) (h160 : Bytes) (t : Bool) :
    Code.h160_to_p2sh_address P.hash256 h160 t = Wallet.p2shOfH160 P h160 t := by
  unfold Code.h160_to_p2sh_address Wallet.p2shOfH160
  simp only [Id.run_pure, encode_base58_checksum_eq]
  cases t <;> rfl

/-- The translated `h160_to_p2wpkh_address` is the Bech32 `encode` under the network's prefix. -/
theorem p2wpkh_eq (h160 : Bytes) (t : Bool) (wv : Nat) :
    Code.h160_to_p2wpkh_address h160 t wv =
      Bech32.encode (if t then Generated.hrpTest else Generated.hrpMain) wv h160 := by
  unfold Code.h160_to_p2wpkh_address
  simp only [encode_eq]
  cases t <;> rfl

/-- The translated `PrivateKey.wif` (on the 32 secret bytes) is the model's `Keys.wif`. -/
theorem wif_eq (P : Prims Pt) (k : Nat) (c t : Bool) :
    Code.private_key_wif P.hash256 (Keys.privBytes k) c t = Keys.wif P k c t := by
  unfold Code.private_key_wif Keys.wif
  simp only [Id.run_pure, encode_base58_checksum_eq]
  cases c <;> cases t <;> rfl

/-- The four translated script builders are the model's templates. -/
theorem scripts_eq (h : Bytes) :
    Code.p2pkh_script h = Script.p2pkhScript h ∧ Code.p2sh_script h = Script.p2shScript h ∧
      Code.p2wpkh_script h = Script.p2wpkhScript h ∧ Code.p2wsh_script h = Script.p2wshScript h :=
  ⟨rfl, rfl, rfl, rfl⟩

/-- The translated `h256_to_p2wsh_address`, likewise. -/
theorem p2wsh_eq (h256 : Bytes) (t : Bool) (wv : Nat) :
    Code.h256_to_p2wsh_address h256 t wv =
      Bech32.encode (if t then Generated.hrpTest else Generated.hrpMain) wv h256 := by
  unfold Code.h256_to_p2wsh_address
  simp only [encode_eq]
  cases t <;> rfl

end BtcHd.Translated
