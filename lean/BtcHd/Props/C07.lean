/-
C07 — Extended keys round-trip through serialisation.

"Serialising any node (depth 0-255, any child number, parent fingerprint, chain code and
key) under any of the twelve x/y/z/t/u/v pub/prv version prefixes and parsing the result
back from a string, bytes or a stream yields an equal node that re-serialises to the
identical 111-character string; the version prefix alone determines key type, network and
BIP flavour, and a wallet cannot be built from an unknown version.  A serialised extended
public key contains only the compressed public key and never the private scalar, and a
master key is serialised with zero depth, fingerprint and child number."

Property theorems only.  Definitions (`Node.WF`, `BIP32valid`, `neuter`, `layout`) and
helper lemmas are in `Lemmas/XKey.lean`, the numeric Base58 facts in
`Lemmas/Base58Bounds.lean`, the curve hypotheses in `Lemmas/CurveLaws.lean`.
The model functions are those of `Model/Bip32.lean` (`_serialize`, `_parse`, `parse`,
`__eq__`, …), `Model/Path.lean` (`Version`) and `Model/Wallet.lean` (`from_extended_key`).
Parsing from `bytes` and from a `BytesIO` stream is the same model function `parseBytes`;
parsing from a `str` is `parseStr`.
-/
import BtcHd.Lemmas.XKey
import BtcHd.Lemmas.Base58Bounds
import BtcHd.Lemmas.ToyNodes
import BtcHd.Props.C10
import BtcHd.Model.Wallet

namespace BtcHd.C07
open BtcHd Bip32 XKey Keys BeFixed Path

variable {Pt : Type}

/-! ### 1. fixed-width big-endian integers -/

/-- `n.to_bytes(len, 'big')` has `len` bytes -/
theorem beFixed_length (len n : Nat) : (beFixed len n).length = len :=
  BeFixed.beFixed_length len n

/-- `int.from_bytes(n.to_bytes(len))` is `n` when `n` fits in `len` bytes -/
theorem beToNat_beFixed {len n : Nat} (h : n < 256 ^ len) : beToNat (beFixed len n) = n :=
  BeFixed.beToNat_beFixed h

/-- `int.from_bytes(bs).to_bytes(len(bs))` is `bs` -/
theorem beFixed_beToNat {len : Nat} {bs : Bytes} (h : bs.length = len) :
    beFixed len (beToNat bs) = bs :=
  BeFixed.beFixed_beToNat h

/-! ### 2. serialisation succeeds and has 78 bytes -/

/-- a well-formed private node serialises (any version below 2^32, or the default) to 78 bytes -/
theorem serialize_length_private {P : Prims Pt} {nd : Node} (hC : CurveLaws P.curve)
    (hwf : nd.WF P) (hprv : nd.isPrv = true) (version : Option Nat)
    (hv : version.getD (prvVersion nd) < 2 ^ 32) :
    ∃ ser, serializePrivate P nd version = some ser ∧ ser.length = 78 := by
  obtain ⟨k, _, _, _, _, hs⟩ := serializePrivate_eq hC hwf hprv version hv
  exact ⟨_, hs, layout_length _ hwf.chain_len hwf.fp_len (by simp [BeFixed.beFixed_length])⟩

/-- every well-formed node (private or public) serialises its public form to 78 bytes -/
theorem serialize_length_public {P : Prims Pt} {nd : Node} (hC : CurveLaws P.curve)
    (hwf : nd.WF P) (version : Option Nat) (hv : version.getD (pubVersion nd) < 2 ^ 32) :
    ∃ ser, serializePublic P nd version = some ser ∧ ser.length = 78 := by
  obtain ⟨K, hK, hl, hKinf, _, _⟩ := pubKey_wf hC hwf
  exact ⟨_, serializePublic_eq hK hwf.depth_lt hwf.index_lt version hv,
    layout_length _ hwf.chain_len hwf.fp_len hl⟩

/-- the default versions always fit in four bytes, so `version = None` never overflows -/
theorem default_version_fits (nd : Node) : prvVersion nd < 2 ^ 32 ∧ pubVersion nd < 2 ^ 32 :=
  ⟨prvVersion_lt nd, pubVersion_lt nd⟩

/-! ### 3. parse ∘ serialise, and serialise ∘ parse ∘ serialise -/

/-- **private round trip (bytes / stream)**: parsing the serialisation of a well-formed,
BIP32-valid private node gives a node equal (`__eq__`) to the original, carrying the version
that was written -/
theorem parse_serialize_prv {P : Prims Pt} {nd : Node} (hC : CurveLaws P.curve)
    (hwf : nd.WF P) (hvalid : BIP32valid nd) (version : Option Nat) (ser : Bytes)
    (hs : serializePrivate P nd version = some ser) :
    nodeEq (parseBytes true nd.testnet ser) nd = true ∧
      (parseBytes true nd.testnet ser).parsedVersion = some (version.getD (prvVersion nd)) := by
  obtain ⟨hprv, hv⟩ := serializePrivate_some hs
  obtain ⟨k, h1, h2, hkey, _, he⟩ := serializePrivate_eq hC hwf hprv version hv
  rw [he] at hs
  cases hs
  have hk256 : k < 256 ^ 32 := by
    have := hC.n_lt
    have : (256 : Nat) ^ 32 = 2 ^ 256 := by norm_num
    omega
  rw [parseBytes_layout' true nd.testnet hwf.chain_len hwf.fp_len hwf.depth_lt hwf.index_lt
    (by simp [BeFixed.beFixed_length]) hv]
  refine ⟨?_, rfl⟩
  have := nodeEq_parsedOf (nd := nd) (key := 0 :: beFixed 32 k) (version.getD (prvVersion nd))
    hwf.fp_len hvalid (by rw [beToNat_zero_cons, BeFixed.beToNat_beFixed hk256, hkey])
  rwa [hprv] at this

/-- **private re-serialisation**: serialising the parsed node again under the same version
argument reproduces the identical 78 bytes; the parsed node is again well-formed and valid -/
theorem reserialize_prv {P : Prims Pt} {nd : Node} (hC : CurveLaws P.curve)
    (hwf : nd.WF P) (hvalid : BIP32valid nd) (version : Option Nat) (ser : Bytes)
    (hs : serializePrivate P nd version = some ser) :
    serializePrivate P (parseBytes true nd.testnet ser) version = some ser ∧
      (parseBytes true nd.testnet ser).WF P ∧ BIP32valid (parseBytes true nd.testnet ser) := by
  obtain ⟨hprv, hv⟩ := serializePrivate_some hs
  obtain ⟨k, h1, h2, hkey, _, he⟩ := serializePrivate_eq hC hwf hprv version hv
  rw [he] at hs
  cases hs
  have hk256 : k < 256 ^ 32 := by
    have := hC.n_lt
    have : (256 : Nat) ^ 32 = 2 ^ 256 := by norm_num
    omega
  rw [parseBytes_layout' true nd.testnet hwf.chain_len hwf.fp_len hwf.depth_lt hwf.index_lt
    (by simp [BeFixed.beFixed_length]) hv]
  set v := version.getD (prvVersion nd) with hvdef
  have hwf' := WF_parsedOf_prv nd.testnet v hwf h1 h2
  refine ⟨?_, hwf', BIP32valid_parsedOf _ _ _ _ hwf.fp_len hvalid⟩
  have hv' : version.getD (prvVersion (parsedOf true nd.testnet nd (0 :: beFixed 32 k) v)) = v := rfl
  obtain ⟨k', _, _, hkey', _, he'⟩ := serializePrivate_eq hC hwf' rfl version (by rw [hv']; exact hv)
  have hkk : k' = k := by
    rw [← hkey']
    show beToNat (0 :: beFixed 32 k) = k
    rw [beToNat_zero_cons, BeFixed.beToNat_beFixed hk256]
  rw [he', hv', hkk, layout_parsedOf _ _ _ _ _ _ hwf.fp_len hvalid]

/-- **public round trip (bytes / stream)**: parsing the public serialisation of a well-formed,
BIP32-valid public node gives a node equal to the original, carrying the version written -/
theorem parse_serialize_pub {P : Prims Pt} {nd : Node} (hC : CurveLaws P.curve)
    (hwf : nd.WF P) (hvalid : BIP32valid nd) (hpub : nd.isPrv = false) (version : Option Nat)
    (ser : Bytes) (hs : serializePublic P nd version = some ser) :
    nodeEq (parseBytes false nd.testnet ser) nd = true ∧
      (parseBytes false nd.testnet ser).parsedVersion = some (version.getD (pubVersion nd)) := by
  have hv := serializePublic_some hs
  obtain ⟨K, hK, hl, _, _, hkey⟩ := pubKey_wf hC hwf
  rw [serializePublic_eq hK hwf.depth_lt hwf.index_lt version hv] at hs
  cases hs
  rw [parseBytes_layout' false nd.testnet hwf.chain_len hwf.fp_len hwf.depth_lt hwf.index_lt hl hv]
  refine ⟨?_, rfl⟩
  have := nodeEq_parsedOf (nd := nd) (key := P.curve.sec true K) (version.getD (pubVersion nd))
    hwf.fp_len hvalid (by rw [hkey hpub])
  rwa [hpub] at this

/-- **public form of any node**: parsing the public serialisation of a well-formed, BIP32-valid
node (private or public) gives a node equal to its neutered (public-view) node -/
theorem parse_serialize_pub_neuter {P : Prims Pt} {nd : Node} (hC : CurveLaws P.curve)
    (hwf : nd.WF P) (hvalid : BIP32valid nd) (version : Option Nat)
    (ser : Bytes) (hs : serializePublic P nd version = some ser) :
    ∃ nn, neuter P nd = some nn ∧ nodeEq (parseBytes false nd.testnet ser) nn = true := by
  have hv := serializePublic_some hs
  obtain ⟨K, hK, hl, hKinf, _, _⟩ := pubKey_wf hC hwf
  rw [serializePublic_eq hK hwf.depth_lt hwf.index_lt version hv] at hs
  cases hs
  rw [parseBytes_layout' false nd.testnet hwf.chain_len hwf.fp_len hwf.depth_lt hwf.index_lt hl hv]
  refine ⟨_, by rw [neuter, hK]; rfl, ?_⟩
  exact nodeEq_parsedOf (nd := { nd with isPrv := false, key := P.curve.sec true K })
    (key := P.curve.sec true K) (version.getD (pubVersion nd)) hwf.fp_len hvalid rfl

/-- **public re-serialisation**: for any well-formed, BIP32-valid node (private or public),
the node parsed from its public serialisation re-serialises to the identical 78 bytes and is
again well-formed and valid -/
theorem reserialize_pub {P : Prims Pt} {nd : Node} (hC : CurveLaws P.curve)
    (hwf : nd.WF P) (hvalid : BIP32valid nd) (version : Option Nat) (ser : Bytes)
    (hs : serializePublic P nd version = some ser) :
    serializePublic P (parseBytes false nd.testnet ser) version = some ser ∧
      (parseBytes false nd.testnet ser).WF P ∧ BIP32valid (parseBytes false nd.testnet ser) := by
  have hv := serializePublic_some hs
  obtain ⟨K, hK, hl, hKinf, _, _⟩ := pubKey_wf hC hwf
  rw [serializePublic_eq hK hwf.depth_lt hwf.index_lt version hv] at hs
  cases hs
  rw [parseBytes_layout' false nd.testnet hwf.chain_len hwf.fp_len hwf.depth_lt hwf.index_lt hl hv]
  set v := version.getD (pubVersion nd) with hvdef
  have hparse := hC.parse_sec true K hKinf
  have hwf' := WF_parsedOf_pub nd.testnet v hwf hl ⟨K, hparse⟩
  refine ⟨?_, hwf', BIP32valid_parsedOf _ _ _ _ hwf.fp_len hvalid⟩
  have hK' : pubKey P (parsedOf false nd.testnet nd (P.curve.sec true K) v) = some K := by
    unfold pubKey; simpa [parsedOf] using hparse
  have hv' : version.getD (pubVersion (parsedOf false nd.testnet nd (P.curve.sec true K) v)) = v :=
    rfl
  rw [serializePublic_eq hK' hwf'.depth_lt hwf'.index_lt version (by rw [hv']; exact hv), hv',
    layout_parsedOf _ _ _ _ _ _ hwf.fp_len hvalid]

/-- **exact condition for the private round trip**: without assuming `BIP32valid`, the parsed
node equals the original iff a master-shaped original (depth 0, index 0, no parent) has the
all-zero fingerprint — the only header `_serialize` rewrites -/
theorem parse_serialize_prv_iff {P : Prims Pt} {nd : Node} (hC : CurveLaws P.curve)
    (hwf : nd.WF P) (version : Option Nat) (ser : Bytes)
    (hs : serializePrivate P nd version = some ser) :
    nodeEq (parseBytes true nd.testnet ser) nd = true ↔
      (isMaster nd = true → parentFingerprint nd = [0, 0, 0, 0]) := by
  obtain ⟨hprv, hv⟩ := serializePrivate_some hs
  obtain ⟨k, h1, h2, hkey, _, he⟩ := serializePrivate_eq hC hwf hprv version hv
  rw [he] at hs
  cases hs
  have hk256 : k < 256 ^ 32 := by
    have := hC.n_lt
    have : (256 : Nat) ^ 32 = 2 ^ 256 := by norm_num
    omega
  rw [parseBytes_layout' true nd.testnet hwf.chain_len hwf.fp_len hwf.depth_lt hwf.index_lt
    (by simp [BeFixed.beFixed_length]) hv]
  have := nodeEq_parsedOf_iff (nd := nd) (key := 0 :: beFixed 32 k)
    (version.getD (prvVersion nd)) hwf.fp_len
    (by rw [beToNat_zero_cons, BeFixed.beToNat_beFixed hk256, hkey])
  rwa [hprv] at this

/-- **string form**: parsing the Base58Check string of any payload is parsing the payload
(so the string, bytes and stream input forms agree) -/
theorem parseStr_encodeCheck (P : Prims Pt) (hlen : ∀ x, 4 ≤ (P.hash256 x).length)
    (isPrv t : Bool) (ser : Bytes) :
    parseStr P isPrv t (Base58.encodeCheck P.hash256 ser) = some (parseBytes isPrv t ser) := by
  unfold parseStr
  rw [C10.decodeCheck_encodeCheck _ hlen]
  rfl

/-! ### 4. 111 characters -/

/-- all twelve versions lie in the numeric window that forces 111 Base58 characters -/
private theorem versions_in_window : ∀ v ∈ allVersions, 2 ^ 24 ≤ v ∧ v ≤ 79029636 := by decide

/-- **111 characters**: under each of the twelve versions, every 78-byte payload starting with
the version has a 111-character Base58Check string -/
theorem xkey_length_111 (h : Bytes → Bytes) (hlen : ∀ x, 4 ≤ (h x).length) (v : Nat)
    (hv : v ∈ allVersions) (payload : Bytes) (hp : payload.length = 78)
    (hpre : payload.take 4 = beFixed 4 v) : (Base58.encodeCheck h payload).length = 111 :=
  Base58.encodeCheck_length_111 h hlen payload hp v hpre (versions_in_window v hv).1
    (versions_in_window v hv).2

/-- the default versions (`version = None`) are among the twelve -/
theorem default_versions_valid (nd : Node) :
    prvVersion nd ∈ allVersions ∧ pubVersion nd ∈ allVersions := by
  unfold prvVersion pubVersion
  cases nd.testnet <;> decide

/-- **extended private key, end to end**: the xprv string of a well-formed, BIP32-valid node
parses (as `str`) to an equal node carrying the version written, which re-serialises to the
identical string; under any of the twelve versions (or the default) it has 111 characters -/
theorem xprv_roundtrip {P : Prims Pt} {nd : Node} (hC : CurveLaws P.curve)
    (hlen : ∀ x, 4 ≤ (P.hash256 x).length) (hwf : nd.WF P) (hvalid : BIP32valid nd)
    (version : Option Nat) (s : List Char) (hs : extendedPrivateKey P nd version = some s) :
    ∃ nd', parseStr P true nd.testnet s = some nd' ∧ nodeEq nd' nd = true ∧
      nd'.parsedVersion = some (version.getD (prvVersion nd)) ∧
      extendedPrivateKey P nd' version = some s ∧
      (version.getD (prvVersion nd) ∈ allVersions → s.length = 111) := by
  unfold extendedPrivateKey at hs
  obtain ⟨ser, hser, rfl⟩ := Option.map_eq_some_iff.mp hs
  obtain ⟨hprv, hv⟩ := serializePrivate_some hser
  obtain ⟨h1, h2⟩ := parse_serialize_prv hC hwf hvalid version ser hser
  obtain ⟨h3, _, _⟩ := reserialize_prv hC hwf hvalid version ser hser
  refine ⟨_, parseStr_encodeCheck P hlen true nd.testnet ser, h1, h2, ?_, ?_⟩
  · unfold extendedPrivateKey; rw [h3]; rfl
  · intro hmem
    obtain ⟨k, _, _, _, _, he⟩ := serializePrivate_eq hC hwf hprv version hv
    rw [he] at hser
    cases hser
    exact xkey_length_111 _ hlen _ hmem _
      (layout_length _ hwf.chain_len hwf.fp_len (by simp [BeFixed.beFixed_length]))
      (layout_take4 _ _ _)

/-- **extended public key, end to end**: the xpub string of a well-formed, BIP32-valid node
(private or public) parses to a node equal to its public view — to the node itself when it is
public — which re-serialises to the identical string; under any of the twelve versions (or the
default) it has 111 characters -/
theorem xpub_roundtrip {P : Prims Pt} {nd : Node} (hC : CurveLaws P.curve)
    (hlen : ∀ x, 4 ≤ (P.hash256 x).length) (hwf : nd.WF P) (hvalid : BIP32valid nd)
    (version : Option Nat) (s : List Char) (hs : extendedPublicKey P nd version = some s) :
    ∃ nd', parseStr P false nd.testnet s = some nd' ∧
      (∃ nn, neuter P nd = some nn ∧ nodeEq nd' nn = true) ∧
      (nd.isPrv = false → nodeEq nd' nd = true) ∧
      nd'.parsedVersion = some (version.getD (pubVersion nd)) ∧
      extendedPublicKey P nd' version = some s ∧
      (version.getD (pubVersion nd) ∈ allVersions → s.length = 111) := by
  unfold extendedPublicKey at hs
  obtain ⟨ser, hser, rfl⟩ := Option.map_eq_some_iff.mp hs
  have hv := serializePublic_some hser
  obtain ⟨h3, _, _⟩ := reserialize_pub hC hwf hvalid version ser hser
  refine ⟨_, parseStr_encodeCheck P hlen false nd.testnet ser,
    parse_serialize_pub_neuter hC hwf hvalid version ser hser,
    fun hpub => (parse_serialize_pub hC hwf hvalid hpub version ser hser).1, ?_, ?_, ?_⟩
  · obtain ⟨K, hK, hl, _, _, _⟩ := pubKey_wf hC hwf
    rw [serializePublic_eq hK hwf.depth_lt hwf.index_lt version hv] at hser
    cases hser
    rw [parseBytes_layout' false nd.testnet hwf.chain_len hwf.fp_len hwf.depth_lt hwf.index_lt
      hl hv]
    rfl
  · unfold extendedPublicKey; rw [h3]; rfl
  · intro hmem
    obtain ⟨K, hK, hl, _, _, _⟩ := pubKey_wf hC hwf
    rw [serializePublic_eq hK hwf.depth_lt hwf.index_lt version hv] at hser
    cases hser
    exact xkey_length_111 _ hlen _ hmem _ (layout_length _ hwf.chain_len hwf.fp_len hl)
      (layout_take4 _ _ _)

/-! ### 5. the version table -/

/-- the version constants extracted from the source are the SLIP-132 ones
(x/y/z pub/prv for mainnet, t/u/v pub/prv for testnet) -/
theorem generated_versions_are_slip132 :
    Generated.versionsMain =
        [(1, 0, 0x0488B21E), (1, 1, 0x049D7CB2), (1, 2, 0x04B24746),
         (0, 0, 0x0488ADE4), (0, 1, 0x049D7878), (0, 2, 0x04B2430C)] ∧
      Generated.versionsTest =
        [(1, 0, 0x043587CF), (1, 1, 0x044A5262), (1, 2, 0x045F1CF6),
         (0, 0, 0x04358394), (0, 1, 0x044A4E28), (0, 2, 0x045F18BC)] ∧
      Generated.pubMain = 0x0488B21E ∧ Generated.prvMain = 0x0488ADE4 ∧
      Generated.pubTest = 0x043587CF ∧ Generated.prvTest = 0x04358394 := by decide

/-- the twelve version integers are pairwise distinct -/
theorem versions_distinct : allVersions.Nodup ∧ allVersions.length = 12 := by decide

/-- `Version.parse (int(Version(k, b, t))) = Version(k, b, t)` for both key types, the three
BIP flavours and both networks -/
theorem version_parse_toInt :
    ∀ k ∈ [0, 1], ∀ b ∈ [0, 1, 2], ∀ t : Bool,
      (Version.toInt ⟨k, b, t⟩).bind Version.parse = some ⟨k, b, t⟩ := by decide

/-- the full table: what each of the twelve prefixes means (key type PRV = 0 / PUB = 1,
BIP44/49/84 = 0/1/2, testnet flag) — the prefix alone determines all three -/
theorem version_table :
    [0x0488B21E, 0x049D7CB2, 0x04B24746, 0x0488ADE4, 0x049D7878, 0x04B2430C,
     0x043587CF, 0x044A5262, 0x045F1CF6, 0x04358394, 0x044A4E28, 0x045F18BC].map Version.parse =
    [some ⟨1, 0, false⟩, some ⟨1, 1, false⟩, some ⟨1, 2, false⟩,
     some ⟨0, 0, false⟩, some ⟨0, 1, false⟩, some ⟨0, 2, false⟩,
     some ⟨1, 0, true⟩, some ⟨1, 1, true⟩, some ⟨1, 2, true⟩,
     some ⟨0, 0, true⟩, some ⟨0, 1, true⟩, some ⟨0, 2, true⟩] := by decide

private theorem toInt_parse_all :
    ∀ v ∈ allVersions, (Version.parse v).bind Version.toInt = some v := by decide

/-- `int(Version.parse(v)) = v` for every valid version -/
theorem version_toInt_parse (v : Nat) (h : validVersion v = true) :
    (Version.parse v).bind Version.toInt = some v :=
  toInt_parse_all v (of_decide_eq_true h)

/-- an integer outside the table is not a version -/
theorem version_parse_none (v : Nat) (h : validVersion v = false) : Version.parse v = none := by
  unfold Version.parse
  rw [h]; rfl

/-- `Version.parse` succeeds exactly on the twelve table entries -/
theorem version_parse_isSome_iff (v : Nat) : (Version.parse v).isSome = true ↔ v ∈ allVersions := by
  unfold Version.parse
  by_cases h : v ∈ allVersions
  · simp [validVersion, h]
  · simp [validVersion, h]

/-- **what `from_extended_key` returns**: a wallet is built exactly when the string passes
Base58Check and its first four bytes are one of the twelve versions; key type (private /
watch-only) and network of the wallet are those the version table gives -/
theorem fromExtendedKey_spec (P : Prims Pt) (s : List Char) (w : Wallet.Wallet) :
    Wallet.fromExtendedKey P s = some w ↔
      ∃ payload v, Base58.decodeCheck P.hash256 s = some payload ∧
        Version.parse (beToNat (payload.take 4)) = some v ∧
        w = ⟨parseBytes (decide (v.keyType = 0)) v.testnet payload, v.testnet, none, none⟩ := by
  unfold Wallet.fromExtendedKey parseStr
  cases hd : Base58.decodeCheck P.hash256 s with
  | none => simp
  | some payload =>
    simp only [Option.map_some, Option.bind_some]
    have hpv : (parseBytes true false payload).parsedVersion = some (beToNat (payload.take 4)) :=
      rfl
    rw [hpv, Option.bind_some]
    cases hv : Version.parse (beToNat (payload.take 4)) with
    | none => simp [hv]
    | some v =>
      simp only [Option.bind_some, Option.some.injEq]
      constructor
      · intro h; exact ⟨payload, v, rfl, hv, h.symm⟩
      · rintro ⟨p', v', hp, hv', hw⟩
        cases hp
        rw [hv] at hv'
        cases hv'
        exact hw.symm

/-- **unknown version ⇒ no wallet**: a string whose payload does not start with one of the
twelve versions is refused -/
theorem fromExtendedKey_unknown_version (P : Prims Pt) (s : List Char) (payload : Bytes)
    (hd : Base58.decodeCheck P.hash256 s = some payload)
    (hv : validVersion (beToNat (payload.take 4)) = false) :
    Wallet.fromExtendedKey P s = none := by
  cases h : Wallet.fromExtendedKey P s with
  | none => rfl
  | some w =>
    obtain ⟨p', v', hp, hv', _⟩ := (fromExtendedKey_spec P s w).mp h
    rw [hd] at hp
    cases hp
    rw [version_parse_none _ hv] at hv'
    cases hv'

/-- a string failing Base58Check (foreign character, bad checksum, too short) is refused -/
theorem fromExtendedKey_undecodable (P : Prims Pt) (s : List Char)
    (hd : Base58.decodeCheck P.hash256 s = none) : Wallet.fromExtendedKey P s = none := by
  cases h : Wallet.fromExtendedKey P s with
  | none => rfl
  | some w =>
    obtain ⟨p', v', hp, _, _⟩ := (fromExtendedKey_spec P s w).mp h
    rw [hd] at hp
    cases hp

/-- **import of any serialised key**: the wallet built from the string of a payload that starts
with version `v` holds the node parsed from that payload, with key class and network read off
`v` alone (whatever node produced the payload) -/
theorem fromExtendedKey_encodeCheck (P : Prims Pt) (hlen : ∀ x, 4 ≤ (P.hash256 x).length)
    (payload : Bytes) (v : Nat) (hv4 : v < 2 ^ 32) (hpre : payload.take 4 = beFixed 4 v)
    (ver : Version) (hver : Version.parse v = some ver) :
    Wallet.fromExtendedKey P (Base58.encodeCheck P.hash256 payload) =
      some ⟨parseBytes (decide (ver.keyType = 0)) ver.testnet payload, ver.testnet, none, none⟩ := by
  rw [fromExtendedKey_spec]
  refine ⟨payload, ver, C10.decodeCheck_encodeCheck _ hlen _, ?_, rfl⟩
  have : (256 : Nat) ^ 4 = 2 ^ 32 := by norm_num
  rw [hpre, BeFixed.beToNat_beFixed (by omega), hver]

/-! ### 6. the public string is a function of the public view; master header -/

/-- **the public serialisation depends on the node only through its public view**: two nodes
with the same header, chain code and public key (e.g. a private node and its neutered public
node, or the 32- and 33-byte forms of the same scalar) have the same `serialize_public` -/
theorem public_view_determines (P : Prims Pt) (a b : Node) (version : Option Nat)
    (hdepth : a.depth = b.depth) (hindex : a.index = b.index) (hpar : a.hasParent = b.hasParent)
    (hfp : a.parentFp = b.parentFp) (hcc : a.chainCode = b.chainCode)
    (ht : a.testnet = b.testnet) (hK : pubKey P a = pubKey P b) :
    serializePublic P a version = serializePublic P b version := by
  unfold serializePublic serializeWith pubVersion isMaster parentFingerprint
  rw [hdepth, hindex, hpar, hfp, hcc, ht, hK]

/-- **public_factors**: for a private node with scalar `k` the public serialisation is
`_serialize` applied to `sec(k·G)` — its last 33 bytes are the compressed public key and the
scalar enters in no other way — and it equals the serialisation of the neutered node -/
theorem public_factors {P : Prims Pt} {nd : Node} (hC : CurveLaws P.curve) {k : Nat}
    (hprv : nd.isPrv = true) (hk : prvKey P nd = some k) (version : Option Nat) :
    serializePublic P nd version
        = serializeWith nd (P.curve.sec true (P.curve.mulGen k)) (version.getD (pubVersion nd)) ∧
      ∃ nn, neuter P nd = some nn ∧ nn.isPrv = false ∧
        nn.key = P.curve.sec true (P.curve.mulGen k) ∧
        serializePublic P nn version = serializePublic P nd version := by
  have hK : pubKey P nd = some (P.curve.mulGen k) := by
    unfold pubKey; rw [if_pos hprv, hk]; rfl
  refine ⟨by unfold serializePublic; rw [hK]; rfl, _, by rw [neuter, hK]; rfl, rfl, rfl, ?_⟩
  apply public_view_determines <;> try rfl
  rw [hK]
  have hkn : 1 ≤ k ∧ k < P.curve.n := prvKey_some hk
  unfold pubKey
  simp only [Bool.false_eq_true, if_false]
  exact hC.parse_sec true _ (hC.mulGen_notInf k hkn.1 hkn.2)

/-- **master_zero**: a master node (depth 0, index 0, no parent — in particular every result of
`master_key`) is serialised, publicly or privately, with bytes 4..12 (depth, parent
fingerprint, child number) all zero -/
theorem master_zero (P : Prims Pt) (nd : Node) (hm : isMaster nd = true) (version : Option Nat)
    (ser : Bytes)
    (hs : serializePublic P nd version = some ser ∨ serializePrivate P nd version = some ser) :
    (ser.drop 4).take 9 = List.replicate 9 0 := by
  have : ∃ key v, serializeWith nd key v = some ser := by
    rcases hs with hs | hs
    · unfold serializePublic at hs
      obtain ⟨K, _, h⟩ := Option.bind_eq_some_iff.mp hs
      exact ⟨_, _, h⟩
    · unfold serializePrivate at hs
      split at hs
      · obtain ⟨k, _, h⟩ := Option.bind_eq_some_iff.mp hs
        exact ⟨_, _, h⟩
      · cases hs
  obtain ⟨key, v, h⟩ := this
  rw [serializeWith_layout h]
  exact layout_master_zero hm key v

/-- `master_key` returns a master node (so `master_zero` applies), private, BIP32-valid -/
theorem masterKey_isMaster {P : Prims Pt} {seed : Bytes} {t : Bool} {nd : Node}
    (h : masterKey P seed t = some nd) :
    isMaster nd = true ∧ BIP32valid nd ∧ nd.isPrv = true ∧ nd.testnet = t :=
  masterKey_shape h

/-- derived children are BIP32-valid (depth ≥ 1), so the round-trip theorems apply to them -/
theorem child_valid (nd : Node) (key chain : Bytes) (i : Nat) (fp : Bytes) :
    BIP32valid (mkChild nd key chain i fp) :=
  BIP32valid_mkChild nd key chain i fp

/-! ### non-vacuity -/

/-- the hypotheses of the private round trip are satisfiable: a curve instance with
`CurveLaws`, a 32-byte hash, a well-formed BIP32-valid private node, and its xprv exists -/
example : ∃ (P : Prims Nat) (nd : Node), CurveLaws P.curve ∧ (∀ x, 4 ≤ (P.hash256 x).length) ∧
    nd.WF P ∧ BIP32valid nd ∧ nd.isPrv = true ∧ ∃ s, extendedPrivateKey P nd none = some s := by
  refine ⟨Toy.prims, Toy.prvNode, Toy.laws, fun x => by rw [Toy.hash256_length]; decide,
    Toy.prvNode_wf, Toy.prvNode_valid, rfl, ?_⟩
  obtain ⟨ser, h, _⟩ := serialize_length_private (P := Toy.prims) Toy.laws Toy.prvNode_wf rfl none
    (prvVersion_lt _)
  exact ⟨_, by unfold extendedPrivateKey; rw [h]; rfl⟩

/-- likewise for a public (hardened-index, testnet) node under the `vpub` version -/
example : ∃ s, extendedPublicKey Toy.prims Toy.pubNode (some 0x045F1CF6) = some s ∧
    s.length = 111 := by
  obtain ⟨ser, h, _⟩ := serialize_length_public (P := Toy.prims) Toy.laws Toy.pubNode_wf
    (some 0x045F1CF6) (by decide)
  have hs : extendedPublicKey Toy.prims Toy.pubNode (some 0x045F1CF6)
      = some (Base58.encodeCheck Toy.prims.hash256 ser) := by
    unfold extendedPublicKey; rw [h]; rfl
  obtain ⟨_, _, _, _, _, _, hl⟩ := xpub_roundtrip Toy.laws
    (fun x => by rw [Toy.hash256_length]; decide) Toy.pubNode_wf Toy.pubNode_valid _ _ hs
  exact ⟨_, hs, hl (by decide)⟩

/-- `BIP32valid` cannot be dropped: a well-formed master-shaped node storing a non-zero parent
fingerprint does not survive serialise-then-parse (the fingerprint is written as zero) -/
example : ∃ ser, serializePrivate Toy.prims Toy.badMaster none = some ser ∧
    nodeEq (parseBytes true Toy.badMaster.testnet ser) Toy.badMaster = false := by
  obtain ⟨ser, h, _⟩ := serialize_length_private (P := Toy.prims) Toy.laws Toy.badMaster_wf rfl
    none (prvVersion_lt _)
  refine ⟨ser, h, ?_⟩
  have := parse_serialize_prv_iff Toy.laws Toy.badMaster_wf none ser h
  cases hq : nodeEq (parseBytes true Toy.badMaster.testnet ser) Toy.badMaster with
  | false => rfl
  | true =>
    have h2 := this.mp hq (by decide)
    exact absurd h2 (by decide)

/-- observation (not required by the property, mirrored from the code and reproduced on it):
`from_extended_key` checks the version only — a checksummed string holding just the four `xpub`
version bytes builds a watch-only wallet whose key and chain code are empty -/
example : ∃ w, Wallet.fromExtendedKey Toy.prims
      (Base58.encodeCheck Toy.prims.hash256 (beFixed 4 0x0488B21E)) = some w ∧
    w.master.key = [] ∧ w.master.chainCode = [] ∧ w.master.isPrv = false :=
  ⟨_, fromExtendedKey_encodeCheck Toy.prims (fun x => by rw [Toy.hash256_length]; decide)
    (beFixed 4 0x0488B21E) 0x0488B21E (by decide) (by decide) ⟨1, 0, false⟩ (by decide),
    by decide, by decide, by decide⟩

end BtcHd.C07
