/-
C18 — Invalid children are reported, never returned.

For EVERY primitive instance `P` (hence every PRF output): master-key generation
and child derivation fail exactly on the outputs BIP32 declares invalid.
-/
import BtcHd.Lemmas.Bip32
import BtcHd.Model.Bip85

namespace BtcHd.C18
open BtcHd Bip32 Keys BytesL

variable {Pt : Type}

/-- left half of the master HMAC output as an integer -/
def masterIL (P : Prims Pt) (seed : Bytes) : Nat :=
  beToNat ((P.hmac512 Generated.masterKeyHmacKey seed).take 32)

/-- the HMAC key of master-key generation is the ASCII string "Bitcoin seed" -/
theorem master_hmac_key :
    Generated.masterKeyHmacKey = [66, 105, 116, 99, 111, 105, 110, 32, 115, 101, 101, 100] := by decide

/-- **Master key**: generation fails iff `IL = 0` or `IL ≥ n` -/
theorem master_error_iff (P : Prims Pt) (seed : Bytes) (t : Bool) :
    masterKey P seed t = none ↔ masterIL P seed = 0 ∨ P.curve.n ≤ masterIL P seed := by
  unfold masterKey masterIL
  simp only [ge_iff_le]
  constructor
  · intro h
    split at h
    · next h0 => exact Or.inl h0
    · split at h
      · next h1 => exact Or.inr h1
      · cases h
  · rintro (h | h)
    · rw [if_pos h]
    · by_cases h0 : beToNat ((P.hmac512 Generated.masterKeyHmacKey seed).take 32) = 0
      · rw [if_pos h0]
      · rw [if_neg h0, if_pos h]

/-- a returned master key is a valid scalar and is the left HMAC half itself -/
theorem master_valid (P : Prims Pt) (seed : Bytes) (t : Bool) (m : Node) (h : masterKey P seed t = some m) :
    1 ≤ beToNat m.key ∧ beToNat m.key < P.curve.n ∧
      m.key = (P.hmac512 Generated.masterKeyHmacKey seed).take 32 ∧
      m.chainCode = (P.hmac512 Generated.masterKeyHmacKey seed).drop 32 ∧ m.depth = 0 ∧ m.index = 0 ∧
      m.testnet = t ∧ m.isPrv = true := by
  unfold masterKey at h
  simp only [ge_iff_le] at h
  split at h
  · cases h
  · split at h
    · cases h
    · next h0 h1 =>
      simp only [Option.some.injEq] at h
      subst h
      exact ⟨Nat.pos_of_ne_zero h0, Nat.lt_of_not_le h1, rfl, rfl, rfl, rfl, rfl, rfl⟩

/-- left half of the child HMAC output for a private parent -/
def prvIL (P : Prims Pt) (nd : Node) (k i : Nat) : Nat :=
  beToNat ((P.hmac512 nd.chainCode (ckdPrvData P k i)).take 32)

/-- **CKDpriv**: derivation fails iff `IL ≥ n` or `(IL + k_par) mod n = 0` -/
theorem ckdPriv_error_iff (P : Prims Pt) (nd : Node) (k i : Nat) (hk : prvKey P nd = some k)
    (hi : i < 2 ^ 32) (hn : P.curve.n ≤ 2 ^ 256) :
    ckdPrv P nd i = none ↔ P.curve.n ≤ prvIL P nd k i ∨ (prvIL P nd k i + k) % P.curve.n = 0 := by
  rw [ckdPrv_eq P nd i k hk hi hn]
  unfold prvIL
  constructor
  · intro h
    split at h
    · next h1 => exact Or.inl h1
    · split at h
      · next h2 => exact Or.inr h2
      · cases h
  · rintro (h | h)
    · rw [if_pos h]
    · by_cases h0 : P.curve.n ≤ beToNat ((P.hmac512 nd.chainCode (ckdPrvData P k i)).take 32)
      · rw [if_pos h0]
      · rw [if_neg h0, if_pos h]

/-- a returned private child is never zero and never ≥ n -/
theorem ckdPriv_child_valid (P : Prims Pt) (nd c : Node) (k i : Nat) (hk : prvKey P nd = some k)
    (hi : i < 2 ^ 32) (hn : P.curve.n ≤ 2 ^ 256) (hc : ckdPrv P nd i = some c) :
    1 ≤ beToNat c.key ∧ beToNat c.key < P.curve.n ∧ prvIL P nd k i < P.curve.n := by
  obtain ⟨ki, IR, fp, h1, h2, _, h4, _, _, rfl⟩ := ckdPrv_eq_some P nd c i k hk hi hn hc
  have hlt : ki < 256 ^ 32 := by rw [pow_256_32]; omega
  rw [mkChild_key, beToNat_beFixed hlt]
  exact ⟨h1, h2, h4⟩

/-- **CKDpub**: a hardened index is refused before any primitive is called -/
theorem ckdPub_hardened (P : Prims Pt) (nd : Node) (i : Nat) (hi : 2 ^ 31 ≤ i) : ckdPub P nd i = none := by
  unfold ckdPub
  rw [if_pos (by rw [hardened_eq]; exact hi)]

/-- left half of the child HMAC output for a public parent -/
def pubIL (P : Prims Pt) (nd : Node) (i : Nat) : Nat :=
  beToNat ((P.hmac512 nd.chainCode (nd.key ++ beFixed 4 i)).take 32)

/-- **CKDpub**: `IL ≥ n` ⇒ failure; the sum being the point at infinity ⇒ failure -/
theorem ckdPub_error_of (P : Prims Pt) (nd : Node) (i : Nat) (hi : i < 2 ^ 31) :
    (P.curve.n ≤ pubIL P nd i → ckdPub P nd i = none) ∧
    (∀ K, P.curve.parse nd.key = some K →
      P.curve.isInf (P.curve.add (P.curve.mulGen (pubIL P nd i)) K) = true → ckdPub P nd i = none) := by
  have h4 : toBytesBE 4 i = some (beFixed 4 i) := toBytesBE_some (by rw [pow_256_4]; omega)
  have hnh : ¬ (hardened ≤ i) := by rw [hardened_eq]; omega
  constructor
  · intro h
    unfold ckdPub
    simp only [ge_iff_le, if_neg hnh, h4, Option.bind_some]
    unfold pubIL at h
    rw [if_pos h]
  · intro K hK hinf
    unfold ckdPub
    simp only [ge_iff_le, if_neg hnh, h4, Option.bind_some]
    split
    · rfl
    · cases hm : mkPriv P.curve ((P.hmac512 nd.chainCode (nd.key ++ beFixed 4 i)).take 32) with
      | none => rfl
      | some il =>
        have : il = pubIL P nd i := (mkPriv_eq_some.mp hm).2.2.2
        subst this
        simp only [Option.bind_some, hK]
        rw [if_pos hinf]

/-- a returned public child is never the point at infinity, and `IL < n` held -/
theorem ckdPub_child_valid (P : Prims Pt) (nd c : Node) (i : Nat) (hc : ckdPub P nd i = some c) :
    i < 2 ^ 31 ∧ pubIL P nd i < P.curve.n ∧ ∃ K, P.curve.parse nd.key = some K ∧
      P.curve.isInf (P.curve.add (P.curve.mulGen (pubIL P nd i)) K) = false ∧
      c.key = P.curve.sec true (P.curve.add (P.curve.mulGen (pubIL P nd i)) K) := by
  unfold ckdPub at hc
  simp only [ge_iff_le] at hc
  split at hc
  · cases hc
  · next hnh =>
    have hi : i < 2 ^ 31 := by rw [hardened_eq] at hnh; omega
    have h4 : toBytesBE 4 i = some (beFixed 4 i) := toBytesBE_some (by rw [pow_256_4]; omega)
    rw [h4] at hc
    simp only [Option.bind_some] at hc
    split at hc
    · cases hc
    · next hlt =>
      cases hm : mkPriv P.curve ((P.hmac512 nd.chainCode (nd.key ++ beFixed 4 i)).take 32) with
      | none => rw [hm] at hc; cases hc
      | some il =>
        have hil : il = pubIL P nd i := (mkPriv_eq_some.mp hm).2.2.2
        rw [hm] at hc
        simp only [Option.bind_some] at hc
        cases hp : P.curve.parse nd.key with
        | none => rw [hp] at hc; cases hc
        | some K =>
          rw [hp] at hc
          simp only [Option.bind_some] at hc
          split at hc
          · cases hc
          · next hinf =>
            simp only [Option.some.injEq] at hc
            subst hil
            refine ⟨hi, by unfold pubIL; omega, K, rfl, by simpa using hinf, ?_⟩
            rw [← hc]; exact mkChild_key _ _ _ _ _

/-- **BIP85**: `correct_key` accepts exactly the secrets in `[1, n-1]` -/
theorem bip85_correctKey_iff (P : Prims Pt) (kb : Bytes) :
    Bip85.correctKey P kb = true ↔ beToNat kb ≠ 0 ∧ beToNat kb < P.curve.n := by
  unfold Bip85.correctKey
  simp

/-- **BIP85 WIF**: no WIF is emitted for a secret that is zero or ≥ n -/
theorem bip85_wif_refuses (P : Prims Pt) (m : Node) (index : Int) (e : Bytes)
    (he : Bip85.entropy P m (Bip85.fmt Generated.bip85TplWif [index]) = some e)
    (hbad : beToNat (e.take 32) = 0 ∨ P.curve.n ≤ beToNat (e.take 32)) : Bip85.wif P m index = none := by
  unfold Bip85.wif
  rw [he]
  simp only [Option.bind_some]
  have : Bip85.correctKey P (e.take 32) = false := by
    cases h : Bip85.correctKey P (e.take 32)
    · rfl
    · have := (bip85_correctKey_iff P _).mp h; omega
  rw [this]; rfl

/-- **BIP85 XPRV**: no extended key is emitted for a secret (right half) that is zero or ≥ n -/
theorem bip85_xprv_refuses (P : Prims Pt) (m : Node) (index : Int) (e : Bytes)
    (he : Bip85.entropy P m (Bip85.fmt Generated.bip85TplXprv [index]) = some e)
    (hbad : beToNat (e.drop 32) = 0 ∨ P.curve.n ≤ beToNat (e.drop 32)) : Bip85.xprv P m index = none := by
  unfold Bip85.xprv
  rw [he]
  simp only [Option.bind_some]
  have : Bip85.correctKey P (e.drop 32) = false := by
    cases h : Bip85.correctKey P (e.drop 32)
    · rfl
    · have := (bip85_correctKey_iff P _).mp h; omega
  rw [this]; rfl

/-- non-vacuity: with a constant PRF returning `n ‖ …`, CKDpriv fails on every valid parent -/
example (P : Prims Pt) (nd : Node) (k : Nat) (hk : prvKey P nd = some k) (hn : P.curve.n ≤ 2 ^ 256)
    (hprf : prvIL P nd k 0 = P.curve.n) : ckdPrv P nd 0 = none :=
  (ckdPriv_error_iff P nd k 0 hk (by decide) hn).mpr (Or.inl (by rw [hprf]; exact Nat.le_refl _))

end BtcHd.C18
