/-
C05 — addresses are the standard encodings; HASH160 = RIPEMD160 ∘ SHA256 with the
Merkle–Damgård padding of RIPEMD-160.

Property theorems only (helper lemmas and the vocabulary `padded`, `out`, `block`, `mdIter`
are in `Lemmas/Ripemd.lean`).

* `padded data` : `data ‖ 80 ‖ 00…00 ‖ (8·len as 8 little-endian bytes)`, the padded message of
                  the specification;
* `out s`       : the five chaining words, each as 4 little-endian bytes;
* `block m i`   : bytes `64 i .. 64 i + 63` of `m`;
* `mdIter n s m`: `compress` folded over blocks `0 .. n-1` of `m`, starting from `s`.

The SHA-256, the double SHA-256 and the curve are parameters (`P : Prims Pt`); the only facts
used about them are the stated hypotheses (`sha256` returns 32 bytes, the compressed SEC
encoding of the key at hand has 33 bytes).  The decoders are the Base58Check decoder of C10 and
the Bech32 segwit decoder of C11.
-/
import BtcHd.Model.Wallet
import BtcHd.Lemmas.Ripemd
import BtcHd.Lemmas.Bip32
import BtcHd.Lemmas.ToyNodes
import BtcHd.Props.C10
import BtcHd.Props.C11
import BtcHd.Props.C19

namespace BtcHd.C05
open BtcHd Keys Bip32 Wallet Script RipemdL

variable {Pt : Type}

/-! ### 1. version bytes and human-readable parts -/

/-- the version bytes and Bech32 prefixes in the source are the Bitcoin ones: `00`/`6f` for
P2PKH, `05`/`c4` for P2SH, `bc`/`tb` for segwit (mainnet / testnet) -/
theorem prefixes :
    Generated.p2pkhMain = 0x00 ∧ Generated.p2pkhTest = 0x6f ∧ Generated.p2shMain = 0x05 ∧
    Generated.p2shTest = 0xc4 ∧ Generated.hrpMain = ['b', 'c'] ∧ Generated.hrpTest = ['t', 'b'] := by
  decide +kernel

/-! ### 2. the hash functions -/

/-- the double SHA-256 used for Base58Check checksums is at least 4 bytes long as soon as SHA-256
returns 32 bytes -/
theorem hash256_length (P : Prims Pt) (hsha : ∀ x, (P.sha256 x).length = 32) (x : Bytes) :
    (P.hash256 x).length = 32 ∧ 4 ≤ (P.hash256 x).length := by
  have : (P.hash256 x).length = 32 := hsha _
  omega

/-- HASH160 is RIPEMD-160 of SHA-256, for input of every length -/
theorem hash160_def (P : Prims Pt) (x : Bytes) : hash160 P x = Ripemd.ripemd160 (P.sha256 x) := rfl

/-- HASH160 always has 20 bytes -/
theorem hash160_length (P : Prims Pt) (x : Bytes) : (hash160 P x).length = 20 :=
  Bip32.hash160_length P x

/-! ### 3. script templates -/

private theorem ofNat_33 : UInt8.ofNat 33 = 0x21 := by decide

/-- the 1-of-1 multisig witness script is `OP_1 <33-byte key> OP_1 OP_CHECKMULTISIG` -/
theorem witness_script_template (P : Prims Pt) (K : Pt) (hsec : (P.curve.sec true K).length = 33) :
    rawSerialize (witnessScript P K) = some ([0x51, 0x21] ++ P.curve.sec true K ++ [0x51, 0xae]) := by
  have hd := ScriptLemmas.serCmd_data_small (d := P.curve.sec true K) (by omega)
  rw [hsec, ofNat_33] at hd
  simp only [witnessScript, rawSerialize, ScriptLemmas.serCmd_op (b := 0x51) (by decide),
    ScriptLemmas.serCmd_op (b := 0xae) (by decide), hd, Option.bind_some, Option.map_some]
  rfl

example : (Toy.prims.curve.sec true 3).length = 33 := by
  simp [Toy.prims, Toy.curve, BeFixed.beFixed_length]

/-- the four scriptPubKey builders serialise to the standard templates:
`76 a9 14 <h160> 88 ac`, `a9 14 <h160> 87`, `00 14 <h160>`, `00 20 <h256>` -/
theorem script_templates (P : Prims Pt) (hsha : ∀ x, (P.sha256 x).length = 32) (x y : Bytes) :
    rawSerialize (p2pkhScript (hash160 P x)) = some ([0x76, 0xa9, 0x14] ++ hash160 P x ++ [0x88, 0xac]) ∧
    rawSerialize (p2shScript (hash160 P x)) = some ([0xa9, 0x14] ++ hash160 P x ++ [0x87]) ∧
    rawSerialize (p2wpkhScript (hash160 P x)) = some ([0x00, 0x14] ++ hash160 P x) ∧
    rawSerialize (p2wshScript (P.sha256 y)) = some ([0x00, 0x20] ++ P.sha256 y) :=
  ⟨C19.p2pkh_template (hash160_length P x), C19.p2sh_template (hash160_length P x),
    C19.p2wpkh_template (hash160_length P x), C19.p2wsh_template (hsha y)⟩

/-! ### 4. Base58Check addresses -/

private theorem b58_decodes (P : Prims Pt) (hsha : ∀ x, (P.sha256 x).length = 32) (p : Bytes) :
    Base58.decodeCheck P.hash256 (Base58.encodeCheck P.hash256 p) = some p :=
  C10.decodeCheck_encodeCheck _ (fun x => (hash256_length P hsha x).2) p

private theorem p2pkhOf_decodes (P : Prims Pt) (hsha : ∀ x, (P.sha256 x).length = 32) (h : Bytes)
    (t : Bool) :
    Base58.decodeCheck P.hash256 (p2pkhOfH160 P h t) = some ([if t then 0x6f else 0x00] ++ h) := by
  unfold p2pkhOfH160
  rw [b58_decodes P hsha]
  cases t <;> rfl

private theorem p2shOf_decodes (P : Prims Pt) (hsha : ∀ x, (P.sha256 x).length = 32) (h : Bytes)
    (t : Bool) :
    Base58.decodeCheck P.hash256 (p2shOfH160 P h t) = some ([if t then 0xc4 else 0x05] ++ h) := by
  unfold p2shOfH160
  rw [b58_decodes P hsha]
  cases t <;> rfl

/-- `PublicKey.address(compressed, testnet, "p2pkh")` Base58Check-decodes to the version byte
`6f` / `00` followed by HASH160 of the SEC encoding (compressed or uncompressed as requested) -/
theorem pubP2pkh_decodes (P : Prims Pt) (hsha : ∀ x, (P.sha256 x).length = 32) (K : Pt)
    (compressed t : Bool) :
    Base58.decodeCheck P.hash256 (pubP2pkh P K compressed t) =
      some ([if t then 0x6f else 0x00] ++ hash160 P (P.curve.sec compressed K)) :=
  p2pkhOf_decodes P hsha _ t

/-- the P2PKH address of a node exists and Base58Check-decodes to `6f` / `00` followed by
HASH160 of the compressed public key -/
theorem p2pkh_decodes (P : Prims Pt) (hsha : ∀ x, (P.sha256 x).length = 32) (t : Bool) (nd : Node)
    (K : Pt) (hK : pubKey P nd = some K) :
    ∃ a, p2pkhAddress P t nd = some a ∧
      Base58.decodeCheck P.hash256 a = some ([if t then 0x6f else 0x00] ++ hash160 P (P.curve.sec true K)) := by
  refine ⟨pubP2pkh P K true t, ?_, pubP2pkh_decodes P hsha K true t⟩
  unfold p2pkhAddress
  rw [hK]; rfl

/-- the P2SH-P2WPKH address exists and Base58Check-decodes to `c4` / `05` followed by HASH160 of
the redeem script `00 14 <HASH160 of the compressed key>` -/
theorem p2sh_p2wpkh_decodes (P : Prims Pt) (hsha : ∀ x, (P.sha256 x).length = 32) (t : Bool)
    (nd : Node) (K : Pt) (hK : pubKey P nd = some K) :
    ∃ a, p2shP2wpkhAddress P t nd = some a ∧
      Base58.decodeCheck P.hash256 a =
        some ([if t then 0xc4 else 0x05] ++
          hash160 P ([0x00, 0x14] ++ hash160 P (P.curve.sec true K))) := by
  refine ⟨_, ?_, p2shOf_decodes P hsha (hash160 P ([0x00, 0x14] ++ hash160 P (P.curve.sec true K))) t⟩
  unfold p2shP2wpkhAddress
  rw [hK, Option.bind_some]
  show Option.map _ (rawSerialize (p2wpkhScript (hash160 P (P.curve.sec true K)))) = _
  rw [C19.p2wpkh_template (hash160_length P _), Option.map_some]

/-- the P2SH-P2WSH address exists and Base58Check-decodes to `c4` / `05` followed by HASH160 of
the redeem script `00 20 <SHA-256 of the witness script 51 21 <key> 51 ae>` -/
theorem p2sh_p2wsh_decodes (P : Prims Pt) (hsha : ∀ x, (P.sha256 x).length = 32) (t : Bool)
    (nd : Node) (K : Pt) (hK : pubKey P nd = some K) (hsec : (P.curve.sec true K).length = 33) :
    ∃ a, p2shP2wshAddress P t nd = some a ∧
      Base58.decodeCheck P.hash256 a =
        some ([if t then 0xc4 else 0x05] ++
          hash160 P ([0x00, 0x20] ++ P.sha256 ([0x51, 0x21] ++ P.curve.sec true K ++ [0x51, 0xae]))) := by
  refine ⟨_, ?_, p2shOf_decodes P hsha _ t⟩
  unfold p2shP2wshAddress
  rw [hK, Option.bind_some, witness_script_template P K hsec, Option.bind_some,
    C19.p2wsh_template (hsha _), Option.map_some]

/-! ### 5. segwit addresses -/

private theorem hrp_eq (t : Bool) :
    (if t then Generated.hrpTest else Generated.hrpMain) = (if t then "tb" else "bc").toList := by
  cases t <;> decide +kernel

private theorem legal_v0 (t : Bool) {prog : Bytes} (h : prog.length = 20 ∨ prog.length = 32) :
    C11.Legal (if t then "tb" else "bc").toList 0 prog := by
  have hh : ∀ t : Bool, (if t then "tb" else "bc").toList ≠ [] ∧
      (∀ c ∈ (if t then "tb" else "bc").toList,
        33 ≤ c.toNat ∧ c.toNat ≤ 126 ∧ Bech32.isUpperAscii c = false) ∧
      (if t then "tb" else "bc").toList.length = 2 := by decide +kernel
  obtain ⟨h1, h2, h3⟩ := hh t
  refine ⟨by omega, by omega, by omega, fun _ => h, h1, h2, ?_⟩
  rw [h3]
  omega

private theorem segwitOf_decodes (t : Bool) {prog : Bytes}
    (h : prog.length = 20 ∨ prog.length = 32) :
    ∃ a, segwitOf prog t = some a ∧
      Bech32.decode (if t then "tb" else "bc").toList a = some (0, prog.map (·.toNat)) := by
  unfold segwitOf
  rw [hrp_eq]
  exact C11.encode_decode (legal_v0 t h)

/-- the P2WPKH address exists and decodes, under the prefix `tb` / `bc`, to witness version 0 and
the 20-byte program HASH160 of the compressed public key -/
theorem p2wpkh_decodes (P : Prims Pt) (t : Bool) (nd : Node) (K : Pt) (hK : pubKey P nd = some K) :
    ∃ a, p2wpkhAddress P t nd = some a ∧
      Bech32.decode (if t then "tb" else "bc").toList a =
        some (0, (hash160 P (P.curve.sec true K)).map (·.toNat)) := by
  unfold p2wpkhAddress
  rw [hK, Option.bind_some]
  exact segwitOf_decodes t (Or.inl (hash160_length P _))

/-- the P2WSH address exists and decodes, under the prefix `tb` / `bc`, to witness version 0 and
the 32-byte program SHA-256 of the witness script `51 21 <compressed key> 51 ae` -/
theorem p2wsh_decodes (P : Prims Pt) (hsha : ∀ x, (P.sha256 x).length = 32) (t : Bool) (nd : Node)
    (K : Pt) (hK : pubKey P nd = some K) (hsec : (P.curve.sec true K).length = 33) :
    ∃ a, p2wshAddress P t nd = some a ∧
      Bech32.decode (if t then "tb" else "bc").toList a =
        some (0, (P.sha256 ([0x51, 0x21] ++ P.curve.sec true K ++ [0x51, 0xae])).map (·.toNat)) := by
  unfold p2wshAddress
  rw [hK, Option.bind_some, witness_script_template P K hsec, Option.bind_some]
  exact segwitOf_decodes t (Or.inr (hsha _))

/-- each address is literally the standard encoding of its payload: Base58Check of
`version ‖ HASH160(…)`, or the segwit (BIP 173) encoding of witness version 0 with the hash as
program — so whatever a decoder inverting these encodings returns is that payload -/
theorem addresses_are_encodings (P : Prims Pt) (hsha : ∀ x, (P.sha256 x).length = 32) (t : Bool)
    (nd : Node) (K : Pt) (hK : pubKey P nd = some K) (hsec : (P.curve.sec true K).length = 33) :
    let sec := P.curve.sec true K
    let ws := [0x51, 0x21] ++ sec ++ [0x51, 0xae]
    let hrp := (if t then "tb" else "bc").toList
    p2pkhAddress P t nd =
      some (Base58.encodeCheck P.hash256 ([if t then 0x6f else 0x00] ++ hash160 P sec)) ∧
    p2shP2wpkhAddress P t nd =
      some (Base58.encodeCheck P.hash256
        ([if t then 0xc4 else 0x05] ++ hash160 P ([0x00, 0x14] ++ hash160 P sec))) ∧
    p2shP2wshAddress P t nd =
      some (Base58.encodeCheck P.hash256
        ([if t then 0xc4 else 0x05] ++ hash160 P ([0x00, 0x20] ++ P.sha256 ws))) ∧
    p2wpkhAddress P t nd = Bech32.encode hrp 0 (hash160 P sec) ∧
    p2wshAddress P t nd = Bech32.encode hrp 0 (P.sha256 ws) := by
  intro sec ws hrp
  have hws : rawSerialize (witnessScript P K) = some ws := witness_script_template P K hsec
  refine ⟨?_, ?_, ?_, ?_, ?_⟩
  · unfold p2pkhAddress
    rw [hK]
    cases t <;> rfl
  · unfold p2shP2wpkhAddress
    rw [hK, Option.bind_some]
    show Option.map _ (rawSerialize (p2wpkhScript (hash160 P (P.curve.sec true K)))) = _
    rw [C19.p2wpkh_template (hash160_length P _), Option.map_some]
    cases t <;> rfl
  · unfold p2shP2wshAddress
    rw [hK, Option.bind_some, hws, Option.bind_some, C19.p2wsh_template (hsha _), Option.map_some]
    cases t <;> rfl
  · unfold p2wpkhAddress segwitOf
    rw [hK, Option.bind_some, hrp_eq]
    rfl
  · unfold p2wshAddress segwitOf
    rw [hK, Option.bind_some, hws, Option.bind_some, hrp_eq]

/-- a node without a usable key (`public_key` raises) has none of the five addresses -/
theorem no_key_no_address (P : Prims Pt) (t : Bool) (nd : Node) (hK : pubKey P nd = none) :
    p2pkhAddress P t nd = none ∧ p2wpkhAddress P t nd = none ∧ p2shP2wpkhAddress P t nd = none ∧
    p2wshAddress P t nd = none ∧ p2shP2wshAddress P t nd = none := by
  simp [p2pkhAddress, p2wpkhAddress, p2shP2wpkhAddress, p2wshAddress, p2shP2wshAddress, hK]

/-- for every well-formed node over a lawful curve (either network) all five addresses exist and
decode to the expected version / witness version and hash -/
theorem addresses_of_wf (P : Prims Pt) (hsha : ∀ x, (P.sha256 x).length = 32)
    (hC : CurveLaws P.curve) (t : Bool) (nd : Node) (hwf : nd.WF P) :
    ∃ K, pubKey P nd = some K ∧
      (∃ a, p2pkhAddress P t nd = some a ∧ Base58.decodeCheck P.hash256 a =
        some ([if t then 0x6f else 0x00] ++ hash160 P (P.curve.sec true K))) ∧
      (∃ a, p2wpkhAddress P t nd = some a ∧ Bech32.decode (if t then "tb" else "bc").toList a =
        some (0, (hash160 P (P.curve.sec true K)).map (·.toNat))) ∧
      (∃ a, p2shP2wpkhAddress P t nd = some a ∧ Base58.decodeCheck P.hash256 a =
        some ([if t then 0xc4 else 0x05] ++
          hash160 P ([0x00, 0x14] ++ hash160 P (P.curve.sec true K)))) ∧
      (∃ a, p2wshAddress P t nd = some a ∧ Bech32.decode (if t then "tb" else "bc").toList a =
        some (0, (P.sha256 ([0x51, 0x21] ++ P.curve.sec true K ++ [0x51, 0xae])).map (·.toNat))) ∧
      (∃ a, p2shP2wshAddress P t nd = some a ∧ Base58.decodeCheck P.hash256 a =
        some ([if t then 0xc4 else 0x05] ++
          hash160 P ([0x00, 0x20] ++ P.sha256 ([0x51, 0x21] ++ P.curve.sec true K ++ [0x51, 0xae])))) := by
  obtain ⟨K, hK, hsec, _⟩ := XKey.pubKey_wf hC hwf
  exact ⟨K, hK, p2pkh_decodes P hsha t nd K hK, p2wpkh_decodes P t nd K hK,
    p2sh_p2wpkh_decodes P hsha t nd K hK, p2wsh_decodes P hsha t nd K hK hsec,
    p2sh_p2wsh_decodes P hsha t nd K hK hsec⟩

/-- non-vacuity: the toy primitives satisfy every hypothesis used above, for a private and for a
public node -/
example : (∀ x, (Toy.prims.sha256 x).length = 32) ∧ CurveLaws Toy.prims.curve ∧
    Toy.prvNode.WF Toy.prims ∧ Toy.pubNode.WF Toy.prims ∧
    (∃ K, pubKey Toy.prims Toy.pubNode = some K ∧ (Toy.prims.curve.sec true K).length = 33) :=
  ⟨fun _ => by simp [Toy.prims], Toy.laws, Toy.prvNode_wf, Toy.pubNode_wf,
    (XKey.pubKey_wf Toy.laws Toy.pubNode_wf).imp fun _ h => ⟨h.1, h.2.1⟩⟩

/-! ### 6. RIPEMD-160: padding and Merkle–Damgård structure -/

/-- the number of zero bytes `(119 - len) & 63` is below 64, makes `len + 1 + pad + 8` a multiple
of 64, is the least such number, and is the residue of `119 - len` modulo 64 on integers -/
theorem padLen_spec (l : Nat) :
    (l + 1 + Ripemd.padLen l + 8) % 64 = 0 ∧ Ripemd.padLen l < 64 ∧
    (∀ p, (l + 1 + p + 8) % 64 = 0 → Ripemd.padLen l ≤ p) ∧
    ((119 : Int) - (l : Int)) % 64 = (Ripemd.padLen l : Int) :=
  ⟨padLen_total l, padLen_lt l, padLen_least l, padLen_int l⟩

/-- the padded message is a whole number of 64-byte blocks, at least one and at most
`len / 64 + 2` of them -/
theorem padded_length (data : Bytes) :
    (padded data).length % 64 = 0 ∧
    (padded data).length = data.length + 1 + Ripemd.padLen data.length + 8 ∧
    data.length / 64 + 1 ≤ (padded data).length / 64 ∧
    (padded data).length / 64 ≤ data.length / 64 + 2 := by
  have h := RipemdL.padded_length data
  have := padLen_lt data.length
  have := padLen_total data.length
  refine ⟨padded_length_mod data, h, ?_, ?_⟩ <;> omega

/-- the padded message is `data ‖ 80 ‖ zeros ‖ bit length (64-bit little-endian)` and the bit
length is read back from the last 8 bytes whenever it fits 64 bits -/
theorem padded_shape (data : Bytes) :
    padded data = data ++ [0x80] ++ List.replicate (Ripemd.padLen data.length) 0 ++
      leFixed 8 (8 * data.length) ∧
    (8 * data.length < 2 ^ 64 → leToNat (lastN 8 (padded data)) = 8 * data.length) := by
  refine ⟨rfl, fun h => ?_⟩
  have hl : lastN 8 (padded data) = leFixed 8 (8 * data.length) := by
    have h8 : (leFixed 8 (8 * data.length)).length = 8 := RipemdL.leFixed_length _ _
    unfold lastN padded
    generalize leFixed 8 (8 * data.length) = tl at h8 ⊢
    generalize data ++ [0x80] ++ List.replicate (Ripemd.padLen data.length) 0 = hd
    rw [List.length_append, h8, Nat.add_sub_cancel, List.drop_left]
  rw [hl]
  exact C19.leToNat_leFixed (by simpa using h)

/-- for data of EVERY length the two-phase loop of the code (full blocks of the data, then the
final blocks) is the one-pass Merkle–Damgård iteration of `compress` over the padded message,
started from the initial state, followed by the little-endian output of the five words -/
theorem ripemd_is_md (data : Bytes) :
    Ripemd.ripemd160 data =
      out (Ripemd.absorb ((padded data).length / 64) Ripemd.initState (padded data)) ∧
    Ripemd.ripemd160 data =
      out ((List.range ((padded data).length / 64)).foldl
        (fun st i => Ripemd.compress st (((padded data).drop (64 * i)).take 64)) Ripemd.initState) := by
  refine ⟨ripemd160_eq data, ?_⟩
  rw [ripemd160_eq data, absorb_eq_mdIter]
  rfl

/-- absorbing `a ‖ b`, where `a` consists of `m` whole blocks, is absorbing `a` and then `b` -/
theorem absorb_append (m k : Nat) (s : Ripemd.State) (a b : Bytes) (h : a.length = 64 * m) :
    Ripemd.absorb (m + k) s (a ++ b) = Ripemd.absorb k (Ripemd.absorb m s a) b :=
  RipemdL.absorb_append m k s a b h

example : (List.replicate 128 (0 : UInt8)).length = 64 * 2 := by simp

/-- the digest is 20 bytes: each state word is written as its 4 little-endian bytes -/
theorem out_spec (s : Ripemd.State) :
    (out s).length = 20 ∧
    out s = Ripemd.u32LE s.h0 ++ Ripemd.u32LE s.h1 ++ Ripemd.u32LE s.h2 ++ Ripemd.u32LE s.h3 ++
      Ripemd.u32LE s.h4 ∧
    ∀ w : UInt32, Ripemd.u32LE w = leFixed 4 w.toNat ∧ leToNat (Ripemd.u32LE w) = w.toNat := by
  refine ⟨by simp [out, RipemdL.leFixed_length], by simp only [out, u32LE_eq], fun w => ⟨u32LE_eq w, ?_⟩⟩
  rw [u32LE_eq]
  exact C19.leToNat_leFixed (by have := w.toNat_lt; simpa using this)

/-! ### 7. RIPEMD-160: tables and constants -/

/-- the permutation ρ of the specification -/
def rho : List Nat := [7, 4, 13, 1, 10, 6, 15, 3, 12, 0, 9, 5, 2, 14, 11, 8]

/-- the tables of `ripemd.py` are those of the RIPEMD-160 specification: sizes, ranges, each
16-step group reads every message word exactly once, the published constants and initial value,
and the generating formulas (left line: identity, then ρ applied repeatedly; right line:
π(i) = 9i+5 mod 16, then ρ applied repeatedly) -/
theorem ripemd_tables :
    -- sizes
    Generated.rmdML.length = 80 ∧ Generated.rmdMR.length = 80 ∧ Generated.rmdRL.length = 80 ∧
    Generated.rmdRR.length = 80 ∧ Generated.rmdKL.length = 5 ∧ Generated.rmdKR.length = 5 ∧
    Generated.rmdInit.length = 5 ∧
    -- ranges
    (∀ x ∈ Generated.rmdML, x < 16) ∧ (∀ x ∈ Generated.rmdMR, x < 16) ∧
    (∀ r ∈ Generated.rmdRL, 5 ≤ r ∧ r ≤ 15) ∧ (∀ r ∈ Generated.rmdRR, 5 ≤ r ∧ r ≤ 15) ∧
    -- each group of 16 steps uses each of the 16 message words once
    (∀ j < 5, ((Generated.rmdML.drop (16 * j)).take 16).Perm (List.range 16)) ∧
    (∀ j < 5, ((Generated.rmdMR.drop (16 * j)).take 16).Perm (List.range 16)) ∧
    -- constants
    Generated.rmdKL = [0, 0x5a827999, 0x6ed9eba1, 0x8f1bbcdc, 0xa953fd4e] ∧
    Generated.rmdKR = [0x50a28be6, 0x5c4dd124, 0x6d703ef3, 0x7a6d76e9, 0] ∧
    Generated.rmdInit = [0x67452301, 0xefcdab89, 0x98badcfe, 0x10325476, 0xc3d2e1f0] ∧
    Ripemd.initState = ⟨0x67452301, 0xefcdab89, 0x98badcfe, 0x10325476, 0xc3d2e1f0⟩ ∧
    -- generating formulas
    (∀ i < 16, Ripemd.tbl Generated.rmdML i = i) ∧
    (∀ i < 16, Ripemd.tbl Generated.rmdMR i = (9 * i + 5) % 16) ∧
    (∀ j < 4, ∀ i < 16, Ripemd.tbl Generated.rmdML (16 * (j + 1) + i) =
      Ripemd.tbl rho (Ripemd.tbl Generated.rmdML (16 * j + i))) ∧
    (∀ j < 4, ∀ i < 16, Ripemd.tbl Generated.rmdMR (16 * (j + 1) + i) =
      Ripemd.tbl rho (Ripemd.tbl Generated.rmdMR (16 * j + i))) ∧
    rho.Perm (List.range 16) := by
  refine ⟨rfl, rfl, rfl, rfl, rfl, rfl, rfl, by decide, by decide, by decide, by decide, by decide,
    by decide, by decide, by decide, by decide, by decide, by decide, by decide, by decide,
    by decide, by decide⟩

/-! ### 8. RIPEMD-160: inputs of the compression function, published test vectors -/

/-- the 16 message words of a 64-byte block are the little-endian integers of its consecutive
4-byte groups, and `rol` is the 32-bit left rotation for every rotation amount that occurs
(the table entries and the constant 10) -/
theorem compress_inputs :
    (∀ blk : Bytes, blk.length = 64 → (Ripemd.wordsLE blk).length = 16 ∧
      ∀ i < 16, ((Ripemd.wordsLE blk).toArray.getD i 0).toNat = leToNat ((blk.drop (4 * i)).take 4)) ∧
    (∀ (x : UInt32) (r : Nat), r ∈ Generated.rmdRL ∨ r ∈ Generated.rmdRR ∨ r = 10 →
      (Ripemd.rol x r).toBitVec = x.toBitVec.rotateLeft r) := by
  refine ⟨fun blk hl => ⟨by rw [wordsLE_length, hl], fun i hi => ?_⟩, fun x r hr => ?_⟩
  · rw [← wordsLE_getD blk i (by omega)]
    simp
  · have hL : ∀ r ∈ Generated.rmdRL, 5 ≤ r ∧ r ≤ 15 := by decide
    have hR : ∀ r ∈ Generated.rmdRR, 5 ≤ r ∧ r ≤ 15 := by decide
    have : 5 ≤ r ∧ r ≤ 15 := by
      rcases hr with h | h | h
      · exact hL r h
      · exact hR r h
      · omega
    exact rol_eq_rotateLeft x r (by omega) (by omega)

/-- the bytes of an ASCII string -/
def ascii (s : String) : Bytes := s.toList.map fun c => UInt8.ofNat c.toNat

set_option maxRecDepth 100000 in
/-- the model reproduces published RIPEMD-160 test vectors, including a message whose padding
spills into a second final block (56 bytes) and one with a full data block (80 bytes) -/
theorem ripemd_test_vectors :
    toHex (Ripemd.ripemd160 (ascii "")) = "9c1185a5c5e9fc54612808977ee8f548b2258d31".toList ∧
    toHex (Ripemd.ripemd160 (ascii "abc")) = "8eb208f7e05d987a9b044a8e98c6b087f15a0bfc".toList ∧
    toHex (Ripemd.ripemd160 (ascii "abcdbcdecdefdefgefghfghighijhijkijkljklmklmnlmnomnopnopq")) =
      "12a053384a9c0c88e405a06c27dcf49ada62eb2b".toList ∧
    toHex (Ripemd.ripemd160
        (ascii "12345678901234567890123456789012345678901234567890123456789012345678901234567890")) =
      "9b752e45573d4b39f4dbd3323cab82bf63326bfb".toList := by
  refine ⟨by decide +kernel, by decide +kernel, by decide +kernel, by decide +kernel⟩

end BtcHd.C05
