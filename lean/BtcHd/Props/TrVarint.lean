/-
Translated Python (`BtcHd.Code`, generated from /repo by harness/translate.py) = hand-written model:
`helper.py` `int_to_little_endian` and `encode_varint`.
-/
import BtcHd.Generated.Code
import BtcHd.Model.Varint

namespace BtcHd.Translated
open BtcHd

/-- The translated `int_to_little_endian` is the model's `toBytesLE` (`none` = OverflowError). -/
theorem int_to_little_endian_eq (n length : Nat) :
    Code.int_to_little_endian n length = toBytesLE length n := by
  unfold Code.int_to_little_endian
  cases toBytesLE length n <;> rfl

/-- The translated `encode_varint` is the model's `encodeVarint`, for every natural number. -/
theorem encodeVarint_eq (i : Nat) : Code.encode_varint i = Varint.encodeVarint i := by
  unfold Code.encode_varint Varint.encodeVarint
  simp only [int_to_little_endian_eq, toBytesLE]
  have e1 : (256 : Nat) ^ 1 = 256 := by decide
  have e2 : (256 : Nat) ^ 2 = 65536 := by decide
  have e4 : (256 : Nat) ^ 4 = 4294967296 := by decide
  have e8 : (256 : Nat) ^ 8 = 18446744073709551616 := by decide
  simp only [e1, e2, e4, e8]
  repeat' split
  all_goals first | rfl | omega

example : Code.encode_varint 252 = some [252] := by decide +kernel
example : Code.encode_varint 253 = some [253, 253, 0] := by decide +kernel
example : Code.encode_varint 65536 = some [254, 0, 0, 1, 0] := by decide +kernel
example : Code.encode_varint (2 ^ 64) = none := by decide +kernel
example : Code.int_to_little_endian 256 1 = none := by decide +kernel

end BtcHd.Translated
