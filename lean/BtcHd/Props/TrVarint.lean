/-
Translated Python (`BtcHd.Code`, generated from /repo by harness/translate.py) = hand-written model:
`helper.py` `int_to_little_endian`, `encode_varint`, `read_exact`, `read_varint` and `script.py` `Script.raw_serialize`,
`Script.serialize`, `Script.parse` — the whole wire format of C19.
-/
import BtcHd.Generated.Code
import BtcHd.Model.Varint
import BtcHd.Model.Script

namespace BtcHd.Translated
open BtcHd

/-- The translated `int_to_little_endian` is the model's `toBytesLE` (`none` = OverflowError). -/
theorem int_to_little_endian_eq (n length : Nat) :
    Code.int_to_little_endian n length = toBytesLE length n := by
  unfold Code.int_to_little_endian
  cases toBytesLE length n <;> rfl

/-- The translated `encode_varint` is the model's `encodeVarint`, for every natural number. -/
theorem encodeVarint_eq (i : Nat) : Code.encode_varint i = Varint.encodeVarint i := by
  unfold Code.encode_varint Varint.encodeVarint
  simp only [int_to_little_endian_eq, toBytesLE]
  have e1 : (256 : Nat) ^ 1 = 256 := by decide
  have e2 : (256 : Nat) ^ 2 = 65536 := by decide
  have e4 : (256 : Nat) ^ 4 = 4294967296 := by decide
  have e8 : (256 : Nat) ^ 8 = 18446744073709551616 := by decide
  simp only [e1, e2, e4, e8]
  repeat' split
  all_goals first | rfl | omega

section script
open BtcHd.Varint BtcHd.Script

/-- The translated `read_exact` (on the list of unread bytes, returning the rest) is the model's `readExact`. -/
theorem read_exact_eq (s : Bytes) (n : Nat) : Code.read_exact s n = readExact s n := by
  unfold Code.read_exact readExact
  simp only []
  by_cases h : n ≤ s.length
  · have : (s.take n).length = n := by simp [List.length_take, h]
    simp [h, this]
  · have : (s.take n).length ≠ n := by rw [List.length_take]; omega
    simp only [h, if_false]
    rw [if_pos (by simpa using this)]
    rfl

/-- The translated `read_varint` is the model's `readVarint`: a truncated varint is `none`. -/
theorem read_varint_eq (s : Bytes) : Code.read_varint s = readVarint s := by
  unfold Code.read_varint readVarint
  simp only [read_exact_eq, Code.little_endian_to_int, Id.run_pure]
  cases s with
  | nil => rfl
  | cons i rest =>
    have h1 : readExact (i :: rest) 1 = some ([i], rest) := by simp [readExact]
    simp only [h1, Option.bind_eq_bind, Option.bind_some, List.getElem!_cons_zero]
    have t : ∀ k : Nat, k < 256 → (i.toNat = k ↔ i = UInt8.ofNat k) := by
      intro k hk
      constructor
      · intro h; apply UInt8.toNat_inj.mp; simp [h, Nat.mod_eq_of_lt hk]
      · intro h; simp [h, Nat.mod_eq_of_lt hk]
    have t253 : (i.toNat = 253) ↔ i = 253 := t 253 (by decide)
    have t254 : (i.toNat = 254) ↔ i = 254 := t 254 (by decide)
    have t255 : (i.toNat = 255) ↔ i = 255 := t 255 (by decide)
    simp only [t253, t254, t255]
    have m : ∀ k, ((readExact rest k).bind fun __x => (pure (leToNat __x.fst, __x.snd) : Option _)) =
        Option.map (fun x => (leToNat x.fst, x.snd)) (readExact rest k) := by
      intro k; cases readExact rest k <;> rfl
    simp only [m]
    rfl


theorem forIn_append_option {α : Type} (g : α → Option Bytes) (l : List α) (acc : Bytes)
    (ser : List α → Option Bytes) (h0 : ser [] = some [])
    (hc : ∀ c cs, ser (c :: cs) = (g c).bind fun a => (ser cs).map (a ++ ·)) :
    forIn (m := Option) l acc (fun c r => (g c).bind fun a => pure (ForInStep.yield (r ++ a))) =
      (ser l).map (acc ++ ·) := by
  induction l generalizing acc with
  | nil => simp [h0]
  | cons c cs ih =>
    rw [List.forIn_cons, hc]
    cases g c with
    | none => rfl
    | some a =>
      simp only [Option.bind_eq_bind, Option.bind_some, bind_pure_comp]
      show forIn cs (acc ++ a) _ = _
      rw [ih]
      cases ser cs <;> simp

/-- The translated `Script.raw_serialize` is the model's `rawSerialize`: push forms at 75/76/255/256/520, refusal above. -/
theorem raw_serialize_eq (cmds : List Cmd) : Code.raw_serialize cmds = rawSerialize cmds := by
  unfold Code.raw_serialize
  simp only [int_to_little_endian_eq]
  suffices h : ∀ F : Cmd → Bytes → Option (ForInStep Bytes),
      (∀ c r, F c r = (serCmd c).bind fun a => pure (ForInStep.yield (r ++ a))) →
      forIn cmds ([] : Bytes) F = rawSerialize cmds by
    rw [bind_pure]
    apply h
    intro cmd r
    cases cmd with
    | op b => rfl
    | data d =>
      simp only [serCmd]
      by_cases h1 : d.length ≤ 75
      · have : toBytesLE 1 d.length = some (leFixed 1 d.length) := by
          simp [toBytesLE]; omega
        simp [h1, this, List.append_assoc]
      · by_cases h2 : 75 < d.length ∧ d.length < 256
        · have a1 : toBytesLE 1 d.length = some (leFixed 1 d.length) := by
            simp [toBytesLE]; omega
          have a2 : toBytesLE 1 76 = some [76] := by decide
          simp [h1, h2, a1, a2, List.append_assoc]
        · by_cases h3 : 256 ≤ d.length ∧ d.length ≤ 520
          · have a1 : toBytesLE 2 d.length = some (leFixed 2 d.length) := by
              simp [toBytesLE]; omega
            have a2 : toBytesLE 1 77 = some [77] := by decide
            simp [h1, h2, h3, a1, a2, List.append_assoc]
          · simp [h1, h2, h3]
  intro F hF
  have : F = fun c r => (serCmd c).bind fun a => pure (ForInStep.yield (r ++ a)) := by
    funext c r; exact hF c r
  rw [this, forIn_append_option serCmd cmds [] rawSerialize rfl (fun c cs => rfl)]
  cases rawSerialize cmds <;> simp

/-- The translated `Script.serialize` is the model's `serialize`. -/
theorem serialize_eq (cmds : List Cmd) : Code.serialize cmds = Script.serialize cmds := by
  unfold Code.serialize Script.serialize
  simp only [raw_serialize_eq, encodeVarint_eq]
  cases rawSerialize cmds with
  | none => rfl
  | some raw =>
    simp only [Option.bind_eq_bind, Option.bind_some]
    cases encodeVarint raw.length <;> rfl

/-- the `while count < length` loop as translated (state = stream, commands so far, count) against `parseLoop` -/
theorem forIn_parseLoop {α : Type} (length : Nat) (l : List α) (st : Bytes × List Cmd × Nat) :
    forIn (m := Option) l st (fun _ st =>
      if ¬ st.2.2 < length then pure (ForInStep.done st)
      else (parseOne st.1).bind fun r => pure (ForInStep.yield (r.2.2, st.2.1 ++ [r.1], st.2.2 + r.2.1))) =
    (parseLoop l.length length st.2.2 st.1).map fun r => (r.2.2, st.2.1 ++ r.1, r.2.1) := by
  induction l generalizing st with
  | nil => simp [parseLoop]
  | cons a l ih =>
    rw [List.forIn_cons]
    simp only [List.length_cons, parseLoop]
    by_cases hc : st.2.2 < length
    · simp only [hc, not_true_eq_false, if_false, if_true]
      cases parseOne st.1 with
      | none => rfl
      | some r =>
        simp only [Option.bind_eq_bind, Option.bind_some, bind_pure_comp]
        show forIn l (r.2.2, st.2.1 ++ [r.1], st.2.2 + r.2.1) _ = _
        rw [ih]
        cases parseLoop l.length length (st.2.2 + r.2.1) r.2.2 <;> simp
    · simp [hc]

theorem getElem!_take_one (rest : Bytes) (cur : UInt8) : (List.take 1 (cur :: rest))[0]! = cur := by simp

/-- The translated `Script.parse` (state passing for the stream, `while` loop with fuel = unread bytes + 1) is the
model's `parse`, on every byte string. -/
theorem script_parse_eq (s : Bytes) : Code.script_parse s = Script.parse s := by
  unfold Code.script_parse Script.parse
  simp only [read_varint_eq, read_exact_eq, Code.little_endian_to_int, Id.run_pure]
  cases readVarint s with
  | none => rfl
  | some lv =>
    obtain ⟨length, body⟩ := lv
    simp only [Option.bind_eq_bind, Option.bind_some]
    suffices h : ∀ F : Nat → Bytes × List Cmd × Nat → Option (ForInStep (Bytes × List Cmd × Nat)),
        (∀ x st, F x st = if ¬ st.2.2 < length then pure (ForInStep.done st)
          else (parseOne st.1).bind fun r => pure (ForInStep.yield (r.2.2, st.2.1 ++ [r.1], st.2.2 + r.2.1))) →
        ((forIn (List.range (body.length + 1)) (body, ([] : List Cmd), 0) F).bind fun __s =>
            if __s.2.2 ≠ length then (none : Option Unit).bind fun _ => pure (__s.2.1, __s.1)
            else pure (__s.2.1, __s.1)) =
          (parseLoop (body.length + 1) length 0 body).bind fun x =>
            if x.2.1 = length then some (x.1, x.2.2) else none by
      apply h
      intro x st
      by_cases hc : st.2.2 < length
      · simp only [hc, not_true_eq_false, if_false]
        cases hs : st.1 with
        | nil => simp [readExact, parseOne]
        | cons cur rest =>
          have h1 : readExact (cur :: rest) 1 = some ([cur], rest) := by simp [readExact]
          simp only [h1, Option.bind_eq_bind, Option.bind_some, List.getElem!_cons_zero, parseOne]
          by_cases c1 : 1 ≤ cur.toNat ∧ cur.toNat ≤ 75
          · simp only [c1, and_self, if_true]
            cases readExact rest cur.toNat <;> simp [Nat.add_assoc]
          · simp only [c1, if_false]
            by_cases c2 : cur.toNat = 76
            · simp only [c2, if_true]
              cases readExact rest 1 with
              | none => rfl
              | some l1 =>
                simp only [Option.bind_some]
                cases readExact l1.2 (leToNat l1.1) <;> simp [Nat.add_assoc, Nat.add_comm, Nat.add_left_comm]
            · simp only [c2, if_false]
              by_cases c3 : cur.toNat = 77
              · simp only [c3, if_true]
                cases readExact rest 2 with
                | none => rfl
                | some l1 =>
                  simp only [Option.bind_some]
                  cases readExact l1.2 (leToNat l1.1) <;> simp [Nat.add_assoc, Nat.add_comm, Nat.add_left_comm]
              · simp [c3]
      · simp [hc]
    intro F hF
    have : F = fun _ st => if ¬ st.2.2 < length then pure (ForInStep.done st)
        else (parseOne st.1).bind fun r => pure (ForInStep.yield (r.2.2, st.2.1 ++ [r.1], st.2.2 + r.2.1)) := by
      funext x st; exact hF x st
    rw [this, forIn_parseLoop, List.length_range]
    cases parseLoop (body.length + 1) length 0 body with
    | none => rfl
    | some r =>
      simp only [Option.map_some, Option.bind_some, List.nil_append]
      by_cases hl : r.2.1 = length <;> simp [hl]

end script

example : Code.script_parse [3, 0x4d, 0] = none := by decide +kernel
example : Code.script_parse [2, 1, 7, 9] = some ([.data [7]], [9]) := by decide +kernel
example : Code.serialize [.op 0xac, .data [1, 2]] = some [4, 0xac, 2, 1, 2] := by decide +kernel

example : Code.encode_varint 252 = some [252] := by decide +kernel
example : Code.encode_varint 253 = some [253, 253, 0] := by decide +kernel
example : Code.encode_varint 65536 = some [254, 0, 0, 1, 0] := by decide +kernel
example : Code.encode_varint (2 ^ 64) = none := by decide +kernel
example : Code.int_to_little_endian 256 1 = none := by decide +kernel

end BtcHd.Translated
