/-
C10 — Base58Check is lossless and never accepts a string with a wrong checksum.

Property theorems only (helper lemmas are in `Lemmas/Base58.lean`).  The model
(`Model/Base58.lean`) mirrors `helper.py` and is defined over the alphabet
extracted from the source on every run.  The double SHA-256 is a parameter `h`;
only its output length is used.
-/
import BtcHd.Lemmas.Base58

namespace BtcHd.C10
open BtcHd Base58 Digits

/-- the alphabet in the source is the Bitcoin Base58 alphabet -/
theorem alphabet_is_bitcoin :
    alphabet = "123456789ABCDEFGHJKLMNPQRSTUVWXYZabcdefghijkmnopqrstuvwxyz".toList := by decide

/-- 58 distinct characters, none of the look-alikes `0 O I l` -/
theorem alphabet_wellformed :
    alphabet.length = 58 ∧ alphabet.Nodup ∧ '0' ∉ alphabet ∧ 'O' ∉ alphabet ∧ 'I' ∉ alphabet
      ∧ 'l' ∉ alphabet := by decide

/-- shape of every encoding: one `'1'` per leading zero byte, then the base-58
digits of the value (which never start with `'1'`) -/
theorem encode_shape (bs : Bytes) :
    ∃ body, bs = List.replicate (leadingZeros bs) 0 ++ body ∧ body.head? ≠ some 0 ∧
      encode bs = List.replicate (leadingZeros bs) (alphaAt 0)
        ++ (digitsBE 58 (beToNat body)).map alphaAt := by
  obtain ⟨body, h1, h2⟩ := split_leadingZeros bs
  refine ⟨body, h1, h2, ?_⟩
  unfold encode
  rw [encBody_eq, List.append_nil]
  congr 3
  conv_lhs => rw [h1]
  exact beToNat_replicate_zero_append _ _

private theorem digits_head_ne (n : Nat) :
    ((digitsBE 58 n).map alphaAt).head? ≠ some (alphaAt 0) := by
  intro h
  cases hd : digitsBE 58 n with
  | nil => rw [hd] at h; simp at h
  | cons d ds =>
    rw [hd] at h
    simp only [List.map_cons, List.head?_cons, Option.some.injEq] at h
    have hlt : d < 58 := digitsBE_lt (by decide) (by rw [hd]; exact List.mem_cons_self ..)
    have := alphaAt_inj hlt (by decide) h
    subst this
    exact digitsBE_head_ne_zero (b := 58) (n := n) (by rw [hd]; rfl)

/-- leading zero bytes map one-for-one to leading `'1'` characters -/
theorem leading_ones (bs : Bytes) : leadingOnes (encode bs) = leadingZeros bs := by
  obtain ⟨body, _, _, he⟩ := encode_shape bs
  rw [he]
  exact leadingOnes_replicate_append _ _ (digits_head_ne _)

private theorem dropLast_head_ne {t : List Char} {c : Char} (h : t.head? ≠ some c) :
    t.dropLast.head? ≠ some c := by
  cases t with
  | nil => simp at h ⊢
  | cons a as =>
    cases as with
    | nil => simp
    | cons b bs => simpa using h

private theorem leadingOnes_dropLast (z : Nat) (t : List Char) (ht : t ≠ [])
    (h : t.head? ≠ some (alphaAt 0)) :
    leadingOnes (List.replicate z (alphaAt 0) ++ t).dropLast = z := by
  rw [List.dropLast_append_of_ne_nil ht]
  exact leadingOnes_replicate_append _ _ (dropLast_head_ne h)

private theorem leadingOnes_dropLast_replicate (z : Nat) :
    leadingOnes (List.replicate z (alphaAt 0)).dropLast = z - 1 := by
  rw [List.dropLast_replicate]
  have := leadingOnes_replicate_append (z - 1) [] (by simp)
  simpa using this

/-- **decode ∘ encode = id** on every non-empty byte string -/
theorem decode_encode (bs : Bytes) (hne : bs ≠ []) : decode (encode bs) = some bs := by
  obtain ⟨body, h1, h2, he⟩ := encode_shape bs
  set z := leadingZeros bs with hz
  rw [he]
  unfold decode
  rw [decNum_replicate_zero]
  have hnum : decNum ((digitsBE 58 (beToNat body)).map alphaAt) 0 = some (beToNat body) := by
    have := decNum_map (digitsBE 58 (beToNat body)) (fun d hd => digitsBE_lt (by decide) hd) [] 0
    rw [List.append_nil] at this
    rw [this, horner_digitsBE]; rfl
  rw [hnum]
  simp only [Option.map_some]
  by_cases hb : body = []
  · -- all-zero input
    subst hb
    have hzpos : 0 < z := by
      rcases Nat.eq_zero_or_pos z with h0 | h0
      · rw [h0] at h1; simp at h1; exact absurd h1 hne
      · exact h0
    have : beToNat ([] : Bytes) = 0 := rfl
    rw [this, digitsBE_zero]
    simp only [List.map_nil, List.append_nil, numBytes, if_true]
    rw [leadingOnes_dropLast_replicate]
    conv_rhs => rw [h1]
    rw [List.append_nil]
    have : z = (z - 1) + 1 := by omega
    conv_rhs => rw [this, List.replicate_succ']
  · -- there is a non-zero body
    have hN : beToNat body ≠ 0 := by
      intro h0
      have := beMinimal_beToNat body h2
      rw [h0, beMinimal] at this
      simp at this
      exact hb this
    have hD : (digitsBE 58 (beToNat body)).map alphaAt ≠ [] := by
      simp [digitsBE_eq_nil_iff, hN]
    rw [leadingOnes_dropLast z _ hD (digits_head_ne _)]
    simp only [numBytes, hN, if_false]
    rw [beMinimal_beToNat body h2, ← h1]

/-- strings with a character outside the alphabet are rejected -/
theorem decode_rejects_foreign (s : List Char) (h : ∃ c ∈ s, c ∉ alphabet) : decode s = none := by
  unfold decode
  rw [decNum_foreign s 0 h]; rfl

/-- the decoder accepts every string over the alphabet -/
theorem decode_total (s : List Char) (h : ∀ c ∈ s, c ∈ alphabet) : ∃ bs, decode s = some bs := by
  obtain ⟨ds, hlt, rfl⟩ := exists_digits s h
  have := decNum_map ds hlt [] 0
  rw [List.append_nil] at this
  exact ⟨_, by unfold decode; rw [this]; rfl⟩

private theorem ofNat_ne_zero {d : Nat} (h0 : d ≠ 0) (h : d < 256) : UInt8.ofNat d ≠ 0 := by
  intro e
  have := congrArg UInt8.toNat e
  rw [toNat_ofNat_of_lt h] at this
  exact h0 (by simpa using this)

private theorem beMinimal_head_ne (n : Nat) : (beMinimal n).head? ≠ some 0 := by
  rw [beMinimal_eq]
  intro h
  cases hd : digitsBE 256 n with
  | nil => rw [hd] at h; simp at h
  | cons d ds =>
    rw [hd] at h
    simp only [List.map_cons, List.head?_cons, Option.some.injEq] at h
    have hlt : d < 256 := digitsBE_lt (by decide) (by rw [hd]; exact List.mem_cons_self ..)
    have hd0 : d ≠ 0 := by
      intro e; subst e
      exact digitsBE_head_ne_zero (b := 256) (n := n) (by rw [hd]; rfl)
    exact ofNat_ne_zero hd0 hlt h

/-- **encode ∘ decode = id** on every non-empty string over the alphabet -/
theorem encode_decode (s : List Char) (hne : s ≠ []) (h : ∀ c ∈ s, c ∈ alphabet) :
    ∃ bs, decode s = some bs ∧ encode bs = s := by
  obtain ⟨t, h1, h2⟩ := split_leadingOnes s
  set z := leadingOnes s with hz
  have ht : ∀ c ∈ t, c ∈ alphabet := fun c hc => h c (by rw [h1]; exact List.mem_append_right _ hc)
  obtain ⟨ds, hlt, rfl⟩ := exists_digits t ht
  have hnum : decNum s 0 = some (horner 58 ds 0) := by
    rw [h1, decNum_replicate_zero]
    have := decNum_map ds hlt [] 0
    rw [List.append_nil] at this
    rw [this]; rfl
  by_cases hds : ds = []
  · subst hds
    simp only [List.map_nil, List.append_nil] at h1
    have hzpos : 0 < z := by
      rcases Nat.eq_zero_or_pos z with h0 | h0
      · rw [h0] at h1; simp at h1; exact absurd h1 hne
      · exact h0
    refine ⟨List.replicate z 0, ?_, ?_⟩
    · unfold decode
      rw [hnum]
      simp only [Option.map_some, horner_nil, numBytes, if_true]
      rw [h1, leadingOnes_dropLast_replicate]
      have : z = (z - 1) + 1 := by omega
      conv_rhs => rw [this, List.replicate_succ']
    · have hlz : leadingZeros (List.replicate z (0 : UInt8)) = z := by
        have := leadingZeros_replicate_append z [] (by simp)
        simpa using this
      have hval : beToNat (List.replicate z (0 : UInt8)) = 0 := by
        have := beToNat_replicate_zero_append z []
        simpa [beToNat] using this
      unfold encode
      rw [hlz, hval, encBody_eq, digitsBE_zero, h1]
      simp
  · have hhead : ds.head? ≠ some 0 := by
      intro h0
      apply h2
      cases ds with
      | nil => exact absurd rfl hds
      | cons d ds' =>
        simp only [List.head?_cons, Option.some.injEq] at h0
        subst h0; rfl
    set N := horner 58 ds 0 with hNdef
    have hdig : digitsBE 58 N = ds := digitsBE_horner (by decide) ds hlt hhead
    have hN : N ≠ 0 := by
      intro h0
      rw [h0, digitsBE_zero] at hdig
      exact hds hdig.symm
    refine ⟨List.replicate z 0 ++ beMinimal N, ?_, ?_⟩
    · unfold decode
      rw [hnum]
      simp only [Option.map_some, numBytes, hN, if_false]
      rw [h1, leadingOnes_dropLast z _ (by simpa using hds) h2]
    · unfold encode
      rw [leadingZeros_replicate_append z _ (beMinimal_head_ne N), beToNat_replicate_zero_append,
        beToNat_beMinimal, encBody_eq, hdig, List.append_nil, ← h1]

/-! ### the checksummed codec -/

/-- **Soundness**: a payload is returned only when the decoded bytes are that
payload followed by the first four bytes of its hash — in particular the decoded
string holds at least four checksum bytes. -/
theorem decodeCheck_sound (h : Bytes → Bytes) (s : List Char)
    (p : Bytes) (hs : decodeCheck h s = some p) :
    decode s = some (p ++ (h p).take 4) := by
  unfold decodeCheck at hs
  cases hd : decode s with
  | none => rw [hd] at hs; simp at hs
  | some raw =>
    rw [hd] at hs
    simp only [Option.bind_some] at hs
    split at hs
    · next hc =>
      simp only [Option.some.injEq] at hs
      subst hs
      rw [hc]
      unfold dropLastN lastN
      rw [List.take_append_drop]
    · cases hs

/-- **Completeness**: a string decoding to `p ‖ checksum(p)` is accepted with payload `p`. -/
theorem decodeCheck_complete (h : Bytes → Bytes) (hlen : ∀ x, 4 ≤ (h x).length) (s : List Char)
    (p : Bytes) (hs : decode s = some (p ++ (h p).take 4)) : decodeCheck h s = some p := by
  unfold decodeCheck
  rw [hs]
  have hl : ((h p).take 4).length = 4 := by
    rw [List.length_take]; have := hlen p; omega
  have h1 : dropLastN 4 (p ++ (h p).take 4) = p := by
    unfold dropLastN
    rw [List.length_append, hl, Nat.add_sub_cancel, List.take_left']; rfl
  have h2 : lastN 4 (p ++ (h p).take 4) = (h p).take 4 := by
    unfold lastN
    rw [List.length_append, hl, Nat.add_sub_cancel, List.drop_left']; rfl
  simp only [Option.bind_some, h1, h2, if_true]

/-- the checksummed decoder accepts **iff** the checksum matches -/
theorem decodeCheck_iff (h : Bytes → Bytes) (hlen : ∀ x, 4 ≤ (h x).length) (s : List Char)
    (p : Bytes) : decodeCheck h s = some p ↔ decode s = some (p ++ (h p).take 4) :=
  ⟨decodeCheck_sound h s p, decodeCheck_complete h hlen s p⟩

/-- strings with a foreign character are rejected by the checksummed decoder too -/
theorem decodeCheck_rejects_foreign (h : Bytes → Bytes) (s : List Char)
    (hf : ∃ c ∈ s, c ∉ alphabet) : decodeCheck h s = none := by
  unfold decodeCheck
  rw [decode_rejects_foreign s hf]; rfl

/-- strings too short to hold a checksum are rejected: an accepted string decodes
to at least four bytes -/
theorem decodeCheck_needs_four (h : Bytes → Bytes) (hlen : ∀ x, 4 ≤ (h x).length) (s : List Char)
    (p : Bytes) (hs : decodeCheck h s = some p) : ∃ raw, decode s = some raw ∧ 4 ≤ raw.length := by
  refine ⟨_, decodeCheck_sound h s p hs, ?_⟩
  rw [List.length_append, List.length_take]
  have := hlen p; omega

/-- **decodeCheck ∘ encodeCheck = id** for every payload -/
theorem decodeCheck_encodeCheck (h : Bytes → Bytes) (hlen : ∀ x, 4 ≤ (h x).length) (p : Bytes) :
    decodeCheck h (encodeCheck h p) = some p := by
  apply decodeCheck_complete h hlen
  unfold encodeCheck
  apply decode_encode
  intro e
  have h4 := hlen p
  have := congrArg List.length e
  rw [List.length_append, List.length_take, List.length_nil] at this
  omega

/-- non-vacuity: the hypotheses are satisfiable and the round trip is not trivial -/
example : ∃ h : Bytes → Bytes, (∀ x, 4 ≤ (h x).length) ∧
    decodeCheck h (encodeCheck h [0, 1, 2]) = some [0, 1, 2] :=
  ⟨fun _ => [9, 9, 9, 9], by simp, decodeCheck_encodeCheck _ (by simp) _⟩

end BtcHd.C10
