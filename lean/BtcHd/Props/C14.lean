/-
C14 — Watch-only wallets.

"A wallet built from the extended public key of any node produces, for every non-hardened
sub-path, the same public keys, chain codes, depth/fingerprint/child-number metadata and
addresses of all five kinds as the full wallet produces below that node.  It reports itself
watch-only, offers no BIP85 derivation, gives no WIF and no extended private key (an explicit
error or an empty field, never a value), and refuses hardened derivation."

Property theorems only; definitions (`View`, `SamePublic`, `NoZeroIL`, `publicVersions`, …) and
helper lemmas are in `Lemmas/WatchOnly.lean`, the toy non-vacuity instance in
`Lemmas/ToyGroup.lean`.  The curve is abstract: its laws are the explicit hypotheses
`CurveLaws` (C07) and `C02.GroupLaws` (C02); the `IL = 0` corner of C02 is excluded by the
hypothesis `NoZeroIL`, restricted to the derivation steps actually taken.

Model functions: `Wallet.fromExtendedKey`, `Wallet.watchOnly`, `nodeExtendedKeys`,
`nodeExtendedPrivateKey`, `groupRow` / `group`, `bipAccount`, `bip85Data`, `generate`,
`wasabi`, `byPath`, the five address functions (`Model/Wallet.lean`); `ckd`, `derivePath`,
`extendedPublicKey`, `extendedPrivateKey`, `pubKey`, `fingerprint` (`Model/Bip32.lean`).
An error (Python exception) is `none`; an empty field (`None`) is `Json.null`.
-/
import BtcHd.Lemmas.WatchOnly
import BtcHd.Lemmas.ToyGroup

namespace BtcHd.C14
open BtcHd Bip32 Keys Wallet WatchOnly XKey

variable {Pt : Type}

/-! ### 1. the wallet reports itself watch-only -/

/-- a wallet built from a string whose version is one of the six public ones (x/y/z/t/u/v-pub)
is watch-only: its master is a public node, wallet and master take the network of the version,
and no mnemonic / password is stored -/
theorem wo_flags (P : Prims Pt) (s : List Char) (w : Wallet) (payload : Bytes)
    (h : fromExtendedKey P s = some w) (hd : Base58.decodeCheck P.hash256 s = some payload)
    (hv : beToNat (payload.take 4) ∈ publicVersions) :
    w.watchOnly = true ∧ w.master.isPrv = false ∧
      w.testnet = decide (beToNat (payload.take 4) ∈ testnetPublicVersions) ∧
      w.master.testnet = w.testnet ∧ w.mnemonic = none ∧ w.password = none := by
  obtain ⟨p', ver, hp, hver, rfl⟩ := (C07.fromExtendedKey_spec P s w).mp h
  rw [hd] at hp
  cases hp
  obtain ⟨ver', hver', hkt, ht⟩ := parse_publicVersions _ hv
  rw [hver] at hver'
  cases hver'
  have hdec : decide (ver.keyType = 0) = false := by rw [hkt]; rfl
  refine ⟨?_, ?_, ht, rfl, rfl, rfl⟩
  · rw [watchOnly_iff]; show decide (ver.keyType = 0) = false; exact hdec
  · show decide (ver.keyType = 0) = false; exact hdec

/-- conversely the version decides: a wallet built by `from_extended_key` is watch-only exactly
when the version of the string is one of the six public ones -/
theorem wo_flags_iff (P : Prims Pt) (s : List Char) (w : Wallet) (payload : Bytes)
    (h : fromExtendedKey P s = some w) (hd : Base58.decodeCheck P.hash256 s = some payload) :
    w.watchOnly = true ↔ beToNat (payload.take 4) ∈ publicVersions := by
  obtain ⟨p', ver, hp, hver, rfl⟩ := (C07.fromExtendedKey_spec P s w).mp h
  rw [hd] at hp
  cases hp
  obtain ⟨_, h0⟩ := keyType_iff hver
  rw [watchOnly_iff]
  show decide (ver.keyType = 0) = false ↔ _
  rw [decide_eq_false_iff_not, h0, Classical.not_not]

/-- the version a (full or watch-only) wallet writes into a node's extended public key is a
public one of the wallet's own network, so importing that string gives a watch-only wallet on
the same network -/
theorem wo_flags_of_wallet_xpub (P : Prims Pt) (W : Wallet) (nd : Node) (s : List Char) (w : Wallet)
    (hs : nodeExtendedPublicKey P W nd = some s) (h : fromExtendedKey P s = some w)
    (hlen : ∀ x, 4 ≤ (P.hash256 x).length) :
    w.watchOnly = true ∧ w.testnet = W.testnet := by
  unfold nodeExtendedPublicKey at hs
  obtain ⟨v, hv, hx⟩ := Option.bind_eq_some_iff.mp hs
  obtain ⟨b, hver⟩ := nodeVersionInt_pub hv
  unfold extendedPublicKey at hx
  obtain ⟨ser, hser, rfl⟩ := Option.map_eq_some_iff.mp hx
  have hv32 := serializePublic_some hser
  unfold serializePublic at hser
  obtain ⟨K, _, hser⟩ := Option.bind_eq_some_iff.mp hser
  have hl := serializeWith_layout hser
  subst hl
  simp only [Option.getD_some] at h hv32
  rw [C07.fromExtendedKey_encodeCheck P hlen _ v hv32 (layout_take4 _ _ _) _ hver] at h
  cases h
  exact ⟨by rw [watchOnly_iff]; rfl, rfl⟩

/-! ### 2. no private material: empty field or error, never a value -/

/-- every node a watch-only wallet can derive (any index list) is a public node -/
theorem wo_nodes_public (P : Prims Pt) (w : Wallet) (hw : w.watchOnly = true) (is : List Nat)
    (c : Node) (h : derivePath P w.master is = some c) : c.isPrv = false :=
  derivePath_public P h ((watchOnly_iff w).mp hw)

/-- every node `by_path` returns in a watch-only wallet is a public node -/
theorem wo_byPath_public (P : Prims Pt) (w : Wallet) (hw : w.watchOnly = true) (s : List Char)
    (c : Node) (h : byPath P w s = some c) : c.isPrv = false := by
  unfold byPath at h
  obtain ⟨p, _, hp⟩ := Option.bind_eq_some_iff.mp h
  exact wo_nodes_public P w hw _ c hp

/-- a public node has no extended private key: `node_extended_private_key` raises (in any
wallet), and the node itself has no `serialize_private` / `extended_private_key`, whatever the
version -/
theorem wo_no_extended_private_key (P : Prims Pt) (w : Wallet) (c : Node) (hc : c.isPrv = false)
    (v : Option Nat) :
    nodeExtendedPrivateKey P w c = none ∧ extendedPrivateKey P c v = none ∧
      serializePrivate P c v = none :=
  ⟨nodeExtendedPrivateKey_public P w hc, extendedPrivateKey_public P hc v,
    serializePrivate_public P hc v⟩

/-- a well-formed public node holds no scalar at all: reading `private_key` off its 33 key bytes
(which start with 02 / 03) is refused, so nothing WIF-like can be computed from it -/
theorem wo_no_scalar (P : Prims Pt) (hC : CurveLaws P.curve) (c : Node) (hwf : c.WF P)
    (hc : c.isPrv = false) : prvKey P c = none :=
  prvKey_public_wf P hC hwf hc

/-- `node_extended_keys` of a watch-only wallet, for any node: exactly the path, the extended
public key, and `"prv": None` -/
theorem wo_extended_keys_prv_null (P : Prims Pt) (w : Wallet) (hw : w.watchOnly = true) (nd : Node)
    (j : Json) (h : nodeExtendedKeys P w nd = some j) :
    ∃ pub, nodeExtendedPublicKey P w nd = some pub ∧
      j = .obj [("path".toList, .str (nodeRepr nd)), ("pub".toList, .str pub),
                ("prv".toList, .null)] := by
  rw [nodeExtendedKeys_wo P ((watchOnly_iff w).mp hw)] at h
  obtain ⟨pub, hpub, rfl⟩ := Option.map_eq_some_iff.mp h
  exact ⟨pub, hpub, rfl⟩

/-- a paper-wallet row of a watch-only wallet is `[path, address, sec-hex, None]`: no WIF -/
theorem wo_row_no_wif (P : Prims Pt) (w : Wallet) (hw : w.watchOnly = true)
    (addr : Node → Option (List Char)) (nd : Node) (row : Json)
    (h : groupRow P w addr nd = some row) :
    ∃ a K, addr nd = some a ∧ pubKey P nd = some K ∧
      row = .arr [.str (nodeRepr nd), .str a, .str (toHex (P.curve.sec true K)), .null] := by
  rw [groupRow_wo P ((watchOnly_iff w).mp hw)] at h
  obtain ⟨a, ha, h⟩ := Option.bind_eq_some_iff.mp h
  obtain ⟨K, hK, rfl⟩ := Option.map_eq_some_iff.mp h
  exact ⟨a, K, ha, hK, rfl⟩

/-- every row of a `group` of a watch-only wallet ends in `None` -/
theorem wo_group_no_wif (P : Prims Pt) (w : Wallet) (hw : w.watchOnly = true)
    (addr : Node → Option (List Char)) (nodes : List Node) (rows : List Json)
    (h : group P w addr nodes = some rows) :
    ∀ row ∈ rows, ∃ p a k, row = .arr [.str p, .str a, .str k, .null] := by
  intro row hrow
  obtain ⟨nd, _, hnd⟩ := mapM_some_mem _ nodes rows h row hrow
  obtain ⟨a, K, _, _, rfl⟩ := wo_row_no_wif P w hw addr nd row hnd
  exact ⟨_, _, _, rfl⟩

/-- a watch-only wallet offers no BIP85 derivation (`self.bip85` is `None`) -/
theorem wo_no_bip85 (P : Prims Pt) (w : Wallet) (hw : w.watchOnly = true) : bip85Data P w = none :=
  bip85Data_wo P ((watchOnly_iff w).mp hw)

/-- even when handed the public master of a watch-only wallet directly, every BIP85 application
(entropy, mnemonic, WIF, xprv, hex, password; any arguments) is refused: no derived node holds a
scalar -/
theorem wo_no_bip85_entropy (P : Prims Pt) (hC : CurveLaws P.curve) (w : Wallet)
    (hw : w.watchOnly = true) (hwf : w.master.WF P) :
    (∀ path, Bip85.entropy P w.master path = none) ∧
      (∀ wc i, Bip85.bip39Mnemonic P w.master wc i = none) ∧
      (∀ i, Bip85.wif P w.master i = none) ∧ (∀ i, Bip85.xprv P w.master i = none) ∧
      (∀ n i, Bip85.hex P w.master n i = none) ∧ (∀ n i, Bip85.pwd P w.master n i = none) := by
  have hm := (watchOnly_iff w).mp hw
  have he := bip85_entropy_public P hC hm (shaped_of_wf P hC hwf hm)
  refine ⟨he, fun wc i => ?_, fun i => ?_, fun i => ?_, fun n i => ?_, fun n i => ?_⟩
  · unfold Bip85.bip39Mnemonic; rw [he]; rfl
  · unfold Bip85.wif; rw [he]; rfl
  · unfold Bip85.xprv; rw [he]; rfl
  · unfold Bip85.hex; rw [he]; split <;> rfl
  · unfold Bip85.pwd; rw [he]; split <;> rfl

/-- `bip44` / `bip49` / `bip84` (any purpose, account, interval) are refused by a watch-only
wallet: the account path is hardened -/
theorem wo_no_account (P : Prims Pt) (w : Wallet) (hw : w.watchOnly = true) (purpose : Nat)
    (addr : Node → Option (List Char)) (account a b : Nat) :
    bipAccount P w purpose addr account a b = none :=
  bipAccount_wo P ((watchOnly_iff w).mp hw) purpose addr account a b

/-- `generate` (the full paper-wallet report) and `wasabi_json` are refused by a watch-only
wallet -/
theorem wo_no_report (P : Prims Pt) (w : Wallet) (hw : w.watchOnly = true) (account a b : Nat) :
    generate P w account a b = none ∧ wasabi P w = none :=
  ⟨generate_wo P ((watchOnly_iff w).mp hw) account a b, wasabi_wo P ((watchOnly_iff w).mp hw)⟩

/-! ### 3. hardened derivation is refused -/

/-- a public node refuses every hardened child index -/
theorem wo_refuses_hardened_child (P : Prims Pt) (nd : Node) (hnd : nd.isPrv = false) (i : Nat)
    (hi : 2 ^ 31 ≤ i) : ckd P nd i = none := by
  rw [ckd_pub P hnd]
  exact C02.ckdPub_hardened P nd i hi

/-- `by_path` of a watch-only wallet fails whenever the path string does not parse or parses to
a path containing a hardened level -/
theorem wo_refuses_hardened (P : Prims Pt) (w : Wallet) (hw : w.watchOnly = true) (s : List Char)
    (h : Path.parse s = none ∨ ∃ p, Path.parse s = some p ∧ ∃ i ∈ p.levels, 2 ^ 31 ≤ i) :
    byPath P w s = none := by
  apply byPath_wo_hardened P ((watchOnly_iff w).mp hw)
  intro p hp
  rcases h with h | ⟨p', hp', h⟩
  · rw [h] at hp; cases hp
  · rw [hp] at hp'; cases hp'; exact h

/-- on the text: a path string with a `'` or `h` marker on any of its first five components is
refused by a watch-only wallet -/
theorem wo_refuses_marked (P : Prims Pt) (w : Wallet) (hw : w.watchOnly = true)
    (s root c d : List Char) (comps : List (List Char)) (m : Char)
    (hs : Text.splitOn '/' s = root :: comps) (hc : c ∈ comps.take 5) (hcd : c = d ++ [m])
    (hm : m = '\'' ∨ m = 'h') : byPath P w s = none :=
  byPath_wo_hardened P ((watchOnly_iff w).mp hw) s
    fun _ hp => parse_marked_hardened hs hc hcd hm hp

/-- non-vacuity of `wo_refuses_marked`: `M/0/5h/1` has a marked second component -/
example : Text.splitOn '/' "M/0/5h/1".toList = "M".toList :: ["0".toList, "5h".toList, "1".toList] ∧
    "5h".toList ∈ ["0".toList, "5h".toList, "1".toList].take 5 ∧ "5h".toList = "5".toList ++ ['h'] := by
  decide +kernel

/-! ### 4. public derivation agrees with private derivation -/

/-- **the commuting square**: from a private node `N`, along any list of normal indexes,
deriving privately and then dropping the private part equals dropping the private part of `N`
and deriving publicly (both fail or both succeed with the same node) -/
theorem wo_public (P : Prims Pt) (L : C02.GroupLaws P) (N : Node) (k : Nat)
    (hp : N.isPrv = true) (hk : prvKey P N = some k) (is : List Nat) (his : ∀ i ∈ is, i < 2 ^ 31)
    (hIL : NoZeroIL P N is) :
    (derivePath P N is).bind (C02.neuter P) = (C02.neuter P N).bind (derivePath P · is) :=
  derivePub_neuter_along P L is his N k hp hk hIL

/-- the same, node by node: every private descendant `c` of `N` has its public view `c'` among
the public descendants of the public view of `N`, at the same index list, and conversely -/
theorem wo_public_nodes (P : Prims Pt) (L : C02.GroupLaws P) (N Npub : Node) (k : Nat)
    (hp : N.isPrv = true) (hk : prvKey P N = some k) (hN : C02.neuter P N = some Npub)
    (is : List Nat) (his : ∀ i ∈ is, i < 2 ^ 31) (hIL : NoZeroIL P N is) :
    (∀ c, derivePath P N is = some c →
        ∃ c', C02.neuter P c = some c' ∧ derivePath P Npub is = some c') ∧
    (∀ c', derivePath P Npub is = some c' →
        ∃ c, derivePath P N is = some c ∧ C02.neuter P c = some c') := by
  have hsq := wo_public P L N k hp hk is his hIL
  rw [hN, Option.bind_some] at hsq
  constructor
  · intro c hc
    obtain ⟨_, kc, hkc⟩ := derivePath_prvKey P L.n_le is hp hk hc
    refine ⟨_, by unfold C02.neuter; rw [hkc]; rfl, ?_⟩
    rw [← hsq, hc, Option.bind_some]
    unfold C02.neuter; rw [hkc]; rfl
  · intro c' hc'
    rw [hc'] at hsq
    exact Option.bind_eq_some_iff.mp hsq

/-- a private node `c` and its public view `c'` have the same chain code, depth, child number,
stored and effective parent fingerprint, path, network, public key and own fingerprint; `c'` is
a public node -/
theorem wo_neuter_same (P : Prims Pt) (L : C02.GroupLaws P) (c c' : Node) (hp : c.isPrv = true)
    (h : C02.neuter P c = some c') :
    c'.isPrv = false ∧ c'.chainCode = c.chainCode ∧ c'.depth = c.depth ∧ c'.index = c.index ∧
      c'.parentFp = c.parentFp ∧ parentFingerprint c' = parentFingerprint c ∧ c'.path = c.path ∧
      c'.testnet = c.testnet ∧ pubKey P c' = pubKey P c ∧ fingerprint P c' = fingerprint P c := by
  have hk := (pubKey_neuter P L hp h).1
  obtain ⟨k, _, rfl⟩ := (neuter_eq_some_iff P c c').mp h
  exact ⟨rfl, rfl, rfl, rfl, rfl, rfl, rfl, rfl, hk, fingerprint_of_pubKey P hk⟩

/-- **addresses depend on a node only through its public key**: two nodes with the same
`public_key` have the same fingerprint and the same address of each of the five kinds (p2pkh,
p2wpkh, p2sh-p2wpkh, p2wsh, p2sh-p2wsh) on either network -/
theorem address_of_public (P : Prims Pt) (a b : Node) (h : pubKey P a = pubKey P b) (t : Bool) :
    fingerprint P a = fingerprint P b ∧
      p2pkhAddress P t a = p2pkhAddress P t b ∧ p2wpkhAddress P t a = p2wpkhAddress P t b ∧
      p2shP2wpkhAddress P t a = p2shP2wpkhAddress P t b ∧
      p2wshAddress P t a = p2wshAddress P t b ∧
      p2shP2wshAddress P t a = p2shP2wshAddress P t b :=
  ⟨fingerprint_of_pubKey P h, p2pkh_of_pubKey P t h, p2wpkh_of_pubKey P t h,
    p2shP2wpkh_of_pubKey P t h, p2wsh_of_pubKey P t h, p2shP2wsh_of_pubKey P t h⟩

/-- nodes with the same public data (`SamePublic`: chain code, depth, child number, parent
fingerprint, public key) and BIP32-valid headers print the same extended public key under every
explicit version -/
theorem same_public_xpub (P : Prims Pt) (c' c : Node) (h : SamePublic P c' c)
    (hv' : BIP32valid c') (hv : BIP32valid c) (v : Nat) :
    extendedPublicKey P c' (some v) = extendedPublicKey P c (some v) :=
  h.xpub_eq hv' hv v

/-! ### 5. importing the extended public key -/

/-- **`ckd` reads only class, key and chain code**: the child of `a` is the child of `b` with the
inherited metadata (class, depth, network, path) of `a` — so in particular key, chain code, child
number and parent fingerprint of the two children coincide -/
theorem ckd_congr (P : Prims Pt) (a b : Node) (hp : a.isPrv = b.isPrv) (hk : a.key = b.key)
    (hc : a.chainCode = b.chainCode) (i : Nat) :
    ckd P a i = (ckd P b i).map (reMeta a i) ∧ ckdPub P a i = (ckdPub P b i).map (reMeta a i) :=
  ⟨WatchOnly.ckd_congr P hp hk hc i, ckdPub_congr P hk hc i⟩

/-- **derivation depends on a node only through its view** (class, key, chain code, depth, child
number, parent fingerprint): two such nodes both fail or both succeed, along every index list,
with descendants having the same view -/
theorem derive_congr (P : Prims Pt) (a b : Node) (h : view a = view b) (is : List Nat) :
    (derivePath P a is).map view = (derivePath P b is).map view :=
  derivePath_view_congr P is h

/-- **import round trip**: `from_extended_key` applied to the extended public key of a
well-formed, BIP32-valid node `N` (private or public) under a version of key type PUB builds a
wallet whose master is a public node with the key, chain code, depth, child number and parent
fingerprint of the public view of `N`; as a parsed node it has no parent object, an empty path,
the network of the version, and remembers the version; it is again well-formed and valid -/
theorem wo_import_roundtrip (P : Prims Pt) (hC : CurveLaws P.curve)
    (hlen : ∀ x, 4 ≤ (P.hash256 x).length) (N : Node) (hwf : N.WF P) (hvalid : BIP32valid N)
    (v : Nat) (hv : v ∈ publicVersions) (s : List Char)
    (hs : extendedPublicKey P N (some v) = some s) :
    ∃ w nn, fromExtendedKey P s = some w ∧ Bip32.neuter P N = some nn ∧
      w.watchOnly = true ∧ w.testnet = decide (v ∈ testnetPublicVersions) ∧
      w.master.testnet = w.testnet ∧ w.mnemonic = none ∧ w.password = none ∧
      w.master.isPrv = false ∧ w.master.key = nn.key ∧ w.master.chainCode = nn.chainCode ∧
      w.master.depth = nn.depth ∧ w.master.index = nn.index ∧
      parentFingerprint w.master = parentFingerprint nn ∧
      nodeEq w.master { nn with testnet := w.testnet } = true ∧
      w.master.hasParent = false ∧ w.master.path = [] ∧ w.master.parsedVersion = some v ∧
      w.master.WF P ∧ BIP32valid w.master := by
  obtain ⟨ver, hver, hkt, ht⟩ := parse_publicVersions v hv
  obtain ⟨w, nn, hw, hnn, hview, h1, h2, h3, h4, h5, h6, h7, h8, h9, h10⟩ :=
    import_xpub hC hlen hwf hvalid v ver hver hkt s hs
  obtain ⟨e1, e2, e3, e4, e5, e6⟩ := view_eq_iff.mp hview
  refine ⟨w, nn, hw, hnn, (watchOnly_iff w).mpr h3, h1.trans ht, h2.trans h1.symm, h7, h8, h3,
    e2, e3, e4, e5, e6, ?_, h4, h5, h6, h9, h10⟩
  unfold nodeEq
  have e6' : parentFingerprint w.master = parentFingerprint { nn with testnet := w.testnet } := e6
  simp only [e1, e2, e3, e4, e5, e6', h2, h1, decide_eq_true_eq, and_self]

/-- **the children of the imported node and of the public view agree**: for every index,
`ckd` on the master of the imported wallet and on the public view of `N` both fail or give
children with the same class, key, chain code, depth, child number and parent fingerprint —
and so on along every index list -/
theorem wo_import_children (P : Prims Pt) (hC : CurveLaws P.curve)
    (hlen : ∀ x, 4 ≤ (P.hash256 x).length) (N : Node) (hwf : N.WF P) (hvalid : BIP32valid N)
    (v : Nat) (hv : v ∈ publicVersions) (s : List Char)
    (hs : extendedPublicKey P N (some v) = some s) :
    ∃ w nn, fromExtendedKey P s = some w ∧ Bip32.neuter P N = some nn ∧
      (∀ i, (ckdPub P w.master i).map view = (ckdPub P nn i).map view) ∧
      ∀ is, (derivePath P w.master is).map view = (derivePath P nn is).map view := by
  obtain ⟨ver, hver, hkt, _⟩ := parse_publicVersions v hv
  obtain ⟨w, nn, hw, hnn, hview, _, _, h3, _⟩ :=
    import_xpub hC hlen hwf hvalid v ver hver hkt s hs
  have hnnp : nn.isPrv = false := by rw [← (view_eq_iff.mp hview).1, h3]
  refine ⟨w, nn, hw, hnn, fun i => ?_, fun is => derivePath_view_congr P is hview⟩
  rw [← ckd_pub P h3, ← ckd_pub P hnnp]
  exact ckd_view_congr P hview i

/-! ### the property, end to end -/

/-- **C14, keys and addresses**: let `N` be a well-formed, BIP32-valid private node (any node of
a full wallet), `s` its extended public key under any of the six public versions.  Then
`from_extended_key s` is a watch-only wallet `w` such that for every list `is` of normal indexes
(any length; no `IL = 0` corner on the way): the full side `derive_path` from `N` succeeds iff
the watch-only side from `w.master` does, and the two nodes have the same chain code, depth,
child number, parent fingerprint and public key — hence the same own fingerprint and, on either
network, the same five addresses; the watch-only node is public -/
theorem wo_wallet_agrees (P : Prims Pt) (hC : CurveLaws P.curve) (L : C02.GroupLaws P)
    (hlen : ∀ x, 4 ≤ (P.hash256 x).length) (N : Node) (hwf : N.WF P) (hvalid : BIP32valid N)
    (hp : N.isPrv = true) (v : Nat) (hv : v ∈ publicVersions) (s : List Char)
    (hs : extendedPublicKey P N (some v) = some s) :
    ∃ w, fromExtendedKey P s = some w ∧ w.watchOnly = true ∧
      w.testnet = decide (v ∈ testnetPublicVersions) ∧
      ∀ is, (∀ i ∈ is, i < 2 ^ 31) → NoZeroIL P N is →
        (∀ c, derivePath P N is = some c →
          ∃ c', derivePath P w.master is = some c' ∧ c'.isPrv = false ∧ SamePublic P c' c) ∧
        (∀ c', derivePath P w.master is = some c' →
          ∃ c, derivePath P N is = some c ∧ c'.isPrv = false ∧ SamePublic P c' c) := by
  obtain ⟨ver, hver, hkt, ht⟩ := parse_publicVersions v hv
  obtain ⟨w, nn, hw, hnn, hview, h1, _, h3, _⟩ :=
    import_xpub hC hlen hwf hvalid v ver hver hkt s hs
  rw [neuter_eq_C02 P hp] at hnn
  obtain ⟨k, _, _, _, hk, _⟩ := (pubKey_wf hC hwf).choose_spec.2.2.2.1 hp
  refine ⟨w, hw, (watchOnly_iff w).mpr h3, h1.trans ht, fun is his hIL => ?_⟩
  obtain ⟨hfwd, hbwd⟩ := wo_public_nodes P L N nn k hp hk hnn is his hIL
  have hcongr := derivePath_view_congr P is hview
  constructor
  · intro c hc
    obtain ⟨cn, hcn, hdn⟩ := hfwd c hc
    obtain ⟨hcp, _⟩ := derivePath_prvKey P L.n_le is hp hk hc
    rw [hdn] at hcongr
    obtain ⟨c', hc', hv'⟩ := Option.map_eq_some_iff.mp hcongr
    refine ⟨c', hc', derivePath_public P hc' h3, ?_⟩
    exact (SamePublic.of_view P hv').trans (SamePublic.of_neuter P L hcp hcn)
  · intro c' hc'
    rw [hc'] at hcongr
    obtain ⟨cn, hdn, hv'⟩ := Option.map_eq_some_iff.mp hcongr.symm
    obtain ⟨c, hc, hcn⟩ := hbwd cn hdn
    obtain ⟨hcp, _⟩ := derivePath_prvKey P L.n_le is hp hk hc
    refine ⟨c, hc, derivePath_public P hc' h3, ?_⟩
    exact (SamePublic.of_view P hv'.symm).trans (SamePublic.of_neuter P L hcp hcn)

/-- what `SamePublic` gives: same chain code, depth, child number, parent fingerprint, public
key, own fingerprint and the five addresses on either network -/
theorem same_public_spec (P : Prims Pt) (c' c : Node) (h : SamePublic P c' c) (t : Bool) :
    c'.chainCode = c.chainCode ∧ c'.depth = c.depth ∧ c'.index = c.index ∧
      parentFingerprint c' = parentFingerprint c ∧ pubKey P c' = pubKey P c ∧
      fingerprint P c' = fingerprint P c ∧
      p2pkhAddress P t c' = p2pkhAddress P t c ∧ p2wpkhAddress P t c' = p2wpkhAddress P t c ∧
      p2shP2wpkhAddress P t c' = p2shP2wpkhAddress P t c ∧
      p2wshAddress P t c' = p2wshAddress P t c ∧
      p2shP2wshAddress P t c' = p2shP2wshAddress P t c :=
  ⟨h.chainCode_eq, h.depth_eq, h.index_eq, h.parentFingerprint_eq, h.pubKey_eq,
    address_of_public P c' c h.pubKey_eq t⟩

/-- **C14 for a watch-only source**: when `N` is itself a public node (a node of a watch-only
wallet), the wallet imported from its extended public key agrees with derivation from `N` along
*every* index list (hardened ones fail on both sides), with no curve-group hypothesis -/
theorem wo_wallet_agrees_public (P : Prims Pt) (hC : CurveLaws P.curve)
    (hlen : ∀ x, 4 ≤ (P.hash256 x).length) (N : Node) (hwf : N.WF P) (hvalid : BIP32valid N)
    (hp : N.isPrv = false) (v : Nat) (hv : v ∈ publicVersions) (s : List Char)
    (hs : extendedPublicKey P N (some v) = some s) :
    ∃ w, fromExtendedKey P s = some w ∧ w.watchOnly = true ∧
      ∀ is, (derivePath P w.master is).map view = (derivePath P N is).map view := by
  obtain ⟨ver, hver, hkt, _⟩ := parse_publicVersions v hv
  obtain ⟨w, nn, hw, hnn, hview, _, _, h3, _⟩ :=
    import_xpub hC hlen hwf hvalid v ver hver hkt s hs
  obtain ⟨K, hK, _, _, _, hkey⟩ := pubKey_wf hC hwf
  rw [Bip32.neuter, hK] at hnn
  have hnnN : view nn = view N := by
    cases hnn
    rw [view_eq_iff]
    exact ⟨hp.symm, hkey hp, rfl, rfl, rfl, rfl⟩
  exact ⟨w, hw, (watchOnly_iff w).mpr h3,
    fun is => derivePath_view_congr P is (hview.trans hnnN)⟩

/-- **C14 at wallet level**: if a full wallet `W` prints `s` as the extended public key of one of
its (well-formed, private) nodes `N`, the wallet imported from `s` is watch-only, on the network
of `W`, and below `N` the two wallets print the same five addresses (each with its own network
flag) for every normal sub-path -/
theorem wo_wallet_agrees_addresses (P : Prims Pt) (hC : CurveLaws P.curve) (L : C02.GroupLaws P)
    (hlen : ∀ x, 4 ≤ (P.hash256 x).length) (W : Wallet) (N : Node) (hwf : N.WF P)
    (hvalid : BIP32valid N) (hp : N.isPrv = true) (s : List Char)
    (hs : nodeExtendedPublicKey P W N = some s) :
    ∃ w, fromExtendedKey P s = some w ∧ w.watchOnly = true ∧ w.testnet = W.testnet ∧
      ∀ is, (∀ i ∈ is, i < 2 ^ 31) → NoZeroIL P N is → ∀ c c', derivePath P N is = some c →
        derivePath P w.master is = some c' →
          p2pkhAddress P w.testnet c' = p2pkhAddress P W.testnet c ∧
          p2wpkhAddress P w.testnet c' = p2wpkhAddress P W.testnet c ∧
          p2shP2wpkhAddress P w.testnet c' = p2shP2wpkhAddress P W.testnet c ∧
          p2wshAddress P w.testnet c' = p2wshAddress P W.testnet c ∧
          p2shP2wshAddress P w.testnet c' = p2shP2wshAddress P W.testnet c := by
  have hs' := hs
  unfold nodeExtendedPublicKey at hs'
  obtain ⟨v, hv, hx⟩ := Option.bind_eq_some_iff.mp hs'
  obtain ⟨b, hver⟩ := nodeVersionInt_pub hv
  have hvp : v ∈ publicVersions := (keyType_iff hver).1.mp rfl
  obtain ⟨w, hw, hwo, _, hall⟩ := wo_wallet_agrees P hC L hlen N hwf hvalid hp v hvp s hx
  have ht := (wo_flags_of_wallet_xpub P W N s w hs hw hlen).2
  refine ⟨w, hw, hwo, ht, fun is his hIL c c' hc hc' => ?_⟩
  obtain ⟨c2, hc2, _, hsame⟩ := (hall is his hIL).2 c' hc'
  rw [hc] at hc2
  cases hc2
  rw [ht]
  exact (address_of_public P c' c hsame.pubKey_eq W.testnet).2

/-! ### non-vacuity -/

/-- the hypotheses of `wo_wallet_agrees` are satisfiable with a derivation that succeeds: toy
curve Z/5 with a PRF whose left half is 1, the depth-2 private node with scalar 3, version `zpub`,
index list `[7]` -/
example : ∃ (P : Prims Nat) (N : Node) (s : List Char) (c : Node),
    CurveLaws P.curve ∧ C02.GroupLaws P ∧ (∀ x, 4 ≤ (P.hash256 x).length) ∧ N.WF P ∧
      BIP32valid N ∧ N.isPrv = true ∧ (0x04B24746 : Nat) ∈ publicVersions ∧
      extendedPublicKey P N (some 0x04B24746) = some s ∧ (∀ i ∈ [7], i < 2 ^ 31) ∧
      NoZeroIL P N [7] ∧ derivePath P N [7] = some c := by
  obtain ⟨c, hc⟩ := Toy.prvNode_child1
  obtain ⟨ser, hser, _⟩ := C07.serialize_length_public (P := Toy.prims1) Toy.laws1 Toy.prvNode_wf1
    (some 0x04B24746) (by decide)
  refine ⟨Toy.prims1, Toy.prvNode, _, c, Toy.laws1, Toy.groupLaws1,
    fun x => by rw [Toy.hash256_length1]; decide, Toy.prvNode_wf1, Toy.prvNode_valid, rfl,
    by decide, by unfold extendedPublicKey; rw [hser]; rfl, by decide, ?_, hc⟩
  exact NoZeroIL_of_global _ _ (fun nd' k' i _ _ => by rw [Toy.IL1]; decide) _

/-- … and the watch-only side then produces the matching public node -/
example : ∃ (w : Wallet) (c c' : Node), w.watchOnly = true ∧
    derivePath Toy.prims1 Toy.prvNode [7] = some c ∧
    derivePath Toy.prims1 w.master [7] = some c' ∧ SamePublic Toy.prims1 c' c := by
  obtain ⟨c, hc⟩ := Toy.prvNode_child1
  obtain ⟨ser, hser, _⟩ := C07.serialize_length_public (P := Toy.prims1) Toy.laws1 Toy.prvNode_wf1
    (some 0x04B24746) (by decide)
  obtain ⟨w, _, hwo, _, hall⟩ := wo_wallet_agrees Toy.prims1 Toy.laws1 Toy.groupLaws1
    (fun x => by rw [Toy.hash256_length1]; decide) Toy.prvNode Toy.prvNode_wf1 Toy.prvNode_valid rfl
    0x04B24746 (by decide) _ (by unfold extendedPublicKey; rw [hser]; rfl)
  obtain ⟨c', hc', _, hsame⟩ := (hall [7] (by decide)
    (NoZeroIL_of_global _ _ (fun nd' k' i _ _ => by rw [Toy.IL1]; decide) _)).1 c hc
  exact ⟨w, c, c', hwo, hc, hc', hsame⟩

/-- non-vacuity of `wo_no_scalar` / `wo_no_bip85_entropy`: a watch-only wallet with a well-formed
public master over a curve instance satisfying `CurveLaws` -/
example : ∃ w : Wallet, w.watchOnly = true ∧ w.master.WF Toy.prims ∧ CurveLaws Toy.prims.curve :=
  ⟨⟨Toy.pubNode, true, none, none⟩, rfl, Toy.pubNode_wf, Toy.laws⟩

/-- watch-only wallets exist: importing the four `xpub` version bytes (checksummed) already gives
one (cf. the observation at the end of C07) -/
example : ∃ w, fromExtendedKey Toy.prims
      (Base58.encodeCheck Toy.prims.hash256 (beFixed 4 0x0488B21E)) = some w ∧
    w.watchOnly = true :=
  ⟨_, C07.fromExtendedKey_encodeCheck Toy.prims (fun x => by rw [Toy.hash256_length]; decide)
    (beFixed 4 0x0488B21E) 0x0488B21E (by decide) (by decide) ⟨1, 0, false⟩ (by decide), by decide⟩

end BtcHd.C14
