/-
C01 — BIP32 private child derivation matches the spec for every parent and index.

`Spec` below is written from the BIP32 text alone.  The theorems relate the model
of `PrvKeyNode.ckd` / `derive_path` / `extended_*_key` (`Model/Bip32.lean`, tied
to the Python by the correspondence check) to it, for every choice of
primitives `P` — in particular for every PRF output, which is how the corners
`IL + k = n - 1, n, n + 1`, wrap-around and children with leading zero bytes are
covered.
-/
import BtcHd.Lemmas.Bip32

namespace BtcHd.C01
open BtcHd Bip32 Keys BytesL

variable {Pt : Type}

/-! ### BIP32 as specified -/

/-- an extended private key with its metadata -/
structure XPrv where
  k : Nat
  c : Bytes
  depth : Nat
  index : Nat
  fp : Bytes
deriving DecidableEq

def ser32 (i : Nat) : Bytes := beFixed 4 i
def ser256 (k : Nat) : Bytes := beFixed 32 k
def parse256 (bs : Bytes) : Nat := beToNat bs

/-- `CKDpriv((k_par, c_par), i)` with depth / child number / parent fingerprint,
from the BIP32 text -/
def Spec.ckdPriv (P : Prims Pt) (par : XPrv) (i : Nat) : Option XPrv :=
  let serP := P.curve.sec true (P.curve.mulGen par.k)
  let data := if i ≥ 2 ^ 31 then [0x00] ++ ser256 par.k ++ ser32 i else serP ++ ser32 i
  let I := P.hmac512 par.c data
  let IL := parse256 (I.take 32)
  let IR := I.drop 32
  if IL ≥ P.curve.n then none
  else if (IL + par.k) % P.curve.n = 0 then none
  else some ⟨(IL + par.k) % P.curve.n, IR, par.depth + 1, i, (hash160 P serP).take 4⟩

/-- derivation along a path -/
def Spec.derive (P : Prims Pt) (par : XPrv) : List Nat → Option XPrv
  | [] => some par
  | i :: is => (Spec.ckdPriv P par i).bind fun c => Spec.derive P c is

/-- the abstract view of a model node -/
def view (nd : Node) : XPrv := ⟨beToNat nd.key, nd.chainCode, nd.depth, nd.index, parentFingerprint nd⟩

private theorem view_k (nd : Node) : (view nd).k = beToNat nd.key := rfl

/-- the extracted constant is the BIP32 hardened boundary -/
theorem hardened_is_2_31 : Bip32.hardened = 2 ^ 31 := hardened_eq

private theorem view_mkChild (P : Prims Pt) (nd : Node) (ki : Nat) (chain : Bytes) (i : Nat) (d : Bytes)
    (hki : ki < 256 ^ 32) :
    view (mkChild nd (beFixed 32 ki) chain i ((hash160 P d).take 4))
      = ⟨ki, chain, nd.depth + 1, i, (hash160 P d).take 4⟩ := by
  have hfp : parentFingerprint (mkChild nd (beFixed 32 ki) chain i ((hash160 P d).take 4))
      = (hash160 P d).take 4 := parentFingerprint_some rfl (fp_length P d)
  unfold view
  rw [hfp]
  simp only [mkChild, beToNat_beFixed hki]

/-- **CKDpriv**: for every valid private parent (32- or 33-byte key form), every
index below 2^32 and every primitive instance, the model's child is exactly
BIP32's: same failure condition, and on success the same key `(IL + k_par) mod n`,
chain code, depth, child number and parent fingerprint. -/
theorem ckdPriv_eq_spec (P : Prims Pt) (nd : Node) (k i : Nat) (hk : prvKey P nd = some k)
    (hi : i < 2 ^ 32) (hn : P.curve.n ≤ 2 ^ 256) :
    (ckdPrv P nd i).map view = Spec.ckdPriv P (view nd) i := by
  have hkv : (view nd).k = k := (prvKey_eq_beToNat P nd k hk).symm
  have hnpos : 0 < P.curve.n := by have := prvKey_range P nd k hk; omega
  rw [ckdPrv_eq P nd i k hk hi hn]
  unfold Spec.ckdPriv
  simp only [hkv, ge_iff_le]
  have hdata : (if 2 ^ 31 ≤ i then [0x00] ++ ser256 k ++ ser32 i
      else P.curve.sec true (P.curve.mulGen k) ++ ser32 i) = ckdPrvData P k i := by
    unfold ckdPrvData ser256 ser32 privBytes
    rw [hardened_eq]
  rw [hdata]
  have hc : (view nd).c = nd.chainCode := rfl
  rw [hc]
  unfold parse256
  split
  · rfl
  · split
    · rfl
    · simp only [Option.map_some]
      rw [view_mkChild]
      · rfl
      · rw [pow_256_32]; exact Nat.lt_of_lt_of_le (Nat.mod_lt _ hnpos) hn

/-- the child key is serialised as a full 32 bytes (leading zeros kept), and the
child is again a valid private node on the same network -/
theorem child_wellformed (P : Prims Pt) (nd c : Node) (k i : Nat) (hk : prvKey P nd = some k)
    (hi : i < 2 ^ 32) (hn : P.curve.n ≤ 2 ^ 256) (hc : ckdPrv P nd i = some c) :
    c.key.length = 32 ∧ c.key = beFixed 32 (view c).k ∧ prvKey P c = some (view c).k ∧
      c.isPrv = nd.isPrv ∧ c.testnet = nd.testnet := by
  obtain ⟨ki, IR, fp, h1, h2, _, _, _, _, rfl⟩ := ckdPrv_eq_some P nd c i k hk hi hn hc
  have hlt : ki < 256 ^ 32 := by rw [pow_256_32]; omega
  have hv : (view (mkChild nd (beFixed 32 ki) IR i fp)).k = ki := by
    rw [view_k, mkChild_key]; exact beToNat_beFixed hlt
  refine ⟨?_, ?_, ?_, mkChild_isPrv _ _ _ _ _, mkChild_testnet _ _ _ _ _⟩
  · rw [mkChild_key]; exact beFixed_length 32 ki
  · rw [hv, mkChild_key]
  · rw [hv]; exact mkChild_prvKey P nd ki IR i fp h1 h2 hn

/-- **Paths**: deriving along any index list equals iterating the specification
(induction over the path; no bound on its length). -/
theorem derivePath_eq_spec (P : Prims Pt) (hn : P.curve.n ≤ 2 ^ 256) (is : List Nat)
    (his : ∀ i ∈ is, i < 2 ^ 32) (nd : Node) (k : Nat) (hp : nd.isPrv = true)
    (hk : prvKey P nd = some k) :
    (derivePath P nd is).map view = Spec.derive P (view nd) is := by
  induction is generalizing nd k with
  | nil => rfl
  | cons i is ih =>
    have hi : i < 2 ^ 32 := his i (List.mem_cons_self ..)
    unfold derivePath Spec.derive
    have hckd : ckd P nd i = ckdPrv P nd i := by unfold ckd; rw [hp]; rfl
    rw [hckd]
    have hspec := ckdPriv_eq_spec P nd k i hk hi hn
    cases hc : ckdPrv P nd i with
    | none =>
      rw [hc] at hspec
      simp only [Option.map_none] at hspec
      rw [← hspec]; rfl
    | some c =>
      rw [hc] at hspec
      simp only [Option.map_some] at hspec
      rw [← hspec]
      simp only [Option.bind_some]
      obtain ⟨_, _, hkc, hpc, _⟩ := child_wellformed P nd c k i hk hi hn hc
      exact ih (fun j hj => his j (List.mem_cons_of_mem _ hj)) c _ (by rw [hpc, hp]) hkc

/-- a parent given as 33 bytes `00 ‖ k` or as 32 bytes `k` yields the same child -/
theorem key_repr_irrelevant (P : Prims Pt) (nd : Node) (k i : Nat) (h1 : 1 ≤ k) (h2 : k < P.curve.n)
    (hn : P.curve.n ≤ 2 ^ 256) (hi : i < 2 ^ 32) :
    ckdPrv P { nd with key := 0 :: beFixed 32 k } i = ckdPrv P { nd with key := beFixed 32 k } i := by
  have ha : prvKey P { nd with key := 0 :: beFixed 32 k } = some k :=
    prvKey_of_key33 P { nd with key := 0 :: beFixed 32 k } (k := k) rfl h1 h2 hn
  have hb : prvKey P { nd with key := beFixed 32 k } = some k :=
    prvKey_of_key32 P { nd with key := beFixed 32 k } (k := k) rfl h1 h2 hn
  rw [ckdPrv_eq P _ i k ha hi hn, ckdPrv_eq P _ i k hb hi hn]
  simp only [mkChild]

/-- an index that does not fit 32 bits is refused -/
theorem index_overflow_refused (P : Prims Pt) (nd : Node) (i : Nat) (hi : 2 ^ 32 ≤ i) :
    ckdPrv P nd i = none := by
  unfold ckdPrv
  rw [toBytesBE_none (by rw [pow_256_4]; exact hi)]
  cases prvKey P nd <;> rfl

/-- **Printed extended private key**: the string is Base58Check of
`version ‖ depth ‖ parent fingerprint ‖ ser32(i) ‖ chain code ‖ 0x00 ‖ ser256(k)` -/
theorem xprv_string (P : Prims Pt) (nd : Node) (k : Nat) (hk : prvKey P nd = some k) (hp : nd.isPrv = true)
    (hd : nd.depth < 256) (hi : nd.index < 2 ^ 32) (hm : isMaster nd = false) (v : Nat) (hv : v < 2 ^ 32) :
    extendedPrivateKey P nd (some v) = some (Base58.encodeCheck P.hash256
      (beFixed 4 v ++ beFixed 1 nd.depth ++ parentFingerprint nd ++ ser32 nd.index ++ nd.chainCode
        ++ ([0x00] ++ ser256 k))) := by
  unfold extendedPrivateKey serializePrivate serializeWith
  rw [if_pos hp, hk]
  simp only [Option.bind_some, Option.getD_some]
  rw [toBytesBE_some (by rw [pow_256_4]; exact hv), toBytesBE_some (by rw [pow_256_1]; exact hd),
    toBytesBE_some (by rw [pow_256_4]; exact hi)]
  simp [hm, ser32, ser256, privBytes]

/-- **Printed extended public key**: the same layout with `serP(k·G)` as key data -/
theorem xpub_string (P : Prims Pt) (nd : Node) (k : Nat) (hk : prvKey P nd = some k) (hp : nd.isPrv = true)
    (hd : nd.depth < 256) (hi : nd.index < 2 ^ 32) (hm : isMaster nd = false) (v : Nat) (hv : v < 2 ^ 32) :
    extendedPublicKey P nd (some v) = some (Base58.encodeCheck P.hash256
      (beFixed 4 v ++ beFixed 1 nd.depth ++ parentFingerprint nd ++ ser32 nd.index ++ nd.chainCode
        ++ P.curve.sec true (P.curve.mulGen k))) := by
  unfold extendedPublicKey serializePublic serializeWith pubKey
  rw [if_pos hp, hk]
  simp only [Option.map_some, Option.bind_some, Option.getD_some]
  rw [toBytesBE_some (by rw [pow_256_4]; exact hv), toBytesBE_some (by rw [pow_256_1]; exact hd),
    toBytesBE_some (by rw [pow_256_4]; exact hi)]
  simp [hm, ser32]

/-- non-vacuity: a concrete parent satisfying the hypotheses (scalar 1, any curve of order > 1) -/
example (P : Prims Pt) (h : 1 < P.curve.n) (hn : P.curve.n ≤ 2 ^ 256) (nd : Node) :
    prvKey P { nd with key := beFixed 32 1 } = some 1 :=
  prvKey_of_key32 P _ rfl (by omega) h hn

end BtcHd.C01
