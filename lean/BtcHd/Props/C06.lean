/-
C06 — the paper-wallet report.

"For every seed, network, account number and index interval, the generated wallet lists for each
of BIP44, BIP49 and BIP84 the account at m/purpose'/coin'/account' (coin 0' on mainnet, 1' on
testnet) with its extended keys in that purpose's SLIP-132 encoding, and exactly one row per index
of the interval on the external chain, in order.  In every row the WIF decodes to the private key
at the stated path, the SEC hex is its compressed public key, and the address is that key's P2PKH,
P2SH-P2WPKH or P2WPKH address respectively; the master block echoes the mnemonic and passphrase
used.  […] the Wasabi export carries the extended public key at m/84'/0'/0' together with the
master key's fingerprint."

Property theorems only.  The model functions are those of `Model/Wallet.lean` (`generate`,
`bipAccount` = `bip44`/`bip49`/`bip84`, `group`, `node_extended_keys`, `wasabi`); the structured
views `Acct` / `Row`, the specification `AcctOk` and the helper lemmas are in `Lemmas/Wallet.lean`.
Throughout, `P` (hashes, HMAC, curve) is abstract and a raised exception is `none`.
A wallet's master is a *root object* when `w.master.path = []` (true of every constructor, see
`ctor_root`); this is what makes `str(node)` print the full path.
-/
import BtcHd.Lemmas.Wallet
import BtcHd.Lemmas.ToyWallet
import BtcHd.Props.C17
import BtcHd.Props.C09

namespace BtcHd.C06
open BtcHd Bip32 Wallet Keys Path

variable {Pt : Type}

/-! ### 0. the wallets the theorems are about -/

/-- every constructor returns a wallet whose master is a root object (`str(master)` is `m` / `M`) -/
theorem ctor_root (P : Prims Pt) :
    (∀ seed t w, fromSeedBytes P seed t = some w → w.master.path = []) ∧
    (∀ s t w, fromSeedHex P s t = some w → w.master.path = []) ∧
    (∀ m p t w, fromMnemonic P m p t = some w → w.master.path = []) ∧
    (∀ e p t w, fromEntropyHex P e p t = some w → w.master.path = []) ∧
    (∀ rnd n p t w, newWallet P rnd n p t = some w → w.master.path = []) ∧
    (∀ s w, fromExtendedKey P s = some w → w.master.path = []) := by
  refine ⟨fun _ _ _ h => (fromSeedBytes_fields h).2.2.2.1, fun _ _ _ h => (fromSeedHex_fields h).2.2.2.1,
    fun _ _ _ _ h => (fromMnemonic_fields h).2.2.2.1, fun _ _ _ _ h => ?_, fun _ _ _ _ _ h => ?_,
    fun s w h => ?_⟩
  · obtain ⟨_, _, hf⟩ := fromEntropyHex_fields h
    exact hf.2.2.2.1
  · obtain ⟨_, _, _, _, hf⟩ := newWallet_fields h
    exact hf.2.2.2.1
  · unfold fromExtendedKey at h
    obtain ⟨probe, _, h⟩ := Option.bind_eq_some_iff.mp h
    obtain ⟨v, _, h⟩ := Option.bind_eq_some_iff.mp h
    obtain ⟨node, hn, rfl⟩ := Option.map_eq_some_iff.mp h
    unfold parseStr at hn
    obtain ⟨payload, _, rfl⟩ := Option.map_eq_some_iff.mp hn
    rfl

/-- a report is only ever produced by a wallet holding private keys: on a watch-only wallet
`bip44` / `bip49` / `bip84` raise at the first (hardened) derivation step -/
theorem watchOnly_no_report (P : Prims Pt) (w : Wallet) (hpub : w.master.isPrv = false)
    (purpose : Nat) (addr : Node → Option (List Char)) (acct a b : Nat) :
    bipAccount P w purpose addr acct a b = none ∧ generate P w acct a b = none := by
  have hb : ∀ purpose addr, bipAccount P w purpose addr acct a b = none := by
    intro purpose addr
    cases h : bipAccount P w purpose addr acct a b with
    | none => rfl
    | some r => rw [isPrv_of_bipAccount h] at hpub; cases hpub
  refine ⟨hb purpose addr, ?_⟩
  unfold generate
  rw [hb]
  rfl

/-! ### 1. the shape of the report -/

/-- **generate_shape**: `generate` succeeds exactly when the three account blocks and the BIP85
block do, and the report is then the dictionary `MASTER`, `BIP85`, `BIP44`, `BIP49`, `BIP84` (in
this order), the three account entries being `{"account_extended_keys": …, "groups": …}` built
with the P2PKH, P2SH-P2WPKH and P2WPKH address functions on the wallet's network -/
theorem generate_shape (P : Prims Pt) (w : Wallet) (acct a b : Nat) (j : Json) :
    generate P w acct a b = some j ↔
      ∃ r44 r49 r84 b85,
        bipAccount P w 44 (p2pkhAddress P w.testnet) acct a b = some r44 ∧
        bipAccount P w 49 (p2shP2wpkhAddress P w.testnet) acct a b = some r49 ∧
        bipAccount P w 84 (p2wpkhAddress P w.testnet) acct a b = some r84 ∧
        bip85Data P w = some b85 ∧
        j = .obj [("MASTER".toList, masterData w), ("BIP85".toList, b85),
                  ("BIP44".toList, .obj [("account_extended_keys".toList, r44.1),
                                         ("groups".toList, .arr r44.2)]),
                  ("BIP49".toList, .obj [("account_extended_keys".toList, r49.1),
                                         ("groups".toList, .arr r49.2)]),
                  ("BIP84".toList, .obj [("account_extended_keys".toList, r84.1),
                                         ("groups".toList, .arr r84.2)])] :=
  generate_eq_some

example : ∃ j, generate Toy.primsW (Toy.walletW true) 1 2 4 = some j := Toy.generate_toy

/-! ### 2. the account node and its printed path -/

/-- `repr_hardened` of a hardened index is the decimal number followed by `'` -/
private theorem reprHardened_add (x : Nat) : reprHardened (x + 2 ^ 31) = natToDec x ++ ['\''] := by
  unfold reprHardened
  rw [if_pos (Nat.le_add_left _ _), Nat.add_sub_cancel]

/-- **acct_path**: the `account_extended_keys` of an account block is the dictionary
`path`, `pub`, `prv` whose `path` is the printed form of `m/purpose'/coin'/account'`, coin being
`0'` on mainnet and `1'` on testnet; that is the path the account node was derived along, and
`pub` / `prv` are that node's extended keys as the wallet prints them -/
theorem acct_path {P : Prims Pt} {w : Wallet} {purpose : Nat} {addr : Node → Option (List Char)}
    {acct a b : Nat} {keys : Json} {rows : List Json} (hroot : w.master.path = [])
    (h : bipAccount P w purpose addr acct a b = some (keys, rows)) :
    ∃ acctNd pub prv,
      derivePath P w.master
        [purpose + 2 ^ 31, (if w.testnet then 1 else 0) + 2 ^ 31, acct + 2 ^ 31] = some acctNd ∧
      nodeExtendedPublicKey P w acctNd = some pub ∧
      nodeExtendedPrivateKey P w acctNd = some prv ∧
      keys = .obj [("path".toList, .str (Path.format
                ⟨[purpose + 2 ^ 31, (if w.testnet then 1 else 0) + 2 ^ 31, acct + 2 ^ 31], true⟩)),
              ("pub".toList, .str pub), ("prv".toList, .str prv)] := by
  have hprv := isPrv_of_bipAccount h
  obtain ⟨acctNd, pub, prv, rs, h1, hpub, hkp, hr, _, _⟩ := bipAccount_spec h
  unfold keysPrv at hkp
  rw [watchOnly_eq_false hprv] at hkp
  simp only [Bool.false_eq_true, if_false] at hkp
  obtain ⟨xprv, hx, rfl⟩ := Option.map_eq_some_iff.mp hkp
  refine ⟨acctNd, pub, xprv, h1, hpub, hx, ?_⟩
  simp only [Acct.toPair, Prod.mk.injEq] at hr
  rw [hr.1]
  unfold Acct.keysJson
  simp only
  rw [nodeRepr_of_derive h1 hroot, hprv]
  rfl

/-- non-vacuity: the toy testnet wallet (a root object) produces the BIP44 block of account 1,
indexes 2 and 3 -/
example : ∃ keys rows, bipAccount Toy.primsW (Toy.walletW true) 44
      (p2pkhAddress Toy.primsW true) 1 2 4 = some (keys, rows) ∧
    (Toy.walletW true).master.path = [] := by
  obtain ⟨⟨k, r⟩, h⟩ := Option.isSome_iff_exists.mp Toy.bip44_toy_t
  exact ⟨k, r, h, rfl⟩

/-- the printed account path, character by character: `m/<purpose>'/<0|1>'/<account>'` -/
theorem acct_path_string (t : Bool) (purpose acct : Nat) :
    Path.format ⟨[purpose + 2 ^ 31, (if t then 1 else 0) + 2 ^ 31, acct + 2 ^ 31], true⟩ =
      ['m', '/'] ++ natToDec purpose ++ ['\'', '/'] ++ (if t then ['1'] else ['0']) ++ ['\'', '/']
        ++ natToDec acct ++ ['\''] := by
  have hc : natToDec (if t then 1 else 0) = if t then ['1'] else ['0'] := by cases t <;> rfl
  unfold Path.format
  simp only [List.map_cons, List.map_nil, reprHardened_add, if_true, Text.join, hc]
  simp

example : Path.format ⟨[44 + 2 ^ 31, (if true then 1 else 0) + 2 ^ 31, 7 + 2 ^ 31], true⟩ =
    "m/44'/1'/7'".toList := by decide +kernel

/-! ### 3. the SLIP-132 version of the account keys -/

/-- the account node prints as a path that `Bip32Path.parse` reads back -/
private theorem parse_acct_repr {P : Prims Pt} {w : Wallet} {purpose acct : Nat} {acctNd : Node}
    (hroot : w.master.path = []) (hp : purpose < 2 ^ 31) (ha : acct < 2 ^ 31)
    (h : derivePath P w.master (acctLevels w purpose acct) = some acctNd) :
    Path.parse (nodeRepr acctNd) = some ⟨acctLevels w purpose acct, w.master.isPrv⟩ := by
  rw [nodeRepr_of_derive h hroot]
  refine C17.parse_format (by simp [acctLevels]) ?_
  intro i hi
  have hc : coinLevel w ≤ 1 + 2 ^ 31 := by unfold coinLevel; cases w.testnet <;> simp
  simp only [acctLevels, List.mem_cons, List.not_mem_nil, or_false] at hi
  rcases hi with rfl | rfl | rfl <;> omega

private theorem bipOf_acct (w : Wallet) (purpose acct : Nat) (b : Bool) :
    Path.bipOf ⟨acctLevels w purpose acct, b⟩ = bipIdx purpose := by
  unfold Path.bipOf acctLevels bipIdx
  simp only [List.head?_cons, Nat.add_right_cancel_iff]

/-- **acct_versions**: the version under which the wallet prints the account node's extended
public (`kt = 1`) or private (`kt = 0`) key is the SLIP-132 table entry for that key type, the
flavour of the purpose (44 ↦ 0, 49 ↦ 1, 84 ↦ 2) and the wallet's network -/
theorem acct_versions {P : Prims Pt} {w : Wallet} {purpose acct : Nat} {acctNd : Node} (kt : Nat)
    (hroot : w.master.path = []) (hp : purpose < 2 ^ 31) (ha : acct < 2 ^ 31)
    (h : derivePath P w.master
      [purpose + 2 ^ 31, (if w.testnet then 1 else 0) + 2 ^ 31, acct + 2 ^ 31] = some acctNd) :
    nodeVersionInt w acctNd kt = Version.toInt ⟨kt, bipIdx purpose, w.testnet⟩ := by
  unfold nodeVersionInt
  rw [parse_acct_repr hroot hp ha h, Option.bind_some, bipOf_acct]

example : ∃ nd, derivePath Toy.primsW (Toy.walletW true).master
    [44 + 2 ^ 31, (if (Toy.walletW true).testnet then 1 else 0) + 2 ^ 31, 1 + 2 ^ 31] = some nd ∧
    (44 : Nat) < 2 ^ 31 ∧ (1 : Nat) < 2 ^ 31 := by
  obtain ⟨⟨k, r⟩, h⟩ := Option.isSome_iff_exists.mp Toy.bip44_toy_t
  obtain ⟨nd, _, _, h1, _⟩ := acct_path (Toy.walletW_root true) h
  exact ⟨nd, h1, by decide, by decide⟩

/-- the SLIP-132 table used: x/y/z-pub and -prv on mainnet, t/u/v-pub and -prv on testnet, for
purposes 44 / 49 / 84 -/
theorem acct_version_table :
    [44, 49, 84].map (fun p => Version.toInt ⟨1, bipIdx p, false⟩) =
        [some 0x0488B21E, some 0x049D7CB2, some 0x04B24746] ∧
    [44, 49, 84].map (fun p => Version.toInt ⟨0, bipIdx p, false⟩) =
        [some 0x0488ADE4, some 0x049D7878, some 0x04B2430C] ∧
    [44, 49, 84].map (fun p => Version.toInt ⟨1, bipIdx p, true⟩) =
        [some 0x043587CF, some 0x044A5262, some 0x045F1CF6] ∧
    [44, 49, 84].map (fun p => Version.toInt ⟨0, bipIdx p, true⟩) =
        [some 0x04358394, some 0x044A4E28, some 0x045F18BC] := by decide

/-- **acct_keys**: so the `pub` and `prv` strings of an account block are the account node's
extended keys serialised under those SLIP-132 versions (`v1` for `pub`, `v0` for `prv`) -/
theorem acct_keys {P : Prims Pt} {w : Wallet} {purpose : Nat} {addr : Node → Option (List Char)}
    {acct a b : Nat} {keys : Json} {rows : List Json} (hroot : w.master.path = [])
    (hp : purpose < 2 ^ 31) (ha : acct < 2 ^ 31)
    (h : bipAccount P w purpose addr acct a b = some (keys, rows)) :
    ∃ acctNd v1 v0 pub prv,
      derivePath P w.master
        [purpose + 2 ^ 31, (if w.testnet then 1 else 0) + 2 ^ 31, acct + 2 ^ 31] = some acctNd ∧
      Version.toInt ⟨1, bipIdx purpose, w.testnet⟩ = some v1 ∧
      Version.toInt ⟨0, bipIdx purpose, w.testnet⟩ = some v0 ∧
      extendedPublicKey P acctNd (some v1) = some pub ∧
      extendedPrivateKey P acctNd (some v0) = some prv ∧
      keys = .obj [("path".toList, .str (Path.format
                ⟨[purpose + 2 ^ 31, (if w.testnet then 1 else 0) + 2 ^ 31, acct + 2 ^ 31], true⟩)),
              ("pub".toList, .str pub), ("prv".toList, .str prv)] := by
  obtain ⟨acctNd, pub, prv, h1, hpub, hprv, hk⟩ := acct_path hroot h
  unfold nodeExtendedPublicKey at hpub
  unfold nodeExtendedPrivateKey at hprv
  rw [acct_versions 1 hroot hp ha h1] at hpub
  split at hprv
  · cases hprv
  rw [acct_versions 0 hroot hp ha h1] at hprv
  obtain ⟨v1, hv1, hpub⟩ := Option.bind_eq_some_iff.mp hpub
  obtain ⟨v0, hv0, hprv⟩ := Option.bind_eq_some_iff.mp hprv
  exact ⟨acctNd, v1, v0, pub, prv, h1, hv1, hv0, hpub, hprv, hk⟩

/-! ### 4. the rows -/

/-- **rows_exact**: an account block has exactly one row per index of `range(a, b)`, in order —
none missing, none extra, none for an empty interval.  Row `i` is
`[path, address, sec, wif]` for the node derived along `m/purpose'/coin'/account'/0/(a+i)`: its
printed path, the address function applied to it, the hex of its compressed public key, and the
WIF column.  (No bound on the indexes is needed: an index ≥ 2^31 is derived hardened and printed
with `'`, both by the same rule.) -/
theorem rows_exact {P : Prims Pt} {w : Wallet} {purpose : Nat} {addr : Node → Option (List Char)}
    {acct a b : Nat} {keys : Json} {rows : List Json} (hroot : w.master.path = [])
    (h : bipAccount P w purpose addr acct a b = some (keys, rows)) :
    rows.length = b - a ∧
    ∀ i, i < b - a → ∃ nd ad K wif,
      derivePath P w.master
        [purpose + 2 ^ 31, (if w.testnet then 1 else 0) + 2 ^ 31, acct + 2 ^ 31, 0, a + i]
        = some nd ∧
      addr nd = some ad ∧ pubKey P nd = some K ∧
      rows[i]? = some (.arr [.str (Path.format
          ⟨[purpose + 2 ^ 31, (if w.testnet then 1 else 0) + 2 ^ 31, acct + 2 ^ 31, 0, a + i], true⟩),
        .str ad, .str (toHex (P.curve.sec true K)), wif]) := by
  have hprv := isPrv_of_bipAccount h
  obtain ⟨acctNd, pub, prv, rs, _, _, _, hr, hlen, hrows⟩ := bipAccount_spec h
  simp only [Acct.toPair, Prod.mk.injEq] at hr
  obtain ⟨_, rfl⟩ := hr
  refine ⟨by rw [List.length_map, hlen], fun i hi => ?_⟩
  obtain ⟨nd, ad, K, wv, g1, g2, g3, _, g5⟩ := hrows i hi
  refine ⟨nd, ad, K, optStr wv, g1, g2, g3, ?_⟩
  rw [List.getElem?_map, g5, Option.map_some, nodeRepr_of_derive g1 hroot, hprv]
  rfl

/-- an empty (or reversed) interval gives no rows -/
theorem rows_empty {P : Prims Pt} {w : Wallet} {purpose : Nat} {addr : Node → Option (List Char)}
    {acct a b : Nat} {keys : Json} {rows : List Json} (hab : b ≤ a)
    (h : bipAccount P w purpose addr acct a b = some (keys, rows)) : rows = [] := by
  obtain ⟨_, _, _, rs, _, _, _, hr, hlen, _⟩ := bipAccount_spec h
  simp only [Acct.toPair, Prod.mk.injEq] at hr
  rw [hr.2, List.map_eq_nil_iff, ← List.length_eq_zero_iff, hlen]
  omega

/-- the printed row path, character by character, when the index is not hardened
(`a + i < 2^31`, e.g. whenever `b ≤ 2^31`): `m/<purpose>'/<0|1>'/<account>'/0/<index>` -/
theorem row_path_string (t : Bool) (purpose acct idx : Nat) (hidx : idx < 2 ^ 31) :
    Path.format ⟨[purpose + 2 ^ 31, (if t then 1 else 0) + 2 ^ 31, acct + 2 ^ 31, 0, idx], true⟩ =
      ['m', '/'] ++ natToDec purpose ++ ['\'', '/'] ++ (if t then ['1'] else ['0']) ++ ['\'', '/']
        ++ natToDec acct ++ ['\'', '/', '0', '/'] ++ natToDec idx := by
  have hc : natToDec (if t then 1 else 0) = if t then ['1'] else ['0'] := by cases t <;> rfl
  have h0 : reprHardened 0 = ['0'] := by decide
  have hi : reprHardened idx = natToDec idx := by
    unfold reprHardened; rw [if_neg (by omega)]
  unfold Path.format
  simp only [List.map_cons, List.map_nil, reprHardened_add, if_true, Text.join, hc, h0, hi]
  simp

example : Path.format ⟨[84 + 2 ^ 31, (if false then 1 else 0) + 2 ^ 31, 0 + 2 ^ 31, 0, 19], true⟩ =
    "m/84'/0'/0'/0/19".toList := by decide +kernel

/-! ### 5. every row is consistent with the private key at its path -/

/-- **row_consistent**: in every row of an account block, the node at the stated path is private
with some scalar `k`; the WIF column is the compressed WIF of `k` on the wallet's network, the SEC
column is the hex of the compressed encoding of `k·G`, and the address column is the block's
address function applied to that node -/
theorem row_consistent {P : Prims Pt} {w : Wallet} {purpose : Nat}
    {addr : Node → Option (List Char)} {acct a b : Nat} {keys : Json} {rows : List Json}
    (hroot : w.master.path = []) (h : bipAccount P w purpose addr acct a b = some (keys, rows))
    {i : Nat} (hi : i < b - a) :
    ∃ nd k ad,
      derivePath P w.master
        [purpose + 2 ^ 31, (if w.testnet then 1 else 0) + 2 ^ 31, acct + 2 ^ 31, 0, a + i]
        = some nd ∧
      nd.isPrv = true ∧ prvKey P nd = some k ∧ pubKey P nd = some (P.curve.mulGen k) ∧
      addr nd = some ad ∧
      rows[i]? = some (.arr [.str (Path.format
          ⟨[purpose + 2 ^ 31, (if w.testnet then 1 else 0) + 2 ^ 31, acct + 2 ^ 31, 0, a + i], true⟩),
        .str ad, .str (toHex (P.curve.sec true (P.curve.mulGen k))),
        .str (Keys.wif P k true w.testnet)]) := by
  have hprv := isPrv_of_bipAccount h
  obtain ⟨acctNd, pub, prv, rs, _, _, _, hr, hlen, hrows⟩ := bipAccount_spec h
  simp only [Acct.toPair, Prod.mk.injEq] at hr
  obtain ⟨_, rfl⟩ := hr
  obtain ⟨nd, ad, K, wv, g1, g2, g3, g4, g5⟩ := hrows i hi
  have hndp : nd.isPrv = true := (derivePath_fields g1).1.trans hprv
  unfold rowWif at g4
  rw [watchOnly_eq_false hprv] at g4
  simp only [Bool.false_eq_true, if_false] at g4
  obtain ⟨k, hk, rfl⟩ := Option.map_eq_some_iff.mp g4
  have hK := pubKey_of_prvKey hndp hk
  rw [hK] at g3
  cases g3
  refine ⟨nd, k, ad, g1, hndp, hk, hK, g2, ?_⟩
  rw [List.getElem?_map, g5, Option.map_some, nodeRepr_of_derive g1 hroot, hprv]
  rfl

/-- the WIF of a row decodes (`PrivateKey.from_wif`) to the private key at the row's path, on
either network (for a curve order below 2^256 and a checksum hash of at least four bytes) -/
theorem row_wif_decodes (P : Prims Pt) (hlen : ∀ x, 4 ≤ (P.hash256 x).length)
    (hn : P.curve.n ≤ 2 ^ 256) (nd : Node) (k : Nat) (hk : prvKey P nd = some k) (t : Bool) :
    fromWif P (Keys.wif P k true t) = some k := by
  obtain ⟨h1, h2⟩ := prvKey_range P nd k hk
  exact C09.fromWif_wif P hlen hn k h1 h2 true t

example : (∀ x, 4 ≤ (Toy.primsW.hash256 x).length) ∧ Toy.primsW.curve.n ≤ 2 ^ 256 ∧
    prvKey Toy.primsW (Toy.masterW true) = some 1 :=
  ⟨fun x => by rw [Toy.hash256W_length]; decide, by decide, by decide +kernel⟩

/-- the three address functions of the report, as functions of the row's public key `k·G`:
P2PKH of its hash160 (44), P2SH of the hash160 of the P2WPKH script of its hash160 (49), native
P2WPKH of its hash160 (84), each with the network flag given -/
theorem row_addresses (P : Prims Pt) (t : Bool) (nd : Node) (K : Pt) (hK : pubKey P nd = some K) :
    p2pkhAddress P t nd = some (p2pkhOfH160 P (hash160 P (P.curve.sec true K)) t) ∧
    p2shP2wpkhAddress P t nd =
      (Script.rawSerialize [.op 0, .data (hash160 P (P.curve.sec true K))]).map
        (fun redeem => p2shOfH160 P (hash160 P redeem) t) ∧
    p2wpkhAddress P t nd = segwitOf (hash160 P (P.curve.sec true K)) t := by
  refine ⟨?_, ?_, ?_⟩
  · rw [p2pkhAddress_eq, hK]; rfl
  · rw [p2shP2wpkhAddress_eq, hK]; rfl
  · rw [p2wpkhAddress_eq, hK]; rfl

/-! ### the whole account block, and the whole report -/

/-- **account_block**: an account block produced with an address function that depends on the node
only through its public key is `AcctOk` (`Lemmas/Wallet.lean`): account node at
`m/purpose'/coin'/account'` with printed path and printed extended keys; one row per index, in
order, each `[path, address of k·G, hex sec of k·G, WIF of k]` for the private key `k` at
`m/purpose'/coin'/account'/0/index` -/
theorem account_block {P : Prims Pt} {w : Wallet} {purpose : Nat}
    {addr : Node → Option (List Char)} {keyAddr : Pt → Option (List Char)} {acct a b : Nat}
    {r : Json × List Json} (hroot : w.master.path = [])
    (haddr : ∀ nd, addr nd = (pubKey P nd).bind keyAddr)
    (h : bipAccount P w purpose addr acct a b = some r) :
    ∃ v : Acct, r = v.toPair ∧ AcctOk P w purpose keyAddr acct a b v :=
  bipAccount_ok hroot haddr h

/-- **generate_report**: every report is the dictionary `MASTER` (mnemonic and passphrase),
`BIP85`, `BIP44`, `BIP49`, `BIP84`, where the three account blocks satisfy `AcctOk` for purposes
44 / 49 / 84 with the P2PKH / P2SH-P2WPKH / P2WPKH address of the row's public key on the
wallet's network -/
theorem generate_report {P : Prims Pt} {w : Wallet} {acct a b : Nat} {j : Json}
    (hroot : w.master.path = []) (h : generate P w acct a b = some j) :
    ∃ (b85 : Json) (v44 v49 v84 : Acct),
      bip85Data P w = some b85 ∧
      j = .obj [("MASTER".toList,
                  .obj [("mnemonic".toList, optStr w.mnemonic), ("password".toList, optStr w.password)]),
                ("BIP85".toList, b85),
                ("BIP44".toList, .obj [("account_extended_keys".toList, v44.keysJson),
                                       ("groups".toList, .arr (v44.rows.map Row.toJson))]),
                ("BIP49".toList, .obj [("account_extended_keys".toList, v49.keysJson),
                                       ("groups".toList, .arr (v49.rows.map Row.toJson))]),
                ("BIP84".toList, .obj [("account_extended_keys".toList, v84.keysJson),
                                       ("groups".toList, .arr (v84.rows.map Row.toJson))])] ∧
      AcctOk P w 44 (keyAddr44 P w.testnet) acct a b v44 ∧
      AcctOk P w 49 (keyAddr49 P w.testnet) acct a b v49 ∧
      AcctOk P w 84 (keyAddr84 P w.testnet) acct a b v84 := by
  obtain ⟨r44, r49, r84, b85, h44, h49, h84, h85, rfl⟩ := generate_eq_some.mp h
  obtain ⟨v44, rfl, ok44⟩ := bipAccount_ok hroot (p2pkhAddress_eq P w.testnet) h44
  obtain ⟨v49, rfl, ok49⟩ := bipAccount_ok hroot (p2shP2wpkhAddress_eq P w.testnet) h49
  obtain ⟨v84, rfl, ok84⟩ := bipAccount_ok hroot (p2wpkhAddress_eq P w.testnet) h84
  exact ⟨b85, v44, v49, v84, h85, rfl, ok44, ok49, ok84⟩

example : ∃ j, generate Toy.primsW (Toy.walletW true) 1 2 4 = some j ∧
    (Toy.walletW true).master.path = [] := by
  obtain ⟨j, hj⟩ := Toy.generate_toy
  exact ⟨j, hj, rfl⟩

/-! ### 6. the master block -/

/-- **master_echo**: the `MASTER` entry is `{"mnemonic": …, "password": …}` holding the wallet's
stored mnemonic and passphrase; a wallet built from a mnemonic (directly, from entropy, or new)
stores exactly the mnemonic and passphrase it was built from, one built from a seed stores none -/
theorem master_echo (P : Prims Pt) :
    (∀ w, masterData w = .obj [("mnemonic".toList, optStr w.mnemonic),
                               ("password".toList, optStr w.password)]) ∧
    (∀ m p t w, fromMnemonic P m p t = some w →
      masterData w = .obj [("mnemonic".toList, .str m), ("password".toList, .str p)]) ∧
    (∀ e p t w, fromEntropyHex P e p t = some w →
      ∃ m, Bip39.mnemonicFromEntropy P.sha256 e = some m ∧
        masterData w = .obj [("mnemonic".toList, .str m), ("password".toList, .str p)]) ∧
    (∀ rnd n p t w, newWallet P rnd n p t = some w →
      ∃ bits m, (n, bits) ∈ Generated.lenToBits ∧
        Bip39.mnemonicFromEntropyBits P.sha256 rnd bits = some m ∧
        masterData w = .obj [("mnemonic".toList, .str m), ("password".toList, .str p)]) ∧
    (∀ seed t w, fromSeedBytes P seed t = some w →
      masterData w = .obj [("mnemonic".toList, .null), ("password".toList, .null)]) := by
  refine ⟨fun _ => rfl, fun m p t w h => ?_, fun e p t w h => ?_, fun rnd n p t w h => ?_,
    fun seed t w h => ?_⟩
  · obtain ⟨_, _, _, _, hm, hp⟩ := fromMnemonic_fields h
    unfold masterData; rw [hm, hp]; rfl
  · obtain ⟨m, hme, _, _, _, _, hm, hp⟩ := fromEntropyHex_fields h
    exact ⟨m, hme, by unfold masterData; rw [hm, hp]; rfl⟩
  · obtain ⟨bits, m, hb, hme, _, _, _, _, hm, hp⟩ := newWallet_fields h
    exact ⟨bits, m, hb, hme, by unfold masterData; rw [hm, hp]; rfl⟩
  · obtain ⟨_, _, _, _, hm, hp⟩ := fromSeedBytes_fields h
    unfold masterData; rw [hm, hp]; rfl

/-! ### 7. the Wasabi export -/

/-- **wasabi_spec**: the Wasabi export exists exactly when the node at `m/84'/0'/0'` can be
derived, its default-version extended public key serialises, and the master has a fingerprint; it
is then `{"ExtPubKey": that key, "MasterFingerprint": the master's fingerprint in upper-case hex,
"ColdCardFirmwareVersion": "3.1.3"}` -/
theorem wasabi_spec (P : Prims Pt) (w : Wallet) (j : Json) :
    wasabi P w = some j ↔
      ∃ nd x fp, derivePath P w.master [84 + 2 ^ 31, 2 ^ 31, 2 ^ 31] = some nd ∧
        extendedPublicKey P nd none = some x ∧ fingerprint P w.master = some fp ∧
        j = .obj [("ExtPubKey".toList, .str x),
                  ("MasterFingerprint".toList, .str (upperHex (toHex fp))),
                  ("ColdCardFirmwareVersion".toList, .str "3.1.3".toList)] := by
  unfold wasabi
  rw [byPath_wasabi]
  constructor
  · intro h
    obtain ⟨nd, h1, h⟩ := Option.bind_eq_some_iff.mp h
    obtain ⟨x, h2, h⟩ := Option.bind_eq_some_iff.mp h
    obtain ⟨fp, h3, h⟩ := Option.map_eq_some_iff.mp h
    exact ⟨nd, x, fp, h1, h2, h3, h.symm⟩
  · rintro ⟨nd, x, fp, h1, h2, h3, rfl⟩
    rw [h1, Option.bind_some, h2, Option.bind_some, h3]
    rfl

example (t : Bool) : ∃ j, wasabi Toy.primsW (Toy.walletW t) = some j :=
  Option.isSome_iff_exists.mp (Toy.wasabi_toy t)

/-- the master fingerprint of the export is the first four bytes of the hash160 of the master's
compressed public key, and `upperHex` only changes the letters `a`–`f` of the hex string -/
theorem wasabi_fingerprint (P : Prims Pt) (nd : Node) (K : Pt) (hK : pubKey P nd = some K) :
    fingerprint P nd = some ((hash160 P (P.curve.sec true K)).take 4) := by
  unfold fingerprint
  rw [hK]
  rfl

end BtcHd.C06
