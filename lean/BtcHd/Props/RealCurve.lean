/-
RealCurve — the curve hypotheses (`CurveLaws`, `GroupLaws`) hold for the CONCRETE secp256k1 of the
driver (`Prims/Secp256k1.lean`, restricted to valid points: `vCurve`), proved against Mathlib's
group law on `y² = x³ + 7` over `ZMod p` with `p`, `n` proved prime by Pratt certificates.
The remaining trusted base is "python-ecdsa computes the same functions as `Real.Secp`" (tested).
-/
import BtcHd.Lemmas.Secp.Carrier
import BtcHd.Lemmas.Secp.Bridge
import BtcHd.Lemmas.ShaLen
import BtcHd.Lemmas.CurveLaws
import BtcHd.Props.C02

namespace BtcHd.RealCurve
open BtcHd BtcHd.Real.Secp Bip32

/-- The field characteristic and the group order of the model are prime numbers. -/
theorem p_n_prime : Nat.Prime Real.Secp.p ∧ Nat.Prime Real.Secp.n := ⟨p_prime, n_prime⟩

/-- The model's modular exponentiation is exponentiation modulo `m` (exponents below 2^256). -/
theorem powMod_correct (b e m : Nat) (he : e < 2 ^ 256) (hm : 1 < m) :
    Real.Secp.powMod b e m = b ^ e % m := powMod_eq b e m he hm

example : Real.Secp.powMod 3 (Real.Secp.p - 1) Real.Secp.p = 1 := by
  rw [powMod_eq_pmLoop]; decide +kernel

/-- `vCurve` has exactly the underlying values of the driver's functions (`Real.Secp.*`). -/
theorem vCurve_agrees :
    vCurve.n = Real.Secp.n ∧
    (∀ k, (vCurve.mulGen k).1 = Real.Secp.mulGen k) ∧
    (∀ a b, (vCurve.add a b).1 = Real.Secp.add a.1 b.1) ∧
    (∀ q, vCurve.isInf q = q.1.isNone) ∧
    (∀ c q, vCurve.sec c q = Real.Secp.sec c q.1) ∧
    (∀ bs, (vCurve.parse bs).map Subtype.val = Real.Secp.parse bs) :=
  ⟨rfl, fun _ => rfl, fun _ _ => rfl, fun _ => rfl, fun _ _ => rfl, vCurve_parse_val⟩

/-- The model's operations never leave the curve: `mulGen`, `add` of valid points and `parse` results are valid. -/
theorem closure :
    (∀ k, Valid (Real.Secp.mulGen k)) ∧
    (∀ a b, Valid a → Valid b → Valid (Real.Secp.add a b)) ∧
    (∀ bs pt, Real.Secp.parse bs = some pt → Valid pt) :=
  ⟨fun k => (mulGen_spec k).1, fun _ _ ha hb => (add_spec ha hb).1, fun _ _ h => (parse_valid h).1⟩

/-- Valid points embed injectively into Mathlib's point group, infinity going to zero. -/
theorem toPoint_embedding :
    Function.Injective toPoint ∧ ∀ q, toPoint q = 0 ↔ vCurve.isInf q = true :=
  ⟨toPoint_injective, toPoint_eq_zero_iff⟩

/-- The model's point addition (Jacobian add/double, Fermat inverse) is Mathlib's group addition. -/
theorem toPoint_add_hom (a b : VPt) : toPoint (vCurve.add a b) = toPoint a + toPoint b :=
  toPoint_add a b

/-- The model's 256-step double-and-add `mulGen k` is `k • G` in Mathlib's group. -/
theorem toPoint_mulGen_smul (k : Nat) : toPoint (vCurve.mulGen k) = k • G :=
  toPoint_mulGen k

/-- `G` has order exactly `n`: `k • G = 0` iff `n ∣ k`. -/
theorem G_order (k : Nat) : k • G = 0 ↔ Real.Secp.n ∣ k := smul_G_eq_zero_iff k

/-- `(a + b)·G = a·G + b·G` for the concrete curve. -/
theorem mulGen_add (a b : Nat) :
    vCurve.mulGen ((a + b) % vCurve.n) = vCurve.add (vCurve.mulGen a) (vCurve.mulGen b) := by
  apply toPoint_injective
  rw [toPoint_add, toPoint_mulGen, toPoint_mulGen, toPoint_mulGen, vCurve_n, mod_n_smul_G, add_smul]

/-- `a·G = ∞ ↔ n ∣ a` for the concrete curve. -/
theorem mulGen_inf (a : Nat) : vCurve.isInf (vCurve.mulGen a) = true ↔ vCurve.n ∣ a := by
  rw [← toPoint_eq_zero_iff, toPoint_mulGen, smul_G_eq_zero_iff, vCurve_n]

/-- `k·G ≠ ∞` for `0 < k < n` for the concrete curve. -/
theorem mulGen_notInf (k : Nat) (h0 : 0 < k) (hk : k < vCurve.n) :
    ¬ vCurve.isInf (vCurve.mulGen k) = true := by
  rw [mulGen_inf]
  intro hd
  have := Nat.le_of_dvd h0 hd
  omega

private theorem notInf_some {pt : VPt} (h : ¬ vCurve.isInf pt = true) :
    ∃ x y, pt.1 = some (x, y) ∧ onCurve x y = true := by
  obtain ⟨q, hq⟩ := pt
  match q, hq with
  | none, _ => exact absurd rfl h
  | some (x, y), hq => exact ⟨x, y, rfl, hq⟩

/-- **`CurveLaws` holds for the concrete secp256k1 model.** -/
theorem real_curveLaws : CurveLaws vCurve where
  n_pos := one_lt_n
  n_lt := n_lt
  sec_len := by
    intro pt h
    obtain ⟨x, y, hxy, _⟩ := notInf_some h
    rw [vCurve_sec, hxy]; exact sec_len_some x y
  parse_sec := by
    intro c pt h
    obtain ⟨x, y, hxy, hc⟩ := notInf_some h
    rw [vCurve_parse_eq_some, vCurve_sec, hxy]
    exact parse_sec_onCurve c hc
  sec_parse := by
    intro bs pt hl hp
    rw [vCurve_sec]
    exact sec_parse_33 bs pt.1 hl (vCurve_parse_eq_some.mp hp)
  parse_notInf := by
    intro bs pt hp
    have := (parse_valid (vCurve_parse_eq_some.mp hp)).2
    rw [vCurve_isInf, Option.isNone_iff_eq_none]
    exact this
  mulGen_notInf := mulGen_notInf
  sec_prefix := by
    intro pt h
    obtain ⟨x, y, hxy, _⟩ := notInf_some h
    rw [vCurve_sec, hxy]; exact sec_prefix_some x y

example : ¬ vCurve.isInf (vCurve.mulGen 1) = true := mulGen_notInf 1 (by decide) one_lt_n

/-- **`GroupLaws` (C02's hypotheses, including the HMAC length) holds for the concrete primitives.** -/
theorem real_groupLaws (nfkd : List Char → List Char) : C02.GroupLaws (vPrims nfkd) where
  n_pos := one_lt_n
  n_le := Nat.le_of_lt n_lt
  mulGen_add := mulGen_add
  mulGen_inf := mulGen_inf
  parse_sec := by
    intro pt h
    have h' : vCurve.isInf pt = false := h
    exact real_curveLaws.parse_sec true pt (by rw [h']; decide)
  hmac_len := Real.hmacSha512_length

/-- The BIP32 layer run with the driver's raw curve (`rawPrims`, the record the differential test exercises)
computes the same results as with `vPrims`, for which the laws above are proved. -/
theorem raw_agrees (nfkd : List Char → List Char) (nd : Node) :
    (∀ i, ckdPrv (vPrims nfkd) nd i = ckdPrv (rawPrims nfkd) nd i) ∧
    (∀ i, ckdPub (vPrims nfkd) nd i = ckdPub (rawPrims nfkd) nd i) ∧
    (∀ is, derivePath (vPrims nfkd) nd is = derivePath (rawPrims nfkd) nd is) ∧
    fingerprint (vPrims nfkd) nd = fingerprint (rawPrims nfkd) nd ∧
    (∀ v, serializePublic (vPrims nfkd) nd v = serializePublic (rawPrims nfkd) nd v) ∧
    (∀ v, serializePrivate (vPrims nfkd) nd v = serializePrivate (rawPrims nfkd) nd v) :=
  ⟨bridge_ckdPrv nfkd nd, bridge_ckdPub nfkd nd, bridge_derivePath nfkd nd, bridge_fingerprint nfkd nd,
    bridge_serializePublic nfkd nd, bridge_serializePrivate nfkd nd⟩

/-- **C02 for the driver's own primitives, with no curve hypothesis left**: CKDpub ∘ neuter =
neuter ∘ CKDpriv on every normal index (outside the `IL = 0` corner). -/
theorem real_ckdPub_neuter (nfkd : List Char → List Char) (nd : Node) (k i : Nat)
    (hk : prvKey (rawPrims nfkd) nd = some k) (hi : i < 2 ^ 31)
    (h0 : C02.IL (rawPrims nfkd) nd k i ≠ 0) :
    (ckdPrv (rawPrims nfkd) nd i).bind (C02.neuter (rawPrims nfkd)) =
      (C02.neuter (rawPrims nfkd) nd).bind (ckdPub (rawPrims nfkd) · i) := by
  have h := C02.ckdPub_neuter (vPrims nfkd) (real_groupLaws nfkd) nd k i hk hi h0
  have hn : C02.neuter (vPrims nfkd) = C02.neuter (rawPrims nfkd) := rfl
  have hc : (fun x => ckdPub (vPrims nfkd) x i) = (fun x => ckdPub (rawPrims nfkd) x i) :=
    funext fun x => bridge_ckdPub nfkd x i
  rw [bridge_ckdPrv, hn, hc] at h
  exact h

/-- a concrete private node (key 1, zero chain code) for the non-vacuity example below -/
private def exNode : Node :=
  { isPrv := true, key := beFixed 32 1, chainCode := beFixed 32 0, depth := 0, index := 0,
    testnet := false, hasParent := false, parentFp := none, path := [], parsedVersion := none }

-- the hypotheses of `real_ckdPub_neuter` hold for `exNode`, `k = 1`, `i = 0` (kernel-evaluated HMAC)
example : prvKey (rawPrims id) exNode = some 1 ∧ C02.IL (rawPrims id) exNode 1 0 ≠ 0 := by
  decide +kernel

/-- HMAC-SHA512 of the driver returns 64 bytes, SHA-256 returns 32. -/
theorem hash_lengths (k m : Bytes) :
    (Real.hmacSha512 k m).length = 64 ∧ (Real.sha256 m).length = 32 :=
  ⟨Real.hmacSha512_length k m, Real.sha256_length m⟩


end BtcHd.RealCurve
