/-
Translated Python (`BtcHd.Code`, generated from /repo by harness/translate.py) = hand-written model:
`helper.py` `encode_base58`, `decode_base58`, `encode_base58_checksum`, `decode_base58_checksum`,
`b58decode_addr`, `little_endian_to_int`, `big_endian_to_int`, `int_to_big_endian` — the whole Base58Check
pipeline of C10 (the double SHA-256 is a parameter on both sides).
-/
import BtcHd.Lemmas.Translated2

namespace BtcHd.Translated
open BtcHd

/-- The translated `encode_base58` is the model's `Base58.encode`, on every byte string. -/
theorem encode_base58_eq (data : Bytes) : Code.encode_base58 data = Base58.encode data := by
  unfold Code.encode_base58
  simp only [bind_pure_comp, map_pure, Id.run_pure, pure_bind]
  rw [forIn_takeWhile_id (p := fun c : UInt8 => c = 0) (g := fun n _ => n + 1)]
  simp only [pure_bind]
  rw [leadingZeros_eq]
  have h := forIn_break_id (α := Nat) (fun s : Nat × List Char => s.1 > 0)
    (fun s => (s.1 / 58, [Generated.base58Alphabet[s.1 % 58]!] ++ s.2))
    (List.range (beToNat data + 1)) (beToNat data, [])
  rw [List.length_range, while_encBody _ _ _ (Nat.lt_succ_self _)] at h
  rw [show (forIn (m := Id) (List.range (beToNat data + 1)) (beToNat data, ([] : List Char)) fun x __s =>
      if ¬__s.fst > 0 then pure (ForInStep.done (__s.fst, __s.snd))
      else pure (ForInStep.yield (__s.fst / 58, [Generated.base58Alphabet[__s.fst % 58]!] ++ __s.snd))) =
      pure (0, Base58.encBody (beToNat data) []) from h]
  simp only [map_pure, Id.run_pure, Base58.encode]
  have h0 : Base58.alphaAt 0 = Char.ofNat 49 := by decide
  rw [h0]


/-- The translated `decode_base58` is the model's `Base58.decode`, on every string (the `hex()` /
`bytes.fromhex` route, the `s[:-1]` pad count and the `ValueError` on a foreign character included). -/
theorem decode_base58_eq (s : List Char) : Code.decode_base58 s = Base58.decode s := by
  unfold Code.decode_base58
  simp only []
  have hloop : (forIn (m := Option) s 0 fun c __s =>
      if c ∉ Generated.base58Alphabet then do
        none
        pure (ForInStep.yield (__s * 58 + List.idxOf c Generated.base58Alphabet))
      else pure (ForInStep.yield (__s * 58 + List.idxOf c Generated.base58Alphabet))) = Base58.decNum s 0 := by
    rw [decNum_eq]
    exact forIn_raise_option (fun c => c ∉ Generated.base58Alphabet)
      (fun a c => a * 58 + Generated.base58Alphabet.idxOf c) s 0
  rw [hloop]
  unfold Base58.decode
  cases Base58.decNum s 0 with
  | none => rfl
  | some num =>
    simp only [Option.bind_eq_bind, Option.bind_some, Option.map_some]
    have := fromHex_hexPad num
    unfold hexPad at this
    rw [this]
    simp only [Option.bind_some]
    rw [forIn_takeWhile_option (p := fun c : Char => c = Generated.base58Alphabet[0]!) (g := fun n _ => n + 1)]
    simp only [Option.bind_some, leadingOnes_eq]
    have : dropLastN 1 s = s.dropLast := by simp [dropLastN, List.dropLast_eq_take]
    rw [this]; rfl


/-- The translated `encode_base58_checksum` is the model's `encodeCheck`, for every hash function. -/
theorem encode_base58_checksum_eq (h : Bytes → Bytes) (data : Bytes) :
    Code.encode_base58_checksum h data = Base58.encodeCheck h data := by
  unfold Code.encode_base58_checksum Base58.encodeCheck
  simp only [Id.run_pure, encode_base58_eq]

/-- The translated `decode_base58_checksum` is the model's `decodeCheck`, for every hash function. -/
theorem decode_base58_checksum_eq (h : Bytes → Bytes) (s : List Char) :
    Code.decode_base58_checksum h s = Base58.decodeCheck h s := by
  unfold Code.decode_base58_checksum Base58.decodeCheck
  simp only [decode_base58_eq]
  cases Base58.decode s with
  | none => rfl
  | some raw =>
    simp only [Option.bind_eq_bind, Option.bind_some]
    by_cases hc : (h (dropLastN 4 raw)).take 4 = lastN 4 raw
    · simp [hc]
    · simp [hc]

/-- The translated `b58decode_addr` is the model's `decodeAddr`. -/
theorem b58decode_addr_eq (h : Bytes → Bytes) (s : List Char) :
    Code.b58decode_addr h s = Base58.decodeAddr h s := by
  unfold Code.b58decode_addr Base58.decodeAddr
  simp only [decode_base58_checksum_eq]
  cases Base58.decodeCheck h s <;> rfl

/-- `little_endian_to_int`, `big_endian_to_int`, `int_to_big_endian` are the model's byte/integer conversions. -/
theorem int_helpers_eq (b : Bytes) (n len : Nat) :
    Code.little_endian_to_int b = leToNat b ∧ Code.big_endian_to_int b = beToNat b ∧
      Code.int_to_big_endian n len = toBytesBE len n := by
  refine ⟨rfl, rfl, ?_⟩
  unfold Code.int_to_big_endian
  cases toBytesBE len n <;> rfl

example : Code.encode_base58 [0, 0, 1, 2] = "115T".toList := by decide +kernel
example : Code.decode_base58 "115T".toList = some [0, 0, 1, 2] := by decide +kernel
example : Code.decode_base58 "10".toList = none := by decide +kernel

end BtcHd.Translated
