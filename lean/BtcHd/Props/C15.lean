/-
C15 — the paranoia filter.

"For every wallet, the paranoia-filtered output contains no mnemonic, passphrase, BIP85 value,
extended private key or WIF […].  Every path, address, public key and extended public key in it is
identical to the unfiltered output."

Property theorems only.  `paranoia` / `paranoiaEntry` (`Model/Wallet.lean`) mirror `paranoia_mode`
of `__main__.py`; the report is the value of `generate` (C06).  `leaves` (all string / null values
of a JSON value, at any depth) and `Json.getPath` (`j[k₁][k₂]…`) are in `Lemmas/Json.lean`; the
views `Acct` / `Row` of an account block in `Lemmas/Wallet.lean`; helper lemmas in
`Lemmas/Paranoia.lean`.
-/
import BtcHd.Lemmas.Paranoia
import BtcHd.Props.C06

namespace BtcHd.C15
open BtcHd Bip32 Wallet Keys

variable {Pt : Type}

/-! ### 1. the whitelist -/

/-- **paranoia_keys**: the keys `paranoia_mode` keeps are `BIP44`, `BIP49`, `BIP84` -/
theorem paranoia_keys :
    Generated.paranoiaKeys = ["BIP44".toList, "BIP49".toList, "BIP84".toList] :=
  paranoiaKeys_eq

/-! ### 2. the filtered report -/

/-- every account block of a report is a structured block: path / pub / prv strings and rows of
`[path, address, sec, wif]` -/
private theorem bipAccount_view {P : Prims Pt} {w : Wallet} {purpose : Nat}
    {addr : Node → Option (List Char)} {acct a b : Nat} {r : Json × List Json}
    (h : bipAccount P w purpose addr acct a b = some r) :
    ∃ v : Acct, r = v.toPair ∧ v.rows.length = b - a := by
  obtain ⟨acctNd, pub, prv, rs, _, _, _, hr, hlen, _⟩ := bipAccount_spec h
  exact ⟨_, hr, hlen⟩

/-- **paranoia_shape**: the filter applied to a generated report succeeds, and its result is the
dictionary `BIP44`, `BIP49`, `BIP84` (no `MASTER`, no `BIP85`) whose entries are
`{"account_extended_keys": {"path": …, "pub": …}, "groups": rows}` — the very `path` and `pub`
strings of the unfiltered block (no `prv`) and every unfiltered row `[path, address, sec, wif]`
cut down to `[path, address, sec]` -/
theorem paranoia_shape {P : Prims Pt} {w : Wallet} {acct a b : Nat} {j : Json}
    (h : generate P w acct a b = some j) :
    ∃ (b85 : Json) (v44 v49 v84 : Acct),
      j = .obj [("MASTER".toList, masterData w), ("BIP85".toList, b85),
        ("BIP44".toList, .obj [("account_extended_keys".toList,
            .obj [("path".toList, .str v44.path), ("pub".toList, .str v44.pub),
                  ("prv".toList, optStr v44.prv)]),
          ("groups".toList, .arr (v44.rows.map fun r =>
            .arr [.str r.path, .str r.addr, .str r.sec, optStr r.wif]))]),
        ("BIP49".toList, .obj [("account_extended_keys".toList,
            .obj [("path".toList, .str v49.path), ("pub".toList, .str v49.pub),
                  ("prv".toList, optStr v49.prv)]),
          ("groups".toList, .arr (v49.rows.map fun r =>
            .arr [.str r.path, .str r.addr, .str r.sec, optStr r.wif]))]),
        ("BIP84".toList, .obj [("account_extended_keys".toList,
            .obj [("path".toList, .str v84.path), ("pub".toList, .str v84.pub),
                  ("prv".toList, optStr v84.prv)]),
          ("groups".toList, .arr (v84.rows.map fun r =>
            .arr [.str r.path, .str r.addr, .str r.sec, optStr r.wif]))])] ∧
      v44.rows.length = b - a ∧ v49.rows.length = b - a ∧ v84.rows.length = b - a ∧
      paranoia j = some (.obj [
        ("BIP44".toList, .obj [("account_extended_keys".toList,
            .obj [("path".toList, .str v44.path), ("pub".toList, .str v44.pub)]),
          ("groups".toList, .arr (v44.rows.map fun r => .arr [.str r.path, .str r.addr, .str r.sec]))]),
        ("BIP49".toList, .obj [("account_extended_keys".toList,
            .obj [("path".toList, .str v49.path), ("pub".toList, .str v49.pub)]),
          ("groups".toList, .arr (v49.rows.map fun r => .arr [.str r.path, .str r.addr, .str r.sec]))]),
        ("BIP84".toList, .obj [("account_extended_keys".toList,
            .obj [("path".toList, .str v84.path), ("pub".toList, .str v84.pub)]),
          ("groups".toList, .arr (v84.rows.map fun r => .arr [.str r.path, .str r.addr, .str r.sec]))])]) := by
  obtain ⟨r44, r49, r84, b85, h44, h49, h84, _, rfl⟩ := generate_eq_some.mp h
  obtain ⟨v44, rfl, l44⟩ := bipAccount_view h44
  obtain ⟨v49, rfl, l49⟩ := bipAccount_view h49
  obtain ⟨v84, rfl, l84⟩ := bipAccount_view h84
  exact ⟨b85, v44, v49, v84, rfl, l44, l49, l84, paranoia_report (masterData w) b85 v44 v49 v84⟩

example : ∃ j, generate Toy.primsW (Toy.walletW true) 1 2 4 = some j := Toy.generate_toy

/-- the same statement through the views of `Lemmas/Wallet.lean` (`acctJson v.toPair` is the
unfiltered block, `v.toPublicJson` the filtered one) -/
private theorem paranoia_views {P : Prims Pt} {w : Wallet} {acct a b : Nat} {j : Json}
    (h : generate P w acct a b = some j) :
    ∃ (b85 : Json) (v44 v49 v84 : Acct),
      bip85Data P w = some b85 ∧
      bipAccount P w 44 (p2pkhAddress P w.testnet) acct a b = some v44.toPair ∧
      bipAccount P w 49 (p2shP2wpkhAddress P w.testnet) acct a b = some v49.toPair ∧
      bipAccount P w 84 (p2wpkhAddress P w.testnet) acct a b = some v84.toPair ∧
      j = .obj [("MASTER".toList, masterData w), ("BIP85".toList, b85),
        ("BIP44".toList, acctJson v44.toPair), ("BIP49".toList, acctJson v49.toPair),
        ("BIP84".toList, acctJson v84.toPair)] ∧
      v44.rows.length = b - a ∧ v49.rows.length = b - a ∧ v84.rows.length = b - a ∧
      paranoia j = some (.obj [("BIP44".toList, v44.toPublicJson), ("BIP49".toList, v49.toPublicJson),
        ("BIP84".toList, v84.toPublicJson)]) := by
  obtain ⟨r44, r49, r84, b85, h44, h49, h84, h85, rfl⟩ := generate_eq_some.mp h
  obtain ⟨v44, rfl, l44⟩ := bipAccount_view h44
  obtain ⟨v49, rfl, l49⟩ := bipAccount_view h49
  obtain ⟨v84, rfl, l84⟩ := bipAccount_view h84
  exact ⟨b85, v44, v49, v84, h85, h44, h49, h84, rfl, l44, l49, l84,
    paranoia_report (masterData w) b85 v44 v49 v84⟩

/-! ### 3. totality -/

/-- **paranoia_total**: whenever a report is generated, the filter succeeds on it -/
theorem paranoia_total {P : Prims Pt} {w : Wallet} {acct a b : Nat} {j : Json}
    (h : generate P w acct a b = some j) : (paranoia j).isSome = true := by
  obtain ⟨_, _, _, _, _, _, _, _, _, _, _, _, hp⟩ := paranoia_views h
  rw [hp]
  rfl

/-- non-vacuity of the hypotheses used below: a generated report and its filtered form exist -/
example : ∃ j j', generate Toy.primsW (Toy.walletW true) 1 2 4 = some j ∧ paranoia j = some j' ∧
    (Toy.walletW true).master.path = [] := by
  obtain ⟨j, hj⟩ := Toy.generate_toy
  obtain ⟨j', hj'⟩ := Option.isSome_iff_exists.mp (paranoia_total hj)
  exact ⟨j, j', hj, hj', rfl⟩

/-! ### 4. the leaves of the filtered report -/

/-- **paranoia_leaves**: the string / null values occurring anywhere in the filtered report are
exactly, in order and for BIP44, BIP49, BIP84 in turn, the `publicLeaves` of the block: the
account path, the account extended public key, and for every row its path, address and SEC hex
(`Acct.publicLeaves`, `Row.publicLeaves`).  None of them is `null`.  The unfiltered report has
in addition the mnemonic, the passphrase, the BIP85 values, and per block the extended private key
and per row the WIF (`Acct.allLeaves`). -/
theorem paranoia_leaves {P : Prims Pt} {w : Wallet} {acct a b : Nat} {j j' : Json}
    (h : generate P w acct a b = some j) (h' : paranoia j = some j') :
    ∃ (b85 : Json) (v44 v49 v84 : Acct),
      leaves j' = v44.publicLeaves ++ v49.publicLeaves ++ v84.publicLeaves ∧
      (∀ l ∈ leaves j', ∃ s, l = Sum.inl s) ∧
      leaves j = leaves (optStr w.mnemonic) ++ leaves (optStr w.password) ++ leaves b85 ++
        v44.allLeaves ++ v49.allLeaves ++ v84.allLeaves := by
  obtain ⟨b85, v44, v49, v84, _, _, _, _, rfl, _, _, _, hp⟩ := paranoia_views h
  rw [hp] at h'
  cases h'
  have hl : leaves (Json.obj [("BIP44".toList, v44.toPublicJson), ("BIP49".toList, v49.toPublicJson),
      ("BIP84".toList, v84.toPublicJson)]) =
      v44.publicLeaves ++ v49.publicLeaves ++ v84.publicLeaves := by
    simp only [leaves_obj, leavesObj_cons, leavesObj_nil, leaves_acct_public, List.append_nil,
      List.append_assoc]
  refine ⟨b85, v44, v49, v84, hl, ?_, ?_⟩
  · intro l hl'
    rw [hl] at hl'
    simp only [Acct.publicLeaves, Row.publicLeaves, List.mem_append, List.mem_cons,
      List.not_mem_nil, or_false, List.mem_flatMap] at hl'
    rcases hl' with (((e | e) | ⟨r, _, e | e | e⟩) | ((e | e) | ⟨r, _, e | e | e⟩)) |
      ((e | e) | ⟨r, _, e | e | e⟩) <;> exact ⟨_, e⟩
  · simp only [leaves_obj, leavesObj_cons, leavesObj_nil, leaves_acct, masterData,
      List.append_nil, List.append_assoc]

/-- the public leaves of a block, spelled out -/
theorem publicLeaves_def (v : Acct) :
    v.publicLeaves = (Sum.inl v.path : Leaf) :: Sum.inl v.pub ::
      v.rows.flatMap fun r => [(Sum.inl r.path : Leaf), Sum.inl r.addr, Sum.inl r.sec] := rfl

/-! ### 5. what is unchanged and what is gone, by key -/

/-- **paranoia_public_unchanged**: under each of `BIP44`, `BIP49`, `BIP84`, the entries
`account_extended_keys.path`, `account_extended_keys.pub` and, for every row `i` of the interval,
the columns 0, 1, 2 (path, address, sec) are present in the filtered report and are the very same
strings as in the unfiltered one -/
theorem paranoia_public_unchanged {P : Prims Pt} {w : Wallet} {acct a b : Nat} {j j' : Json}
    (h : generate P w acct a b = some j) (h' : paranoia j = some j') :
    ∀ K ∈ Generated.paranoiaKeys,
      (∀ f ∈ ["path".toList, "pub".toList], ∃ s,
        j.getPath [.inl K, .inl "account_extended_keys".toList, .inl f] = some (.str s) ∧
        j'.getPath [.inl K, .inl "account_extended_keys".toList, .inl f] = some (.str s)) ∧
      ∀ i, i < b - a → ∀ c, c < 3 → ∃ s,
        j.getPath [.inl K, .inl "groups".toList, .inr i, .inr c] = some (.str s) ∧
        j'.getPath [.inl K, .inl "groups".toList, .inr i, .inr c] = some (.str s) := by
  obtain ⟨b85, v44, v49, v84, _, _, _, _, rfl, l44, l49, l84, hp⟩ := paranoia_views h
  rw [hp] at h'
  cases h'
  intro K hK
  obtain ⟨v, hv, s1, s2⟩ := report_step (masterData w) b85 v44 v49 v84 hK
  have hlen : v.rows.length = b - a := by
    simp only [List.mem_cons, List.not_mem_nil, or_false] at hv
    rcases hv with rfl | rfl | rfl <;> assumption
  obtain ⟨a1, a2, a3, a4, _, _, arow⟩ := acct_access v
  refine ⟨fun f hf => ?_, fun i hi c hc => ?_⟩
  · simp only [List.mem_cons, List.not_mem_nil, or_false] at hf
    rcases hf with rfl | rfl
    · exact ⟨v.path, by rw [getPath_cons_of_step s1, a1], by rw [getPath_cons_of_step s2, a2]⟩
    · exact ⟨v.pub, by rw [getPath_cons_of_step s1, a3], by rw [getPath_cons_of_step s2, a4]⟩
  · have hi' : i < v.rows.length := by omega
    obtain ⟨hcols, _, _⟩ := arow i v.rows[i] (List.getElem?_eq_getElem hi')
    have hcl : c < [v.rows[i].path, v.rows[i].addr, v.rows[i].sec].length := hc
    obtain ⟨g1, g2⟩ := hcols c _ (List.getElem?_eq_getElem hcl)
    exact ⟨_, by rw [getPath_cons_of_step s1, g1], by rw [getPath_cons_of_step s2, g2]⟩

/-- **paranoia_secrets_removed**: the filtered report has no `MASTER` entry (mnemonic,
passphrase), no `BIP85` entry, under each account block no `prv` entry, and no fourth column
(WIF) in any row — all of which the unfiltered report has -/
theorem paranoia_secrets_removed {P : Prims Pt} {w : Wallet} {acct a b : Nat} {j j' : Json}
    (h : generate P w acct a b = some j) (h' : paranoia j = some j') :
    (j.getPath [.inl "MASTER".toList] = some (masterData w) ∧ j'.getPath [.inl "MASTER".toList] = none) ∧
    (j.getPath [.inl "BIP85".toList] = bip85Data P w ∧ j'.getPath [.inl "BIP85".toList] = none) ∧
    ∀ K ∈ Generated.paranoiaKeys,
      ((j.getPath [.inl K, .inl "account_extended_keys".toList, .inl "prv".toList]).isSome = true ∧
        j'.getPath [.inl K, .inl "account_extended_keys".toList, .inl "prv".toList] = none) ∧
      ∀ i, i < b - a →
        (j.getPath [.inl K, .inl "groups".toList, .inr i, .inr 3]).isSome = true ∧
        j'.getPath [.inl K, .inl "groups".toList, .inr i, .inr 3] = none := by
  obtain ⟨b85, v44, v49, v84, h85, _, _, _, rfl, l44, l49, l84, hp⟩ := paranoia_views h
  rw [hp] at h'
  cases h'
  refine ⟨⟨by simp [Json.getPath_cons, Json.getPath_nil, Json.step, List.lookup],
      by simp [Json.getPath_cons, Json.step, List.lookup]⟩,
    ⟨by rw [h85]; simp [Json.getPath_cons, Json.getPath_nil, Json.step, List.lookup],
      by simp [Json.getPath_cons, Json.step, List.lookup]⟩, fun K hK => ?_⟩
  obtain ⟨v, hv, s1, s2⟩ := report_step (masterData w) b85 v44 v49 v84 hK
  have hlen : v.rows.length = b - a := by
    simp only [List.mem_cons, List.not_mem_nil, or_false] at hv
    rcases hv with rfl | rfl | rfl <;> assumption
  obtain ⟨_, _, _, _, a5, a6, arow⟩ := acct_access v
  refine ⟨⟨by rw [getPath_cons_of_step s1, a5]; rfl, by rw [getPath_cons_of_step s2, a6]⟩,
    fun i hi => ?_⟩
  have hi' : i < v.rows.length := by omega
  obtain ⟨_, g1, g2⟩ := arow i v.rows[i] (List.getElem?_eq_getElem hi')
  exact ⟨by rw [getPath_cons_of_step s1, g1]; rfl, by rw [getPath_cons_of_step s2, g2]⟩

/-! ### 6. every remaining leaf is public data (with C06) -/

/-- what a leaf of the filtered report can be, for the account block of one purpose -/
private def PublicLeaf (P : Prims Pt) (w : Wallet) (purpose : Nat) (keyAddr : Pt → Option (List Char))
    (acct a b : Nat) (s : List Char) : Prop :=
  s = Path.format ⟨acctLevels w purpose acct, true⟩ ∨
  (∃ acctNd, derivePath P w.master (acctLevels w purpose acct) = some acctNd ∧
    nodeExtendedPublicKey P w acctNd = some s) ∨
  ∃ i, i < b - a ∧ ∃ nd k, derivePath P w.master (rowLevels w purpose acct (a + i)) = some nd ∧
    prvKey P nd = some k ∧
    (s = Path.format ⟨rowLevels w purpose acct (a + i), true⟩ ∨
      keyAddr (P.curve.mulGen k) = some s ∨
      s = toHex (P.curve.sec true (P.curve.mulGen k)))

private theorem publicLeaf_of_ok {P : Prims Pt} {w : Wallet} {purpose : Nat}
    {keyAddr : Pt → Option (List Char)} {acct a b : Nat} {v : Acct}
    (ok : AcctOk P w purpose keyAddr acct a b v) {l : Leaf} (hl : l ∈ v.publicLeaves) :
    ∃ s, l = .inl s ∧ PublicLeaf P w purpose keyAddr acct a b s := by
  obtain ⟨⟨acctNd, xprv, h1, h2, h3, _, _⟩, hlen, hrows⟩ := ok
  simp only [Acct.publicLeaves, Row.publicLeaves, List.mem_append, List.mem_cons,
    List.not_mem_nil, or_false, List.mem_flatMap] at hl
  rcases hl with (rfl | rfl) | ⟨r, hr, hl⟩
  · exact ⟨_, rfl, Or.inl h2⟩
  · exact ⟨_, rfl, Or.inr (Or.inl ⟨acctNd, h1, h3⟩)⟩
  · obtain ⟨i, hi, hri⟩ := List.mem_iff_getElem.mp hr
    have hi' : i < b - a := by omega
    obtain ⟨nd, k, ad, g1, g2, g3, g4⟩ := hrows i hi'
    rw [List.getElem?_eq_getElem hi, hri, Option.some.injEq] at g4
    subst g4
    rcases hl with rfl | rfl | rfl
    · exact ⟨_, rfl, Or.inr (Or.inr ⟨i, hi', nd, k, g1, g2, Or.inl rfl⟩)⟩
    · exact ⟨_, rfl, Or.inr (Or.inr ⟨i, hi', nd, k, g1, g2, Or.inr (Or.inl g3)⟩)⟩
    · exact ⟨_, rfl, Or.inr (Or.inr ⟨i, hi', nd, k, g1, g2, Or.inr (Or.inr rfl)⟩)⟩

/-- **paranoia_only_public**: every value left in the filtered report of a wallet (master a root
object) is a string that is, for one of the purposes 44 / 49 / 84: the printed account path
`m/purpose'/coin'/account'`; or the account node's extended *public* key as the wallet prints it;
or, for a row index `i` of the interval and the private key `k` at
`m/purpose'/coin'/account'/0/(a+i)`: the printed row path, the address of the *public* key `k·G`,
or the hex of the compressed SEC of `k·G`.  No mnemonic, passphrase, BIP85 value, extended
private key or WIF is among them. -/
theorem paranoia_only_public {P : Prims Pt} {w : Wallet} {acct a b : Nat} {j j' : Json}
    (hroot : w.master.path = []) (h : generate P w acct a b = some j)
    (h' : paranoia j = some j') :
    ∀ l ∈ leaves j', ∃ s, l = .inl s ∧
      ((s = Path.format
            ⟨[44 + 2 ^ 31, (if w.testnet then 1 else 0) + 2 ^ 31, acct + 2 ^ 31], true⟩ ∨
          (∃ acctNd, derivePath P w.master
              [44 + 2 ^ 31, (if w.testnet then 1 else 0) + 2 ^ 31, acct + 2 ^ 31] = some acctNd ∧
            nodeExtendedPublicKey P w acctNd = some s) ∨
          ∃ i, i < b - a ∧ ∃ nd k, derivePath P w.master
              [44 + 2 ^ 31, (if w.testnet then 1 else 0) + 2 ^ 31, acct + 2 ^ 31, 0, a + i] = some nd ∧
            prvKey P nd = some k ∧
            (s = Path.format
                ⟨[44 + 2 ^ 31, (if w.testnet then 1 else 0) + 2 ^ 31, acct + 2 ^ 31, 0, a + i], true⟩ ∨
              keyAddr44 P w.testnet (P.curve.mulGen k) = some s ∨
              s = toHex (P.curve.sec true (P.curve.mulGen k)))) ∨
       (s = Path.format
            ⟨[49 + 2 ^ 31, (if w.testnet then 1 else 0) + 2 ^ 31, acct + 2 ^ 31], true⟩ ∨
          (∃ acctNd, derivePath P w.master
              [49 + 2 ^ 31, (if w.testnet then 1 else 0) + 2 ^ 31, acct + 2 ^ 31] = some acctNd ∧
            nodeExtendedPublicKey P w acctNd = some s) ∨
          ∃ i, i < b - a ∧ ∃ nd k, derivePath P w.master
              [49 + 2 ^ 31, (if w.testnet then 1 else 0) + 2 ^ 31, acct + 2 ^ 31, 0, a + i] = some nd ∧
            prvKey P nd = some k ∧
            (s = Path.format
                ⟨[49 + 2 ^ 31, (if w.testnet then 1 else 0) + 2 ^ 31, acct + 2 ^ 31, 0, a + i], true⟩ ∨
              keyAddr49 P w.testnet (P.curve.mulGen k) = some s ∨
              s = toHex (P.curve.sec true (P.curve.mulGen k)))) ∨
       (s = Path.format
            ⟨[84 + 2 ^ 31, (if w.testnet then 1 else 0) + 2 ^ 31, acct + 2 ^ 31], true⟩ ∨
          (∃ acctNd, derivePath P w.master
              [84 + 2 ^ 31, (if w.testnet then 1 else 0) + 2 ^ 31, acct + 2 ^ 31] = some acctNd ∧
            nodeExtendedPublicKey P w acctNd = some s) ∨
          ∃ i, i < b - a ∧ ∃ nd k, derivePath P w.master
              [84 + 2 ^ 31, (if w.testnet then 1 else 0) + 2 ^ 31, acct + 2 ^ 31, 0, a + i] = some nd ∧
            prvKey P nd = some k ∧
            (s = Path.format
                ⟨[84 + 2 ^ 31, (if w.testnet then 1 else 0) + 2 ^ 31, acct + 2 ^ 31, 0, a + i], true⟩ ∨
              keyAddr84 P w.testnet (P.curve.mulGen k) = some s ∨
              s = toHex (P.curve.sec true (P.curve.mulGen k))))) := by
  obtain ⟨r44, r49, r84, b85, h44, h49, h84, _, rfl⟩ := generate_eq_some.mp h
  obtain ⟨v44, rfl, ok44⟩ := bipAccount_ok hroot (p2pkhAddress_eq P w.testnet) h44
  obtain ⟨v49, rfl, ok49⟩ := bipAccount_ok hroot (p2shP2wpkhAddress_eq P w.testnet) h49
  obtain ⟨v84, rfl, ok84⟩ := bipAccount_ok hroot (p2wpkhAddress_eq P w.testnet) h84
  rw [paranoia_report] at h'
  cases h'
  intro l hl
  simp only [leaves_obj, leavesObj_cons, leavesObj_nil, leaves_acct_public, List.append_nil,
    List.mem_append] at hl
  rcases hl with hl | hl | hl
  · obtain ⟨s, rfl, hs⟩ := publicLeaf_of_ok ok44 hl
    exact ⟨s, rfl, Or.inl hs⟩
  · obtain ⟨s, rfl, hs⟩ := publicLeaf_of_ok ok49 hl
    exact ⟨s, rfl, Or.inr (Or.inl hs)⟩
  · obtain ⟨s, rfl, hs⟩ := publicLeaf_of_ok ok84 hl
    exact ⟨s, rfl, Or.inr (Or.inr hs)⟩

/-! ### 7. the filter on an arbitrary dictionary -/

/-- **paranoia_whitelist**: on ANY JSON value, if `paranoia_mode` returns, the input was a
dictionary; the output is a dictionary whose keys are the input's whitelisted keys in the
input's order; every output value was rebuilt from the input value under the same key alone and
has exactly the two sub-keys `account_extended_keys` (with exactly `path` and `pub`, copied
from the input) and `groups` (the input rows, each without its last element) -/
theorem paranoia_whitelist {j j' : Json} (h : paranoia j = some j') :
    ∃ kvs out, j = .obj kvs ∧ j' = .obj out ∧
      out.map (·.1) = (kvs.map (·.1)).filter (· ∈ Generated.paranoiaKeys) ∧
      List.Forall₂ (fun kv kv' => kv'.1 = kv.1 ∧ paranoiaEntry kv.2 = some kv'.2)
        (kvs.filter fun kv => kv.1 ∈ Generated.paranoiaKeys) out ∧
      ∀ kv' ∈ out, kv'.1 ∈ Generated.paranoiaKeys ∧
        ∃ inner keys rows pth pub rows', (kv'.1, Json.obj inner) ∈ kvs ∧
          inner.lookup "account_extended_keys".toList = some (.obj keys) ∧
          inner.lookup "groups".toList = some (.arr rows) ∧
          keys.lookup "path".toList = some pth ∧ keys.lookup "pub".toList = some pub ∧
          List.Forall₂ (fun r r' => ∃ cols, r = .arr cols ∧ r' = .arr cols.dropLast) rows rows' ∧
          kv'.2 = .obj [("account_extended_keys".toList,
                          .obj [("path".toList, pth), ("pub".toList, pub)]),
                        ("groups".toList, .arr rows')] := by
  obtain ⟨kvs, out, rfl, ho, rfl⟩ := paranoia_eq_some.mp h
  obtain ⟨h1, h2, h3⟩ := paranoia_out ho
  refine ⟨kvs, out, rfl, rfl, ?_, h2, fun kv' hm => ?_⟩
  · rw [h1, List.filter_map]
    rfl
  · obtain ⟨kv, hkv, hk, he⟩ := h3 kv' hm
    obtain ⟨hkv1, hkv2⟩ := List.mem_filter.mp hkv
    obtain ⟨inner, keys, rows, pth, pub, rows', hv, g1, g2, g3, g4, g5, g6⟩ :=
      paranoiaEntry_eq_some.mp he
    refine ⟨by rw [hk]; exact of_decide_eq_true hkv2, inner, keys, rows, pth, pub, rows', ?_, g1,
      g2, g3, g4, ?_, g6⟩
    · rw [hk, ← hv]; exact hkv1
    · refine (mapM_opt_forall₂ g5).imp ?_
      intro r r' hr
      cases r with
      | arr cols => exact ⟨cols, rfl, (Option.some.inj hr).symm⟩
      | null => cases hr
      | str s => cases hr
      | obj kvs => cases hr

example : paranoia (.obj [("BIP44".toList, .obj [("account_extended_keys".toList,
      .obj [("path".toList, .str ['m']), ("pub".toList, .null), ("x".toList, .null)]),
      ("groups".toList, .arr [.arr [.null, .str ['s']]])]), ("other".toList, .null)]) =
    some (.obj [("BIP44".toList, .obj [("account_extended_keys".toList,
      .obj [("path".toList, .str ['m']), ("pub".toList, .null)]),
      ("groups".toList, .arr [.arr [.null]])])]) := by
  rfl

end BtcHd.C15
