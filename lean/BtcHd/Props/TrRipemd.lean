/-
Translation tie, batch 13: the functions of `ripemd.py` as re-emitted from the source by harness/translate_obj6.py
(`Generated/CodeObj6.lean`, in the residue domain Z/2^32 — see the translator's header for the rule set and for what it
checks syntactically) are EQUAL to the model `Model/Ripemd.lean`, on which the HASH160 clause of C05 is stated.
-/
import BtcHd.Generated.CodeObj6
import BtcHd.Model.Ripemd
import Mathlib.Tactic.IntervalCases

namespace BtcHd.TrRipemd
open BtcHd BtcHd.Ripemd

/-- `fi` on the five round numbers the code uses (the `else: assert False` arm is opaque) -/
theorem fi_eq (x y z : UInt32) (i : Nat) (h : i ≤ 4) : CodeObj6.fi x y z i = Ripemd.fi x y z i := by
  interval_cases i <;> rfl

theorem rol_eq (x : UInt32) (i : Nat) : CodeObj6.rol x i = Ripemd.rol x i := rfl

/-- every rotation count of the tables is a proper 32-bit rotation and every schedule index names one of the sixteen
message words (the ranges under which `rol`'s shifts and `4 - rnd` mean in Z/2^32 and ℕ what they mean in Python) -/
theorem tables_in_range :
    (∀ r ∈ Generated.rmdRL ++ Generated.rmdRR, 0 < r ∧ r < 32) ∧
    (∀ m ∈ Generated.rmdML ++ Generated.rmdMR, m < 16) ∧
    Generated.rmdML.length = 80 ∧ Generated.rmdMR.length = 80 ∧ Generated.rmdRL.length = 80 ∧
    Generated.rmdRR.length = 80 ∧ Generated.rmdKL.length = 5 ∧ Generated.rmdKR.length = 5 := by
  decide +kernel

abbrev T5 := UInt32 × UInt32 × UInt32 × UInt32 × UInt32
abbrev T10 := UInt32 × UInt32 × UInt32 × UInt32 × UInt32 × UInt32 × UInt32 × UInt32 × UInt32 × UInt32

def ofLanes (lr : Lane × Lane) : T10 :=
  (lr.1.a, lr.1.b, lr.1.c, lr.1.d, lr.1.e, lr.2.a, lr.2.b, lr.2.c, lr.2.d, lr.2.e)

def ofState (s : State) : T5 := (s.h0, s.h1, s.h2, s.h3, s.h4)

private theorem foldl_rel {α β : Type} (f : α → Nat → α) (g : β → Nat → β) (ρ : β → α) (P : Nat → Prop)
    (h : ∀ s j, P j → f (ρ s) j = ρ (g s j)) :
    ∀ (l : List Nat) (_ : ∀ j ∈ l, P j) (s : β), l.foldl f (ρ s) = ρ (l.foldl g s) := by
  intro l
  induction l with
  | nil => intro _ s; rfl
  | cons a t ih =>
    intro hl s
    simp only [List.foldl_cons]
    rw [h s a (hl a (by simp))]
    exact ih (fun j hj => hl j (by simp [hj])) _

/-- `compress` -/
theorem compress_eq (h0 h1 h2 h3 h4 : UInt32) (block : Bytes) :
    CodeObj6.compress h0 h1 h2 h3 h4 block = ofState (Ripemd.compress ⟨h0, h1, h2, h3, h4⟩ block) := by
  unfold CodeObj6.compress Ripemd.compress
  have key := foldl_rel
    (fun (st : T10) (j : Nat) =>
      let (al, bl, cl, dl, el, ar, br, cr, dr, er) := st
      let rnd := (j / 16)
      let al := ((CodeObj6.rol (((al + (CodeObj6.fi bl cl dl rnd)) + ((Ripemd.wordsLE block).toArray.getD (tbl Generated.rmdML j) 0)) + (UInt32.ofNat (tbl Generated.rmdKL rnd))) (tbl Generated.rmdRL j)) + el)
      let (al, bl, cl, dl, el) := (el, al, bl, (CodeObj6.rol cl 10), dl)
      let ar := ((CodeObj6.rol (((ar + (CodeObj6.fi br cr dr (4 - rnd))) + ((Ripemd.wordsLE block).toArray.getD (tbl Generated.rmdMR j) 0)) + (UInt32.ofNat (tbl Generated.rmdKR rnd))) (tbl Generated.rmdRR j)) + er)
      let (ar, br, cr, dr, er) := (er, ar, br, (CodeObj6.rol cr 10), dr)
      (al, bl, cl, dl, el, ar, br, cr, dr, er))
    (stepBoth (Ripemd.wordsLE block).toArray) ofLanes (fun j => j < 80)
    (by
      intro s j hj
      have h1 : j / 16 ≤ 4 := by omega
      have h2 : 4 - j / 16 ≤ 4 := by omega
      simp only [ofLanes, stepBoth, laneStep, fi_eq _ _ _ _ h1, fi_eq _ _ _ _ h2, rol_eq])
    (List.range 80) (by intro j hj; exact List.mem_range.mp hj)
    (⟨h0, h1, h2, h3, h4⟩, ⟨h0, h1, h2, h3, h4⟩)
  simp only [ofLanes] at key
  simp only [key, ofState]

/-- the block loop `for b in range(n): state = compress(*state, X[64*b:64*(b+1)])` is the model's `absorb` -/
theorem blocksN_eq (n : Nat) : ∀ (s : State) (X : Bytes),
    (List.range n).foldl (fun (state : T5) b =>
      CodeObj6.compress state.1 state.2.1 state.2.2.1 state.2.2.2.1 state.2.2.2.2 ((X.drop (64 * b)).take (64 * (b + 1) - 64 * b)))
      (ofState s) = ofState (absorb n s X) := by
  induction n with
  | zero => intro s X; rfl
  | succ n ih =>
    intro s X
    rw [List.range_succ_eq_map, List.foldl_cons, List.foldl_map]
    have e0 : CodeObj6.compress (ofState s).1 (ofState s).2.1 (ofState s).2.2.1 (ofState s).2.2.2.1 (ofState s).2.2.2.2
        ((X.drop (64 * 0)).take (64 * (0 + 1) - 64 * 0)) = ofState (Ripemd.compress s (X.take 64)) := by
      simp only [ofState, compress_eq, Nat.mul_zero, List.drop_zero]
    rw [e0]
    have e1 : (fun (x : T5) (y : Nat) => CodeObj6.compress x.1 x.2.1 x.2.2.1 x.2.2.2.1 x.2.2.2.2
          ((X.drop (64 * (y + 1))).take (64 * (y + 1 + 1) - 64 * (y + 1)))) =
        (fun (x : T5) (y : Nat) => CodeObj6.compress x.1 x.2.1 x.2.2.1 x.2.2.2.1 x.2.2.2.2
          (((X.drop 64).drop (64 * y)).take (64 * (y + 1) - 64 * y))) := by
      funext x y
      have a1 : 64 * (y + 1 + 1) - 64 * (y + 1) = 64 * (y + 1) - 64 * y := by omega
      have a2 : 64 * (y + 1) = 64 + 64 * y := by omega
      rw [a1, List.drop_drop, a2]
    rw [e1, ih]
    rfl

theorem blocks_eq (s : State) (X : Bytes) :
    CodeObj6.blocks (ofState s) X = ofState (absorb (X.length / 64) s X) := by
  unfold CodeObj6.blocks
  exact blocksN_eq _ s X

/-- `ripemd160` -/
theorem ripemd160_eq (data : Bytes) : CodeObj6.ripemd160 data = Ripemd.ripemd160 data := by
  unfold CodeObj6.ripemd160 Ripemd.ripemd160 finBlock
  have hinit : ((1732584193, 4023233417, 2562383102, 271733878, 3285377520) : T5) = ofState initState := by decide
  have hpad : ((119 - (data.length : Int)) % 64).toNat = padLen data.length := by unfold padLen; omega
  have hdrop : data.length - data.length % 64 = 64 * (data.length / 64) := by omega
  rw [hinit, hpad, hdrop]
  show Ripemd.u32LE (CodeObj6.blocks (CodeObj6.blocks (ofState initState) data) _).1 ++ _ = _
  rw [blocks_eq, blocks_eq]
  rfl

end BtcHd.TrRipemd
