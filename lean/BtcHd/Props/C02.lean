/-
C02 — Public-only derivation agrees with private derivation on every normal path.

The curve is abstract; its group laws are the explicit hypotheses `GroupLaws`
(assumed for secp256k1 / python-ecdsa, see DESIGN §3).  The corner `IL = 0`
(reachable only by substituting the PRF) is excluded by hypothesis: there the
public side refuses while the private side returns the (valid) child.
-/
import BtcHd.Lemmas.Bip32

namespace BtcHd.C02
open BtcHd Bip32 Keys BytesL

variable {Pt : Type}

/-- what the theorems assume about the curve library and the PRF's output size -/
structure GroupLaws (P : Prims Pt) : Prop where
  n_pos : 1 < P.curve.n
  n_le : P.curve.n ≤ 2 ^ 256
  /-- `(a + b)·G = a·G + b·G` -/
  mulGen_add : ∀ a b, P.curve.mulGen ((a + b) % P.curve.n) = P.curve.add (P.curve.mulGen a) (P.curve.mulGen b)
  /-- `a·G = ∞ ↔ n ∣ a` -/
  mulGen_inf : ∀ a, P.curve.isInf (P.curve.mulGen a) = true ↔ P.curve.n ∣ a
  /-- parsing a compressed SEC encoding gives the point back -/
  parse_sec : ∀ pt, P.curve.isInf pt = false → P.curve.parse (P.curve.sec true pt) = some pt
  /-- HMAC-SHA512 returns 64 bytes -/
  hmac_len : ∀ key msg, (P.hmac512 key msg).length = 64

/-- dropping the private part of a node: same metadata, key := serP(k·G) -/
def neuter (P : Prims Pt) (nd : Node) : Option Node :=
  (prvKey P nd).map fun k => { nd with isPrv := false, key := P.curve.sec true (P.curve.mulGen k) }

/-- left HMAC half of a normal derivation step (the same bytes on both sides) -/
def IL (P : Prims Pt) (nd : Node) (k i : Nat) : Nat :=
  beToNat ((P.hmac512 nd.chainCode (P.curve.sec true (P.curve.mulGen k) ++ beFixed 4 i)).take 32)

private theorem mulGen_notInf (P : Prims Pt) (L : GroupLaws P) {k : Nat} (h1 : 1 ≤ k) (h2 : k < P.curve.n) :
    P.curve.isInf (P.curve.mulGen k) = false := by
  cases h : P.curve.isInf (P.curve.mulGen k)
  · rfl
  · have hd := (L.mulGen_inf k).mp h
    have := Nat.le_of_dvd (by omega) hd
    omega

/-- **CKDpub ∘ neuter = neuter ∘ CKDpriv** for every normal index: both fail or both
succeed with the same public key, chain code, depth, child number, parent
fingerprint and path. -/
theorem ckdPub_neuter (P : Prims Pt) (L : GroupLaws P) (nd : Node) (k i : Nat)
    (hk : prvKey P nd = some k) (hi : i < 2 ^ 31) (h0 : IL P nd k i ≠ 0) :
    (ckdPrv P nd i).bind (neuter P) = (neuter P nd).bind (ckdPub P · i) := by
  obtain ⟨hk1, hk2⟩ := prvKey_range P nd k hk
  have hnpos : 0 < P.curve.n := by omega
  have hi32 : i < 2 ^ 32 := by omega
  have hnh : ¬ (hardened ≤ i) := by rw [hardened_eq]; omega
  have h4 : toBytesBE 4 i = some (beFixed 4 i) := toBytesBE_some (by rw [pow_256_4]; exact hi32)
  have hdata : ckdPrvData P k i = P.curve.sec true (P.curve.mulGen k) ++ beFixed 4 i := by
    unfold ckdPrvData; rw [if_neg (by simpa using hnh)]
  have hKinf := mulGen_notInf P L hk1 hk2
  -- private side
  rw [ckdPrv_eq P nd i k hk hi32 L.n_le, hdata]
  -- public side
  have hneut : neuter P nd = some { nd with isPrv := false, key := P.curve.sec true (P.curve.mulGen k) } := by
    unfold neuter; rw [hk]; rfl
  rw [hneut]
  simp only [Option.bind_some]
  unfold ckdPub
  simp only [ge_iff_le, if_neg hnh, h4, Option.bind_some]
  unfold IL at h0
  generalize hI : P.hmac512 nd.chainCode (P.curve.sec true (P.curve.mulGen k) ++ beFixed 4 i) = I at *
  have hIlen : (I.take 32).length = 32 := by
    rw [List.length_take, ← hI, L.hmac_len]; rfl
  by_cases hge : P.curve.n ≤ beToNat (I.take 32)
  · rw [if_pos hge, if_pos hge]; rfl
  · rw [if_neg hge, if_neg hge]
    have hmk : mkPriv P.curve (I.take 32) = some (beToNat (I.take 32)) :=
      mkPriv_eq_some.mpr ⟨hIlen, Nat.pos_of_ne_zero h0, by omega, rfl⟩
    rw [hmk]
    simp only [Option.bind_some]
    rw [L.parse_sec _ hKinf]
    simp only [Option.bind_some]
    rw [← L.mulGen_add]
    set ki := (beToNat (I.take 32) + k) % P.curve.n with hki
    have hkilt : ki < P.curve.n := Nat.mod_lt _ hnpos
    by_cases hz : ki = 0
    · have : P.curve.isInf (P.curve.mulGen ki) = true := (L.mulGen_inf ki).mpr (by rw [hz]; exact Nat.dvd_zero _)
      rw [if_pos hz, if_pos this]; rfl
    · have hnotinf := mulGen_notInf P L (Nat.pos_of_ne_zero hz) hkilt
      rw [if_neg hz, if_neg (by rw [hnotinf]; simp)]
      simp only [Option.bind_some]
      unfold neuter
      rw [mkChild_prvKey P nd ki _ i _ (Nat.pos_of_ne_zero hz) hkilt L.n_le]
      simp only [Option.map_some, mkChild]

/-- a hardened child can never be derived from public-only data: refused before
any primitive is evaluated, for every node -/
theorem ckdPub_hardened (P : Prims Pt) (nd : Node) (i : Nat) (hi : 2 ^ 31 ≤ i) : ckdPub P nd i = none := by
  unfold ckdPub
  rw [if_pos (by rw [hardened_eq]; exact hi)]

/-- a path containing a hardened index is refused on a public node -/
theorem derivePub_hardened (P : Prims Pt) (is : List Nat) (h : ∃ i ∈ is, 2 ^ 31 ≤ i) (nd : Node)
    (hp : nd.isPrv = false) : derivePath P nd is = none := by
  induction is generalizing nd with
  | nil => obtain ⟨i, hi, _⟩ := h; cases hi
  | cons j js ih =>
    unfold derivePath
    have hckd : ckd P nd j = ckdPub P nd j := by unfold ckd; rw [hp]; rfl
    rw [hckd]
    cases hc : ckdPub P nd j with
    | none => rfl
    | some c =>
      simp only [Option.bind_some]
      obtain ⟨i, hi, hbig⟩ := h
      rcases List.mem_cons.mp hi with rfl | hi'
      · rw [ckdPub_hardened P nd i hbig] at hc; cases hc
      · apply ih ⟨i, hi', hbig⟩
        · unfold ckdPub at hc
          simp only [ge_iff_le] at hc
          split at hc
          · cases hc
          · cases h4 : toBytesBE 4 j with
            | none => rw [h4] at hc; cases hc
            | some idx4 =>
              rw [h4] at hc
              simp only [Option.bind_some] at hc
              split at hc
              · cases hc
              · cases hm : mkPriv P.curve ((P.hmac512 nd.chainCode (nd.key ++ idx4)).take 32) with
                | none => rw [hm] at hc; cases hc
                | some il =>
                  rw [hm] at hc
                  simp only [Option.bind_some] at hc
                  cases hpk : P.curve.parse nd.key with
                  | none => rw [hpk] at hc; cases hc
                  | some K =>
                    rw [hpk] at hc
                    simp only [Option.bind_some] at hc
                    split at hc
                    · cases hc
                    · simp only [Option.some.injEq] at hc
                      rw [← hc, mkChild_isPrv, hp]

/-- **Paths**: along every sequence of normal indexes (any length), deriving
publicly from the neutered parent equals deriving privately and then neutering —
as long as no step hits the `IL = 0` corner. -/
theorem derivePub_neuter (P : Prims Pt) (L : GroupLaws P) (is : List Nat) (his : ∀ i ∈ is, i < 2 ^ 31)
    (nd : Node) (k : Nat) (hp : nd.isPrv = true) (hk : prvKey P nd = some k)
    (hIL : ∀ (nd' : Node) (k' i : Nat), prvKey P nd' = some k' → i ∈ is → IL P nd' k' i ≠ 0) :
    (derivePath P nd is).bind (neuter P) = (neuter P nd).bind (derivePath P · is) := by
  induction is generalizing nd k with
  | nil =>
    unfold derivePath
    simp only [Option.bind_some]
    cases neuter P nd <;> rfl
  | cons i is ih =>
    have hi : i < 2 ^ 31 := his i (List.mem_cons_self ..)
    have hstep := ckdPub_neuter P L nd k i hk hi (hIL nd k i hk (List.mem_cons_self ..))
    have hneut : neuter P nd = some { nd with isPrv := false, key := P.curve.sec true (P.curve.mulGen k) } := by
      unfold neuter; rw [hk]; rfl
    rw [hneut] at hstep ⊢
    simp only [Option.bind_some] at hstep ⊢
    unfold derivePath
    have hckd : ckd P nd i = ckdPrv P nd i := by unfold ckd; rw [hp]; rfl
    have hckd' : ckd P { nd with isPrv := false, key := P.curve.sec true (P.curve.mulGen k) } i
        = ckdPub P { nd with isPrv := false, key := P.curve.sec true (P.curve.mulGen k) } i := by
      unfold ckd; rfl
    rw [hckd, hckd', ← hstep]
    cases hc : ckdPrv P nd i with
    | none => rfl
    | some c =>
      simp only [Option.bind_some]
      obtain ⟨ki, IR, fp, h1, h2, _, _, _, _, rfl⟩ :=
        ckdPrv_eq_some P nd c i k hk (by omega) L.n_le hc
      have hkc := mkChild_prvKey P nd ki IR i fp h1 h2 L.n_le
      have := ih (fun j hj => his j (List.mem_cons_of_mem _ hj)) (mkChild nd (beFixed 32 ki) IR i fp) ki
        (by rw [mkChild_isPrv, hp]) hkc
        (fun nd' k' j hk' hj => hIL nd' k' j hk' (List.mem_cons_of_mem _ hj))
      rw [this]

/-- non-vacuity of the hypotheses: the `IL = 0` exclusion is about a single value of a 256-bit quantity -/
example (P : Prims Pt) (nd : Node) (k i : Nat) (h : IL P nd k i = 5) : IL P nd k i ≠ 0 := by omega


/-! ### The bulk entry point with every interval shape `range(*interval)` accepts -/

private theorem mapM_none_of_mem {α β : Type} (f : α → Option β) (l : List α) (x : α) (hx : x ∈ l) (hf : f x = none) :
    l.mapM f = none := by
  induction l with
  | nil => cases hx
  | cons a t ih =>
    simp only [List.mapM_cons]
    rcases List.mem_cons.mp hx with rfl | ht
    · rw [hf]; rfl
    · cases f a with
      | none => rfl
      | some b => simp [ih ht]

/-- **Bulk refusal.**  On a public node `generate_children` over ANY tuple `(a, b, step)` that contains a hardened index —
ascending, descending, strided, crossing `2^31` in either direction — is refused as a whole; so is one that contains a
negative index or has step 0. -/
theorem generateChildrenStep_pub_refused (P : Prims Pt) (nd : Node) (a b step : Int) (hp : nd.isPrv = false)
    (h : step = 0 ∨ ∃ i ∈ pyRange a b step, i < 0 ∨ (2 : Int) ^ 31 ≤ i) :
    generateChildrenStep P nd a b step = none := by
  unfold generateChildrenStep
  by_cases hs : step = 0
  · simp [hs]
  · simp only [hs, ↓reduceIte]
    rcases h with h0 | ⟨i, hi, hbad⟩
    · exact absurd h0 hs
    · apply mapM_none_of_mem _ _ i hi
      by_cases hneg : i < 0
      · simp [hneg]
      · have h31 : (2 : Int) ^ 31 ≤ i := by rcases hbad with h1 | h1 <;> [exact absurd h1 hneg; exact h1]
        simp only [hneg, ↓reduceIte]
        unfold ckd
        simp only [hp, Bool.false_eq_true, ↓reduceIte]
        apply ckdPub_hardened
        have : ((2 ^ 31 : Nat) : Int) ≤ i := by simpa using h31
        omega

/-- with step 1 and a non-negative start the general form is the two-element form the reports use -/
theorem generateChildrenStep_one (P : Prims Pt) (nd : Node) (a b : Nat) :
    generateChildrenStep P nd a b 1 = generateChildren P nd a b := by
  unfold generateChildrenStep generateChildren pyRange
  simp only [Int.one_ne_zero, ↓reduceIte, Int.zero_lt_one, Int.add_sub_cancel, Int.ediv_one, Int.one_mul]
  have hl : (List.range (if (a : Int) < b then ((b : Int) - a).toNat else 0)).map (fun (j : Nat) => (a : Int) + Int.ofNat j) =
      (List.range' a (b - a)).map (fun (i : Nat) => (i : Int)) := by
    have hc : (if (a : Int) < b then ((b : Int) - a).toNat else 0) = b - a := by
      split <;> omega
    rw [hc, List.range'_eq_map_range, List.map_map]
    apply List.map_congr_left
    intro j _
    simp [Int.ofNat_eq_natCast]
  rw [hl]
  generalize List.range' a (b - a) = l
  induction l with
  | nil => rfl
  | cons x t ih =>
    simp only [List.map_cons, List.mapM_cons]
    have hx : ¬ ((x : Int) < 0) := by omega
    simp only [hx, ↓reduceIte, Int.toNat_natCast]
    cases ckd P nd x with
    | none => rfl
    | some c => simp only [Option.pure_def, Option.bind_eq_bind, Option.bind_some]; rw [ih]

example : pyRange 5 0 (-2) = [5, 3, 1] := by decide
example : pyRange (2 ^ 31 + 1) (2 ^ 31 - 3) (-1) = [2 ^ 31 + 1, 2 ^ 31, 2 ^ 31 - 1, 2 ^ 31 - 2] := by decide

end BtcHd.C02
