/-
C13 — derivation is a pure function of root and path.

"The result of any derivation, address, serialisation or BIP85 request depends only on the
root key material, the network and the requested path or parameters, not on which other
requests were made earlier on the same wallet or node objects, in what order, how often, or
concurrently from other threads.  Deriving a concatenated path equals deriving its parts in
sequence, an address generator yields consecutive indexes (or skips ahead by the number sent
to it), and no request alters the root key."

Model: `Model/History.lean` — a state machine of API calls on SHARED wallet / node / generator
objects (`State` = wallet, table of node objects by handle with their `children` counters,
ghost `paths`, live generators).  Concurrency is modelled as arbitrary interleavings of atomic
API calls: a history is any `List Op`, and nothing below restricts which client issued which
call.

Shape of the argument.
* `Inv` (section 1): every entry of the node table IS `derivePath P w.master path` for its
  recorded path; this holds initially and is kept by every call.
* `pureStep` / `pureRun` (`Lemmas/History.lean`) answer calls from the ghost data `Ghost`
  (recorded paths + generator views) and the root `w.master` ONLY — the type `Ghost` contains
  no node table — and `step` / `run` agree with them (section 2).
* Consequences: the root is never altered (3), handles are never re-bound (4), concatenated
  paths (5), generator index sequences (6), independence of interleaved calls (7).

Property theorems only; helper lemmas are in `Lemmas/History.lean`.
-/
import BtcHd.Lemmas.ToyHistory

namespace BtcHd.C13
open BtcHd Bip32 Wallet History

variable {Pt : Type}

/-! ### 1. the invariant: the node table is the pure derivation along the recorded paths -/

/-- the initial state (only the master node, handle 0, path `[]`) satisfies the invariant -/
theorem inv_init (P : Prims Pt) (w : Wallet) : Inv P w (init w) :=
  History.inv_init P w

/-- every API call keeps the invariant -/
theorem inv_step {P : Prims Pt} {w : Wallet} {s : State} (hinv : Inv P w s) (op : Op) :
    Inv P w (step P s op).1 :=
  History.inv_step hinv op

/-- every history keeps the invariant -/
theorem inv_run {P : Prims Pt} {w : Wallet} {s : State} (hinv : Inv P w s) (ops : List Op) :
    Inv P w (run P s ops).1 :=
  History.inv_run hinv ops

/-- after ANY history on a fresh wallet, every node object in the table is the derivation of the
master node along the index path by which its handle was reached -/
theorem table_is_pure (P : Prims Pt) (w : Wallet) (ops : List Op) {h : Nat} {nd : Node} {c : Nat}
    (hn : (run P (init w) ops).1.nodes[h]? = some (nd, c)) :
    ∃ path, (run P (init w) ops).1.paths[h]? = some path ∧ derivePath P w.master path = some nd :=
  (History.inv_run (History.inv_init P w) ops).of_node hn

-- non-vacuity: a reachable state with four node handles and a live generator
example : Inv toyP toyW toyS ∧ toyS.nodes.length = 4 ∧
    toyS.paths = [[], [0], [2 ^ 31 + 1], [0, 7]] ∧
    toyS.gens[0]? = some ⟨1, .p2pkh, true, 4, false⟩ :=
  ⟨toyS_inv, toyS_nodes_length, toyS_paths, toyS_gen⟩

/-! ### 2. every output is a function of (root wallet, recorded paths, generator counters, call) -/

/-- Under the invariant the output of a call is the one computed by `pureStep`, which never
looks at the node table: it re-derives every node from `w.master` along the recorded path of
the handle, and sees a generator only as (path of its node, kind, started, index, dead). -/
theorem step_out_pure {P : Prims Pt} {w : Wallet} {s : State} (hinv : Inv P w s) (op : Op) :
    (step P s op).2 = (pureStep P w (ghost s) op).2 := by
  rw [pureStep_ghost hinv op]

/-- ... and the ghost data after the call is the one computed by `pureStep` -/
theorem step_ghost_pure {P : Prims Pt} {w : Wallet} {s : State} (hinv : Inv P w s) (op : Op) :
    ghost (step P s op).1 = (pureStep P w (ghost s) op).1 := by
  rw [pureStep_ghost hinv op]

/-- The outputs of a whole history are those of `pureRun`, which threads only the ghost data
(paths, generator views) and answers every call from the root wallet. -/
theorem history_refines {P : Prims Pt} {w : Wallet} {s : State} (hinv : Inv P w s) (ops : List Op) :
    (run P s ops).2 = (pureRun P w (ghost s) ops).2 := by
  rw [pureRun_ghost hinv ops]

/-- for histories on a fresh wallet: the outputs are `pureRun` from the ghost `⟨[[]], []⟩` -/
theorem history_refines_init (P : Prims Pt) (w : Wallet) (ops : List Op) :
    (run P (init w) ops).2 = (pureRun P w ⟨[[]], []⟩ ops).2 :=
  history_refines (History.inv_init P w) ops

/-- a `ckd` call returns the derivation of the ROOT along (path of the handle) ++ [index] -/
theorem ckd_out_pure {P : Prims Pt} {w : Wallet} {s : State} (hinv : Inv P w s) {h : Nat}
    {path : List Nat} (hp : s.paths[h]? = some path) (i : Nat) :
    (step P s (.ckd h i)).2 = outOpt .node (derivePath P w.master (path ++ [i])) := by
  rw [step_out_pure hinv]
  simp only [pureStep, ghost_paths, hp]
  cases derivePath P w.master (path ++ [i]) <;> rfl

/-- a `derive_path` call returns the derivation of the ROOT along (path of the handle) ++ indexes -/
theorem derivePath_out_pure {P : Prims Pt} {w : Wallet} {s : State} (hinv : Inv P w s) {h : Nat}
    {path : List Nat} (hp : s.paths[h]? = some path) (is : List Nat) :
    (step P s (.derivePath h is)).2 = outOpt .node (derivePath P w.master (path ++ is)) := by
  rw [step_out_pure hinv]
  simp only [pureStep, ghost_paths, hp]
  cases derivePath P w.master (path ++ is) <;> rfl

/-- `generate_children((a, b))` returns the derivations of the ROOT along path ++ [i], a ≤ i < b -/
theorem genChildren_out_pure {P : Prims Pt} {w : Wallet} {s : State} (hinv : Inv P w s) {h : Nat}
    {path : List Nat} (hp : s.paths[h]? = some path) (a b : Nat) :
    (step P s (.genChildren h a b)).2 =
      outOpt .nodes ((List.range' a (b - a)).mapM fun i => derivePath P w.master (path ++ [i])) := by
  rw [step_out_pure hinv]
  simp only [pureStep, ghost_paths, hp]
  cases (List.range' a (b - a)).mapM fun i => derivePath P w.master (path ++ [i]) <;> rfl

/-- `by_path(str)` returns the derivation of the root along the parsed levels, whatever happened
before on the wallet -/
theorem byPath_out_pure {P : Prims Pt} {w : Wallet} {s : State} (hinv : Inv P w s)
    (str : List Char) : (step P s (.byPath str)).2 = outOpt .node (Wallet.byPath P w str) := by
  rw [step_out_pure hinv]
  simp only [pureStep, Wallet.byPath]
  cases Path.parse str with
  | none => rfl
  | some p => dsimp only [Option.bind_some]; cases derivePath P w.master p.levels <;> rfl

/-- an address request on a handle is answered from the node re-derived from the root, the
wallet's network flag and the kind -/
theorem addr_out_pure {P : Prims Pt} {w : Wallet} {s : State} (hinv : Inv P w s) {h : Nat}
    {path : List Nat} (hp : s.paths[h]? = some path) (k : AddrKind) :
    ∃ nd, derivePath P w.master path = some nd ∧
      (step P s (.addr h k)).2 = outOpt .text (addrOf P w.testnet k nd) := by
  obtain ⟨nd, c, _, hd⟩ := hinv.of_path hp
  refine ⟨nd, hd, ?_⟩
  rw [step_out_pure hinv]
  simp only [pureStep, ghost_paths, hp, Option.bind_some, hd]

/-- an extended-keys (serialisation) request on a handle is answered from the node re-derived
from the root and the wallet -/
theorem extKeys_out_pure {P : Prims Pt} {w : Wallet} {s : State} (hinv : Inv P w s) {h : Nat}
    {path : List Nat} (hp : s.paths[h]? = some path) :
    ∃ nd, derivePath P w.master path = some nd ∧
      (step P s (.extKeys h)).2 = outOpt .json (nodeExtendedKeys P w nd) := by
  obtain ⟨nd, c, _, hd⟩ := hinv.of_path hp
  refine ⟨nd, hd, ?_⟩
  rw [step_out_pure hinv]
  simp only [pureStep, ghost_paths, hp, Option.bind_some, hd]

/-- BIP85, report, Wasabi and root-key requests are functions of the wallet and the parameters -/
theorem wallet_requests_pure {P : Prims Pt} {w : Wallet} {s : State} (hinv : Inv P w s) :
    (∀ app param index, (step P s (.bip85 app param index)).2 =
      if w.watchOnly then .err else outOpt .text (bip85Call P w.master app param index)) ∧
    (∀ acct a b, (step P s (.report acct a b)).2 = outOpt .json (generate P w acct a b)) ∧
    (step P s .wasabi).2 = outOpt .json (Wallet.wasabi P w) ∧
    (step P s .rootKey).2 = outOpt .text (rootKeyOut P w) := by
  refine ⟨fun _ _ _ => ?_, fun _ _ _ => ?_, ?_, ?_⟩ <;> rw [step_out_pure hinv] <;> rfl

-- concrete instances on the toy state: handle 3 was reached by `[0, 7]`
example : (step toyP toyS (.ckd 3 5)).2 = outOpt .node (derivePath toyP toyW.master [0, 7, 5]) :=
  ckd_out_pure toyS_inv (h := 3) (path := [0, 7]) (by rw [toyS_paths]; rfl) 5

/-! ### 3. no request alters the root key -/

/-- after any history the node at handle 0 is still the wallet's master node, and the wallet
(master key, network flag, mnemonic, password) is unchanged -/
theorem root_unchanged (P : Prims Pt) (w : Wallet) (ops : List Op) :
    ((run P (init w) ops).1.nodes[0]?).map (·.1) = some w.master ∧
    (run P (init w) ops).1.wallet = w :=
  ⟨(History.inv_run (History.inv_init P w) ops).root,
   (History.inv_run (History.inv_init P w) ops).wallet⟩

/-- the same from any state: a history changes neither the wallet nor the node at handle 0 -/
theorem root_unchanged_from (P : Prims Pt) (s : State) (ops : List Op) (h0 : 0 < s.nodes.length) :
    ((run P s ops).1.nodes[0]?).map (·.1) = (s.nodes[0]?).map (·.1) ∧
    (run P s ops).1.wallet = s.wallet :=
  ⟨(run_extends P s ops).nodes_fst 0 h0, (run_extends P s ops).wallet⟩

/-! ### 4. handles are never re-bound -/

/-- existing entries keep their node fields across a call (only the `children` counter may
grow), and keep their recorded path -/
theorem table_monotone (P : Prims Pt) {s : State} {h : Nat} {nd : Node} {c : Nat}
    (hn : s.nodes[h]? = some (nd, c)) (op : Op) :
    ((step P s op).1.nodes[h]?).map (·.1) = some nd := by
  obtain ⟨c', hc'⟩ := (step_extends P s op).nodes_stable hn
  rw [hc']; rfl

/-- the same across a whole history, together with the recorded path -/
theorem table_monotone_run (P : Prims Pt) {s : State} {h : Nat} {nd : Node} {c : Nat}
    (hn : s.nodes[h]? = some (nd, c)) (ops : List Op) :
    ((run P s ops).1.nodes[h]?).map (·.1) = some nd ∧
    (h < s.paths.length → (run P s ops).1.paths[h]? = s.paths[h]?) := by
  obtain ⟨c', hc'⟩ := (run_extends P s ops).nodes_stable hn
  exact ⟨by rw [hc']; rfl, (run_extends P s ops).paths h⟩

example : ((step toyP toyS (.genChildren 1 0 3)).1.nodes[1]?).map (·.1) = (toyS.nodes[1]?).map (·.1) :=
  (step_extends toyP toyS _).nodes_fst 1 (by rw [toyS_nodes_length]; decide)

/-! ### 5. concatenated paths -/

/-- deriving a concatenated path equals deriving its parts in sequence -/
theorem derive_append (P : Prims Pt) (nd : Node) (a b : List Nat) :
    derivePath P nd (a ++ b) = (derivePath P nd a).bind (derivePath P · b) :=
  Bip32.derivePath_append P nd a b

/-- `by_path(str)` followed by `derive_path(is)` on the returned node gives the same node as one
derivation of the root along (parsed levels ++ is).  (The returned object is the master itself,
handle 0, when the path has no levels, and a new handle otherwise.) -/
theorem byPath_then_derive {P : Prims Pt} {w : Wallet} {s : State} (hinv : Inv P w s)
    {str : List Char} {p : Path.Path} {n : Node} (hp : Path.parse str = some p)
    (hn : derivePath P w.master p.levels = some n) (is : List Nat) :
    (step P s (.byPath str)).2 = .node n ∧
    (step P (step P s (.byPath str)).1
        (.derivePath (if p.levels = [] then 0 else s.nodes.length) is)).2 =
      outOpt .node (derivePath P w.master (p.levels ++ is)) := by
  have hinv' := History.inv_step hinv (.byPath str)
  have h1 : (step P s (.byPath str)).2 = .node n := by
    rw [byPath_out_pure hinv, Wallet.byPath, hp, Option.bind_some, hn]; rfl
  refine ⟨h1, ?_⟩
  refine derivePath_out_pure hinv' ?_ is
  rw [step_byPath, hp, hinv.wallet]
  dsimp only
  rw [hn]
  dsimp only
  by_cases hl : p.levels = []
  · simp only [if_pos hl]
    rw [hl]; exact hinv.rootPath
  · simp only [if_neg hl, History.alloc]
    rw [hinv.len]
    exact List.getElem?_concat_length

example : (step toyP (step toyP toyS (.byPath ['m', '/', '0'])).1 (.derivePath 4 [7])).2 =
    outOpt .node (derivePath toyP toyW.master ([0] ++ [7])) := by
  obtain ⟨n, hn⟩ := Option.isSome_iff_exists.mp
    (show (derivePath toyP toyW.master [0]).isSome = true by decide +kernel)
  have := (byPath_then_derive toyS_inv (str := ['m', '/', '0']) (p := ⟨[0], true⟩)
    (by decide +kernel) hn [7]).2
  simpa [toyS_nodes_length] using this

/-! ### 6. address generators -/

/-- `wallet.address_generator(node, fn)` on an existing handle creates a fresh generator
(not started, index 0) under the next generator handle -/
theorem newGen_spec (P : Prims Pt) {s : State} {h : Nat} (hh : h < s.nodes.length) (k : AddrKind) :
    (step P s (.newGen h k)).2 = .handle s.gens.length ∧
    (step P s (.newGen h k)).1.gens[s.gens.length]? = some ⟨h, k, false, 0, false⟩ ∧
    (step P s (.newGen h k)).1.nodes = s.nodes := by
  rw [step_newGen, if_pos hh]
  exact ⟨rfl, List.getElem?_concat_length, rfl⟩

/-- `next(gen)` / `gen.send(k)` on the shared objects behaves exactly like the generator on its
own (`genStep`) run against the node it walks: same output, and the generator's new state -/
theorem advance_spec (P : Prims Pt) {s : State} {g : Nat} {gen : Gen} {nd : Node} {cnt : Nat}
    (hg : s.gens[g]? = some gen) (hn : s.nodes[gen.node]? = some (nd, cnt)) :
    ((step P s (.next g)).2 = (genStep P s.wallet.testnet nd gen none).2 ∧
     (step P s (.next g)).1.gens[g]? = some (genStep P s.wallet.testnet nd gen none).1) ∧
    ∀ j, (step P s (.send g j)).2 = (genStep P s.wallet.testnet nd gen (some j)).2 ∧
         (step P s (.send g j)).1.gens[g]? = some (genStep P s.wallet.testnet nd gen (some j)).1 :=
  ⟨advance_genStep hg hn none, fun j => advance_genStep hg hn (some j)⟩

/-- `next(gen)` on a live generator: it derives index 0 if not yet started, else `index + 1`,
returns (path string, address) of that child, and moves to that index -/
theorem next_spec (P : Prims Pt) {s : State} {g h : Nat} {kind : AddrKind} {started : Bool}
    {index : Nat} {nd c : Node} {cnt : Nat} {a : List Char}
    (hg : s.gens[g]? = some ⟨h, kind, started, index, false⟩)
    (hn : s.nodes[h]? = some (nd, cnt))
    (hc : ckd P nd (if started then index + 1 else 0) = some c)
    (ha : addrOf P s.wallet.testnet kind c = some a) :
    (step P s (.next g)).2 = .pair (nodeRepr c) a ∧
    (step P s (.next g)).1.gens[g]? =
      some ⟨h, kind, true, if started then index + 1 else 0, false⟩ := by
  obtain ⟨h1, h2⟩ := (advance_spec P hg hn).1
  have hstep : genStep P s.wallet.testnet nd ⟨h, kind, started, index, false⟩ none =
      (⟨h, kind, true, if started then index + 1 else 0, false⟩, .pair (nodeRepr c) a) := by
    unfold genStep
    have hidx : advIndex started index none = if started then index + 1 else 0 := rfl
    simp only [hidx, hc, ha]
    simp
  rw [h1, h2, hstep]
  exact ⟨rfl, rfl⟩

/-- `gen.send(j)` on a started live generator: it skips ahead by `j` (by 1 when `j = 0`, Python's
`adder or 1`), returns (path string, address) of that child, and moves to that index -/
theorem send_spec (P : Prims Pt) {s : State} {g h : Nat} {kind : AddrKind} {index j : Nat}
    {nd c : Node} {cnt : Nat} {a : List Char}
    (hg : s.gens[g]? = some ⟨h, kind, true, index, false⟩)
    (hn : s.nodes[h]? = some (nd, cnt))
    (hc : ckd P nd (index + if j = 0 then 1 else j) = some c)
    (ha : addrOf P s.wallet.testnet kind c = some a) :
    (step P s (.send g j)).2 = .pair (nodeRepr c) a ∧
    (step P s (.send g j)).1.gens[g]? =
      some ⟨h, kind, true, index + if j = 0 then 1 else j, false⟩ := by
  obtain ⟨h1, h2⟩ := (advance_spec P hg hn).2 j
  have hstep : genStep P s.wallet.testnet nd ⟨h, kind, true, index, false⟩ (some j) =
      (⟨h, kind, true, index + if j = 0 then 1 else j, false⟩, .pair (nodeRepr c) a) := by
    unfold genStep
    have hidx : advIndex true index (some j) = index + if j = 0 then 1 else j := rfl
    simp only [hidx, hc, ha]
    simp
  rw [h1, h2, hstep]
  exact ⟨rfl, rfl⟩

/-- `gen.send(j)` on a generator that was never started raises (TypeError) and changes nothing -/
theorem send_not_started (P : Prims Pt) {s : State} {g h : Nat} {kind : AddrKind} {index : Nat}
    {dead : Bool} (hg : s.gens[g]? = some ⟨h, kind, false, index, dead⟩) (j : Nat) :
    step P s (.send g j) = (s, .err) := by
  rw [step_send, advance_eq, hg]
  cases dead <;> simp

/-- a generator killed by an exception stays dead: every later request raises (StopIteration)
and changes nothing -/
theorem dead_generator (P : Prims Pt) {s : State} {g h : Nat} {kind : AddrKind} {started : Bool}
    {index : Nat} (hg : s.gens[g]? = some ⟨h, kind, started, index, true⟩) :
    step P s (.next g) = (s, .err) ∧ ∀ j, step P s (.send g j) = (s, .err) := by
  refine ⟨?_, fun j => ?_⟩
  · rw [step_next, advance_eq, hg]; simp
  · rw [step_send, advance_eq, hg]; simp

/-- a call that is not `next(g)` / `g.send(_)` leaves generator `g` untouched (`newGen` appends
a new generator, so `g` must be an existing handle) -/
theorem gens_untouched (P : Prims Pt) {s : State} {g : Nat} {op : Op}
    (hop : reqOf g op = none) (hg : g < s.gens.length) :
    (step P s op).1.gens[g]? = s.gens[g]? :=
  step_gens_untouched P hop hg

/-- Whatever else happens on the shared objects in between (derivations on the same node, other
generators, ...), the outputs of the calls addressed to generator `g` are exactly those of the
generator run on its own (`genRun`) against the node it walks. -/
theorem generator_trace (P : Prims Pt) {s : State} {g : Nat} {gen : Gen} {nd : Node} {cnt : Nat}
    (hg : s.gens[g]? = some gen) (hn : s.nodes[gen.node]? = some (nd, cnt)) (ops : List Op) :
    outsFor g ops (run P s ops).2 =
      genRun P s.wallet.testnet nd gen (ops.filterMap (reqOf g)) :=
  generator_trace_aux P g ops s gen nd cnt hg hn

/-- A fresh generator on node `nd`, in any history in which none of its calls fails: its first
call is a `next`, and its i-th output is (path string, address) of `ckd nd idx_i` with
`idx_0 = 0` and `idx_{i+1} = idx_i + 1` for `next` / `send(0)`, `idx_i + j` for `send(j)`, `j ≥ 1`
— whatever other calls are interleaved. -/
theorem generator_indexes (P : Prims Pt) {s : State} {g h : Nat} {k : AddrKind} {nd : Node}
    {cnt : Nat} (hg : s.gens[g]? = some ⟨h, k, false, 0, false⟩) (hn : s.nodes[h]? = some (nd, cnt))
    (ops : List Op) (hok : ∀ o ∈ outsFor g ops (run P s ops).2, o ≠ .err) :
    (∀ j, (ops.filterMap (reqOf g)).head? ≠ some (some j)) ∧
    List.Forall₂ (IsChildOut P s.wallet.testnet nd k) (freshIdxs (ops.filterMap (reqOf g)))
      (outsFor g ops (run P s ops).2) := by
  rw [generator_trace P hg hn ops] at hok ⊢
  exact genRun_fresh' _ hok

/-- the same for the generator created by `address_generator(node h, kind k)`: the history is
the creation followed by any calls -/
theorem new_generator_indexes (P : Prims Pt) {s : State} {h : Nat} {k : AddrKind} {nd : Node}
    {cnt : Nat} (hn : s.nodes[h]? = some (nd, cnt)) (ops : List Op)
    (hok : ∀ o ∈ outsFor s.gens.length ops (run P (step P s (.newGen h k)).1 ops).2, o ≠ .err) :
    List.Forall₂ (IsChildOut P s.wallet.testnet nd k)
      (freshIdxs (ops.filterMap (reqOf s.gens.length)))
      (outsFor s.gens.length ops (run P (step P s (.newGen h k)).1 ops).2) := by
  have hh : h < s.nodes.length := (List.getElem?_eq_some_iff.mp hn).1
  obtain ⟨_, h2, h3⟩ := newGen_spec P hh k
  have := (generator_indexes P h2 (by rw [h3]; exact hn) ops hok).2
  rw [(step_extends P s (.newGen h k)).wallet] at this
  exact this

/-- consecutive indexes: if the calls addressed to a fresh generator are `n` times `next` and none
fails, the outputs are the children at indexes 0, 1, …, n-1 in order -/
theorem generator_consecutive (P : Prims Pt) {s : State} {g h : Nat} {k : AddrKind} {nd : Node}
    {cnt : Nat} (hg : s.gens[g]? = some ⟨h, k, false, 0, false⟩) (hn : s.nodes[h]? = some (nd, cnt))
    (ops : List Op) {n : Nat} (hreq : ops.filterMap (reqOf g) = List.replicate n none)
    (hok : ∀ o ∈ outsFor g ops (run P s ops).2, o ≠ .err) :
    List.Forall₂ (IsChildOut P s.wallet.testnet nd k) (List.range n)
      (outsFor g ops (run P s ops).2) := by
  have := (generator_indexes P hg hn ops hok).2
  rw [hreq, freshIdxs_next] at this
  exact this

/-- skipping ahead: the indexes for the request list `[next, send 3, next, send 0]` are 0, 3, 4, 5 -/
example : freshIdxs [none, some 3, none, some 0] = [0, 3, 4, 5] := by decide

-- non-vacuity of `new_generator_indexes`: a new generator on handle 1 of the toy state, three
-- requests (`next`, `next`, `send 3`) interleaved with other calls, none fails: indexes 0, 1, 4
example : ∃ nd, List.Forall₂ (IsChildOut toyP toyS.wallet.testnet nd .p2wpkh) [0, 1, 4]
    (outsFor 1 toyOps2 (run toyP (step toyP toyS (.newGen 1 .p2wpkh)).1 toyOps2).2) := by
  obtain ⟨cnt, hn⟩ := toyS_node1
  have := new_generator_indexes toyP (k := .p2wpkh) hn toyOps2
    (by rw [toyS_gens_length]; exact ne_err_of_all toy_gen_ok)
  rw [toyS_gens_length] at this
  exact ⟨_, this⟩

-- non-vacuity of `next_spec` / `send_spec`: the live toy generator (handle 0, walking handle 1,
-- started, index 4) answers, and its state moves to index 5 resp. 4 + 2
example : ∃ c a, (step toyP toyS (.next 0)).2 = .pair (nodeRepr c) a ∧
    (step toyP toyS (.next 0)).1.gens[0]? = some ⟨1, .p2pkh, true, 5, false⟩ := by
  obtain ⟨cnt, hn⟩ := toyS_node1
  obtain ⟨c, a, hc, ha⟩ := toy_child 5 (Or.inl rfl)
  exact ⟨c, a, next_spec toyP toyS_gen hn hc ha⟩

example : ∃ c a, (step toyP toyS (.send 0 2)).2 = .pair (nodeRepr c) a ∧
    (step toyP toyS (.send 0 2)).1.gens[0]? = some ⟨1, .p2pkh, true, 6, false⟩ := by
  obtain ⟨cnt, hn⟩ := toyS_node1
  obtain ⟨c, a, hc, ha⟩ := toy_child 6 (Or.inr rfl)
  exact ⟨c, a, send_spec toyP toyS_gen hn hc ha⟩

/-! ### 7. interleaving: answers do not depend on what ran in between -/

/-- Read-only and derivation requests (everything except generator calls; node arguments must
be existing handles): the output does not depend on whether another call `o'` — ANY call, by any
client — ran before it. -/
theorem out_independent_of_other_ops {P : Prims Pt} {w : Wallet} {s : State} (hinv : Inv P w s)
    {o : Op} (ho : Stateless s o) (o' : Op) :
    (step P (step P s o').1 o).2 = (step P s o).2 :=
  out_independent_ext hinv (History.inv_step hinv o') (step_extends P s o') ho

/-- ... nor on any whole history that ran before it -/
theorem out_independent_of_history {P : Prims Pt} {w : Wallet} {s : State} (hinv : Inv P w s)
    {o : Op} (ho : Stateless s o) (ops : List Op) :
    (step P (run P s ops).1 o).2 = (step P s o).2 :=
  out_independent_ext hinv (History.inv_run hinv ops) (run_extends P s ops) ho

/-- how often: repeating a request gives the same answer again -/
theorem repeat_same_answer {P : Prims Pt} {w : Wallet} {s : State} (hinv : Inv P w s)
    {o : Op} (ho : Stateless s o) : (step P (step P s o).1 o).2 = (step P s o).2 :=
  out_independent_of_other_ops hinv ho o

/-- in a history of such requests every request gets the answer it would get on its own -/
theorem each_call_own_answer {P : Prims Pt} {w : Wallet} {s : State} (hinv : Inv P w s)
    (ops : List Op) (hall : ∀ o ∈ ops, Stateless s o) :
    (run P s ops).2 = ops.map (fun o => (step P s o).2) :=
  run_stateless ops hinv hall

/-- in what order: reordering (any interleaving of) such requests reorders the answers the same
way; each request keeps its answer -/
theorem order_independent {P : Prims Pt} {w : Wallet} {s : State} (hinv : Inv P w s)
    {ops ops' : List Op} (hperm : ops.Perm ops') (hall : ∀ o ∈ ops, Stateless s o) :
    (run P s ops').2 = ops'.map (fun o => (step P s o).2) ∧
    ((run P s ops).2).Perm (run P s ops').2 := by
  have hall' : ∀ o ∈ ops', Stateless s o := fun o ho => hall o (hperm.mem_iff.mpr ho)
  rw [each_call_own_answer hinv ops hall, each_call_own_answer hinv ops' hall']
  exact ⟨rfl, hperm.map _⟩

/-- a request to generator `g` gets the same answer whatever calls NOT addressed to `g` ran
before it (derivations on the node it walks, other generators, ...) -/
theorem generator_out_independent {P : Prims Pt} {w : Wallet} {s : State} (hinv : Inv P w s)
    {g : Nat} (hg : g < s.gens.length) (ops : List Op) (hno : ∀ op ∈ ops, reqOf g op = none) :
    (step P (run P s ops).1 (.next g)).2 = (step P s (.next g)).2 ∧
    ∀ j, (step P (run P s ops).1 (.send g j)).2 = (step P s (.send g j)).2 := by
  have hg' := run_gens_untouched P ops hno hg
  exact ⟨gen_out_independent_ext hinv (run_extends P s ops) hg hg' none,
    fun j => gen_out_independent_ext hinv (run_extends P s ops) hg hg' (some j)⟩

/-- a handle-creating call binds the new handle to a node that depends only on (root, path):
after `ckd h i` succeeds with child `c`, `c` is the derivation of the root along the path of `h`
extended by `i`, and the new handle `s.nodes.length` holds `c` with that path -/
theorem ckd_creates_pure {P : Prims Pt} {w : Wallet} {s : State} (hinv : Inv P w s) {h i : Nat}
    {path : List Nat} {c : Node} (hp : s.paths[h]? = some path)
    (hout : (step P s (.ckd h i)).2 = .node c) :
    derivePath P w.master (path ++ [i]) = some c ∧
    ((step P s (.ckd h i)).1.nodes[s.nodes.length]?).map (·.1) = some c ∧
    (step P s (.ckd h i)).1.paths[s.nodes.length]? = some (path ++ [i]) := by
  have hd : derivePath P w.master (path ++ [i]) = some c := by
    rw [ckd_out_pure hinv hp] at hout
    cases hx : derivePath P w.master (path ++ [i]) with
    | none => rw [hx] at hout; cases hout
    | some c' => rw [hx] at hout; cases hout; rfl
  obtain ⟨nd, cnt, hn, hnd⟩ := hinv.of_path hp
  have hck : ckd P nd i = some c := by rw [← derive_snoc hnd]; exact hd
  refine ⟨hd, ?_, ?_⟩
  · rw [step_ckd, hn, hp]
    dsimp only
    rw [hck]
    dsimp only [History.alloc]
    rw [← bump_length s.nodes h 1, List.getElem?_concat_length]; rfl
  · rw [step_ckd, hn, hp]
    dsimp only
    rw [hck]
    dsimp only [History.alloc]
    rw [hinv.len, List.getElem?_concat_length]

-- non-vacuity: on the toy state, with handles 0..3 in use
example : Stateless toyS (.addr 3 .p2wpkh) ∧ Stateless toyS (.ckd 1 9) ∧ Stateless toyS .wasabi :=
  ⟨by show 3 < toyS.nodes.length; rw [toyS_nodes_length]; decide,
   by show 1 < toyS.nodes.length; rw [toyS_nodes_length]; decide, trivial⟩

example : (step toyP (step toyP toyS (.ckd 1 9)).1 (.addr 3 .p2wpkh)).2 =
    (step toyP toyS (.addr 3 .p2wpkh)).2 :=
  out_independent_of_other_ops toyS_inv
    (by show 3 < toyS.nodes.length; rw [toyS_nodes_length]; decide) _

end BtcHd.C13
