/-
Translated Python (`BtcHd.Code`, generated from /repo by harness/translate.py) = hand-written model:
the argument validators of `__main__.py` — `value_in_interval`, `address_index`, `account_index`, `extended_key`,
`mnemonic`, `bip39_seed`, `entropy_hex` (C20).  `int(text)` is mapped to the model's `Cli.pyInt`, `str.split(" ")` and
`str.strip()` to `Text.splitOn` / `Text.strip`; `file_` (pathlib / os.access) and argparse itself are not translated.
-/
import BtcHd.Generated.Code
import BtcHd.Model.Cli

namespace BtcHd.Translated
open BtcHd

/-- The translated `value_in_interval` (with `min_ = 0`, as both callers use it) is the model's `valueInInterval`:
`int()` of the text, then the half-open range test. -/
theorem value_in_interval_eq (v : List Char) (mx : Nat) (name : List Char) :
    Code.value_in_interval v 0 mx name = (Cli.valueInInterval v mx).map Int.ofNat := by
  unfold Code.value_in_interval Cli.valueInInterval
  cases Cli.pyInt v with
  | none => rfl
  | some x =>
    simp only [Option.bind_eq_bind, Option.bind_some]
    by_cases h : 0 ≤ x ∧ x < (mx : Int)
    · have : ((0 : Nat) : Int) ≤ x ∧ x < (mx : Int) := by simpa using h
      simp [h, Int.toNat_of_nonneg h.1]
    · simp [h]

/-- The translated `address_index` is the model's `addressIndex` (bound `2^32 - 1`, the value extracted from the source). -/
theorem address_index_eq (v : List Char) :
    Code.address_index v = (Cli.addressIndex v).map Int.ofNat := by
  unfold Code.address_index Cli.addressIndex
  have h : Generated.cliAddressMax = 2 ^ 32 - 1 := by decide
  rw [h]
  simp only [value_in_interval_eq]

/-- The translated `account_index` is the model's `accountIndex` (bound `2^31 - 1`). -/
theorem account_index_eq (v : List Char) :
    Code.account_index v = (Cli.accountIndex v).map Int.ofNat := by
  unfold Code.account_index Cli.accountIndex
  have h : Generated.cliAccountMax = 2 ^ 31 - 1 := by decide
  rw [h]
  simp only [value_in_interval_eq]

/-- The translated `extended_key` validator: exactly 111 characters. -/
theorem extended_key_arg_eq (v : List Char) : Code.extended_key_arg v = Cli.extendedKeyArg v := by
  unfold Code.extended_key_arg Cli.extendedKeyArg
  by_cases h : v.length = 111 <;> simp [h]

/-- The translated `mnemonic` validator: word count of `split(" ")` in the legal set, then `strip()`. -/
theorem mnemonic_arg_eq (v : List Char) : Code.mnemonic_arg v = Cli.mnemonicArg v := by
  unfold Code.mnemonic_arg Cli.mnemonicArg
  have : Char.ofNat 32 = ' ' := rfl
  rw [this]
  by_cases h : (Text.splitOn ' ' v).length ∈ Generated.correctMnemonicLength <;> simp [h]

/-- The translated `bip39_seed` validator: exactly 128 characters. -/
theorem bip39_seed_arg_eq (v : List Char) : Code.bip39_seed_arg v = Cli.seedArg v := by
  unfold Code.bip39_seed_arg Cli.seedArg
  by_cases h : v.length = 128 <;> simp [h]

/-- The translated `entropy_hex` validator: four times the text length is a legal bit size. -/
theorem entropy_hex_arg_eq (v : List Char) : Code.entropy_hex_arg v = Cli.entropyArg v := by
  unfold Code.entropy_hex_arg Cli.entropyArg
  by_cases h : v.length * 4 ∈ Generated.correctEntropyBits <;> simp [h]

example : Code.account_index "2147483646".toList = some 2147483646 := by decide +kernel
example : Code.account_index "2147483647".toList = none := by decide +kernel
example : Code.address_index "-1".toList = none := by decide +kernel
example : Code.mnemonic_arg " a b".toList = none := by decide +kernel

end BtcHd.Translated
