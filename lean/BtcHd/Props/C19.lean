/-
C19 — Script and varint wire encodings.

Property theorems only (helper lemmas are in `Lemmas/Script.lean`, which also
defines the vocabulary used in the statements: `Cmd.WF`, `Wire`, `Wires`).

* `Cmd.WF c`   : `c` is an opcode `0` / `78..255`, or a data element of 1..520 bytes.
* `Wire c ch`  : the bytes `ch` are one of the wire forms read back as the command `c`
                 (opcode byte; length byte 1..75 + data; 76, len, data; 77, lo, hi, data).
* `Wires cs b` : `b` is the concatenation of wire forms of the commands `cs`.
-/
import BtcHd.Lemmas.Script

namespace BtcHd.C19
open BtcHd Varint Script ScriptLemmas

/-! ### 1. little-endian fixed-width integers -/

/-- `int_to_little_endian(n, len)` always has exactly `len` bytes. -/
theorem leFixed_length (len n : Nat) : (leFixed len n).length = len :=
  ScriptLemmas.leFixed_length len n

/-- Decoding the `len`-byte little-endian form of `n < 256^len` gives `n` back. -/
theorem leToNat_leFixed {len n : Nat} (h : n < 256 ^ len) : leToNat (leFixed len n) = n :=
  ScriptLemmas.leToNat_leFixed h

example : (0x1234 : Nat) < 256 ^ 2 ∧ leFixed 2 0x1234 = [0x34, 0x12] := by decide

/-- Re-encoding a decoded little-endian byte string at its own width gives the same bytes,
and the decoded value fits that width. -/
theorem leFixed_leToNat (bs : Bytes) :
    leFixed bs.length (leToNat bs) = bs ∧ leToNat bs < 256 ^ bs.length :=
  ⟨ScriptLemmas.leFixed_leToNat bs, leToNat_lt bs⟩

/-! ### 2–5. varints -/

/-- Every value below 2^64 has a varint encoding, and reading it back (with anything after it)
returns the value and leaves exactly what followed. -/
theorem readVarint_encodeVarint {n : Nat} (h : n < 2 ^ 64) :
    ∃ enc, encodeVarint n = some enc ∧ ∀ rest, readVarint (enc ++ rest) = some (n, rest) := by
  obtain ⟨enc, he⟩ := encodeVarint_isSome h
  exact ⟨enc, he, fun rest => ScriptLemmas.readVarint_encodeVarint he rest⟩

example : encodeVarint 300 = some [0xfd, 0x2c, 0x01] ∧
    readVarint [0xfd, 0x2c, 0x01, 9] = some (300, [9]) := by decide

/-- The varint encoding is the standard one: one byte (the value) below 0xfd, then 0xfd + 2,
0xfe + 4, 0xff + 8 little-endian bytes for values below 2^16, 2^32, 2^64. -/
theorem encodeVarint_minimal (n : Nat) :
    (n < 0xfd → encodeVarint n = some [UInt8.ofNat n]) ∧
    (0xfd ≤ n → n < 2 ^ 16 → encodeVarint n = some (0xfd :: leFixed 2 n)) ∧
    (2 ^ 16 ≤ n → n < 2 ^ 32 → encodeVarint n = some (0xfe :: leFixed 4 n)) ∧
    (2 ^ 32 ≤ n → n < 2 ^ 64 → encodeVarint n = some (0xff :: leFixed 8 n)) := by
  rcases encodeVarint_cases n with ⟨_, e⟩ | ⟨_, _, e⟩ | ⟨_, _, e⟩ | ⟨_, _, e⟩ | ⟨_, e⟩ <;>
    refine ⟨fun _ => ?_, fun _ _ => ?_, fun _ _ => ?_, fun _ _ => ?_⟩ <;>
    first | exact e | omega

/-- The encoding of `n` has 1, 3, 5 or 9 bytes according to the size class of `n`. -/
theorem encodeVarint_length {n : Nat} {enc : Bytes} (h : encodeVarint n = some enc) :
    enc.length = if n < 0xfd then 1 else if n < 2 ^ 16 then 3 else if n < 2 ^ 32 then 5 else 9 := by
  rcases encodeVarint_cases n with ⟨h1, e⟩ | ⟨h0, h1, e⟩ | ⟨h0, h1, e⟩ | ⟨h0, h1, e⟩ | ⟨_, e⟩ <;>
    rw [e] at h <;> cases h
  · rw [if_pos h1]; rfl
  · rw [if_neg (by omega), if_pos (by omega)]; simp [ScriptLemmas.leFixed_length]
  · rw [if_neg (by omega), if_neg (by omega), if_pos (by omega)]
    simp [ScriptLemmas.leFixed_length]
  · rw [if_neg (by omega), if_neg (by omega), if_neg (by omega)]
    simp [ScriptLemmas.leFixed_length]

/-- Shortest form: no byte string that `readVarint` decodes (completely) to `n` is shorter
than `encodeVarint n`. -/
theorem encodeVarint_shortest {n : Nat} {enc s : Bytes} (h : encodeVarint n = some enc)
    (hs : readVarint s = some (n, [])) : enc.length ≤ s.length := by
  rw [encodeVarint_length h]
  cases s with
  | nil => simp [readVarint] at hs
  | cons i rest =>
    by_cases h1 : i = 0xfd
    · subst h1
      rw [readVarint_fd, Option.map_eq_some_iff] at hs
      obtain ⟨⟨b, r'⟩, hre, heq⟩ := hs
      simp only [Prod.mk.injEq] at heq
      obtain ⟨rfl, rfl⟩ := heq
      obtain ⟨rfl, hl⟩ := readExact_some hre
      have := leToNat_lt b
      rw [hl] at this
      simp only [List.length_cons, List.length_append, hl, List.length_nil]
      (repeat' split) <;> omega
    · by_cases h2 : i = 0xfe
      · subst h2
        rw [readVarint_fe, Option.map_eq_some_iff] at hs
        obtain ⟨⟨b, r'⟩, hre, heq⟩ := hs
        simp only [Prod.mk.injEq] at heq
        obtain ⟨rfl, rfl⟩ := heq
        obtain ⟨rfl, hl⟩ := readExact_some hre
        have := leToNat_lt b
        rw [hl] at this
        simp only [List.length_cons, List.length_append, hl, List.length_nil]
        (repeat' split) <;> omega
      · by_cases h3 : i = 0xff
        · subst h3
          rw [readVarint_ff, Option.map_eq_some_iff] at hs
          obtain ⟨⟨b, r'⟩, hre, heq⟩ := hs
          simp only [Prod.mk.injEq] at heq
          obtain ⟨rfl, rfl⟩ := heq
          obtain ⟨rfl, hl⟩ := readExact_some hre
          simp only [List.length_cons, List.length_append, hl, List.length_nil]
          (repeat' split) <;> omega
        · simp only [readVarint, h1, h2, h3, if_false, Option.some.injEq, Prod.mk.injEq] at hs
          obtain ⟨rfl, rfl⟩ := hs
          have hlt := toNat_lt i
          have : i.toNat < 0xfd := by
            rcases Nat.lt_or_ge i.toNat 0xfd with h | h
            · exact h
            · exfalso
              have hi := eq_ofNat_of_toNat_eq (b := i) rfl
              have : i.toNat = 0xfd ∨ i.toNat = 0xfe ∨ i.toNat = 0xff := by omega
              rcases this with e | e | e
              · exact h1 (by rw [hi, e]; rfl)
              · exact h2 (by rw [hi, e]; rfl)
              · exact h3 (by rw [hi, e]; rfl)
          rw [if_pos this]; simp

-- the decoder itself also accepts over-long forms (300 as 0xfe + 4 bytes); the encoder never emits them
example : readVarint [0xfe, 0x2c, 0x01, 0, 0] = some (300, []) ∧
    encodeVarint 300 = some [0xfd, 0x2c, 0x01] := by decide

/-- Values of 2^64 and above are refused. -/
theorem encodeVarint_large {n : Nat} (h : 2 ^ 64 ≤ n) : encodeVarint n = none := by
  rcases encodeVarint_cases n with ⟨_, _⟩ | ⟨_, _, _⟩ | ⟨_, _, _⟩ | ⟨_, _, _⟩ | ⟨_, e⟩
  · omega
  · omega
  · omega
  · omega
  · exact e

/-- `encodeVarint` succeeds exactly below 2^64. -/
theorem encodeVarint_isSome_iff (n : Nat) : (encodeVarint n).isSome ↔ n < 2 ^ 64 := by
  constructor
  · intro h
    rcases Nat.lt_or_ge n (2 ^ 64) with h' | h'
    · exact h'
    · rw [encodeVarint_large h'] at h; cases h
  · intro h
    obtain ⟨enc, he⟩ := encodeVarint_isSome h
    rw [he]; rfl

/-- A varint cut short is never accepted: every proper prefix of an encoding fails to read. -/
theorem readVarint_truncated {n : Nat} {enc : Bytes} (h : encodeVarint n = some enc)
    (pre : Bytes) (hp : pre <+: enc) (hne : pre ≠ enc) : readVarint pre = none :=
  ScriptLemmas.readVarint_truncated h hp hne

example : [0xfd, 0x2c] <+: [0xfd, 0x2c, 0x01] ∧ readVarint [0xfd, 0x2c] = none := by decide

/-! ### 6. the per-element wire form -/

/-- Data elements: a bare length byte for 0..75 bytes, `76, len` for 76..255, `77, lo, hi`
(little-endian length) for 256..520, and refusal above 520 bytes. -/
theorem push_form (d : Bytes) :
    (d.length ≤ 75 → serCmd (.data d) = some ([UInt8.ofNat d.length] ++ d)) ∧
    (76 ≤ d.length → d.length ≤ 255 → serCmd (.data d) = some ([76, UInt8.ofNat d.length] ++ d)) ∧
    (256 ≤ d.length → d.length ≤ 520 → serCmd (.data d) =
        some ([77, UInt8.ofNat (d.length % 256), UInt8.ofNat (d.length / 256)] ++ d)) ∧
    (520 < d.length → serCmd (.data d) = none) :=
  ⟨serCmd_data_small, serCmd_data_mid, serCmd_data_big, serCmd_data_huge⟩

example : serCmd (.data (List.replicate 80 1)) = some ([76, 80] ++ List.replicate 80 1) := by decide
example : serCmd (.data (List.replicate 300 1)) = some ([77, 44, 1] ++ List.replicate 300 1) := by
  decide +kernel
example : serCmd (.data (List.replicate 521 1)) = none := by decide +kernel

/-- Opcodes: one byte for 0..255, refusal for anything larger. -/
theorem op_form (b : Nat) :
    (b < 256 → serCmd (.op b) = some [UInt8.ofNat b]) ∧ (256 ≤ b → serCmd (.op b) = none) :=
  ⟨serCmd_op, serCmd_op_large⟩

/-- What a well-formed command serialises to is one of the wire forms of that command. -/
theorem serCmd_wire {c : Cmd} {a : Bytes} (hwf : c.WF) (h : serCmd c = some a) : Wire c a :=
  wire_of_serCmd hwf h

example : (Cmd.data [7]).WF ∧ serCmd (.data [7]) = some [1, 7] := by decide

/-! ### 7. serialise, then parse -/

/-- Every script of well-formed commands has a raw serialisation (at most 523 bytes per command). -/
theorem serialize_total {cs : List Cmd} (hwf : ∀ c ∈ cs, c.WF) : (rawSerialize cs).isSome := by
  obtain ⟨raw, hr, _⟩ := rawSerialize_isSome hwf
  rw [hr]; rfl

/-- A raw serialisation never exceeds 523 bytes per command. -/
theorem rawSerialize_length_le {cs : List Cmd} {raw : Bytes} (h : rawSerialize cs = some raw) :
    raw.length ≤ 523 * cs.length :=
  ScriptLemmas.rawSerialize_length_le h

/-- Every script of well-formed commands short enough for its byte length to fit a varint
(fewer than 2^64 / 523 commands) has a length-prefixed serialisation. -/
theorem serialize_isSome {cs : List Cmd} (hwf : ∀ c ∈ cs, c.WF) (hlen : 523 * cs.length < 2 ^ 64) :
    (serialize cs).isSome := by
  obtain ⟨raw, hr, hl⟩ := rawSerialize_isSome hwf
  obtain ⟨enc, he⟩ := encodeVarint_isSome (n := raw.length) (by omega)
  simp [serialize, hr, he]

/-- `serialize` is the varint of the raw length followed by the raw bytes, and fails exactly
when `rawSerialize` fails or the raw length does not fit a varint. -/
theorem serialize_eq (cs : List Cmd) :
    (∀ raw, rawSerialize cs = some raw → raw.length < 2 ^ 64 →
      ∃ enc, encodeVarint raw.length = some enc ∧ serialize cs = some (enc ++ raw)) ∧
    (∀ raw, rawSerialize cs = some raw → 2 ^ 64 ≤ raw.length → serialize cs = none) ∧
    (rawSerialize cs = none → serialize cs = none) := by
  refine ⟨fun raw hr hl => ?_, fun raw hr hl => ?_, fun hr => ?_⟩
  · obtain ⟨enc, he⟩ := encodeVarint_isSome hl
    exact ⟨enc, he, by simp [serialize, hr, he]⟩
  · simp [serialize, hr, encodeVarint_large hl]
  · simp [serialize, hr]

/-- A script containing a data element of more than 520 bytes (or an "opcode" above 255) is refused
by both serialisers. -/
theorem serialize_refuses {cs : List Cmd} {c : Cmd} (hc : c ∈ cs) (hbad : serCmd c = none) :
    rawSerialize cs = none ∧ serialize cs = none := by
  have hraw : rawSerialize cs = none := by
    induction cs with
    | nil => cases hc
    | cons c' cs ih =>
      rcases List.mem_cons.mp hc with rfl | hmem
      · simp [rawSerialize, hbad]
      · simp [rawSerialize, ih hmem]
  exact ⟨hraw, by simp [serialize, hraw]⟩

example : serCmd (.op 256) = none := by decide

/-- Elements over 520 bytes are refused: a script containing one cannot be serialised. -/
theorem serialize_refuses_long {cs : List Cmd} {d : Bytes} (hc : Cmd.data d ∈ cs)
    (hlong : 520 < d.length) : rawSerialize cs = none ∧ serialize cs = none :=
  serialize_refuses hc (serCmd_data_huge hlong)

/-- Round trip: parsing the serialisation of a script of well-formed commands (followed by any
further bytes) returns exactly that script and leaves exactly the further bytes. -/
theorem parse_serialize {cs : List Cmd} (hwf : ∀ c ∈ cs, c.WF) (ser : Bytes)
    (hser : serialize cs = some ser) (rest : Bytes) : parse (ser ++ rest) = some (cs, rest) := by
  simp only [serialize] at hser
  rw [Option.bind_eq_some_iff] at hser
  obtain ⟨raw, hr, hser⟩ := hser
  rw [Option.map_eq_some_iff] at hser
  obtain ⟨enc, he, rfl⟩ := hser
  have hw := wires_of_rawSerialize hwf hr
  have hloop := parseLoop_wires hw ((raw ++ rest).length + 1) 0 rest (by
    have := wires_length hw
    simp only [List.length_append]; omega)
  simp only [Nat.zero_add] at hloop
  simp only [parse]
  rw [List.append_assoc, ScriptLemmas.readVarint_encodeVarint he]
  simp only [Option.bind_some]
  rw [hloop]
  simp

example : (∀ c ∈ p2pkhScript (List.replicate 20 7), c.WF) ∧
    serialize (p2pkhScript (List.replicate 20 7)) =
      some ([0x19, 0x76, 0xa9, 0x14] ++ List.replicate 20 7 ++ [0x88, 0xac]) := by decide

-- a 300-byte element goes out as PUSHDATA2 behind a 3-byte varint and comes back intact
example : parse ([0xfd, 0x2f, 0x01, 77, 44, 1] ++ List.replicate 300 1) =
    some ([.data (List.replicate 300 1)], []) := by decide +kernel

-- Why `Cmd.WF` restricts opcodes to 0 / 78..255 and data to non-empty: outside it the round
-- trip fails in the Python code as well (these are facts about the library, not model slips).
example : serialize [.op 1, .op 0xac] = some [2, 1, 0xac] ∧
    parse [2, 1, 0xac] = some ([.data [0xac]], []) := by decide
example : serialize [.op 76] = some [1, 76] ∧ parse [1, 76] = none := by decide
example : serialize [.data []] = some [1, 0] ∧ parse [1, 0] = some ([.op 0], []) := by decide

/-! ### 8. what an accepted input looks like -/

/-- An accepted input contains all the bytes it declares: the varint read at the front is `n`,
and exactly `n` bytes lie between it and the unread rest. -/
theorem parse_accounts {bs rest : Bytes} {cs : List Cmd} (h : parse bs = some (cs, rest)) :
    ∃ n body, readVarint bs = some (n, body ++ rest) ∧ body.length = n := by
  simp only [parse] at h
  rw [Option.bind_eq_some_iff] at h
  obtain ⟨⟨n, s⟩, hv, h⟩ := h
  rw [Option.bind_eq_some_iff] at h
  obtain ⟨⟨cs', cnt, r⟩, hloop, h⟩ := h
  simp only at h
  split at h
  · next hcnt =>
    simp only [Option.some.injEq, Prod.mk.injEq] at h
    obtain ⟨rfl, rfl⟩ := h
    obtain ⟨body, _, rfl, hc⟩ := parseLoop_some hloop
    exact ⟨n, body, hv, by omega⟩
  · cases h

example : parse [2, 1, 7, 9] = some ([.data [7]], [9]) := by decide

/-- Full accounting: an accepted input is a varint header, then a body of exactly the declared
length that is a concatenation of complete wire forms of the returned commands, then the rest. -/
theorem parse_consumes {bs rest : Bytes} {cs : List Cmd} (h : parse bs = some (cs, rest)) :
    ∃ hdr body, bs = hdr ++ body ++ rest ∧ readVarint hdr = some (body.length, []) ∧
      Wires cs body := by
  simp only [parse] at h
  rw [Option.bind_eq_some_iff] at h
  obtain ⟨⟨n, s⟩, hv, h⟩ := h
  rw [Option.bind_eq_some_iff] at h
  obtain ⟨⟨cs', cnt, r⟩, hloop, h⟩ := h
  simp only at h
  split at h
  · next hcnt =>
    simp only [Option.some.injEq, Prod.mk.injEq] at h
    obtain ⟨rfl, rfl⟩ := h
    obtain ⟨body, hw, rfl, hc⟩ := parseLoop_some hloop
    obtain ⟨hdr, rfl, hh, _⟩ := readVarint_split hv
    refine ⟨hdr, body, by rw [List.append_assoc], ?_, hw⟩
    have : body.length = n := by omega
    rw [this]; exact hh
  · cases h

/-- Exact characterisation of the parser: it accepts precisely header ++ body ++ rest where the
header is a varint of the body length and the body is a concatenation of wire forms. -/
theorem parse_iff (bs rest : Bytes) (cs : List Cmd) :
    parse bs = some (cs, rest) ↔
      ∃ hdr body, bs = hdr ++ body ++ rest ∧ readVarint hdr = some (body.length, []) ∧
        Wires cs body := by
  constructor
  · exact parse_consumes
  · rintro ⟨hdr, body, rfl, hh, hw⟩
    have hloop := parseLoop_wires hw ((body ++ rest).length + 1) 0 rest (by
      have := wires_length hw
      simp only [List.length_append]; omega)
    simp only [Nat.zero_add] at hloop
    simp only [parse]
    rw [List.append_assoc, readVarint_append hh]
    simp only [Option.bind_some, List.nil_append]
    rw [hloop]
    simp

-- the parser also accepts non-minimal pushes, which `serialize` would write differently
example : parse [3, 76, 1, 7] = some ([.data [7]], []) ∧ serialize [.data [7]] = some [2, 1, 7] := by
  decide

/-- Input that ends early is never accepted: no proper prefix of a serialisation parses.
(Holds for every script that serialises, well-formed or not.) -/
theorem parse_truncated {cs : List Cmd} {ser : Bytes} (hser : serialize cs = some ser)
    (pre : Bytes) (hp : pre <+: ser) (hne : pre ≠ ser) : parse pre = none := by
  simp only [serialize] at hser
  rw [Option.bind_eq_some_iff] at hser
  obtain ⟨raw, hr, hser⟩ := hser
  rw [Option.map_eq_some_iff] at hser
  obtain ⟨enc, he, rfl⟩ := hser
  cases hparse : parse pre with
  | none => rfl
  | some x =>
    exfalso
    obtain ⟨cs', rest'⟩ := x
    obtain ⟨n, body, hv, hb⟩ := parse_accounts hparse
    rcases List.prefix_or_prefix_of_prefix hp (List.prefix_append enc raw) with hpe | hep
    · by_cases heq : pre = enc
      · subst heq
        have := ScriptLemmas.readVarint_encodeVarint he []
        rw [List.append_nil, hv] at this
        simp only [Option.some.injEq, Prod.mk.injEq, List.append_eq_nil_iff] at this
        obtain ⟨rfl, rfl, rfl⟩ := this
        have hl : raw.length = 0 := by simpa using hb.symm
        have : raw = [] := List.eq_nil_of_length_eq_zero hl
        subst this
        exact hne (by simp)
      · rw [ScriptLemmas.readVarint_truncated he hpe heq] at hv
        cases hv
    · obtain ⟨p', rfl⟩ := hep
      rw [ScriptLemmas.readVarint_encodeVarint he p'] at hv
      simp only [Option.some.injEq, Prod.mk.injEq] at hv
      obtain ⟨rfl, rfl⟩ := hv
      rw [List.prefix_append_right_inj] at hp
      have hle := hp.length_le
      simp only [List.length_append] at hle
      have : rest' = [] := List.eq_nil_of_length_eq_zero (by omega)
      subst this
      rw [List.append_nil] at hp hne
      exact hne (by rw [hp.eq_of_length (by omega)])

example : serialize [.op 0, .data [7, 8]] = some [4, 0, 2, 7, 8] ∧ parse [4, 0, 2, 7] = none ∧
    parse [4, 0, 2] = none ∧ parse [4] = none ∧ parse [] = none := by decide

/-- The same for arbitrary accepted input: if `parse` accepts `bs` leaving `rest`, it rejects every
proper prefix of the consumed part `bs` minus `rest`. -/
theorem parse_truncated_any {used rest : Bytes} {cs : List Cmd}
    (h : parse (used ++ rest) = some (cs, rest)) (pre : Bytes) (hp : pre <+: used)
    (hne : pre ≠ used) : parse pre = none := by
  obtain ⟨hdr, body, hbs, hh, hw⟩ := parse_consumes h
  have hused : used = hdr ++ body := List.append_cancel_right hbs
  subst hused
  cases hparse : parse pre with
  | none => rfl
  | some x =>
    exfalso
    obtain ⟨cs', rest'⟩ := x
    obtain ⟨n, body', hv, hb⟩ := parse_accounts hparse
    obtain ⟨hdr', hpre, hh', _⟩ := readVarint_split hv
    -- `hdr'` and `hdr` are both prefixes of the same string and both decode completely
    have h1 : hdr' <+: hdr ++ body := List.IsPrefix.trans ⟨_, hpre.symm⟩ hp
    have h2 : hdr <+: hdr ++ body := List.prefix_append _ _
    have hhdr : hdr' = hdr := by
      rcases List.prefix_or_prefix_of_prefix h1 h2 with ⟨t, ht⟩ | ⟨t, ht⟩
      · have := readVarint_append hh' t
        rw [ht, hh] at this
        simp only [Option.some.injEq, Prod.mk.injEq, List.nil_append] at this
        rw [← this.2, List.append_nil] at ht; exact ht
      · have := readVarint_append hh t
        rw [ht, hh'] at this
        simp only [Option.some.injEq, Prod.mk.injEq, List.nil_append] at this
        rw [← this.2, List.append_nil] at ht; exact ht.symm
    subst hhdr
    rw [hh] at hh'
    simp only [Option.some.injEq, Prod.mk.injEq, and_true] at hh'
    rw [hpre, List.prefix_append_right_inj] at hp
    have hle := hp.length_le
    simp only [List.length_append] at hle
    have : rest' = [] := List.eq_nil_of_length_eq_zero (by omega)
    subst this
    rw [List.append_nil] at hp hpre
    apply hne
    rw [hpre, hp.eq_of_length (by omega)]

example : parse ([3, 76, 1, 7] ++ [9]) = some ([.data [7]], [9]) ∧ parse [3, 76, 1] = none := by decide

/-- The fuel bound in the model's parser loop is never what stops it: any larger bound gives
the same result on every input. -/
theorem parse_fuel_irrelevant (s : Bytes) (extra : Nat) :
    parse s = (readVarint s).bind fun (length, body) =>
      (parseLoop (body.length + 1 + extra) length 0 body).bind fun (cs, count, rest) =>
        if count = length then some (cs, rest) else none := by
  simp only [parse]
  cases readVarint s with
  | none => rfl
  | some x =>
    obtain ⟨n, body⟩ := x
    simp only [Option.bind_some]
    rw [parseLoop_fuel_irrelevant (fuel := body.length + 1 + extra) (by omega)]

/-! ### 9. the standard script builders -/

/-- P2PKH: `OP_DUP OP_HASH160 <20 bytes> OP_EQUALVERIFY OP_CHECKSIG`. -/
theorem p2pkh_template {h : Bytes} (hl : h.length = 20) :
    rawSerialize (p2pkhScript h) = some ([0x76, 0xa9, 0x14] ++ h ++ [0x88, 0xac]) := by
  have hd := serCmd_data_small (d := h) (by omega)
  rw [hl] at hd
  simp only [p2pkhScript, rawSerialize, serCmd_op (b := 0x76) (by decide),
    serCmd_op (b := 0xa9) (by decide), serCmd_op (b := 0x88) (by decide),
    serCmd_op (b := 0xac) (by decide), hd, Option.bind_some, Option.map_some]
  rfl

/-- P2SH: `OP_HASH160 <20 bytes> OP_EQUAL`. -/
theorem p2sh_template {h : Bytes} (hl : h.length = 20) :
    rawSerialize (p2shScript h) = some ([0xa9, 0x14] ++ h ++ [0x87]) := by
  have hd := serCmd_data_small (d := h) (by omega)
  rw [hl] at hd
  simp only [p2shScript, rawSerialize, serCmd_op (b := 0xa9) (by decide),
    serCmd_op (b := 0x87) (by decide), hd, Option.bind_some, Option.map_some]
  rfl

/-- P2WPKH: `OP_0 <20 bytes>`. -/
theorem p2wpkh_template {h : Bytes} (hl : h.length = 20) :
    rawSerialize (p2wpkhScript h) = some ([0x00, 0x14] ++ h) := by
  have hd := serCmd_data_small (d := h) (by omega)
  rw [hl] at hd
  simp only [p2wpkhScript, rawSerialize, serCmd_op (b := 0) (by decide), hd,
    Option.bind_some, Option.map_some]
  simp

/-- P2WSH: `OP_0 <32 bytes>`. -/
theorem p2wsh_template {h : Bytes} (hl : h.length = 32) :
    rawSerialize (p2wshScript h) = some ([0x00, 0x20] ++ h) := by
  have hd := serCmd_data_small (d := h) (by omega)
  rw [hl] at hd
  simp only [p2wshScript, rawSerialize, serCmd_op (b := 0) (by decide), hd,
    Option.bind_some, Option.map_some]
  simp

example : (List.replicate 32 (7 : UInt8)).length = 32 := by decide

/-- With the length prefix: the four standard scriptPubKeys serialise to the familiar
25-, 23-, 22- and 34-byte scripts behind a one-byte varint. -/
theorem builders_serialize {h : Bytes} :
    (h.length = 20 → serialize (p2pkhScript h) = some ([0x19, 0x76, 0xa9, 0x14] ++ h ++ [0x88, 0xac])) ∧
    (h.length = 20 → serialize (p2shScript h) = some ([0x17, 0xa9, 0x14] ++ h ++ [0x87])) ∧
    (h.length = 20 → serialize (p2wpkhScript h) = some ([0x16, 0x00, 0x14] ++ h)) ∧
    (h.length = 32 → serialize (p2wshScript h) = some ([0x22, 0x00, 0x20] ++ h)) := by
  refine ⟨fun hl => ?_, fun hl => ?_, fun hl => ?_, fun hl => ?_⟩
  · simp only [serialize, p2pkh_template hl, Option.bind_some, List.length_append,
      List.length_cons, List.length_nil, hl]
    rfl
  · simp only [serialize, p2sh_template hl, Option.bind_some, List.length_append,
      List.length_cons, List.length_nil, hl]
    rfl
  · simp only [serialize, p2wpkh_template hl, Option.bind_some, List.length_append,
      List.length_cons, List.length_nil, hl]
    rfl
  · simp only [serialize, p2wsh_template hl, Option.bind_some, List.length_append,
      List.length_cons, List.length_nil, hl]
    rfl

/-- The four builders produce well-formed scripts for hashes of the right size, so they
serialise and round-trip through `parse`. -/
theorem builders_wf {h : Bytes} (hl : 1 ≤ h.length ∧ h.length ≤ 520) :
    (∀ c ∈ p2pkhScript h, c.WF) ∧ (∀ c ∈ p2shScript h, c.WF) ∧
    (∀ c ∈ p2wpkhScript h, c.WF) ∧ (∀ c ∈ p2wshScript h, c.WF) := by
  have hd : (Cmd.data h).WF := hl
  refine ⟨?_, ?_, ?_, ?_⟩ <;>
    simp [p2pkhScript, p2shScript, p2wpkhScript, p2wshScript, hd] <;> simp [Cmd.WF]

end BtcHd.C19
