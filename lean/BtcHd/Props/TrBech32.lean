/-
Translated Python (`BtcHd.Code`, generated from /repo by harness/translate.py) = hand-written model:
`bech32.py` `bech32_polymod`, `bech32_hrp_expand`, `bech32_verify_checksum`, `bech32_create_checksum`,
`convertbits`, `bech32_encode`, `bech32_decode`, and the segwit-address `decode` / `encode` — all of `bech32.py`.
-/
import BtcHd.Lemmas.Translated
import BtcHd.Lemmas.Translated3

namespace BtcHd.Translated
open BtcHd

/-- The translated `bech32_polymod` is the model's `polymod`, on every list of values. -/
theorem polymod_eq (values : List Nat) : Code.bech32_polymod values = Bech32.polymod values := by
  unfold Code.bech32_polymod Bech32.polymod
  simp only [List.forIn_pure_yield_eq_foldl, bind_pure_comp, map_pure, Id.run_pure, pure_bind]
  congr 1
  funext chk value
  simp only [Bech32.polymodStep, Bech32.gen, Generated.polymodGen, range5, List.foldl_cons, List.foldl_nil,
    and_one_ne_zero]
  simp

/-- The translated `bech32_hrp_expand` is the model's `hrpExpand`. -/
theorem hrpExpand_eq (hrp : List Char) : Code.bech32_hrp_expand hrp = Bech32.hrpExpand hrp := by
  simp [Code.bech32_hrp_expand, Bech32.hrpExpand]

/-- The translated `bech32_verify_checksum` is the model's `verifyChecksum`. -/
theorem verifyChecksum_eq (hrp : List Char) (data : List Nat) :
    Code.bech32_verify_checksum hrp data = Bech32.verifyChecksum hrp data := by
  unfold Code.bech32_verify_checksum Bech32.verifyChecksum
  simp only [polymod_eq, hrpExpand_eq, Bech32.bech32mConst]
  rfl

/-- The translated `bech32_create_checksum` is the model's `createChecksum` (the Nat subtraction `5 - i`
is the same expression on both sides). -/
theorem createChecksum_eq (hrp : List Char) (data : List Nat) (spec : Bech32.Encoding) :
    Code.bech32_create_checksum hrp data spec = Bech32.createChecksum hrp data spec := by
  unfold Code.bech32_create_checksum Bech32.createChecksum
  simp only [polymod_eq, hrpExpand_eq]
  cases spec <;> simp [Bech32.constOf, Bech32.bech32mConst]

/-- The translated `convertbits` is the model's `convertbits` whenever `tobits` is positive (for
`tobits = 0` the Python `while` loop does not terminate): both bounded loops run to completion, and
checking the value range inside or before the loop gives the same result. -/
theorem convertbits_eq (data : List Nat) (frombits tobits : Nat) (pad : Bool) (h : 0 < tobits) :
    Code.convertbits data frombits tobits pad = Bech32.convertbits data frombits tobits pad := by
  unfold Code.convertbits
  simp only [forIn_break_option, List.length_range, Option.bind_eq_bind, Option.bind_none, Option.bind_some,
    forIn_raise_option]
  rw [foldl_fn_congr (g := Bech32.convStep frombits tobits)]
  · unfold Bech32.convertbits
    generalize List.foldl (Bech32.convStep frombits tobits) (0, 0, []) data = st
    obtain ⟨acc, bits, ret⟩ := st
    have hany : (data.any fun a => decide (a < 0 ∨ a >>> frombits ≠ 0)) =
        data.any (fun v => decide (v >>> frombits ≠ 0)) := by simp
    rw [hany]
    cases data.any (fun v => decide (v >>> frombits ≠ 0))
    · cases pad
      · simp
      · by_cases hb : bits = 0 <;> simp [hb]
    · simp
  · intro s a
    unfold Bech32.convStep
    simp only []
    rw [emit_fuel h _ _ _ (s.2.1 + frombits + 1), emit_eq_whileFuel]
    · exact Nat.lt_succ_self _
    · exact Nat.lt_succ_of_le (Nat.div_le_self _ _)

section codec
open BtcHd.Bech32

/-- The translated `bech32_decode` is the model's `bech32Decode`, on every string: character range, mixed-case
rule (`lower()`/`upper()` comparison = an upper-case and a lower-case letter both occur), last `'1'`, the three
length rules, charset membership, checksum. -/
theorem bech32_decode_eq (bech : List Char) : Code.bech32_decode bech = Bech32.bech32Decode bech := by
  unfold Code.bech32_decode Bech32.bech32Decode
  simp only [verifyChecksum_eq, Option.bind_eq_bind, Option.bind_none, if_false, rfind_eq,
    mixed_case_iff]
  have hl : List.map Py.lowerAscii bech = List.map toLowerAscii bech := by
    congr 1; funext c; exact lowerAscii_eq c
  rw [hl]
  have hany : (bech.any fun x => decide (x.toNat < 33 ∨ x.toNat > 126)) =
      (bech.any fun x => decide (x.toNat < 33) || decide (x.toNat > 126)) := by
    congr 1; funext x; simp
  rw [hany]
  by_cases h1 : (bech.any fun x => decide (x.toNat < 33) || decide (x.toNat > 126)) = true
  · simp [h1]
  · by_cases h2 : (bech.any isUpperAscii && bech.any isLowerAscii) = true
    · simp [h1, h2]
    · simp only [h1, h2, or_self, if_false]
      cases hr : rfindOne (List.map toLowerAscii bech) with
      | none => simp
      | some pos =>
        simp only []
        have e1 : ((pos : Int) < 1) ↔ pos < 1 := by omega
        have e2 : ((pos : Int) + 7 > ((List.map toLowerAscii bech).length : Int)) ↔
            pos + 7 > (List.map toLowerAscii bech).length := by omega
        have e3 : ((pos : Int) + 1).toNat = pos + 1 := by omega
        have e4 : (pos : Int).toNat = pos := by omega
        simp only [e1, e2, e3, e4]
        have hc : Generated.charset = charset := rfl
        rw [hc]
        split
        · rfl
        · split
          · rfl
          · cases verifyChecksum _ _ <;> rfl

/-- The translated segwit `decode` is the model's `decode` (`(None, None)` = `none`). -/
theorem decode_eq (hrp addr : List Char) : Code.decode hrp addr = Bech32.decode hrp addr := by
  unfold Code.decode Bech32.decode
  simp only [bech32_decode_eq, convertbits_eq _ _ _ _ (by decide : 0 < 8)]
  cases Bech32.bech32Decode addr with
  | none => rfl
  | some r =>
    obtain ⟨hrpgot, data, spec⟩ := r
    simp only [Option.bind_eq_bind, Option.bind_some, Option.bind_none, false_or]
    by_cases hh : hrpgot ≠ hrp
    · simp [hh]
    · simp only [hh, if_false]
      cases data with
      | nil =>
        have : convertbits (List.drop 1 ([] : List Nat)) 5 8 false = some [] := by decide
        rw [this]; simp
      | cons v tail =>
        cases convertbits (List.drop 1 (v :: tail)) 5 8 false with
        | none => rfl
        | some decoded =>
          simp only [Option.bind_some, List.getElem!_cons_zero]
          rfl

/-- The translated `bech32_encode` is the model's `bech32Encode` (`CHARSET[d]` out of range = IndexError = `none`). -/
theorem bech32_encode_eq (h : List Char) (d : List Nat) (s : Bech32.Encoding) :
    Code.bech32_encode h d s = Bech32.bech32Encode h d s := by
  unfold Code.bech32_encode Bech32.bech32Encode
  simp only [Translated.createChecksum_eq]
  have : (fun d => Generated.charset[d]?) = Bech32.charAt := rfl
  rw [this]
  cases List.mapM Bech32.charAt (d ++ Bech32.createChecksum h d s) <;> rfl

/-- The translated segwit `encode` is the model's `encode`, for every prefix, version and program. -/
theorem encode_eq (hrp : List Char) (witver : Nat) (witprog : Bytes) :
    Code.encode hrp witver witprog = Bech32.encode hrp witver witprog := by
  unfold Code.encode Bech32.encode
  simp only [bech32_encode_eq, decode_eq, convertbits_eq _ _ _ _ (by decide : 0 < 5)]
  have hm : List.map UInt8.toNat witprog = List.map (fun x => x.toNat) witprog := rfl
  rw [hm]
  cases convertbits (List.map (fun x => x.toNat) witprog) 8 5 true with
  | none => rfl
  | some conv =>
    simp only [Option.bind_eq_bind, Option.bind_some, List.singleton_append]
    cases bech32Encode hrp (witver :: conv) (if witver = 0 then Encoding.bech32 else Encoding.bech32m) with
    | none => rfl
    | some ret =>
      simp only [Option.bind_some]
      cases hd : Bech32.decode hrp ret <;> simp [hd]

end codec

example : Code.encode ['b', 'c'] 0 (List.replicate 20 0) = Bech32.encode ['b', 'c'] 0 (List.replicate 20 0) :=
  encode_eq _ _ _

/-- a concrete instance of `convertbits_eq` (the hypothesis is satisfiable) -/
example : Code.convertbits [255, 1] 8 5 true = Bech32.convertbits [255, 1] 8 5 true :=
  convertbits_eq _ _ _ _ (by decide)
example : Code.convertbits [255, 1] 8 5 true = some [31, 28, 0, 16] := by decide +kernel
example : Code.convertbits [31, 28, 0, 16] 5 8 false = some [255, 1] := by decide +kernel
/-- the hypothesis of `convertbits_eq` cannot be dropped: the two fuel bounds differ for `tobits = 0` -/
example : Code.convertbits [1] 1 0 true ≠ Bech32.convertbits [1] 1 0 true := by decide +kernel
example : Code.convertbits [256] 8 5 true = none := by decide +kernel
example : Code.convertbits [31] 5 8 false = none := by decide +kernel
example : Code.bech32_polymod [3, 3, 0, 2, 3] = 36798531 := by decide +kernel
example : Code.bech32_hrp_expand ['b', 'c'] = [3, 3, 0, 2, 3] := by decide +kernel
example : Code.bech32_create_checksum ['b', 'c'] [0] .bech32 = Bech32.createChecksum ['b', 'c'] [0] .bech32 := by
  decide +kernel
example : Code.bech32_verify_checksum ['b', 'c']
    ([0] ++ Code.bech32_create_checksum ['b', 'c'] [0] .bech32m) = some .bech32m := by decide +kernel

end BtcHd.Translated
