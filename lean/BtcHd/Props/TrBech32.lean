/-
Translated Python (`BtcHd.Code`, generated from /repo by harness/translate.py) = hand-written model:
`bech32.py` `bech32_polymod`, `bech32_hrp_expand`, `bech32_verify_checksum`, `bech32_create_checksum`,
`convertbits`.
-/
import BtcHd.Lemmas.Translated

namespace BtcHd.Translated
open BtcHd

/-- The translated `bech32_polymod` is the model's `polymod`, on every list of values. -/
theorem polymod_eq (values : List Nat) : Code.bech32_polymod values = Bech32.polymod values := by
  unfold Code.bech32_polymod Bech32.polymod
  simp only [List.forIn_pure_yield_eq_foldl, bind_pure_comp, map_pure, Id.run_pure, pure_bind]
  congr 1
  funext chk value
  simp only [Bech32.polymodStep, Bech32.gen, Generated.polymodGen, range5, List.foldl_cons, List.foldl_nil,
    and_one_ne_zero]
  simp

/-- The translated `bech32_hrp_expand` is the model's `hrpExpand`. -/
theorem hrpExpand_eq (hrp : List Char) : Code.bech32_hrp_expand hrp = Bech32.hrpExpand hrp := by
  simp [Code.bech32_hrp_expand, Bech32.hrpExpand]

/-- The translated `bech32_verify_checksum` is the model's `verifyChecksum`. -/
theorem verifyChecksum_eq (hrp : List Char) (data : List Nat) :
    Code.bech32_verify_checksum hrp data = Bech32.verifyChecksum hrp data := by
  unfold Code.bech32_verify_checksum Bech32.verifyChecksum
  simp only [polymod_eq, hrpExpand_eq, Bech32.bech32mConst]
  rfl

/-- The translated `bech32_create_checksum` is the model's `createChecksum` (the Nat subtraction `5 - i`
is the same expression on both sides). -/
theorem createChecksum_eq (hrp : List Char) (data : List Nat) (spec : Bech32.Encoding) :
    Code.bech32_create_checksum hrp data spec = Bech32.createChecksum hrp data spec := by
  unfold Code.bech32_create_checksum Bech32.createChecksum
  simp only [polymod_eq, hrpExpand_eq]
  cases spec <;> simp [Bech32.constOf, Bech32.bech32mConst]

/-- The translated `convertbits` is the model's `convertbits` whenever `tobits` is positive (for
`tobits = 0` the Python `while` loop does not terminate): both bounded loops run to completion, and
checking the value range inside or before the loop gives the same result. -/
theorem convertbits_eq (data : List Nat) (frombits tobits : Nat) (pad : Bool) (h : 0 < tobits) :
    Code.convertbits data frombits tobits pad = Bech32.convertbits data frombits tobits pad := by
  unfold Code.convertbits
  simp only [forIn_break_option, List.length_range, Option.bind_eq_bind, Option.bind_none, Option.bind_some,
    forIn_raise_option]
  rw [foldl_fn_congr (g := Bech32.convStep frombits tobits)]
  · unfold Bech32.convertbits
    generalize List.foldl (Bech32.convStep frombits tobits) (0, 0, []) data = st
    obtain ⟨acc, bits, ret⟩ := st
    have hany : (data.any fun a => decide (a < 0 ∨ a >>> frombits ≠ 0)) =
        data.any (fun v => decide (v >>> frombits ≠ 0)) := by simp
    rw [hany]
    cases data.any (fun v => decide (v >>> frombits ≠ 0))
    · cases pad
      · simp
      · by_cases hb : bits = 0 <;> simp [hb]
    · simp
  · intro s a
    unfold Bech32.convStep
    simp only []
    rw [emit_fuel h _ _ _ (s.2.1 + frombits + 1), emit_eq_whileFuel]
    · exact Nat.lt_succ_self _
    · exact Nat.lt_succ_of_le (Nat.div_le_self _ _)

/-- a concrete instance of `convertbits_eq` (the hypothesis is satisfiable) -/
example : Code.convertbits [255, 1] 8 5 true = Bech32.convertbits [255, 1] 8 5 true :=
  convertbits_eq _ _ _ _ (by decide)
example : Code.convertbits [255, 1] 8 5 true = some [31, 28, 0, 16] := by decide +kernel
example : Code.convertbits [31, 28, 0, 16] 5 8 false = some [255, 1] := by decide +kernel
/-- the hypothesis of `convertbits_eq` cannot be dropped: the two fuel bounds differ for `tobits = 0` -/
example : Code.convertbits [1] 1 0 true ≠ Bech32.convertbits [1] 1 0 true := by decide +kernel
example : Code.convertbits [256] 8 5 true = none := by decide +kernel
example : Code.convertbits [31] 5 8 false = none := by decide +kernel
example : Code.bech32_polymod [3, 3, 0, 2, 3] = 36798531 := by decide +kernel
example : Code.bech32_hrp_expand ['b', 'c'] = [3, 3, 0, 2, 3] := by decide +kernel
example : Code.bech32_create_checksum ['b', 'c'] [0] .bech32 = Bech32.createChecksum ['b', 'c'] [0] .bech32 := by
  decide +kernel
example : Code.bech32_verify_checksum ['b', 'c']
    ([0] ++ Code.bech32_create_checksum ['b', 'c'] [0] .bech32m) = some .bech32m := by decide +kernel

end BtcHd.Translated
