/-
C06 (JSON text clause): "The JSON rendering parses back to the same data."

`PaperWallet.json(data, indent)` is `json.dumps(data, indent=indent)` of CPython. `JsonText.dumps`
(Model/JsonText.lean) is an executable mirror of that printer for values made of dict / list / str /
None, and `JsonText.loads` a parser for JSON texts over the same value space. The theorems here
state the round trip for every value and every indent, with no side condition.
-/
import BtcHd.Lemmas.JsonText

namespace BtcHd.C06
open BtcHd.Wallet BtcHd.JsonText

/-- Reading a printed string literal, followed by anything, gives back exactly the string and the
untouched remainder (all escapes, including `\uXXXX` and surrogate pairs, are undone). -/
theorem unescape_escape (s rest : List Char) :
    parseString ('"' :: (escape s ++ '"' :: rest)) = some (s, rest) := by
  have h := parseString_dumpStr s rest
  rw [dumpStr_head] at h
  simpa only [List.cons_append, List.append_assoc, List.nil_append] using h

/-- The body of a printed string literal consists of printable ASCII characters only (`' '..'~'`). -/
theorem escape_ascii (s : List Char) : ∀ c ∈ escape s, 0x20 ≤ c.toNat ∧ c.toNat ≤ 0x7e :=
  escape_printable s

/-- The escape of a single character is never empty and never begins with a quote, so the reader can
not mistake the first character of an escape for the end of the string literal. -/
theorem escape_char_nonempty_no_quote (c : Char) :
    ∃ h t, escapeChar c = h :: t ∧ h ≠ '"' :=
  escapeChar_head c

/-- The compact rendering (`indent=None`) is pure printable ASCII: no newline, no control or
non-ASCII character. -/
theorem dumps_ascii_compact (j : Json) :
    ∀ c ∈ dumps none j, 0x20 ≤ c.toNat ∧ c.toNat ≤ 0x7e :=
  allC_dump (P := fun c => 0x20 ≤ c.toNat ∧ c.toNat ≤ 0x7e) none (fun _ h => h) (fun _ => .nil) j 0

/-- With any indent the rendering is printable ASCII plus the newline character, and a newline
occurs only if an indent was requested. -/
theorem dumps_ascii (indent : Option Nat) (j : Json) :
    ∀ c ∈ dumps indent j, (0x20 ≤ c.toNat ∧ c.toNat ≤ 0x7e) ∨ (c = '\n' ∧ indent ≠ none) :=
  allC_dump (P := fun c => (0x20 ≤ c.toNat ∧ c.toNat ≤ 0x7e) ∨ (c = '\n' ∧ indent ≠ none))
    indent (fun _ h => .inl h) (nlIndent_chars indent) j 0

/-- The JSON rendering parses back to the same data: for every value and every indent. -/
theorem loads_dumps (j : Json) (indent : Option Nat) : loads (dumps indent j) = some j := by
  have h := loads_ws_dumps_ws indent j allWs_nil allWs_nil
  simpa only [List.nil_append, List.append_nil] using h

/-- The round trip tolerates whitespace (space, LF, CR, TAB) before and after the text, e.g. the
trailing newline of a file. -/
theorem loads_dumps_padded (j : Json) (indent : Option Nat) (w₁ w₂ : List Char)
    (h₁ : ∀ c ∈ w₁, c = ' ' ∨ c = '\n' ∨ c = '\r' ∨ c = '\t')
    (h₂ : ∀ c ∈ w₂, c = ' ' ∨ c = '\n' ∨ c = '\r' ∨ c = '\t') :
    loads (w₁ ++ dumps indent j ++ w₂) = some j := by
  have ws : ∀ c : Char, c = ' ' ∨ c = '\n' ∨ c = '\r' ∨ c = '\t' → isWs c = true := by
    intro c hc
    rcases hc with rfl | rfl | rfl | rfl <;> decide +kernel
  rw [List.append_assoc]
  exact loads_ws_dumps_ws indent j (fun c hc => ws c (h₁ c hc)) (fun c hc => ws c (h₂ c hc))

example : loads ([' ', '\n'] ++ dumps (some 2) (.arr [.null, .str ['"']]) ++ ['\r', '\n', '\t']) =
    some (.arr [.null, .str ['"']]) :=
  loads_dumps_padded _ _ _ _ (by decide +kernel) (by decide +kernel)

/-- The parser, started anywhere in a larger text, consumes exactly one printed value and leaves the
remainder untouched (no over-reading), for any sufficient fuel. -/
theorem parseValue_dumps (j : Json) (indent : Option Nat) (rest : List Char) (fuel : Nat)
    (h : (dumps indent j).length ≤ fuel) :
    parseValue fuel (dumps indent j ++ rest) = some (j, rest) :=
  parseValue_dump indent j 0 rest fuel h

example : parseValue 4 (dumps none .null ++ ", null]".toList) = some (.null, ", null]".toList) :=
  parseValue_dumps .null none _ 4 (by decide +kernel)

/-- Different data never render to the same text (for a fixed indent). -/
theorem dumps_injective (indent : Option Nat) (j j' : Json) (h : dumps indent j = dumps indent j') :
    j = j' := by
  have h1 := loads_dumps j indent
  rw [h, loads_dumps j' indent] at h1
  exact (Option.some.inj h1).symm

/-- The indent is presentation only: all renderings of a value parse to the same data. -/
theorem loads_dumps_indent_irrelevant (j : Json) (i i' : Option Nat) :
    loads (dumps i j) = loads (dumps i' j) := by
  rw [loads_dumps, loads_dumps]

/-! ### Conformance with CPython (expected texts pasted from `/venv/bin/python`, `json.dumps`) -/

/-- sample value: `{"path": "m/44'/0'", "rows": [["a\n\"\\", None, "\u00e9\u2028\U0001F600\x7f"], [], {}],
"": {"k": None}}` -/
private def sample : Json :=
  .obj [("path".toList, .str "m/44'/0'".toList),
        ("rows".toList, .arr [
          .arr [.str ['a', '\n', '"', '\\'], .null,
                .str [Char.ofNat 0xe9, Char.ofNat 0x2028, Char.ofNat 0x1f600, Char.ofNat 0x7f]],
          .arr [], .obj []]),
        ([], .obj [("k".toList, .null)])]

/-- comparing as `String`s is much cheaper for the kernel than decoding a long literal with `toList` -/
private theorem eq_toList_of {l : List Char} {s : String} (h : String.ofList l = s) : l = s.toList := by
  rw [← h, String.toList_ofList]

/-- `json.dumps(sample)` -/
example : dumps none sample =
    "{\"path\": \"m/44'/0'\", \"rows\": [[\"a\\n\\\"\\\\\", null, \"\\u00e9\\u2028\\ud83d\\ude00\\u007f\"], [], {}], \"\": {\"k\": null}}".toList :=
  eq_toList_of (by decide +kernel)

/-- `json.dumps(sample, indent=4)` -/
example : dumps (some 4) sample =
    "{\n    \"path\": \"m/44'/0'\",\n    \"rows\": [\n        [\n            \"a\\n\\\"\\\\\",\n            null,\n            \"\\u00e9\\u2028\\ud83d\\ude00\\u007f\"\n        ],\n        [],\n        {}\n    ],\n    \"\": {\n        \"k\": null\n    }\n}".toList :=
  eq_toList_of (by decide +kernel)

/-- `json.dumps(sample, indent=0)` -/
example : dumps (some 0) sample =
    "{\n\"path\": \"m/44'/0'\",\n\"rows\": [\n[\n\"a\\n\\\"\\\\\",\nnull,\n\"\\u00e9\\u2028\\ud83d\\ude00\\u007f\"\n],\n[],\n{}\n],\n\"\": {\n\"k\": null\n}\n}".toList :=
  eq_toList_of (by decide +kernel)

/-- `json.dumps("a\n\"\\\x7f\u00e9\u2028\U0001F600/\t\r\x08\x0c\x00\x1f ~")`: every kind of escape -/
example : dumps none (.str (['a', '\n', '"', '\\', Char.ofNat 0x7f, Char.ofNat 0xe9, Char.ofNat 0x2028,
      Char.ofNat 0x1f600, '/', '\t', '\r', Char.ofNat 8, Char.ofNat 12, Char.ofNat 0, Char.ofNat 0x1f,
      ' ', '~'])) =
    "\"a\\n\\\"\\\\\\u007f\\u00e9\\u2028\\ud83d\\ude00/\\t\\r\\b\\f\\u0000\\u001f ~\"".toList :=
  eq_toList_of (by decide +kernel)

/-- the parser really runs: it reads the CPython texts above back, also with other whitespace and with
upper-case hex digits / raw non-ASCII characters / `\/`, which `dumps` never emits -/
example : loads "{\n    \"\": {\n        \"k\": null\n    }\n}\n".toList =
    some (.obj [([], .obj [("k".toList, .null)])]) := by rfl
example : loads " [ \"\\uD83D\\uDE00\\/\" ,\t\"\u00e9\" , null ] ".toList =
    some (.arr [.str [Char.ofNat 0x1f600, '/'], .str [Char.ofNat 0xe9], .null]) := by rfl

/-- what is rejected: numbers / `true`, trailing commas, trailing garbage, lone surrogates, raw control
characters in strings, unterminated input -/
example : loads "[1]".toList = none ∧ loads "true".toList = none ∧ loads "[null,]".toList = none ∧
    loads "null x".toList = none ∧ loads "\"\\ud800\"".toList = none ∧
    loads "\"\\ud800\\u0041\"".toList = none ∧ loads "\"\\udc00\"".toList = none ∧
    loads "\"a\nb\"".toList = none ∧ loads "[null".toList = none ∧ loads "{\"a\" null}".toList = none ∧
    loads "{null: null}".toList = none ∧ loads [] = none := by decide +kernel

end BtcHd.C06
