/-
C16 — network tags.

"Everything network-tagged that a wallet emits - the five address kinds, WIFs of derived keys,
extended keys in any SLIP-132 flavour, the coin type in generated BIP44/49/84 paths and the Wasabi
export key - carries the tag of the wallet's own network and never the other one, for every key
and path.  A wallet built from an extended key takes its network from that key's version prefix."

Property theorems only.  The model functions are those of `Model/Wallet.lean`, `Model/Bip32.lean`
and `Model/Path.lean`; helper lemmas are in `Lemmas/Wallet.lean` and `Lemmas/Tags.lean`; the
report theorems of C06 are reused.  A tag is read back with the decoder of the format concerned
(Base58Check payload, Bech32 prefix, version table, parsed path).  `hlen` (a checksum hash of at
least four bytes) is the hypothesis of the Base58Check round trip (C10).
-/
import BtcHd.Lemmas.Tags
import BtcHd.Props.C06
import BtcHd.Props.C07
import BtcHd.Props.C11

namespace BtcHd.C16
open BtcHd Bip32 Wallet Keys Path

variable {Pt : Type}

/-! ### 1. a wallet and its master node are on the same network -/

/-- the wallet's own network flag is its master node's -/
def Consistent (w : Wallet) : Prop := w.testnet = w.master.testnet

/-- **ctor_consistent**: every constructor returns a wallet whose flag and whose master node's
flag are both the requested network (for `from_extended_key`: both the same) -/
theorem ctor_consistent (P : Prims Pt) :
    (∀ seed t w, fromSeedBytes P seed t = some w → Consistent w ∧ w.testnet = t) ∧
    (∀ s t w, fromSeedHex P s t = some w → Consistent w ∧ w.testnet = t) ∧
    (∀ m p t w, fromMnemonic P m p t = some w → Consistent w ∧ w.testnet = t) ∧
    (∀ e p t w, fromEntropyHex P e p t = some w → Consistent w ∧ w.testnet = t) ∧
    (∀ rnd n p t w, newWallet P rnd n p t = some w → Consistent w ∧ w.testnet = t) ∧
    (∀ s w, fromExtendedKey P s = some w → Consistent w) := by
  refine ⟨fun _ _ _ h => ?_, fun _ _ _ h => ?_, fun _ _ _ _ h => ?_, fun _ _ _ _ h => ?_,
    fun _ _ _ _ _ h => ?_, fun s w h => ?_⟩
  · obtain ⟨h1, h2, _⟩ := fromSeedBytes_fields h
    exact ⟨h1.trans h2.symm, h1⟩
  · obtain ⟨h1, h2, _⟩ := fromSeedHex_fields h
    exact ⟨h1.trans h2.symm, h1⟩
  · obtain ⟨h1, h2, _⟩ := fromMnemonic_fields h
    exact ⟨h1.trans h2.symm, h1⟩
  · obtain ⟨_, _, h1, h2, _⟩ := fromEntropyHex_fields h
    exact ⟨h1.trans h2.symm, h1⟩
  · obtain ⟨_, _, _, _, h1, h2, _⟩ := newWallet_fields h
    exact ⟨h1.trans h2.symm, h1⟩
  · obtain ⟨payload, v, _, _, rfl⟩ := (C07.fromExtendedKey_spec P s w).mp h
    rfl

/-! ### 2. derivation never changes the network -/

/-- **ckd_testnet**: a child node, a node derived along any path, and every generated child keep
the network flag (and the private / public class) of the node they come from -/
theorem ckd_testnet (P : Prims Pt) (nd : Node) :
    (∀ i c, ckd P nd i = some c → c.testnet = nd.testnet ∧ c.isPrv = nd.isPrv) ∧
    (∀ is c, derivePath P nd is = some c → c.testnet = nd.testnet ∧ c.isPrv = nd.isPrv) ∧
    (∀ a b cs, generateChildren P nd a b = some cs →
      ∀ c ∈ cs, c.testnet = nd.testnet ∧ c.isPrv = nd.isPrv) := by
  refine ⟨fun i c h => ⟨Wallet.ckd_testnet h, (ckd_fields h).1⟩,
    fun is c h => ⟨derivePath_testnet h, (derivePath_fields h).1⟩, fun a b cs h c hc => ?_⟩
  obtain ⟨i, hi, rfl⟩ := List.mem_iff_getElem.mp hc
  obtain ⟨hlen, hall⟩ := generateChildren_spec h
  obtain ⟨c', hc', hck⟩ := hall i (by omega)
  rw [List.getElem?_eq_getElem hi, Option.some.injEq] at hc'
  subst hc'
  exact ⟨Wallet.ckd_testnet hck, (ckd_fields hck).1⟩

/-! ### 3. addresses -/

/-- the network constants of the source: address version bytes `00`/`05` (mainnet) and `6f`/`c4`
(testnet), WIF prefixes `80` / `ef`, segwit prefixes `bc` / `tb`; mainnet and testnet values
differ in every kind -/
theorem tag_constants :
    Generated.p2pkhMain = 0x00 ∧ Generated.p2pkhTest = 0x6f ∧
    Generated.p2shMain = 0x05 ∧ Generated.p2shTest = 0xc4 ∧
    Generated.wifMain = 0x80 ∧ Generated.wifTest = 0xef ∧
    Generated.hrpMain = "bc".toList ∧ Generated.hrpTest = "tb".toList ∧
    Generated.p2pkhMain ≠ Generated.p2pkhTest ∧ Generated.p2shMain ≠ Generated.p2shTest ∧
    Generated.wifMain ≠ Generated.wifTest ∧ Generated.hrpMain ≠ Generated.hrpTest := by
  decide +kernel

/-- **base58_tag**: a P2PKH / P2SH address string decodes (Base58Check) to the network's version
byte followed by the 20-byte hash: `6f` / `c4` exactly when `testnet`, `00` / `05` otherwise -/
theorem base58_tag (P : Prims Pt) (hlen : ∀ x, 4 ≤ (P.hash256 x).length) (h160 : Bytes) (t : Bool) :
    Base58.decodeCheck P.hash256 (p2pkhOfH160 P h160 t) = some ((if t then 0x6f else 0x00) :: h160) ∧
    Base58.decodeCheck P.hash256 (p2shOfH160 P h160 t) = some ((if t then 0xc4 else 0x05) :: h160) := by
  unfold p2pkhOfH160 p2shOfH160
  rw [C10.decodeCheck_encodeCheck _ hlen, C10.decodeCheck_encodeCheck _ hlen]
  cases t <;> exact ⟨rfl, rfl⟩

/-- **segwit_tag**: a segwit address is `bech32(hrp, 0, program)` with `hrp = "tb"` exactly when
`testnet` and `"bc"` otherwise; when it exists it starts with that prefix and `1`, decodes under
that prefix to witness version 0 and the program, and is refused under the other prefix -/
theorem segwit_tag (prog : Bytes) (t : Bool) :
    segwitOf prog t = Bech32.encode (if t then "tb".toList else "bc".toList) 0 prog ∧
    ∀ s, segwitOf prog t = some s →
      Bech32.decode (if t then "tb".toList else "bc".toList) s = some (0, prog.map (·.toNat)) ∧
      Bech32.decode (if t then "bc".toList else "tb".toList) s = none ∧
      ∃ rest, s = (if t then "tb".toList else "bc".toList) ++ '1' :: rest := by
  obtain ⟨hm, ht, _⟩ := hrp_consts
  refine ⟨by unfold segwitOf; rw [hm, ht], fun s h => ?_⟩
  have := segwitOf_tag h
  rwa [hm, ht] at this

/-- **address_factor**: all five address functions of the wallet compute the public key of the
node and then apply `p2pkhOfH160` / `p2shOfH160` / `segwitOf` with the network flag they are
given — which `generate` (C06.generate_shape) instantiates with the wallet's own flag -/
theorem address_factor (P : Prims Pt) (t : Bool) (nd : Node) :
    p2pkhAddress P t nd = (pubKey P nd).map (fun K => p2pkhOfH160 P (h160 P K true) t) ∧
    p2wpkhAddress P t nd = (pubKey P nd).bind (fun K => segwitOf (h160 P K true) t) ∧
    p2shP2wpkhAddress P t nd = (pubKey P nd).bind (fun K =>
      (Script.rawSerialize (Script.p2wpkhScript (h160 P K true))).map fun redeem =>
        p2shOfH160 P (hash160 P redeem) t) ∧
    p2wshAddress P t nd = (pubKey P nd).bind (fun K =>
      (Script.rawSerialize (witnessScript P K)).bind fun ws => segwitOf (P.sha256 ws) t) ∧
    p2shP2wshAddress P t nd = (pubKey P nd).bind (fun K =>
      (Script.rawSerialize (witnessScript P K)).bind fun ws =>
        (Script.rawSerialize (Script.p2wshScript (P.sha256 ws))).map fun redeem =>
          p2shOfH160 P (hash160 P redeem) t) :=
  ⟨rfl, rfl, rfl, rfl, rfl⟩

/-- **address_tag**: whatever node it is applied to, each of the five address functions returns a
string carrying the tag of the flag it was given and not the other one: the Base58 kinds decode
to a payload starting with `6f` (P2PKH) / `c4` (P2SH) iff testnet and `00` / `05` otherwise; the
segwit kinds decode under `tb` iff testnet and `bc` otherwise, and not under the other prefix -/
theorem address_tag (P : Prims Pt) (hlen : ∀ x, 4 ≤ (P.hash256 x).length) (t : Bool) (nd : Node)
    (s : List Char) :
    (p2pkhAddress P t nd = some s →
      ∃ h, Base58.decodeCheck P.hash256 s = some ((if t then 0x6f else 0x00) :: h)) ∧
    (p2shP2wpkhAddress P t nd = some s →
      ∃ h, Base58.decodeCheck P.hash256 s = some ((if t then 0xc4 else 0x05) :: h)) ∧
    (p2shP2wshAddress P t nd = some s →
      ∃ h, Base58.decodeCheck P.hash256 s = some ((if t then 0xc4 else 0x05) :: h)) ∧
    (p2wpkhAddress P t nd = some s →
      (∃ prog, Bech32.decode (if t then "tb".toList else "bc".toList) s = some (0, prog)) ∧
      Bech32.decode (if t then "bc".toList else "tb".toList) s = none) ∧
    (p2wshAddress P t nd = some s →
      (∃ prog, Bech32.decode (if t then "tb".toList else "bc".toList) s = some (0, prog)) ∧
      Bech32.decode (if t then "bc".toList else "tb".toList) s = none) := by
  refine ⟨fun h => ?_, fun h => ?_, fun h => ?_, fun h => ?_, fun h => ?_⟩
  · unfold p2pkhAddress pubP2pkh at h
    obtain ⟨K, _, rfl⟩ := Option.map_eq_some_iff.mp h
    exact ⟨_, (base58_tag P hlen _ t).1⟩
  · unfold p2shP2wpkhAddress at h
    obtain ⟨K, _, h⟩ := Option.bind_eq_some_iff.mp h
    obtain ⟨r, _, rfl⟩ := Option.map_eq_some_iff.mp h
    exact ⟨_, (base58_tag P hlen _ t).2⟩
  · unfold p2shP2wshAddress at h
    obtain ⟨K, _, h⟩ := Option.bind_eq_some_iff.mp h
    obtain ⟨ws, _, h⟩ := Option.bind_eq_some_iff.mp h
    obtain ⟨r, _, rfl⟩ := Option.map_eq_some_iff.mp h
    exact ⟨_, (base58_tag P hlen _ t).2⟩
  · unfold p2wpkhAddress at h
    obtain ⟨K, _, h⟩ := Option.bind_eq_some_iff.mp h
    obtain ⟨h1, h2, _⟩ := (segwit_tag _ t).2 s h
    exact ⟨⟨_, h1⟩, h2⟩
  · unfold p2wshAddress at h
    obtain ⟨K, _, h⟩ := Option.bind_eq_some_iff.mp h
    obtain ⟨ws, _, h⟩ := Option.bind_eq_some_iff.mp h
    obtain ⟨h1, h2, _⟩ := (segwit_tag _ t).2 s h
    exact ⟨⟨_, h1⟩, h2⟩

example : ∀ x, 4 ≤ (Toy.primsW.hash256 x).length :=
  fun x => by rw [Toy.hash256W_length]; decide

/-! ### 4. WIF -/

/-- **wif_tag**: a WIF string decodes (Base58Check) to a payload starting with `ef` exactly when
`testnet` and `80` otherwise — for every scalar, compressed or not -/
theorem wif_tag (P : Prims Pt) (hlen : ∀ x, 4 ≤ (P.hash256 x).length) (k : Nat) (c t : Bool) :
    ∃ rest, Base58.decodeCheck P.hash256 (Keys.wif P k c t)
      = some ((if t then 0xef else 0x80) :: rest) :=
  ⟨_, C09.wif_payload P hlen k c t⟩

/-- every WIF of a report row is made with the wallet's own flag, hence carries the wallet's tag -/
theorem row_wif_tag {P : Prims Pt} {w : Wallet} {purpose : Nat} {addr : Node → Option (List Char)}
    {acct a b : Nat} {keys : Json} {rows : List Json} (hlen : ∀ x, 4 ≤ (P.hash256 x).length)
    (hroot : w.master.path = []) (h : bipAccount P w purpose addr acct a b = some (keys, rows))
    {i : Nat} (hi : i < b - a) :
    ∃ p ad sec s rest, rows[i]? = some (.arr [p, ad, sec, .str s]) ∧
      Base58.decodeCheck P.hash256 s = some ((if w.testnet then 0xef else 0x80) :: rest) := by
  obtain ⟨nd, k, ad, _, _, _, _, _, hr⟩ := C06.row_consistent hroot h hi
  exact ⟨_, _, _, _, _, hr, C09.wif_payload P hlen k true w.testnet⟩

example : ∃ keys rows, bipAccount Toy.primsW (Toy.walletW true) 49
      (p2shP2wpkhAddress Toy.primsW true) 1 2 4 = some (keys, rows) ∧
    (Toy.walletW true).master.path = [] ∧ (49 : Nat) < 2 ^ 31 ∧ (1 : Nat) < 2 ^ 31 ∧ 4 ≤ 2 ^ 32 := by
  obtain ⟨⟨k, r⟩, h⟩ := Option.isSome_iff_exists.mp Toy.bip49_toy_t
  exact ⟨k, r, h, rfl, by decide, by decide, by decide⟩

/-! ### 5. extended keys -/

/-- the two version tables have no integer in common -/
theorem version_tables_disjoint :
    ∀ v ∈ Generated.versionsTest.map (·.2.2), v ∉ Generated.versionsMain.map (·.2.2) := by decide

/-- **extkey_tag**: the version under which the wallet prints any node's extended key, of either
key type and whatever the node's path, is an entry of the table of the wallet's own network (and
so of no entry of the other, `version_tables_disjoint`); read back with `Version.parse` it gives
the wallet's network -/
theorem extkey_tag (w : Wallet) (nd : Node) (kt v : Nat) (h : nodeVersionInt w nd kt = some v) :
    v ∈ (if w.testnet then Generated.versionsTest else Generated.versionsMain).map (·.2.2) ∧
    ∃ ver, Version.parse v = some ver ∧ ver.testnet = w.testnet :=
  ⟨nodeVersionInt_mem h, (versionInts_parse w.testnet v (nodeVersionInt_mem h)).2⟩

/-- the default versions (`version=None`) follow the node's own flag: `tpub` / `tprv` on a testnet
node, `xpub` / `xprv` otherwise -/
theorem default_version_tag (nd : Node) :
    pubVersion nd = (if nd.testnet then 0x043587CF else 0x0488B21E) ∧
    prvVersion nd = (if nd.testnet then 0x04358394 else 0x0488ADE4) ∧
    Version.parse (pubVersion nd) = some ⟨1, 0, nd.testnet⟩ ∧
    Version.parse (prvVersion nd) = some ⟨0, 0, nd.testnet⟩ := by
  unfold pubVersion prvVersion
  cases nd.testnet <;> decide

/-- **printed_key_tag**: an extended key string printed by the wallet (`node_extended_public_key`
/ `node_extended_private_key`) is the Base58Check form of bytes whose first four are a version
of the wallet's own network -/
theorem printed_key_tag {P : Prims Pt} {w : Wallet} {nd : Node} {s : List Char}
    (h : nodeExtendedPublicKey P w nd = some s ∨ nodeExtendedPrivateKey P w nd = some s) :
    ∃ v ser ver, s = Base58.encodeCheck P.hash256 ser ∧ ser.take 4 = beFixed 4 v ∧
      beToNat (ser.take 4) = v ∧
      v ∈ (if w.testnet then Generated.versionsTest else Generated.versionsMain).map (·.2.2) ∧
      Version.parse v = some ver ∧ ver.testnet = w.testnet := by
  have key : ∃ kt v ser, nodeVersionInt w nd kt = some v ∧
      s = Base58.encodeCheck P.hash256 ser ∧ ser.take 4 = beFixed 4 v := by
    rcases h with h | h
    · unfold nodeExtendedPublicKey at h
      obtain ⟨v, hv, h⟩ := Option.bind_eq_some_iff.mp h
      obtain ⟨ser, rfl, h4, _⟩ := extendedPublicKey_version h
      exact ⟨1, v, ser, hv, rfl, h4⟩
    · unfold nodeExtendedPrivateKey at h
      split at h
      · cases h
      · obtain ⟨v, hv, h⟩ := Option.bind_eq_some_iff.mp h
        obtain ⟨ser, rfl, h4, _⟩ := extendedPrivateKey_version h
        exact ⟨0, v, ser, hv, rfl, h4⟩
  obtain ⟨kt, v, ser, hv, hs, h4⟩ := key
  have hmem := nodeVersionInt_mem hv
  obtain ⟨hlt, ver, hver, ht⟩ := versionInts_parse w.testnet v hmem
  exact ⟨v, ser, ver, hs, h4, version_of_take4 h4 hlt, hmem, hver, ht⟩

/-! ### 6. the coin type -/

/-- **coin_tag**: every path string of an account block — the account path and the path of each
row — reads back (`Bip32Path.parse`) as a path whose second level is `1'` exactly on a testnet
wallet and `0'` otherwise (purpose and account below 2^31, indexes below 2^32, as derivation
requires) -/
theorem coin_tag {P : Prims Pt} {w : Wallet} {purpose : Nat} {addr : Node → Option (List Char)}
    {acct a b : Nat} {keys : Json} {rows : List Json} (hroot : w.master.path = [])
    (hp : purpose < 2 ^ 31) (ha : acct < 2 ^ 31) (hb : b ≤ 2 ^ 32)
    (h : bipAccount P w purpose addr acct a b = some (keys, rows)) :
    (∃ s pub prv lv, keys = .obj [("path".toList, .str s), ("pub".toList, pub), ("prv".toList, prv)] ∧
      Path.parse s = some ⟨lv, true⟩ ∧
      lv[1]? = some (if w.testnet then 1 + 2 ^ 31 else 2 ^ 31)) ∧
    ∀ i, i < b - a → ∃ s ad sec wif lv, rows[i]? = some (.arr [.str s, ad, sec, wif]) ∧
      Path.parse s = some ⟨lv, true⟩ ∧
      lv[1]? = some (if w.testnet then 1 + 2 ^ 31 else 2 ^ 31) := by
  have hc : ((if w.testnet then 1 else 0) + 2 ^ 31 : Nat) = if w.testnet then 1 + 2 ^ 31 else 2 ^ 31 := by
    cases w.testnet <;> simp
  have hcl : (if w.testnet then 1 else 0) + 2 ^ 31 < 2 ^ 32 := by cases w.testnet <;> simp
  constructor
  · obtain ⟨_, pub, prv, _, _, _, hk⟩ := C06.acct_path hroot h
    refine ⟨_, _, _, _, hk, C17.parse_format (by simp) ?_, by rw [← hc]; rfl⟩
    intro i hi
    simp only [List.mem_cons, List.not_mem_nil, or_false] at hi
    rcases hi with rfl | rfl | rfl <;> omega
  · intro i hi
    obtain ⟨_, _, _, _, _, _, _, _, hr⟩ := C06.row_consistent hroot h hi
    refine ⟨_, _, _, _, _, hr, C17.parse_format (by simp) ?_, by rw [← hc]; rfl⟩
    intro x hx
    simp only [List.mem_cons, List.not_mem_nil, or_false] at hx
    rcases hx with rfl | rfl | rfl | rfl | rfl <;> omega

/-- the two coin levels differ, so a path never carries the other network's coin type -/
theorem coin_levels_differ : (1 + 2 ^ 31 : Nat) ≠ 2 ^ 31 := by decide

/-! ### 7. import -/

/-- **import_tag**: a wallet built from an extended-key string takes its network — the wallet's
flag and its master node's flag alike — from the version read in the first four payload bytes -/
theorem import_tag (P : Prims Pt) (s : List Char) (w : Wallet) (h : fromExtendedKey P s = some w) :
    ∃ payload v, Base58.decodeCheck P.hash256 s = some payload ∧
      Version.parse (beToNat (payload.take 4)) = some v ∧
      w.testnet = v.testnet ∧ w.master.testnet = v.testnet ∧
      w.master.isPrv = decide (v.keyType = 0) := by
  obtain ⟨payload, v, hd, hv, rfl⟩ := (C07.fromExtendedKey_spec P s w).mp h
  exact ⟨payload, v, hd, hv, rfl, rfl, rfl⟩

/-- for each of the twelve versions, the network `Version.parse` reads is that of the table the
version stands in: t/u/v-pub/prv are testnet, x/y/z-pub/prv are mainnet -/
theorem version_network_table :
    (∀ v ∈ Generated.versionsTest.map (·.2.2), (Version.parse v).map (·.testnet) = some true) ∧
    (∀ v ∈ Generated.versionsMain.map (·.2.2), (Version.parse v).map (·.testnet) = some false) := by
  decide

/-- **export_import_tag**: importing an extended key that a wallet printed gives a wallet on the
same network, whatever the node, key type or BIP flavour -/
theorem export_import_tag {P : Prims Pt} (hlen : ∀ x, 4 ≤ (P.hash256 x).length) {w w' : Wallet}
    {nd : Node} {s : List Char}
    (h : nodeExtendedPublicKey P w nd = some s ∨ nodeExtendedPrivateKey P w nd = some s)
    (hi : fromExtendedKey P s = some w') :
    w'.testnet = w.testnet ∧ w'.master.testnet = w.testnet := by
  obtain ⟨v, ser, ver, rfl, _, h4, _, hver, ht⟩ := printed_key_tag h
  obtain ⟨payload, v', hd, hv', e1, e2, _⟩ := import_tag P _ w' hi
  rw [C10.decodeCheck_encodeCheck _ hlen, Option.some.injEq] at hd
  subst hd
  rw [h4, hver, Option.some.injEq] at hv'
  subst hv'
  exact ⟨e1.trans ht, e2.trans ht⟩

/-- non-vacuity: the toy wallets print extended keys (public, of the master; private, of a derived
node) that `from_extended_key` accepts -/
example : (∃ s w', nodeExtendedPublicKey Toy.primsW (Toy.walletW true) (Toy.masterW true) = some s ∧
      fromExtendedKey Toy.primsW s = some w') ∧
    (∃ nd s w', nodeExtendedPrivateKey Toy.primsW (Toy.walletW false) nd = some s ∧
      fromExtendedKey Toy.primsW s = some w') := by
  constructor
  · obtain ⟨w', h⟩ := Option.isSome_iff_exists.mp Toy.export_import_toy
    obtain ⟨s, hs, hw⟩ := Option.bind_eq_some_iff.mp h
    exact ⟨s, w', hs, hw⟩
  · obtain ⟨w', h⟩ := Option.isSome_iff_exists.mp Toy.export_import_prv_toy
    obtain ⟨s, hs, hw⟩ := Option.bind_eq_some_iff.mp h
    obtain ⟨nd, _, hs⟩ := Option.bind_eq_some_iff.mp hs
    exact ⟨nd, s, w', hs, hw⟩

/-! ### 8. the Wasabi export -/

/-- **wasabi_tag**: the `ExtPubKey` of the Wasabi export is the Base58Check form of bytes starting
with the default public version of a node on the master node's network: `tpub` when the master
is a testnet node, `xpub` otherwise (for a wallet from any constructor that is the wallet's own
network, `ctor_consistent`) -/
theorem wasabi_tag {P : Prims Pt} {w : Wallet} {j : Json} (h : wasabi P w = some j) :
    ∃ nd x fp ser,
      j = .obj [("ExtPubKey".toList, .str x), ("MasterFingerprint".toList, .str fp),
                ("ColdCardFirmwareVersion".toList, .str "3.1.3".toList)] ∧
      derivePath P w.master [84 + 2 ^ 31, 2 ^ 31, 2 ^ 31] = some nd ∧
      nd.testnet = w.master.testnet ∧
      x = Base58.encodeCheck P.hash256 ser ∧
      beToNat (ser.take 4) = pubVersion nd ∧
      pubVersion nd = (if w.master.testnet then 0x043587CF else 0x0488B21E) ∧
      Version.parse (pubVersion nd) = some ⟨1, 0, w.master.testnet⟩ := by
  obtain ⟨nd, x, fp, h1, h2, _, rfl⟩ := (C06.wasabi_spec P w j).mp h
  obtain ⟨ser, rfl, h4, hlt⟩ := extendedPublicKey_version h2
  have ht := derivePath_testnet h1
  obtain ⟨d1, _, d3, _⟩ := default_version_tag nd
  refine ⟨nd, _, _, ser, rfl, h1, ht, rfl, version_of_take4 h4 hlt, ?_, ?_⟩
  · rw [d1, ht]
  · rw [d3, ht]

example (t : Bool) : ∃ j, wasabi Toy.primsW (Toy.walletW t) = some j :=
  Option.isSome_iff_exists.mp (Toy.wasabi_toy t)

end BtcHd.C16
