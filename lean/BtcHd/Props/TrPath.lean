/-
Translated Python (`BtcHd.Code`, generated from /repo by harness/translate.py) = hand-written model:
`wallet_utils.py` `Bip32Path.convert_hardened` and `Bip32Path.is_hardened`.
-/
import BtcHd.Lemmas.Translated

namespace BtcHd.Translated
open BtcHd

/-- The translated `convert_hardened` is the model's `convertHardened` on every string, the empty one
included (both give `none` there, where Python raises IndexError). -/
theorem convertHardened_eq (s : List Char) : Code.convert_hardened s = Path.convertHardened s := by
  unfold Code.convert_hardened Path.convertHardened Text.parseDec
  simp only [asciiDigits_iff]
  cases h : s.getLast? with
  | none =>
    have : s = [] := by simpa using h
    subst this
    simp
  | some c =>
    have e3 : dropLastN 1 s = s.dropLast := by simp [dropLastN, List.dropLast_eq_take]
    have hmem : (some c ∈ ([Char.ofNat 39, Char.ofNat 104]).map some) ↔ (c = '\'' ∨ c = 'h') := by
      simp
    simp only [hmem, e3]
    by_cases hc : c = '\'' ∨ c = 'h'
    · simp only [hc, decide_true, if_true]
      by_cases hd : s.dropLast ≠ [] ∧ s.dropLast.all Char.isDigit = true
      · rw [if_neg (not_not_intro hd), if_pos hd]
        by_cases hn : Text.decVal s.dropLast < 2 ^ 31
        · simp [hn]
        · simp [hn]
      · rw [if_pos hd, if_neg hd]; rfl
    · simp only [hc, decide_false, if_false, Bool.false_eq_true]
      by_cases hd : s ≠ [] ∧ s.all Char.isDigit = true
      · rw [if_neg (not_not_intro hd), if_pos hd]
        by_cases hn : Text.decVal s < 2 ^ 32
        · simp [hn]
        · simp [hn]
      · rw [if_pos hd, if_neg hd]; rfl

/-- The translated `is_hardened` tests `2 ^ 31 ≤ n`. -/
theorem isHardened_eq (n : Nat) : Code.is_hardened n = decide (2 ^ 31 ≤ n) := by
  simp [Code.is_hardened]

example : Code.convert_hardened [] = none := by decide +kernel
example : Code.convert_hardened "44'".toList = some (44 + 2 ^ 31) := by decide +kernel
example : Code.convert_hardened "0h".toList = some (2 ^ 31) := by decide +kernel
example : Code.convert_hardened "4294967295".toList = some 4294967295 := by decide +kernel
example : Code.convert_hardened "4294967296".toList = none := by decide +kernel
example : Code.convert_hardened "2147483648'".toList = none := by decide +kernel
example : Code.convert_hardened "'".toList = none := by decide +kernel
example : Code.convert_hardened "1x".toList = none := by decide +kernel
example : Code.convert_hardened ['1', Char.ofNat 0x663] = none := by decide +kernel
example : Code.is_hardened (2 ^ 31) = true := by decide +kernel
example : Code.is_hardened (2 ^ 31 - 1) = false := by decide +kernel

end BtcHd.Translated
