/-
Translated Python (`BtcHd.Code`, generated from /repo by harness/translate.py) = hand-written model:
`wallet_utils.py` `Bip32Path.convert_hardened`, `Bip32Path.is_hardened`, `list_get`, `Bip32Path.is_private`,
`Bip32Path.integrity_check` and `Bip32Path.parse` (C17).
-/
import BtcHd.Lemmas.Translated
import BtcHd.Lemmas.Path

namespace BtcHd.Translated
open BtcHd

/-- The translated `convert_hardened` is the model's `convertHardened` on every string, the empty one
included (both give `none` there, where Python raises IndexError). -/
theorem convertHardened_eq (s : List Char) : Code.convert_hardened s = Path.convertHardened s := by
  unfold Code.convert_hardened Path.convertHardened Text.parseDec
  simp only [asciiDigits_iff]
  cases h : s.getLast? with
  | none =>
    have : s = [] := by simpa using h
    subst this
    simp
  | some c =>
    have e3 : dropLastN 1 s = s.dropLast := by simp [dropLastN, List.dropLast_eq_take]
    have hmem : (some c ∈ ([Char.ofNat 39, Char.ofNat 104]).map some) ↔ (c = '\'' ∨ c = 'h') := by
      simp
    simp only [hmem, e3]
    by_cases hc : c = '\'' ∨ c = 'h'
    · simp only [hc, decide_true, if_true]
      by_cases hd : s.dropLast ≠ [] ∧ s.dropLast.all Char.isDigit = true
      · rw [if_neg (not_not_intro hd), if_pos hd]
        by_cases hn : Text.decVal s.dropLast < 2 ^ 31
        · simp [hn]
        · simp [hn]
      · rw [if_pos hd, if_neg hd]; rfl
    · simp only [hc, decide_false, if_false, Bool.false_eq_true]
      by_cases hd : s ≠ [] ∧ s.all Char.isDigit = true
      · rw [if_neg (not_not_intro hd), if_pos hd]
        by_cases hn : Text.decVal s < 2 ^ 32
        · simp [hn]
        · simp [hn]
      · rw [if_pos hd, if_neg hd]; rfl

/-- The translated `is_hardened` tests `2 ^ 31 ≤ n`. -/
theorem isHardened_eq (n : Nat) : Code.is_hardened n = decide (2 ^ 31 ≤ n) := by
  simp [Code.is_hardened]

section parser
open BtcHd.Path

theorem forIn_integrity (slots : List (Option Nat)) (nf : Bool) :
    (forIn (m := Option) slots nf fun item __s =>
        if item = none then pure (ForInStep.yield true)
        else if __s = true then (do (none : Option PUnit); pure (ForInStep.yield __s))
        else pure (ForInStep.yield __s)).isSome =
      (if nf then slots.all Option.isNone else integrity slots) := by
  induction slots generalizing nf with
  | nil => cases nf <;> rfl
  | cons a l ih =>
    rw [List.forIn_cons]
    cases a with
    | none =>
      refine Eq.trans (ih true) ?_
      cases nf <;> simp [integrity]
    | some v =>
      cases nf with
      | true => rfl
      | false =>
        refine Eq.trans (ih false) ?_
        simp [integrity]

/-- The translated `integrity_check` (on the five optional slots) is the model's `integrity`: no value after a `None`. -/
theorem integrity_check_eq (slots : List (Option Nat)) :
    Code.integrity_check slots = if integrity slots then some () else none := by
  unfold Code.integrity_check
  simp only []
  have h := forIn_integrity slots false
  simp only [Bool.false_eq_true, if_false] at h
  generalize hf : (forIn (m := Option) slots false fun item __s =>
        if item = none then pure (ForInStep.yield true)
        else if __s = true then (do (none : Option PUnit); pure (ForInStep.yield __s))
        else pure (ForInStep.yield __s)) = r at h ⊢
  cases r with
  | none => simp at h; simp [h]
  | some x => simp at h; simp [h]

/-- The translated `is_private`: exactly the mark `m`. -/
theorem is_private_eq (sign : List Char) : Code.is_private sign = decide (sign = ['m']) := by
  unfold Code.is_private
  by_cases h : sign = ['m'] <;> simp [h]

theorem code_slot (o : Option (List Char)) :
    (if o ≠ none ∧ o ≠ some [] then (do let x ← convertHardened (o.getD []); pure (some x)) else pure none
      : Option (Option Nat)) = match o with | none => some none | some c => slot c := by
  cases o with
  | none => simp
  | some c =>
    by_cases hc : c = []
    · subst hc; simp [Path.slot]
    · simp only [ne_eq, reduceCtorEq, not_false_eq_true, Option.some.injEq, hc, and_self, if_true, Option.getD_some, Path.slot,
        if_false]
      cases convertHardened c <;> rfl

theorem integrity_pad (vals : List (Option Nat)) (k : Nat) :
    integrity (vals ++ List.replicate k none) = integrity vals := by
  induction vals with
  | nil => cases k <;> simp [integrity, List.replicate]
  | cons a l ih =>
    cases a with
    | some v => simpa [integrity] using ih
    | none => simp [integrity, List.all_append]

theorem filterMap_pad (vals : List (Option Nat)) (k : Nat) :
    (vals ++ List.replicate k none).filterMap id = vals.filterMap id := by
  simp [List.filterMap_append, List.filterMap_replicate_of_none]

/-- The translated `Bip32Path.parse` (split at `/`, root mark, `list_get` at positions 1..5, `convert_hardened(x) if x
else None`, the constructor's integrity check) returns the five optional slots; keeping the non-`None` ones gives
exactly the model's `Path.parse` — on every string (K1 included: components beyond the fifth are never looked at). -/
theorem path_parse_eq (s : List Char) :
    (Code.path_parse s).map (fun r => (⟨r.1.filterMap id, r.2⟩ : Path.Path)) = Path.parse s := by
  unfold Code.path_parse Path.parse
  simp only [convertHardened_eq, integrity_check_eq, is_private_eq, Code.list_get]
  have hs : Char.ofNat 47 = '/' := rfl
  have hm : Char.ofNat 109 = 'm' := rfl
  have hM : Char.ofNat 77 = 'M' := rfl
  rw [hs, hm, hM]
  cases hsp : Text.splitOn '/' s with
  | nil => exact absurd hsp (Text.splitOn_ne_nil _ _)
  | cons root comps =>
    simp only [List.getElem!_cons_zero, List.mem_cons, List.not_mem_nil, or_false]
    by_cases hr : root = ['m'] ∨ root = ['M']
    · simp only [hr, not_true_eq_false, if_false, if_true, code_slot, List.getElem?_cons_succ]
      have hfun : (fun c => if c = [] then some none else Option.map some (convertHardened c)) = Path.slot := rfl
      rw [hfun]
      -- the five slots of the code are the model's slots of the first five components, padded with `none`
      have key : ∀ (vals : List (Option Nat)) (k : Nat) (p : Bool),
          (if integrity (vals ++ List.replicate k none) = true then some () else none : Option Unit).bind
              (fun _ => some ((⟨(vals ++ List.replicate k none).filterMap id, p⟩ : Path.Path))) =
            if integrity vals = true then some ⟨vals.filterMap id, p⟩ else none := by
        intro vals k p
        rw [integrity_pad, filterMap_pad]
        by_cases hi : integrity vals = true <;> simp [hi]
      match comps with
      | [] => (have e1 := integrity_pad [] 5; have e2 := filterMap_pad [] 5; simp only [List.replicate, List.cons_append, List.nil_append] at e1 e2; by_cases hi : integrity [] = true <;> simp [e1, hi] <;> exact e2)
      | [a] =>
        simp only [List.getElem?_cons_zero, List.getElem?_cons_succ, List.getElem?_nil, List.take, List.mapM_cons,
          List.mapM_nil]
        cases slot a with
        | none => rfl
        | some x => (have e1 := integrity_pad [x] 4; have e2 := filterMap_pad [x] 4; simp only [List.replicate, List.cons_append, List.nil_append] at e1 e2; by_cases hi : integrity [x] = true <;> simp [e1, hi] <;> exact e2)
      | [a, b] =>
        simp only [List.getElem?_cons_zero, List.getElem?_cons_succ, List.getElem?_nil, List.take, List.mapM_cons,
          List.mapM_nil]
        cases slot a with
        | none => rfl
        | some x =>
          cases slot b with
          | none => rfl
          | some y => (have e1 := integrity_pad [x, y] 3; have e2 := filterMap_pad [x, y] 3; simp only [List.replicate, List.cons_append, List.nil_append] at e1 e2; by_cases hi : integrity [x, y] = true <;> simp [e1, hi] <;> exact e2)
      | [a, b, c] =>
        simp only [List.getElem?_cons_zero, List.getElem?_cons_succ, List.getElem?_nil, List.take, List.mapM_cons,
          List.mapM_nil]
        cases slot a with
        | none => rfl
        | some x =>
          cases slot b with
          | none => rfl
          | some y =>
            cases slot c with
            | none => rfl
            | some z => (have e1 := integrity_pad [x, y, z] 2; have e2 := filterMap_pad [x, y, z] 2; simp only [List.replicate, List.cons_append, List.nil_append] at e1 e2; by_cases hi : integrity [x, y, z] = true <;> simp [e1, hi] <;> exact e2)
      | [a, b, c, d] =>
        simp only [List.getElem?_cons_zero, List.getElem?_cons_succ, List.getElem?_nil, List.take, List.mapM_cons,
          List.mapM_nil]
        cases slot a with
        | none => rfl
        | some x =>
          cases slot b with
          | none => rfl
          | some y =>
            cases slot c with
            | none => rfl
            | some z =>
              cases slot d with
              | none => rfl
              | some u => (have e1 := integrity_pad [x, y, z, u] 1; have e2 := filterMap_pad [x, y, z, u] 1; simp only [List.replicate, List.cons_append, List.nil_append] at e1 e2; by_cases hi : integrity [x, y, z, u] = true <;> simp [e1, hi] <;> exact e2)
      | a :: b :: c :: d :: e :: rest =>
        simp only [List.getElem?_cons_zero, List.getElem?_cons_succ, List.take, List.mapM_cons, List.mapM_nil]
        cases slot a with
        | none => rfl
        | some x =>
          cases slot b with
          | none => rfl
          | some y =>
            cases slot c with
            | none => rfl
            | some z =>
              cases slot d with
              | none => rfl
              | some u =>
                cases slot e with
                | none => rfl
                | some w => (have e1 := integrity_pad [x, y, z, u, w] 0; have e2 := filterMap_pad [x, y, z, u, w] 0; simp only [List.replicate, List.cons_append, List.nil_append] at e1 e2; by_cases hi : integrity [x, y, z, u, w] = true <;> simp [e1, hi] <;> exact e2)
    · simp [hr]

end parser

example : (Code.path_parse "m/44'/0'/0'/0/7".toList).map (·.1.filterMap id) = some [2147483692, 2147483648, 2147483648, 0, 7] := by
  decide +kernel
example : Code.path_parse "m/0//1".toList = none := by decide +kernel
example : Code.path_parse "x/0".toList = none := by decide +kernel

example : Code.convert_hardened [] = none := by decide +kernel
example : Code.convert_hardened "44'".toList = some (44 + 2 ^ 31) := by decide +kernel
example : Code.convert_hardened "0h".toList = some (2 ^ 31) := by decide +kernel
example : Code.convert_hardened "4294967295".toList = some 4294967295 := by decide +kernel
example : Code.convert_hardened "4294967296".toList = none := by decide +kernel
example : Code.convert_hardened "2147483648'".toList = none := by decide +kernel
example : Code.convert_hardened "'".toList = none := by decide +kernel
example : Code.convert_hardened "1x".toList = none := by decide +kernel
example : Code.convert_hardened ['1', Char.ofNat 0x663] = none := by decide +kernel
example : Code.is_hardened (2 ^ 31) = true := by decide +kernel
example : Code.is_hardened (2 ^ 31 - 1) = false := by decide +kernel

end BtcHd.Translated
