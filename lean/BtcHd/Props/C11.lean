/-
C11 (codec half) — Bech32 / Bech32m segwit addresses round-trip, use the right
checksum constant for the witness version, and the decoder applies every
syntactic rejection rule of BIP 173 / BIP 350.

Property theorems only (helper lemmas are in `Lemmas/Bech32.lean`).  The model
(`Model/Bech32.lean`) mirrors all of `bech32.py`; `none` stands for both a
`None` result and an exception.  The error-detection half of C11 (BCH distance)
lives elsewhere.
-/
import BtcHd.Lemmas.Bech32

namespace BtcHd.C11
open BtcHd Bech32 Digits

/-! ### 1. constants -/

/-- the character set in the source is the BIP 173 one -/
theorem charset_is_bip173 : charset = "qpzry9x8gf2tvdw0s3jn54khce6mua7l".toList := by decide

/-- 32 distinct characters, no separator `1`, none of the look-alikes `b i o`, and only
lower-case letters and digits -/
theorem charset_wellformed :
    charset.length = 32 ∧ charset.Nodup ∧ '1' ∉ charset ∧ 'b' ∉ charset ∧ 'i' ∉ charset ∧
      'o' ∉ charset ∧ ∀ c ∈ charset, ('a' ≤ c ∧ c ≤ 'z') ∨ ('0' ≤ c ∧ c ≤ '9') := by decide

/-- the Bech32m constant and the five generator words are those of BIP 350 / BIP 173 -/
theorem consts :
    bech32mConst = 0x2bc830a3 ∧
      Generated.polymodGen = [0x3b6a57b2, 0x26508e6d, 0x1ea119fa, 0x3d4233dd, 0x2a1462b3] := by
  decide

/-- the two checksum constants differ, so a valid string has exactly one encoding -/
theorem consts_distinct : constOf .bech32 ≠ constOf .bech32m := by decide

/-! ### 2. one step of the checksum register -/

/-- the symbol fed into a step is simply XOR-ed into the result -/
theorem polymodStep_xor (c v : Nat) : polymodStep c v = polymodStep c 0 ^^^ v :=
  Bech32.polymodStep_xor c v

/-- the checksum register stays within 30 bits -/
theorem polymodStep_lt {c v : Nat} (_hc : c < 2 ^ 30) (hv : v < 2 ^ 30) : polymodStep c v < 2 ^ 30 :=
  Bech32.polymodStep_lt hv

example : (1 : Nat) < 2 ^ 30 ∧ (31 : Nat) < 2 ^ 30 := by decide

/-- XOR-ing a 25-bit value into the register before a step equals XOR-ing its 5-bit shift after
the step (no feedback term is affected) -/
theorem polymodStep_xor_low {c d : Nat} (v : Nat) (hd : d < 2 ^ 25) :
    polymodStep (c ^^^ d) v = polymodStep c v ^^^ (d <<< 5) :=
  Bech32.polymodStep_xor_low v hd

example : (0x1ffffff : Nat) < 2 ^ 25 := by decide

/-! ### 3. the checksum verifies -/

/-- the checksum consists of six 5-bit symbols -/
theorem createChecksum_symbols (hrp : List Char) (data : List Nat) (spec : Encoding) :
    (createChecksum hrp data spec).length = 6 ∧ ∀ d ∈ createChecksum hrp data spec, d < 32 :=
  ⟨createChecksum_length hrp data spec, createChecksum_lt hrp data spec⟩

/-- appending the created checksum makes the checksum polynomial equal the constant of the
chosen encoding (for any prefix, even a non-ASCII one) -/
theorem checksum_polymod (hrp : List Char) (data : List Nat) (spec : Encoding)
    (hd : ∀ d ∈ data, d < 32) :
    polymod (hrpExpand hrp ++ (data ++ createChecksum hrp data spec)) = constOf spec :=
  polymod_checksum hrp data spec hd

/-- data followed by its created checksum verifies, and verifies as the encoding it was created
for (Bech32 and Bech32m alike) -/
theorem checksum_valid (hrp : List Char) (data : List Nat) (spec : Encoding)
    (hd : ∀ d ∈ data, d < 32) :
    verifyChecksum hrp (data ++ createChecksum hrp data spec) = some spec :=
  Bech32.checksum_valid hrp data spec hd

example : ∀ d ∈ [0, 14, 20, 15, 7, 13, 26, 0, 25, 18, 6, 11, 13, 8, 21, 4, 20, 3, 17, 2, 29, 3], d < 32 := by
  decide

/-! ### 4. regrouping bits -/

/-- regrouping bytes into 5-bit symbols (zero-padded) and back (no padding) is the identity, for
every byte string; the symbol count is `⌈8·len / 5⌉` -/
theorem convertbits_8_5_5_8 (bs : Bytes) :
    ∃ five, convertbits (bs.map (·.toNat)) 8 5 true = some five ∧ (∀ d ∈ five, d < 32) ∧
      five.length = (bs.length * 8 + 4) / 5 ∧
      convertbits five 5 8 false = some (bs.map (·.toNat)) :=
  Bech32.convertbits_8_5_5_8 bs

/-- in terms of the loop's final state `(acc, bits, _)`: 5 or more left-over bits, or left-over
bits that are not all zero, make the un-padded 5→8 regrouping fail -/
theorem convertbits_rejects_padding (data : List Nat) (hd : ∀ d ∈ data, d < 32) :
    let st := data.foldl (convStep 5 8) (0, 0, [])
    (st.2.1 ≥ 5 ∨ (st.1 <<< (8 - st.2.1)) &&& 255 ≠ 0) → convertbits data 5 8 false = none := by
  intro st h
  rw [convertbits_of_lt (f := 5) 8 false hd]
  simp only [Bool.false_eq_true, if_false]
  exact if_pos h

/-- the same rule without reference to the loop state: the result is `none` exactly when the number
of left-over bits `5·n mod 8` is 5 or more, or the left-over low bits of the last symbol are not
all zero -/
theorem convertbits_rejects_padding_iff (data : List Nat) (hd : ∀ d ∈ data, d < 32) :
    convertbits data 5 8 false = none ↔
      (data.length * 5 % 8 ≥ 5 ∨
        ∃ d, data.getLast? = some d ∧ d % 2 ^ (data.length * 5 % 8) ≠ 0) :=
  convertbits_5_8_none_iff_last data hd

-- over-long padding (one symbol = 5 left-over bits) and non-zero padding (low bit of `1`, 2 left-over bits)
example : convertbits [0] 5 8 false = none ∧ convertbits [31, 1] 5 8 false = none := by decide

/-- a symbol outside 0..31 makes the 5→8 regrouping fail -/
theorem convertbits_rejects_big_symbol (data : List Nat) (pad : Bool) {d : Nat} (hd : d ∈ data)
    (h : 32 ≤ d) : convertbits data 5 8 pad = none := by
  unfold convertbits
  rw [if_pos]
  refine List.any_eq_true.mpr ⟨d, hd, ?_⟩
  have : d >>> 5 ≠ 0 := by rw [Nat.shiftRight_eq_div_pow]; omega
  simpa using this

example : (32 : Nat) ∈ [1, 32] ∧ 32 ≤ 32 := by decide

/-! ### 5. `encode` / `decode` round trip -/

/-- the inputs for which a segwit address exists: witness version 0–16, program of 2–40 bytes
(20 or 32 for version 0), a non-empty prefix of printable ASCII without upper-case letters, and a
total length of at most 90 characters (prefix, separator, version symbol, program symbols, six
checksum symbols) -/
def Legal (hrp : List Char) (v : Nat) (prog : Bytes) : Prop :=
  v ≤ 16 ∧ 2 ≤ prog.length ∧ prog.length ≤ 40 ∧ (v = 0 → prog.length = 20 ∨ prog.length = 32) ∧
    hrp ≠ [] ∧ (∀ c ∈ hrp, 33 ≤ c.toNat ∧ c.toNat ≤ 126 ∧ isUpperAscii c = false) ∧
    hrp.length + 1 + (1 + (prog.length * 8 + 4) / 5 + 6) ≤ 90

instance (hrp : List Char) (v : Nat) (prog : Bytes) : Decidable (Legal hrp v prog) := by
  unfold Legal; infer_instance

/-- the checksum constant belonging to a witness version: Bech32 for 0, Bech32m otherwise -/
def specFor (v : Nat) : Encoding := if v = 0 then .bech32 else .bech32m

/-- every legal (prefix, version, program) is encoded, and the address decodes back to the same
version and program -/
theorem encode_decode {hrp : List Char} {v : Nat} {prog : Bytes} (h : Legal hrp v prog) :
    ∃ s, encode hrp v prog = some s ∧ decode hrp s = some (v, prog.map (·.toNat)) := by
  obtain ⟨hv, h2, h40, h0, hne, hh, h90⟩ := h
  obtain ⟨s, _, h1, _, h3⟩ := encode_of_legal hv h2 h40 h0 hne hh h90
  exact ⟨s, h1, h3⟩

example : Legal "bc".toList 0 (List.replicate 20 7) ∧ Legal "tb".toList 1 (List.replicate 32 255) ∧
    Legal "bc".toList 16 [1, 2] ∧ Legal "a1b".toList 2 (List.replicate 40 0) := by decide

/-- an illegal combination — bad version, bad program length, bad prefix or an over-long result —
yields no address -/
theorem encode_none_of_illegal {hrp : List Char} {v : Nat} {prog : Bytes} (h : ¬ Legal hrp v prog) :
    encode hrp v prog = none := by
  cases he : encode hrp v prog with
  | none => rfl
  | some s => exact absurd (legal_of_encode_some he).1 h

example : ¬ Legal "bc".toList 17 (List.replicate 20 0) ∧ ¬ Legal "bc".toList 0 (List.replicate 21 0) ∧
    ¬ Legal "bc".toList 1 [0] ∧ ¬ Legal "bc".toList 1 (List.replicate 41 0) ∧
    ¬ Legal "Bc".toList 1 (List.replicate 20 0) ∧ ¬ Legal [] 1 (List.replicate 20 0) := by decide

/-- `encode` succeeds exactly on the legal inputs -/
theorem encode_isSome_iff (hrp : List Char) (v : Nat) (prog : Bytes) :
    (encode hrp v prog).isSome ↔ Legal hrp v prog := by
  constructor
  · intro h
    obtain ⟨s, hs⟩ := Option.isSome_iff_exists.mp h
    exact (legal_of_encode_some hs).1
  · intro h
    obtain ⟨s, hs, _⟩ := encode_decode h
    rw [hs]; rfl

/-- version above 16 ⇒ no address -/
theorem encode_none_of_version {hrp : List Char} {v : Nat} {prog : Bytes} (h : 16 < v) :
    encode hrp v prog = none :=
  encode_none_of_illegal (fun hl => by have := hl.1; omega)

/-- version 0 with a program that is neither 20 nor 32 bytes ⇒ no address -/
theorem encode_none_of_v0_length {hrp : List Char} {prog : Bytes} (h20 : prog.length ≠ 20)
    (h32 : prog.length ≠ 32) : encode hrp 0 prog = none :=
  encode_none_of_illegal (fun hl => by have := hl.2.2.2.1 rfl; omega)

/-- program shorter than 2 or longer than 40 bytes ⇒ no address -/
theorem encode_none_of_length {hrp : List Char} {v : Nat} {prog : Bytes}
    (h : prog.length < 2 ∨ 40 < prog.length) : encode hrp v prog = none :=
  encode_none_of_illegal (fun hl => by have := hl.2.1; have := hl.2.2.1; omega)

example : (17 : Nat) > 16 ∧ ([1, 2, 3] : Bytes).length ≠ 20 ∧ ([1, 2, 3] : Bytes).length ≠ 32 ∧
    (([1] : Bytes).length < 2 ∨ 40 < ([1] : Bytes).length) := by decide

/-- whatever `encode` returns is accepted by `decode` -/
theorem encode_some_decodes {hrp : List Char} {v : Nat} {prog : Bytes} {s : List Char}
    (h : encode hrp v prog = some s) : decode hrp s ≠ none := by
  rw [(legal_of_encode_some h).2.1]; exact Option.some_ne_none _

/-- whatever `encode` returns decodes back to exactly the version and program that went in -/
theorem encode_some_roundtrip {hrp : List Char} {v : Nat} {prog : Bytes} {s : List Char}
    (h : encode hrp v prog = some s) : decode hrp s = some (v, prog.map (·.toNat)) :=
  (legal_of_encode_some h).2.1

private def progEx : Bytes :=
  [0x75, 0x1e, 0x76, 0xe8, 0x19, 0x91, 0x96, 0xd4, 0x54, 0x94, 0x1c, 0x45, 0xd1, 0xb3, 0xa3, 0x23,
    0xf1, 0x43, 0x3b, 0xd6]

-- the BIP 173 test vector
example : encode "bc".toList 0 progEx = some "bc1qw508d6qejxtdg4y5r3zarvary0c5xw7kv8f3t4".toList := by
  decide +kernel

/-- `encode` is injective in (version, program) for a fixed prefix -/
theorem encode_injective {hrp : List Char} {v v' : Nat} {prog prog' : Bytes} {s : List Char}
    (h : encode hrp v prog = some s) (h' : encode hrp v' prog' = some s) : v = v' ∧ prog = prog' := by
  have e := (encode_some_roundtrip h).symm.trans (encode_some_roundtrip h')
  simp only [Option.some.injEq, Prod.mk.injEq] at e
  refine ⟨e.1, ?_⟩
  exact List.map_injective_iff.mpr (fun a b hab => UInt8.toNat_inj.mp hab) e.2

/-! ### 6. the checksum constant follows the witness version -/

/-- an address produced by `encode` parses as a Bech32 string for version 0 and as a Bech32m
string for versions 1–16 (its data part verifies against constant 1, resp. `0x2bc830a3`), with
the given prefix and the version as first data symbol -/
theorem encode_constant {hrp : List Char} {v : Nat} {prog : Bytes} {s : List Char}
    (h : encode hrp v prog = some s) :
    ∃ five, bech32Decode s = some (hrp, v :: five, specFor v) := by
  obtain ⟨five, h5⟩ := (legal_of_encode_some h).2.2
  exact ⟨five, h5⟩

/-- … and therefore the whole symbol string of the address has checksum polynomial 1 for version 0
and `bech32mConst` for versions 1–16 -/
theorem encode_constant_polymod {hrp : List Char} {v : Nat} {prog : Bytes} {s : List Char}
    (h : encode hrp v prog = some s) :
    ∃ syms, s = hrp ++ '1' :: syms.map chr ∧ (∀ d ∈ syms, d < 32) ∧
      polymod (hrpExpand hrp ++ syms) = (if v = 0 then 1 else bech32mConst) := by
  obtain ⟨five, _, hlt, _, _, hv, hs, _⟩ := encode_some_inv h
  have hd : ∀ d ∈ v :: five, d < 32 := by
    intro d hd
    rcases List.mem_cons.mp hd with rfl | hd
    · exact hv
    · exact hlt d hd
  refine ⟨_, hs, ?_, ?_⟩
  · intro d hd'
    rcases List.mem_append.mp hd' with hd' | hd'
    · exact hd d hd'
    · exact createChecksum_lt _ _ _ d hd'
  · rw [polymod_checksum _ _ _ hd]
    unfold specOf
    split <;> rfl

/-! ### 7. rejection rules of the decoder -/

/-- everything `bech32Decode` checks, read off a successful result -/
theorem bech32Decode_sound {s hrp : List Char} {data : List Nat} {spec : Encoding}
    (h : bech32Decode s = some (hrp, data, spec)) :
    (∀ c ∈ s, 33 ≤ c.toNat ∧ c.toNat ≤ 126) ∧
    ¬(s.any isUpperAscii = true ∧ s.any isLowerAscii = true) ∧ s.length ≤ 90 ∧
    ∃ dp, s.map toLowerAscii = hrp ++ '1' :: dp ∧ '1' ∉ dp ∧ hrp ≠ [] ∧ 6 ≤ dp.length ∧
      (∀ c ∈ dp, c ∈ charset) ∧ verifyChecksum hrp (dp.map (charset.idxOf ·)) = some spec ∧
      data = dropLastN 6 (dp.map (charset.idxOf ·)) :=
  bech32Decode_inv h

/-- everything `decode` checks, read off a successful result -/
theorem decode_sound {hrp s : List Char} {v : Nat} {prog : List Nat}
    (h : decode hrp s = some (v, prog)) :
    ∃ data spec, bech32Decode s = some (hrp, v :: data, spec) ∧
      convertbits data 5 8 false = some prog ∧ 2 ≤ prog.length ∧ prog.length ≤ 40 ∧ v ≤ 16 ∧
      (v = 0 → prog.length = 20 ∨ prog.length = 32) ∧ spec = specFor v := by
  obtain ⟨data, spec, h1, h2, h3, h4, h5, h6, h7, h8⟩ := decode_eq_some_iff.mp h
  refine ⟨data, spec, h1, h2, h3, h4, h5, h6, ?_⟩
  unfold specFor
  split
  · next e => exact h7 e
  · next e => exact h8 e

-- the upper-case BIP 173 vector is accepted under the lower-case prefix
example : decode "bc".toList "BC1QW508D6QEJXTDG4Y5R3ZARVARY0C5XW7KV8F3T4".toList
    = some (0, progEx.map (·.toNat)) := by decide +kernel

private theorem decode_none_of {hrp s : List Char}
    (h : ∀ hrp' data spec, bech32Decode s ≠ some (hrp', data, spec)) : decode hrp s = none := by
  apply decode_eq_none_of_bech32Decode_none
  cases hb : bech32Decode s with
  | none => rfl
  | some r => exact absurd hb (h r.1 r.2.1 r.2.2)

/-- a string with both an upper-case and a lower-case letter is rejected -/
theorem decode_rejects_mixed_case {hrp s : List Char} (hu : s.any isUpperAscii = true)
    (hl : s.any isLowerAscii = true) : decode hrp s = none :=
  decode_none_of fun _ _ _ hb => (bech32Decode_inv hb).2.1 ⟨hu, hl⟩

example : let s := "bc1qw508d6qejxtdg4y5r3zarvary0c5xw7kv8f3T4".toList
    s.any isUpperAscii = true ∧ s.any isLowerAscii = true := by decide

/-- a string of more than 90 characters is rejected -/
theorem decode_rejects_long {hrp s : List Char} (h : s.length > 90) : decode hrp s = none :=
  decode_none_of fun _ _ _ hb => by have := (bech32Decode_inv hb).2.2.1; omega

example : (List.replicate 91 'q').length > 90 := by decide

/-- a character outside printable ASCII (33..126) anywhere in the string is rejected -/
theorem decode_rejects_nonprintable {hrp s : List Char} {c : Char} (hc : c ∈ s)
    (h : c.toNat < 33 ∨ 126 < c.toNat) : decode hrp s = none :=
  decode_none_of fun _ _ _ hb => by have := (bech32Decode_inv hb).1 c hc; omega

example : ' ' ∈ "bc1 q".toList ∧ (' ' : Char).toNat < 33 := by decide

/-- a well-formed string whose prefix is not the expected one is rejected -/
theorem decode_rejects_other_hrp {hrp hrp' s : List Char} {data : List Nat} {spec : Encoding}
    (hb : bech32Decode s = some (hrp', data, spec)) (hne : hrp' ≠ hrp) : decode hrp s = none := by
  unfold decode
  simp only [hb]
  rw [if_pos hne]

example : (bech32Decode "tb1qw508d6qejxtdg4y5r3zarvary0c5xw7kxpjzsx".toList).map (·.1) = some "tb".toList ∧
    "tb".toList ≠ "bc".toList := by decide +kernel

/-- version 0 with the Bech32m constant, or a non-zero version with the Bech32 constant, is
rejected -/
theorem decode_rejects_wrong_const {hrp hrp' s : List Char} {v : Nat} {data : List Nat}
    {spec : Encoding} (hb : bech32Decode s = some (hrp', v :: data, spec))
    (h : (v = 0 ∧ spec = .bech32m) ∨ (v ≠ 0 ∧ spec = .bech32)) : decode hrp s = none := by
  cases hd : decode hrp s with
  | none => rfl
  | some r =>
    obtain ⟨data', spec', h1, _, _, _, _, _, h7, h8⟩ := decode_eq_some_iff.mp (show decode hrp s = some (r.1, r.2) from hd)
    rw [hb] at h1
    simp only [Option.some.injEq, Prod.mk.injEq, List.cons.injEq] at h1
    obtain ⟨_, ⟨hv, _⟩, hs⟩ := h1
    subst hv hs
    rcases h with ⟨e, hs⟩ | ⟨e, hs⟩
    · have := h7 e; rw [hs] at this; cases this
    · have := h8 e; rw [hs] at this; cases this

-- BIP 350 invalid vectors: a v1 program with a Bech32 checksum, a v0 program with a Bech32m checksum
example :
    (bech32Decode "bc1p0xlxvlhemja6c4dqv22uapctqupfhlxm9h8z3k2e72q4k9hcz7vqh2y7hd".toList).map
        (fun r => (r.2.1.head?, r.2.2)) = some (some 1, .bech32) ∧
    (bech32Decode "bc1qw508d6qejxtdg4y5r3zarvary0c5xw7kemeawh".toList).map
        (fun r => (r.2.1.head?, r.2.2)) = some (some 0, .bech32m) := by decide +kernel

/-- a character after the last `1` that is not in the character set (after lower-casing) is
rejected -/
theorem decode_rejects_bad_char {hrp pre dp : List Char} {c : Char} (hn : '1' ∉ dp) (hc : c ∈ dp)
    (hbad : toLowerAscii c ∉ charset) : decode hrp (pre ++ '1' :: dp) = none :=
  decode_none_of fun hrp' _ _ hb => by
    obtain ⟨_, _, _, dp', hs, hn', _, _, hall, _, _⟩ := bech32Decode_inv hb
    have hn2 : '1' ∉ dp.map toLowerAscii := by
      intro hm
      obtain ⟨x, hx, e⟩ := List.mem_map.mp hm
      exact hn (toLowerAscii_eq_one.mp e ▸ hx)
    rw [List.map_append, List.map_cons, toLowerAscii_eq_one.mpr rfl] at hs
    -- both sides split the same string at its last `1`
    have h1 := rfindOne_split (pre := pre.map toLowerAscii) hn2
    rw [hs, rfindOne_split hn'] at h1
    have hlen : hrp'.length = (pre.map toLowerAscii).length := Option.some.inj h1
    have := (List.append_inj hs hlen.symm).2
    simp only [List.cons.injEq, true_and] at this
    exact hbad (hall _ (this ▸ List.mem_map_of_mem hc))

example : '1' ∉ "qqqqqbq".toList ∧ 'b' ∈ "qqqqqbq".toList ∧ toLowerAscii 'b' ∉ charset := by decide

/-- a string without the separator `1` is rejected -/
theorem decode_rejects_no_separator {hrp s : List Char} (h : '1' ∉ s) : decode hrp s = none :=
  decode_none_of fun hrp' _ _ hb => by
    obtain ⟨_, _, _, dp, hs, _⟩ := bech32Decode_inv hb
    have : '1' ∈ s.map toLowerAscii := by rw [hs]; simp
    obtain ⟨x, hx, e⟩ := List.mem_map.mp this
    exact h (toLowerAscii_eq_one.mp e ▸ hx)

example : '1' ∉ "bcqw508d6qejxtdg4y5r3zarvary0c5xw7kv8f3t4".toList := by decide

/-- an empty prefix (the only `1` is the first character) is rejected -/
theorem decode_rejects_empty_hrp {hrp dp : List Char} (hn : '1' ∉ dp) :
    decode hrp ('1' :: dp) = none :=
  decode_none_of fun hrp' _ _ hb => by
    obtain ⟨_, _, _, dp', hs, hn', hne, _⟩ := bech32Decode_inv hb
    have hn2 : '1' ∉ dp.map toLowerAscii := by
      intro hm
      obtain ⟨x, hx, e⟩ := List.mem_map.mp hm
      exact hn (toLowerAscii_eq_one.mp e ▸ hx)
    rw [List.map_cons, toLowerAscii_eq_one.mpr rfl] at hs
    have h1 := rfindOne_split (pre := []) hn2
    rw [List.nil_append, hs, rfindOne_split hn'] at h1
    exact hne (List.length_eq_zero_iff.mp (Option.some.inj h1))

example : '1' ∉ "qqqqqqq".toList := by decide

/-- fewer than six symbols after the last `1` (no room for the checksum) is rejected -/
theorem decode_rejects_short_checksum {hrp pre dp : List Char} (hn : '1' ∉ dp) (h : dp.length < 6) :
    decode hrp (pre ++ '1' :: dp) = none :=
  decode_none_of fun hrp' _ _ hb => by
    obtain ⟨_, _, _, dp', hs, hn', _, h6, _⟩ := bech32Decode_inv hb
    have hn2 : '1' ∉ dp.map toLowerAscii := by
      intro hm
      obtain ⟨x, hx, e⟩ := List.mem_map.mp hm
      exact hn (toLowerAscii_eq_one.mp e ▸ hx)
    rw [List.map_append, List.map_cons, toLowerAscii_eq_one.mpr rfl] at hs
    have h1 := rfindOne_split (pre := pre.map toLowerAscii) hn2
    rw [hs, rfindOne_split hn'] at h1
    have hlen : hrp'.length = (pre.map toLowerAscii).length := Option.some.inj h1
    have := congrArg List.length hs
    simp only [List.length_append, List.length_cons, List.length_map] at this hlen
    omega

example : '1' ∉ "qqqqq".toList ∧ "qqqqq".toList.length < 6 := by decide

/-- a string whose data symbols do not verify against either checksum constant is rejected -/
theorem decode_rejects_bad_checksum {hrp pre dp : List Char} (hn : '1' ∉ dp)
    (h : verifyChecksum (pre.map toLowerAscii) ((dp.map toLowerAscii).map (charset.idxOf ·)) = none) :
    decode hrp (pre ++ '1' :: dp) = none :=
  decode_none_of fun hrp' _ _ hb => by
    obtain ⟨_, _, _, dp', hs, hn', _, _, _, hv, _⟩ := bech32Decode_inv hb
    have hn2 : '1' ∉ dp.map toLowerAscii := by
      intro hm
      obtain ⟨x, hx, e⟩ := List.mem_map.mp hm
      exact hn (toLowerAscii_eq_one.mp e ▸ hx)
    rw [List.map_append, List.map_cons, toLowerAscii_eq_one.mpr rfl] at hs
    have h1 := rfindOne_split (pre := pre.map toLowerAscii) hn2
    rw [hs, rfindOne_split hn'] at h1
    have hlen : hrp'.length = (pre.map toLowerAscii).length := Option.some.inj h1
    obtain ⟨e1, e2⟩ := List.append_inj hs hlen.symm
    simp only [List.cons.injEq, true_and] at e2
    rw [e1, e2, hv] at h
    cases h

-- BIP 173 invalid vector: last character changed
example : '1' ∉ "qw508d6qejxtdg4y5r3zarvary0c5xw7kv8f3t5".toList ∧
    verifyChecksum ("bc".toList.map toLowerAscii)
      (("qw508d6qejxtdg4y5r3zarvary0c5xw7kv8f3t5".toList.map toLowerAscii).map (charset.idxOf ·)) = none := by
  decide +kernel

/-- non-zero or over-long padding in the program symbols (the 5→8 regrouping fails) is rejected -/
theorem decode_rejects_padding {hrp hrp' s : List Char} {data : List Nat} {spec : Encoding}
    (hb : bech32Decode s = some (hrp', data, spec))
    (h : convertbits (data.drop 1) 5 8 false = none) : decode hrp s = none := by
  unfold decode
  simp only [hb, h]
  split <;> rfl

-- BIP 173 invalid vectors: zero padding of more than 4 bits, non-zero padding in 8-to-5 conversion
example :
    (bech32Decode "bc1zw508d6qejxtdg4y5r3zarvaryvqyzf3du".toList).map
        (fun r => convertbits (r.2.1.drop 1) 5 8 false) = some none ∧
    (bech32Decode "tb1qrp33g0q5c5txsp9arysrx4k6zdkfs4nce4xj0gdcccefvpysxf3pjxtptv".toList).map
        (fun r => convertbits (r.2.1.drop 1) 5 8 false) = some none := by decide +kernel

/-- a witness version above 16 is rejected -/
theorem decode_rejects_version {hrp hrp' s : List Char} {v : Nat} {data : List Nat} {spec : Encoding}
    (hb : bech32Decode s = some (hrp', v :: data, spec)) (h : 16 < v) : decode hrp s = none := by
  cases hd : decode hrp s with
  | none => rfl
  | some r =>
    obtain ⟨data', spec', h1, _, _, _, h16, _⟩ :=
      decode_eq_some_iff.mp (show decode hrp s = some (r.1, r.2) from hd)
    rw [hb] at h1
    simp only [Option.some.injEq, Prod.mk.injEq, List.cons.injEq] at h1
    omega

-- BIP 173 invalid vector: witness version 17
example : (bech32Decode "BC13W508D6QEJXTDG4Y5R3ZARVARY0C5XW7KN40WF2".toList).map (fun r => r.2.1.head?)
    = some (some 17) := by decide +kernel

/-- a program shorter than 2 or longer than 40 bytes is rejected -/
theorem decode_rejects_length {hrp hrp' s : List Char} {data prog : List Nat} {spec : Encoding}
    (hb : bech32Decode s = some (hrp', data, spec))
    (hc : convertbits (data.drop 1) 5 8 false = some prog)
    (h : prog.length < 2 ∨ 40 < prog.length) : decode hrp s = none := by
  unfold decode
  simp only [hb, hc]
  rw [if_pos h]
  exact ite_self _

-- BIP 173 invalid vector: program of 1 byte
example : (bech32Decode "bc1rw5uspcuh".toList).map
    (fun r => (convertbits (r.2.1.drop 1) 5 8 false).map List.length) = some (some 1) := by
  decide +kernel

/-- a version-0 program that is neither 20 nor 32 bytes long is rejected -/
theorem decode_rejects_v0_length {hrp hrp' s : List Char} {data prog : List Nat} {spec : Encoding}
    (hb : bech32Decode s = some (hrp', 0 :: data, spec))
    (hc : convertbits data 5 8 false = some prog) (h20 : prog.length ≠ 20) (h32 : prog.length ≠ 32) :
    decode hrp s = none := by
  cases hd : decode hrp s with
  | none => rfl
  | some r =>
    obtain ⟨data', spec', h1, h2, _, _, _, h0, _⟩ :=
      decode_eq_some_iff.mp (show decode hrp s = some (r.1, r.2) from hd)
    rw [hb] at h1
    simp only [Option.some.injEq, Prod.mk.injEq, List.cons.injEq] at h1
    obtain ⟨_, ⟨hv, hdd⟩, _⟩ := h1
    subst hdd
    rw [hc] at h2
    have := Option.some.inj h2
    subst this
    rcases h0 hv.symm with h | h
    · exact absurd h h20
    · exact absurd h h32

-- BIP 173 invalid vector: version 0 with a 16-byte program
example : (bech32Decode "BC1QR508D6QEJXTDG4Y5R3ZARVARYV98GJ9P".toList).map
    (fun r => (r.2.1.head?, (convertbits (r.2.1.drop 1) 5 8 false).map List.length))
    = some (some 0, some 16) := by decide +kernel

end BtcHd.C11
