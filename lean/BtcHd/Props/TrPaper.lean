/-
Translated Python (`BtcHd.CodeObj3`, generated from /repo by harness/translate_obj3.py) = hand-written model:
`bip85.py` (`_hmac_sha512`, `entropy`, `correct_key`, `correct_index`, the five applications) and `paper_wallet.py`
(`group`, `bip44/49/84_group`, `bip44/49/84`, `bip85_data`, `master_data`, `generate`).
The tables the translator uses are stated in the header of harness/translate_obj3.py.
-/
import BtcHd.Generated.CodeObj3
import BtcHd.Props.TrWallet
import BtcHd.Lemmas.Cli

namespace BtcHd.TrPaper
open BtcHd BtcHd.Translated BtcHd.TrBip32 BtcHd.TrWallet Bip32 Keys Wallet

variable {Pt : Type}

/-- `entropy(path)`: HMAC-SHA512 under the key literal of the class body over the private key at the parsed path -/
theorem entropy_eq (P : Prims Pt) (m : Node) (path : List Char) :
    CodeObj3.b85_entropy P m path = Bip85.entropy P m path := by
  unfold CodeObj3.b85_entropy Bip85.entropy CodeObj3.b85_hmac
  have hk : ([98, 105, 112, 45, 101, 110, 116, 114, 111, 112, 121, 45, 102, 114, 111, 109, 45, 107] : Bytes) =
      Generated.bip85Key := by decide
  simp only [hk, derive_path_eq, private_key_eq, (hashes_eq P _ _).2.2.2]
  cases Path.parse path with
  | none => rfl
  | some p =>
    simp only [Option.pure_def, Option.bind_eq_bind, Option.bind_some]
    cases derivePath P m p.levels with
    | none => rfl
    | some nd => simp; cases prvKey P nd <;> rfl

/-- `correct_key`: refuses 0 and values ≥ n; `correct_index` accepts every integer -/
theorem correct_key_eq (P : Prims Pt) (kb : Bytes) (i : Int) :
    CodeObj3.b85_correct_key P kb = (if Bip85.correctKey P kb then some () else none) ∧
      CodeObj3.b85_correct_index i = some () := by
  refine ⟨?_, rfl⟩
  unfold CodeObj3.b85_correct_key Bip85.correctKey
  show (do
      if beToNat kb = 0 then none
      if beToNat kb ≥ P.curve.n then none
      return ()) = _
  by_cases h0 : beToNat kb = 0
  · simp [h0]
  · by_cases hn : beToNat kb ≥ P.curve.n
    · simp [h0, hn]
    · simp [h0, hn]


private theorem wc_eq (wc : Int) :
    (if wc < 0 then none else Code.byte_count_from_word_count wc.toNat) = Bip85.byteCountFromWordCount wc := by
  by_cases h : wc < 0
  · have : ¬ (0 ≤ wc) := by omega
    simp [h, Bip85.byteCountFromWordCount, this]
  · have h0 : 0 ≤ wc := by omega
    have hc : ((wc.toNat : Nat) : Int) = wc := Int.toNat_of_nonneg h0
    simp only [h, ↓reduceIte, byteCount_eq, hc]

private theorem b64Char_not_space (n : Nat) : Text.isSpace (Bip85.b64Char n) = false := by
  unfold Bip85.b64Char
  by_cases h : n < 64
  · interval_cases n <;> decide
  · have : Bip85.b64Alphabet.length = 64 := by decide
    have hl : Bip85.b64Alphabet.length ≤ n := by omega
    simp [List.getD, List.getElem?_eq_none hl]; decide

private theorem base64_no_space : ∀ (bs : Bytes), ∀ c ∈ Bip85.base64 bs, Text.isSpace c = false
  | [] => by simp [Bip85.base64]
  | [a] => by
    intro c hc
    simp only [Bip85.base64, List.mem_cons, List.not_mem_nil, or_false] at hc
    rcases hc with h | h | h | h <;> subst h <;> first | exact b64Char_not_space _ | decide
  | [a, b] => by
    intro c hc
    simp only [Bip85.base64, List.mem_cons, List.not_mem_nil, or_false] at hc
    rcases hc with h | h | h | h <;> subst h <;> first | exact b64Char_not_space _ | decide
  | a :: b :: c' :: rest => by
    intro c hc
    simp only [Bip85.base64, List.mem_cons] at hc
    rcases hc with h | h | h | h | h
    · subst h; exact b64Char_not_space _
    · subst h; exact b64Char_not_space _
    · subst h; exact b64Char_not_space _
    · subst h; exact b64Char_not_space _
    · exact base64_no_space rest c h

/-- the five BIP85 applications -/
theorem applications_eq (P : Prims Pt) (m : Node) (param i : Int) :
    CodeObj3.b85_bip39_mnemonic P m param i = Bip85.bip39Mnemonic P m param i ∧
    CodeObj3.b85_wif P m i = Bip85.wif P m i ∧
    CodeObj3.b85_xprv P m i = Bip85.xprv P m i ∧
    CodeObj3.b85_hex P m param i = Bip85.hex P m param i ∧
    CodeObj3.b85_pwd P m param i = Bip85.pwd P m param i := by
  refine ⟨?_, ?_, ?_, ?_, ?_⟩
  · unfold CodeObj3.b85_bip39_mnemonic Bip85.bip39Mnemonic
    have ht : ([Char.ofNat 109, Char.ofNat 47, Char.ofNat 56, Char.ofNat 51, Char.ofNat 54, Char.ofNat 57, Char.ofNat 54, Char.ofNat 57, Char.ofNat 54, Char.ofNat 56, Char.ofNat 39, Char.ofNat 47, Char.ofNat 51, Char.ofNat 57, Char.ofNat 39, Char.ofNat 47, Char.ofNat 48, Char.ofNat 39, Char.ofNat 47, Char.ofNat 123, Char.ofNat 125, Char.ofNat 39, Char.ofNat 47, Char.ofNat 123, Char.ofNat 125, Char.ofNat 39] : List Char) = Generated.bip85TplMnemonic := by decide
    simp only [ht, entropy_eq, wc_eq, mnemonic_from_entropy_eq, (correct_key_eq P [] i).2]
    cases Bip85.entropy P m (Bip85.fmt Generated.bip85TplMnemonic [param, i]) with
    | none => rfl
    | some e =>
      simp only [Option.pure_def, Option.bind_eq_bind, Option.bind_some]
  · unfold CodeObj3.b85_wif Bip85.wif
    have ht : ([Char.ofNat 109, Char.ofNat 47, Char.ofNat 56, Char.ofNat 51, Char.ofNat 54, Char.ofNat 57, Char.ofNat 54, Char.ofNat 57, Char.ofNat 54, Char.ofNat 56, Char.ofNat 39, Char.ofNat 47, Char.ofNat 50, Char.ofNat 39, Char.ofNat 47, Char.ofNat 123, Char.ofNat 125, Char.ofNat 39] : List Char) = Generated.bip85TplWif := by decide
    simp only [ht, entropy_eq, (correct_key_eq P [] i).2, (correct_key_eq P _ 0).1, wif_eq]
    cases Bip85.entropy P m (Bip85.fmt Generated.bip85TplWif [i]) with
    | none => rfl
    | some e =>
      simp only [Option.pure_def, Option.bind_eq_bind, Option.bind_some]
      cases Bip85.correctKey P (e.take 32)
      · simp
      · simp; cases mkPriv P.curve (e.take 32) <;> rfl
  · unfold CodeObj3.b85_xprv Bip85.xprv
    have ht : ([Char.ofNat 109, Char.ofNat 47, Char.ofNat 56, Char.ofNat 51, Char.ofNat 54, Char.ofNat 57, Char.ofNat 54, Char.ofNat 57, Char.ofNat 54, Char.ofNat 56, Char.ofNat 39, Char.ofNat 47, Char.ofNat 51, Char.ofNat 50, Char.ofNat 39, Char.ofNat 47, Char.ofNat 123, Char.ofNat 125, Char.ofNat 39] : List Char) = Generated.bip85TplXprv := by decide
    simp only [ht, entropy_eq, (correct_key_eq P [] i).2, (correct_key_eq P _ 0).1]
    cases Bip85.entropy P m (Bip85.fmt Generated.bip85TplXprv [i]) with
    | none => rfl
    | some e =>
      simp only [Option.pure_def, Option.bind_eq_bind, Option.bind_some]
      cases Bip85.correctKey P (e.drop 32)
      · simp
      · simp only [↓reduceIte, Option.bind_some]
        rw [(extended_keys_eq P _ none).2 rfl]
  · unfold CodeObj3.b85_hex Bip85.hex
    have ht : ([Char.ofNat 109, Char.ofNat 47, Char.ofNat 56, Char.ofNat 51, Char.ofNat 54, Char.ofNat 57, Char.ofNat 54, Char.ofNat 57, Char.ofNat 54, Char.ofNat 56, Char.ofNat 39, Char.ofNat 47, Char.ofNat 49, Char.ofNat 50, Char.ofNat 56, Char.ofNat 49, Char.ofNat 54, Char.ofNat 57, Char.ofNat 39, Char.ofNat 47, Char.ofNat 123, Char.ofNat 125, Char.ofNat 39, Char.ofNat 47, Char.ofNat 123, Char.ofNat 125, Char.ofNat 39] : List Char) = Generated.bip85TplHex := by decide
    have hb : Generated.bip85HexBounds = (16, 64) := by decide
    simp only [ht, hb, entropy_eq, (correct_key_eq P [] i).2]
    by_cases hr : (16 : Int) ≤ param ∧ param ≤ 64
    · simp only [hr, and_self, not_true_eq_false, ↓reduceIte, Nat.cast_ofNat]
      cases Bip85.entropy P m (Bip85.fmt Generated.bip85TplHex [param, i]) <;> rfl
    · simp [hr]
  · unfold CodeObj3.b85_pwd Bip85.pwd
    have ht : ([Char.ofNat 109, Char.ofNat 47, Char.ofNat 56, Char.ofNat 51, Char.ofNat 54, Char.ofNat 57, Char.ofNat 54, Char.ofNat 57, Char.ofNat 54, Char.ofNat 56, Char.ofNat 39, Char.ofNat 47, Char.ofNat 55, Char.ofNat 48, Char.ofNat 55, Char.ofNat 55, Char.ofNat 54, Char.ofNat 52, Char.ofNat 39, Char.ofNat 47, Char.ofNat 123, Char.ofNat 125, Char.ofNat 39, Char.ofNat 47, Char.ofNat 123, Char.ofNat 125, Char.ofNat 39] : List Char) = Generated.bip85TplPwd := by decide
    have hb : Generated.bip85PwdBounds = (20, 86) := by decide
    simp only [ht, hb, entropy_eq, (correct_key_eq P [] i).2]
    by_cases hr : (20 : Int) ≤ param ∧ param ≤ 86
    · simp only [hr, and_self, not_true_eq_false, ↓reduceIte, Nat.cast_ofNat]
      cases Bip85.entropy P m (Bip85.fmt Generated.bip85TplPwd [param, i]) with
      | none => rfl
      | some e => simp [Text.strip_of_all (base64_no_space e)]
    · simp [hr]


/-- one row of `group`, then `group` itself (the list comprehension is a `mapM` of rows) -/
theorem group_eq (P : Prims Pt) (w : Wallet) (nodes : List Node) (addr : Node → Option (List Char)) :
    CodeObj3.pw_group P w nodes addr = group P w addr nodes := by
  unfold CodeObj3.pw_group group
  have hrow : ∀ nd, (do pure (Json.arr [Json.str (nodeRepr nd), Json.str (← addr nd),
        Json.str (toHex (CodeObj2.pk_sec P (← CodeObj.node_public_key P nd) true)),
        optStr (← (if CodeObj2.w_watch_only w = true then pure (none : Option (List Char))
          else (do pure (some (Code.private_key_wif P.hash256 (privBytes (← CodeObj.prv_private_key P nd)) true w.testnet)) :
            Option (Option (List Char)))))]) : Option Json) = groupRow P w addr nd := by
    intro nd
    unfold groupRow
    simp only [public_key_eq, private_key_eq, (addresses_eq P w nd).1, (pk_basic_eq P _ true []).1, wif_eq]
    cases addr nd with
    | none => rfl
    | some a =>
      cases pubKey P nd with
      | none => rfl
      | some K =>
        cases w.watchOnly
        · simp; cases prvKey P nd <;> rfl
        · simp
  simp only [hrow]

private theorem acct_eq (P : Prims Pt) (w : Wallet) (purpose account : Nat) (iv : Nat × Nat)
    (addr : Node → Option (List Char)) :
    (do
      let acct_node ← CodeObj.pub_derive_path P w.master
        [purpose + 2 ^ 31, (if w.testnet = true then 1 + 2 ^ 31 else 2 ^ 31), account + 2 ^ 31]
      let acct_ext_keys ← CodeObj2.w_node_extended_keys P w acct_node
      let external_chain_node ← CodeObj.pub_derive_path P acct_node ([0] : List Nat)
      let rows ← CodeObj3.pw_group P w (← CodeObj.pub_generate_children P external_chain_node iv) addr
      pure (acct_ext_keys, rows) : Option (Json × List Json)) = bipAccount P w purpose addr account iv.1 iv.2 := by
  unfold bipAccount
  have hh : hardened = 2 ^ 31 := by decide
  simp only [derive_path_eq, (node_keys_eq P w _ 0).2.2.2, group_eq, hh]
  cases derivePath P w.master [purpose + 2 ^ 31, if w.testnet = true then 1 + 2 ^ 31 else 2 ^ 31, account + 2 ^ 31] with
  | none => rfl
  | some acct =>
    simp only [Option.pure_def, Option.bind_eq_bind, Option.bind_some]
    cases nodeExtendedKeys P w acct with
    | none => rfl
    | some keys =>
      simp only [Option.bind_some]
      cases derivePath P acct [0] with
      | none => rfl
      | some ext =>
        simp only [Option.bind_some]
        obtain ⟨a, b⟩ := iv
        rw [generate_children_eq]
        cases generateChildren P ext a b with
        | none => rfl
        | some ch => simp; cases group P w addr ch <;> rfl

/-- `bip44 / bip49 / bip84`: account path, account extended keys, rows of the external chain -/
theorem accounts_eq (P : Prims Pt) (w : Wallet) (account a b : Nat) :
    CodeObj3.pw_bip44 P w account (a, b) = bipAccount P w 44 (p2pkhAddress P w.testnet) account a b ∧
    CodeObj3.pw_bip49 P w account (a, b) = bipAccount P w 49 (p2shP2wpkhAddress P w.testnet) account a b ∧
    CodeObj3.pw_bip84 P w account (a, b) = bipAccount P w 84 (p2wpkhAddress P w.testnet) account a b := by
  have f1 : CodeObj2.w_p2pkh_address P w = p2pkhAddress P w.testnet := funext fun nd => (addresses_eq P w nd).2.1
  have f2 : CodeObj2.w_p2sh_p2wpkh_address P w = p2shP2wpkhAddress P w.testnet := funext fun nd => (addresses_eq P w nd).2.2.2.1
  have f3 : CodeObj2.w_p2wpkh_address P w = p2wpkhAddress P w.testnet := funext fun nd => (addresses_eq P w nd).2.2.1
  refine ⟨?_, ?_, ?_⟩
  · rw [← acct_eq P w 44 account (a, b), ← f1]; rfl
  · rw [← acct_eq P w 49 account (a, b), ← f2]; rfl
  · rw [← acct_eq P w 84 account (a, b), ← f3]; rfl


/-- `bip85_data` (refused on watch-only wallets: `self.bip85` is `None`), `master_data`, `generate` -/
theorem report_eq (P : Prims Pt) (w : Wallet) (account a b : Nat) :
    CodeObj3.pw_bip85_data P w = bip85Data P w ∧ CodeObj3.pw_master_data w = masterData w ∧
      CodeObj3.pw_generate P w account (a, b) = generate P w account a b := by
  have h85 : CodeObj3.pw_bip85_data P w = bip85Data P w := by
    unfold CodeObj3.pw_bip85_data bip85Data CodeObj3.T2w
    simp only [(addresses_eq P w w.master).1, (applications_eq P w.master _ _).1, (applications_eq P w.master 0 _).2.1,
      (applications_eq P w.master 0 _).2.2.1]
    cases w.watchOnly
    · simp only [Bool.false_eq_true, ↓reduceIte]
      cases Bip85.bip39Mnemonic P w.master 24 0 <;> [rfl; skip]
      cases Bip85.bip39Mnemonic P w.master 18 0 <;> [rfl; skip]
      cases Bip85.bip39Mnemonic P w.master 12 0 <;> [rfl; skip]
      cases Bip85.wif P w.master 0 <;> [rfl; skip]
      cases Bip85.wif P w.master 1 <;> [rfl; skip]
      cases Bip85.wif P w.master 2 <;> [rfl; skip]
      cases Bip85.xprv P w.master 0 <;> [rfl; skip]
      cases Bip85.xprv P w.master 1 <;> [rfl; skip]
      cases Bip85.xprv P w.master 2 <;> rfl
    · rfl
  refine ⟨h85, rfl, ?_⟩
  unfold CodeObj3.pw_generate generate
  rw [(accounts_eq P w account a b).1, (accounts_eq P w account a b).2.1, (accounts_eq P w account a b).2.2, h85]
  cases bipAccount P w 44 (p2pkhAddress P w.testnet) account a b with
  | none => rfl
  | some r44 =>
    cases bipAccount P w 49 (p2shP2wpkhAddress P w.testnet) account a b with
    | none => rfl
    | some r49 =>
      cases bipAccount P w 84 (p2wpkhAddress P w.testnet) account a b with
      | none => rfl
      | some r84 =>
        obtain ⟨k44, g44⟩ := r44
        obtain ⟨k49, g49⟩ := r49
        obtain ⟨k84, g84⟩ := r84
        cases bip85Data P w <;> rfl

end BtcHd.TrPaper

namespace BtcHd.TrPaper
open BtcHd Wallet

/-- `paranoia_mode(data)` (`__main__.py`): the translated dict comprehension is the model's filter -/
theorem paranoia_eq (data : Json) : CodeObj3.paranoia_mode data = paranoia data := by
  unfold CodeObj3.paranoia_mode paranoia
  have hk : ([([Char.ofNat 66, Char.ofNat 73, Char.ofNat 80, Char.ofNat 52, Char.ofNat 52] : List Char),
      ([Char.ofNat 66, Char.ofNat 73, Char.ofNat 80, Char.ofNat 52, Char.ofNat 57] : List Char),
      ([Char.ofNat 66, Char.ofNat 73, Char.ofNat 80, Char.ofNat 56, Char.ofNat 52] : List Char)] : List (List Char)) =
      Generated.paranoiaKeys := by decide
  cases data with
  | null => rfl
  | str s => rfl
  | arr xs => rfl
  | obj kvs =>
    simp only [Py.jsonItems, hk]
    have hent : ∀ (kv : List Char × Json), (do
        let k := kv.1
        let v := kv.2
        pure (k, Json.obj [
          (([Char.ofNat 97, Char.ofNat 99, Char.ofNat 99, Char.ofNat 111, Char.ofNat 117, Char.ofNat 110, Char.ofNat 116, Char.ofNat 95, Char.ofNat 101, Char.ofNat 120, Char.ofNat 116, Char.ofNat 101, Char.ofNat 110, Char.ofNat 100, Char.ofNat 101, Char.ofNat 100, Char.ofNat 95, Char.ofNat 107, Char.ofNat 101, Char.ofNat 121, Char.ofNat 115] : List Char),
            Json.obj [(([Char.ofNat 112, Char.ofNat 97, Char.ofNat 116, Char.ofNat 104] : List Char),
                (← Py.jsonGet (← Py.jsonGet v ([Char.ofNat 97, Char.ofNat 99, Char.ofNat 99, Char.ofNat 111, Char.ofNat 117, Char.ofNat 110, Char.ofNat 116, Char.ofNat 95, Char.ofNat 101, Char.ofNat 120, Char.ofNat 116, Char.ofNat 101, Char.ofNat 110, Char.ofNat 100, Char.ofNat 101, Char.ofNat 100, Char.ofNat 95, Char.ofNat 107, Char.ofNat 101, Char.ofNat 121, Char.ofNat 115] : List Char)) ([Char.ofNat 112, Char.ofNat 97, Char.ofNat 116, Char.ofNat 104] : List Char))),
              (([Char.ofNat 112, Char.ofNat 117, Char.ofNat 98] : List Char),
                (← Py.jsonGet (← Py.jsonGet v ([Char.ofNat 97, Char.ofNat 99, Char.ofNat 99, Char.ofNat 111, Char.ofNat 117, Char.ofNat 110, Char.ofNat 116, Char.ofNat 95, Char.ofNat 101, Char.ofNat 120, Char.ofNat 116, Char.ofNat 101, Char.ofNat 110, Char.ofNat 100, Char.ofNat 101, Char.ofNat 100, Char.ofNat 95, Char.ofNat 107, Char.ofNat 101, Char.ofNat 121, Char.ofNat 115] : List Char)) ([Char.ofNat 112, Char.ofNat 117, Char.ofNat 98] : List Char)))]),
          (([Char.ofNat 103, Char.ofNat 114, Char.ofNat 111, Char.ofNat 117, Char.ofNat 112, Char.ofNat 115] : List Char),
            Json.arr (← (← Py.jsonElems (← Py.jsonGet v ([Char.ofNat 103, Char.ofNat 114, Char.ofNat 111, Char.ofNat 117, Char.ofNat 112, Char.ofNat 115] : List Char))).mapM (fun group => Py.jsonDropLast group)))]) :
          Option (List Char × Json)) = (paranoiaEntry kv.2).map fun e => (kv.1, e) := by
      intro kv
      obtain ⟨k, v⟩ := kv
      have e1 : "account_extended_keys".toList = ([Char.ofNat 97, Char.ofNat 99, Char.ofNat 99, Char.ofNat 111, Char.ofNat 117, Char.ofNat 110, Char.ofNat 116, Char.ofNat 95, Char.ofNat 101, Char.ofNat 120, Char.ofNat 116, Char.ofNat 101, Char.ofNat 110, Char.ofNat 100, Char.ofNat 101, Char.ofNat 100, Char.ofNat 95, Char.ofNat 107, Char.ofNat 101, Char.ofNat 121, Char.ofNat 115] : List Char) := by decide
      have e2 : "groups".toList = ([Char.ofNat 103, Char.ofNat 114, Char.ofNat 111, Char.ofNat 117, Char.ofNat 112, Char.ofNat 115] : List Char) := by decide
      have e3 : "path".toList = ([Char.ofNat 112, Char.ofNat 97, Char.ofNat 116, Char.ofNat 104] : List Char) := by decide
      have e4 : "pub".toList = ([Char.ofNat 112, Char.ofNat 117, Char.ofNat 98] : List Char) := by decide
      have hrows : ∀ rows : List Json, rows.mapM (fun group => Py.jsonDropLast group) =
          rows.mapM (fun (r : Json) => match r with | Json.arr cols => some (Json.arr cols.dropLast) | _ => none) := by
        intro rows
        congr 1
      unfold paranoiaEntry
      rw [e1, e2, e3, e4]
      cases v with
      | null => rfl
      | str s => rfl
      | arr xs => rfl
      | obj inner =>
        simp only [Py.jsonGet]
        cases h1 : inner.lookup ([Char.ofNat 97, Char.ofNat 99, Char.ofNat 99, Char.ofNat 111, Char.ofNat 117, Char.ofNat 110, Char.ofNat 116, Char.ofNat 95, Char.ofNat 101, Char.ofNat 120, Char.ofNat 116, Char.ofNat 101, Char.ofNat 110, Char.ofNat 100, Char.ofNat 101, Char.ofNat 100, Char.ofNat 95, Char.ofNat 107, Char.ofNat 101, Char.ofNat 121, Char.ofNat 115] : List Char) with
        | none => rfl
        | some ak =>
          cases ak with
          | null => simp [Py.jsonGet]
          | str s => simp [Py.jsonGet]
          | arr xs => simp [Py.jsonGet]
          | obj keys =>
            simp only [Option.pure_def, Option.bind_eq_bind, Option.bind_some, Py.jsonGet]
            cases h3 : keys.lookup ([Char.ofNat 112, Char.ofNat 97, Char.ofNat 116, Char.ofNat 104] : List Char) with
            | none => simp; cases inner.lookup ([Char.ofNat 103, Char.ofNat 114, Char.ofNat 111, Char.ofNat 117, Char.ofNat 112, Char.ofNat 115] : List Char) with
                | none => rfl
                | some g => cases g <;> simp [*]
            | some pth =>
              cases h4 : keys.lookup ([Char.ofNat 112, Char.ofNat 117, Char.ofNat 98] : List Char) with
              | none => simp; cases inner.lookup ([Char.ofNat 103, Char.ofNat 114, Char.ofNat 111, Char.ofNat 117, Char.ofNat 112, Char.ofNat 115] : List Char) with
                  | none => rfl
                  | some g => cases g <;> simp [*]
              | some pub =>
                cases h2 : inner.lookup ([Char.ofNat 103, Char.ofNat 114, Char.ofNat 111, Char.ofNat 117, Char.ofNat 112, Char.ofNat 115] : List Char) with
                | none => rfl
                | some g =>
                  cases g with
                  | null => simp [Py.jsonElems]
                  | str s => simp [Py.jsonElems]
                  | obj o => simp [Py.jsonElems]
                  | arr rows =>
                    simp only [Option.bind_some, Py.jsonElems, hrows, h3, h4]
                    cases rows.mapM (fun (r : Json) => match r with | Json.arr cols => some (Json.arr cols.dropLast) | _ => none) <;> rfl
    simp only [hent]
    simp only [Option.pure_def, Option.bind_eq_bind, Option.bind_some]
    cases (kvs.filter fun (kv : List Char × Json) => decide (kv.1 ∈ Generated.paranoiaKeys)).mapM
      (fun (kv : List Char × Json) => (paranoiaEntry kv.2).map fun e => (kv.1, e)) <;> rfl

end BtcHd.TrPaper

namespace BtcHd.TrPaper
open BtcHd Wallet Cli

variable {Pt : Type}

/-- how `argparse` fills the `Namespace` for a parsed command line (global options + one sub-command): the table the
translation of `main` relies on -/
def nsOf (g : Globals) : Cmd → CodeObj3.Namespace
  | .new pw len => { command := ([Char.ofNat 110, Char.ofNat 101, Char.ofNat 119] : List Char), mnemonic_len := len, password := pw, testnet := g.testnet,
                     account := g.account, interval := (g.a, g.b), paranoia := g.paranoia, file := g.file }
  | .fromXprv k => { command := ([Char.ofNat 102, Char.ofNat 114, Char.ofNat 111, Char.ofNat 109, Char.ofNat 45, Char.ofNat 109, Char.ofNat 97, Char.ofNat 115, Char.ofNat 116, Char.ofNat 101, Char.ofNat 114, Char.ofNat 45, Char.ofNat 120, Char.ofNat 112, Char.ofNat 114, Char.ofNat 118] : List Char), master_xprv := k, testnet := g.testnet,
                     account := g.account, interval := (g.a, g.b), paranoia := g.paranoia, file := g.file }
  | .fromMnemonic m pw => { command := ([Char.ofNat 102, Char.ofNat 114, Char.ofNat 111, Char.ofNat 109, Char.ofNat 45, Char.ofNat 109, Char.ofNat 110, Char.ofNat 101, Char.ofNat 109, Char.ofNat 111, Char.ofNat 110, Char.ofNat 105, Char.ofNat 99] : List Char), mnemonic := m, password := pw, testnet := g.testnet,
                            account := g.account, interval := (g.a, g.b), paranoia := g.paranoia, file := g.file }
  | .fromSeed s => { command := ([Char.ofNat 102, Char.ofNat 114, Char.ofNat 111, Char.ofNat 109, Char.ofNat 45, Char.ofNat 98, Char.ofNat 105, Char.ofNat 112, Char.ofNat 51, Char.ofNat 57, Char.ofNat 45, Char.ofNat 115, Char.ofNat 101, Char.ofNat 101, Char.ofNat 100] : List Char), seed_hex := s, testnet := g.testnet,
                     account := g.account, interval := (g.a, g.b), paranoia := g.paranoia, file := g.file }
  | .fromEntropy e pw => { command := ([Char.ofNat 102, Char.ofNat 114, Char.ofNat 111, Char.ofNat 109, Char.ofNat 45, Char.ofNat 101, Char.ofNat 110, Char.ofNat 116, Char.ofNat 114, Char.ofNat 111, Char.ofNat 112, Char.ofNat 121, Char.ofNat 45, Char.ofNat 104, Char.ofNat 101, Char.ofNat 120] : List Char), entropy_hex := e, password := pw, testnet := g.testnet,
                           account := g.account, interval := (g.a, g.b), paranoia := g.paranoia, file := g.file }

/-- `main()` after `parse_args`: constructor dispatch, `generate`, optional `paranoia_mode`, output route — the
translated function is the tail of the model's `Cli.run` for every accepted command line -/
theorem main_eq (P : Prims Pt) (os : Nat → Bytes) (fs : FsClass) (argv : List (List Char)) (g : Globals) (cmd : Cmd)
    (h : parseArgs fs argv = some (g, some cmd)) :
    run P os fs argv = CodeObj3.main_body P os (nsOf g cmd) := by
  have tail : ∀ (w : Option Wallet) (ns : CodeObj3.Namespace), ns.account = g.account → ns.interval = (g.a, g.b) →
      ns.paranoia = g.paranoia → ns.file = g.file →
      (match w with
        | none => Outcome.reject
        | some w =>
          match generate P w g.account g.a g.b with
          | none => .reject
          | some data =>
            match (if g.paranoia then paranoia data else some data) with
            | none => .reject
            | some d => .emit (if g.file then .file else .stdout) d) =
      (match (some w : Option (Option Wallet)) with
        | none => Outcome.help
        | some none => .reject
        | some (some wallet) =>
          match CodeObj3.pw_generate P wallet ns.account ns.interval with
          | none => .reject
          | some data =>
            match (if ns.paranoia = true then CodeObj3.paranoia_mode data else some data) with
            | none => .reject
            | some data => .emit (if ns.file = true then .file else .stdout) data) := by
    intro w ns h1 h2 h3 h4
    cases w with
    | none => rfl
    | some w =>
      simp only [h1, h2, h3, h4, (report_eq P w g.account g.a g.b).2.2, paranoia_eq]
  unfold run CodeObj3.main_body
  rw [h]
  have hd : ∀ cmd', cmd' = cmd → (let args := nsOf g cmd'
      (if args.command = ([Char.ofNat 110, Char.ofNat 101, Char.ofNat 119] : List Char) then some (Wallet.newWallet P os args.mnemonic_len args.password args.testnet)
       else if args.command = ([Char.ofNat 102, Char.ofNat 114, Char.ofNat 111, Char.ofNat 109, Char.ofNat 45, Char.ofNat 109, Char.ofNat 97, Char.ofNat 115, Char.ofNat 116, Char.ofNat 101, Char.ofNat 114, Char.ofNat 45, Char.ofNat 120, Char.ofNat 112, Char.ofNat 114, Char.ofNat 118] : List Char) then some (CodeObj2.w_from_extended_key P args.master_xprv)
       else if args.command = ([Char.ofNat 102, Char.ofNat 114, Char.ofNat 111, Char.ofNat 109, Char.ofNat 45, Char.ofNat 109, Char.ofNat 110, Char.ofNat 101, Char.ofNat 109, Char.ofNat 111, Char.ofNat 110, Char.ofNat 105, Char.ofNat 99] : List Char) then some (CodeObj2.w_from_mnemonic P args.mnemonic args.password args.testnet)
       else if args.command = ([Char.ofNat 102, Char.ofNat 114, Char.ofNat 111, Char.ofNat 109, Char.ofNat 45, Char.ofNat 98, Char.ofNat 105, Char.ofNat 112, Char.ofNat 51, Char.ofNat 57, Char.ofNat 45, Char.ofNat 115, Char.ofNat 101, Char.ofNat 101, Char.ofNat 100] : List Char) then some (CodeObj2.w_from_bip39_seed_hex P args.seed_hex args.testnet)
       else if args.command = ([Char.ofNat 102, Char.ofNat 114, Char.ofNat 111, Char.ofNat 109, Char.ofNat 45, Char.ofNat 101, Char.ofNat 110, Char.ofNat 116, Char.ofNat 114, Char.ofNat 111, Char.ofNat 112, Char.ofNat 121, Char.ofNat 45, Char.ofNat 104, Char.ofNat 101, Char.ofNat 120] : List Char) then some (CodeObj2.w_from_entropy_hex P args.entropy_hex args.password args.testnet)
       else none : Option (Option Wallet))) = some (construct P os g cmd') := by
    intro cmd' _
    cases cmd' with
    | new pw len =>
      simp only [nsOf, construct]
      rw [if_pos trivial]
    | fromXprv k =>
      simp only [nsOf, construct]
      rw [if_neg (by decide), if_pos trivial, (TrWallet.constructors_eq P ⟨default, false, none, none⟩ [] [] [] [] [] k [] false).2.2.2.2.2]
    | fromMnemonic m pw =>
      simp only [nsOf, construct]
      rw [if_neg (by decide), if_neg (by decide), if_pos trivial,
        (TrWallet.constructors_eq P ⟨default, false, none, none⟩ [] [] m pw [] [] [] g.testnet).2.2.2.1]
    | fromSeed sd =>
      simp only [nsOf, construct]
      rw [if_neg (by decide), if_neg (by decide), if_neg (by decide), if_pos trivial,
        (TrWallet.constructors_eq P ⟨default, false, none, none⟩ [] sd [] [] [] [] [] g.testnet).2.2.1]
    | fromEntropy e pw =>
      simp only [nsOf, construct]
      rw [if_neg (by decide), if_neg (by decide), if_neg (by decide), if_neg (by decide),
        if_pos trivial, (TrWallet.constructors_eq P ⟨default, false, none, none⟩ [] [] [] pw e [] [] g.testnet).2.2.2.2.1]
  have hd' := hd cmd rfl
  simp only at hd'
  rw [hd']
  exact tail (construct P os g cmd) (nsOf g cmd) (by cases cmd <;> rfl) (by cases cmd <;> rfl) (by cases cmd <;> rfl)
    (by cases cmd <;> rfl)

end BtcHd.TrPaper
