/-
Translated Python (`BtcHd.Code`, generated from /repo by harness/translate.py) = hand-written model:
`bip39.py` length helpers, `correct_entropy_bits_value`, `mnemonic_from_entropy` (the whole sentence construction of
C04, SHA-256 a parameter on both sides) and `bip85.py` `byte_count_from_word_count`.
-/
import BtcHd.Generated.Code
import BtcHd.Model.Bip39
import BtcHd.Model.Bip85

namespace BtcHd.Translated
open BtcHd

/-- The translated `checksum_length` is the model's `checksumLength`. -/
theorem checksumLength_eq : Code.checksum_length = Bip39.checksumLength := by
  funext n
  simp [Code.checksum_length, Bip39.checksumLength]

/-- The translated `mnemonic_sentence_length` is the model's `sentenceLength`. -/
theorem sentenceLength_eq : Code.mnemonic_sentence_length = Bip39.sentenceLength := by
  funext n
  simp [Code.mnemonic_sentence_length, Bip39.sentenceLength, checksumLength_eq]

/-- The translated `byte_count_from_word_count` agrees with the model on every natural word count. -/
theorem byteCount_eq (wc : Nat) :
    Code.byte_count_from_word_count wc = Bip85.byteCountFromWordCount (wc : Int) := by
  unfold Code.byte_count_from_word_count Bip85.byteCountFromWordCount
  by_cases h : wc ∈ Generated.correctMnemonicLength <;> simp [h]

/-- The translated `correct_entropy_bits_value` fails exactly outside the five legal sizes. -/
theorem correct_bits_eq (n : Nat) :
    Code.correct_entropy_bits_value n = if n ∈ Generated.correctEntropyBits then some () else none := by
  unfold Code.correct_entropy_bits_value
  by_cases h : n ∈ Generated.correctEntropyBits <;> simp [h]

/-- The translated `mnemonic_from_entropy` is the model's `mnemonicFromEntropy`, for every hex text and every hash
function: `bytes.fromhex`, the size guard, `bin()`/`zfill`/slicing, the 11-character chunks, `int(·, 2)`, the word
look-up and the join. -/
theorem mnemonic_from_entropy_eq (sha256 : Bytes → Bytes) (e : List Char) :
    Code.mnemonic_from_entropy sha256 e = Bip39.mnemonicFromEntropy sha256 e := by
  unfold Code.mnemonic_from_entropy Bip39.mnemonicFromEntropy Bip39.wordsFromEntropy Bip39.indexesFromEntropy
  simp only [correct_bits_eq, checksumLength_eq]
  cases fromHex e with
  | none => rfl
  | some eb =>
    simp only [Option.bind_eq_bind, Option.bind_some, Code.big_endian_to_int, Id.run_pure]
    by_cases h : eb.length * 8 ∈ Generated.correctEntropyBits
    · simp only [h, if_true, Option.bind_some]
      generalize List.mapM Bip39.wordAt _ = r
      cases r <;> rfl
    · simp [h]

example : Code.checksum_length 256 = 8 := by decide +kernel
example : Code.mnemonic_sentence_length 128 = 12 := by decide +kernel
example : Code.byte_count_from_word_count 24 = some 32 := by decide +kernel
example : Code.byte_count_from_word_count 13 = none := by decide +kernel

end BtcHd.Translated
