/-
Translated Python (`BtcHd.Code`, generated from /repo by harness/translate.py) = hand-written model:
`bip39.py` length helpers and `bip85.py` `byte_count_from_word_count`.
-/
import BtcHd.Generated.Code
import BtcHd.Model.Bip39
import BtcHd.Model.Bip85

namespace BtcHd.Translated
open BtcHd

/-- The translated `checksum_length` is the model's `checksumLength`. -/
theorem checksumLength_eq : Code.checksum_length = Bip39.checksumLength := by
  funext n
  simp [Code.checksum_length, Bip39.checksumLength]

/-- The translated `mnemonic_sentence_length` is the model's `sentenceLength`. -/
theorem sentenceLength_eq : Code.mnemonic_sentence_length = Bip39.sentenceLength := by
  funext n
  simp [Code.mnemonic_sentence_length, Bip39.sentenceLength, checksumLength_eq]

/-- The translated `byte_count_from_word_count` agrees with the model on every natural word count. -/
theorem byteCount_eq (wc : Nat) :
    Code.byte_count_from_word_count wc = Bip85.byteCountFromWordCount (wc : Int) := by
  unfold Code.byte_count_from_word_count Bip85.byteCountFromWordCount
  by_cases h : wc ∈ Generated.correctMnemonicLength <;> simp [h]

example : Code.checksum_length 256 = 8 := by decide +kernel
example : Code.mnemonic_sentence_length 128 = 12 := by decide +kernel
example : Code.byte_count_from_word_count 24 = some 32 := by decide +kernel
example : Code.byte_count_from_word_count 13 = none := by decide +kernel

end BtcHd.Translated
